(** C15 — lemmas about the advertising-data model. *)
From Coq Require Import String Ascii List NArith ZArith Arith Bool Lia ZifyBool ZifyN ZifyNat.
From Whad Require Import Lib.Bytes Lib.Utf8 C15.Model.
Import ListNotations.
Ltac Zify.zify_post_hook ::= Z.to_euclidean_division_equations.
Open Scope N_scope.

(** ** Generic helpers *)

Lemma wf_bytes_firstn n l : wf_bytes l = true -> wf_bytes (firstn n l) = true.
Proof.
  intros H. rewrite <- (firstn_skipn n l), wf_bytes_app in H.
  apply andb_true_iff in H. tauto.
Qed.

Lemma wf_bytes_skipn n l : wf_bytes l = true -> wf_bytes (skipn n l) = true.
Proof.
  intros H. rewrite <- (firstn_skipn n l), wf_bytes_app in H.
  apply andb_true_iff in H. tauto.
Qed.

Lemma wf_bytes_slice a b l : wf_bytes l = true -> wf_bytes (slice a b l) = true.
Proof. intros H. unfold slice. apply wf_bytes_firstn, wf_bytes_skipn, H. Qed.

Lemma slice_length a b (l : bytes) : length (slice a b l) = Nat.min (b - a) (length l - a).
Proof. unfold slice. rewrite firstn_length, skipn_length. reflexivity. Qed.

Lemma skipn_app_exact {A} (a b : list A) n : n = length a -> skipn n (a ++ b) = b.
Proof.
  intros ->. rewrite skipn_app, skipn_all, Nat.sub_diag. reflexivity.
Qed.

Lemma firstn_app_exact {A} (a b : list A) n : n = length a -> firstn n (a ++ b) = a.
Proof.
  intros ->. rewrite firstn_app, firstn_all, Nat.sub_diag. cbn [firstn]. apply app_nil_r.
Qed.

Definition okerr {A} (o : outcome A) : Prop := (exists a, o = Ok a) \/ o = Raise AdvDataError.

Lemma okerr_ok {A} (a : A) : okerr (Ok a).
Proof. left; eauto. Qed.
Lemma okerr_err {A} : okerr (@Raise A AdvDataError).
Proof. right; reflexivity. Qed.

Lemma okerr_bind {A B} (o : outcome A) (f : A -> outcome B) :
  okerr o -> (forall a, o = Ok a -> okerr (f a)) -> okerr (bind o f).
Proof.
  intros [[a ->]| ->] Hf; cbn [bind]; [apply Hf; reflexivity | apply okerr_err].
Qed.

Lemma mapM_ok {A B} (f : A -> outcome B) (P : B -> Prop) l :
  (forall x, In x l -> exists y, f x = Ok y /\ P y) ->
  exists ys, mapM f l = Ok ys /\ Forall P ys.
Proof.
  induction l as [|x l IH]; intros H; cbn [mapM].
  - exists []. split; [reflexivity|constructor].
  - destruct (H x (or_introl eq_refl)) as (y & Hy & Py). rewrite Hy. cbn [bind].
    destruct IH as (ys & Hys & Pys); [intros z Hz; apply H; right; exact Hz|].
    rewrite Hys. cbn [bind]. exists (y :: ys). split; [reflexivity|constructor; assumption].
Qed.

Lemma mapM_map {A B C} (g : B -> outcome C) (h : A -> B) l :
  mapM (fun i => g (h i)) l = mapM g (map h l).
Proof. induction l as [|x l IH]; cbn [mapM map]; [reflexivity|rewrite IH; reflexivity]. Qed.

Lemma mapM_all_ok {A B} (f : A -> outcome B) (g : A -> B) l :
  (forall x, In x l -> f x = Ok (g x)) -> mapM f l = Ok (map g l).
Proof.
  induction l as [|x l IH]; intros H; cbn [mapM map]; [reflexivity|].
  rewrite (H x (or_introl eq_refl)). cbn [bind]. rewrite IH; [reflexivity|].
  intros z Hz. apply H. right. exact Hz.
Qed.

(** ** Primitive operations inside their domain *)

Lemma uuid_of_bytes_2 p : length p = 2%nat -> uuid_of_bytes p = Ok {| packed := p; uty := 1 |}.
Proof. destruct p as [|a [|b [|c p]]]; intros H; try discriminate H. reflexivity. Qed.

Lemma uuid_of_bytes_16 p : length p = 16%nat -> uuid_of_bytes p = Ok {| packed := p; uty := 2 |}.
Proof. intros H. unfold uuid_of_bytes. rewrite H. reflexivity. Qed.

Lemma bdaddr_6 p : length p = 6%nat -> bdaddr_from_bytes p = Ok p.
Proof. intros H. unfold bdaddr_from_bytes. rewrite H. reflexivity. Qed.

(** chunk [i] of a payload cut in [k]-byte pieces is complete when [i < len/k] *)
Lemma chunk_length k (p : bytes) i :
  (0 < k)%nat -> (i < length p / k)%nat -> length (slice (i * k) ((i + 1) * k) p) = k.
Proof.
  intros Hk Hi. rewrite slice_length.
  pose proof (Nat.div_mod_eq (length p) k) as E.
  assert ((i + 1) * k <= (length p / k) * k)%nat by (apply Nat.mul_le_mono_r; lia).
  nia.
Qed.

(** ** The parser is total: only AdvDataError (and the overflow class) escape *)

Section Total.
Variable urlnorm : text -> url_result.

Lemma decode_uuid_list_ok k ty (p : bytes) :
  (0 < k)%nat ->
  (forall q, length q = k -> uuid_of_bytes q = Ok {| packed := q; uty := ty |}) ->
  exists us, decode_uuid_list k p = Ok us /\ Forall (fun u => uty u = ty) us.
Proof.
  intros Hk Hu. unfold decode_uuid_list. apply mapM_ok. intros i Hi. apply in_seq in Hi.
  eexists. split; [apply Hu, chunk_length; [exact Hk|lia]|reflexivity].
Qed.

Lemma forallb_uty ty us : Forall (fun u => uty u = ty) us -> forallb (fun u => uty u =? ty) us = true.
Proof.
  intros H. apply forallb_forall. intros u Hu. rewrite Forall_forall in H.
  rewrite (H u Hu). apply N.eqb_refl.
Qed.

Lemma decode_uuid16s_total c p : okerr (decode_uuid16s c p).
Proof.
  unfold decode_uuid16s.
  destruct (decode_uuid_list_ok 2 1 p ltac:(lia) uuid_of_bytes_2) as (us & -> & Hus).
  cbn [bind]. unfold mk_uuid16s. rewrite (forallb_uty _ _ Hus). apply okerr_ok.
Qed.

Lemma decode_uuid128s_total c p : okerr (decode_uuid128s c p).
Proof.
  unfold decode_uuid128s.
  destruct (decode_uuid_list_ok 16 2 p ltac:(lia) uuid_of_bytes_16) as (us & -> & Hus).
  cbn [bind]. unfold mk_uuid128s. rewrite (forallb_uty _ _ Hus). apply okerr_ok.
Qed.

Ltac wfb H := unfold wf_bytes, wf_byte in H; cbn [forallb] in H.

Lemma decode_flags_total p : okerr (decode_flags p).
Proof.
  unfold decode_flags. destruct p as [|a [|b p]]; cbn [length Nat.eqb]; try apply okerr_err.
  cbn [index nth_error bind]. apply okerr_ok.
Qed.

Lemma decode_txpower_total p : okerr (decode_txpower p).
Proof.
  unfold decode_txpower. destruct p as [|a p]; cbn [length Nat.leb]; [apply okerr_err|].
  cbn [index nth_error bind]. apply okerr_ok.
Qed.

Lemma decode_manuf_total p : okerr (decode_manuf p).
Proof.
  unfold decode_manuf. destruct p as [|a [|b p]]; cbn [length Nat.leb]; try apply okerr_err.
  cbn [slice Nat.sub skipn firstn unpack_H bind]. apply okerr_ok.
Qed.

Lemma decode_connrange_total p : wf_bytes p = true -> okerr (decode_connrange p).
Proof.
  intros W. unfold decode_connrange.
  destruct p as [|a [|b [|c [|d [|e p]]]]]; cbn [length Nat.eqb]; try apply okerr_err.
  cbn [unpack_HH bind fst snd]. unfold mk_connrange, pack_H. wfb W.
  assert (E1 : (a + 256 * b <? 65536) = true) by lia.
  assert (E2 : (c + 256 * d <? 65536) = true) by lia.
  rewrite E1, E2. cbn [bind]. apply okerr_ok.
Qed.

Lemma decode_svcdata16_total p : wf_bytes p = true -> okerr (decode_svcdata16 p).
Proof.
  intros W. unfold decode_svcdata16.
  destruct p as [|a [|b p]]; cbn [length Nat.leb]; try apply okerr_err.
  cbn [slice Nat.sub skipn firstn unpack_H bind]. unfold uuid_of_int, pack_H. wfb W.
  assert (E1 : (a + 256 * b <=? 65536) = true) by lia.
  assert (E2 : (a + 256 * b <? 65536) = true) by lia.
  rewrite E1, E2. cbn [bind]. apply okerr_ok.
Qed.

Lemma decode_target_total mk p : okerr (decode_target mk p).
Proof.
  unfold decode_target.
  destruct ((0 <? length p)%nat && (length p mod 6 =? 0)%nat) eqn:E; [|apply okerr_err].
  destruct (mapM_ok (fun i => bdaddr_from_bytes (slice (6 * i) (6 * (i + 1)) p)) (fun _ => True)
                    (seq 0 (length p / 6))) as (ys & -> & _).
  { intros i Hi. apply in_seq in Hi. eexists. split; [|exact I].
    apply bdaddr_6. replace (6 * i)%nat with (i * 6)%nat by lia.
    replace (6 * (i + 1))%nat with ((i + 1) * 6)%nat by lia. apply chunk_length; lia. }
  cbn [bind]. apply okerr_ok.
Qed.

Lemma decode_appearance_total p : okerr (decode_appearance p).
Proof.
  unfold decode_appearance. destruct p as [|a [|b [|c p]]]; cbn [length Nat.eqb]; try apply okerr_err.
  cbn [unpack_H bind]. unfold mk_appearance. destruct (_ <=? _); [apply okerr_ok|apply okerr_err].
Qed.

Lemma mk_advinterval_total i : okerr (mk_advinterval i).
Proof. unfold mk_advinterval. destruct (_ <=? _); [apply okerr_ok|apply okerr_err]. Qed.

Lemma decode_advinterval_total p : okerr (decode_advinterval p).
Proof.
  unfold decode_advinterval.
  destruct p as [|a [|b [|c [|d [|e p]]]]]; cbn [length Nat.eqb]; try apply okerr_err;
    cbn [unpack_H unpack_I index nth_error bind]; apply mk_advinterval_total.
Qed.

Lemma decode_devaddr_total p : okerr (decode_devaddr p).
Proof.
  unfold decode_devaddr.
  destruct p as [|a0 [|a1 [|a2 [|a3 [|a4 [|a5 [|a6 [|a7 p]]]]]]]]; cbn [length Nat.eqb]; try apply okerr_err.
  cbn [index nth_error bind slice Nat.sub skipn firstn]. rewrite bdaddr_6 by reflexivity.
  cbn [bind]. apply okerr_ok.
Qed.

Lemma decode_lerole_total p : okerr (decode_lerole p).
Proof.
  unfold decode_lerole. destruct p as [|a [|b p]]; cbn [length Nat.eqb]; try apply okerr_err.
  cbn [index nth_error bind]. unfold mk_lerole. destruct (_ <? _); [apply okerr_ok|apply okerr_err].
Qed.

Lemma decode_svcdata128_total p : okerr (decode_svcdata128 p).
Proof.
  unfold decode_svcdata128. destruct (16 <=? length p)%nat eqn:E; [|apply okerr_err].
  apply Nat.leb_le in E.
  rewrite uuid_of_bytes_16 by (rewrite slice_length; lia).
  cbn [bind]. unfold mk_svcdata128. cbn [uty]. apply okerr_ok.
Qed.

Lemma decode_lefeatures_total p : okerr (decode_lefeatures p).
Proof. unfold decode_lefeatures. destruct (_ <=? _)%nat; [apply okerr_ok|apply okerr_err]. Qed.

Lemma mk_uri_caught url : okerr (catch_as_adv is_value_error (mk_uri urlnorm url)).
Proof.
  unfold mk_uri. destruct (urlnorm url) as [|sname uri]; [apply okerr_err|].
  destruct (match sname with [] => None | _ :: _ => scheme_of_name sname end) as [s|]; [|apply okerr_err].
  unfold encode_utf8.
  destruct (utf8_encode [scheme_code s]); cbn [bind catch_as_adv is_value_error]; [|apply okerr_err].
  destruct (utf8_encode uri); cbn [bind catch_as_adv is_value_error]; [apply okerr_ok|apply okerr_err].
Qed.

Lemma decode_uri_total p : okerr (decode_uri urlnorm p).
Proof.
  unfold decode_uri. destruct p as [|b0 r]; cbn [length Nat.leb]; [apply okerr_err|].
  apply okerr_bind.
  - unfold decode_utf8.
    destruct (utf8_decode (b0 :: r)) as [t|] eqn:E; cbn [bind catch_as_adv is_unicode_decode_error];
      [|apply okerr_err].
    destruct t as [|c t]; [exfalso; exact (utf8_decode_nonempty _ _ E)|].
    cbn [bind].
    pose proof (utf8_decode_valid _ _ E) as V. cbn [valid_text forallb] in V.
    apply andb_true_iff in V as [Vc _]. apply utf8_enc1_valid in Vc as [a Ha].
    unfold encode_utf8. cbn [utf8_encode]. rewrite Ha. cbn [bind].
    destruct (utf8_decode (skipn (length (a ++ [])) (b0 :: r)));
      cbn [bind catch_as_adv is_unicode_decode_error]; [apply okerr_ok|apply okerr_err].
  - intros sd _. destruct (scheme_of_code (fst sd)); apply mk_uri_caught.
Qed.

Lemma decode_total t p : wf_bytes p = true ->
  match decode urlnorm t p with Some o => okerr o | None => True end.
Proof.
  intros W. unfold decode.
  repeat match goal with
  | |- match (match ?x with _ => _ end) with _ => _ end => destruct x
  end;
  first [ exact I | apply okerr_ok
        | apply decode_flags_total | apply decode_uuid16s_total | apply decode_uuid128s_total
        | apply decode_txpower_total | apply decode_manuf_total
        | apply decode_connrange_total; exact W | apply decode_svcdata16_total; exact W
        | apply decode_target_total | apply decode_appearance_total | apply decode_advinterval_total
        | apply decode_devaddr_total | apply decode_lerole_total | apply decode_svcdata128_total
        | apply decode_lefeatures_total | apply decode_uri_total ].
Qed.

Lemma parse_loop_total f : forall data,
  wf_bytes data = true -> (length data <= f)%nat -> okerr (parse_loop urlnorm f data).
Proof.
  induction f as [|f IH]; intros data W Hl.
  - destruct data as [|a [|b data]]; cbn in Hl; try lia. cbn. apply okerr_ok.
  - cbn [parse_loop]. destruct (length data <? 2)%nat eqn:E; [apply okerr_ok|].
    apply Nat.ltb_ge in E. destruct data as [|l [|t data]]; cbn [length] in E; try lia.
    cbn [slice Nat.sub skipn firstn unpack_BB bind fst snd].
    destruct (N.to_nat l <=? length data + 1)%nat eqn:E2; [|apply okerr_err].
    assert (Wr : wf_bytes (skipn (N.to_nat l + 1) (l :: t :: data)) = true) by (apply wf_bytes_skipn, W).
    assert (Lr : (length (skipn (N.to_nat l + 1) (l :: t :: data)) <= f)%nat).
    { rewrite skipn_length. cbn [length] in *. lia. }
    pose proof (decode_total t (firstn (N.to_nat l + 1 - 2) (skipn 2 (l :: t :: data)))
                  (wf_bytes_slice 2 _ _ W)) as D.
    unfold slice in D.
    destruct (decode urlnorm t _) as [o|].
    + apply okerr_bind; [exact D|]. intros r _. apply okerr_bind; [apply IH; assumption|].
      intros l0 _. apply okerr_ok.
    + apply IH; assumption.
Qed.

Lemma parser_total data : wf_bytes data = true ->
  ((length data <= 31)%nat -> okerr (from_bytes urlnorm data))
  /\ ((31 < length data)%nat -> from_bytes urlnorm data = Raise AdvDataFieldListOverflow).
Proof.
  intros W. unfold from_bytes. split; intros H.
  - assert (E : (31 <? length data)%nat = false) by (apply Nat.ltb_ge; lia). rewrite E.
    apply parse_loop_total; [exact W|lia].
  - assert (E : (31 <? length data)%nat = true) by (apply Nat.ltb_lt; lia). rewrite E. reflexivity.
Qed.

(** The fuel [from_bytes] supplies is never exhausted. *)
Lemma parse_loop_fuel_enough data :
  wf_bytes data = true -> parse_loop urlnorm (length data) data <> Raise OutOfFuel.
Proof.
  intros W. destruct (parse_loop_total (length data) data W (le_n _)) as [[l ->]| ->]; discriminate.
Qed.

End Total.

(** ** Serialise then parse *)

Lemma le16_unpack n : n < 65536 -> unpack_H (le16 n) = Ok n.
Proof. intros H. unfold le16, unpack_H. f_equal. lia. Qed.

Lemma concat_length_k k (us : list bytes) :
  Forall (fun u => length u = k) us -> length (concat us) = (length us * k)%nat.
Proof.
  induction 1 as [|u us Hu _ IH]; [reflexivity|].
  cbn [concat length]. rewrite app_length, IH, Hu. lia.
Qed.

Lemma chunks_aux k (us : list bytes) :
  Forall (fun u => length u = k) us -> forall pre a, length pre = (a * k)%nat ->
  map (fun i => slice (i * k) ((i + 1) * k) (pre ++ concat us)) (seq a (length us)) = us.
Proof.
  induction 1 as [|u us Hu _ IH]; intros pre a Hp; [reflexivity|].
  cbn [length seq map concat]. f_equal.
  - unfold slice. replace ((a + 1) * k - a * k)%nat with k by nia.
    rewrite skipn_app_exact by lia. apply firstn_app_exact. lia.
  - rewrite app_assoc. apply IH. rewrite app_length. lia.
Qed.

Lemma chunks_concat k (us : list bytes) :
  (0 < k)%nat -> Forall (fun u => length u = k) us ->
  map (fun i => slice (i * k) ((i + 1) * k) (concat us)) (seq 0 (length (concat us) / k)) = us.
Proof.
  intros Hk H. rewrite (concat_length_k k us H), Nat.div_mul by lia.
  apply (chunks_aux k us H [] 0). reflexivity.
Qed.

Lemma forallb_len_is k us : forallb (len_is k) us = true -> Forall (fun u => length u = k) us.
Proof.
  intros H. apply Forall_forall. intros u Hu. rewrite forallb_forall in H.
  specialize (H u Hu). unfold len_is in H. apply andb_true_iff in H as [H _].
  apply Nat.eqb_eq. exact H.
Qed.

Lemma map_packed_mk ty (us : list bytes) :
  map packed (map (fun u => {| packed := u; uty := ty |}) us) = us.
Proof. rewrite map_map. cbn [packed]. apply map_id. Qed.

Lemma forallb_uty_mk ty (us : list bytes) :
  forallb (fun u => uty u =? ty) (map (fun u => {| packed := u; uty := ty |}) us) = true.
Proof. apply forallb_forall. intros u Hu. apply in_map_iff in Hu as (x & <- & _). apply N.eqb_refl. Qed.

Lemma decode_uuid_list_concat k ty (us : list bytes) :
  (0 < k)%nat -> Forall (fun u => length u = k) us ->
  (forall q, length q = k -> uuid_of_bytes q = Ok {| packed := q; uty := ty |}) ->
  decode_uuid_list k (concat us) = Ok (map (fun u => {| packed := u; uty := ty |}) us).
Proof.
  intros Hk H Hu. unfold decode_uuid_list.
  rewrite (mapM_map uuid_of_bytes (fun i => slice (i * k) ((i + 1) * k) (concat us))).
  rewrite chunks_concat by assumption.
  apply mapM_all_ok. intros u Hin. apply Hu. rewrite Forall_forall in H. apply H, Hin.
Qed.

Lemma scheme_enc s : utf8_enc1 (scheme_code s) = Some [scheme_code s].
Proof. destruct s; reflexivity. Qed.
Lemma scheme_of_code_code s : scheme_of_code (scheme_code s) = Some s.
Proof. destruct s; reflexivity. Qed.
Lemma scheme_of_name_name s :
  match scheme_name s with [] => None | _ :: _ => scheme_of_name (scheme_name s) end = Some s.
Proof. destruct s; reflexivity. Qed.

Lemma url_result_eqb_eq a b : url_result_eqb a b = true -> a = b.
Proof.
  destruct a as [|s u], b as [|s' u']; cbn [url_result_eqb]; intros H; try discriminate; [reflexivity|].
  apply andb_true_iff in H as [H1 H2]. apply bytes_eqb_eq in H1, H2. congruence.
Qed.

Section RoundTrip.
Variable urlnorm : text -> url_result.

Ltac wfb H := unfold wf_bytes, wf_byte in H; cbn [forallb] in H.

Lemma decode_value r : wf_rec urlnorm r = true -> decode urlnorm (tag r) (value r) = Some (Ok r).
Proof.
  intros W. destruct r; cbn [wf_rec] in W.
  - (* Flags *) destruct limited, general, bredr, lebredr; reflexivity.
  - (* Uuid16s *)
    assert (D : decode_uuid16s c (concat us) = Ok (Uuid16s c us)).
    { unfold decode_uuid16s.
      rewrite (decode_uuid_list_concat 2 1 us ltac:(lia) (forallb_len_is _ _ W) uuid_of_bytes_2).
      cbn [bind]. unfold mk_uuid16s. rewrite forallb_uty_mk, map_packed_mk. reflexivity. }
    destruct c; cbn [tag value decode]; rewrite D; reflexivity.
  - (* Uuid128s *)
    assert (D : decode_uuid128s c (concat us) = Ok (Uuid128s c us)).
    { unfold decode_uuid128s.
      rewrite (decode_uuid_list_concat 16 2 us ltac:(lia) (forallb_len_is _ _ W) uuid_of_bytes_16).
      cbn [bind]. unfold mk_uuid128s. rewrite forallb_uty_mk, map_packed_mk. reflexivity. }
    destruct c; cbn [tag value decode]; rewrite D; reflexivity.
  - reflexivity.
  - reflexivity.
  - (* TxPower *) cbn [tag value decode]. unfold decode_txpower. cbn [length Nat.leb index nth_error bind].
    unfold mk_txpower. rewrite N.mod_small by lia. reflexivity.
  - (* Manuf *) cbn [tag value decode]. unfold decode_manuf.
    apply andb_true_iff in W as [Wc _]. rewrite N.mod_small by lia.
    cbn [le16 app length Nat.leb slice Nat.sub skipn firstn unpack_H bind].
    do 3 f_equal. lia.
  - (* ConnRange *) cbn [tag value decode]. unfold decode_connrange.
    cbn [le16 app length Nat.eqb unpack_HH bind fst snd].
    replace (mn mod 256 + 256 * (mn / 256)) with mn by lia.
    replace (mx mod 256 + 256 * (mx / 256)) with mx by lia.
    unfold mk_connrange, pack_H.
    assert (E1 : (mn <? 65536) = true) by lia. assert (E2 : (mx <? 65536) = true) by lia.
    rewrite E1, E2. reflexivity.
  - (* SvcData16 *) cbn [tag value decode]. unfold decode_svcdata16.
    apply andb_true_iff in W as [Wu _]. unfold len_is in Wu. apply andb_true_iff in Wu as [L Wu].
    destruct u as [|x [|y [|z u]]]; try discriminate L. wfb Wu.
    cbn [app length Nat.leb slice Nat.sub skipn firstn unpack_H bind].
    unfold uuid_of_int, pack_H.
    assert (E1 : (x + 256 * y <=? 65536) = true) by lia.
    assert (E2 : (x + 256 * y <? 65536) = true) by lia.
    rewrite E1, E2. cbn [bind packed]. unfold le16.
    replace ((x + 256 * y) mod 256) with x by lia. replace ((x + 256 * y) / 256) with y by lia.
    reflexivity.
  - (* PublicTarget *) cbn [tag value decode]. apply andb_true_iff in W as [Wn W].
    pose proof (forallb_len_is _ _ W) as F. unfold decode_target.
    rewrite (concat_length_k 6 addrs F).
    destruct addrs as [|a0 addrs']; [discriminate|]. remember (a0 :: addrs') as addrs.
    assert (E : ((0 <? length addrs * 6)%nat && ((length addrs * 6) mod 6 =? 0)%nat) = true).
    { rewrite Nat.mod_mul by lia. subst addrs. cbn [length]. apply andb_true_iff. split; [apply Nat.ltb_lt; lia|reflexivity]. }
    rewrite E, Nat.div_mul by lia.
    rewrite (mapM_map bdaddr_from_bytes (fun i => slice (6 * i) (6 * (i + 1)) (concat addrs))).
    rewrite (map_ext _ (fun i => slice (i * 6) ((i + 1) * 6) (concat addrs)))
      by (intro i; f_equal; lia).
    rewrite <- (Nat.div_mul (length addrs) 6) at 1 by lia. rewrite <- (concat_length_k 6 addrs F).
    rewrite chunks_concat by (assumption || lia).
    rewrite (mapM_all_ok bdaddr_from_bytes (fun x => x)).
    + rewrite map_id. reflexivity.
    + intros x Hx. apply bdaddr_6. rewrite Forall_forall in F. apply F, Hx.
  - (* RandomTarget *) cbn [tag value decode]. apply andb_true_iff in W as [Wn W].
    pose proof (forallb_len_is _ _ W) as F. unfold decode_target.
    rewrite (concat_length_k 6 addrs F).
    destruct addrs as [|a0 addrs']; [discriminate|]. remember (a0 :: addrs') as addrs.
    assert (E : ((0 <? length addrs * 6)%nat && ((length addrs * 6) mod 6 =? 0)%nat) = true).
    { rewrite Nat.mod_mul by lia. subst addrs. cbn [length]. apply andb_true_iff. split; [apply Nat.ltb_lt; lia|reflexivity]. }
    rewrite E, Nat.div_mul by lia.
    rewrite (mapM_map bdaddr_from_bytes (fun i => slice (6 * i) (6 * (i + 1)) (concat addrs))).
    rewrite (map_ext _ (fun i => slice (i * 6) ((i + 1) * 6) (concat addrs)))
      by (intro i; f_equal; lia).
    rewrite <- (Nat.div_mul (length addrs) 6) at 1 by lia. rewrite <- (concat_length_k 6 addrs F).
    rewrite chunks_concat by (assumption || lia).
    rewrite (mapM_all_ok bdaddr_from_bytes (fun x => x)).
    + rewrite map_id. reflexivity.
    + intros x Hx. apply bdaddr_6. rewrite Forall_forall in F. apply F, Hx.
  - (* Appearance *) cbn [tag value decode]. unfold decode_appearance.
    cbn [le16 length Nat.eqb]. fold (le16 a). rewrite le16_unpack by lia. cbn [bind].
    unfold mk_appearance. assert (E : (a <=? 65535) = true) by lia. rewrite E. reflexivity.
  - (* AdvInterval *) cbn [tag value decode]. unfold decode_advinterval.
    destruct (N.leb_spec i 65535).
    { cbn [le16 length Nat.eqb]. fold (le16 i). rewrite le16_unpack by lia. cbn [bind].
      unfold mk_advinterval. assert (E : (i <=? 4294967295) = true) by lia. rewrite E. reflexivity. }
    destruct (N.leb_spec i 16777215).
    { cbn [le24 length Nat.eqb index nth_error bind].
      replace (i mod 256 + 256 * ((i / 256) mod 256) + 65536 * ((i / 65536) mod 256)) with i by lia.
      unfold mk_advinterval. assert (E : (i <=? 4294967295) = true) by lia. rewrite E. reflexivity. }
    cbn [le32 length Nat.eqb unpack_I bind].
    replace (i mod 256 + 256 * ((i / 256) mod 256) + 65536 * ((i / 65536) mod 256)
             + 16777216 * ((i / 16777216) mod 256)) with i by lia.
    unfold mk_advinterval. assert (E : (i <=? 4294967295) = true) by lia. rewrite E. reflexivity.
  - (* DevAddr *) cbn [tag value decode]. unfold decode_devaddr.
    unfold len_is in W. apply andb_true_iff in W as [L _].
    destruct addr as [|a0 [|a1 [|a2 [|a3 [|a4 [|a5 [|a6 addr]]]]]]]; try discriminate L.
    cbn [app length Nat.eqb index nth_error bind slice Nat.sub skipn firstn].
    rewrite bdaddr_6 by reflexivity. cbn [bind]. destruct public; reflexivity.
  - (* LeRole *) cbn [tag value decode]. unfold decode_lerole.
    cbn [length Nat.eqb index nth_error bind]. unfold mk_lerole. rewrite W. reflexivity.
  - (* SvcData128 *) cbn [tag value decode]. unfold decode_svcdata128.
    apply andb_true_iff in W as [Wu _]. unfold len_is in Wu. apply andb_true_iff in Wu as [L _].
    apply Nat.eqb_eq in L.
    assert (E : (16 <=? length (u ++ data))%nat = true) by (apply Nat.leb_le; rewrite app_length; lia).
    rewrite E. unfold slice. change (16 - 0)%nat with 16%nat. change (skipn 0 (u ++ data)) with (u ++ data).
    rewrite firstn_app_exact by lia.
    rewrite uuid_of_bytes_16 by exact L. cbn [bind]. unfold mk_svcdata128. cbn [uty packed].
    rewrite skipn_app_exact by lia. reflexivity.
  - (* Uri *) cbn [tag value decode]. apply andb_true_iff in W as [V U].
    apply url_result_eqb_eq in U. apply utf8_encode_valid in V as [bu Hbu].
    rewrite scheme_enc, Hbu. cbn [opt_bytes app]. unfold decode_uri.
    cbn [length Nat.leb]. unfold decode_utf8 at 1.
    change (scheme_code s :: bu) with ([scheme_code s] ++ bu).
    rewrite (utf8_decode_enc1 _ _ bu (scheme_enc s)), (utf8_decode_encode _ _ Hbu).
    cbn [option_map bind]. unfold encode_utf8 at 1. cbn [utf8_encode]. rewrite scheme_enc.
    cbn [app length skipn bind]. unfold decode_utf8. rewrite (utf8_decode_encode _ _ Hbu).
    cbn [bind catch_as_adv fst snd]. rewrite scheme_of_code_code.
    unfold mk_uri. rewrite U, scheme_of_name_name.
    unfold encode_utf8. cbn [utf8_encode]. rewrite scheme_enc, Hbu. reflexivity.
  - (* LeFeatures *) destruct f0, f1, f2, f3, f4, f5, f6, f7; reflexivity.
Qed.

Lemma rec_bytes_length r : length (rec_bytes r) = (2 + length (value r))%nat.
Proof. reflexivity. Qed.

Lemma parse_loop_rec f r rest :
  wf_rec urlnorm r = true ->
  parse_loop urlnorm (S f) (rec_bytes r ++ rest) = l <- parse_loop urlnorm f rest ;; Ok (r :: l).
Proof.
  intros W. unfold rec_bytes. cbn [app parse_loop length Nat.ltb Nat.leb].
  cbn [slice Nat.sub skipn firstn unpack_BB bind fst snd].
  rewrite Nnat.Nat2N.id.
  assert (E : (length (value r) + 1 <=? length (value r ++ rest) + 1)%nat = true)
    by (apply Nat.leb_le; rewrite app_length; lia).
  rewrite E.
  unfold slice.
  replace (length (value r) + 1 + 1 - 2)%nat with (length (value r)) by lia.
  replace (length (value r) + 1 + 1)%nat with (S (S (length (value r)))) by lia.
  cbn [skipn]. rewrite firstn_app_exact by reflexivity.
  rewrite skipn_app_exact by reflexivity.
  rewrite (decode_value r W). reflexivity.
Qed.

Lemma parse_loop_concat l : forall f,
  forallb (wf_rec urlnorm) l = true -> (length (concat (map rec_bytes l)) <= f)%nat ->
  parse_loop urlnorm f (concat (map rec_bytes l)) = Ok l.
Proof.
  induction l as [|r l IH]; intros f W Hl.
  - cbn [map concat]. destruct f; reflexivity.
  - cbn [forallb] in W. apply andb_true_iff in W as [Wr Wl].
    cbn [map concat] in *. rewrite app_length, rec_bytes_length in Hl.
    destruct f as [|f]; [lia|].
    rewrite (parse_loop_rec f r _ Wr), (IH f Wl ltac:(lia)). reflexivity.
Qed.

Lemma concat_rec_bytes_length l : length (concat (map rec_bytes l)) = total_len l.
Proof.
  induction l as [|r l IH]; [reflexivity|].
  cbn [map concat]. rewrite app_length, rec_bytes_length, IH. reflexivity.
Qed.

Lemma total_len_cons r l : total_len (r :: l) = (2 + length (value r) + total_len l)%nat.
Proof. reflexivity. Qed.

Lemma to_bytes_loop_fits l : forall out,
  (length out + total_len l <= 31)%nat ->
  to_bytes_loop out l = Ok (out ++ concat (map rec_bytes l)).
Proof.
  induction l as [|r l IH]; intros out H.
  - cbn [to_bytes_loop map concat]. rewrite app_nil_r. reflexivity.
  - rewrite total_len_cons in H.
    cbn [to_bytes_loop]. unfold rec_to_bytes.
    assert (E1 : (length (value r) + 1 <? 256)%nat = true) by (apply Nat.ltb_lt; lia).
    rewrite E1. cbn [bind]. rewrite rec_bytes_length.
    assert (E2 : (length out + (2 + length (value r)) <=? 31)%nat = true) by (apply Nat.leb_le; lia).
    rewrite E2, IH by (rewrite app_length, rec_bytes_length; lia).
    cbn [map concat]. rewrite app_assoc. reflexivity.
Qed.

Lemma parse_serialise l :
  forallb (wf_rec urlnorm) l = true -> fits31 l ->
  exists b, to_bytes l = Ok b /\ (length b <= 31)%nat /\ from_bytes urlnorm b = Ok l.
Proof.
  intros W F. unfold fits31 in F. exists (concat (map rec_bytes l)).
  split; [apply (to_bytes_loop_fits l []); cbn [length]; lia|].
  rewrite concat_rec_bytes_length. split; [exact F|].
  unfold from_bytes. rewrite concat_rec_bytes_length.
  assert (E : (31 <? total_len l)%nat = false) by (apply Nat.ltb_ge; lia). rewrite E.
  apply parse_loop_concat; [exact W|rewrite concat_rec_bytes_length; lia].
Qed.

End RoundTrip.

(** A list that does not fit raises the overflow class (when every record alone is
    serialisable, i.e. its value is shorter than 255 bytes). *)
Lemma to_bytes_loop_overflow l : forall out,
  Forall (fun r => (length (value r) + 1 < 256)%nat) l ->
  (length out <= 31)%nat -> (31 < length out + total_len l)%nat ->
  to_bytes_loop out l = Raise AdvDataFieldListOverflow.
Proof.
  induction l as [|r l IH]; intros out Hs Ho H.
  - unfold total_len in H. cbn in H. lia.
  - rewrite total_len_cons in H.
    inversion Hs as [|? ? Hr Hl]; subst.
    cbn [to_bytes_loop]. unfold rec_to_bytes.
    assert (E1 : (length (value r) + 1 <? 256)%nat = true) by (apply Nat.ltb_lt; lia).
    rewrite E1. cbn [bind]. rewrite rec_bytes_length.
    destruct (length out + (2 + length (value r)) <=? 31)%nat eqn:E2; [|reflexivity].
    apply Nat.leb_le in E2. apply IH; [exact Hl| |]; rewrite app_length, rec_bytes_length; lia.
Qed.

Lemma to_bytes_overflow l :
  Forall (fun r => (length (value r) + 1 < 256)%nat) l -> ~ fits31 l ->
  to_bytes l = Raise AdvDataFieldListOverflow.
Proof.
  intros Hs H. unfold fits31 in H. apply to_bytes_loop_overflow; [exact Hs|cbn; lia|cbn [length]; lia].
Qed.

(** Serialised well-formed records are byte strings. *)
Lemma wf_concat (us : list bytes) k : forallb (len_is k) us = true -> wf_bytes (concat us) = true.
Proof.
  induction us as [|u us IH]; cbn [forallb concat]; [reflexivity|]. intros H.
  apply andb_true_iff in H as [Hu H]. unfold len_is in Hu. apply andb_true_iff in Hu as [_ Hu].
  rewrite wf_bytes_app, Hu, IH by exact H. reflexivity.
Qed.


(** ** Records built by the constructors from admissible arguments are well formed *)

Lemma scheme_of_name_sound n s : scheme_of_name n = Some s -> scheme_name s = n.
Proof.
  unfold scheme_of_name. intros H. apply find_some in H as [_ H]. apply bytes_eqb_eq in H. exact H.
Qed.

Lemma uuid_ok_16 u : uuid_ok u = true -> uty u =? 1 = true -> len_is 2 (packed u) = true.
Proof.
  unfold uuid_ok. intros H T. apply N.eqb_eq in T. rewrite T in H. cbn [N.eqb Pos.eqb andb orb] in H.
  rewrite orb_false_r in H. exact H.
Qed.

Lemma uuid_ok_128 u : uuid_ok u = true -> uty u =? 2 = true -> len_is 16 (packed u) = true.
Proof.
  unfold uuid_ok. intros H T. apply N.eqb_eq in T. rewrite T in H. cbn [N.eqb Pos.eqb andb orb] in H. exact H.
Qed.

Lemma forallb_packed k ty us :
  (forall u, uuid_ok u = true -> uty u =? ty = true -> len_is k (packed u) = true) ->
  forallb uuid_ok us = true -> forallb (fun u => uty u =? ty) us = true ->
  forallb (len_is k) (map packed us) = true.
Proof.
  intros Hk H1 H2. apply forallb_forall. intros x Hx. apply in_map_iff in Hx as (u & <- & Hu).
  rewrite forallb_forall in H1, H2. apply Hk; [apply H1, Hu|apply H2, Hu].
Qed.

Section Construct.
Variable urlnorm : text -> url_result.

Lemma construct_wf k r :
  call_ok urlnorm k = true -> construct urlnorm k = Ok r -> wf_rec urlnorm r = true.
Proof.
  intros C H. destruct k; cbn [construct call_ok] in *.
  - inversion H; reflexivity.
  - unfold mk_uuid16s in H. destruct (forallb (fun u => uty u =? 1) us) eqn:E; [|discriminate]. inversion H; subst.
    cbn [wf_rec]. exact (forallb_packed 2 1 us uuid_ok_16 C E).
  - unfold mk_uuid128s in H. destruct (forallb (fun u => uty u =? 2) us) eqn:E; [|discriminate]. inversion H; subst.
    cbn [wf_rec]. exact (forallb_packed 16 2 us uuid_ok_128 C E).
  - inversion H; subst. exact C.
  - inversion H; subst. exact C.
  - unfold mk_txpower in H. apply (f_equal (fun o => match o with Ok x => x | Raise _ => r end)) in H.
    subst r. cbn [wf_rec]. pose proof (N.mod_upper_bound level 256 ltac:(lia)). lia.
  - inversion H; subst. exact C.
  - unfold mk_connrange, pack_H in H.
    destruct (mn <? 65536) eqn:E1; [|discriminate]. destruct (mx <? 65536) eqn:E2; [|discriminate].
    cbn [bind] in H. inversion H; subst. cbn [wf_rec]. rewrite E1, E2. reflexivity.
  - inversion H; subst. cbn [wf_rec]. apply andb_true_iff in C as [C Wd]. apply andb_true_iff in C as [Cu Ct].
    rewrite (uuid_ok_16 u Cu Ct), Wd. reflexivity.
  - inversion H; subst. exact C.
  - inversion H; subst. exact C.
  - unfold mk_appearance in H. destruct (N.leb_spec a 65535); [|discriminate].
    inversion H; subst. cbn [wf_rec]. lia.
  - unfold mk_advinterval in H. destruct (N.leb_spec i 4294967295); [|discriminate].
    inversion H; subst. cbn [wf_rec]. lia.
  - inversion H; subst. exact C.
  - unfold mk_lerole in H. destruct (role <? 4) eqn:E; [|discriminate]. inversion H; subst. exact E.
  - unfold mk_svcdata128 in H. destruct (uty u =? 2) eqn:E; [|discriminate]. inversion H; subst.
    cbn [wf_rec]. apply andb_true_iff in C as [Cu Wd]. rewrite (uuid_ok_128 u Cu E), Wd. reflexivity.
  - unfold mk_uri in H. destruct (urlnorm url) as [|sname uri]; [discriminate|].
    destruct sname as [|c0 sname']; [discriminate|]. remember (c0 :: sname') as sname.
    destruct (scheme_of_name sname) as [s|] eqn:Es; [|discriminate].
    unfold encode_utf8 in H.
    destruct (utf8_encode [scheme_code s]); [|discriminate]. cbn [bind] in H.
    destruct (utf8_encode uri); [|discriminate]. cbn [bind] in H. inversion H; subst r.
    cbn [wf_rec]. rewrite (scheme_of_name_sound _ _ Es). exact C.
  - inversion H; reflexivity.
  - destruct (eddy_encode url) as [data|]; [|discriminate]. cbn [bind] in H.
    unfold bytes_of_ints in H. cbn [app] in H.
    destruct (wf_bytes (16 :: 248 :: data)) eqn:E; [|discriminate].
    cbn [bind] in H.
    change (uuid_of_int 65194) with (Ok {| packed := [170; 254]; uty := 1 |}) in H.
    cbn [bind packed] in H. inversion H; subst r. cbn [wf_rec]. rewrite E. reflexivity.
Qed.

(** ** The unrepaired decoder let three exception classes escape (witnesses replayed on
    the implementation by the check; with the fix commits reverted they fail again). *)

Lemma legacy_unicode_decode_error_escapes :
  from_bytes_legacy urlnorm [3; 36; 255; 254] = Raise UnicodeDecodeError.
Proof. reflexivity. Qed.

Lemma legacy_attribute_error_escapes :
  from_bytes_legacy urlnorm [1; 36] = Raise AttributeError.
Proof. reflexivity. Qed.

Lemma legacy_value_error_escapes :
  urlnorm (cps "http://[") = UrlValueError ->
  from_bytes_legacy urlnorm [5; 36; 22; 47; 47; 91] = Raise ValueError.
Proof.
  intros H. unfold from_bytes_legacy. cbn [length Nat.ltb Nat.leb parse_loop_legacy].
  cbn [slice Nat.sub skipn firstn unpack_BB bind fst snd].
  change (N.to_nat 5) with 5%nat. cbn [Nat.leb length Nat.add slice Nat.sub skipn firstn N.eqb Pos.eqb].
  unfold decode_uri_legacy. cbn [length Nat.leb].
  change (decode_utf8 [22; 47; 47; 91]) with (Ok [22; 47; 47; 91] : outcome text).
  cbn [bind]. change (encode_utf8 [22]) with (Ok [22] : outcome bytes). cbn [bind length skipn].
  change (decode_utf8 [47; 47; 91]) with (Ok [47; 47; 91] : outcome text). cbn [bind].
  change (scheme_of_code 22) with (Some Http).
  unfold mk_uri. change (scheme_name Http ++ [58; 47; 47; 91]) with (cps "http://[").
  rewrite H. reflexivity.
Qed.

End Construct.

(** A record whose type has no handler is skipped: parsing continues right after it. *)
Lemma unknown_type_skipped urlnorm f t (payload rest : bytes) :
  decode urlnorm t payload = None ->
  parse_loop urlnorm (S f) (N.of_nat (length payload + 1) :: t :: payload ++ rest)
  = parse_loop urlnorm f rest.
Proof.
  intros D. cbn [parse_loop length Nat.ltb Nat.leb].
  cbn [slice Nat.sub skipn firstn unpack_BB bind fst snd].
  rewrite Nnat.Nat2N.id.
  assert (E : (length payload + 1 <=? length (payload ++ rest) + 1)%nat = true)
    by (apply Nat.leb_le; rewrite app_length; lia).
  rewrite E. unfold slice.
  replace (length payload + 1 + 1 - 2)%nat with (length payload) by lia.
  replace (length payload + 1 + 1)%nat with (S (S (length payload))) by lia.
  cbn [skipn]. rewrite firstn_app_exact by reflexivity.
  rewrite skipn_app_exact by reflexivity. rewrite D. reflexivity.
Qed.

(** ** Round trip stated on constructor calls: the part that holds, and the refutation
    of the statement over ALL accepted constructor arguments (known findings). *)

Lemma build_wf urlnorm ks : forall l,
  forallb (call_ok urlnorm) ks = true -> mapM (construct urlnorm) ks = Ok l ->
  forallb (wf_rec urlnorm) l = true.
Proof.
  induction ks as [|k ks IH]; intros l C H; cbn [mapM forallb] in *.
  - inversion H; reflexivity.
  - apply andb_true_iff in C as [Ck Cks].
    destruct (construct urlnorm k) as [r|] eqn:Er; [|discriminate]. cbn [bind] in H.
    destruct (mapM (construct urlnorm) ks) as [l'|] eqn:El; [|discriminate]. cbn [bind] in H.
    inversion H; subst. cbn [forallb]. rewrite (construct_wf urlnorm k r Ck Er), (IH l' Cks eq_refl).
    reflexivity.
Qed.

Lemma roundtrip_constructible_partial urlnorm ks l :
  forallb (call_ok urlnorm) ks = true -> mapM (construct urlnorm) ks = Ok l -> fits31 l ->
  exists b, to_bytes l = Ok b /\ (length b <= 31)%nat /\ from_bytes urlnorm b = Ok l.
Proof. intros C H F. apply parse_serialise; [exact (build_wf urlnorm ks l C H)|exact F]. Qed.

Definition cpython_urls : url_table :=
  [(cps "http:////[", UrlOk (cps "http") (cps "//[")); (cps "http://[", UrlValueError)].

Lemma roundtrip_all_constructible_refuted_uri :
  exists urlnorm ks l, mapM (construct urlnorm) ks = Ok l /\ fits31 l
    /\ exists b, to_bytes l = Ok b /\ from_bytes urlnorm b = Raise AdvDataError.
Proof.
  exists (lookup_url cpython_urls), [KUri (cps "http:////[")], [Uri Http (cps "//[")].
  split; [vm_compute; reflexivity|]. split; [unfold fits31; vm_compute; repeat constructor|].
  eexists. split; [vm_compute; reflexivity|]. vm_compute. reflexivity.
Qed.

Lemma roundtrip_all_constructible_refuted_domain :
  forall urlnorm, exists ks l, mapM (construct urlnorm) ks = Ok l /\ fits31 l
    /\ exists b l', to_bytes l = Ok b /\ from_bytes urlnorm b = Ok l' /\ l' <> l.
Proof.
  intros urlnorm. exists [KManuf 74565 [1]], [Manuf 74565 [1]].
  split; [vm_compute; reflexivity|]. split; [unfold fits31; vm_compute; repeat constructor|].
  exists [4; 255; 69; 35; 1], [Manuf 9029 [1]].
  split; [vm_compute; reflexivity|]. split; [vm_compute; reflexivity|discriminate].
Qed.

(** ** AdvertisingDevicesDB.on_device_found over timed sequences of advertisements *)

Definition key (d : device) : N * bool := (d_addr d, d_reported d).

Lemma check_timeout_addr now d : d_addr (check_timeout now d) = d_addr d.
Proof. unfold check_timeout. destruct (d_scanned d); [|destruct (timed_out now d)]; reflexivity. Qed.
Lemma check_timeout_adv now d : d_adv (check_timeout now d) = d_adv d.
Proof. unfold check_timeout. destruct (d_scanned d); [|destruct (timed_out now d)]; reflexivity. Qed.
Lemma check_timeout_rsp now d : d_rsp (check_timeout now d) = d_rsp d.
Proof. unfold check_timeout. destruct (d_scanned d); [|destruct (timed_out now d)]; reflexivity. Qed.
Lemma check_timeout_got now d : d_got (check_timeout now d) = d_got d.
Proof. unfold check_timeout. destruct (d_scanned d); [|destruct (timed_out now d)]; reflexivity. Qed.
Lemma check_timeout_reported now d : d_reported (check_timeout now d) = d_reported d.
Proof. unfold check_timeout. destruct (d_scanned d); [|destruct (timed_out now d)]; reflexivity. Qed.
Lemma check_timeout_key now d : key (check_timeout now d) = key d.
Proof. unfold key. rewrite check_timeout_addr, check_timeout_reported. reflexivity. Qed.

Lemma set_scan_rsp_key l d : key (set_scan_rsp l d) = key d.
Proof. unfold set_scan_rsp. destruct (d_got d); reflexivity. Qed.

Lemma map_key_update a f db : (forall d, key (f d) = key d) -> map key (update_dev a f db) = map key db.
Proof.
  intros H. unfold update_dev. rewrite map_map. apply map_ext. intros d.
  destruct (d_addr d =? a); [apply H|reflexivity].
Qed.

Lemma map_addr_key db : map d_addr db = map fst (map key db).
Proof. rewrite map_map. reflexivity. Qed.

Lemma find_dev_none a db : find_dev a db = None -> ~ In a (map d_addr db).
Proof.
  unfold find_dev. intros H Hin. apply in_map_iff in Hin as (d & Ha & Hd).
  pose proof (find_none _ _ H d Hd) as E. cbn in E. rewrite Ha, N.eqb_refl in E. discriminate.
Qed.

Lemma find_dev_addr a db d : find_dev a db = Some d -> d_addr d = a.
Proof. unfold find_dev. intros H. apply find_some in H as [_ H]. apply N.eqb_eq in H. exact H. Qed.

(** the sweep, in closed form *)
Lemma due_check now d :
  d_scanned (check_timeout now d) && negb (d_reported (check_timeout now d)) = due now d.
Proof.
  unfold due. rewrite check_timeout_reported. unfold check_timeout.
  destruct (d_scanned d) eqn:S; [rewrite S; reflexivity|].
  destruct (timed_out now d) eqn:T; cbn [set_scanned d_scanned]; [reflexivity|rewrite S; reflexivity].
Qed.

Lemma timeouts_spec now db :
  timeouts now db
  = (map (fun d => if due now d then mark_reported (check_timeout now d) else check_timeout now d) db,
     map d_addr (filter (due now) db)).
Proof.
  induction db as [|d db IH]; [reflexivity|]. cbn [timeouts map filter]. rewrite IH, due_check.
  destruct (due now d); reflexivity.
Qed.

(** after the sweep nothing is due any more *)
Lemma swept_not_due now d :
  due now (if due now d then mark_reported (check_timeout now d) else check_timeout now d) = false.
Proof.
  destruct (due now d) eqn:E.
  - unfold due. cbn [mark_reported d_reported negb]. apply andb_false_r.
  - unfold due in *. rewrite check_timeout_reported. unfold check_timeout, timed_out in *.
    destruct (d_scanned d) eqn:S; destruct (500 <? now - d_ts d) eqn:T; destruct (d_reported d) eqn:R;
      cbn [set_scanned d_scanned d_ts d_reported orb andb negb] in *;
      rewrite ?S, ?T, ?R; cbn [orb andb negb]; try reflexivity; try discriminate.
Qed.

Lemma NoDup_app_intro {A} (a b : list A) :
  NoDup a -> NoDup b -> (forall x, In x a -> In x b -> False) -> NoDup (a ++ b).
Proof.
  induction a as [|x a IH]; intros Ha Hb Hd; [exact Hb|]. cbn [app].
  inversion Ha as [|? ? Hx Ha']; subst. constructor.
  - intro Hin. apply in_app_or in Hin as [Hin|Hin]; [exact (Hx Hin)|exact (Hd x (or_introl eq_refl) Hin)].
  - apply IH; [exact Ha'|exact Hb|]. intros y Hy. apply Hd. right. exact Hy.
Qed.

Lemma NoDup_snoc {A} (l : list A) (a : A) : NoDup l -> ~ In a l -> NoDup (l ++ [a]).
Proof.
  intros Hl Ha. apply NoDup_app_intro; [exact Hl|repeat constructor; intros []|].
  intros x Hx [<-|[]]. exact (Ha Hx).
Qed.

Definition add_new (acc : list N) (y : N) : list N := if memN y acc then acc else acc ++ [y].

Lemma fold_add_new_keeps l : forall acc v, In v acc -> In v (fold_left add_new l acc).
Proof.
  induction l as [|w l IHl]; intros acc v Hv; [exact Hv|]. cbn [fold_left]. apply IHl.
  unfold add_new. destruct (memN w acc); [exact Hv|apply in_or_app; left; exact Hv].
Qed.

Lemma fold_add_new_adds ys : forall acc y, In y ys -> In y (fold_left add_new ys acc).
Proof.
  induction ys as [|z ys IH]; intros acc y Hy; [destruct Hy|]. cbn [fold_left].
  destruct Hy as [<-|Hy]; [|apply IH, Hy]. apply fold_add_new_keeps.
  unfold add_new. destruct (memN z acc) eqn:M.
  - unfold memN in M. apply existsb_exists in M as (v & Hv & E). apply N.eqb_eq in E. subst v. exact Hv.
  - apply in_or_app. right. left. reflexivity.
Qed.

Section ScanProofs.
Variable urlnorm : text -> url_result.
Variable flt : option N.
Variable updates : bool.

Lemma parse_adv_ok data : wf_bytes data = true -> exists o, parse_adv urlnorm data = Ok o.
Proof.
  intros W. destruct (parser_total urlnorm data W) as [Hle Hgt]. unfold parse_adv.
  destruct (Nat.le_gt_cases (length data) 31) as [L|G].
  - destruct (Hle L) as [[l ->]| ->]; eauto.
  - rewrite (Hgt G). eauto.
Qed.

Lemma parse_adv_some data l : parse_adv urlnorm data = Ok (Some l) -> from_bytes urlnorm data = Ok l.
Proof.
  unfold parse_adv. destruct (from_bytes urlnorm data) as [l'|e]; [intros H; inversion H; reflexivity|].
  destruct e; discriminate.
Qed.

Lemma handle_ok now db ev : wf_bytes (ev_data ev) = true ->
  exists r, handle urlnorm flt updates now db ev = Ok r.
Proof.
  intros W. destruct (parse_adv_ok _ W) as (o & Ho). unfold handle. rewrite Ho. cbn [bind].
  destruct (ev_pdu ev); destruct o as [l|];
    repeat match goal with
    | |- exists r, (if ?c then _ else _) = Ok r => destruct c
    | |- exists r, (let '(_, _) := ?x in _) = Ok r => destruct x
    | |- exists r, match ?x with Some _ => _ | None => _ end = Ok r => destruct x
    end; eauto.
Qed.

Lemma on_device_found_ok now db ev : wf_bytes (ev_data ev) = true ->
  exists r, on_device_found urlnorm flt updates now db ev = Ok r.
Proof.
  intros W. unfold on_device_found. destruct (handle_ok now db ev W) as [r ->]. cbn [bind].
  destruct (timeouts now (fst r)). eauto.
Qed.

(** scanning survives ANY timed sequence of advertisements *)
Lemma scan_never_raises evs : forall clock db,
  Forall (fun ev => wf_bytes (ev_data ev) = true) evs ->
  exists r, scan urlnorm flt updates clock db evs = Ok r.
Proof.
  induction evs as [|ev evs IH]; intros clock db H; cbn [scan]; [eauto|].
  inversion H as [|? ? W Hr]; subst.
  destruct (on_device_found_ok (clock + ev_dt ev) db ev W) as [x ->]. cbn [bind].
  destruct (IH (clock + ev_dt ev) (fst (fst x)) Hr) as [y ->]. cbn [bind]. eauto.
Qed.

(** malformed records never change the database *)
Lemma malformed_ignored now db ev :
  parse_adv urlnorm (ev_data ev) = Ok None -> handle urlnorm flt updates now db ev = Ok (db, []).
Proof. intros H. unfold handle. rewrite H. cbn [bind]. destruct (ev_pdu ev); reflexivity. Qed.

(** *** what is stored for an address is what was parsed from advertisements of that address *)
Definition is_adv (p : pdu) : bool := match p with AdvInd | AdvNonconn => true | _ => false end.
Definition dev_ok (seen : list event) (d : device) : Prop :=
  (exists e, In e seen /\ is_adv (ev_pdu e) = true /\ ev_addr e = d_addr d
             /\ from_bytes urlnorm (ev_data e) = Ok (d_adv d))
  /\ match d_rsp d with
     | None => d_got d = false
     | Some l => d_got d = true
                 /\ exists e, In e seen /\ ev_pdu e = ScanRsp /\ ev_addr e = d_addr d
                              /\ from_bytes urlnorm (ev_data e) = Ok l
     end.

Lemma dev_ok_mono seen seen' d : incl seen seen' -> dev_ok seen d -> dev_ok seen' d.
Proof.
  intros I [(e & He & H1) H2]. split; [exists e; split; [apply I, He|exact H1]|].
  destruct (d_rsp d); [|exact H2]. destruct H2 as [G (e' & He' & H3)].
  split; [exact G|]. exists e'. split; [apply I, He'|exact H3].
Qed.

Lemma dev_ok_ext seen d d' :
  d_addr d' = d_addr d -> d_adv d' = d_adv d -> d_rsp d' = d_rsp d -> d_got d' = d_got d ->
  dev_ok seen d -> dev_ok seen d'.
Proof. unfold dev_ok. intros -> -> -> ->. tauto. Qed.

Lemma dev_ok_check_timeout seen now d : dev_ok seen d -> dev_ok seen (check_timeout now d).
Proof.
  apply dev_ok_ext; [apply check_timeout_addr|apply check_timeout_adv|apply check_timeout_rsp|apply check_timeout_got].
Qed.

Lemma Forall_update_dev (P : device -> Prop) a f db :
  Forall P db -> (forall d, P d -> d_addr d = a -> P (f d)) -> Forall P (update_dev a f db).
Proof.
  intros H Hf. unfold update_dev. apply Forall_forall. intros x Hx.
  apply in_map_iff in Hx as (d & <- & Hd). rewrite Forall_forall in H.
  destruct (N.eqb_spec (d_addr d) a); [apply Hf; [apply H, Hd|assumption]|apply H, Hd].
Qed.

Lemma timeouts_ok seen now db :
  Forall (dev_ok seen) db -> Forall (dev_ok seen) (fst (timeouts now db)).
Proof.
  intros H. rewrite timeouts_spec. cbn [fst]. apply Forall_forall. intros x Hx.
  apply in_map_iff in Hx as (d & <- & Hd). rewrite Forall_forall in H. specialize (H d Hd).
  destruct (due now d); [|apply dev_ok_check_timeout, H].
  apply (dev_ok_ext seen (check_timeout now d)); try reflexivity. apply dev_ok_check_timeout, H.
Qed.

Lemma register_inv seen now db d u db' r :
  Forall (dev_ok seen) db -> dev_ok seen d -> register now db d u = (db', r) -> Forall (dev_ok seen) db'.
Proof.
  intros H Hd Hr. unfold register in Hr. destruct (find_dev (d_addr d) db) as [dev|].
  - destruct (d_rssi dev =? d_rssi d); inversion Hr; subst; (apply Forall_update_dev; [exact H|]); intros x Hx _.
    + exact Hx.
    + apply dev_ok_check_timeout. exact Hx.
  - inversion Hr; subst. apply Forall_app. split; [exact H|]. constructor; [exact Hd|constructor].
Qed.

Lemma handle_inv seen now db ev r :
  Forall (dev_ok seen) db -> handle urlnorm flt updates now db ev = Ok r ->
  Forall (dev_ok (seen ++ [ev])) (fst r).
Proof.
  intros H Hh.
  assert (Hm : Forall (dev_ok (seen ++ [ev])) db).
  { eapply Forall_impl; [|exact H]. intros d. apply dev_ok_mono. apply incl_appl, incl_refl. }
  assert (Hin : In ev (seen ++ [ev])) by (apply in_or_app; right; left; reflexivity).
  unfold handle in Hh.
  destruct (parse_adv urlnorm (ev_data ev)) as [[l|]|e] eqn:Ep; cbn [bind] in Hh;
    [pose proof (parse_adv_some _ _ Ep) as Ef| |destruct (ev_pdu ev); try discriminate; inversion Hh; subst; exact Hm].
  - destruct (ev_pdu ev) eqn:Epdu.
    + destruct (filter_is flt (ev_addr ev) || filter_none flt); [|inversion Hh; subst; exact Hm].
      destruct (register _ _ _ _) as [db' r0] eqn:Er. inversion Hh; subst. cbn [fst].
      refine (register_inv _ _ _ _ _ _ _ Hm _ Er). split; cbn [d_addr d_adv d_rsp d_got]; [|reflexivity].
      exists ev. rewrite Epdu. auto.
    + destruct (filter_is flt (ev_addr ev) || filter_none flt); [|inversion Hh; subst; exact Hm].
      destruct (register _ _ _ _) as [db' r0] eqn:Er. inversion Hh; subst. cbn [fst].
      refine (register_inv _ _ _ _ _ _ _ Hm _ Er). split; cbn [d_addr d_adv d_rsp d_got]; [|reflexivity].
      exists ev. rewrite Epdu. auto.
    + destruct (find_dev (ev_addr ev) db) as [dev|]; [|inversion Hh; subst; exact Hm].
      destruct (d_got dev); inversion Hh; subst; cbn [fst]; [exact Hm|].
      apply Forall_update_dev; [exact Hm|]. intros d Hd Ha.
      unfold set_scan_rsp. destruct (d_got d) eqn:G; [exact Hd|].
      destruct Hd as [H1 H2]. split; [exact H1|]. cbn [d_rsp d_got d_addr]. split; [reflexivity|].
      exists ev. auto.
    + inversion Hh; subst. exact Hm.
  - destruct (ev_pdu ev); inversion Hh; subst; exact Hm.
Qed.

Lemma on_device_found_inv seen now db ev r :
  Forall (dev_ok seen) db -> on_device_found urlnorm flt updates now db ev = Ok r ->
  Forall (dev_ok (seen ++ [ev])) (fst (fst r)).
Proof.
  intros H Hr. unfold on_device_found in Hr.
  destruct (handle urlnorm flt updates now db ev) as [x|] eqn:Eh; [|discriminate]. cbn [bind] in Hr.
  pose proof (timeouts_ok _ now _ (handle_inv seen now db ev x H Eh)) as T.
  destruct (timeouts now (fst x)) as [db2 ys]. inversion Hr; subst. exact T.
Qed.

Lemma scan_inv evs : forall clock seen db r,
  Forall (dev_ok seen) db -> scan urlnorm flt updates clock db evs = Ok r ->
  Forall (dev_ok (seen ++ evs)) (fst (fst r)).
Proof.
  induction evs as [|ev evs IH]; intros clock seen db r H Hr; cbn [scan] in Hr.
  - inversion Hr; subst. rewrite app_nil_r. exact H.
  - destruct (on_device_found urlnorm flt updates (clock + ev_dt ev) db ev) as [x|] eqn:Eo; [|discriminate].
    cbn [bind] in Hr.
    destruct (scan urlnorm flt updates (clock + ev_dt ev) (fst (fst x)) evs) as [y|] eqn:Es; [|discriminate].
    cbn [bind] in Hr. inversion Hr; subst. cbn [fst].
    replace (seen ++ ev :: evs) with ((seen ++ [ev]) ++ evs) by (rewrite <- app_assoc; reflexivity).
    apply (IH (clock + ev_dt ev) (seen ++ [ev]) (fst (fst x))); [apply (on_device_found_inv seen _ db ev x H Eo)|exact Es].
Qed.

Lemma scan_stored_parsed clock evs r :
  scan urlnorm flt updates clock [] evs = Ok r -> Forall (dev_ok evs) (fst (fst r)).
Proof. intros H. apply (scan_inv evs clock [] [] r); [constructor|exact H]. Qed.

(** *** what is reported when *)

(** every call, whatever the event: the sweep yields exactly the devices that are due
    after the event was handled, and leaves no due device behind *)
Lemma sweep_reports_due now db ev db2 ret ys :
  on_device_found urlnorm flt updates now db ev = Ok (db2, ret, ys) ->
  exists db1 app, handle urlnorm flt updates now db ev = Ok (db1, app)
    /\ ys = map d_addr (filter (due now) db1)
    /\ (forall y, In y ys -> In y ret)
    /\ forallb (fun d => negb (due now d)) db2 = true.
Proof.
  unfold on_device_found. intros H.
  destruct (handle urlnorm flt updates now db ev) as [[db1 app]|] eqn:Eh; [|discriminate].
  cbn [bind fst snd] in H. rewrite timeouts_spec in H. inversion H; subst. clear H.
  exists db1, app. split; [reflexivity|]. split; [reflexivity|]. split.
  - intros y Hy. apply (fold_add_new_adds _ app y Hy).
  - apply forallb_forall. intros x Hx. apply in_map_iff in Hx as (d & <- & _).
    rewrite swept_not_due. reflexivity.
Qed.

(** [grows db db']: handling an event keeps every entry's address and reported flag and
    may append one unreported entry with a new address *)
Definition grows (db db' : list device) : Prop :=
  map key db' = map key db
  \/ exists a, map key db' = map key db ++ [(a, false)] /\ ~ In a (map d_addr db).

Lemma register_grows now db d u db' r :
  d_reported d = false -> register now db d u = (db', r) -> grows db db'.
Proof.
  intros Hd Hr. unfold register in Hr. destruct (find_dev (d_addr d) db) as [dev|] eqn:Ef.
  - left. destruct (d_rssi dev =? d_rssi d); inversion Hr; subst; apply map_key_update; intros x.
    + reflexivity.
    + rewrite check_timeout_key. reflexivity.
  - right. inversion Hr; subst. exists (d_addr d). split; [|apply find_dev_none, Ef].
    rewrite map_app. cbn [map]. f_equal. unfold key. rewrite Hd. reflexivity.
Qed.

Lemma handle_grows now db ev r : handle urlnorm flt updates now db ev = Ok r -> grows db (fst r).
Proof.
  intros Hh. unfold handle in Hh.
  destruct (parse_adv urlnorm (ev_data ev)) as [[l|]|e]; cbn [bind] in Hh;
    [| destruct (ev_pdu ev); inversion Hh; left; reflexivity
     | destruct (ev_pdu ev); try discriminate; inversion Hh; left; reflexivity].
  destruct (ev_pdu ev).
  - destruct (filter_is flt (ev_addr ev) || filter_none flt); [|inversion Hh; left; reflexivity].
    destruct (register _ _ _ _) as [db' r0] eqn:Er. inversion Hh; subst. cbn [fst].
    refine (register_grows _ _ _ _ _ _ _ Er). reflexivity.
  - destruct (filter_is flt (ev_addr ev) || filter_none flt); [|inversion Hh; left; reflexivity].
    destruct (register _ _ _ _) as [db' r0] eqn:Er. inversion Hh; subst. cbn [fst].
    refine (register_grows _ _ _ _ _ _ _ Er). reflexivity.
  - destruct (find_dev (ev_addr ev) db) as [dev|]; [|inversion Hh; left; reflexivity].
    destruct (d_got dev); inversion Hh; subst; left; [reflexivity|]. cbn [fst].
    apply map_key_update. apply set_scan_rsp_key.
  - inversion Hh; left; reflexivity.
Qed.

(** [Inv R db]: addresses are unique and everything the sweep reported so far is marked *)
Definition Inv (R : list N) (db : list device) : Prop :=
  NoDup (map d_addr db) /\ forall a, In a R -> In (a, true) (map key db).

Lemma grows_inv R db db' : grows db db' -> Inv R db -> Inv R db'.
Proof.
  intros G [ND HR]. destruct G as [E|(a & E & Na)]; split.
  - rewrite map_addr_key, E, <- map_addr_key. exact ND.
  - intros x Hx. rewrite E. apply HR, Hx.
  - rewrite map_addr_key, E, map_app, <- map_addr_key. cbn [map fst].
    apply NoDup_snoc; assumption.
  - intros x Hx. rewrite E. apply in_or_app. left. apply HR, Hx.
Qed.

Lemma NoDup_map_filter {A B} (f : A -> B) (p : A -> bool) l : NoDup (map f l) -> NoDup (map f (filter p l)).
Proof.
  induction l as [|x l IH]; cbn [map filter]; [intros; constructor|]. intros H.
  inversion H as [|? ? Hx Hl]; subst. destruct (p x); [|apply IH, Hl].
  cbn [map]. constructor; [|apply IH, Hl]. intro Hin. apply Hx.
  apply in_map_iff in Hin as (y & Ey & Hy). apply filter_In in Hy as [Hy _].
  apply in_map_iff. exists y. auto.
Qed.

Lemma NoDup_addr_inj db d d' :
  NoDup (map d_addr db) -> In d db -> In d' db -> d_addr d = d_addr d' -> d = d'.
Proof.
  induction db as [|x db IH]; intros ND H1 H2 E; [destruct H1|].
  cbn [map] in ND. inversion ND as [|? ? Hx Hl]; subst.
  destruct H1 as [<-|H1], H2 as [<-|H2]; [reflexivity| | |apply IH; assumption].
  - exfalso. apply Hx. rewrite E. apply in_map, H2.
  - exfalso. apply Hx. rewrite <- E. apply in_map, H1.
Qed.

Lemma sweep_step R now db1 :
  Inv R db1 -> NoDup R ->
  let ys := snd (timeouts now db1) in
  Inv (R ++ ys) (fst (timeouts now db1)) /\ NoDup (R ++ ys).
Proof.
  intros [ND HR] NR. rewrite timeouts_spec. cbn [fst snd].
  set (g := fun d => if due now d then mark_reported (check_timeout now d) else check_timeout now d).
  assert (Ga : forall d, d_addr (g d) = d_addr d).
  { intros d. unfold g. destruct (due now d); [cbn [mark_reported d_addr]|]; apply check_timeout_addr. }
  assert (Gaddr : map d_addr (map g db1) = map d_addr db1).
  { rewrite map_map. apply map_ext, Ga. }
  split; [split|].
  - rewrite Gaddr. exact ND.
  - intros a Ha. apply in_app_or in Ha as [Ha|Ha].
    + specialize (HR a Ha). apply in_map_iff in HR as (d & Ek & Hd).
      apply in_map_iff. exists (g d). split; [|apply in_map, Hd].
      unfold key in *. rewrite Ga. inversion Ek as [[E1 E2]]. rewrite E1. f_equal. unfold g.
      destruct (due now d); [cbn [mark_reported d_reported]; congruence|]. rewrite check_timeout_reported. congruence.
    + apply in_map_iff in Ha as (d & <- & Hd). apply filter_In in Hd as [Hd Du].
      apply in_map_iff. exists (g d). split; [|apply in_map, Hd].
      unfold key. rewrite Ga. unfold g. rewrite Du. reflexivity.
  - apply NoDup_app_intro.
    + exact NR.
    + apply NoDup_map_filter, ND.
    + intros a Ha Hy. specialize (HR a Ha). apply in_map_iff in HR as (d & Ek & Hd).
      apply in_map_iff in Hy as (d' & Ea & Hd'). apply filter_In in Hd' as [Hd' Du].
      inversion Ek as [[E1 E2]]. assert (d = d') by (apply (NoDup_addr_inj db1); congruence). subst d'.
      unfold due in Du. rewrite E2 in Du. cbn [negb] in Du. rewrite andb_false_r in Du. discriminate.
Qed.

(** over ANY timed sequence, from any database with unique addresses whose reported
    devices are [R]: no address is reported by the sweep twice *)
Lemma scan_reports_once evs : forall clock db R r,
  Inv R db -> NoDup R -> scan urlnorm flt updates clock db evs = Ok r ->
  NoDup (R ++ concat (snd r)).
Proof.
  induction evs as [|ev evs IH]; intros clock db R r I NR Hr; cbn [scan] in Hr.
  - inversion Hr; subst. cbn [snd concat]. rewrite app_nil_r. exact NR.
  - unfold on_device_found in Hr.
    destruct (handle urlnorm flt updates (clock + ev_dt ev) db ev) as [x|] eqn:Eh; [|discriminate].
    cbn [bind] in Hr.
    pose proof (grows_inv R _ _ (handle_grows _ _ _ _ Eh) I) as I1.
    destruct (sweep_step R (clock + ev_dt ev) (fst x) I1 NR) as [I2 N2]. cbv zeta in I2, N2.
    destruct (timeouts (clock + ev_dt ev) (fst x)) as [db2 ys]. cbn [fst snd bind] in *.
    destruct (scan urlnorm flt updates (clock + ev_dt ev) db2 evs) as [y|] eqn:Es; [|discriminate].
    cbn [bind] in Hr. inversion Hr; subst. cbn [snd concat]. rewrite app_assoc.
    exact (IH _ _ _ _ I2 N2 Es).
Qed.

Lemma scan_reports_once_from_empty clock evs r :
  scan urlnorm flt updates clock [] evs = Ok r -> NoDup (concat (snd r)).
Proof.
  intros H. apply (scan_reports_once evs clock [] [] r); [split; [constructor|intros a []]|constructor|exact H].
Qed.

End ScanProofs.

(** ** Operation sequences on the API: parsing has no memory *)

Lemma api_parse_pure urlnorm ops : forall st b,
  nth (length ops) (api_run urlnorm st (ops ++ [ApiParse b])) OutNone = OutParse (from_bytes urlnorm b).
Proof.
  induction ops as [|op ops IH]; intros st b; cbn [app api_run length nth].
  - cbn [api_step]. reflexivity.
  - destruct (api_step urlnorm st op) as [st' o]. cbn [nth]. apply IH.
Qed.

Lemma upd_nth_other {A} (f : A -> A) (d : A) l : forall i k, i <> k -> nth k (upd_nth i f l) d = nth k l d.
Proof.
  induction l as [|x l IH]; intros i k H; [destruct i; reflexivity|].
  destruct i, k; cbn [upd_nth nth]; try reflexivity; [congruence|apply IH; congruence].
Qed.

(** editing a record of list #i leaves every other list as it was *)
Lemma api_edit_local urlnorm st op i k :
  (exists j v, op = ApiSetName i j v) \/ (exists j v, op = ApiSetCompany i j v) \/ (exists j v, op = ApiSetData i j v) ->
  i <> k -> nth k (fst (api_step urlnorm st op)) [] = nth k st [].
Proof.
  intros [(j & v & ->)|[(j & v & ->)|(j & v & ->)]] H; cbn [api_step fst]; apply upd_nth_other; exact H.
Qed.

Lemma api_run_last urlnorm ops : forall st op,
  nth (length ops) (api_run urlnorm st (ops ++ [op])) OutNone
  = snd (api_step urlnorm (api_state urlnorm st ops) op).
Proof.
  induction ops as [|o ops IH]; intros st op; cbn [app api_run length nth api_state fold_left].
  - destruct (api_step urlnorm st op). reflexivity.
  - destruct (api_step urlnorm st o) as [st' x] eqn:E. cbn [nth fst].
    rewrite IH. unfold api_state. reflexivity.
Qed.

(** serialising is a function of the records the list holds when it is called *)
Lemma api_serialise_current urlnorm ops st i :
  nth (length ops) (api_run urlnorm st (ops ++ [ApiSerialise i])) OutNone
  = OutBytes (to_bytes (nth i (api_state urlnorm st ops) [])).
Proof. rewrite api_run_last. reflexivity. Qed.

(** ... and parsing what a list serialises to gives back the records it holds NOW, whatever
    was built, added, removed, edited or serialised before (well-formed records that fit) *)
Lemma api_reparse_current urlnorm ops st i :
  let l := nth i (api_state urlnorm st ops) [] in
  forallb (wf_rec urlnorm) l = true -> fits31 l ->
  nth (length ops) (api_run urlnorm st (ops ++ [ApiReparse i])) OutNone = OutParse (Ok l).
Proof.
  intros l W F. rewrite api_run_last. cbn [api_step snd]. fold l.
  destruct (parse_serialise urlnorm l W F) as (b & -> & _ & ->). reflexivity.
Qed.
