(** C06 — property theorems (each closed by [exact]); see Proofs.v.
    The per-predicate / per-constructor / per-operation instances
    ([pred_meaning_<domain>_<predicate>], [ctor_guard_<role>], [op_guard_<operation>]) are
    generated from the source on every run (build/C06/C06Thms.v) and are proved from
    [C06_reflection], [C06_guard_sound_ctor], [C06_guard_sound_op] below by computing the
    boolean premise; they too are checked with Print Assumptions. *)
From Coq Require Import List NArith Bool String.
From Whad Require Import C06.Model C06.Spec C06.Proofs.
Import ListNotations.
Open Scope N_scope.

(** Reflection: two predicates that agree on every assignment of the finitely many bits
    they mention agree on ALL command / capability words. *)
Theorem C06_reflection :
  forall e1 e2 : bexpr, bequiv e1 e2 = true -> forall env, beval e1 env = beval e2 env.
Proof. exact bequiv_sound. Qed.

(** A predicate ignores every bit it does not mention: flipping any other bit of any
    advertised word leaves it unchanged ... *)
Theorem C06_pred_ignores_other_bits :
  forall (b : bexpr) (e : env) (v : var) (i : N),
    N.testbit (lookup (bsupp b) v) i = false -> beval b (flip e v i) = beval b e.
Proof. exact flip_irrelevant. Qed.

(** Hence a predicate proved equal to its Spec reads exactly the Spec's bits: flipping any
    bit the SPEC does not mention leaves the generated predicate unchanged. *)
Theorem C06_pred_reads_only_spec_bits :
  forall gen spec : bexpr, bequiv gen spec = true ->
  forall e v i, N.testbit (lookup (bsupp spec) v) i = false -> beval gen (flip e v i) = beval gen e.
Proof. exact meaning_ignores. Qed.

(** ... and two interfaces that agree on the mentioned bits are not told apart. *)
Theorem C06_pred_depends_only_on_support :
  forall (b : bexpr) (e e' : env),
    restrict e (bsupp b) = restrict e' (bsupp b) -> beval b e = beval b e'.
Proof. exact agree_irrelevant. Qed.

(** Reading of the Spec vocabulary: "all of these commands / flags are advertised",
    "at least one of them is", and the mentioned bits are exactly the listed ones. *)
Theorem C06_spec_all_reading :
  forall v l e, beval (all_bits v l) e = true <-> Forall (fun n => N.testbit (lookup e v) n = true) l.
Proof. exact all_bits_spec. Qed.

Theorem C06_spec_any_reading :
  forall v l e, beval (any_bits v l) e = true <-> Exists (fun n => N.testbit (lookup e v) n = true) l.
Proof. exact any_bits_spec. Qed.

Theorem C06_spec_all_support :
  forall v l i, N.testbit (lookup (bsupp (all_bits v l)) v) i = existsb (N.eqb i) l.
Proof. exact all_bits_supp. Qed.

(** e.g. the intended meaning of BLE can_inject: (SendPDU or SendRawPDU) and the Inject
    FLAG, i.e. bit 2 = mask 0x04 of the capability word *)
Theorem C06_spec_can_inject_reading :
  forall e, beval spec_ble_can_inject e
            = ((N.testbit (e_cmds e) 15 || (N.testbit (e_cmds e) 14 || false)) && N.testbit (e_caps e) 2).
Proof. exact spec_can_inject_reading. Qed.

(** Guard soundness, constructors: when the static check of a constructor against its
    role requirement passes, then for EVERY advertised command / capability word and every
    path through the constructor: domain not advertised -> UnsupportedDomain and no domain
    command transmitted; domain advertised but the requirement false ->
    UnsupportedCapability and no domain command transmitted. *)
Theorem C06_guard_sound_ctor :
  forall (req : bexpr) (p : gprog),
    checks_before_sends_ctor req p = true ->
    forall e r sends, In (r, sends) (grun p e) ->
      (beval has_domain e = false -> r = RRaise EUnsupportedDomain /\ sends = []) /\
      (beval has_domain e = true -> beval req e = false ->
         r = RRaise EUnsupportedCapability /\ sends = []).
Proof. exact guard_sound_ctor. Qed.

(** Guard soundness, operations: guard false -> UnsupportedCapability or "reports
    failure", and nothing transmitted. *)
Theorem C06_guard_sound_op :
  forall (req : bexpr) (p : gprog),
    checks_before_sends_op req p = true ->
    forall e r sends, In (r, sends) (grun p e) -> beval req e = false ->
      (r = RRaise EUnsupportedCapability \/ r = RFalse) /\ sends = [].
Proof. exact guard_sound_op. Qed.

(** ... and over sequences of operations on one connector: the outcomes of the k-th operation
    are those of the operation alone (the guard programs read no connector state; a test on an
    instance attribute is a nondeterministic choice), so its guard holds whatever was called
    before. *)
Theorem C06_guard_sound_seq :
  forall (l : list (bexpr * gprog)),
    (forall rp, In rp l -> checks_before_sends_op (fst rp) (snd rp) = true) ->
    forall e k req p outs,
      nth_error l k = Some (req, p) ->
      nth_error (run_seq (map snd l) e) k = Some outs ->
      outs = grun p e /\
      forall r sends, In (r, sends) outs -> beval req e = false ->
        (r = RRaise EUnsupportedCapability \/ r = RFalse) /\ sends = [].
Proof. exact guard_sound_seq. Qed.

(** Argument-dependent guards (e.g. BLE send_pdu: control PDU x NoRawData flag): on every
    interface, every path consistent with the assumption on the arguments (including paths that
    never test them) and on which the requirement is false raises UnsupportedCapability or
    reports failure, and transmits nothing. *)
Theorem C06_guard_sound_op_arg :
  forall (asm : list (string * bool)) (req : bexpr) (p : gprog),
    checks_before_sends_op_arg asm req p = true ->
    forall e path r sends, In (path, (r, sends)) (gpaths p e) ->
      path_consistent asm path = true -> beval req e = false ->
      (r = RRaise EUnsupportedCapability \/ r = RFalse) /\ sends = [].
Proof. exact guard_sound_op_arg. Qed.

(** A witness returned by the search really falsifies the requirement (so a failed check
    comes with a concrete interface to replay on the code). *)
Theorem C06_ctor_witness_sound :
  forall req p e, ctor_witness req p = Some e -> ctor_ok req p e = false.
Proof. exact ctor_witness_sound. Qed.

Theorem C06_pred_witness_sound :
  forall e1 e2 env, bdiff e1 e2 = Some env -> beval e1 env <> beval e2 env.
Proof. exact bdiff_sound. Qed.

(** DeviceInfo: the advertised word splits into disjoint domain (bits 24..31) and
    capability flags (bits 0..23). *)
Theorem C06_deviceinfo_split :
  forall w,
    N.land (word_domain w) (word_caps w) = 0 /\
    N.lor (word_domain w) (word_caps w) = N.land w 0xFFFFFFFF /\
    (forall i, N.testbit (word_caps w) i = N.testbit w i && N.ltb i 24) /\
    (forall i, N.testbit (word_domain w) i = N.testbit w i && (N.leb 24 i && N.ltb i 32)).
Proof. exact deviceinfo_split. Qed.

(** after DeviceInfo.__init__ a domain is known iff some word carries it, its flags are
    those of the LAST such word and its command mask starts empty *)
Theorem C06_deviceinfo_init :
  forall ws d,
    di_find d (di_init ws)
    = option_map (fun w => (word_caps w, 0)) (find (fun w => N.eqb (word_domain w) d) (rev ws)).
Proof. exact di_init_find. Qed.

Theorem C06_deviceinfo_has_domain :
  forall ws d, di_has_domain (di_init ws) d = existsb (fun w => N.eqb (word_domain w) d) ws.
Proof. exact di_init_has_domain. Qed.

(** has_domain_cap(domain, capability MASK): true iff the domain is known and at least one
    bit of the mask is set in its flags *)
Theorem C06_has_domain_cap :
  forall t d cap,
    di_has_domain_cap t d cap = true <->
    exists c, di_caps t d = Some c /\ exists i, N.testbit cap i = true /\ N.testbit c i = true.
Proof. exact di_has_domain_cap_spec. Qed.

(** The predicate as it was before the repair ([1 << Capability.Inject], i.e. it read bit
    4 = Hijack) does NOT mean what can_inject stands for; kept as a checked record of the
    defect (the current source is translated and compared on every run). *)
Theorem C06_legacy_can_inject_refuted :
  exists env, beval legacy_ble_can_inject env <> beval spec_ble_can_inject env.
Proof. exact legacy_can_inject_refuted. Qed.

(** Non-vacuity: a small constructor in the shape of the real ones passes the static check
    against "Central" and, on an interface advertising CentralMode/Start/Stop, completes
    after transmitting; the requirement is false on the empty interface. *)
Example C06_nonvacuous :
  checks_before_sends_ctor spec_ble_can_be_central sample_ctor = true
  /\ completes_with_send sample_ctor (mkEnv (2 ^ 12 + 2 ^ 18 + 2 ^ 19) 0 1) = true
  /\ beval spec_ble_can_be_central (mkEnv 0 0 1) = false
  /\ bequiv legacy_ble_can_inject spec_ble_can_inject = false.
Proof. exact nonvacuous. Qed.
