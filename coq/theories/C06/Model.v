(** C06 — capability gating: generic definitions (no proofs in this file).

    * [bexpr]: a small deep-embedded language for the capability predicates of the
      domain connectors ([can_*] / [support_*] of whad/<domain>/connector).  The
      translator harness/translators/C06_preds.py emits one [bexpr] per predicate from
      the Python AST (Python's [&], [|], [<<], [>>], comparisons, [and]/[or]/[not],
      integer constants, the two words [commands]/[capabilities]); the hand-written
      Spec.v gives the intended meaning with [BTest] atoms (bit tests) only.
    * [bequiv]: a reflective decision procedure; [bequiv e1 e2 = true] implies
      [forall env, beval e1 env = beval e2 env] for ALL words (Proofs.v), because
      every expression depends on the words only through the finitely many bits it
      mentions ([bsupp]).
    * [gprog]: guard programs = constructors / guarded operations as decision trees
      over such predicates with calls classified transmitting / non-transmitting.
    * DeviceInfo: the split of a capability word into domain and capability flags. *)
From Coq Require Import List NArith Bool String.
Import ListNotations.
Open Scope N_scope.

(** ---- environments: what an interface advertises for one domain ---- *)

(** [VCmds]: the supported-commands bitmask of the connector's domain
    ([device.get_domain_commands(Domain.X)]); [VCaps]: its capability flags
    ([device.get_domain_capability(Domain.X)]); [VAux]: bit 0 = "the interface
    advertises the connector's domain" ([device.has_domain(Domain.X)]). *)
Inductive var := VCmds | VCaps | VAux.

(** A triple of words; also used for supports (one mask per variable). *)
Record env := mkEnv { e_cmds : N; e_caps : N; e_aux : N }.

Definition lookup (e : env) (v : var) : N :=
  match v with VCmds => e_cmds e | VCaps => e_caps e | VAux => e_aux e end.

Definition env0 : env := mkEnv 0 0 0.

Definition single (v : var) (m : N) : env :=
  match v with
  | VCmds => mkEnv m 0 0
  | VCaps => mkEnv 0 m 0
  | VAux => mkEnv 0 0 m
  end.

Definition sunion (a b : env) : env :=
  mkEnv (N.lor (e_cmds a) (e_cmds b)) (N.lor (e_caps a) (e_caps b)) (N.lor (e_aux a) (e_aux b)).

(** keep only the bits of [M] *)
Definition restrict (e M : env) : env :=
  mkEnv (N.land (e_cmds e) (e_cmds M)) (N.land (e_caps e) (e_caps M)) (N.land (e_aux e) (e_aux M)).

(** flip bit [i] of variable [v] *)
Definition flip (e : env) (v : var) (i : N) : env :=
  match v with
  | VCmds => mkEnv (N.lxor (e_cmds e) (2 ^ i)) (e_caps e) (e_aux e)
  | VCaps => mkEnv (e_cmds e) (N.lxor (e_caps e) (2 ^ i)) (e_aux e)
  | VAux => mkEnv (e_cmds e) (e_caps e) (N.lxor (e_aux e) (2 ^ i))
  end.

(** ---- expressions ---- *)

(** closed integer expressions: [1 << Commands.X], [Capability.Y], [a | b] ... *)
Inductive cexpr :=
| CConst (n : N)
| CShl (a b : cexpr)
| CShr (a b : cexpr)
| COr (a b : cexpr)
| CAnd (a b : cexpr).

Fixpoint ceval (c : cexpr) : N :=
  match c with
  | CConst n => n
  | CShl a b => N.shiftl (ceval a) (ceval b)
  | CShr a b => N.shiftr (ceval a) (ceval b)
  | COr a b => N.lor (ceval a) (ceval b)
  | CAnd a b => N.land (ceval a) (ceval b)
  end.

(** integer expressions: a constant, or one of the words masked by a constant
    ([commands & (1 << Commands.X)]).  Any other use of a word is outside the
    translator's grammar (fail-closed). *)
Inductive iexpr :=
| IConst (c : cexpr)
| IMasked (v : var) (m : cexpr).

Definition ieval (a : iexpr) (e : env) : N :=
  match a with
  | IConst c => ceval c
  | IMasked v m => N.land (lookup e v) (ceval m)
  end.

Inductive cmpop := OGt | OGe | OLt | OLe | OEq | ONe.

Definition cmp_eval (op : cmpop) (a b : N) : bool :=
  match op with
  | OGt => N.ltb b a
  | OGe => N.leb b a
  | OLt => N.ltb a b
  | OLe => N.leb a b
  | OEq => N.eqb a b
  | ONe => negb (N.eqb a b)
  end.

(** boolean expressions; [BTruthy a] is Python's truth value of an int;
    Python's [and]/[or] are modelled on truth values (the callers only branch on
    the result). [BTest v n] = bit [n] of word [v] is set (used by the Spec). *)
Inductive bexpr :=
| BConst (b : bool)
| BTest (v : var) (n : N)
| BCmp (op : cmpop) (a b : iexpr)
| BTruthy (a : iexpr)
| BNot (x : bexpr)
| BAnd (x y : bexpr)
| BOr (x y : bexpr).

Fixpoint beval (b : bexpr) (e : env) : bool :=
  match b with
  | BConst c => c
  | BTest v n => N.testbit (lookup e v) n
  | BCmp op x y => cmp_eval op (ieval x e) (ieval y e)
  | BTruthy x => negb (N.eqb (ieval x e) 0)
  | BNot x => negb (beval x e)
  | BAnd x y => beval x e && beval y e
  | BOr x y => beval x e || beval y e
  end.

(** the bits an expression mentions, per word *)
Definition isupp (a : iexpr) : env :=
  match a with
  | IConst _ => env0
  | IMasked v m => single v (ceval m)
  end.

Fixpoint bsupp (b : bexpr) : env :=
  match b with
  | BConst _ => env0
  | BTest v n => single v (2 ^ n)
  | BCmp _ x y => sunion (isupp x) (isupp y)
  | BTruthy x => isupp x
  | BNot x => bsupp x
  | BAnd x y => sunion (bsupp x) (bsupp y)
  | BOr x y => sunion (bsupp x) (bsupp y)
  end.

(** ---- finite enumeration of the relevant bits ---- *)

(** all sub-masks of a mask (2^popcount of them) *)
Fixpoint subpos (p : positive) : list N :=
  match p with
  | xH => [0; 1]
  | xO q => map N.double (subpos q)
  | xI q => map N.double (subpos q) ++ map N.succ_double (subpos q)
  end.

Definition submasks (m : N) : list N :=
  match m with N0 => [0] | Npos p => subpos p end.

Definition all_envs (M : env) : list env :=
  flat_map (fun c =>
    flat_map (fun p =>
      map (fun a => mkEnv c p a) (submasks (e_aux M)))
      (submasks (e_caps M)))
    (submasks (e_cmds M)).

(** [forall_envs M f]: [f] holds on every assignment of the bits of [M] (others 0) *)
Definition forall_envs (M : env) (f : env -> bool) : bool := forallb f (all_envs M).

Definition find_env (M : env) (f : env -> bool) : option env := find f (all_envs M).

(** decision procedure for semantic equality of two predicates, and a witness
    finder (an environment on which they differ) used by the harness. *)
Definition bequiv (e1 e2 : bexpr) : bool :=
  forall_envs (sunion (bsupp e1) (bsupp e2)) (fun env => Bool.eqb (beval e1 env) (beval e2 env)).

Definition bdiff (e1 e2 : bexpr) : option env :=
  find_env (sunion (bsupp e1) (bsupp e2)) (fun env => negb (Bool.eqb (beval e1 env) (beval e2 env))).

(** number of bits mentioned (reported in the evidence) *)
Definition popcount (n : N) : nat := List.length (filter (fun i => N.testbit n (N.of_nat i)) (seq 0 (N.to_nat (N.size n)))).

(** ---- spec combinators (bit tests only) ---- *)

Fixpoint all_bits (v : var) (l : list N) : bexpr :=
  match l with
  | [] => BConst true
  | n :: r => BAnd (BTest v n) (all_bits v r)
  end.

Fixpoint any_bits (v : var) (l : list N) : bexpr :=
  match l with
  | [] => BConst false
  | n :: r => BOr (BTest v n) (any_bits v r)
  end.

Fixpoint ball (l : list bexpr) : bexpr :=
  match l with
  | [] => BConst true
  | x :: r => BAnd x (ball r)
  end.

(** "the interface advertises the connector's domain" *)
Definition has_domain : bexpr := BTest VAux 0.

(** ---- guard programs ---- *)

Inductive exn := EUnsupportedDomain | EUnsupportedCapability | EOther.

(** how a constructor / operation ends: normal return ([ROk]), [return False]/[None]
    ("reports failure"), or an exception class *)
Inductive result := ROk | RFalse | RRaise (x : exn).

(** A Python constructor/operation as a decision tree.
    [GCall transmits name k]: a call (or statement containing calls); [transmits =
    false] only for calls on the translator's allow-list of non-transmitting calls,
    every other call is counted as possibly sending a domain command.
    [GIf c t e]: branch on a capability predicate (inlined as [bexpr]).
    [GChoice label t e]: branch on a condition that does not depend on the
    advertised masks (arguments, [isinstance] ...): both branches are possible. *)
Inductive gprog :=
| GDone (r : result)
| GCall (transmits : bool) (name : string) (k : gprog)
| GIf (c : bexpr) (t e : gprog)
| GChoice (label : string) (t e : gprog).

(** what a call that is not on the allow-list may do besides returning: raise from
    inside (e.g. a nested guarded operation raising UnsupportedCapability) *)
Definition callee_raises (n : string) : list (result * list string) :=
  [(RRaise EUnsupportedCapability, [n]); (RRaise EUnsupportedDomain, [n]); (RRaise EOther, [n])].

(** all possible (result, possibly-transmitting calls in order) of a program *)
Fixpoint grun (p : gprog) (e : env) : list (result * list string) :=
  match p with
  | GDone r => [(r, [])]
  | GCall tx n k =>
      if tx then map (fun o => (fst o, n :: snd o)) (grun k e) ++ callee_raises n
      else grun k e
  | GIf c t f => if beval c e then grun t e else grun f e
  | GChoice _ t f => grun t e ++ grun f e
  end.

Fixpoint gsupp (p : gprog) : env :=
  match p with
  | GDone _ => env0
  | GCall _ _ k => gsupp k
  | GIf c t f => sunion (bsupp c) (sunion (gsupp t) (gsupp f))
  | GChoice _ t f => sunion (gsupp t) (gsupp f)
  end.

Definition exn_eqb (a b : exn) : bool :=
  match a, b with
  | EUnsupportedDomain, EUnsupportedDomain => true
  | EUnsupportedCapability, EUnsupportedCapability => true
  | EOther, EOther => true
  | _, _ => false
  end.

Definition result_eqb (a b : result) : bool :=
  match a, b with
  | ROk, ROk => true
  | RFalse, RFalse => true
  | RRaise x, RRaise y => exn_eqb x y
  | _, _ => false
  end.

Definition is_nil {A} (l : list A) : bool := match l with [] => true | _ => false end.

(** what the property demands of ONE outcome of a constructor under [e]:
    domain not advertised -> UnsupportedDomain and nothing transmitted;
    domain advertised but a required predicate false -> UnsupportedCapability and
    nothing transmitted. *)
Definition ctor_outcome_ok (req : bexpr) (e : env) (o : result * list string) : bool :=
  if negb (beval has_domain e) then
    result_eqb (fst o) (RRaise EUnsupportedDomain) && is_nil (snd o)
  else if negb (beval req e) then
    result_eqb (fst o) (RRaise EUnsupportedCapability) && is_nil (snd o)
  else true.

(** ... and of ONE outcome of a guarded operation: guard false -> raises
    UnsupportedCapability or reports failure, and nothing transmitted. *)
Definition op_outcome_ok (req : bexpr) (e : env) (o : result * list string) : bool :=
  if negb (beval req e) then
    (result_eqb (fst o) (RRaise EUnsupportedCapability) || result_eqb (fst o) RFalse)
    && is_nil (snd o)
  else true.

Definition ctor_ok (req : bexpr) (p : gprog) (e : env) : bool :=
  forallb (ctor_outcome_ok req e) (grun p e).

Definition op_ok (req : bexpr) (p : gprog) (e : env) : bool :=
  forallb (op_outcome_ok req e) (grun p e).

(** The static checks ("every check comes before every send, with the right
    exception"), decided by running the program on every assignment of the bits that
    the program and the requirement mention.  Proofs.v lifts them to all words. *)
Definition ctor_supp (req : bexpr) (p : gprog) : env :=
  sunion (bsupp has_domain) (sunion (bsupp req) (gsupp p)).

Definition checks_before_sends_ctor (req : bexpr) (p : gprog) : bool :=
  forall_envs (ctor_supp req p) (ctor_ok req p).

Definition ctor_witness (req : bexpr) (p : gprog) : option env :=
  find_env (ctor_supp req p) (fun e => negb (ctor_ok req p e)).

Definition op_supp (req : bexpr) (p : gprog) : env := sunion (bsupp req) (gsupp p).

Definition checks_before_sends_op (req : bexpr) (p : gprog) : bool :=
  forall_envs (op_supp req p) (op_ok req p).

Definition op_witness (req : bexpr) (p : gprog) : option env :=
  find_env (op_supp req p) (fun e => negb (op_ok req p e)).

(** the same outcomes as [grun], each with the branches taken at the [GChoice] nodes on
    its path (label, branch): used to turn a counterexample of the static check into the
    ARGUMENTS to replay on the real constructor / operation *)
Fixpoint gpaths (p : gprog) (e : env) : list (list (string * bool) * (result * list string)) :=
  match p with
  | GDone r => [([], (r, []))]
  | GCall tx n k =>
      if tx then map (fun x => (fst x, (fst (snd x), n :: snd (snd x)))) (gpaths k e)
                 ++ map (fun o => ([], o)) (callee_raises n)
      else gpaths k e
  | GIf c t f => if beval c e then gpaths t e else gpaths f e
  | GChoice l t f =>
      map (fun x => ((l, true) :: fst x, snd x)) (gpaths t e)
      ++ map (fun x => ((l, false) :: fst x, snd x)) (gpaths f e)
  end.

Definition ctor_witness_path (req : bexpr) (p : gprog) : list (string * bool) :=
  match ctor_witness req p with
  | Some e => match find (fun x => negb (ctor_outcome_ok req e (snd x))) (gpaths p e) with
              | Some x => fst x | None => [] end
  | None => []
  end.

Definition op_witness_path (req : bexpr) (p : gprog) : list (string * bool) :=
  match op_witness req p with
  | Some e => match find (fun x => negb (op_outcome_ok req e (snd x))) (gpaths p e) with
              | Some x => fst x | None => [] end
  | None => []
  end.

(** ---- argument-dependent guards ----
    Some guards depend on an ARGUMENT as well as on the advertised words (BLE [send_pdu]: a PDU
    carrying a control layer must not be sent to an interface with the NoRawData flag).  Argument
    tests are [GChoice] nodes labelled with their source text; an assumption is a list of
    (fragment of a label, branch): a path is consistent with it when every choice whose label
    contains a fragment takes the stated branch.  Paths that never test the argument are consistent
    too: the obligation then says the operation must refuse whatever it tested. *)
Fixpoint prefixb (a b : string) : bool :=
  match a, b with
  | EmptyString, _ => true
  | String x a', String y b' => Ascii.eqb x y && prefixb a' b'
  | _, _ => false
  end.

Fixpoint containsb (frag s : string) : bool :=
  prefixb frag s || match s with EmptyString => false | String _ s' => containsb frag s' end.

Definition path_consistent (asm : list (string * bool)) (path : list (string * bool)) : bool :=
  forallb (fun a => forallb (fun c => if containsb (fst a) (fst c) then Bool.eqb (snd a) (snd c) else true) path) asm.

Definition op_ok_arg (asm : list (string * bool)) (req : bexpr) (p : gprog) (e : env) : bool :=
  forallb (fun x => implb (path_consistent asm (fst x)) (op_outcome_ok req e (snd x))) (gpaths p e).

Definition checks_before_sends_op_arg (asm : list (string * bool)) (req : bexpr) (p : gprog) : bool :=
  forall_envs (op_supp req p) (op_ok_arg asm req p).

Definition op_arg_witness (asm : list (string * bool)) (req : bexpr) (p : gprog) : option env :=
  find_env (op_supp req p) (fun e => negb (op_ok_arg asm req p e)).

(** A sequence of operations on one connector.  The generated guard programs read no connector
    state: a test on an instance attribute is a [GChoice] (either branch, whatever was called
    before), the only state the translator accepts in a predicate is its own memoisation cache.
    So the possible outcomes of the k-th operation of a sequence are those of the operation alone. *)
Definition run_seq (ops : list gprog) (e : env) : list (list (result * list string)) :=
  map (fun p => grun p e) ops.

(** non-vacuity helper: some outcome completes normally after transmitting *)
Definition completes_with_send (p : gprog) (e : env) : bool :=
  existsb (fun o => result_eqb (fst o) ROk && negb (is_nil (snd o))) (grun p e).

(** ---- DeviceInfo (whad/device/info.py) ---- *)

Definition DOMAIN_MASK : N := 0xFF000000.
Definition CAP_MASK : N := 0x00FFFFFF.

Definition word_domain (w : N) : N := N.land w DOMAIN_MASK.
Definition word_caps (w : N) : N := N.land w CAP_MASK.

(** [DeviceInfo.__init__]: for each advertised word, [domains[w & 0xFF000000] =
    w & 0x00FFFFFF] (a later word for the same domain overrides) and
    [commands[w & 0xFF000000] = 0]. The dictionary is an association list whose
    first match wins, so words are consed in front. *)
Definition di := list (N * (N * N)).   (* domain -> (capabilities, commands) *)

Fixpoint di_remove (d : N) (t : di) : di :=
  match t with
  | [] => []
  | (k, x) :: r => if N.eqb k d then di_remove d r else (k, x) :: di_remove d r
  end.

Fixpoint di_find (d : N) (t : di) : option (N * N) :=
  match t with
  | [] => None
  | (k, x) :: r => if N.eqb k d then Some x else di_find d r
  end.

Definition di_init (words : list N) : di :=
  fold_left (fun t w => (word_domain w, (word_caps w, 0)) :: di_remove (word_domain w) t) words [].

(** [add_supported_commands(domain, commands)]: only for a known domain *)
Definition di_add_commands (t : di) (d cmds : N) : di :=
  match di_find d t with
  | Some (c, _) => (d, (c, cmds)) :: di_remove d t
  | None => t
  end.

Definition di_has_domain (t : di) (d : N) : bool :=
  match di_find d t with Some _ => true | None => false end.

(** [get_domain_capabilities] / [get_domain_commands]: [None] for unknown domains *)
Definition di_caps (t : di) (d : N) : option N := option_map fst (di_find d t).
Definition di_cmds (t : di) (d : N) : option N := option_map snd (di_find d t).

(** [has_domain_cap(domain, capability)]: [domains[domain] & capability > 0]
    ([capability] is a mask of class Capability), [False] for unknown domains. *)
Definition di_has_domain_cap (t : di) (d cap : N) : bool :=
  match di_find d t with
  | Some (c, _) => N.ltb 0 (N.land c cap)
  | None => false
  end.

(** ---- correspondence checks (evaluated by the harness with vm_compute) ---- *)

Fixpoint bools_eqb (a b : list bool) : bool :=
  match a, b with
  | [], [] => true
  | x :: r, y :: s => Bool.eqb x y && bools_eqb r s
  | _, _ => false
  end.

(** one differential case of the predicates of a domain: (domain index, cmds, caps,
    observed truth values of all live predicate methods of that domain, in table order) *)
Definition env_case := (nat * N * N * list bool)%type.

Definition check_pred_env (tables : list (list bexpr)) (c : env_case) : bool :=
  let '(d, cm, cp, obs) := c in
  match nth_error tables d with
  | Some t => bools_eqb (map (fun b => beval b (mkEnv cm cp 1)) t) obs
  | None => false
  end.

(** observed behaviour of a constructor / operation on the recording interface:
    outcome and whether any domain message was seen *)
Definition run_case := (nat * N * N * bool * result * bool)%type.
   (* index, cmds, caps, domain advertised, observed result, observed "some domain message sent" *)

Definition case_env (cm cp : N) (dom : bool) : env := mkEnv cm cp (if dom then 1 else 0).

Definition common_result (outs : list (result * list string)) : option result :=
  match outs with
  | [] => None
  | o :: r => if forallb (fun x => result_eqb (fst x) (fst o)) r then Some (fst o) else None
  end.

Definition is_unsupported (r : result) : bool :=
  match r with RRaise EUnsupportedDomain | RRaise EUnsupportedCapability => true | _ => false end.

(** translator validation against one observed run: (a) a domain message was seen only
    if some path of the model transmits (the model over-approximates transmissions);
    (b) when all paths of the model end the same way and not by a normal return
    (an exception or "reports failure"), the implementation ended that way;
    (c) an observed Unsupported* error is one of the model's outcomes.  Return values
    after a transmission depend on the device's answer and are not compared. *)
Definition check_run (table : list (option gprog)) (c : run_case) : bool :=
  let '(i, cm, cp, dom, r, sent) := c in
  match nth_error table i with
  | Some None => true            (* item not translated: nothing to validate (reported separately) *)
  | Some (Some p) =>
      let outs := grun p (case_env cm cp dom) in
      (negb sent || existsb (fun o => negb (is_nil (snd o))) outs)
      && match common_result outs with
         | Some ROk => true
         | Some r0 => result_eqb r r0
         | None => true
         end
      && (negb (is_unsupported r) || existsb (fun o => result_eqb (fst o) r) outs)
  | None => false
  end.

(** the property on the real code's observations, against the Spec tables *)
Definition check_ctor_obs (reqs : list bexpr) (c : run_case) : bool :=
  let '(i, cm, cp, dom, r, sent) := c in
  match nth_error reqs i with
  | Some req => ctor_outcome_ok req (case_env cm cp dom) (r, if sent then [""%string] else [])
  | None => false
  end.

Definition check_op_obs (reqs : list bexpr) (c : run_case) : bool :=
  let '(i, cm, cp, dom, r, sent) := c in
  match nth_error reqs i with
  | Some req => op_outcome_ok req (case_env cm cp dom) (r, if sent then [""%string] else [])
  | None => false
  end.

(** DeviceInfo case: words, (domain, commands) updates, queried domain, queried
    capability mask, observed (has_domain, capabilities, commands, has_domain_cap) *)
Definition di_case := (list N * list (N * N) * N * N * (bool * option N * option N * bool))%type.

Definition check_di (c : di_case) : bool :=
  let '(words, adds, d, cap, (hd, caps, cmds, hdc)) := c in
  let t := fold_left (fun t a => di_add_commands t (fst a) (snd a)) adds (di_init words) in
  Bool.eqb (di_has_domain t d) hd
  && match di_caps t d, caps with Some a, Some b => N.eqb a b | None, None => true | _, _ => false end
  && match di_cmds t d, cmds with Some a, Some b => N.eqb a b | None, None => true | _, _ => false end
  && Bool.eqb (di_has_domain_cap t d cap) hdc.
