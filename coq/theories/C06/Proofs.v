(** C06 — lemmas. Everything here is for ALL words [N] (no bound on the masks). *)
From Coq Require Import List NArith Bool String Lia.
From Whad Require Import C06.Model C06.Spec.
Import ListNotations.
Open Scope N_scope.

(** ---- sub-masks ---- *)

Definition msub (a b : N) : Prop := forall i, N.testbit a i = true -> N.testbit b i = true.

Definition ssub (a b : env) : Prop :=
  msub (e_cmds a) (e_cmds b) /\ msub (e_caps a) (e_caps b) /\ msub (e_aux a) (e_aux b).

Lemma msub_refl a : msub a a.
Proof. intros i H; exact H. Qed.

Lemma msub_0 a : msub 0 a.
Proof. intros i H. rewrite N.bits_0 in H. discriminate. Qed.

Lemma msub_lor_l a b : msub a (N.lor a b).
Proof. intros i H. rewrite N.lor_spec, H. reflexivity. Qed.

Lemma msub_lor_r a b : msub b (N.lor a b).
Proof. intros i H. rewrite N.lor_spec, H. apply orb_true_r. Qed.

Lemma msub_trans a b c : msub a b -> msub b c -> msub a c.
Proof. intros H1 H2 i H. auto. Qed.

Lemma msub_lor_inv a b c : msub (N.lor a b) c -> msub a c /\ msub b c.
Proof.
  intros H; split; intros i Hi; apply H; rewrite N.lor_spec, Hi; auto using orb_true_r.
Qed.

Lemma ssub_refl a : ssub a a.
Proof. repeat split; apply msub_refl. Qed.

Lemma ssub_trans a b c : ssub a b -> ssub b c -> ssub a c.
Proof. intros (A & B & C) (D & E & F). repeat split; eapply msub_trans; eauto. Qed.

Lemma ssub_union_l a b : ssub a (sunion a b).
Proof. repeat split; apply msub_lor_l. Qed.

Lemma ssub_union_r a b : ssub b (sunion a b).
Proof. repeat split; apply msub_lor_r. Qed.

Lemma ssub_union_inv a b c : ssub (sunion a b) c -> ssub a c /\ ssub b c.
Proof.
  intros (A & B & C). cbn in *.
  apply msub_lor_inv in A. apply msub_lor_inv in B. apply msub_lor_inv in C.
  unfold ssub. tauto.
Qed.

Lemma ssub_env0 a : ssub env0 a.
Proof. repeat split; apply msub_0. Qed.

Lemma ssub_single v m M : ssub (single v m) M -> msub m (lookup M v).
Proof. destruct v; intros (A & B & C); assumption. Qed.

Lemma lookup_restrict e M v : lookup (restrict e M) v = N.land (lookup e v) (lookup M v).
Proof. destruct v; reflexivity. Qed.

Lemma land_restrict x m M : msub m M -> N.land (N.land x M) m = N.land x m.
Proof.
  intros H. apply N.bits_inj; intro i. rewrite !N.land_spec.
  destruct (N.testbit m i) eqn:E.
  - rewrite (H i E). now rewrite !andb_true_r.
  - now rewrite !andb_false_r.
Qed.

Lemma testbit_restrict x n M : msub (2 ^ n) M -> N.testbit (N.land x M) n = N.testbit x n.
Proof.
  intros H. rewrite N.land_spec, (H n (N.pow2_bits_true n)). apply andb_true_r.
Qed.

(** ---- locality: an expression reads only the bits it mentions ---- *)

Lemma ieval_local a M e : ssub (isupp a) M -> ieval a (restrict e M) = ieval a e.
Proof.
  destruct a as [c | v m]; cbn [ieval isupp]; intros H; [reflexivity|].
  rewrite lookup_restrict. apply land_restrict. now apply ssub_single.
Qed.

Lemma beval_local b : forall M e, ssub (bsupp b) M -> beval b (restrict e M) = beval b e.
Proof.
  induction b; intros M e H; cbn [beval bsupp] in *.
  - reflexivity.
  - rewrite lookup_restrict. apply testbit_restrict. now apply ssub_single.
  - apply ssub_union_inv in H as [H1 H2]. now rewrite !ieval_local.
  - now rewrite ieval_local.
  - now rewrite IHb.
  - apply ssub_union_inv in H as [H1 H2]. now rewrite IHb1, IHb2.
  - apply ssub_union_inv in H as [H1 H2]. now rewrite IHb1, IHb2.
Qed.

(** ---- the enumeration is complete ---- *)

Lemma subpos_complete p : forall x, In (N.land x (Npos p)) (subpos p).
Proof.
  induction p as [q IH | q IH | ]; intros x; cbn [subpos].
  - (* q~1 *)
    apply in_or_app.
    destruct x as [| [y | y | ]].
    + left. apply in_map_iff. exists 0. split; [reflexivity|]. apply (IH 0).
    + right. apply in_map_iff. exists (N.land (Npos y) (Npos q)). split; [|apply IH].
      cbn. destruct (Pos.land y q); reflexivity.
    + left. apply in_map_iff. exists (N.land (Npos y) (Npos q)). split; [|apply IH].
      cbn. destruct (Pos.land y q); reflexivity.
    + right. apply in_map_iff. exists 0. split; [reflexivity|]. apply (IH 0).
  - (* q~0 *)
    destruct x as [| [y | y | ]].
    + apply in_map_iff. exists 0. split; [reflexivity|]. apply (IH 0).
    + apply in_map_iff. exists (N.land (Npos y) (Npos q)). split; [|apply IH].
      cbn. destruct (Pos.land y q); reflexivity.
    + apply in_map_iff. exists (N.land (Npos y) (Npos q)). split; [|apply IH].
      cbn. destruct (Pos.land y q); reflexivity.
    + apply in_map_iff. exists 0. split; [reflexivity|]. apply (IH 0).
  - (* 1 *)
    destruct x as [| [y | y | ]]; cbn; auto.
Qed.

Lemma submasks_complete x m : In (N.land x m) (submasks m).
Proof.
  destruct m as [| p]; cbn [submasks].
  - rewrite N.land_0_r. now left.
  - apply subpos_complete.
Qed.

Lemma all_envs_complete e M : In (restrict e M) (all_envs M).
Proof.
  unfold all_envs, restrict.
  apply in_flat_map. exists (N.land (e_cmds e) (e_cmds M)). split; [apply submasks_complete|].
  apply in_flat_map. exists (N.land (e_caps e) (e_caps M)). split; [apply submasks_complete|].
  apply in_map_iff. exists (N.land (e_aux e) (e_aux M)). split; [reflexivity|apply submasks_complete].
Qed.

(** the reflection principle: a boolean property that only reads the bits of [M]
    holds for all words as soon as it holds on the 2^|M| assignments of those bits *)
Lemma forall_envs_sound M f :
  (forall e, f (restrict e M) = f e) ->
  forall_envs M f = true -> forall e, f e = true.
Proof.
  intros Hloc H e. rewrite <- Hloc.
  unfold forall_envs in H. rewrite forallb_forall in H. apply H, all_envs_complete.
Qed.

Lemma bequiv_sound e1 e2 :
  bequiv e1 e2 = true -> forall env, beval e1 env = beval e2 env.
Proof.
  intros H env. apply eqb_prop.
  unfold bequiv in H. revert env. eapply forall_envs_sound; [|exact H].
  intros e. cbv beta. rewrite !beval_local; auto using ssub_union_l, ssub_union_r.
Qed.

Lemma find_env_some M f e : find_env M f = Some e -> f e = true.
Proof. unfold find_env. intros H. now apply find_some in H. Qed.

Lemma bdiff_sound e1 e2 env : bdiff e1 e2 = Some env -> beval e1 env <> beval e2 env.
Proof.
  intros H. apply find_env_some in H. intros E. rewrite E, eqb_reflx in H. discriminate.
Qed.

(** ---- "ignores all other bits" ---- *)

Lemma land_lxor_pow2 x m i : N.testbit m i = false -> N.land (N.lxor x (2 ^ i)) m = N.land x m.
Proof.
  intros H. apply N.bits_inj; intro j. rewrite !N.land_spec, N.lxor_spec.
  destruct (N.eq_dec i j) as [<- | Hne].
  - now rewrite H, !andb_false_r.
  - rewrite N.pow2_bits_false by assumption. now rewrite xorb_false_r.
Qed.

Lemma restrict_flip e S v i :
  N.testbit (lookup S v) i = false -> restrict (flip e v i) S = restrict e S.
Proof.
  unfold restrict, flip. destruct v; cbn [lookup e_cmds e_caps e_aux]; intros H; now rewrite land_lxor_pow2.
Qed.

Lemma flip_irrelevant b e v i :
  N.testbit (lookup (bsupp b) v) i = false -> beval b (flip e v i) = beval b e.
Proof.
  intros H.
  rewrite <- (beval_local b (bsupp b) (flip e v i)) by apply ssub_refl.
  rewrite <- (beval_local b (bsupp b) e) by apply ssub_refl.
  now rewrite restrict_flip.
Qed.

(** a predicate proved equal to its spec ignores every bit the SPEC does not mention
    (whatever bits its own text mentions) *)
Lemma meaning_ignores gen spec :
  bequiv gen spec = true ->
  forall e v i, N.testbit (lookup (bsupp spec) v) i = false -> beval gen (flip e v i) = beval gen e.
Proof.
  intros H e v i Hi. rewrite !(bequiv_sound _ _ H). now apply flip_irrelevant.
Qed.

(** more generally: two interfaces that agree on the mentioned bits are not told apart *)
Lemma agree_irrelevant b e e' :
  restrict e (bsupp b) = restrict e' (bsupp b) -> beval b e = beval b e'.
Proof.
  intros H.
  rewrite <- (beval_local b (bsupp b) e) by apply ssub_refl.
  rewrite <- (beval_local b (bsupp b) e') by apply ssub_refl.
  now rewrite H.
Qed.

(** ---- reading of the Spec combinators: "true iff these bits are advertised" ---- *)

Lemma all_bits_spec v l e :
  beval (all_bits v l) e = true <-> Forall (fun n => N.testbit (lookup e v) n = true) l.
Proof.
  induction l as [| n r IH]; cbn [all_bits beval].
  - split; auto.
  - rewrite andb_true_iff, IH. split.
    + intros [A B]. now constructor.
    + intros H. inversion H; subst. now split.
Qed.

Lemma any_bits_spec v l e :
  beval (any_bits v l) e = true <-> Exists (fun n => N.testbit (lookup e v) n = true) l.
Proof.
  induction l as [| n r IH]; cbn [any_bits beval].
  - split; [discriminate | intros H; inversion H].
  - rewrite orb_true_iff, IH. split.
    + intros [A | B]; [now left | now right].
    + intros H. inversion H; subst; auto.
Qed.

Lemma ball_spec l e : beval (ball l) e = true <-> Forall (fun b => beval b e = true) l.
Proof.
  induction l as [| b r IH]; cbn [ball beval].
  - split; auto.
  - rewrite andb_true_iff, IH. split.
    + intros [A B]. now constructor.
    + intros H. inversion H; subst. now split.
Qed.

(** the support of a combinator is exactly the listed bits *)
Lemma all_bits_supp v l i :
  N.testbit (lookup (bsupp (all_bits v l)) v) i = existsb (N.eqb i) l.
Proof.
  induction l as [| n r IH]; cbn [all_bits bsupp existsb].
  - destruct v; apply N.bits_0.
  - assert (E : lookup (sunion (single v (2 ^ n)) (bsupp (all_bits v r))) v
               = N.lor (2 ^ n) (lookup (bsupp (all_bits v r)) v)) by (destruct v; reflexivity).
    rewrite E, N.lor_spec, IH. f_equal.
    destruct (N.eqb_spec i n) as [-> | Hne].
    + apply N.pow2_bits_true.
    + apply N.pow2_bits_false. congruence.
Qed.

(** ---- guard programs ---- *)

Lemma grun_local p : forall M e, ssub (gsupp p) M -> grun p (restrict e M) = grun p e.
Proof.
  induction p; intros M e H; cbn [grun gsupp] in *.
  - reflexivity.
  - now rewrite IHp.
  - apply ssub_union_inv in H as [H1 H2]. apply ssub_union_inv in H2 as [H2 H3].
    rewrite beval_local by assumption. now rewrite IHp1, IHp2.
  - apply ssub_union_inv in H as [H1 H2]. now rewrite IHp1, IHp2.
Qed.

(** [gpaths] enumerates exactly the outcomes of [grun] *)
Lemma gpaths_grun p e : map snd (gpaths p e) = grun p e.
Proof.
  induction p; cbn [gpaths grun].
  - reflexivity.
  - destruct transmits; [|assumption].
    rewrite map_app, !map_map. cbn [snd fst]. rewrite <- IHp, map_map, map_id. reflexivity.
  - destruct (beval c e); assumption.
  - rewrite map_app, !map_map. cbn [snd]. now rewrite <- IHp1, <- IHp2.
Qed.

Lemma forallb_pointwise {A} (f g : A -> bool) l :
  (forall x, f x = g x) -> forallb f l = forallb g l.
Proof. intros H. induction l; cbn; [reflexivity|]. now rewrite H, IHl. Qed.

Lemma ctor_ok_local req p e :
  ctor_ok req p (restrict e (ctor_supp req p)) = ctor_ok req p e.
Proof.
  unfold ctor_ok, ctor_supp.
  rewrite grun_local by (eapply ssub_trans; [|apply ssub_union_r]; apply ssub_union_r).
  apply forallb_pointwise. intros o. unfold ctor_outcome_ok.
  rewrite (beval_local has_domain) by apply ssub_union_l.
  rewrite (beval_local req) by (eapply ssub_trans; [|apply ssub_union_r]; apply ssub_union_l).
  reflexivity.
Qed.

Lemma op_ok_local req p e :
  op_ok req p (restrict e (op_supp req p)) = op_ok req p e.
Proof.
  unfold op_ok, op_supp.
  rewrite grun_local by apply ssub_union_r.
  apply forallb_pointwise. intros o. unfold op_outcome_ok.
  rewrite (beval_local req) by apply ssub_union_l.
  reflexivity.
Qed.

Lemma exn_eqb_true a b : exn_eqb a b = true -> a = b.
Proof. destruct a, b; cbn; congruence. Qed.

Lemma result_eqb_true a b : result_eqb a b = true -> a = b.
Proof.
  destruct a, b; cbn; try congruence. intros H. f_equal. now apply exn_eqb_true.
Qed.

Lemma is_nil_true {A} (l : list A) : is_nil l = true -> l = [].
Proof. destruct l; cbn; congruence. Qed.

(** guard soundness, constructors: if the static check passes then on EVERY interface
    (all command / capability words) and on every path through the constructor:
    no domain -> UnsupportedDomain, nothing transmitted; domain but requirement
    false -> UnsupportedCapability, nothing transmitted. *)
Lemma guard_sound_ctor req p :
  checks_before_sends_ctor req p = true ->
  forall e r sends, In (r, sends) (grun p e) ->
    (beval has_domain e = false -> r = RRaise EUnsupportedDomain /\ sends = []) /\
    (beval has_domain e = true -> beval req e = false ->
       r = RRaise EUnsupportedCapability /\ sends = []).
Proof.
  intros H e r sends Hin.
  pose proof (forall_envs_sound _ _ (ctor_ok_local req p) H e) as Hok.
  unfold ctor_ok in Hok. rewrite forallb_forall in Hok. specialize (Hok _ Hin).
  unfold ctor_outcome_ok in Hok. cbn [fst snd] in Hok.
  split.
  - intros Hd. rewrite Hd in Hok. cbn in Hok. apply andb_true_iff in Hok as [A B].
    split; [now apply result_eqb_true | now apply is_nil_true].
  - intros Hd Hr. rewrite Hd, Hr in Hok. cbn in Hok. apply andb_true_iff in Hok as [A B].
    split; [now apply result_eqb_true | now apply is_nil_true].
Qed.

(** guard soundness, operations *)
Lemma guard_sound_op req p :
  checks_before_sends_op req p = true ->
  forall e r sends, In (r, sends) (grun p e) -> beval req e = false ->
    (r = RRaise EUnsupportedCapability \/ r = RFalse) /\ sends = [].
Proof.
  intros H e r sends Hin Hr.
  pose proof (forall_envs_sound _ _ (op_ok_local req p) H e) as Hok.
  unfold op_ok in Hok. rewrite forallb_forall in Hok. specialize (Hok _ Hin).
  unfold op_outcome_ok in Hok. cbn [fst snd] in Hok. rewrite Hr in Hok. cbn in Hok.
  apply andb_true_iff in Hok as [A B]. split; [|now apply is_nil_true].
  apply orb_true_iff in A as [A | A]; [left | right]; now apply result_eqb_true.
Qed.

Lemma gpaths_local p : forall M e, ssub (gsupp p) M -> gpaths p (restrict e M) = gpaths p e.
Proof.
  induction p; intros M e H; cbn [gpaths gsupp] in *.
  - reflexivity.
  - now rewrite IHp.
  - apply ssub_union_inv in H as [H1 H2]. apply ssub_union_inv in H2 as [H2 H3].
    rewrite beval_local by assumption. now rewrite IHp1, IHp2.
  - apply ssub_union_inv in H as [H1 H2]. now rewrite IHp1, IHp2.
Qed.

Lemma op_ok_arg_local asm req p e :
  op_ok_arg asm req p (restrict e (op_supp req p)) = op_ok_arg asm req p e.
Proof.
  unfold op_ok_arg, op_supp.
  rewrite gpaths_local by apply ssub_union_r.
  apply forallb_pointwise. intros x. unfold op_outcome_ok.
  rewrite (beval_local req) by apply ssub_union_l.
  reflexivity.
Qed.

(** guard soundness for an argument-dependent guard: on every interface, every path that is
    consistent with the assumption on the arguments and on which the requirement is false ends
    with UnsupportedCapability / a failure report and transmits nothing *)
Lemma guard_sound_op_arg asm req p :
  checks_before_sends_op_arg asm req p = true ->
  forall e path r sends, In (path, (r, sends)) (gpaths p e) ->
    path_consistent asm path = true -> beval req e = false ->
    (r = RRaise EUnsupportedCapability \/ r = RFalse) /\ sends = [].
Proof.
  intros H e path r sends Hin Hc Hr.
  pose proof (forall_envs_sound _ _ (op_ok_arg_local asm req p) H e) as Hok.
  unfold op_ok_arg in Hok. rewrite forallb_forall in Hok. specialize (Hok _ Hin).
  cbn [fst snd] in Hok. rewrite Hc in Hok. cbn in Hok.
  unfold op_outcome_ok in Hok. cbn [fst snd] in Hok. rewrite Hr in Hok. cbn in Hok.
  apply andb_true_iff in Hok as [A B]. split; [|now apply is_nil_true].
  apply orb_true_iff in A as [A | A]; [left | right]; now apply result_eqb_true.
Qed.

(** guard soundness over SEQUENCES of operations on one connector: whatever operations were called
    before and after, on every interface, an operation whose requirement is false ends with
    UnsupportedCapability or a failure report and transmits nothing *)
Lemma guard_sound_seq (l : list (bexpr * gprog)) :
  (forall rp, In rp l -> checks_before_sends_op (fst rp) (snd rp) = true) ->
  forall e k req p outs,
    nth_error l k = Some (req, p) ->
    nth_error (run_seq (map snd l) e) k = Some outs ->
    outs = grun p e /\
    forall r sends, In (r, sends) outs -> beval req e = false ->
      (r = RRaise EUnsupportedCapability \/ r = RFalse) /\ sends = [].
Proof.
  intros Hall e k req p outs Hk Ho.
  unfold run_seq in Ho. rewrite map_map in Ho.
  rewrite (map_nth_error (fun x => grun (snd x) e) k l Hk) in Ho. cbn in Ho. inversion Ho; subst outs.
  split; [reflexivity|]. intros r sends Hin Hreq.
  apply nth_error_In in Hk. specialize (Hall _ Hk). cbn in Hall.
  eapply guard_sound_op; eauto.
Qed.

(** a found witness really violates the requirement *)
Lemma ctor_witness_sound req p e :
  ctor_witness req p = Some e -> ctor_ok req p e = false.
Proof. intros H. apply find_env_some in H. now apply negb_true_iff in H. Qed.

Lemma op_witness_sound req p e :
  op_witness req p = Some e -> op_ok req p e = false.
Proof. intros H. apply find_env_some in H. now apply negb_true_iff in H. Qed.

(** ---- DeviceInfo ---- *)

Lemma cap_mask_bits i : N.testbit CAP_MASK i = N.ltb i 24.
Proof.
  change CAP_MASK with (N.ones 24).
  destruct (N.ltb_spec i 24).
  - now apply N.ones_spec_low.
  - now apply N.ones_spec_high.
Qed.

Lemma domain_mask_bits i : N.testbit DOMAIN_MASK i = N.leb 24 i && N.ltb i 32.
Proof.
  change DOMAIN_MASK with (N.shiftl (N.ones 8) 24).
  destruct (N.leb_spec 24 i).
  - rewrite N.shiftl_spec_high' by assumption. cbn [andb].
    destruct (N.ltb_spec i 32).
    + apply N.ones_spec_low. lia.
    + apply N.ones_spec_high. lia.
  - now apply N.shiftl_spec_low.
Qed.

(** the two halves of an advertised word are disjoint, rebuild the low 32 bits, and
    are exactly bits 24..31 resp. 0..23 *)
Lemma deviceinfo_split w :
  N.land (word_domain w) (word_caps w) = 0 /\
  N.lor (word_domain w) (word_caps w) = N.land w 0xFFFFFFFF /\
  (forall i, N.testbit (word_caps w) i = N.testbit w i && N.ltb i 24) /\
  (forall i, N.testbit (word_domain w) i = N.testbit w i && (N.leb 24 i && N.ltb i 32)).
Proof.
  unfold word_domain, word_caps.
  assert (B32 : forall i, N.testbit 0xFFFFFFFF i = N.ltb i 32).
  { intro i. change 0xFFFFFFFF with (N.ones 32). destruct (N.ltb_spec i 32).
    - now apply N.ones_spec_low. - now apply N.ones_spec_high. }
  repeat split.
  - apply N.bits_inj; intro i. rewrite !N.land_spec, N.bits_0, cap_mask_bits, domain_mask_bits.
    destruct (N.testbit w i), (N.leb_spec 24 i), (N.ltb_spec i 32), (N.ltb_spec i 24); cbn; try reflexivity; lia.
  - apply N.bits_inj; intro i. rewrite N.lor_spec, !N.land_spec, B32, cap_mask_bits, domain_mask_bits.
    destruct (N.testbit w i), (N.leb_spec 24 i), (N.ltb_spec i 32), (N.ltb_spec i 24); cbn; try reflexivity; lia.
  - intro i. now rewrite N.land_spec, cap_mask_bits.
  - intro i. now rewrite N.land_spec, domain_mask_bits.
Qed.

Lemma di_find_remove_same d t : di_find d (di_remove d t) = None.
Proof.
  induction t as [| [k x] r IH]; cbn; [reflexivity|].
  destruct (N.eqb_spec k d); [assumption|]. cbn. destruct (N.eqb_spec k d); [contradiction|assumption].
Qed.

Lemma di_find_remove_other d d' t : d <> d' -> di_find d (di_remove d' t) = di_find d t.
Proof.
  intros Hne. induction t as [| [k x] r IH]; cbn; [reflexivity|].
  destruct (N.eqb_spec k d'), (N.eqb_spec k d); subst; cbn; try congruence.
  - destruct (N.eqb_spec d d); congruence.
  - destruct (N.eqb_spec k d); congruence.
Qed.

(** after [DeviceInfo.__init__]: the LAST advertised word of a domain wins, commands
    start at 0 *)
Lemma di_init_find ws : forall d,
  di_find d (di_init ws)
  = option_map (fun w => (word_caps w, 0)) (find (fun w => N.eqb (word_domain w) d) (rev ws)).
Proof.
  unfold di_init. induction ws as [| w r IH] using rev_ind; intros d; [reflexivity|].
  rewrite fold_left_app, rev_app_distr. cbn [fold_left rev app find di_find].
  destruct (N.eqb_spec (word_domain w) d) as [E | Hne]; [reflexivity|].
  rewrite di_find_remove_other by congruence. apply IH.
Qed.

Lemma existsb_rev' {A} (f : A -> bool) l : existsb f (rev l) = existsb f l.
Proof.
  apply eq_iff_eq_true. rewrite !existsb_exists. split; intros (x & Hin & Hx); exists x; split; auto.
  - now apply in_rev.
  - now apply in_rev in Hin.
Qed.

Lemma di_init_has_domain ws d :
  di_has_domain (di_init ws) d = existsb (fun w => N.eqb (word_domain w) d) ws.
Proof.
  unfold di_has_domain. rewrite di_init_find, <- existsb_rev'.
  induction (rev ws) as [| w r IH]; cbn; [reflexivity|].
  destruct (N.eqb (word_domain w) d); cbn; [reflexivity | exact IH].
Qed.

(** has_domain_cap: true iff the domain is advertised and at least one bit of the
    capability MASK is set in its flags *)
Lemma di_has_domain_cap_spec t d cap :
  di_has_domain_cap t d cap = true <->
  exists c, di_caps t d = Some c /\ exists i, N.testbit cap i = true /\ N.testbit c i = true.
Proof.
  unfold di_has_domain_cap, di_caps. destruct (di_find d t) as [[c m] |]; cbn.
  - rewrite N.ltb_lt. split.
    + intros H. exists c. split; [reflexivity|].
      destruct (N.eq_dec (N.land c cap) 0) as [E | Hne]; [lia|].
      destruct (N.land c cap) eqn:EL; [congruence|].
      assert (Hb : exists i, N.testbit (N.land c cap) i = true).
      { rewrite EL. exists (N.log2 (Npos p)). apply N.bit_log2. discriminate. }
      destruct Hb as [i Hi]. rewrite N.land_spec in Hi. apply andb_true_iff in Hi as [A B]. eauto.
    + intros (c' & E & i & A & B). inversion E; subst c'.
      destruct (N.eq_dec (N.land c cap) 0) as [E0 | Hne]; [|lia].
      exfalso. assert (Hb : N.testbit (N.land c cap) i = true) by (rewrite N.land_spec, A, B; reflexivity).
      rewrite E0, N.bits_0 in Hb. discriminate.
  - split; [discriminate|]. intros (c & E & _). discriminate.
Qed.

(** ---- Spec readings / records ---- *)

Lemma spec_can_inject_reading e :
  beval spec_ble_can_inject e
  = ((N.testbit (e_cmds e) 15 || (N.testbit (e_cmds e) 14 || false)) && N.testbit (e_caps e) 2).
Proof. reflexivity. Qed.

Lemma legacy_can_inject_refuted :
  exists env, beval legacy_ble_can_inject env <> beval spec_ble_can_inject env.
Proof.
  destruct (bdiff legacy_ble_can_inject spec_ble_can_inject) as [w |] eqn:E.
  - exists w. now apply bdiff_sound.
  - vm_compute in E. discriminate.
Qed.

Lemma nonvacuous :
  checks_before_sends_ctor spec_ble_can_be_central sample_ctor = true
  /\ completes_with_send sample_ctor (mkEnv (2 ^ 12 + 2 ^ 18 + 2 ^ 19) 0 1) = true
  /\ beval spec_ble_can_be_central (mkEnv 0 0 1) = false
  /\ bequiv legacy_ble_can_inject spec_ble_can_inject = false.
Proof. repeat split; vm_compute; reflexivity. Qed.
