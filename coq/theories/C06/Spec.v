(** C06 — HAND-WRITTEN specification: what each capability predicate stands for, which
    predicates each role connector needs, which predicate guards each operation.

    Written from the WHAD protocol (discovery: a domain advertises a word of capability
    FLAGS — class Capability, values are masks 0x01..0x80 — and a bitmask of supported
    COMMANDS — bit [n] set iff command number [n] of the domain's enum is supported) and
    the documentation of the connectors.  Only bit tests ([BTest]) and and/or/not are used
    here, so the reading of a spec is immediate: e.g. [spec_ble_can_inject] is true iff
    (bit SendPDU or bit SendRawPDU of the command word) and bit 2 (mask 0x04 = Inject) of
    the capability word are set.  The bit numbers below are compared on every run with the
    enums imported from the code ([spec_enums], see the generated C06Gen.v). *)
From Coq Require Import List NArith Bool String.
From Whad Require Import C06.Model.
Import ListNotations.
Open Scope N_scope.
Open Scope string_scope.

(** ---- capability flags (whad.hub.discovery.Capability): bit index of each MASK ---- *)
Definition cap_Scan := 0.        (* 0x01 *)
Definition cap_Sniff := 1.       (* 0x02 *)
Definition cap_Inject := 2.      (* 0x04 *)
Definition cap_Jam := 3.         (* 0x08 *)
Definition cap_Hijack := 4.      (* 0x10 *)
Definition cap_Hook := 5.        (* 0x20 *)
Definition cap_SimulateRole := 6. (* 0x40 *)
Definition cap_NoRawData := 7.   (* 0x80 *)

(** ---- command numbers ---- *)
Module Ble.
  Definition SetBdAddress := 0.  Definition SniffAdv := 1.  Definition JamAdvOnChannel := 3.
  Definition ReactiveJam := 4.  Definition SniffConnReq := 5.  Definition SniffAccessAddress := 6.
  Definition SniffActiveConn := 7.  Definition ScanMode := 9.  Definition CentralMode := 12.
  Definition ConnectTo := 13.  Definition SendRawPDU := 14.  Definition SendPDU := 15.
  Definition PeripheralMode := 17.  Definition Start := 18.  Definition Stop := 19.
  Definition HijackMaster := 21.  Definition HijackSlave := 22.  Definition HijackBoth := 23.
  Definition PrepareSequence := 24.  Definition TriggerSequence := 25.  Definition DeleteSequence := 26.
End Ble.

Module D154.
  Definition SetNodeAddress := 0.  Definition Sniff := 1.  Definition EnergyDetection := 3.
  Definition Send := 4.  Definition SendRaw := 5.  Definition EndDeviceMode := 6.
  Definition CoordinatorMode := 7.  Definition Start := 9.  Definition Stop := 10.
End D154.

Module Esb.
  Definition SetNodeAddress := 0.  Definition Sniff := 1.  Definition Send := 3.  Definition SendRaw := 4.
  Definition PrimaryReceiverMode := 5.  Definition PrimaryTransmitterMode := 6.
  Definition Start := 7.  Definition Stop := 8.
End Esb.

Module Uni.
  Definition SetNodeAddress := 0.  Definition Sniff := 1.  Definition Send := 3.  Definition SendRaw := 4.
  Definition LogitechDongleMode := 5.  Definition LogitechKeyboardMode := 6.  Definition LogitechMouseMode := 7.
  Definition Start := 8.  Definition Stop := 9.  Definition SniffPairing := 10.
End Uni.

Module Phy.
  Definition SetASKModulation := 0.  Definition SetFSKModulation := 1.  Definition SetGFSKModulation := 2.
  Definition SetBPSKModulation := 3.  Definition SetQPSKModulation := 4.  Definition Set4FSKModulation := 5.
  Definition GetSupportedFrequencies := 7.  Definition SetFrequency := 8.  Definition SetDataRate := 9.
  Definition SetEndianness := 10.  Definition SetTXPower := 11.  Definition SetPacketSize := 12.
  Definition SetSyncWord := 13.  Definition Sniff := 14.  Definition Send := 15.  Definition SendRaw := 16.
  Definition Start := 19.  Definition Stop := 20.  Definition SetLoRaModulation := 21.  Definition ScheduleSend := 22.
End Phy.

(** the numbering used above, compared with the live enums on every run *)
Definition spec_enums : list (string * list (string * N)) :=
  [ ("Capability", [("Scan", 2 ^ cap_Scan); ("Sniff", 2 ^ cap_Sniff); ("Inject", 2 ^ cap_Inject);
                    ("Jam", 2 ^ cap_Jam); ("Hijack", 2 ^ cap_Hijack); ("Hook", 2 ^ cap_Hook);
                    ("SimulateRole", 2 ^ cap_SimulateRole); ("NoRawData", 2 ^ cap_NoRawData)]);
    ("ble", [("SetBdAddress", Ble.SetBdAddress); ("SniffAdv", Ble.SniffAdv); ("JamAdvOnChannel", Ble.JamAdvOnChannel);
             ("ReactiveJam", Ble.ReactiveJam); ("SniffConnReq", Ble.SniffConnReq);
             ("SniffAccessAddress", Ble.SniffAccessAddress); ("SniffActiveConn", Ble.SniffActiveConn);
             ("ScanMode", Ble.ScanMode); ("CentralMode", Ble.CentralMode); ("ConnectTo", Ble.ConnectTo);
             ("SendRawPDU", Ble.SendRawPDU); ("SendPDU", Ble.SendPDU); ("PeripheralMode", Ble.PeripheralMode);
             ("Start", Ble.Start); ("Stop", Ble.Stop); ("HijackMaster", Ble.HijackMaster);
             ("HijackSlave", Ble.HijackSlave); ("HijackBoth", Ble.HijackBoth);
             ("PrepareSequence", Ble.PrepareSequence); ("TriggerSequence", Ble.TriggerSequence);
             ("DeleteSequence", Ble.DeleteSequence)]);
    ("dot15d4", [("SetNodeAddress", D154.SetNodeAddress); ("Sniff", D154.Sniff); ("EnergyDetection", D154.EnergyDetection);
                 ("Send", D154.Send); ("SendRaw", D154.SendRaw); ("EndDeviceMode", D154.EndDeviceMode);
                 ("CoordinatorMode", D154.CoordinatorMode); ("Start", D154.Start); ("Stop", D154.Stop)]);
    ("esb", [("SetNodeAddress", Esb.SetNodeAddress); ("Sniff", Esb.Sniff); ("Send", Esb.Send); ("SendRaw", Esb.SendRaw);
             ("PrimaryReceiverMode", Esb.PrimaryReceiverMode); ("PrimaryTransmitterMode", Esb.PrimaryTransmitterMode);
             ("Start", Esb.Start); ("Stop", Esb.Stop)]);
    ("unifying", [("SetNodeAddress", Uni.SetNodeAddress); ("Sniff", Uni.Sniff); ("Send", Uni.Send); ("SendRaw", Uni.SendRaw);
                  ("LogitechDongleMode", Uni.LogitechDongleMode); ("LogitechKeyboardMode", Uni.LogitechKeyboardMode);
                  ("LogitechMouseMode", Uni.LogitechMouseMode); ("Start", Uni.Start); ("Stop", Uni.Stop);
                  ("SniffPairing", Uni.SniffPairing)]);
    ("phy", [("SetASKModulation", Phy.SetASKModulation); ("SetFSKModulation", Phy.SetFSKModulation);
             ("SetGFSKModulation", Phy.SetGFSKModulation); ("SetBPSKModulation", Phy.SetBPSKModulation);
             ("SetQPSKModulation", Phy.SetQPSKModulation); ("Set4FSKModulation", Phy.Set4FSKModulation);
             ("GetSupportedFrequencies", Phy.GetSupportedFrequencies); ("SetFrequency", Phy.SetFrequency);
             ("SetDataRate", Phy.SetDataRate); ("SetEndianness", Phy.SetEndianness); ("SetTXPower", Phy.SetTXPower);
             ("SetPacketSize", Phy.SetPacketSize); ("SetSyncWord", Phy.SetSyncWord); ("Sniff", Phy.Sniff);
             ("Send", Phy.Send); ("SendRaw", Phy.SendRaw); ("Start", Phy.Start); ("Stop", Phy.Stop);
             ("SetLoRaModulation", Phy.SetLoRaModulation); ("ScheduleSend", Phy.ScheduleSend)]) ].

(** ---- spec vocabulary ---- *)
Definition cmds_all (l : list N) : bexpr := all_bits VCmds l.      (* every listed command supported *)
Definition cmds_any (l : list N) : bexpr := any_bits VCmds l.      (* at least one of them *)
Definition cap_flag (bit : N) : bexpr := BTest VCaps bit.          (* capability flag advertised *)
Definition raw_data : bexpr := BNot (cap_flag cap_NoRawData).      (* interface handles raw PDUs *)

(** ---- BLE ---- *)
Definition spec_ble_support_raw_pdu := raw_data.
Definition spec_ble_can_send := cmds_any [Ble.SendPDU; Ble.SendRawPDU].
Definition spec_ble_can_scan := cmds_all [Ble.ScanMode; Ble.Start; Ble.Stop].
Definition spec_ble_can_connect := cmds_all [Ble.ConnectTo].
Definition spec_ble_can_jam_advertisement_on_channel := cmds_all [Ble.JamAdvOnChannel].
Definition spec_ble_can_be_central := cmds_all [Ble.CentralMode; Ble.Start; Ble.Stop].
Definition spec_ble_can_be_peripheral := cmds_all [Ble.PeripheralMode; Ble.Start; Ble.Stop].
Definition spec_ble_can_discover_access_addresses := cmds_all [Ble.SniffAccessAddress; Ble.Start; Ble.Stop].
Definition spec_ble_can_sniff_active_connection := cmds_all [Ble.SniffActiveConn; Ble.Start; Ble.Stop].
Definition spec_ble_can_sniff_advertisements := cmds_all [Ble.SniffAdv; Ble.Start; Ble.Stop].
Definition spec_ble_can_sniff_new_connection := cmds_all [Ble.SniffConnReq; Ble.Start; Ble.Stop].
Definition spec_ble_can_inject := BAnd (cmds_any [Ble.SendPDU; Ble.SendRawPDU]) (cap_flag cap_Inject).
Definition spec_ble_can_hijack_master := cmds_all [Ble.HijackMaster].
Definition spec_ble_can_hijack_slave := cmds_all [Ble.HijackSlave].
Definition spec_ble_can_hijack_both := cmds_all [Ble.HijackBoth].
Definition spec_ble_can_reactive_jam := cmds_all [Ble.ReactiveJam].
Definition spec_ble_can_prepare := cmds_all [Ble.PrepareSequence].
Definition spec_ble_can_trigger := cmds_all [Ble.TriggerSequence].
Definition spec_ble_can_delete_sequence := cmds_all [Ble.DeleteSequence].
Definition spec_ble_set_bd_address := cmds_all [Ble.SetBdAddress].

(** ---- 802.15.4 (also Zigbee, RF4CE) ---- *)
Definition spec_dot15d4_can_sniff := cmds_all [D154.Sniff; D154.Start; D154.Stop].
Definition spec_dot15d4_can_set_node_address := cmds_all [D154.SetNodeAddress].
Definition spec_dot15d4_can_be_end_device := cmds_all [D154.EndDeviceMode; D154.Start; D154.Stop].
Definition spec_dot15d4_can_send := cmds_any [D154.Send; D154.SendRaw].
Definition spec_dot15d4_can_perform_ed_scan := cmds_all [D154.EnergyDetection; D154.Start; D154.Stop].
Definition spec_dot15d4_support_raw_pdu := raw_data.
Definition spec_dot15d4_can_be_coordinator := cmds_all [D154.CoordinatorMode; D154.Start; D154.Stop].

(** ---- Enhanced ShockBurst ---- *)
Definition spec_esb_can_sniff := cmds_all [Esb.Sniff; Esb.Start; Esb.Stop].
Definition spec_esb_can_send := cmds_any [Esb.Send; Esb.SendRaw].
Definition spec_esb_support_raw_pdu := raw_data.
Definition spec_esb_can_set_node_address := cmds_all [Esb.SetNodeAddress].
Definition spec_esb_can_be_prx := cmds_all [Esb.PrimaryReceiverMode; Esb.Start; Esb.Stop].
Definition spec_esb_can_be_ptx := cmds_all [Esb.PrimaryTransmitterMode; Esb.Start; Esb.Stop].

(** ---- Logitech Unifying ---- *)
Definition spec_unifying_can_sniff := cmds_all [Uni.Sniff; Uni.Start; Uni.Stop].
Definition spec_unifying_can_send := cmds_any [Uni.Send; Uni.SendRaw].
Definition spec_unifying_support_raw_pdu := raw_data.
Definition spec_unifying_can_set_node_address := cmds_all [Uni.SetNodeAddress].
Definition spec_unifying_can_be_dongle := cmds_all [Uni.LogitechDongleMode; Uni.Start; Uni.Stop].
Definition spec_unifying_can_be_keyboard := cmds_all [Uni.LogitechKeyboardMode; Uni.Start; Uni.Stop].
Definition spec_unifying_can_be_mouse := cmds_all [Uni.LogitechMouseMode; Uni.Start; Uni.Stop].
Definition spec_unifying_can_sniff_pairing := cmds_all [Uni.SniffPairing].

(** ---- PHY ---- *)
Definition spec_phy_can_use_ask := cmds_all [Phy.SetASKModulation].
Definition spec_phy_can_use_fsk := cmds_all [Phy.SetFSKModulation].
Definition spec_phy_can_get_supported_frequencies := cmds_all [Phy.GetSupportedFrequencies].
Definition spec_phy_can_set_frequency := cmds_all [Phy.SetFrequency].
Definition spec_phy_can_use_gfsk := cmds_all [Phy.SetGFSKModulation].
Definition spec_phy_can_use_4fsk := cmds_all [Phy.Set4FSKModulation].
Definition spec_phy_can_use_bpsk := cmds_all [Phy.SetBPSKModulation].
Definition spec_phy_can_use_qpsk := cmds_all [Phy.SetQPSKModulation].
Definition spec_phy_can_use_lora := cmds_all [Phy.SetLoRaModulation].
Definition spec_phy_can_schedule_packets := cmds_all [Phy.ScheduleSend].
Definition spec_phy_can_set_datarate := cmds_all [Phy.SetDataRate].
Definition spec_phy_can_set_endianness := cmds_all [Phy.SetEndianness].
Definition spec_phy_can_send := cmds_any [Phy.Send; Phy.SendRaw].
Definition spec_phy_can_set_tx_power := cmds_all [Phy.SetTXPower].
Definition spec_phy_can_set_packet_size := cmds_all [Phy.SetPacketSize].
Definition spec_phy_can_set_sync_word := cmds_all [Phy.SetSyncWord].
Definition spec_phy_can_sniff := cmds_all [Phy.Sniff; Phy.Start; Phy.Stop].
Definition spec_phy_support_raw_iq_stream := raw_data.

(** predicate id (domain.method) -> intended meaning *)
Definition pred_specs : list (string * bexpr) :=
  [ ("ble.support_raw_pdu", spec_ble_support_raw_pdu); ("ble.can_send", spec_ble_can_send);
    ("ble.can_scan", spec_ble_can_scan); ("ble.can_connect", spec_ble_can_connect);
    ("ble.can_jam_advertisement_on_channel", spec_ble_can_jam_advertisement_on_channel);
    ("ble.can_be_central", spec_ble_can_be_central); ("ble.can_be_peripheral", spec_ble_can_be_peripheral);
    ("ble.can_discover_access_addresses", spec_ble_can_discover_access_addresses);
    ("ble.can_sniff_active_connection", spec_ble_can_sniff_active_connection);
    ("ble.can_sniff_advertisements", spec_ble_can_sniff_advertisements);
    ("ble.can_sniff_new_connection", spec_ble_can_sniff_new_connection);
    ("ble.can_inject", spec_ble_can_inject); ("ble.can_hijack_master", spec_ble_can_hijack_master);
    ("ble.can_hijack_slave", spec_ble_can_hijack_slave); ("ble.can_hijack_both", spec_ble_can_hijack_both);
    ("ble.can_reactive_jam", spec_ble_can_reactive_jam); ("ble.can_prepare", spec_ble_can_prepare);
    ("ble.can_trigger", spec_ble_can_trigger); ("ble.can_delete_sequence", spec_ble_can_delete_sequence);
    ("dot15d4.can_sniff", spec_dot15d4_can_sniff); ("dot15d4.can_set_node_address", spec_dot15d4_can_set_node_address);
    ("dot15d4.can_be_end_device", spec_dot15d4_can_be_end_device); ("dot15d4.can_send", spec_dot15d4_can_send);
    ("dot15d4.can_perform_ed_scan", spec_dot15d4_can_perform_ed_scan);
    ("dot15d4.support_raw_pdu", spec_dot15d4_support_raw_pdu);
    ("dot15d4.can_be_coordinator", spec_dot15d4_can_be_coordinator);
    ("esb.can_sniff", spec_esb_can_sniff); ("esb.can_send", spec_esb_can_send);
    ("esb.support_raw_pdu", spec_esb_support_raw_pdu); ("esb.can_set_node_address", spec_esb_can_set_node_address);
    ("esb.can_be_prx", spec_esb_can_be_prx); ("esb.can_be_ptx", spec_esb_can_be_ptx);
    ("unifying.can_sniff", spec_unifying_can_sniff); ("unifying.can_send", spec_unifying_can_send);
    ("unifying.support_raw_pdu", spec_unifying_support_raw_pdu);
    ("unifying.can_set_node_address", spec_unifying_can_set_node_address);
    ("unifying.can_be_dongle", spec_unifying_can_be_dongle); ("unifying.can_be_keyboard", spec_unifying_can_be_keyboard);
    ("unifying.can_be_mouse", spec_unifying_can_be_mouse); ("unifying.can_sniff_pairing", spec_unifying_can_sniff_pairing);
    ("phy.can_use_ask", spec_phy_can_use_ask); ("phy.can_use_fsk", spec_phy_can_use_fsk);
    ("phy.can_get_supported_frequencies", spec_phy_can_get_supported_frequencies);
    ("phy.can_set_frequency", spec_phy_can_set_frequency); ("phy.can_use_gfsk", spec_phy_can_use_gfsk);
    ("phy.can_use_4fsk", spec_phy_can_use_4fsk); ("phy.can_use_bpsk", spec_phy_can_use_bpsk);
    ("phy.can_use_qpsk", spec_phy_can_use_qpsk); ("phy.can_use_lora", spec_phy_can_use_lora);
    ("phy.can_schedule_packets", spec_phy_can_schedule_packets); ("phy.can_set_datarate", spec_phy_can_set_datarate);
    ("phy.can_set_endianness", spec_phy_can_set_endianness); ("phy.can_send", spec_phy_can_send);
    ("phy.can_set_tx_power", spec_phy_can_set_tx_power); ("phy.can_set_packet_size", spec_phy_can_set_packet_size);
    ("phy.can_set_sync_word", spec_phy_can_set_sync_word); ("phy.can_sniff", spec_phy_can_sniff);
    ("phy.support_raw_iq_stream", spec_phy_support_raw_iq_stream) ].

(** ---- role connector -> what its constructor requires (besides the domain) ---- *)
Definition role_specs : list (string * bexpr) :=
  [ ("ble.BLE", BConst true);
    ("ble.Central", spec_ble_can_be_central);
    ("ble.Peripheral", spec_ble_can_be_peripheral);
    ("ble.Scanner", BOr spec_ble_can_scan spec_ble_can_sniff_advertisements);
    ("ble.Sniffer", BOr spec_ble_can_sniff_advertisements spec_ble_can_sniff_new_connection);
    ("ble.Injector", spec_ble_can_inject);
    ("ble.Hijacker", BOr spec_ble_can_hijack_slave spec_ble_can_hijack_master);
    ("dot15d4.Dot15d4", BConst true);
    ("dot15d4.Coordinator", spec_dot15d4_can_be_coordinator);
    ("dot15d4.EndDevice", spec_dot15d4_can_be_end_device);
    ("dot15d4.Injector", spec_dot15d4_can_send);
    ("dot15d4.Sniffer", spec_dot15d4_can_sniff);
    ("zigbee.Zigbee", BConst true);
    (* the Zigbee stack configures the node's extended address while it is initialised *)
    ("zigbee.Coordinator", BAnd spec_dot15d4_can_be_coordinator spec_dot15d4_can_set_node_address);
    ("zigbee.EndDevice", BAnd spec_dot15d4_can_be_end_device spec_dot15d4_can_set_node_address);
    ("zigbee.Injector", spec_dot15d4_can_send);
    ("zigbee.Sniffer", spec_dot15d4_can_sniff);
    ("rf4ce.RF4CE", BConst true);
    ("rf4ce.Controller", spec_dot15d4_can_be_end_device);
    ("rf4ce.Target", spec_dot15d4_can_be_coordinator);
    ("rf4ce.Injector", spec_dot15d4_can_send);
    ("rf4ce.Sniffer", spec_dot15d4_can_sniff);
    ("esb.ESB", BConst true);
    ("esb.PRX", BAnd spec_esb_can_set_node_address spec_esb_can_be_prx);
    ("esb.PTX", BAnd spec_esb_can_set_node_address spec_esb_can_be_ptx);
    ("esb.Scanner", spec_esb_can_sniff);
    ("esb.Sniffer", spec_esb_can_sniff);
    ("esb.Injector", BAnd spec_esb_can_set_node_address spec_esb_can_be_ptx);
    ("unifying.Unifying", BConst true);
    ("unifying.Dongle", BAnd spec_unifying_can_set_node_address spec_unifying_can_be_dongle);
    ("unifying.Keyboard", BAnd spec_unifying_can_set_node_address spec_unifying_can_be_keyboard);
    ("unifying.Mouse", BAnd spec_unifying_can_set_node_address spec_unifying_can_be_mouse);
    ("unifying.Sniffer", spec_unifying_can_sniff);
    ("unifying.Keylogger", spec_unifying_can_sniff);
    ("unifying.Mouselogger", spec_unifying_can_sniff);
    ("unifying.Injector", BAnd spec_unifying_can_set_node_address spec_unifying_can_be_mouse);
    ("phy.Phy", BConst true);
    ("phy.Injector", spec_phy_can_send);
    ("phy.Sniffer", spec_phy_can_sniff);
    ("phy.LoRa", spec_phy_can_use_lora) ].

(** ---- guarded operation -> the predicate that must hold for it to transmit ---- *)
Definition op_specs : list (string * bexpr) :=
  [ ("ble.BLE.trigger", spec_ble_can_trigger);
    ("ble.BLE.delete_sequence", spec_ble_can_delete_sequence);
    ("ble.BLE.prepare", spec_ble_can_prepare);
    ("ble.BLE.reactive_jam", spec_ble_can_reactive_jam);
    ("ble.BLE.jam_advertisement_on_channel", spec_ble_can_jam_advertisement_on_channel);
    ("ble.BLE.hijack_master", spec_ble_can_hijack_master);
    ("ble.BLE.discover_access_addresses", spec_ble_can_discover_access_addresses);
    ("ble.BLE.sniff_active_connection", spec_ble_can_sniff_active_connection);
    ("ble.BLE.hijack_slave", spec_ble_can_hijack_slave);
    ("ble.BLE.hijack_both", spec_ble_can_hijack_both);
    ("ble.BLE.sniff_advertisements", spec_ble_can_sniff_advertisements);
    ("ble.BLE.sniff_new_connection", spec_ble_can_sniff_new_connection);
    ("ble.BLE.set_bd_address", spec_ble_set_bd_address);
    ("ble.BLE.send_pdu", spec_ble_can_send);
    ("ble.BLE.send_data_pdu", spec_ble_can_send);
    ("ble.BLE.send_ctrl_pdu", spec_ble_can_send);
    ("dot15d4.Dot15d4.sniff_dot15d4", spec_dot15d4_can_sniff);
    ("dot15d4.Dot15d4.set_node_address", spec_dot15d4_can_set_node_address);
    ("dot15d4.Dot15d4.set_end_device_mode", spec_dot15d4_can_be_end_device);
    ("dot15d4.Dot15d4.set_coordinator_mode", spec_dot15d4_can_be_coordinator);
    ("dot15d4.Dot15d4.send", spec_dot15d4_can_send);
    ("dot15d4.Dot15d4.send_mac", spec_dot15d4_can_send);
    ("dot15d4.Dot15d4.perform_ed_scan", spec_dot15d4_can_perform_ed_scan);
    ("dot15d4.Coordinator.perform_ed_scan", spec_dot15d4_can_perform_ed_scan);
    ("dot15d4.EndDevice.perform_ed_scan", spec_dot15d4_can_perform_ed_scan);
    ("esb.ESB.send", spec_esb_can_send);
    ("esb.ESB.start_sniff", spec_esb_can_sniff);
    ("esb.ESB.enable_prx_mode", spec_esb_can_be_prx);
    ("esb.ESB.enable_ptx_mode", spec_esb_can_be_ptx);
    ("esb.ESB.set_node_address", spec_esb_can_set_node_address);
    ("unifying.Unifying.send", spec_unifying_can_send);
    ("unifying.Unifying.start_sniff", spec_unifying_can_sniff);
    ("unifying.Unifying.enable_dongle_mode", spec_unifying_can_be_dongle);
    ("unifying.Unifying.enable_keyboard_mode", spec_unifying_can_be_keyboard);
    ("unifying.Unifying.enable_mouse_mode", spec_unifying_can_be_mouse);
    ("unifying.Unifying.set_node_address", spec_unifying_can_set_node_address);
    ("unifying.Unifying.sniff_pairing", spec_unifying_can_sniff_pairing);
    ("phy.Phy.set_ask", spec_phy_can_use_ask);
    ("phy.Phy.set_bfsk", spec_phy_can_use_fsk);
    ("phy.Phy.set_4fsk", spec_phy_can_use_4fsk);
    ("phy.Phy.set_gfsk", spec_phy_can_use_gfsk);
    ("phy.Phy.set_bpsk", spec_phy_can_use_bpsk);
    ("phy.Phy.set_qpsk", spec_phy_can_use_qpsk);
    ("phy.Phy.set_lora", spec_phy_can_use_lora);
    ("phy.Phy.get_supported_frequencies", spec_phy_can_get_supported_frequencies);
    ("phy.Phy.set_frequency", spec_phy_can_set_frequency);
    ("phy.Phy.set_datarate", spec_phy_can_set_datarate);
    ("phy.Phy.set_endianness", spec_phy_can_set_endianness);
    ("phy.Phy.set_tx_power", spec_phy_can_set_tx_power);
    ("phy.Phy.set_packet_size", spec_phy_can_set_packet_size);
    ("phy.Phy.set_sync_word", spec_phy_can_set_sync_word);
    ("phy.Phy.send", spec_phy_can_send);
    ("phy.Phy.schedule_send", BAnd spec_phy_can_send spec_phy_can_schedule_packets);
    (* handlers of device-originated events: operations triggered by the device.  The clean-up on
       disconnection deletes the prepared sequences, which needs DeleteSequence; the other handlers
       never transmit ([BConst false]: no path may transmit, on any interface) *)
    ("ble.BLE.on_disconnected", spec_ble_can_delete_sequence);
    ("ble.BLE.on_connected", BConst false);
    ("ble.BLE.on_synchronized", BConst false);
    ("ble.BLE.on_desynchronized", BConst false);
    ("ble.BLE.on_triggered", BConst false);
    ("dot15d4.Dot15d4.on_jammed", BConst false);
    ("dot15d4.Dot15d4.on_ed_sample", BConst false);
    ("esb.ESB.on_jammed", BConst false) ].

(** ---- argument-dependent guards: operation -> (assumption on argument tests, requirement) ----
    A PDU with a control layer (BTLE_CTRL) must not be handed to an interface that cannot handle raw
    PDUs (NoRawData flag), except through an HCI adapter: every entry point of the base connector
    that reaches the transmission refuses it (UnsupportedCapability / failure) without transmitting. *)
Definition ctrl_pdu_on_non_hci : list (string * bool) :=
  [("BTLE_CTRL in", true); ("startswith('hci')", false)].

Definition op_arg_specs : list (string * (list (string * bool) * bexpr)) :=
  [ ("ble.BLE.send_pdu", (ctrl_pdu_on_non_hci, spec_ble_support_raw_pdu));
    ("ble.BLE.send_data_pdu", (ctrl_pdu_on_non_hci, spec_ble_support_raw_pdu));
    ("ble.BLE.send_ctrl_pdu", (ctrl_pdu_on_non_hci, spec_ble_support_raw_pdu)) ].

(** ---- table helpers used by the generated file and the harness ---- *)
Fixpoint assoc {A} (k : string) (l : list (string * A)) : option A :=
  match l with
  | [] => None
  | (k', v) :: r => if String.eqb k k' then Some v else assoc k r
  end.

Definition env_list (o : option env) : list N :=
  match o with Some e => [e_cmds e; e_caps e; e_aux e] | None => [] end.

(** decision for one generated predicate: [0] no spec for this id; [1] equivalent to its
    spec for all words; [2; cmds; caps; aux] differs, with a witness *)
Definition decide_pred (it : string * bexpr) : list N :=
  match assoc (fst it) pred_specs with
  | None => [0]
  | Some s => if bequiv (snd it) s then [1] else 2 :: env_list (bdiff (snd it) s)
  end.

Definition decide_ctor (it : string * gprog) : list N :=
  match assoc (fst it) role_specs with
  | None => [0]
  | Some r => if checks_before_sends_ctor r (snd it) then [1] else 2 :: env_list (ctor_witness r (snd it))
  end.

Definition decide_op (it : string * gprog) : list N :=
  match assoc (fst it) op_specs with
  | None => [0]
  | Some r => if checks_before_sends_op r (snd it) then [1] else 2 :: env_list (op_witness r (snd it))
  end.

(** branches (argument tests) on the violating path of a refuted constructor / operation *)
Definition decide_ctor_path (it : string * gprog) : list (string * bool) :=
  match assoc (fst it) role_specs with Some r => ctor_witness_path r (snd it) | None => [] end.
Definition decide_op_path (it : string * gprog) : list (string * bool) :=
  match assoc (fst it) op_specs with Some r => op_witness_path r (snd it) | None => [] end.

Definition op_arg_req (k : string) : bexpr :=
  match assoc k op_arg_specs with Some r => snd r | None => BConst true end.
Definition op_arg_asm (k : string) : list (string * bool) :=
  match assoc k op_arg_specs with Some r => fst r | None => [] end.

Definition decide_op_arg (it : string * gprog) : list N :=
  match assoc (fst it) op_arg_specs with
  | None => [0]
  | Some r => if checks_before_sends_op_arg (fst r) (snd r) (snd it) then [1]
              else 2 :: env_list (op_arg_witness (fst r) (snd r) (snd it))
  end.

(** every (name, value) of the spec's numbering appears in the enum imported from the code *)
Definition enum_consistent (gen : list (string * list (string * N))) : list (string * string) :=
  flat_map (fun d =>
    match assoc (fst d) gen with
    | None => [(fst d, "<enum missing>")]
    | Some g => flat_map (fun kv => match assoc (fst kv) g with
                                    | Some v => if N.eqb v (snd kv) then [] else [(fst d, fst kv)]
                                    | None => [(fst d, fst kv)]
                                    end) (snd d)
    end) spec_enums.

(** spec ids without a generated item (predicate / role / operation removed from the code) *)
Definition missing_ids {A B} (spec : list (string * A)) (gen : list (string * B)) : list string :=
  filter (fun k => match assoc k gen with Some _ => false | None => true end) (map fst spec).

(** requirement tables aligned with the generated tables (for the correspondence cases) *)
Definition reqs_for {A} (spec : list (string * bexpr)) (gen : list (string * A)) : list bexpr :=
  map (fun it => match assoc (fst it) spec with Some r => r | None => BConst true end) gen.

(** ---- records used by Property.v ---- *)

(** BLE [can_inject] as it was written before the repair:
    [self.can_send() and (capabilities & (1 << Capability.Inject) > 0)] *)
Definition legacy_ble_can_inject : bexpr :=
  BAnd (BOr (BCmp OGt (IMasked VCmds (CShl (CConst 1) (CConst 15))) (IConst (CConst 0)))
            (BTruthy (IMasked VCmds (CShl (CConst 1) (CConst 14)))))
       (BCmp OGt (IMasked VCaps (CShl (CConst 1) (CConst 4))) (IConst (CConst 0))).

(** a constructor in the shape of the real role constructors (non-vacuity example) *)
Definition sample_ctor : gprog :=
  GCall false "self.device.open" (GCall false "self.device.discover"
    (GIf has_domain
       (GIf spec_ble_can_be_central
            (GCall true "self.enable_central_mode" (GDone ROk))
            (GDone (RRaise EUnsupportedCapability)))
       (GDone (RRaise EUnsupportedDomain)))).

(** requirement of a role / operation by id ([BConst false] for an unknown id: nothing
    can then be proved about it) *)
Definition role_req (k : string) : bexpr :=
  match assoc k role_specs with Some r => r | None => BConst false end.
Definition op_req (k : string) : bexpr :=
  match assoc k op_specs with Some r => r | None => BConst false end.
Definition pred_spec (k : string) : bexpr :=
  match assoc k pred_specs with Some r => r | None => BConst false end.

(** expected truth values of a domain's predicates (for reporting a failing case) *)
Definition preds_expected (tables : list (list bexpr)) (d : nat) (cm cp : N) : list bool :=
  match nth_error tables d with
  | Some t => map (fun b => beval b (mkEnv cm cp 1)) t
  | None => []
  end.
