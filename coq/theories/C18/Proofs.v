(** C18 — lemmas about the model of Model.v. *)
From Coq Require Import List NArith ZArith Arith Bool Lia ZifyBool ZifyN ZifyNat.
From Whad Require Import Lib.Bytes Lib.Xor Lib.Aes Lib.Ccm Lib.Cmac C18.Model.
Import ListNotations.
Ltac Zify.zify_post_hook ::= Z.to_euclidean_division_equations.

(** * Lists *)

Lemma drop_last_app (n : nat) (a m : bytes) : length m = n -> drop_last n (a ++ m) = a.
Proof.
  intros H. unfold drop_last. rewrite app_length, H.
  replace (length a + n - n) with (length a) by lia.
  rewrite firstn_app, Nat.sub_diag, firstn_all. cbn [firstn]. apply app_nil_r.
Qed.

Lemma take_last_app (n : nat) (a m : bytes) : length m = n -> take_last n (a ++ m) = m.
Proof.
  intros H. unfold take_last. rewrite app_length, H.
  replace (length a + n - n) with (length a) by lia.
  rewrite skipn_app, Nat.sub_diag, skipn_all. reflexivity.
Qed.

Lemma drop_take_last (n : nat) (b : bytes) : drop_last n b ++ take_last n b = b.
Proof. unfold drop_last, take_last. apply firstn_skipn. Qed.

Lemma take_last_length (n : nat) (b : bytes) : n <= length b -> length (take_last n b) = n.
Proof. intros H. unfold take_last. rewrite skipn_length. lia. Qed.

Lemma bytes_eqb_refl' (a : bytes) : bytes_eqb a a = true.
Proof. apply bytes_eqb_eq. reflexivity. Qed.

Lemma bytes_eqb_neq (a b : bytes) : a <> b -> bytes_eqb a b = false.
Proof.
  intros H. destruct (bytes_eqb a b) eqn:E; [|reflexivity].
  apply bytes_eqb_eq in E. contradiction.
Qed.

Lemma flat_map_concat_map {A B} (f : A -> list B) (l : list A) : flat_map f l = concat (map f l).
Proof. induction l; cbn; [reflexivity|]. rewrite IHl. reflexivity. Qed.

Lemma firstn_app_exact {A} (n : nat) (a b : list A) : length a = n -> firstn n (a ++ b) = a.
Proof.
  intros <-. rewrite firstn_app, Nat.sub_diag, firstn_all. cbn [firstn]. apply app_nil_r.
Qed.

Lemma skipn_app_exact {A} (n : nat) (a b : list A) : length a = n -> skipn n (a ++ b) = b.
Proof. intros <-. rewrite skipn_app, Nat.sub_diag, skipn_all. reflexivity. Qed.

(** cutting a concatenation of 16-byte blocks gives the blocks back *)
Lemma chunks16_fuel_concat_blocks (bs : list bytes) : forall f,
  Forall (fun b => length b = 16) bs -> length (concat bs) <= f -> chunks16_fuel f (concat bs) = bs.
Proof.
  induction bs as [|b bs IH]; intros f Hb Hf.
  - destruct f; reflexivity.
  - inversion Hb as [|? ? H16 Hrest]; subst.
    cbn [concat] in *. rewrite app_length, H16 in Hf.
    destruct f as [|f]; [lia|].
    cbn [chunks16_fuel].
    destruct (b ++ concat bs) eqn:Eb.
    + apply (f_equal (@length N)) in Eb. rewrite app_length, H16 in Eb. cbn in Eb. lia.
    + rewrite <- Eb.
      rewrite (firstn_app_exact 16 b (concat bs) H16), (skipn_app_exact 16 b (concat bs) H16).
      f_equal. apply IH; [assumption|lia].
Qed.

Lemma chunks16_concat_blocks (bs : list bytes) :
  Forall (fun b => length b = 16) bs -> chunks16 (concat bs) = bs.
Proof. intros H. unfold chunks16. apply chunks16_fuel_concat_blocks; [assumption|lia]. Qed.

Lemma concat_blocks_length (bs : list bytes) :
  Forall (fun b => length b = 16) bs -> length (concat bs) = 16 * length bs.
Proof.
  induction 1 as [|b bs H16 _ IH]; cbn [concat length]; [lia|]. rewrite app_length, H16, IH. lia.
Qed.

Lemma le32_length n : length (le32 n) = 4. Proof. reflexivity. Qed.
Lemma le16_length n : length (le16 n) = 2. Proof. reflexivity. Qed.

Lemma le32_value a : (a < 4294967296)%N ->
  (a mod 256 + 256 * ((a / 256) mod 256) + 65536 * ((a / 65536) mod 256)
   + 16777216 * ((a / 16777216) mod 256))%N = a.
Proof.
  intros Ha.
  replace (a / 65536)%N with (a / 256 / 256)%N by (rewrite N.div_div by discriminate; reflexivity).
  replace (a / 16777216)%N with (a / 256 / 256 / 256)%N by (rewrite !N.div_div by discriminate; reflexivity).
  pose proof (N.div_mod' a 256) as H0.
  pose proof (N.div_mod' (a / 256) 256) as H1.
  pose proof (N.div_mod' (a / 256 / 256) 256) as H2.
  pose proof (N.div_mod' (a / 256 / 256 / 256) 256) as H3.
  pose proof (N.mod_lt a 256 ltac:(discriminate)) as B0.
  pose proof (N.mod_lt (a / 256) 256 ltac:(discriminate)) as B1.
  pose proof (N.mod_lt (a / 256 / 256) 256 ltac:(discriminate)) as B2.
  pose proof (N.mod_lt (a / 256 / 256 / 256) 256 ltac:(discriminate)) as B3.
  set (m0 := (a mod 256)%N) in *. set (q1 := (a / 256)%N) in *.
  set (m1 := (q1 mod 256)%N) in *. set (q2 := (q1 / 256)%N) in *.
  set (m2 := (q2 mod 256)%N) in *. set (q3 := (q2 / 256)%N) in *.
  set (m3 := (q3 mod 256)%N) in *. set (q4 := (q3 / 256)%N) in *.
  clearbody m0 q1 m1 q2 m2 q3 m3 q4. nia.
Qed.

Lemma le32_inj a b : (a < 4294967296)%N -> (b < 4294967296)%N -> le32 a = le32 b -> a = b.
Proof.
  unfold le32. intros Ha Hb H. injection H as H0 H1 H2 H3.
  rewrite <- (le32_value a Ha), <- (le32_value b Hb). congruence.
Qed.

Lemma le16_inj a b : (a < 65536)%N -> (b < 65536)%N -> le16 a = le16 b -> a = b.
Proof. unfold le16. intros Ha Hb H. injection H as H0 H1. lia. Qed.

Lemma packed_inj (b hi lo hi' lo' : N) : (lo < b)%N -> (lo' < b)%N ->
  (hi * b + lo = hi' * b + lo')%N -> hi = hi' /\ lo = lo'.
Proof.
  intros H1 H2 H. assert (Hb : b <> 0%N) by (intros ->; destruct lo; discriminate).
  assert (Hhi : hi = hi').
  { apply (f_equal (fun x => N.div x b)) in H.
    rewrite !N.div_add_l, !N.div_small, !N.add_0_r in H by assumption. exact H. }
  subst hi'. split; [reflexivity|]. apply N.add_cancel_l in H. exact H.
Qed.

(** * LoRaWAN *)

Lemma lw_block_length f d a c l : length (lw_block f d a c l) = 16.
Proof. reflexivity. Qed.

Lemma lw_nblocks_covers len : len <= 16 * lw_nblocks len.
Proof.
  unfold lw_nblocks. destruct (Nat.eqb (len mod 16) 0) eqn:E.
  - apply Nat.eqb_eq in E. lia.
  - apply Nat.eqb_neq in E. lia.
Qed.

Lemma data_nomic_length d : length (data_nomic d) = 9 + length (d_fopts d) + length (d_payload d).
Proof. unfold data_nomic, le32, le16. repeat rewrite app_length. cbn [length]. lia. Qed.

Lemma data_nomic_with_mic d m : data_nomic (with_mic d m) = data_nomic d.
Proof. reflexivity. Qed.

Section LW_PROOFS.
  Variable E D : bytes -> bytes -> bytes.
  Hypothesis E_length : forall k b, length (E k b) = 16.
  Hypothesis D_length : forall k b, length (D k b) = 16.
  (** AES decryption is the inverse permutation of AES encryption on 16-byte blocks *)
  Hypothesis ED_inv : forall k b, length b = 16 -> E k (D k b) = b.

  Lemma lw_keystream_length key dir addr fcnt nb :
    length (lw_keystream E key dir addr fcnt nb) = 16 * nb.
  Proof.
    unfold lw_keystream.
    assert (G : forall s, length (flat_map (fun i => E key (lw_block 1 dir addr fcnt (N.of_nat i))) (seq s nb)) = 16 * nb).
    { induction nb; intros s; cbn [seq flat_map]; [rewrite Nat.mul_0_r; reflexivity|].
      rewrite app_length, E_length, IHnb. lia. }
    apply G.
  Qed.

  Lemma encrypt_frame_length key dir addr fcnt x :
    length (encrypt_frame E key dir addr fcnt x) = length x.
  Proof.
    unfold encrypt_frame. apply xor_bytes_length_le. rewrite lw_keystream_length.
    apply lw_nblocks_covers.
  Qed.

  Lemma encrypt_frame_involutive key dir addr fcnt x :
    encrypt_frame E key dir addr fcnt (encrypt_frame E key dir addr fcnt x) = x.
  Proof.
    unfold encrypt_frame at 1. rewrite encrypt_frame_length. unfold encrypt_frame.
    apply xor_bytes_involutive_gen. rewrite lw_keystream_length.
    pose proof (lw_nblocks_covers (length x)). lia.
  Qed.

  Lemma encrypt_fopts_length key dir addr fcnt fo :
    length fo <= 16 -> length (encrypt_fopts E key dir addr fcnt fo) = length fo.
  Proof. intros H. unfold encrypt_fopts. apply xor_bytes_length_le. rewrite E_length. exact H. Qed.

  Lemma encrypt_fopts_involutive key dir addr fcnt fo :
    length fo <= 16 ->
    encrypt_fopts E key dir addr fcnt (encrypt_fopts E key dir addr fcnt fo) = fo.
  Proof.
    intros H. unfold encrypt_fopts. apply xor_bytes_involutive_gen. rewrite E_length. lia.
  Qed.

  Lemma lw_mic_length key buf : length (lw_mic E key buf) = 4.
  Proof. unfold lw_mic. rewrite firstn_length, (cmac_length E E_length). reflexivity. Qed.

  (** ** data frames: decrypt_packet inverts encrypt_packet and the MIC verifies *)
  Definition enc_fields (a n : bytes) (d : lw_data) : lw_data :=
    let dir := dir_of (d_mtype d) in
    with_fopts_payload d
      (encrypt_fopts E a dir (d_addr d) (d_fcnt d) (d_fopts d))
      (encrypt_frame E (if N.eqb (d_fport d) 0 then n else a) dir (d_addr d) (d_fcnt d) (d_payload d)).

  Definition enc_result (a n : bytes) (d : lw_data) : lw_data :=
    with_mic (enc_fields a n d)
      (lw_mic E n (lw_mic_input (dir_of (d_mtype d)) (d_addr d) (d_fcnt d) (data_nomic (enc_fields a n d)))).

  Lemma enc_fields_small a n d : lw_wf d -> (256 <=? length (data_nomic (enc_fields a n d))) = false.
  Proof.
    intros (Hmt & Hlo & Haddr & Hfhi & Hfcnt & Hfo & Hport & Hlen & Hmic).
    apply Nat.leb_gt. rewrite data_nomic_length. unfold enc_fields.
    cbn [with_fopts_payload d_fopts d_payload].
    rewrite encrypt_fopts_length by lia. rewrite encrypt_frame_length. lia.
  Qed.

  Lemma enc_data_ok a n d : lw_wf d -> enc_data E a n d = Ok (PData (enc_result a n d)).
  Proof.
    intros Hwf. pose proof (enc_fields_small a n d Hwf) as Hs.
    unfold enc_data, enc_result. fold (enc_fields a n d). unfold lw_mic_dir. rewrite Hs. reflexivity.
  Qed.

  Lemma enc_result_mic_ok a n d : lw_wf d ->
    lw_mic_dir E (dir_of (d_mtype (enc_result a n d))) n (d_addr (enc_result a n d)) (d_fcnt (enc_result a n d))
               (data_nomic (enc_result a n d)) = Ok (d_mic (enc_result a n d)).
  Proof.
    intros Hwf. pose proof (enc_fields_small a n d Hwf) as Hs.
    unfold enc_result at 4. rewrite data_nomic_with_mic.
    unfold lw_mic_dir. rewrite Hs. reflexivity.
  Qed.

  Lemma dec_data_ok a n d : lw_wf d ->
    dec_data E false a n (enc_result a n d) = Ok (PData (with_mic d (d_mic (enc_result a n d)))).
  Proof.
    intros Hwf. pose proof (enc_result_mic_ok a n d Hwf) as Hm.
    destruct Hwf as (Hmt & Hlo & Haddr & Hfhi & Hfcnt & Hfo & Hport & Hlen & Hmic).
    unfold dec_data. cbn [andb]. rewrite Hm. rewrite bytes_eqb_refl'.
    unfold enc_result, enc_fields.
    cbn [with_mic with_fopts_payload d_mtype d_lo d_addr d_fhi d_fcnt d_fopts d_fport d_payload d_mic].
    rewrite encrypt_fopts_involutive by lia.
    destruct (N.eqb (d_fport d) 0); rewrite encrypt_frame_involutive; destruct d; reflexivity.
  Qed.

  Theorem lw_data_self_inverse : forall appkey appkey' a n d,
    lw_wf d ->
    exists d',
      encrypt_packet E D std_variant appkey (Some a) (Some n) (PData d) = Ok (PData d') /\
      lw_mic_dir E (dir_of (d_mtype d')) n (d_addr d') (d_fcnt d') (data_nomic d') = Ok (d_mic d') /\
      decrypt_packet E std_variant appkey' (Some a) (Some n) (PData d') = Ok (PData (with_mic d (d_mic d'))).
  Proof.
    intros appkey appkey' a n d Hwf. exists (enc_result a n d).
    cbn [encrypt_packet decrypt_packet std_variant v_legacy].
    split; [apply enc_data_ok; exact Hwf|]. split; [apply enc_result_mic_ok; exact Hwf|].
    apply dec_data_ok; exact Hwf.
  Qed.

  (** ** join accept *)
  Lemma ecb_aligned F key x :
    Nat.eqb (length x mod 16) 0 = true -> ecb F key x = Ok (flat_map (F key) (chunks16 x)).
  Proof. intros H. unfold ecb. rewrite H. reflexivity. Qed.

  Lemma map_blocks_length (F : bytes -> bytes -> bytes) key (cs : list bytes) :
    (forall k b, length (F k b) = 16) -> Forall (fun b => length b = 16) (map (F key) cs).
  Proof. intros HF. induction cs; cbn [map]; constructor; auto. Qed.

  Lemma ecb_E_D key x :
    length x mod 16 = 0 ->
    exists enc, ecb D key x = Ok enc /\ length enc = length x /\ ecb E key enc = Ok x.
  Proof.
    intros Hal.
    assert (Hal' : Nat.eqb (length x mod 16) 0 = true) by (apply Nat.eqb_eq; exact Hal).
    rewrite (ecb_aligned D key x Hal').
    pose proof (chunks16_block_length x Hal) as Hcs.
    set (cs := chunks16 x) in *.
    assert (Hcat : concat cs = x) by apply chunks16_concat.
    assert (Hmb : Forall (fun b => length b = 16) (map (D key) cs)) by (apply map_blocks_length; exact D_length).
    eexists. split; [reflexivity|].
    assert (Hlen : length (flat_map (D key) cs) = length x).
    { rewrite (flat_map_concat_map (D key) cs), concat_blocks_length by exact Hmb.
      rewrite map_length. rewrite <- Hcat. rewrite concat_blocks_length by exact Hcs. reflexivity. }
    split; [exact Hlen|].
    rewrite (ecb_aligned E key (flat_map (D key) cs)) by (rewrite Hlen; exact Hal').
    rewrite (flat_map_concat_map (D key) cs). rewrite chunks16_concat_blocks by exact Hmb.
    rewrite flat_map_concat_map, map_map. f_equal.
    transitivity (concat cs); [|exact Hcat]. f_equal.
    clear Hcat Hlen Hmb. induction Hcs as [|c cs' H16 _ IH]; cbn [map]; [reflexivity|].
    rewrite ED_inv by exact H16. rewrite IH. reflexivity.
  Qed.

  Theorem lw_join_self_inverse : forall k s n s' n' lo body mic0,
    (length body + 4) mod 16 = 0 ->
    exists body' mic',
      encrypt_packet E D std_variant (Some k) s n (PJoin lo body mic0) = Ok (PJoin lo body' mic') /\
      length mic' = 4 /\
      decrypt_packet E std_variant (Some k) s' n' (PJoin lo body' mic')
      = Ok (PJoin lo body (lw_mic E k ((32 + lo)%N :: body))).
  Proof.
    intros k s n s' n' lo body mic0 Hal.
    cbn [encrypt_packet decrypt_packet std_variant v_legacy]. unfold enc_join.
    set (m := lw_mic E k ((32 + lo)%N :: body)).
    assert (Hm : length m = 4) by apply lw_mic_length.
    destruct (ecb_E_D k (body ++ m)) as (enc & He & Hl & Hd).
    { rewrite app_length, Hm. exact Hal. }
    rewrite He. exists (drop_last 4 enc), (take_last 4 enc).
    split; [reflexivity|].
    assert (H4 : 4 <= length enc) by (rewrite Hl, app_length, Hm; lia).
    split; [apply take_last_length; exact H4|].
    unfold dec_join. rewrite drop_take_last, Hd.
    rewrite drop_last_app, take_last_app by exact Hm.
    fold m. rewrite bytes_eqb_refl'. reflexivity.
  Qed.

  (** ** unsupported MTypes are returned as they are *)
  Lemma lw_other_identity : forall v a s n mt lo b m,
    encrypt_packet E D v a s n (POther mt lo b m) = Ok (POther mt lo b m) /\
    decrypt_packet E v a s n (POther mt lo b m) = Ok (POther mt lo b m).
  Proof. intros. split; reflexivity. Qed.

  (** ** the MIC is checked: returning normally means the MIC matched *)
  Theorem lw_decrypt_ok_verified : forall a s n p x,
    (forall mt lo b m, p <> POther mt lo b m) ->
    decrypt_packet E std_variant a s n p = Ok x -> lw_mic_verified E a s n p.
  Proof.
    intros a s n p x Hp H. destruct p as [lo body mic|d|mt lo b m].
    - cbn [decrypt_packet] in H. destruct a as [k|]; [|discriminate].
      unfold dec_join in H. destruct (ecb E k (body ++ mic)) as [dec|e] eqn:Ee; [|discriminate].
      destruct (bytes_eqb _ _) eqn:Eq in H; [|discriminate].
      apply bytes_eqb_eq in Eq. cbn [lw_mic_verified]. exists k, dec. auto.
    - cbn [decrypt_packet] in H. destruct n as [nk|]; [|discriminate]. destruct s as [sk|]; [|discriminate].
      unfold dec_data in H. cbn [std_variant v_legacy andb] in H.
      destruct (lw_mic_dir E _ nk _ _ _) as [exp|e] eqn:Em; [|discriminate].
      destruct (bytes_eqb exp (d_mic d)) eqn:Eq; [|discriminate].
      apply bytes_eqb_eq in Eq. subst exp. cbn [lw_mic_verified]. exists nk. auto.
    - exfalso. eapply Hp. reflexivity.
  Qed.

  (** a frame whose MIC field differs from the recomputed MIC is rejected with BadMICError *)
  Theorem lw_data_tamper_rejected : forall a s n d exp,
    lw_mic_dir E (dir_of (d_mtype d)) n (d_addr d) (d_fcnt d) (data_nomic d) = Ok exp ->
    exp <> d_mic d ->
    decrypt_packet E std_variant a (Some s) (Some n) (PData d) = Raise BadMICError.
  Proof.
    intros a s n d exp Hm Hne. cbn [decrypt_packet]. unfold dec_data. cbn [std_variant v_legacy andb].
    rewrite Hm. rewrite bytes_eqb_neq by exact Hne. reflexivity.
  Qed.

  Theorem lw_join_tamper_rejected : forall k s n lo body mic dec,
    ecb E k (body ++ mic) = Ok dec ->
    lw_mic E k ((32 + lo)%N :: drop_last 4 dec) <> take_last 4 dec ->
    decrypt_packet E std_variant (Some k) s n (PJoin lo body mic) = Raise BadMICError.
  Proof.
    intros k s n lo body mic dec He Hne. cbn [decrypt_packet]. unfold dec_join. rewrite He.
    rewrite bytes_eqb_neq by exact Hne. reflexivity.
  Qed.

  (** ** a missing key is MissingKeyError, for every variant, frame and other key *)
  Theorem lw_missing_key : forall v a s n p,
    match p with
    | PJoin _ _ _ => a = None
    | PData _ => s = None \/ n = None
    | POther _ _ _ _ => False
    end ->
    encrypt_packet E D v a s n p = Raise MissingKeyError /\
    decrypt_packet E v a s n p = Raise MissingKeyError.
  Proof.
    intros v a s n p H. destruct p as [lo body mic|d|mt lo b m]; cbn [encrypt_packet decrypt_packet].
    - subst a. split; reflexivity.
    - destruct H as [-> | ->].
      + destruct n; split; reflexivity.
      + split; reflexivity.
    - contradiction.
  Qed.

  (** ** legacy code: every downlink frame raises AttributeError *)
  Lemma lw_legacy_downlink_raises : forall a s n d,
    is_uplink (d_mtype d) = false ->
    decrypt_packet E legacy_variant a (Some s) (Some n) (PData d) = Raise AttributeError.
  Proof.
    intros a s n d H. cbn [decrypt_packet legacy_variant v_legacy]. unfold dec_data. rewrite H. reflexivity.
  Qed.
End LW_PROOFS.

(** ** the MIC input is an injective encoding of (direction, DevAddr, FCnt, PHY bytes) *)
Theorem lw_mic_input_injective : forall dir dir' a a' c c' f f',
  (a < 4294967296)%N -> (a' < 4294967296)%N -> (c < 4294967296)%N -> (c' < 4294967296)%N ->
  lw_mic_input dir a c f = lw_mic_input dir' a' c' f' ->
  dir = dir' /\ a = a' /\ c = c' /\ f = f'.
Proof.
  intros dir dir' a a' c c' f f' Ha Ha' Hc Hc' H.
  unfold lw_mic_input, lw_block in H. cbn [app] in H.
  injection H as Hd H0 H1 H2 H3 H4 H5 H6 H7 Hl Hf.
  repeat split; try assumption.
  - apply le32_inj; [assumption|assumption|]. unfold le32. congruence.
  - apply le32_inj; [assumption|assumption|]. unfold le32. congruence.
Qed.

(** ... and the PHY bytes are an injective encoding of every field of the frame except the
    MIC itself: the MIC covers MHDR, DevAddr, FCtrl, FCnt, FOpts, FPort and FRMPayload. *)
Theorem data_nomic_injective : forall d d',
  lw_wf d -> lw_wf d' -> data_nomic d = data_nomic d' -> with_mic d [] = with_mic d' [].
Proof.
  intros d d' (Hmt & Hlo & Haddr & Hfhi & Hfcnt & Hfo & Hport & _ & _)
         (Hmt' & Hlo' & Haddr' & Hfhi' & Hfcnt' & Hfo' & Hport' & _ & _) H.
  unfold data_nomic in H. cbn [app le32 le16] in H.
  injection H as Hh A0 A1 A2 A3 Hfc C0 C1 Hrest.
  destruct (packed_inj 32 (d_mtype d) (d_lo d) (d_mtype d') (d_lo d') Hlo Hlo' Hh) as [Emt Elo].
  assert (Eaddr : d_addr d = d_addr d') by (apply le32_inj; [assumption|assumption|unfold le32; congruence]).
  assert (Efcnt : d_fcnt d = d_fcnt d') by (apply le16_inj; [assumption|assumption|unfold le16; congruence]).
  assert (Hfo16 : (N.of_nat (length (d_fopts d)) < 16)%N) by (clear - Hfo; lia).
  assert (Hfo16' : (N.of_nat (length (d_fopts d')) < 16)%N) by (clear - Hfo'; lia).
  destruct (packed_inj 16 (d_fhi d) _ (d_fhi d') _ Hfo16 Hfo16' Hfc) as [Efhi Efl0].
  assert (Efl : length (d_fopts d) = length (d_fopts d')) by (clear - Efl0; lia).
  apply app_inj_length in Hrest; [|exact Efl]. destruct Hrest as [Efo Hr2].
  injection Hr2 as Eport Epl.
  destruct d, d'; cbn in *. subst. reflexivity.
Qed.

Lemma split_fopts (fo : bytes) (p : N) (pl : bytes) :
  firstn (length fo) (fo ++ p :: pl) = fo /\
  nth (length fo) (fo ++ p :: pl) 0%N = p /\
  skipn (length fo + 1) (fo ++ p :: pl) = pl.
Proof.
  induction fo as [|x fo (I1 & I2 & I3)]; cbn [length app firstn nth skipn Nat.add].
  - repeat split.
  - rewrite I1. repeat split; assumption.
Qed.

(** ** scapy dissection of the bytes scapy built (wire path of the round trip) *)
Lemma dissect_build_data : forall d, lw_wf d -> dissect (build (PData d)) = Some (PData d).
Proof.
  intros d (Hmt & Hlo & Haddr & Hfhi & Hfcnt & Hfo & Hport & Hlen & Hmic).
  cbn [build]. unfold data_nomic. cbn [app le32 le16]. unfold dissect.
  set (rest := (d_addr d mod 256)%N :: _).
  assert (Hrest : rest = ((d_addr d mod 256)%N :: ((d_addr d / 256) mod 256)%N :: ((d_addr d / 65536) mod 256)%N
                   :: ((d_addr d / 16777216) mod 256)%N :: (d_fhi d * 16 + N.of_nat (length (d_fopts d)))%N
                   :: (d_fcnt d mod 256)%N :: (d_fcnt d / 256)%N :: d_fopts d ++ [d_fport d] ++ d_payload d) ++ d_mic d).
  { unfold rest. reflexivity. }
  assert (Hl4 : (length rest <? 4) = false).
  { apply Nat.ltb_ge. rewrite Hrest, app_length, Hmic. lia. }
  rewrite Hl4. rewrite Hrest. rewrite drop_last_app, take_last_app by exact Hmic.
  assert (E1 : ((d_mtype d * 32 + d_lo d) / 32 = d_mtype d)%N) by (clear - Hlo; lia).
  assert (E2 : ((d_mtype d * 32 + d_lo d) mod 32 = d_lo d)%N) by (clear - Hlo; lia).
  rewrite E1, E2.
  assert (Ne1 : N.eqb (d_mtype d) 1 = false) by (apply N.eqb_neq; lia).
  assert (In25 : (N.leb 2 (d_mtype d) && N.leb (d_mtype d) 5)%bool = true).
  { apply andb_true_iff. split; apply N.leb_le; lia. }
  rewrite Ne1, In25.
  assert (Efl : N.to_nat ((d_fhi d * 16 + N.of_nat (length (d_fopts d))) mod 16) = length (d_fopts d)) by (clear - Hfo; lia).
  rewrite Efl.
  change ([d_fport d] ++ d_payload d) with (d_fport d :: d_payload d).
  assert (Hlt : (length (d_fopts d ++ d_fport d :: d_payload d) <? length (d_fopts d) + 1) = false).
  { apply Nat.ltb_ge. rewrite !app_length. cbn [length]. lia. }
  rewrite Hlt.
  destruct (split_fopts (d_fopts d) (d_fport d) (d_payload d)) as (F1 & F2 & F3).
  change ([d_fport d] ++ d_payload d) with (d_fport d :: d_payload d).
  rewrite F1, F2, F3.
  assert (Ea : (d_addr d mod 256 + 256 * ((d_addr d / 256) mod 256) + 65536 * ((d_addr d / 65536) mod 256)
                + 16777216 * ((d_addr d / 16777216) mod 256) = d_addr d)%N) by (apply le32_value; assumption).
  assert (Ec : (d_fcnt d mod 256 + 256 * (d_fcnt d / 256) = d_fcnt d)%N) by (clear; lia).
  assert (Eh : ((d_fhi d * 16 + N.of_nat (length (d_fopts d))) / 16 = d_fhi d)%N) by (clear - Hfo; lia).
  rewrite Ea, Ec, Eh. destruct d; reflexivity.
Qed.

Lemma dissect_build_join : forall lo body mic, (lo < 32)%N -> length mic = 4 ->
  dissect (build (PJoin lo body mic)) = Some (PJoin lo body mic).
Proof.
  intros lo body mic Hlo Hmic. cbn [build]. unfold dissect.
  assert (Hl4 : (length (body ++ mic) <? 4) = false) by (apply Nat.ltb_ge; rewrite app_length; lia).
  rewrite Hl4, drop_last_app, take_last_app by exact Hmic.
  assert (E1 : ((32 + lo) / 32 = 1)%N) by lia.
  assert (E2 : ((32 + lo) mod 32 = lo)%N) by lia.
  rewrite E1, E2. reflexivity.
Qed.

(** the full "returning normally means a MIC was verified" statement fails on the MTypes the
    function does not support (known finding lorawan-unsupported-mtype-not-verified) *)
Lemma lw_verified_refuted : forall (E : bytes -> bytes -> bytes) a s n,
  exists p x, decrypt_packet E std_variant a s n p = Ok x /\ ~ lw_mic_verified E a s n p.
Proof.
  intros E a s n. exists (POther 0 0 [] [0;0;0;0]%N), (POther 0 0 [] [0;0;0;0]%N).
  split; [reflexivity|]. cbn. tauto.
Qed.

(** a single bit flip of the MHDR of any data frame reaches that case *)
Lemma lw_mtype_flip_passthrough : forall (E : bytes -> bytes -> bytes) a s n rest,
  4 <= length rest ->
  exists p, dissect (flip_bit 6 (64%N :: rest)) = Some p /\
            decrypt_packet E std_variant a s n p = Ok p.
Proof.
  intros E a s n rest Hl. cbn [flip_bit Nat.ltb Nat.leb]. unfold dissect.
  change (N.lxor 64 (N.shiftl 1 (N.of_nat 6))) with 0%N.
  assert (H4 : (length rest <? 4) = false) by (apply Nat.ltb_ge; exact Hl).
  rewrite H4. cbn. eexists. split; reflexivity.
Qed.

(** * RF4CE *)

Lemma lor_32_4 f : N.lor (N.lor f 32) 4 = N.lor f 36.
Proof. rewrite <- N.lor_assoc. reflexivity. Qed.

Lemma rf_fa_sec f : rf_sec (N.lor (N.lor f 32) 4) = true.
Proof. unfold rf_sec. rewrite N.lor_spec. change (N.testbit 4 2) with true. apply orb_true_r. Qed.

Lemma rf_ftype_lor f m : N.land m 3 = 0%N -> rf_ftype (N.lor f m) = rf_ftype f.
Proof. intros H. unfold rf_ftype. rewrite N.land_lor_distr_l, H. apply N.lor_0_r. Qed.

Lemma rf_dv_lor f m : N.land m 3 = 0%N -> rf_dv (N.lor f m) = rf_dv f.
Proof. intros H. unfold rf_dv. rewrite rf_ftype_lor by exact H. reflexivity. Qed.

Lemma rf_sec_lor32 f : rf_sec (N.lor f 32) = rf_sec f.
Proof. unfold rf_sec. rewrite N.lor_spec. change (N.testbit 32 2) with false. apply orb_false_r. Qed.

Lemma lor_idem f m : N.lor (N.lor f m) m = N.lor f m.
Proof. rewrite <- N.lor_assoc, N.lor_diag. reflexivity. Qed.

Lemma rf_fa_lor32 f : N.lor (N.lor (N.lor f 32) 4) 32 = N.lor (N.lor f 32) 4.
Proof. rewrite !lor_32_4. rewrite <- N.lor_assoc. reflexivity. Qed.

(** the reserved bit of the received frame control byte does not reach the cipher *)
Lemma lor32_flip f : N.lor (N.lxor f 32) 32 = N.lor f 32.
Proof.
  apply N.bits_inj. intros n. rewrite !N.lor_spec, N.lxor_spec.
  destruct (N.testbit 32 n); [rewrite !orb_true_r; reflexivity|]. rewrite xorb_false_r. reflexivity.
Qed.

Lemma rf_nwk_sec f fc hdr pl mic : rf_sec f = true -> rf_nwk f fc hdr pl mic = [f] ++ fc ++ hdr ++ pl ++ mic.
Proof. intros H. unfold rf_nwk. rewrite H. reflexivity. Qed.

Lemma rf_parse_nwk : forall pre f fc hdr pl mic s d hm,
  rf_sec f = true -> length fc = 4 -> length mic = 4 -> length hdr = (if rf_dv f then 3 else 0) ->
  rf_parse (length pre) s d hm (pre ++ rf_nwk f fc hdr pl mic)
  = Some {| r_pre := pre; r_fctl := f; r_fc := fc; r_hdr := hdr; r_payload := pl; r_mic := mic;
            r_mic_none := false; r_has_layer := negb (Nat.eqb (length pl) 0);
            r_src := s; r_dst := d; r_has_mac := hm |}.
Proof.
  intros pre f fc hdr pl mic s d hm Hsec Hfc Hmic Hhdr.
  unfold rf_parse. rewrite (firstn_app_exact _ pre _ eq_refl), (skipn_app_exact _ pre _ eq_refl).
  rewrite rf_nwk_sec by exact Hsec. cbn [app]. rewrite Hsec. cbn [negb].
  set (hl := if rf_dv f then 3 else 0) in *.
  assert (Hlen : length (fc ++ hdr ++ pl ++ mic) = 4 + hl + length pl + 4).
  { rewrite !app_length. lia. }
  assert (Hlt : (length (fc ++ hdr ++ pl ++ mic) <? 4 + hl + 4) = false) by (apply Nat.ltb_ge; lia).
  rewrite Hlt, Hlen.
  rewrite (firstn_app_exact 4 fc _ Hfc), (skipn_app_exact 4 fc _ Hfc).
  rewrite (firstn_app_exact hl hdr _ Hhdr).
  replace (fc ++ hdr ++ pl ++ mic) with ((fc ++ hdr) ++ pl ++ mic) by (rewrite <- !app_assoc; reflexivity).
  assert (Hfh : length (fc ++ hdr) = 4 + hl) by (rewrite app_length; lia).
  rewrite (skipn_app_exact (4 + hl) (fc ++ hdr) _ Hfh).
  replace (4 + hl + length pl + 4 - 4 - hl - 4) with (length pl) by lia.
  rewrite (firstn_app_exact (length pl) pl mic eq_refl).
  replace ((fc ++ hdr) ++ pl ++ mic) with (((fc ++ hdr) ++ pl) ++ mic) by (rewrite <- !app_assoc; reflexivity).
  assert (Hfhp : length ((fc ++ hdr) ++ pl) = 4 + hl + length pl + 4 - 4) by (rewrite app_length; lia).
  rewrite (skipn_app_exact _ ((fc ++ hdr) ++ pl) mic Hfhp).
  reflexivity.
Qed.

Section RF_PROOFS.
  Variable E : bytes -> bytes -> bytes.
  Hypothesis E_length : forall k b, length (E k b) = 16.

  (** what encrypt() emits: the header as given (reserved and security bits set), the CCM
      ciphertext of the payload and the 4-byte tag *)
  Lemma rf_encrypt_std : forall key x src dst,
    rf_wf x -> r_src x = Some src -> r_dst x = Some dst ->
    let fa := N.lor (N.lor (r_fctl x) 32) 4 in
    let ctag := ccm_encrypt E 4 2 key (rf_nonce src (r_fc x)) (rf_auth fa (r_fc x) dst) (r_payload x) in
    rf_encrypt E std_variant key x = RPkt (r_pre x ++ rf_nwk fa (r_fc x) (r_hdr x) (fst ctag) (snd ctag)).
  Proof.
    intros key x src dst (Hfc & Hmic & Hhdr) Hs Hd fa ctag.
    unfold rf_encrypt. rewrite Hs, Hd. cbn [std_variant v_legacy andb]. fold fa. fold ctag.
    assert (Hc : Nat.eqb (length (r_payload x) + 4) 0 = false) by (apply Nat.eqb_neq; lia).
    rewrite Hc.
    assert (Hsec : rf_sec fa = true) by apply rf_fa_sec.
    rewrite !rf_nwk_sec by exact Hsec.
    replace (r_pre x ++ [fa] ++ r_fc x ++ r_hdr x ++ r_payload x ++ r_mic x)
      with ((r_pre x ++ [fa] ++ r_fc x ++ r_hdr x) ++ (r_payload x ++ r_mic x))
      by (rewrite <- !app_assoc; reflexivity).
    rewrite drop_last_app by (rewrite app_length; lia).
    rewrite <- !app_assoc. reflexivity.
  Qed.

  Lemma rf_decrypt_std : forall key x src dst,
    length (r_mic x) = 4 -> rf_sec (r_fctl x) = true -> r_src x = Some src -> r_dst x = Some dst ->
    let f0 := N.lor (r_fctl x) 32 in
    rf_decrypt E std_variant key x =
    match ccm_decrypt E 4 2 key (rf_nonce src (r_fc x)) (rf_auth f0 (r_fc x) dst) (r_payload x) (r_mic x) with
    | Some pt => RTuple (r_pre x ++ rf_nwk f0 (r_fc x) (r_hdr x) pt (r_mic x)) true
    | None => RTuple (r_pre x ++ rf_nwk f0 (r_fc x) (r_hdr x) (r_payload x) (r_mic x)) false
    end.
  Proof.
    intros key x src dst Hmic Hsec Hs Hd f0.
    unfold rf_decrypt. rewrite Hs, Hd. cbn [std_variant v_legacy andb]. rewrite Hsec. cbn [negb]. fold f0.
    destruct (ccm_decrypt E 4 2 key _ _ _ _) as [pt|]; [|reflexivity].
    assert (Hsec0 : rf_sec f0 = true) by (unfold f0; rewrite rf_sec_lor32; exact Hsec).
    rewrite !rf_nwk_sec by exact Hsec0.
    replace (r_pre x ++ [f0] ++ r_fc x ++ r_hdr x ++ r_payload x ++ r_mic x)
      with ((r_pre x ++ [f0] ++ r_fc x ++ r_hdr x) ++ (r_payload x ++ r_mic x))
      by (rewrite <- !app_assoc; reflexivity).
    rewrite drop_last_app by (rewrite app_length; lia).
    rewrite <- !app_assoc. reflexivity.
  Qed.

  (** ** self-inverse: the receiver re-dissects the emitted bytes and decrypt() returns
      (frame, True) where frame is the original with reserved/security bits set and the MIC *)
  Theorem rf_self_inverse : forall key x src dst,
    rf_wf x -> r_src x = Some src -> r_dst x = Some dst ->
    let fa := N.lor (N.lor (r_fctl x) 32) 4 in
    exists w x' tag,
      rf_encrypt E std_variant key x = RPkt w /\
      rf_parse (length (r_pre x)) (Some src) (Some dst) (r_has_mac x) w = Some x' /\
      length tag = 4 /\
      rf_decrypt E std_variant key x' = RTuple (r_pre x ++ rf_nwk fa (r_fc x) (r_hdr x) (r_payload x) tag) true.
  Proof.
    intros key x src dst Hwf Hs Hd fa.
    pose proof (rf_encrypt_std key x src dst Hwf Hs Hd) as He. cbv zeta in He. fold fa in He.
    destruct Hwf as (Hfc & Hmic & Hhdr).
    set (nonce := rf_nonce src (r_fc x)) in *. set (auth := rf_auth fa (r_fc x) dst) in *.
    set (ctag := ccm_encrypt E 4 2 key nonce auth (r_payload x)) in *.
    assert (Hsec : rf_sec fa = true) by apply rf_fa_sec.
    assert (Htag : length (snd ctag) = 4).
    { unfold ctag. cbn [ccm_encrypt snd]. apply (ccm_tag_length E E_length). lia. }
    assert (Hdv : rf_dv fa = rf_dv (r_fctl x)).
    { unfold fa. rewrite lor_32_4. apply rf_dv_lor. reflexivity. }
    eexists. eexists. exists (snd ctag). split; [exact He|].
    split; [apply rf_parse_nwk; try assumption; rewrite Hdv; exact Hhdr|].
    split; [exact Htag|].
    rewrite (rf_decrypt_std key _ src dst) by (cbn [r_mic r_fctl r_src r_dst]; auto).
    cbn [r_pre r_fctl r_fc r_hdr r_payload r_mic].
    unfold fa at 1 2 3. rewrite rf_fa_lor32. fold fa. fold nonce. fold auth.
    unfold ctag. rewrite (ccm_decrypt_encrypt_gen E E_length). reflexivity.
  Qed.

  (** ** the MIC is checked: acceptance iff the received tag is the recomputed CCM tag *)
  Theorem rf_accept_iff_tag : forall key x src dst b,
    length (r_mic x) = 4 -> rf_sec (r_fctl x) = true -> r_src x = Some src -> r_dst x = Some dst ->
    let f0 := N.lor (r_fctl x) 32 in
    rf_decrypt E std_variant key x = RTuple b true ->
    r_mic x = ccm_tag E 4 2 key (rf_nonce src (r_fc x)) (rf_auth f0 (r_fc x) dst)
                      (ccm_keystream_xor E 2 key (rf_nonce src (r_fc x)) (r_payload x)).
  Proof.
    intros key x src dst b Hmic Hsec Hs Hd f0 H.
    rewrite (rf_decrypt_std key x src dst Hmic Hsec Hs Hd) in H. fold f0 in H.
    destruct (ccm_decrypt E 4 2 key _ _ _ _) as [pt|] eqn:Ec; [|discriminate].
    apply (ccm_decrypt_iff_tag E) in Ec. destruct Ec as [-> Ht]. exact Ht.
  Qed.

  Theorem rf_tamper_rejected : forall key x src dst,
    length (r_mic x) = 4 -> rf_sec (r_fctl x) = true -> r_src x = Some src -> r_dst x = Some dst ->
    let f0 := N.lor (r_fctl x) 32 in
    r_mic x <> ccm_tag E 4 2 key (rf_nonce src (r_fc x)) (rf_auth f0 (r_fc x) dst)
                       (ccm_keystream_xor E 2 key (rf_nonce src (r_fc x)) (r_payload x)) ->
    rf_decrypt E std_variant key x
    = RTuple (r_pre x ++ rf_nwk f0 (r_fc x) (r_hdr x) (r_payload x) (r_mic x)) false.
  Proof.
    intros key x src dst Hmic Hsec Hs Hd f0 Hne.
    rewrite (rf_decrypt_std key x src dst Hmic Hsec Hs Hd). fold f0.
    apply (ccm_decrypt_none_iff E) in Hne. rewrite Hne. reflexivity.
  Qed.

  (** ** what is not covered: acceptance does not depend on the profile / vendor id bytes,
      nor on the reserved bit as received (known findings) *)
  Definition rf_accepts (key : bytes) (x : rf_in) : bool :=
    match rf_decrypt E std_variant key x with RTuple _ true => true | _ => false end.

  Definition with_hdr (x : rf_in) (h : bytes) : rf_in :=
    {| r_pre := r_pre x; r_fctl := r_fctl x; r_fc := r_fc x; r_hdr := h; r_payload := r_payload x;
       r_mic := r_mic x; r_mic_none := r_mic_none x; r_has_layer := r_has_layer x;
       r_src := r_src x; r_dst := r_dst x; r_has_mac := r_has_mac x |}.

  Definition with_fctl (x : rf_in) (f : N) : rf_in :=
    {| r_pre := r_pre x; r_fctl := f; r_fc := r_fc x; r_hdr := r_hdr x; r_payload := r_payload x;
       r_mic := r_mic x; r_mic_none := r_mic_none x; r_has_layer := r_has_layer x;
       r_src := r_src x; r_dst := r_dst x; r_has_mac := r_has_mac x |}.

  Lemma rf_hdr_unauthenticated : forall key x src dst h,
    length (r_mic x) = 4 -> rf_sec (r_fctl x) = true -> r_src x = Some src -> r_dst x = Some dst ->
    rf_accepts key (with_hdr x h) = rf_accepts key x.
  Proof.
    intros key x src dst h Hmic Hsec Hs Hd. unfold rf_accepts.
    rewrite (rf_decrypt_std key x src dst Hmic Hsec Hs Hd).
    rewrite (rf_decrypt_std key (with_hdr x h) src dst) by (cbn; assumption).
    cbn [with_hdr r_pre r_fctl r_fc r_hdr r_payload r_mic].
    destruct (ccm_decrypt E 4 2 key _ _ _ _); reflexivity.
  Qed.

  Lemma rf_reserved_unauthenticated : forall key x src dst,
    length (r_mic x) = 4 -> rf_sec (r_fctl x) = true -> r_src x = Some src -> r_dst x = Some dst ->
    rf_accepts key (with_fctl x (N.lxor (r_fctl x) 32)) = rf_accepts key x.
  Proof.
    intros key x src dst Hmic Hsec Hs Hd. unfold rf_accepts.
    rewrite (rf_decrypt_std key x src dst Hmic Hsec Hs Hd).
    rewrite (rf_decrypt_std key (with_fctl x _) src dst).
    - cbn [with_fctl r_pre r_fctl r_fc r_hdr r_payload r_mic]. rewrite lor32_flip.
      destruct (ccm_decrypt E 4 2 key _ _ _ _); reflexivity.
    - exact Hmic.
    - cbn [with_fctl r_fctl]. unfold rf_sec in *. rewrite N.lxor_spec, Hsec. reflexivity.
    - exact Hs.
    - exact Hd.
  Qed.

  (** ** legacy code: frames without a payload layer raise IndexError *)
  Lemma rf_legacy_no_layer_raises : forall key x src dst,
    r_src x = Some src -> r_dst x = Some dst -> r_has_layer x = false ->
    rf_encrypt E legacy_variant key x = RRaise IndexError /\
    rf_decrypt E legacy_variant key x = RRaise IndexError.
  Proof.
    intros key x src dst Hs Hd Hl. unfold rf_encrypt, rf_decrypt. rewrite Hs, Hd, Hl. split; reflexivity.
  Qed.
End RF_PROOFS.

(** ** "cannot (de)crypt because something is missing" ends in the dedicated signal *)
Section RF_MISSING.
  Variable E : bytes -> bytes -> bytes.

  (** a frame whose security flag is clear: MissingRF4CESecurityFlag, whatever else is given *)
  Theorem rf_flag_clear_dedicated : forall key x,
    rf_sec (r_fctl x) = false -> rf_decrypt E std_variant key x = RRaise MissingSecurityFlag.
  Proof. intros key x H. unfold rf_decrypt. cbn [std_variant v_legacy negb andb]. rewrite H. reflexivity. Qed.

  (** a missing source or destination address: (packet, False), never an exception *)
  Theorem rf_missing_address_dedicated : forall key x,
    r_src x = None \/ r_dst x = None ->
    (exists b, rf_encrypt E std_variant key x = RTuple b false) /\
    (rf_sec (r_fctl x) = true -> exists b, rf_decrypt E std_variant key x = RTuple b false).
  Proof.
    intros key x H. split.
    - unfold rf_encrypt. cbn [std_variant v_legacy negb orb]. rewrite orb_true_r.
      destruct (r_src x); [|eexists; reflexivity].
      destruct H as [H|H]; [discriminate|]. rewrite H. eexists; reflexivity.
    - intros Hs. unfold rf_decrypt. cbn [std_variant v_legacy negb andb]. rewrite Hs. cbn [negb].
      rewrite orb_true_r.
      destruct (r_src x); [|eexists; reflexivity].
      destruct H as [H|H]; [discriminate|]. rewrite H. eexists; reflexivity.
  Qed.

  (** no RF4CE layer in the packet: MissingRF4CEHeader *)
  Theorem rf_no_header_dedicated : forall v key,
    rf_encrypt_top E v key None = RRaise MissingHeader /\ rf_decrypt_top E v key None = RRaise MissingHeader.
  Proof. intros. split; reflexivity. Qed.

  (** and nothing else is ever raised: encrypt() raises nothing once the packet has an RF4CE
      header, decrypt() only MissingRF4CESecurityFlag *)
  Theorem rf_only_dedicated_errors : forall key o e,
    (rf_encrypt_top E std_variant key o = RRaise e -> e = MissingHeader) /\
    (rf_decrypt_top E std_variant key o = RRaise e -> e = MissingHeader \/ e = MissingSecurityFlag).
  Proof.
    intros key [x|] e; cbn [rf_encrypt_top rf_decrypt_top]; split; intros H;
      try (injection H as <-; auto; fail).
    - exfalso. unfold rf_encrypt in H. cbn [std_variant v_legacy negb andb orb] in H.
      rewrite !orb_true_r in H.
      destruct (r_src x); [|discriminate]. destruct (r_dst x); [|discriminate].
      destruct (Nat.eqb _ 0); discriminate.
    - right. unfold rf_decrypt in H. cbn [std_variant v_legacy negb andb orb] in H.
      destruct (rf_sec (r_fctl x)) eqn:Hs; cbn [negb] in H; [|injection H as <-; reflexivity].
      rewrite !orb_true_r in H.
      destruct (r_src x); [|discriminate]. destruct (r_dst x); [|discriminate].
      destruct (ccm_decrypt E 4 2 key _ _ _ _); discriminate.
  Qed.

  (** legacy code: struct.error / AttributeError instead *)
  Lemma rf_legacy_flag_clear_struct_error : forall key x src dst,
    r_src x = Some src -> r_dst x = Some dst -> r_has_layer x = true -> rf_sec (r_fctl x) = false ->
    rf_decrypt E legacy_variant key x = RRaise StructError.
  Proof.
    intros key x src dst Hs Hd Hl Hsec. unfold rf_decrypt. cbn [legacy_variant v_legacy negb andb].
    rewrite Hs, Hd, Hl, Hsec. reflexivity.
  Qed.

  Lemma rf_legacy_bare_noaddr_attribute_error : forall key x,
    r_src x = None -> r_has_mac x = false ->
    rf_encrypt E legacy_variant key x = RRaise AttributeError /\
    rf_decrypt E legacy_variant key x = RRaise AttributeError.
  Proof.
    intros key x Hs Hm. unfold rf_encrypt, rf_decrypt. cbn [legacy_variant v_legacy negb andb].
    rewrite Hs, Hm. split; reflexivity.
  Qed.
End RF_MISSING.

(** ** where the addresses come from: caller's argument, else the long address of the header *)
Lemma rf_resolve_spec : forall arg h a,
  rf_resolve arg h = Some a <-> (arg = Some a \/ (arg = None /\ h = Some (AMLong a))).
Proof.
  intros arg h a. unfold rf_resolve, rf_header_long. split.
  - destruct arg as [b|]; [intros H; injection H as <-; auto|].
    destruct h as [[|s|l]|]; try discriminate. intros H; injection H as <-. auto.
  - intros [->|[-> ->]]; reflexivity.
Qed.

Lemma rf_resolve_none : forall arg h,
  rf_resolve arg h = None <-> (arg = None /\ forall a, h <> Some (AMLong a)).
Proof.
  intros arg h. unfold rf_resolve, rf_header_long. split.
  - destruct arg; [discriminate|]. destruct h as [[|s|l]|]; try discriminate; intros _; split; try reflexivity;
      intros a; discriminate.
  - intros [-> H]. destruct h as [[|s|l]|]; try reflexivity. exfalso. apply (H l). reflexivity.
Qed.

Lemma rf_with_addrs_wf x asrc adst hsrc hdst : rf_wf x -> rf_wf (rf_with_addrs x asrc adst hsrc hdst).
Proof. intros H. exact H. Qed.

Section RF_ADDRESSING.
  Variable E : bytes -> bytes -> bytes.
  Hypothesis E_length : forall k b, length (E k b) = 16.

  (** self-inverse for every combination of 802.15.4 addressing modes (none / short / long, or no MAC
      layer at all) and caller-supplied addresses in which both 8-byte addresses are available; the
      receiver resolves its addresses the same way (same header, its own arguments) *)
  Theorem rf_self_inverse_addressing : forall key x asrc adst hsrc hdst dasrc dadst src dst,
    rf_wf x ->
    rf_resolve asrc hsrc = Some src -> rf_resolve adst hdst = Some dst ->
    rf_resolve dasrc hsrc = Some src -> rf_resolve dadst hdst = Some dst ->
    let fa := N.lor (N.lor (r_fctl x) 32) 4 in
    let has_mac := match hsrc with Some _ => true | None => false end in
    exists w x' tag,
      rf_encrypt E std_variant key (rf_with_addrs x asrc adst hsrc hdst) = RPkt w /\
      rf_parse (length (r_pre x)) (rf_resolve dasrc hsrc) (rf_resolve dadst hdst) has_mac w = Some x' /\
      length tag = 4 /\
      rf_decrypt E std_variant key x' = RTuple (r_pre x ++ rf_nwk fa (r_fc x) (r_hdr x) (r_payload x) tag) true.
  Proof.
    intros key x asrc adst hsrc hdst dasrc dadst src dst Hwf Hs Hd Hs' Hd' fa has_mac.
    rewrite Hs', Hd'.
    exact (rf_self_inverse E E_length key (rf_with_addrs x asrc adst hsrc hdst) src dst
             (rf_with_addrs_wf x asrc adst hsrc hdst Hwf) Hs Hd).
  Qed.

  (** an address that is neither given by the caller nor long in the header: (packet, False) from
      encrypt, and from decrypt of a secured frame — never an exception, never a silently
      protected frame *)
  Theorem rf_missing_address_addressing : forall key x asrc adst hsrc hdst,
    (asrc = None /\ rf_header_long hsrc = None) \/ (adst = None /\ rf_header_long hdst = None) ->
    (exists b, rf_encrypt E std_variant key (rf_with_addrs x asrc adst hsrc hdst) = RTuple b false) /\
    (rf_sec (r_fctl x) = true ->
     exists b, rf_decrypt E std_variant key (rf_with_addrs x asrc adst hsrc hdst) = RTuple b false).
  Proof.
    intros key x asrc adst hsrc hdst H.
    apply (rf_missing_address_dedicated E key (rf_with_addrs x asrc adst hsrc hdst)).
    cbn [rf_with_addrs r_src r_dst]. unfold rf_resolve.
    destruct H as [[-> H]|[-> H]]; rewrite H; auto.
  Qed.
End RF_ADDRESSING.

(** ** the CBC-MAC input determines source, frame counter, frame control (reserved bit forced),
    destination and payload: the MIC covers all of them *)
Theorem rf_auth_injective : forall s s' fc fc' f f' d d' m m',
  length s = 8 -> length s' = 8 -> length fc = 4 -> length fc' = 4 ->
  length d = 8 -> length d' = 8 -> (N.of_nat (length m) < 65536)%N -> (N.of_nat (length m') < 65536)%N ->
  ccm_auth_blocks 4 2 (rf_nonce s fc) (rf_auth f fc d) m = ccm_auth_blocks 4 2 (rf_nonce s' fc') (rf_auth f' fc' d') m' ->
  s = s' /\ fc = fc' /\ f = f' /\ d = d' /\ m = m'.
Proof.
  intros s s' fc fc' f f' d d' m m' Hs Hs' Hfc Hfc' Hd Hd' Hm Hm' H.
  apply ccm_auth_blocks_injective in H.
  - destruct H as (Hn & Ha & Hmm). unfold rf_nonce in Hn. unfold rf_auth in Ha.
    apply app_inj_length in Hn; [|lia]. destruct Hn as [-> Hn].
    apply app_inj_length in Hn; [|lia]. destruct Hn as [-> _].
    injection Ha as -> Ha. apply app_inj_length in Ha; [|reflexivity]. destruct Ha as [_ ->].
    repeat split; assumption.
  - lia.
  - unfold rf_nonce. rewrite !app_length. cbn [length]. lia.
  - change (256 ^ N.of_nat 2)%N with 65536%N. exact Hm.
  - change (256 ^ N.of_nat 2)%N with 65536%N. exact Hm'.
  - unfold rf_auth. rewrite !app_length, Hfc, Hd. cbn [length]. reflexivity.
  - unfold rf_auth. rewrite !app_length, Hfc', Hd'. cbn [length]. reflexivity.
Qed.

(** * Logitech Unifying *)

Lemma un_body_std_eq p : un_body false p =
  [u_dev p; u_ft p] ++ u_hid p ++ [u_unk p] ++ u_ctr p ++ u_unused p ++ u_extra p.
Proof. unfold un_body. rewrite app_nil_r. reflexivity. Qed.

(** re-dissecting the built bytes gives the frame back; only the checksum field now holds the
    computed checksum (which the next build does not use) *)
Lemma un_dissect_build : forall p,
  length (u_hid p) = 7 -> length (u_ctr p) = 4 -> length (u_unused p) = 7 ->
  un_dissect (un_build false p)
  = Some {| u_dev := u_dev p; u_ft := u_ft p; u_hid := u_hid p; u_unk := u_unk p; u_ctr := u_ctr p;
            u_unused := u_unused p; u_extra := u_extra p;
            u_cks := Some (un_checksum (un_body false p)) |}.
Proof.
  intros p Hh Hc Hu. unfold un_dissect, un_build.
  set (ck := un_checksum (un_body false p)). rewrite un_body_std_eq. cbn [app].
  set (mid := u_hid p ++ u_unk p :: u_ctr p ++ u_unused p ++ u_extra p).
  change ([u_unk p] ++ u_ctr p ++ u_unused p ++ u_extra p) with (u_unk p :: u_ctr p ++ u_unused p ++ u_extra p).
  fold mid.
  assert (Hlen : (length (u_dev p :: u_ft p :: mid ++ [ck]) <? 22) = false).
  { apply Nat.ltb_ge. cbn [length]. unfold mid. rewrite !app_length. cbn [length]. rewrite !app_length. lia. }
  rewrite Hlen.
  rewrite (drop_last_app 1 mid [ck] eq_refl).
  rewrite last_last.
  unfold mid.
  rewrite (firstn_app_exact 7 (u_hid p) _ Hh).
  assert (N7 : nth 7 (u_hid p ++ u_unk p :: u_ctr p ++ u_unused p ++ u_extra p) 0%N = u_unk p).
  { rewrite app_nth2 by lia. rewrite Hh. reflexivity. }
  rewrite N7.
  replace (u_hid p ++ u_unk p :: u_ctr p ++ u_unused p ++ u_extra p)
    with ((u_hid p ++ [u_unk p]) ++ u_ctr p ++ u_unused p ++ u_extra p)
    by (rewrite <- !app_assoc; reflexivity).
  assert (L8 : length (u_hid p ++ [u_unk p]) = 8) by (rewrite app_length; cbn [length]; lia).
  rewrite (skipn_app_exact 8 _ _ L8).
  rewrite (firstn_app_exact 4 (u_ctr p) _ Hc).
  replace ((u_hid p ++ [u_unk p]) ++ u_ctr p ++ u_unused p ++ u_extra p)
    with (((u_hid p ++ [u_unk p]) ++ u_ctr p) ++ u_unused p ++ u_extra p)
    by (rewrite <- !app_assoc; reflexivity).
  assert (L12 : length ((u_hid p ++ [u_unk p]) ++ u_ctr p) = 12) by (rewrite app_length; lia).
  rewrite (skipn_app_exact 12 _ _ L12).
  rewrite (firstn_app_exact 7 (u_unused p) _ Hu).
  replace (((u_hid p ++ [u_unk p]) ++ u_ctr p) ++ u_unused p ++ u_extra p)
    with ((((u_hid p ++ [u_unk p]) ++ u_ctr p) ++ u_unused p) ++ u_extra p)
    by (rewrite <- !app_assoc; reflexivity).
  assert (L19 : length ((((u_hid p ++ [u_unk p]) ++ u_ctr p) ++ u_unused p)) = 19) by (rewrite app_length; lia).
  rewrite (skipn_app_exact 19 _ _ L19).
  reflexivity.
Qed.

Lemma firstn7_nth7 (r : bytes) : length r = 8 -> firstn 7 r ++ [nth 7 r 0%N] = r.
Proof.
  intros H. do 8 (destruct r as [|? r]; [discriminate|]). destruct r; [reflexivity|discriminate].
Qed.

(** the built bytes do not depend on the value held by the checksum field *)
Lemma un_build_std_cks : forall p q,
  u_dev p = u_dev q -> u_ft p = u_ft q -> u_hid p = u_hid q -> u_unk p = u_unk q -> u_ctr p = u_ctr q ->
  u_unused p = u_unused q -> u_extra p = u_extra q -> un_build false p = un_build false q.
Proof.
  intros p q H1 H2 H3 H4 H5 H6 H7. unfold un_build. rewrite !un_body_std_eq.
  rewrite H1, H2, H3, H4, H5, H6, H7. reflexivity.
Qed.

Section UN_PROOFS.
  Variable E : bytes -> bytes -> bytes.
  Hypothesis E_length : forall k b, length (E k b) = 16.

  Definition un_vec (key ctr : bytes) : bytes := firstn 8 (E key (un_aes_in ctr)).

  Lemma un_vec_length key ctr : length (un_vec key ctr) = 8.
  Proof. unfold un_vec. rewrite firstn_length, E_length. reflexivity. Qed.

  (** one application: all fields kept, the 8 payload bytes xored with the keystream *)
  Lemma un_crypt_ok : forall key p, un_wf p ->
    let r := xor_bytes (un_vec key (u_ctr p)) (u_hid p ++ [u_unk p]) in
    un_crypt E std_variant key p =
    Ok {| u_dev := u_dev p; u_ft := u_ft p; u_hid := firstn 7 r; u_unk := nth 7 r 0%N; u_ctr := u_ctr p;
          u_unused := u_unused p; u_extra := u_extra p;
          u_cks := Some (un_checksum (un_body false p)) |}.
  Proof.
    intros key p (Hft & Hh & Hc & Hu) r. unfold un_crypt.
    rewrite Hft. cbn [N.eqb Pos.eqb negb std_variant v_legacy]. fold (un_vec key (u_ctr p)).
    assert (Hlt : (length (u_hid p ++ [u_unk p]) <? length (un_vec key (u_ctr p))) = false).
    { apply Nat.ltb_ge. rewrite un_vec_length, app_length. cbn [length]. lia. }
    rewrite Hlt. rewrite un_dissect_build by assumption. fold r. cbn [u_dev u_ft u_unused u_extra u_cks].
    rewrite Hft. reflexivity.
  Qed.

  Lemma un_r_length key p : length (u_hid p) = 7 ->
    length (xor_bytes (un_vec key (u_ctr p)) (u_hid p ++ [u_unk p])) = 8.
  Proof. intros Hh. rewrite xor_bytes_length, un_vec_length, app_length. cbn [length]. lia. Qed.

  (** ** decrypt(encrypt(frame)): every field is restored and the bytes are those of the frame *)
  Theorem un_self_inverse : forall key p, un_wf p ->
    exists q q',
      un_crypt E std_variant key p = Ok q /\ un_crypt E std_variant key q = Ok q' /\
      un_fields q' = un_fields p /\ un_build false q' = un_build false p.
  Proof.
    intros key p Hwf. pose proof (un_crypt_ok key p Hwf) as H1. cbv zeta in H1.
    destruct Hwf as (Hft & Hh & Hc & Hu).
    set (r := xor_bytes (un_vec key (u_ctr p)) (u_hid p ++ [u_unk p])) in *.
    assert (Hr : length r = 8) by (apply un_r_length; exact Hh).
    match type of H1 with _ = Ok ?Q => set (q := Q) in * end.
    assert (Hwfq : un_wf q).
    { unfold un_wf, q. cbn [u_ft u_hid u_ctr u_unused]. repeat split; try assumption.
      rewrite firstn_length. lia. }
    pose proof (un_crypt_ok key q Hwfq) as H2. cbv zeta in H2.
    assert (Hback : xor_bytes (un_vec key (u_ctr q)) (u_hid q ++ [u_unk q]) = u_hid p ++ [u_unk p]).
    { unfold q. cbn [u_ctr u_hid u_unk]. rewrite firstn7_nth7 by exact Hr. unfold r.
      rewrite (xor_bytes_comm (un_vec key (u_ctr p)) (u_hid p ++ [u_unk p])).
      rewrite xor_bytes_comm. apply xor_bytes_involutive_gen.
      rewrite un_vec_length, app_length. cbn [length]. lia. }
    rewrite Hback in H2.
    assert (F7 : firstn 7 (u_hid p ++ [u_unk p]) = u_hid p) by (apply firstn_app_exact; exact Hh).
    assert (N7 : nth 7 (u_hid p ++ [u_unk p]) 0%N = u_unk p).
    { rewrite app_nth2 by lia. rewrite Hh. reflexivity. }
    rewrite F7, N7 in H2.
    eexists. eexists. split; [exact H1|]. split; [exact H2|].
    split; [reflexivity|]. apply un_build_std_cks; reflexivity.
  Qed.

  (** the same through the wire: the receiver dissects the bytes and gets the encrypted frame's
      fields and bytes, so decrypt restores the original *)
  Lemma un_wire : forall q, un_wf q ->
    exists q1, un_dissect (un_build false q) = Some q1 /\ un_wf q1 /\ un_fields q1 = un_fields q /\
               un_build false q1 = un_build false q.
  Proof.
    intros q (Hft & Hh & Hc & Hu). eexists. split; [apply un_dissect_build; assumption|].
    split; [repeat split; assumption|]. split; [reflexivity|]. apply un_build_std_cks; reflexivity.
  Qed.
End UN_PROOFS.

(** Unifying: a frame that carries no encrypted keystroke payload: the dedicated
    MissingEncryptedKeystrokePayload, for every variant and key; nothing else is raised on frames
    whose fields have their fixed lengths *)
Theorem un_missing_payload_dedicated : forall (E : bytes -> bytes -> bytes) v key p,
  u_ft p <> 0xD3%N -> un_crypt E v key p = Raise MissingPayload.
Proof.
  intros E v key p H. unfold un_crypt. apply N.eqb_neq in H. rewrite H. reflexivity.
Qed.

Theorem un_only_dedicated_errors : forall (E : bytes -> bytes -> bytes),
  (forall k b, length (E k b) = 16) ->
  forall key p e, length (u_hid p) = 7 -> length (u_ctr p) = 4 -> length (u_unused p) = 7 ->
    un_crypt E std_variant key p = Raise e -> e = MissingPayload.
Proof.
  intros E HE key p e Hh Hc Hu H.
  destruct (N.eqb (u_ft p) 0xD3) eqn:Hft.
  - apply N.eqb_eq in Hft. rewrite (un_crypt_ok E HE key p) in H by (repeat split; assumption). discriminate.
  - apply N.eqb_neq in Hft. rewrite (un_missing_payload_dedicated E std_variant key p Hft) in H.
    injection H as <-. reflexivity.
Qed.

(** * Concrete witnesses (AES plugged in): the defects of the code before the fix: commits *)
Local Open Scope N_scope.

Definition wk_a : bytes := [0;1;2;3;4;5;6;7;8;9;10;11;12;13;14;15].
Definition wk_n : bytes := [16;17;18;19;20;21;22;23;24;25;26;27;28;29;30;31].
Definition wk_k : bytes := [32;33;34;35;36;37;38;39;40;41;42;43;44;45;46;47].
Definition w_keys : keys3 := (Some wk_k, Some wk_a, Some wk_n).

Definition w_up0 : lw_data :=
  {| d_mtype := 2; d_lo := 0; d_addr := 287454020; d_fhi := 8; d_fcnt := 7; d_fopts := [2];
     d_fport := 0; d_payload := [97;98;99]; d_mic := [0;0;0;0] |}.

Lemma w_up0_wf : lw_wf w_up0.
Proof. unfold lw_wf, w_up0. cbn. repeat split; lia. Qed.

(** uplink on port 0: the round trip returns the ciphertext *)
Lemma lw_legacy_port0_refuted :
  exists b, snd (lw_roundtrip legacy_variant w_keys w_keys (PData w_up0)) = Ok b /\
            drop_last 4 b <> drop_last 4 (build (PData w_up0)).
Proof. eexists. split; [vm_compute; reflexivity|]. vm_compute. discriminate. Qed.

Lemma lw_std_port0_ok :
  exists b, snd (lw_roundtrip std_variant w_keys w_keys (PData w_up0)) = Ok b /\
            drop_last 4 b = drop_last 4 (build (PData w_up0)).
Proof. eexists. split; vm_compute; reflexivity. Qed.

(** join accept with a non-zero Major: BadMICError on its own output *)
Lemma lw_legacy_join_mhdr_refuted :
  snd (lw_roundtrip legacy_variant w_keys w_keys (PJoin 1 [86;52;18;66;0;0;204;187;170;0;53;5] [0;0;0;0]))
  = Raise BadMICError.
Proof. vm_compute. reflexivity. Qed.

(** RF4CE: frame given with the security flag clear; scapy-built frame with mic = None;
    empty payload with no MIC ([:-0]) *)
Definition w_rf (fctl : N) (pl : bytes) (mic_none : bool) : rf_in :=
  {| r_pre := []; r_fctl := fctl; r_fc := [4;3;2;1]; r_hdr := [192;52;18]; r_payload := pl; r_mic := [0;0;0;0];
     r_mic_none := mic_none; r_has_layer := true;
     r_src := Some [136;119;102;85;68;51;34;17]; r_dst := Some [0;255;238;221;204;187;170;153]; r_has_mac := false |}.

Definition rf_rt_accepted (v : variant) (x : rf_in) : bool :=
  match snd (rf_roundtrip v wk_a wk_a x (r_src x) (r_dst x)) with RTuple _ true => true | _ => false end.

Lemma rf_legacy_sec0_refuted : rf_rt_accepted legacy_variant (w_rf 169 [65] true) = false.
Proof. vm_compute. reflexivity. Qed.

Lemma rf_legacy_mic_none_refuted : rf_rt_accepted legacy_variant (w_rf 173 [65] true) = false.
Proof. vm_compute. reflexivity. Qed.

Lemma rf_legacy_crop0_refuted :
  exists w, rf_encrypt aes128_enc legacy_variant wk_a (w_rf 169 [] true) = RPkt w /\ length w = 4%nat.
Proof. eexists. split; vm_compute; reflexivity. Qed.

Lemma rf_std_witnesses_ok :
  rf_rt_accepted std_variant (w_rf 169 [65] true) = true /\
  rf_rt_accepted std_variant (w_rf 173 [65] true) = true /\
  rf_rt_accepted std_variant (w_rf 169 [] true) = true.
Proof. vm_compute. repeat split. Qed.

(** ** RF4CE: an accepted frame stays accepted when its profile / vendor id bytes or its reserved
    bit are modified (known findings) *)
Definition w_rf_wire : option rf_in :=
  match rf_encrypt aes128_enc std_variant wk_a (w_rf 173 [65] true) with
  | RPkt w => rf_parse 0 (r_src (w_rf 173 [65] true)) (r_dst (w_rf 173 [65] true)) false w
  | _ => None
  end.

Definition rf_any_header_change_rejected_statement : Prop :=
  forall key x h, rf_sec (r_fctl x) = true -> length h = length (r_hdr x) -> h <> r_hdr x ->
    rf_accepts aes128_enc key x = true -> rf_accepts aes128_enc key (with_hdr x h) = false.

Lemma rf_hdr_tamper_accepted :
  exists x h, w_rf_wire = Some x /\ rf_sec (r_fctl x) = true /\ length h = length (r_hdr x) /\ h <> r_hdr x /\
              rf_accepts aes128_enc wk_a x = true /\ rf_accepts aes128_enc wk_a (with_hdr x h) = true.
Proof.
  eexists. exists [1;2;3]. split; [vm_compute; reflexivity|].
  split; [vm_compute; reflexivity|]. split; [reflexivity|]. split; [cbn; discriminate|].
  split; vm_compute; reflexivity.
Qed.

Lemma rf_any_header_change_rejected_refuted : ~ rf_any_header_change_rejected_statement.
Proof.
  intros H. destruct rf_hdr_tamper_accepted as (x & h & _ & Hs & Hl & Hne & Ha & Hb).
  rewrite (H wk_a x h Hs Hl Hne Ha) in Hb. discriminate.
Qed.

Definition rf_reserved_bit_change_rejected_statement : Prop :=
  forall key x, rf_sec (r_fctl x) = true ->
    rf_accepts aes128_enc key x = true -> rf_accepts aes128_enc key (with_fctl x (N.lxor (r_fctl x) 32)) = false.

Lemma rf_reserved_tamper_accepted :
  exists x, w_rf_wire = Some x /\ rf_sec (r_fctl x) = true /\
            rf_accepts aes128_enc wk_a x = true /\
            rf_accepts aes128_enc wk_a (with_fctl x (N.lxor (r_fctl x) 32)) = true.
Proof.
  eexists. split; [vm_compute; reflexivity|]. split; [vm_compute; reflexivity|].
  split; vm_compute; reflexivity.
Qed.

Lemma rf_reserved_bit_change_rejected_refuted : ~ rf_reserved_bit_change_rejected_statement.
Proof.
  intros H. destruct rf_reserved_tamper_accepted as (x & _ & Hs & Ha & Hb).
  rewrite (H wk_a x Hs Ha) in Hb. discriminate.
Qed.

(** ** Unifying, code before the fix of Logitech_Unifying_Hdr.post_build: the frame grows *)
Definition w_un : un_frame :=
  {| u_dev := 3; u_ft := 0xD3; u_hid := [0;4;0;0;0;0;0]; u_unk := 0xC9; u_ctr := [1;2;3;4];
     u_unused := [0;0;0;0;0;0;0]; u_extra := []; u_cks := None |}.

Lemma w_un_wf : un_wf w_un.
Proof. repeat split. Qed.

Lemma un_legacy_grows_refuted :
  exists b, snd (fst (un_roundtrip legacy_variant wk_a wk_a w_un)) = Ok b /\
            b <> un_build true w_un /\ length b = (length (un_build true w_un) + 2)%nat.
Proof. eexists. split; [vm_compute; reflexivity|]. split; [vm_compute; discriminate|vm_compute; reflexivity]. Qed.

Lemma un_std_witness_ok :
  snd (fst (un_roundtrip std_variant wk_a wk_a w_un)) = Ok (un_build false w_un) /\
  snd (un_roundtrip std_variant wk_a wk_a w_un) = Ok (un_build false w_un).
Proof. split; vm_compute; reflexivity. Qed.

(** non-vacuity: AES satisfies the Section hypotheses on the FIPS-197 vectors, and the concrete
    witnesses go through the repaired model *)
Lemma aes_inverse_on_fips_vector :
  aes128_enc fips197_B_key (aes128_dec fips197_B_key fips197_B_ct) = fips197_B_ct /\
  aes128_enc fips197_C1_key (aes128_dec fips197_C1_key fips197_C1_ct) = fips197_C1_ct.
Proof. split; vm_compute; reflexivity. Qed.
