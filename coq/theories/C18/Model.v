(** C18 — executable model of the frame protection of three protocols:
    - whad/lorawan/crypto.py : MIC, MIC_Uplink/MIC_Downlink, encrypt_frame, encrypt_fopts,
      encrypt_packet / decrypt_packet per MType (join accept, data up/down, others);
    - whad/rf4ce/crypto.py   : RF4CECryptoManager nonce / auth / payload extraction,
      encrypt / decrypt (AES-CCM, M = 4, L = 2), with the slice arithmetic as written;
    - whad/unifying/crypto.py: LogitechUnifyingCryptoManager (AES keystream xor of the 8-byte
      keystroke payload) on top of the Logitech_Unifying_Hdr build / dissect of
      whad/scapy/layers/unifying.py.
    The block cipher is a Section variable ([E], and [D] for the join accept which the code
    encrypts with the AES *decrypt* direction); [aes128_enc]/[aes128_dec] are plugged in
    only by the correspondence entry points at the end.
    The flag [legacy] selects the code as it was before the [fix:] commits recorded for this
    property (used for the refutation lemmas and the seeded reverts); [legacy = false] is
    the code under verification.  No proofs in this file. *)
From Coq Require Import List NArith Arith Bool.
From Whad Require Import Lib.Bytes Lib.Xor Lib.Aes Lib.Ccm Lib.Cmac.
Import ListNotations.

(** Python exception classes that can leave the modelled functions. *)
Inductive exn :=
| MissingKeyError      (* whad.lorawan.exceptions.MissingKeyError *)
| BadMICError          (* whad.lorawan.exceptions.BadMICError *)
| AttributeError
| StructError          (* struct.error *)
| ValueError           (* Cryptodome: data not aligned to the block size in ECB mode *)
| IndexError
| MissingPayload       (* whad.unifying.exceptions.MissingEncryptedKeystrokePayload *)
| MissingSecurityFlag  (* whad.rf4ce.exceptions.MissingRF4CESecurityFlag *)
| MissingHeader        (* whad.rf4ce.exceptions.MissingRF4CEHeader *)
| OtherExn.

Inductive outcome (A : Type) :=
| Ok (a : A)
| Raise (e : exn).
Arguments Ok {A} a.
Arguments Raise {A} e.

Definition exn_eqb (a b : exn) : bool :=
  match a, b with
  | MissingKeyError, MissingKeyError | BadMICError, BadMICError | AttributeError, AttributeError
  | StructError, StructError | ValueError, ValueError | IndexError, IndexError
  | MissingPayload, MissingPayload | OtherExn, OtherExn
  | MissingSecurityFlag, MissingSecurityFlag | MissingHeader, MissingHeader => true
  | _, _ => false
  end.

Definition bytes_outcome_eqb (a b : outcome bytes) : bool :=
  match a, b with
  | Ok x, Ok y => bytes_eqb x y
  | Raise e, Raise f => exn_eqb e f
  | _, _ => false
  end.

(** Python [b[:-n]] and [b[-n:]] for 0 < n <= len(b) (callers guarantee n > 0). *)
Definition drop_last (n : nat) (b : bytes) : bytes := firstn (length b - n) b.
Definition take_last (n : nat) (b : bytes) : bytes := skipn (length b - n) b.

(** ------------------------------------------------------------------------------------ *)
(** * LoRaWAN                                                                             *)
(** ------------------------------------------------------------------------------------ *)

(** pack('<BIBIIBB', first, 0, dir, dev_addr, fcnt, 0, last) *)
Definition lw_block (first dir addr fcnt last : N) : bytes :=
  [first; 0; 0; 0; 0; dir]%N ++ le32 addr ++ le32 fcnt ++ [0%N; last].

(** number of A_i blocks: int(len/16), plus one when len % 16 > 0 *)
Definition lw_nblocks (len : nat) : nat :=
  len / 16 + (if Nat.eqb (len mod 16) 0 then 0 else 1).

Record lw_data := {
  d_mtype : N;        (* 2, 3, 4, 5 *)
  d_lo : N;           (* RFU (3 bits) and Major (2 bits) of the MHDR *)
  d_addr : N;         (* DevAddr, 32 bits *)
  d_fhi : N;          (* ADR, ADRACKReq, ACK, ClassB/FPending: high nibble of FCtrl *)
  d_fcnt : N;         (* 16 bits *)
  d_fopts : bytes;    (* 0..15 bytes; FOptsLen = length *)
  d_fport : N;
  d_payload : bytes;
  d_mic : bytes       (* the 4 bytes of the FCSField *)
}.

Inductive packet :=
| PJoin (lo : N) (body mic : bytes)             (* MType 1: JoinAccept fields (+ CFList) *)
| PData (d : lw_data)                           (* MType 2..5 *)
| POther (mtype lo : N) (body mic : bytes).     (* MType 0, 6, 7 *)

Definition is_uplink (mt : N) : bool := N.eqb mt 2 || N.eqb mt 4.
Definition dir_of (mt : N) : N := if is_uplink mt then 0%N else 1%N.

(** bytes(packet)[:-4] of a data frame: MHDR | DevAddr | FCtrl | FCnt | FOpts | FPort | FRMPayload *)
Definition data_nomic (d : lw_data) : bytes :=
  [(d_mtype d * 32 + d_lo d)%N] ++ le32 (d_addr d)
  ++ [(d_fhi d * 16 + N.of_nat (length (d_fopts d)))%N] ++ le16 (d_fcnt d)
  ++ d_fopts d ++ [d_fport d] ++ d_payload d.

Definition build (p : packet) : bytes :=
  match p with
  | PJoin lo b m => (32 + lo)%N :: b ++ m
  | PData d => data_nomic d ++ d_mic d
  | POther mt lo b m => (mt * 32 + lo)%N :: b ++ m
  end.

(** PHYPayload(bytes): None = outside the modelled domain (frame too short for its own
    length fields; scapy then dissects partially). *)
Definition dissect (b : bytes) : option packet :=
  match b with
  | [] => None
  | h :: rest =>
    let mt := N.div h 32 in
    let lo := N.modulo h 32 in
    if length rest <? 4 then None else
    let body := drop_last 4 rest in
    let mic := take_last 4 rest in
    if N.eqb mt 1 then Some (PJoin lo body mic)
    else if (N.leb 2 mt && N.leb mt 5)%bool then
      match body with
      | a0 :: a1 :: a2 :: a3 :: fc :: c0 :: c1 :: r2 =>
        let fl := N.to_nat (N.modulo fc 16) in
        if length r2 <? fl + 1 then None else
        Some (PData {| d_mtype := mt; d_lo := lo;
                       d_addr := (a0 + 256 * a1 + 65536 * a2 + 16777216 * a3)%N;
                       d_fhi := N.div fc 16; d_fcnt := (c0 + 256 * c1)%N;
                       d_fopts := firstn fl r2; d_fport := nth fl r2 0%N;
                       d_payload := skipn (fl + 1) r2; d_mic := mic |})
      | _ => None
      end
    else Some (POther mt lo body mic)
  end.

Definition with_mic (d : lw_data) (m : bytes) : lw_data :=
  {| d_mtype := d_mtype d; d_lo := d_lo d; d_addr := d_addr d; d_fhi := d_fhi d; d_fcnt := d_fcnt d;
     d_fopts := d_fopts d; d_fport := d_fport d; d_payload := d_payload d; d_mic := m |}.

Definition with_fopts_payload (d : lw_data) (fo pl : bytes) : lw_data :=
  {| d_mtype := d_mtype d; d_lo := d_lo d; d_addr := d_addr d; d_fhi := d_fhi d; d_fcnt := d_fcnt d;
     d_fopts := fo; d_fport := d_fport d; d_payload := pl; d_mic := d_mic d |}.

(** Variants used by the seeded mutation experiments (model-side description of each
    mutation; the code under verification is [std_variant]). *)
Record variant := {
  v_legacy : bool;        (* code before the fix: commits *)
}.
Definition std_variant : variant := {| v_legacy := false |}.
Definition legacy_variant : variant := {| v_legacy := true |}.

Section LORAWAN.
  Variable E D : bytes -> bytes -> bytes.   (* AES-128 cipher and inverse cipher: key -> block -> block *)

  (** MIC(key, buffer) = CMAC(key, buffer)[:4] *)
  Definition lw_mic (key buf : bytes) : bytes := firstn 4 (cmac E key buf).

  (** MIC_Uplink (dir = 0) / MIC_Downlink (dir = 1): B0 | frame; struct.error when
      len(frame) does not fit the 'B' field. *)
  Definition lw_mic_input (dir addr fcnt : N) (frame : bytes) : bytes :=
    lw_block 0x49 dir addr fcnt (N.of_nat (length frame)) ++ frame.

  Definition lw_mic_dir (dir : N) (key : bytes) (addr fcnt : N) (frame : bytes) : outcome bytes :=
    if 256 <=? length frame then Raise StructError
    else Ok (lw_mic key (lw_mic_input dir addr fcnt frame)).

  (** encrypt_frame: keystream S = E(A_1) | E(A_2) | ..., A_i ends with the block index i *)
  Definition lw_keystream (key : bytes) (dir addr fcnt : N) (nb : nat) : bytes :=
    flat_map (fun i => E key (lw_block 1 dir addr fcnt (N.of_nat i))) (seq 1 nb).

  Definition encrypt_frame (key : bytes) (dir addr fcnt : N) (frame : bytes) : bytes :=
    xor_bytes frame (lw_keystream key dir addr fcnt (lw_nblocks (length frame))).

  (** encrypt_fopts: one block A_0 (index 0) *)
  Definition encrypt_fopts (key : bytes) (dir addr fcnt : N) (fopts : bytes) : bytes :=
    xor_bytes fopts (E key (lw_block 1 dir addr fcnt 0)).

  (** AES.new(key, MODE_ECB).encrypt / .decrypt *)
  Definition ecb (F : bytes -> bytes -> bytes) (key data : bytes) : outcome bytes :=
    if Nat.eqb (length data mod 16) 0 then Ok (flat_map (F key) (chunks16 data))
    else Raise ValueError.

  (** -- encrypt_packet ------------------------------------------------------------- *)

  Definition enc_join (legacy : bool) (appkey : bytes) (lo : N) (body : bytes) : outcome packet :=
    let mhdr := (32 + lo)%N in
    let ja_data := mhdr :: body in                      (* bytes(packet)[:-4] *)
    let mic := lw_mic appkey ja_data in
    match ecb D appkey (body ++ mic) with               (* c.decrypt(bytes(packet)[1:-4] + mic) *)
    | Raise e => Raise e
    | Ok enc =>
      (* PHYPayload(b'\x20' + enc_ja) before the fix; bytes(packet)[0:1] + enc_ja now *)
      Ok (PJoin (if legacy then 0%N else lo) (drop_last 4 enc) (take_last 4 enc))
    end.

  Definition enc_data (appskey nwkskey : bytes) (d : lw_data) : outcome packet :=
    let dir := dir_of (d_mtype d) in
    let fo := encrypt_fopts appskey dir (d_addr d) (d_fcnt d) (d_fopts d) in
    let pl := encrypt_frame (if N.eqb (d_fport d) 0 then nwkskey else appskey)
                            dir (d_addr d) (d_fcnt d) (d_payload d) in
    let d' := with_fopts_payload d fo pl in
    match lw_mic_dir dir nwkskey (d_addr d) (d_fcnt d) (data_nomic d') with
    | Raise e => Raise e
    | Ok m => Ok (PData (with_mic d' m))
    end.

  Definition encrypt_packet (v : variant) (appkey appskey nwkskey : option bytes) (p : packet)
    : outcome packet :=
    match p with
    | PJoin lo body _ =>
      match appkey with
      | Some k => enc_join (v_legacy v) k lo body
      | None => Raise MissingKeyError
      end
    | PData d =>
      match nwkskey, appskey with
      | Some n, Some a => enc_data a n d
      | _, _ => Raise MissingKeyError
      end
    | POther _ _ _ _ => Ok p                               (* "not supported yet": returned as is *)
    end.

  (** -- decrypt_packet ------------------------------------------------------------- *)

  Definition dec_join (appkey : bytes) (lo : N) (body mic : bytes) : outcome packet :=
    match ecb E appkey (body ++ mic) with               (* c.encrypt(bytes(packet)[1:]) *)
    | Raise e => Raise e
    | Ok dec =>
      let ja_data := (32 + lo)%N :: drop_last 4 dec in
      let exp := lw_mic appkey ja_data in
      let m := take_last 4 dec in
      if bytes_eqb exp m then Ok (PJoin lo (drop_last 4 dec) m) else Raise BadMICError
    end.

  Definition dec_data (legacy : bool) (appskey nwkskey : bytes) (d : lw_data) : outcome packet :=
    let up := is_uplink (d_mtype d) in
    let dir := dir_of (d_mtype d) in
    (* before the fix the downlink branch fetched MACPayloadUplink: None.dev_addr *)
    if (legacy && negb up)%bool then Raise AttributeError else
    match lw_mic_dir dir nwkskey (d_addr d) (d_fcnt d) (data_nomic d) with
    | Raise e => Raise e
    | Ok exp =>
      if bytes_eqb exp (d_mic d) then
        let fo := encrypt_fopts appskey dir (d_addr d) (d_fcnt d) (d_fopts d) in
        let pl :=
          if N.eqb (d_fport d) 0 then
            (* before the fix the uplink branch computed this value and dropped it *)
            if (legacy && up)%bool then d_payload d
            else encrypt_frame nwkskey dir (d_addr d) (d_fcnt d) (d_payload d)
          else encrypt_frame appskey dir (d_addr d) (d_fcnt d) (d_payload d) in
        Ok (PData (with_fopts_payload d fo pl))
      else Raise BadMICError
    end.

  Definition decrypt_packet (v : variant) (appkey appskey nwkskey : option bytes) (p : packet)
    : outcome packet :=
    match p with
    | PJoin lo body mic =>
      match appkey with
      | Some k => dec_join k lo body mic
      | None => Raise MissingKeyError
      end
    | PData d =>
      match nwkskey, appskey with
      | Some n, Some a => dec_data (v_legacy v) a n d
      | _, _ => Raise MissingKeyError
      end
    | POther _ _ _ _ => Ok p
    end.

  (** "a MIC was verified for this packet under these keys" (what returning normally
      from decrypt_packet is supposed to mean) *)
  Definition lw_mic_verified (appkey appskey nwkskey : option bytes) (p : packet) : Prop :=
    match p with
    | PJoin lo body mic =>
      exists k dec, appkey = Some k /\ ecb E k (body ++ mic) = Ok dec /\
                    take_last 4 dec = lw_mic k ((32 + lo)%N :: drop_last 4 dec)
    | PData d =>
      exists n, nwkskey = Some n /\
                lw_mic_dir (dir_of (d_mtype d)) n (d_addr d) (d_fcnt d) (data_nomic d) = Ok (d_mic d)
    | POther _ _ _ _ => False
    end.
End LORAWAN.

(** well-formed data frame: field ranges of the scapy layer, PHY length within the 'B' field *)
Definition lw_wf (d : lw_data) : Prop :=
  (2 <= d_mtype d <= 5)%N /\ (d_lo d < 32)%N /\ (d_addr d < 4294967296)%N /\ (d_fhi d < 16)%N /\
  (d_fcnt d < 65536)%N /\ length (d_fopts d) <= 15 /\ (d_fport d < 256)%N /\
  9 + length (d_fopts d) + length (d_payload d) <= 255 /\ length (d_mic d) = 4.

(** ------------------------------------------------------------------------------------ *)
(** * RF4CE                                                                               *)
(** ------------------------------------------------------------------------------------ *)

(** What the manager is given: a scapy packet, seen through its bytes.
    bytes(packet) = r_pre ++ [r_fctl] ++ r_fc ++ r_hdr ++ r_payload ++ (MIC field when the
    security bit of r_fctl is set). *)
Record rf_in := {
  r_pre : bytes;            (* 802.15.4 MAC header in front of the NWK frame ([] with rf4ce_only) *)
  r_fctl : N;               (* NWK frame control byte *)
  r_fc : bytes;             (* frame counter, 4 bytes little endian *)
  r_hdr : bytes;            (* profile id + vendor id (3 bytes) of data / vendor frames, else [] *)
  r_payload : bytes;        (* what extractPlaintextPayload / extractCiphertextPayload return *)
  r_mic : bytes;            (* the 4 bytes of the mic field as built (zeros when unset) *)
  r_mic_none : bool;        (* legacy only: packet.mic is None *)
  r_has_layer : bool;       (* legacy only: a scapy layer exists at the payload position *)
  r_src : option bytes;     (* effective source: argument, else the packet's long address *)
  r_dst : option bytes;
  r_has_mac : bool          (* the packet has a Dot15d4 layer (fcf_srcaddrmode exists) *)
}.

(** Where the 8-byte source and destination of nonce and authenticated header come from
    (generateNonce / generateAuth): the caller's argument when given, else the 802.15.4 header of
    the packet when the corresponding addressing mode is "long" (3); otherwise there is none and
    the outcome is (packet, False). [None] as header = the packet has no 802.15.4 layer
    (rf4ce_only). Short addresses and absent address fields never provide an address. *)
Inductive addr_mode :=
| AMNone                      (* addressing mode 0: field absent *)
| AMShort (a : bytes)         (* mode 2: 16-bit address *)
| AMLong (a : bytes).         (* mode 3: 64-bit address, little endian as pack("<Q", ...) *)

Definition rf_header_long (h : option addr_mode) : option bytes :=
  match h with Some (AMLong a) => Some a | _ => None end.

Definition rf_resolve (arg : option bytes) (h : option addr_mode) : option bytes :=
  match arg with Some a => Some a | None => rf_header_long h end.

Inductive rf_out :=
| RPkt (b : bytes)                  (* encrypt: the packet *)
| RTuple (b : bytes) (ok : bool)    (* (packet, flag) *)
| RRaise (e : exn).

Definition rf_out_eqb (a b : rf_out) : bool :=
  match a, b with
  | RPkt x, RPkt y => bytes_eqb x y
  | RTuple x o, RTuple y p => bytes_eqb x y && Bool.eqb o p
  | RRaise e, RRaise f => exn_eqb e f
  | _, _ => false
  end.

Definition rf_sec (fctl : N) : bool := N.testbit fctl 2.
Definition rf_ftype (fctl : N) : N := N.land fctl 3.
Definition rf_dv (fctl : N) : bool := N.eqb (rf_ftype fctl) 1 || N.eqb (rf_ftype fctl) 3.

(** bytes(packet[RF4CE_Hdr:]) — post_build moves the MIC to the end *)
Definition rf_nwk (fctl : N) (fc hdr payload mic : bytes) : bytes :=
  [fctl] ++ fc ++ hdr ++ payload ++ (if rf_sec fctl then mic else []).

(** RF4CE_Hdr(bytes) / Dot15d4(bytes) of a frame whose MAC header has [npre] bytes.
    None = too short for its own header (outside the modelled domain). *)
Definition rf_parse (npre : nat) (src dst : option bytes) (has_mac : bool) (w : bytes) : option rf_in :=
  let pre := firstn npre w in
  match skipn npre w with
  | [] => None
  | fctl :: rest =>
    let hl := if rf_dv fctl then 3 else 0 in
    let ml := if rf_sec fctl then 4 else 0 in
    if length rest <? 4 + hl + ml then None else
    Some {| r_pre := pre; r_fctl := fctl; r_fc := firstn 4 rest;
            r_hdr := firstn hl (skipn 4 rest);
            r_payload := firstn (length rest - 4 - hl - ml) (skipn (4 + hl) rest);
            r_mic := skipn (length rest - ml) rest;
            r_mic_none := negb (rf_sec fctl);
            r_has_layer := negb (Nat.eqb (length rest - 4 - hl - ml) 0);
            r_src := src; r_dst := dst; r_has_mac := has_mac |}
  end.

(** the packet [x] with the addresses the manager will use, given the caller's arguments and the
    addressing of the 802.15.4 header *)
Definition rf_with_addrs (x : rf_in) (asrc adst : option bytes) (hsrc hdst : option addr_mode) : rf_in :=
  {| r_pre := r_pre x; r_fctl := r_fctl x; r_fc := r_fc x; r_hdr := r_hdr x; r_payload := r_payload x;
     r_mic := r_mic x; r_mic_none := r_mic_none x; r_has_layer := r_has_layer x;
     r_src := rf_resolve asrc hsrc; r_dst := rf_resolve adst hdst;
     r_has_mac := match hsrc with Some _ => true | None => false end |}.

Section RF4CE.
  Variable E : bytes -> bytes -> bytes.

  (** generateNonce: source (8) | frame counter (4) | security level 5 *)
  Definition rf_nonce (src fc : bytes) : bytes := src ++ fc ++ [5%N].
  (** generateAuth: first 5 bytes of the NWK frame | destination (8) *)
  Definition rf_auth (fctl : N) (fc dst : bytes) : bytes := [fctl] ++ fc ++ dst.

  Definition rf_encrypt (v : variant) (key : bytes) (x : rf_in) : rf_out :=
    let legacy := v_legacy v in
    let f0 := N.lor (r_fctl x) 32 in                     (* packet.reserved = 1 *)
    let fa := if legacy then f0 else N.lor f0 4 in       (* fix: security flag set first *)
    (* no usable address: (packet, False); before the fix a bare RF4CE frame (no 802.15.4
       layer) raised AttributeError on packet.fcf_srcaddrmode *)
    match r_src x with
    | None => if (r_has_mac x || negb legacy)%bool
              then RTuple (r_pre x ++ rf_nwk (if legacy then r_fctl x else fa) (r_fc x) (r_hdr x) (r_payload x) (r_mic x)) false
              else RRaise AttributeError
    | Some src =>
      match r_dst x with
      | None => if (r_has_mac x || negb legacy)%bool
                then RTuple (r_pre x ++ rf_nwk fa (r_fc x) (r_hdr x) (r_payload x) (r_mic x)) false
                else RRaise AttributeError
      | Some dst =>
        if (legacy && negb (r_has_layer x))%bool then RRaise IndexError else
        let pt := r_payload x in
        let ctag := ccm_encrypt E 4 2 key (rf_nonce src (r_fc x)) (rf_auth fa (r_fc x) dst) pt in
        let full := r_pre x ++ rf_nwk fa (r_fc x) (r_hdr x) pt (r_mic x) in       (* bytes(packet) *)
        let crop := if legacy then length pt + (if r_mic_none x then 0 else 4) else length pt + 4 in
        (* bytes(packet)[:-cropping_length]; [:-0] is the empty string *)
        let header := if Nat.eqb crop 0 then [] else drop_last crop full in
        let out := header ++ fst ctag ++ snd ctag in
        if (legacy && negb (rf_sec (r_fctl x)) && negb (Nat.eqb crop 0))%bool then
          (* the frame is re-dissected with its security bit clear, then the bit is set:
             the MIC field (None) is built as four zero bytes after everything else *)
          RPkt (firstn (length (r_pre x)) out ++ [N.lor f0 4] ++ skipn (S (length (r_pre x))) out
                ++ [0;0;0;0]%N)
        else RPkt out
      end
    end.

  Definition rf_decrypt (v : variant) (key : bytes) (x : rf_in) : rf_out :=
    let legacy := v_legacy v in
    let f0 := N.lor (r_fctl x) 32 in
    (* a frame whose security flag is clear has no MIC: MissingRF4CESecurityFlag, before anything
       else (before the fix the check was commented out and pack("<I", None) raised struct.error) *)
    if (negb legacy && negb (rf_sec (r_fctl x)))%bool then RRaise MissingSecurityFlag else
    match r_src x with
    | None => if (r_has_mac x || negb legacy)%bool
              then RTuple (r_pre x ++ rf_nwk (if r_has_mac x then r_fctl x else f0) (r_fc x) (r_hdr x) (r_payload x) (r_mic x)) false
              else RRaise AttributeError
    | Some src =>
      match r_dst x with
      | None => if (r_has_mac x || negb legacy)%bool
                then RTuple (r_pre x ++ rf_nwk f0 (r_fc x) (r_hdr x) (r_payload x) (r_mic x)) false
                else RRaise AttributeError
      | Some dst =>
        if (legacy && negb (r_has_layer x))%bool then RRaise IndexError else
        if negb (rf_sec (r_fctl x)) then RRaise StructError      (* legacy only: pack("<I", None) *)
        else
          let ct := r_payload x in
          let full := r_pre x ++ rf_nwk f0 (r_fc x) (r_hdr x) ct (r_mic x) in
          match ccm_decrypt E 4 2 key (rf_nonce src (r_fc x)) (rf_auth f0 (r_fc x) dst) ct (r_mic x) with
          | Some pt => RTuple (drop_last (4 + length ct) full ++ pt ++ r_mic x) true
          | None => RTuple full false
          end
      end
    end.

  (** the packet handed to the manager may have no RF4CE_Hdr layer at all (802.15.4 frame
      without NWK payload): MissingRF4CEHeader *)
  Definition rf_encrypt_top (v : variant) (key : bytes) (o : option rf_in) : rf_out :=
    match o with None => RRaise MissingHeader | Some x => rf_encrypt v key x end.
  Definition rf_decrypt_top (v : variant) (key : bytes) (o : option rf_in) : rf_out :=
    match o with None => RRaise MissingHeader | Some x => rf_decrypt v key x end.
End RF4CE.

Definition rf_wf (x : rf_in) : Prop :=
  length (r_fc x) = 4 /\ length (r_mic x) = 4 /\
  length (r_hdr x) = (if rf_dv (r_fctl x) then 3 else 0).

(** ------------------------------------------------------------------------------------ *)
(** * Logitech Unifying                                                                   *)
(** ------------------------------------------------------------------------------------ *)

Record un_frame := {
  u_dev : N;
  u_ft : N;                 (* 0xD3 = encrypted keystroke *)
  u_hid : bytes;            (* 7 bytes *)
  u_unk : N;
  u_ctr : bytes;            (* aes_counter, 4 bytes big endian *)
  u_unused : bytes;         (* 7 bytes *)
  u_extra : bytes;          (* Raw layer after the keystroke payload *)
  u_cks : option N          (* value of the FCSField "checksum" (None = unset) *)
}.

(** Logitech_Unifying_Hdr.post_build: 0xFF - sum, plus one *)
Definition un_checksum (b : bytes) : N :=
  N.modulo (fold_left (fun c x => N.modulo (c + 256 - N.modulo x 256) 256) b 255%N + 1) 256.

(** bytes(frame). The FCSField value is appended to the payload by scapy's trailer mechanism;
    post_build now REPLACES that byte by the checksum computed over everything before it
    (fix "Logitech_Unifying_Hdr.post_build replaces the checksum trailer"). Before that fix
    ([legacy]) the stale value was kept and a fresh checksum appended after it, so every
    rebuild of a dissected frame grew by one byte. *)
Definition un_body (legacy : bool) (p : un_frame) : bytes :=
  [u_dev p; u_ft p] ++ u_hid p ++ [u_unk p] ++ u_ctr p ++ u_unused p ++ u_extra p
  ++ (if legacy then [match u_cks p with Some c => c | None => 0%N end] else []).
Definition un_build (legacy : bool) (p : un_frame) : bytes :=
  un_body legacy p ++ [un_checksum (un_body legacy p)].

(** Logitech_Unifying_Hdr(bytes) for an encrypted keystroke frame of at least 22 bytes *)
Definition un_dissect (b : bytes) : option un_frame :=
  if length b <? 22 then None else
  match b with
  | dev :: ft :: rest =>
    let mid := drop_last 1 rest in
    Some {| u_dev := dev; u_ft := ft; u_hid := firstn 7 mid; u_unk := nth 7 mid 0%N;
            u_ctr := firstn 4 (skipn 8 mid); u_unused := firstn 7 (skipn 12 mid);
            u_extra := skipn 19 mid; u_cks := Some (last rest 0%N) |}
  | _ => None
  end.

(** generateAESInputData *)
Definition un_aes_in (ctr : bytes) : bytes :=
  [0x04; 0x14; 0x1d; 0x1f; 0x27; 0x28; 0x0d]%N ++ ctr ++ [0x0a; 0x0d; 0x13; 0x26; 0x0e]%N.

Definition un_fields (p : un_frame) := (u_dev p, u_ft p, u_hid p, u_unk p, u_ctr p, u_unused p).

Section UNIFYING.
  Variable E : bytes -> bytes -> bytes.

  (** encrypt() and decrypt() are the same code: payload xor E(key, aes_in)[:8], written
      into copy(packet) — and copy.copy of a scapy packet is cls(bytes(packet)). *)
  Definition un_crypt (v : variant) (key : bytes) (p : un_frame) : outcome un_frame :=
    if negb (N.eqb (u_ft p) 0xD3) then Raise MissingPayload else
    let payload := u_hid p ++ [u_unk p] in
    let vector := firstn 8 (E key (un_aes_in (u_ctr p))) in
    if length payload <? length vector then Raise IndexError else
    let r := xor_bytes vector payload in
    match un_dissect (un_build (v_legacy v) p) with
    | None => Raise OtherExn
    | Some q =>
      Ok {| u_dev := u_dev q; u_ft := u_ft q; u_hid := firstn 7 r; u_unk := nth 7 r 0%N;
            u_ctr := u_ctr p; u_unused := u_unused q; u_extra := u_extra q; u_cks := u_cks q |}
    end.
End UNIFYING.

Definition un_wf (p : un_frame) : Prop :=
  u_ft p = 0xD3%N /\ length (u_hid p) = 7 /\ length (u_ctr p) = 4 /\ length (u_unused p) = 7.

(** ------------------------------------------------------------------------------------ *)
(** * Correspondence entry points (evaluated by the harness with AES plugged in)          *)
(** ------------------------------------------------------------------------------------ *)

Definition keys3 := (option bytes * option bytes * option bytes)%type.

Definition lw_enc (v : variant) (k : keys3) (p : packet) : outcome packet :=
  let '(a, s, n) := k in encrypt_packet aes128_enc aes128_dec v a s n p.
Definition lw_dec (v : variant) (k : keys3) (p : packet) : outcome packet :=
  let '(a, s, n) := k in decrypt_packet aes128_enc v a s n p.

Definition out_bytes (o : outcome packet) : outcome bytes :=
  match o with Ok p => Ok (build p) | Raise e => Raise e end.

(** What the driver does: encrypt the frame; if that succeeded serialise, re-dissect and
    decrypt with [dk], else decrypt the frame itself. Packets of the [POther] kind are
    compared on the outcome class only (scapy pads short JoinRequest bodies). *)
Definition lw_roundtrip (v : variant) (ek dk : keys3) (p : packet) : outcome bytes * outcome bytes :=
  let e := lw_enc v ek p in
  let d := match e with
           | Ok pe => match dissect (build pe) with
                      | Some pw => out_bytes (lw_dec v dk pw)
                      | None => Raise OtherExn
                      end
           | Raise _ => out_bytes (lw_dec v dk p)
           end in
  (out_bytes e, d).

Definition check_lw (c : bool * keys3 * keys3 * packet * outcome bytes * outcome bytes) : bool :=
  let '(legacy, ek, dk, p, oe, od) := c in
  let '(me, md) := lw_roundtrip {| v_legacy := legacy |} ek dk p in
  bytes_outcome_eqb me oe && bytes_outcome_eqb md od.

(** single-bit corruption *)
Fixpoint flip_bit (i : nat) (b : bytes) : bytes :=
  match b with
  | [] => []
  | x :: r => if i <? 8 then N.lxor x (N.shiftl 1 (N.of_nat i)) :: r else x :: flip_bit (i - 8) r
  end.

(** class of decrypt_packet on wire bytes: 0 BadMICError, 1 returned with identical bytes,
    2 returned with other bytes, 3.. exception classes, 9 = outside the model's domain *)
Definition exn_code (e : exn) : N :=
  match e with
  | BadMICError => 0 | MissingKeyError => 3 | AttributeError => 4 | ValueError => 5
  | IndexError => 6 | StructError => 7 | MissingPayload => 8 | OtherExn => 8
  | MissingSecurityFlag => 10 | MissingHeader => 11
  end%N.

Definition lw_wire_class (v : variant) (k : keys3) (w : bytes) : N :=
  match dissect w with
  | None => 9%N
  | Some p => match lw_dec v k p with
              | Ok q => if bytes_eqb (build q) w then 1%N else 2%N
              | Raise e => exn_code e
              end
  end.

Fixpoint sweep_ok (f : nat -> N) (i : nat) (obs : list N) : bool :=
  match obs with
  | [] => true
  | o :: r => let m := f i in (N.eqb m 9 || N.eqb m o) && sweep_ok f (S i) r
  end.

(** (legacy, keys, wire bytes, observed class per flipped bit) *)
Definition check_lw_sweep (c : bool * keys3 * bytes * list N) : bool :=
  let '(legacy, k, w, obs) := c in
  sweep_ok (fun i => lw_wire_class {| v_legacy := legacy |} k (flip_bit i w)) 0 obs.

(** one wire frame: (legacy, keys, wire, observed outcome) *)
Definition check_lw_wire (c : bool * keys3 * bytes * outcome bytes) : bool :=
  let '(legacy, k, w, od) := c in
  match dissect w with
  | None => true
  | Some p => bytes_outcome_eqb (out_bytes (lw_dec {| v_legacy := legacy |} k p)) od
  end.

(** RF4CE: (legacy, enc key, dec key, input, explicit dec addresses, observed encrypt result,
    observed decrypt result on the re-dissected encrypted frame (RRaise OtherExn when none)) *)
Definition rf_roundtrip (v : variant) (ek dk : bytes) (x : rf_in) (dsrc ddst : option bytes)
  : rf_out * rf_out :=
  let e := rf_encrypt aes128_enc v ek x in
  let d := match e with
           | RPkt w => match rf_parse (length (r_pre x)) dsrc ddst (r_has_mac x) w with
                       | Some x' => rf_decrypt aes128_enc v dk x'
                       | None => RRaise OtherExn
                       end
           | _ => RRaise OtherExn
           end in
  (e, d).

(** (legacy, enc key, dec key, packet, caller's source / destination for encrypt, header addressing,
    caller's source / destination for decrypt, observed encrypt result, observed decrypt result) *)
Definition check_rf (c : bool * bytes * bytes * rf_in * option bytes * option bytes
                         * option addr_mode * option addr_mode * option bytes * option bytes * rf_out * rf_out) : bool :=
  let '(legacy, ek, dk, x, asrc, adst, hsrc, hdst, dasrc, dadst, oe, od) := c in
  let '(me, md) := rf_roundtrip {| v_legacy := legacy |} ek dk (rf_with_addrs x asrc adst hsrc hdst)
                                (rf_resolve dasrc hsrc) (rf_resolve dadst hdst) in
  rf_out_eqb me oe && rf_out_eqb md od.

(** class of decrypt on wire bytes: 0 rejected, 1 accepted, 3.. exception, 9 outside the domain *)
Definition rf_wire_class (v : variant) (key : bytes) (npre : nat) (src dst : option bytes)
           (has_mac : bool) (w : bytes) : N :=
  match rf_parse npre src dst has_mac w with
  | None => 9%N
  | Some x => match rf_decrypt aes128_enc v key x with
              | RTuple _ true => 1%N
              | RTuple _ false => 0%N
              | RPkt _ => 8%N
              | RRaise e => exn_code e
              end
  end.

(** (legacy, key, npre, caller's source / destination, header addressing, wire, observed classes for
    each bit of the NWK part) *)
Definition check_rf_sweep (c : bool * bytes * nat * option bytes * option bytes
                               * option addr_mode * option addr_mode * bytes * list N) : bool :=
  let '(legacy, key, npre, asrc, adst, hsrc, hdst, w, obs) := c in
  let has_mac := match hsrc with Some _ => true | None => false end in
  sweep_ok (fun i => rf_wire_class {| v_legacy := legacy |} key npre (rf_resolve asrc hsrc) (rf_resolve adst hdst)
                                   has_mac (flip_bit (8 * npre + i) w)) 0 obs.

(** packet without RF4CE_Hdr: (legacy, key, observed encrypt result, observed decrypt result) *)
Definition check_rf_nohdr (c : bool * bytes * rf_out * rf_out) : bool :=
  let '(legacy, key, oe, od) := c in
  rf_out_eqb (rf_encrypt_top aes128_enc {| v_legacy := legacy |} key None) oe &&
  rf_out_eqb (rf_decrypt_top aes128_enc {| v_legacy := legacy |} key None) od.

(** RF4CE decrypt of a given frame: (legacy, key, packet, caller's addresses, header addressing, observed) *)
Definition check_rf_dec (c : bool * bytes * rf_in * option bytes * option bytes
                             * option addr_mode * option addr_mode * rf_out) : bool :=
  let '(legacy, key, x, asrc, adst, hsrc, hdst, od) := c in
  rf_out_eqb (rf_decrypt aes128_enc {| v_legacy := legacy |} key (rf_with_addrs x asrc adst hsrc hdst)) od.

(** Unifying: (legacy, enc key, dec key, frame, observed bytes of encrypt, of decrypt(encrypt) in
    memory, of decrypt(bytes(encrypt))) *)
Definition un_out (legacy : bool) (o : outcome un_frame) : outcome bytes :=
  match o with Ok p => Ok (un_build legacy p) | Raise e => Raise e end.

Definition un_bind (o : outcome un_frame) (f : un_frame -> outcome un_frame) : outcome un_frame :=
  match o with Ok p => f p | Raise e => Raise e end.

Definition un_roundtrip (v : variant) (ek dk : bytes) (p : un_frame)
  : outcome bytes * outcome bytes * outcome bytes :=
  let l := v_legacy v in
  let e := un_crypt aes128_enc v ek p in
  let m := un_bind e (un_crypt aes128_enc v dk) in
  let w := un_bind e (fun q => match un_dissect (un_build l q) with
                               | Some q' => un_crypt aes128_enc v dk q'
                               | None => Raise OtherExn end) in
  (un_out l e, un_out l m, un_out l w).

Definition check_un (c : bool * bytes * bytes * un_frame * outcome bytes * outcome bytes * outcome bytes) : bool :=
  let '(legacy, ek, dk, p, oe, om, ow) := c in
  let '(me, mm, mw) := un_roundtrip {| v_legacy := legacy |} ek dk p in
  bytes_outcome_eqb me oe && bytes_outcome_eqb mm om && bytes_outcome_eqb mw ow.
