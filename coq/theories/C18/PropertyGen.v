(** C18 — tie between the source and the model, as theorems (each closed by [exact]; see
    GenEq.v).  [gen_*] are the definitions of Gen.v, generated from whad/lorawan/crypto.py and
    whad/unifying/crypto.py by harness/translators/pyfun.py; the check regenerates them on
    every run and re-checks these statements against the regenerated text. *)
From Coq Require Import List NArith Arith Bool.
From Whad Require Import Lib.Bytes Lib.Xor Lib.PyOps C18.Model.
From Whad Require Import C18.Gen C18.GenEq.
Import ListNotations.

(** MIC_Uplink / MIC_Downlink: [pack('<BIBIIBB', 0x49, 0, dir, dev_addr, fcnt, 0, len(frame))]
    is the model's B0 block, for frames whose length fits the one-byte field (longer ones raise
    struct.error in Python and [Raise StructError] in the model). *)
Theorem C18_gen_mic_b0_eq :
  forall (addr fcnt : N) (frame : bytes), length frame < 256 ->
    gen_mic_b0_uplink addr fcnt frame = lw_block 73 0 addr fcnt (N.of_nat (length frame))
    /\ gen_mic_b0_downlink addr fcnt frame = lw_block 73 1 addr fcnt (N.of_nat (length frame)).
Proof. exact (fun a f fr H => conj (gen_mic_b0_uplink_eq a f fr H) (gen_mic_b0_downlink_eq a f fr H)). Qed.

Theorem C18_gen_mic_input_eq :
  forall (dir addr fcnt : N) (frame : bytes), length frame < 256 ->
    lw_mic_input dir addr fcnt frame
    = (if N.eqb dir 0 then gen_mic_b0_uplink addr fcnt frame
       else if N.eqb dir 1 then gen_mic_b0_downlink addr fcnt frame
       else lw_block 73 dir addr fcnt (N.of_nat (length frame))) ++ frame.
Proof. exact lw_mic_input_gen. Qed.

Theorem C18_gen_mic_b0_domain :
  forall (addr fcnt : N) (frame : bytes),
    (addr < 4294967296)%N -> (fcnt < 4294967296)%N -> length frame < 256 ->
    gen_mic_b0_uplink_pre addr fcnt frame /\ gen_mic_b0_downlink_pre addr fcnt frame.
Proof. exact gen_mic_b0_pre_ok. Qed.

(** encrypt_frame: [nb_blocks] ([int(len/16)], +1 on a remainder) and the A_i blocks
    ([pack('<BIBIIBB', 1, 0, 0 if uplink else 1, dev_addr, fcnt, 0, i+1)]) are the model's
    [lw_nblocks] and blocks A_1..A_nb, for frames of at most 255 blocks. *)
Theorem C18_gen_encrypt_frame_blocks_eq :
  forall (addr fcnt : N) (frame : bytes) (uplink : bool), length frame <= 4080 ->
    gen_encrypt_frame_blocks addr fcnt frame uplink
    = (lw_nblocks (length frame),
       map (fun i => lw_block 1 (dir_of_uplink uplink) addr fcnt (N.of_nat i)) (seq 1 (lw_nblocks (length frame)))).
Proof. exact gen_encrypt_frame_blocks_eq. Qed.

Theorem C18_gen_encrypt_frame_blocks_domain :
  forall (addr fcnt : N) (frame : bytes) (uplink : bool),
    (addr < 4294967296)%N -> (fcnt < 4294967296)%N -> length frame <= 4080 ->
    gen_encrypt_frame_blocks_pre addr fcnt frame uplink.
Proof. exact gen_encrypt_frame_blocks_pre_ok. Qed.

(** the xor loops ([output += bytes([x[i] ^ ks[i]])]) are [xor_bytes] when the keystream is long enough *)
Theorem C18_gen_xor_loops_eq :
  forall (data ks : bytes), length data <= length ks ->
    gen_encrypt_frame_xor data ks (length data) = xor_bytes data ks
    /\ gen_encrypt_fopts_xor data ks = xor_bytes data ks.
Proof.
  exact (fun d ks H => conj (gen_encrypt_frame_xor_eq d ks (length d) eq_refl H) (gen_encrypt_fopts_xor_eq d ks H)).
Qed.

(** The model's [encrypt_frame] and [encrypt_fopts], for every block cipher with 16-byte
    output, are the generated blocks, each encrypted ([AES.new(key).encrypt], hand-written),
    fed to the generated xor loop. *)
Theorem C18_gen_encrypt_frame_eq :
  forall (E : bytes -> bytes -> bytes), (forall k b, length (E k b) = 16) ->
  forall (key : bytes) (addr fcnt : N) (frame : bytes) (uplink : bool), length frame <= 4080 ->
    encrypt_frame E key (dir_of_uplink uplink) addr fcnt frame
    = gen_encrypt_frame_xor frame (flat_map (E key) (snd (gen_encrypt_frame_blocks addr fcnt frame uplink))) (length frame).
Proof. exact encrypt_frame_gen. Qed.

Theorem C18_gen_encrypt_fopts_eq :
  forall (E : bytes -> bytes -> bytes), (forall k b, length (E k b) = 16) ->
  forall (key : bytes) (addr fcnt : N) (fopts : bytes) (uplink : bool), length fopts <= 16 ->
    encrypt_fopts E key (dir_of_uplink uplink) addr fcnt fopts
    = gen_encrypt_fopts_xor fopts (E key (gen_encrypt_fopts_block addr fcnt uplink)).
Proof. exact encrypt_fopts_gen. Qed.

(** Logitech Unifying: [generateAESInputData(counter)] is the model's [un_aes_in] of the
    big-endian counter. *)
Theorem C18_gen_un_aes_input_eq :
  forall counter : N, gen_un_aes_input counter = un_aes_in (be_bytes 4 counter).
Proof. exact gen_un_aes_input_eq. Qed.

Theorem C18_gen_un_aes_input_domain :
  forall counter : N, (counter < 4294967296)%N -> gen_un_aes_input_pre counter.
Proof. exact gen_un_aes_input_pre_ok. Qed.

(** Non-vacuity: a 17-byte frame needs two blocks, the second ends in 2. *)
Example C18_gen_nonvacuous :
  fst (gen_encrypt_frame_blocks 1 2 (repeat 0%N 17) true) = 2
  /\ nth 15 (nth 1 (snd (gen_encrypt_frame_blocks 1 2 (repeat 0%N 17) true)) []) 0%N = 2%N.
Proof. split; vm_compute; reflexivity. Qed.
