(** C18 — property theorems only (each closed by [exact]); see Proofs.v.
    [E] / [D] are an arbitrary block function and its inverse direction: every theorem holds
    for every such pair with 16-byte outputs (AES-128 is one; it is plugged in by the
    correspondence check and by the concrete witnesses). [std_variant] is the code under
    verification, [legacy_variant] the code before the fix: commits recorded for this property. *)
From Coq Require Import List NArith Arith.
From Whad Require Import Lib.Bytes Lib.Xor Lib.Aes Lib.Ccm Lib.Cmac C18.Model C18.Proofs.
Import ListNotations.

(** ** LoRaWAN *)

(** Data frames (MType 2..5, any DevAddr, FCnt, FCtrl bits, FPort 0..255, FOpts 0..15 bytes,
    payload such that the PHY length fits the MIC block, i.e. 0..222 bytes with 15 FOpts
    bytes): encrypt_packet succeeds, the MIC it wrote verifies, and decrypt_packet returns the
    original frame (all fields; the MIC field holds the computed MIC). *)
Theorem C18_lorawan_data_self_inverse :
  forall E D : bytes -> bytes -> bytes,
    (forall k b, length (E k b) = 16) -> (forall k b, length (D k b) = 16) ->
    (forall k b, length b = 16 -> E k (D k b) = b) ->
    forall (appkey appkey' : option bytes) (a n : bytes) (d : lw_data),
      lw_wf d ->
      exists d',
        encrypt_packet E D std_variant appkey (Some a) (Some n) (PData d) = Ok (PData d') /\
        lw_mic_dir E (dir_of (d_mtype d')) n (d_addr d') (d_fcnt d') (data_nomic d') = Ok (d_mic d') /\
        decrypt_packet E std_variant appkey' (Some a) (Some n) (PData d') = Ok (PData (with_mic d (d_mic d'))).
Proof. exact lw_data_self_inverse. Qed.

(** Join accept (12-byte body, or 28 with a CFList; any RFU/Major bits): the frame encrypted
    with the AES decrypt direction decrypts to the original with its MIC. *)
Theorem C18_lorawan_join_self_inverse :
  forall E D : bytes -> bytes -> bytes,
    (forall k b, length (E k b) = 16) -> (forall k b, length (D k b) = 16) ->
    (forall k b, length b = 16 -> E k (D k b) = b) ->
    forall (k : bytes) (s n s' n' : option bytes) (lo : N) (body mic0 : bytes),
      (length body + 4) mod 16 = 0 ->
      exists body' mic',
        encrypt_packet E D std_variant (Some k) s n (PJoin lo body mic0) = Ok (PJoin lo body' mic') /\
        length mic' = 4 /\
        decrypt_packet E std_variant (Some k) s' n' (PJoin lo body' mic')
        = Ok (PJoin lo body (lw_mic E k ((32 + lo)%N :: body))).
Proof. exact lw_join_self_inverse. Qed.

(** The wire path: scapy re-dissects the bytes it built into the same frame. *)
Theorem C18_lorawan_wire_data : forall d, lw_wf d -> dissect (build (PData d)) = Some (PData d).
Proof. exact dissect_build_data. Qed.

Theorem C18_lorawan_wire_join : forall lo body mic, (lo < 32)%N -> length mic = 4 ->
  dissect (build (PJoin lo body mic)) = Some (PJoin lo body mic).
Proof. exact dissect_build_join. Qed.

(** Integrity: for the supported MTypes, returning normally means the MIC matched ... *)
Theorem C18_lorawan_ok_means_verified_partial :
  forall (E : bytes -> bytes -> bytes) (a s n : option bytes) (p x : packet),
    (forall mt lo b m, p <> POther mt lo b m) ->
    decrypt_packet E std_variant a s n p = Ok x -> lw_mic_verified E a s n p.
Proof. exact lw_decrypt_ok_verified. Qed.

(** ... and a frame whose MIC field differs from the recomputed MIC is rejected with the
    dedicated error (tamper => fail, conditional on MAC inequality). *)
Theorem C18_lorawan_data_tamper_rejected :
  forall (E : bytes -> bytes -> bytes) (a : option bytes) (s n : bytes) (d : lw_data) (exp : bytes),
    lw_mic_dir E (dir_of (d_mtype d)) n (d_addr d) (d_fcnt d) (data_nomic d) = Ok exp ->
    exp <> d_mic d ->
    decrypt_packet E std_variant a (Some s) (Some n) (PData d) = Raise BadMICError.
Proof. exact lw_data_tamper_rejected. Qed.

Theorem C18_lorawan_join_tamper_rejected :
  forall (E : bytes -> bytes -> bytes) (k : bytes) (s n : option bytes) (lo : N) (body mic dec : bytes),
    ecb E k (body ++ mic) = Ok dec ->
    lw_mic E k ((32 + lo)%N :: drop_last 4 dec) <> take_last 4 dec ->
    decrypt_packet E std_variant (Some k) s n (PJoin lo body mic) = Raise BadMICError.
Proof. exact lw_join_tamper_rejected. Qed.

(** The MIC is computed over an injective encoding of direction, DevAddr, FCnt and of every
    field of the frame (MHDR, FCtrl, FOpts, FPort, FRMPayload): no protected byte is left out. *)
Theorem C18_lorawan_mic_input_injective :
  forall dir dir' a a' c c' f f',
    (a < 4294967296)%N -> (a' < 4294967296)%N -> (c < 4294967296)%N -> (c' < 4294967296)%N ->
    lw_mic_input dir a c f = lw_mic_input dir' a' c' f' ->
    dir = dir' /\ a = a' /\ c = c' /\ f = f'.
Proof. exact lw_mic_input_injective. Qed.

Theorem C18_lorawan_mic_covers_all_fields :
  forall d d', lw_wf d -> lw_wf d' -> data_nomic d = data_nomic d' -> with_mic d [] = with_mic d' [].
Proof. exact data_nomic_injective. Qed.

(** FULL STATEMENT of "returning normally means a MIC was verified" — refuted on the MTypes
    decrypt_packet does not support (KNOWN-FINDING lorawan-unsupported-mtype-not-verified). *)
Definition C18_lorawan_ok_means_verified_statement : Prop :=
  forall (E : bytes -> bytes -> bytes) (a s n : option bytes) (p x : packet),
    decrypt_packet E std_variant a s n p = Ok x -> lw_mic_verified E a s n p.

Theorem C18_lorawan_ok_means_verified_refuted :
  forall (E : bytes -> bytes -> bytes) a s n,
    exists p x, decrypt_packet E std_variant a s n p = Ok x /\ ~ lw_mic_verified E a s n p.
Proof. exact lw_verified_refuted. Qed.

(** one flipped MHDR bit of any unconfirmed uplink frame reaches that case *)
Theorem C18_lorawan_mtype_flip_passthrough :
  forall (E : bytes -> bytes -> bytes) a s n rest,
    4 <= length rest ->
    exists p, dissect (flip_bit 6 (64%N :: rest)) = Some p /\ decrypt_packet E std_variant a s n p = Ok p.
Proof. exact lw_mtype_flip_passthrough. Qed.

(** A missing key is MissingKeyError — for encrypt and decrypt, every frame of a supported
    type, whatever the other keys are (also for the code before the fixes). *)
Theorem C18_lorawan_missing_key_is_MissingKeyError :
  forall (E D : bytes -> bytes -> bytes) (v : variant) (a s n : option bytes) (p : packet),
    match p with
    | PJoin _ _ _ => a = None
    | PData _ => s = None \/ n = None
    | POther _ _ _ _ => False
    end ->
    encrypt_packet E D v a s n p = Raise MissingKeyError /\
    decrypt_packet E v a s n p = Raise MissingKeyError.
Proof. exact lw_missing_key. Qed.

(** The defects of the code before the fix: commits (witnesses replayed by the seeded reverts). *)
Theorem C18_legacy_lorawan_downlink_raises :
  forall (E : bytes -> bytes -> bytes) (a : option bytes) (s n : bytes) (d : lw_data),
    is_uplink (d_mtype d) = false ->
    decrypt_packet E legacy_variant a (Some s) (Some n) (PData d) = Raise AttributeError.
Proof. exact lw_legacy_downlink_raises. Qed.

Theorem C18_legacy_lorawan_port0_refuted :
  exists b, snd (lw_roundtrip legacy_variant w_keys w_keys (PData w_up0)) = Ok b /\
            drop_last 4 b <> drop_last 4 (build (PData w_up0)).
Proof. exact lw_legacy_port0_refuted. Qed.

Theorem C18_legacy_lorawan_join_mhdr_refuted :
  snd (lw_roundtrip legacy_variant w_keys w_keys (PJoin 1 [86;52;18;66;0;0;204;187;170;0;53;5]%N [0;0;0;0]%N))
  = Raise BadMICError.
Proof. exact lw_legacy_join_mhdr_refuted. Qed.

(** ** RF4CE *)

(** For every frame type, counter, header, payload (also empty), MIC placeholder, security flag
    given set or clear, 8-byte addresses, with or without a MAC header in front: encrypt returns
    a packet which, re-dissected by the receiver, decrypt accepts, returning the original frame
    (security and reserved bits set) followed by the MIC. *)
Theorem C18_rf4ce_self_inverse :
  forall E : bytes -> bytes -> bytes,
    (forall k b, length (E k b) = 16) ->
    forall (key : bytes) (x : rf_in) (src dst : bytes),
      rf_wf x -> r_src x = Some src -> r_dst x = Some dst ->
      let fa := N.lor (N.lor (r_fctl x) 32) 4 in
      exists w x' tag,
        rf_encrypt E std_variant key x = RPkt w /\
        rf_parse (length (r_pre x)) (Some src) (Some dst) (r_has_mac x) w = Some x' /\
        length tag = 4 /\
        rf_decrypt E std_variant key x' = RTuple (r_pre x ++ rf_nwk fa (r_fc x) (r_hdr x) (r_payload x) tag) true.
Proof. exact rf_self_inverse. Qed.

(** Integrity: acceptance implies that the received MIC is the recomputed CCM tag ... *)
Theorem C18_rf4ce_accept_means_tag :
  forall E : bytes -> bytes -> bytes,
    (forall k b, length (E k b) = 16) ->
    forall (key : bytes) (x : rf_in) (src dst b : bytes),
      length (r_mic x) = 4 -> rf_sec (r_fctl x) = true -> r_src x = Some src -> r_dst x = Some dst ->
      let f0 := N.lor (r_fctl x) 32 in
      rf_decrypt E std_variant key x = RTuple b true ->
      r_mic x = ccm_tag E 4 2 key (rf_nonce src (r_fc x)) (rf_auth f0 (r_fc x) dst)
                        (ccm_keystream_xor E 2 key (rf_nonce src (r_fc x)) (r_payload x)).
Proof. exact rf_accept_iff_tag. Qed.

(** ... and a frame whose MIC is not that tag is rejected: (packet, False). *)
Theorem C18_rf4ce_tamper_rejected :
  forall E : bytes -> bytes -> bytes,
    (forall k b, length (E k b) = 16) ->
    forall (key : bytes) (x : rf_in) (src dst : bytes),
      length (r_mic x) = 4 -> rf_sec (r_fctl x) = true -> r_src x = Some src -> r_dst x = Some dst ->
      let f0 := N.lor (r_fctl x) 32 in
      r_mic x <> ccm_tag E 4 2 key (rf_nonce src (r_fc x)) (rf_auth f0 (r_fc x) dst)
                         (ccm_keystream_xor E 2 key (rf_nonce src (r_fc x)) (r_payload x)) ->
      rf_decrypt E std_variant key x
      = RTuple (r_pre x ++ rf_nwk f0 (r_fc x) (r_hdr x) (r_payload x) (r_mic x)) false.
Proof. exact rf_tamper_rejected. Qed.

(** The CBC-MAC input determines source, frame counter, frame control byte (as authenticated),
    destination and payload. *)
Theorem C18_rf4ce_mic_covers :
  forall s s' fc fc' f f' d d' m m',
    length s = 8 -> length s' = 8 -> length fc = 4 -> length fc' = 4 ->
    length d = 8 -> length d' = 8 -> (N.of_nat (length m) < 65536)%N -> (N.of_nat (length m') < 65536)%N ->
    ccm_auth_blocks 4 2 (rf_nonce s fc) (rf_auth f fc d) m = ccm_auth_blocks 4 2 (rf_nonce s' fc') (rf_auth f' fc' d') m' ->
    s = s' /\ fc = fc' /\ f = f' /\ d = d' /\ m = m'.
Proof. exact rf_auth_injective. Qed.

(** FULL STATEMENTS "any modification of the header is rejected" — refuted: the profile / vendor
    id bytes are outside the authenticated data (KNOWN-FINDING rf4ce-profile-vendor-unauthenticated)
    and the reserved bit is overwritten before authentication (KNOWN-FINDING rf4ce-reserved-bit-forced).
    The general form: acceptance does not depend on them at all. *)
Definition C18_rf4ce_any_header_change_rejected_statement : Prop := rf_any_header_change_rejected_statement.

Theorem C18_rf4ce_any_header_change_rejected_refuted : ~ rf_any_header_change_rejected_statement.
Proof. exact rf_any_header_change_rejected_refuted. Qed.

Theorem C18_rf4ce_profile_vendor_unauthenticated :
  forall E : bytes -> bytes -> bytes,
    (forall k b, length (E k b) = 16) ->
    forall (key : bytes) (x : rf_in) (src dst h : bytes),
      length (r_mic x) = 4 -> rf_sec (r_fctl x) = true -> r_src x = Some src -> r_dst x = Some dst ->
      rf_accepts E key (with_hdr x h) = rf_accepts E key x.
Proof. exact rf_hdr_unauthenticated. Qed.

Definition C18_rf4ce_reserved_bit_change_rejected_statement : Prop := rf_reserved_bit_change_rejected_statement.

Theorem C18_rf4ce_reserved_bit_change_rejected_refuted : ~ rf_reserved_bit_change_rejected_statement.
Proof. exact rf_reserved_bit_change_rejected_refuted. Qed.

Theorem C18_rf4ce_reserved_bit_unauthenticated :
  forall E : bytes -> bytes -> bytes,
    (forall k b, length (E k b) = 16) ->
    forall (key : bytes) (x : rf_in) (src dst : bytes),
      length (r_mic x) = 4 -> rf_sec (r_fctl x) = true -> r_src x = Some src -> r_dst x = Some dst ->
      rf_accepts E key (with_fctl x (N.lxor (r_fctl x) 32)) = rf_accepts E key x.
Proof. exact rf_reserved_unauthenticated. Qed.

(** "Cannot be (de)crypted because something is missing" always ends in the dedicated signal of the
    RF4CE manager: MissingRF4CESecurityFlag (flag clear, checked before anything else),
    MissingRF4CEHeader (no RF4CE layer), (packet, False) for a missing address — and no other
    exception can leave encrypt() / decrypt(). *)
Theorem C18_rf4ce_flag_clear_is_MissingRF4CESecurityFlag :
  forall (E : bytes -> bytes -> bytes) key x,
    rf_sec (r_fctl x) = false -> rf_decrypt E std_variant key x = RRaise MissingSecurityFlag.
Proof. exact rf_flag_clear_dedicated. Qed.

Theorem C18_rf4ce_missing_address_is_reported :
  forall (E : bytes -> bytes -> bytes) key x,
    r_src x = None \/ r_dst x = None ->
    (exists b, rf_encrypt E std_variant key x = RTuple b false) /\
    (rf_sec (r_fctl x) = true -> exists b, rf_decrypt E std_variant key x = RTuple b false).
Proof. exact rf_missing_address_dedicated. Qed.

(** Addressing: the 8-byte source / destination are the caller's argument when given, else the long
    address of the 802.15.4 header (mode 3); short addresses, absent fields and a missing MAC layer
    provide none. *)
Theorem C18_rf4ce_address_resolution :
  forall arg h a, rf_resolve arg h = Some a <-> (arg = Some a \/ (arg = None /\ h = Some (AMLong a))).
Proof. exact rf_resolve_spec. Qed.

(** Self-inverse for EVERY combination of source / destination addressing mode (none, short, long,
    no MAC layer) and caller-supplied source / destination (given, absent) in which both addresses
    are available to sender and receiver. *)
Theorem C18_rf4ce_self_inverse_addressing :
  forall E : bytes -> bytes -> bytes,
    (forall k b, length (E k b) = 16) ->
    forall key x asrc adst hsrc hdst dasrc dadst src dst,
      rf_wf x ->
      rf_resolve asrc hsrc = Some src -> rf_resolve adst hdst = Some dst ->
      rf_resolve dasrc hsrc = Some src -> rf_resolve dadst hdst = Some dst ->
      let fa := N.lor (N.lor (r_fctl x) 32) 4 in
      let has_mac := match hsrc with Some _ => true | None => false end in
      exists w x' tag,
        rf_encrypt E std_variant key (rf_with_addrs x asrc adst hsrc hdst) = RPkt w /\
        rf_parse (length (r_pre x)) (rf_resolve dasrc hsrc) (rf_resolve dadst hdst) has_mac w = Some x' /\
        length tag = 4 /\
        rf_decrypt E std_variant key x' = RTuple (r_pre x ++ rf_nwk fa (r_fc x) (r_hdr x) (r_payload x) tag) true.
Proof. exact rf_self_inverse_addressing. Qed.

(** In every other combination (source, or destination, neither given nor long in the header) the
    missing address is reported: (packet, False), no exception, nothing protected. *)
Theorem C18_rf4ce_missing_address_is_reported_addressing :
  forall (E : bytes -> bytes -> bytes) key x asrc adst hsrc hdst,
    (asrc = None /\ rf_header_long hsrc = None) \/ (adst = None /\ rf_header_long hdst = None) ->
    (exists b, rf_encrypt E std_variant key (rf_with_addrs x asrc adst hsrc hdst) = RTuple b false) /\
    (rf_sec (r_fctl x) = true ->
     exists b, rf_decrypt E std_variant key (rf_with_addrs x asrc adst hsrc hdst) = RTuple b false).
Proof. exact rf_missing_address_addressing. Qed.

Theorem C18_rf4ce_no_header_is_MissingRF4CEHeader :
  forall (E : bytes -> bytes -> bytes) v key,
    rf_encrypt_top E v key None = RRaise MissingHeader /\ rf_decrypt_top E v key None = RRaise MissingHeader.
Proof. exact rf_no_header_dedicated. Qed.

Theorem C18_rf4ce_only_dedicated_errors :
  forall (E : bytes -> bytes -> bytes) key o e,
    (rf_encrypt_top E std_variant key o = RRaise e -> e = MissingHeader) /\
    (rf_decrypt_top E std_variant key o = RRaise e -> e = MissingHeader \/ e = MissingSecurityFlag).
Proof. exact rf_only_dedicated_errors. Qed.

Theorem C18_legacy_rf4ce_flag_clear_struct_error :
  forall (E : bytes -> bytes -> bytes) key x src dst,
    r_src x = Some src -> r_dst x = Some dst -> r_has_layer x = true -> rf_sec (r_fctl x) = false ->
    rf_decrypt E legacy_variant key x = RRaise StructError.
Proof. exact rf_legacy_flag_clear_struct_error. Qed.

Theorem C18_legacy_rf4ce_bare_frame_no_address_attribute_error :
  forall (E : bytes -> bytes -> bytes) key x,
    r_src x = None -> r_has_mac x = false ->
    rf_encrypt E legacy_variant key x = RRaise AttributeError /\
    rf_decrypt E legacy_variant key x = RRaise AttributeError.
Proof. exact rf_legacy_bare_noaddr_attribute_error. Qed.

(** The defects of the code before the fix: commits. *)
Theorem C18_legacy_rf4ce_no_payload_raises :
  forall (E : bytes -> bytes -> bytes) (key : bytes) (x : rf_in) (src dst : bytes),
    r_src x = Some src -> r_dst x = Some dst -> r_has_layer x = false ->
    rf_encrypt E legacy_variant key x = RRaise IndexError /\
    rf_decrypt E legacy_variant key x = RRaise IndexError.
Proof. exact rf_legacy_no_layer_raises. Qed.

Theorem C18_legacy_rf4ce_security_flag_clear_refuted : rf_rt_accepted legacy_variant (w_rf 169 [65%N] true) = false.
Proof. exact rf_legacy_sec0_refuted. Qed.

Theorem C18_legacy_rf4ce_mic_none_refuted : rf_rt_accepted legacy_variant (w_rf 173 [65%N] true) = false.
Proof. exact rf_legacy_mic_none_refuted. Qed.

Theorem C18_legacy_rf4ce_crop0_refuted :
  exists w, rf_encrypt aes128_enc legacy_variant wk_a (w_rf 169 [] true) = RPkt w /\ length w = 4.
Proof. exact rf_legacy_crop0_refuted. Qed.

(** ** Logitech Unifying *)

(** decrypt(encrypt(frame)) = frame, for every key, keystroke payload, AES counter, device index,
    unused / trailing bytes and checksum-field value: every field is restored and the bytes of the
    result are the bytes of the original frame. *)
Theorem C18_unifying_self_inverse :
  forall E : bytes -> bytes -> bytes,
    (forall k b, length (E k b) = 16) ->
    forall (key : bytes) (p : un_frame),
      un_wf p ->
      exists q q',
        un_crypt E std_variant key p = Ok q /\ un_crypt E std_variant key q = Ok q' /\
        un_fields q' = un_fields p /\ un_build false q' = un_build false p.
Proof. exact un_self_inverse. Qed.

(** through the wire: the receiver re-dissects the encrypted bytes into the same fields and bytes *)
Theorem C18_unifying_wire :
  forall q, un_wf q ->
    exists q1, un_dissect (un_build false q) = Some q1 /\ un_wf q1 /\ un_fields q1 = un_fields q /\
               un_build false q1 = un_build false q.
Proof. exact un_wire. Qed.

(** A frame without encrypted keystroke payload is reported with the dedicated
    MissingEncryptedKeystrokePayload (every variant, key, frame); nothing else is raised on frames
    whose fields have their fixed lengths. *)
Theorem C18_unifying_missing_payload_is_dedicated_error :
  forall (E : bytes -> bytes -> bytes) v key p,
    u_ft p <> 0xD3%N -> un_crypt E v key p = Raise MissingPayload.
Proof. exact un_missing_payload_dedicated. Qed.

Theorem C18_unifying_only_dedicated_errors :
  forall (E : bytes -> bytes -> bytes),
    (forall k b, length (E k b) = 16) ->
    forall key p e, length (u_hid p) = 7 -> length (u_ctr p) = 4 -> length (u_unused p) = 7 ->
      un_crypt E std_variant key p = Raise e -> e = MissingPayload.
Proof. exact un_only_dedicated_errors. Qed.

(** The defect of the code before "fix: Logitech_Unifying_Hdr.post_build replaces the checksum
    trailer": the round trip returned the frame followed by two stale checksum bytes. *)
Theorem C18_legacy_unifying_grows_refuted :
  exists b, snd (fst (un_roundtrip legacy_variant wk_a wk_a w_un)) = Ok b /\
            b <> un_build true w_un /\ length b = length (un_build true w_un) + 2.
Proof. exact un_legacy_grows_refuted. Qed.

(** ** Non-vacuity: AES-128 meets the hypotheses on the FIPS-197 vectors, and concrete frames of
    each protocol satisfy the well-formedness conditions and go through the model with AES. *)
Example C18_nonvacuous :
  (forall k b, length (aes128_enc k b) = 16) /\ (forall k b, length (aes128_dec k b) = 16) /\
  aes128_enc fips197_B_key (aes128_dec fips197_B_key fips197_B_ct) = fips197_B_ct /\
  lw_wf w_up0 /\
  (exists b, snd (lw_roundtrip std_variant w_keys w_keys (PData w_up0)) = Ok b /\
             drop_last 4 b = drop_last 4 (build (PData w_up0))) /\
  rf_rt_accepted std_variant (w_rf 169 [65%N] true) = true /\
  rf_rt_accepted std_variant (w_rf 169 [] true) = true /\
  un_wf w_un /\
  snd (un_roundtrip std_variant wk_a wk_a w_un) = Ok (un_build false w_un).
Proof.
  split; [exact aes128_enc_length|]. split; [exact aes128_dec_length|].
  split; [exact (proj1 aes_inverse_on_fips_vector)|]. split; [exact w_up0_wf|].
  split; [exact lw_std_port0_ok|].
  split; [exact (proj1 rf_std_witnesses_ok)|]. split; [exact (proj2 (proj2 rf_std_witnesses_ok))|].
  split; [exact w_un_wf|exact (proj2 un_std_witness_ok)].
Qed.
