(** C18 — the Gallina generated from whad/lorawan/crypto.py and whad/unifying/crypto.py by
    harness/translators/pyfun.py (snapshot: Gen.v; regenerated and re-checked against this
    very file on every run) is EQUAL to the block / keystream arithmetic of the hand-written
    model: the B0 blocks of MIC_Uplink / MIC_Downlink, the number of A_i blocks and the blocks
    of encrypt_frame, the block A_0 of encrypt_fopts, the two xor loops, and the AES input
    block of the Logitech Unifying keystroke encryption. *)
From Coq Require Import List NArith ZArith Arith Bool Lia ZifyBool ZifyN ZifyNat.
From Whad Require Import Lib.Bytes Lib.Xor Lib.PyOps C18.Model.
From Whad Require Import C18.Gen.
Import ListNotations.
Ltac Zify.zify_post_hook ::= Z.to_euclidean_division_equations.

(** ** pack('<BIBIIBB', first, 0, dir, dev_addr, fcnt, 0, last) *)

Lemma pack_block first dir addr fcnt last :
  (first < 256)%N -> (dir < 256)%N -> (last < 256)%N ->
  ((((((py_pack_le 1 first ++ py_pack_le 4 0) ++ py_pack_le 1 dir) ++ py_pack_le 4 addr)
      ++ py_pack_le 4 fcnt) ++ py_pack_le 1 0) ++ py_pack_le 1 last)
  = lw_block first dir addr fcnt last.
Proof.
  intros Hf Hd Hl. unfold lw_block.
  rewrite !py_pack_le_1 by lia. rewrite !py_pack_le_4.
  rewrite <- !app_assoc. reflexivity.
Qed.

Lemma gen_mic_b0_uplink_eq addr fcnt frame :
  length frame < 256 -> gen_mic_b0_uplink addr fcnt frame = lw_block 73 0 addr fcnt (N.of_nat (length frame)).
Proof. intros H. unfold gen_mic_b0_uplink. py_unfold. apply pack_block; lia. Qed.

Lemma gen_mic_b0_downlink_eq addr fcnt frame :
  length frame < 256 -> gen_mic_b0_downlink addr fcnt frame = lw_block 73 1 addr fcnt (N.of_nat (length frame)).
Proof. intros H. unfold gen_mic_b0_downlink. py_unfold. apply pack_block; lia. Qed.

(** the model's MIC input is the generated B0 followed by the frame *)
Lemma lw_mic_input_gen dir addr fcnt frame :
  length frame < 256 ->
  lw_mic_input dir addr fcnt frame
  = (if N.eqb dir 0 then gen_mic_b0_uplink addr fcnt frame
     else if N.eqb dir 1 then gen_mic_b0_downlink addr fcnt frame
     else lw_block 73 dir addr fcnt (N.of_nat (length frame))) ++ frame.
Proof.
  intros H. unfold lw_mic_input.
  destruct (N.eqb dir 0) eqn:E0; [apply N.eqb_eq in E0; subst; rewrite gen_mic_b0_uplink_eq by exact H; reflexivity|].
  destruct (N.eqb dir 1) eqn:E1; [apply N.eqb_eq in E1; subst; rewrite gen_mic_b0_downlink_eq by exact H; reflexivity|].
  reflexivity.
Qed.

(** the struct.error of the length field is exactly the complement of the domain *)
Lemma gen_mic_b0_pre_ok addr fcnt frame :
  (addr < 4294967296)%N -> (fcnt < 4294967296)%N -> length frame < 256 ->
  gen_mic_b0_uplink_pre addr fcnt frame /\ gen_mic_b0_downlink_pre addr fcnt frame.
Proof.
  intros Ha Hf Hl. unfold gen_mic_b0_uplink_pre, gen_mic_b0_downlink_pre. py_unfold.
  split; py_pre_split; lia.
Qed.

(** ** encrypt_frame: number of A_i blocks and the blocks *)

Definition dir_of_uplink (uplink : bool) : N := if uplink then 0%N else 1%N.

Lemma gen_encrypt_frame_blocks_eq addr fcnt frame uplink :
  length frame <= 4080 ->
  gen_encrypt_frame_blocks addr fcnt frame uplink
  = (lw_nblocks (length frame),
     map (fun i => lw_block 1 (dir_of_uplink uplink) addr fcnt (N.of_nat i)) (seq 1 (lw_nblocks (length frame)))).
Proof.
  intros H. unfold gen_encrypt_frame_blocks, lw_nblocks. py_unfold.
  set (n := length frame) in *.
  assert (Hnb : (if 0 <? n mod 16 then n / 16 + 1 else n / 16)
                = n / 16 + (if Nat.eqb (n mod 16) 0 then 0 else 1)).
  { destruct (0 <? n mod 16) eqn:E; destruct (Nat.eqb (n mod 16) 0) eqn:E'; lia. }
  rewrite Hnb. set (nb := n / 16 + (if Nat.eqb (n mod 16) 0 then 0 else 1)).
  assert (Hb : nb <= 255).
  { unfold nb. destruct (Nat.eqb (n mod 16) 0) eqn:Ez; lia. }
  f_equal. cbn [app].
  rewrite <- seq_shift, map_map.
  apply map_ext_in. intros i Hi. apply in_seq in Hi.
  replace (i + 1) with (S i) by lia.
  replace (N.of_nat (if uplink then 0 else 1)) with (dir_of_uplink uplink) by (destruct uplink; reflexivity).
  apply pack_block; destruct uplink; cbn; lia.
Qed.

Lemma gen_encrypt_frame_blocks_pre_ok addr fcnt frame uplink :
  (addr < 4294967296)%N -> (fcnt < 4294967296)%N -> length frame <= 4080 ->
  gen_encrypt_frame_blocks_pre addr fcnt frame uplink.
Proof.
  intros Ha Hf H. unfold gen_encrypt_frame_blocks_pre, py_truediv_ok, two53. py_unfold.
  set (n := length frame) in *.
  py_pre_split; try lia; try (destruct uplink; cbn; lia).
  match goal with Hi : _ < (if ?c then _ else _) |- _ => destruct c eqn:Ec end; lia.
Qed.

(** ** the xor loops *)

Lemma xor_loop a : forall b, length a <= length b ->
  concat (map (fun i => [N.lxor (nth i a 0%N) (nth i b 0%N)]) (seq 0 (length a))) = xor_bytes a b.
Proof.
  induction a as [|x a IH]; intros [|y b] H; cbn [length] in H; try lia; [reflexivity | reflexivity |].
  cbn [length seq map concat app nth xor_bytes]. f_equal.
  rewrite <- seq_shift, map_map. cbn [nth]. apply IH. lia.
Qed.

Lemma xor_map a b : length a <= length b ->
  map (fun i => N.lxor (nth i a 0%N) (nth i b 0%N)) (seq 0 (length a)) = xor_bytes a b.
Proof. intros H. rewrite <- (concat_map_singleton (fun i => N.lxor (nth i a 0%N) (nth i b 0%N))). apply xor_loop. exact H. Qed.

Lemma gen_encrypt_frame_xor_eq frame ks n :
  n = length frame -> length frame <= length ks -> gen_encrypt_frame_xor frame ks n = xor_bytes frame ks.
Proof.
  intros -> H. unfold gen_encrypt_frame_xor. py_unfold. cbn [app].
  first [apply xor_map | apply xor_loop]; exact H.
Qed.

Lemma gen_encrypt_fopts_xor_eq fopts ks :
  length fopts <= length ks -> gen_encrypt_fopts_xor fopts ks = xor_bytes fopts ks.
Proof.
  intros H. unfold gen_encrypt_fopts_xor. py_unfold. cbn [app].
  first [apply xor_map | apply xor_loop]; exact H.
Qed.

Lemma gen_encrypt_fopts_block_eq addr fcnt uplink :
  gen_encrypt_fopts_block addr fcnt uplink = lw_block 1 (dir_of_uplink uplink) addr fcnt 0.
Proof.
  unfold gen_encrypt_fopts_block.
  replace (N.of_nat (if uplink then 0 else 1)) with (dir_of_uplink uplink) by (destruct uplink; reflexivity).
  apply pack_block; destruct uplink; cbn; lia.
Qed.

(** ** the model's encrypt_frame / encrypt_fopts over the generated pieces
    (hand-written: AES.new(key).encrypt of each block, i.e. [flat_map (E key)] / [E key]) *)
Section WithCipher.
  Variable E : bytes -> bytes -> bytes.
  Hypothesis E_len : forall k b, length (E k b) = 16.

  Lemma flat_map_E_length key (l : list bytes) : length (flat_map (E key) l) = 16 * length l.
  Proof.
    induction l as [|b l IH]; [reflexivity|]. cbn [flat_map length]. rewrite app_length, E_len, IH. lia.
  Qed.

  Lemma lw_keystream_gen key addr fcnt frame uplink :
    length frame <= 4080 ->
    lw_keystream E key (dir_of_uplink uplink) addr fcnt (lw_nblocks (length frame))
    = flat_map (E key) (snd (gen_encrypt_frame_blocks addr fcnt frame uplink)).
  Proof.
    intros H. rewrite gen_encrypt_frame_blocks_eq by exact H. cbn [snd].
    unfold lw_keystream. rewrite !flat_map_concat_map, map_map. reflexivity.
  Qed.

  Lemma nblocks_cover n : n <= 16 * lw_nblocks n.
  Proof. unfold lw_nblocks. destruct (Nat.eqb (n mod 16) 0) eqn:Ez; lia. Qed.

  Lemma encrypt_frame_gen key addr fcnt frame uplink :
    length frame <= 4080 ->
    encrypt_frame E key (dir_of_uplink uplink) addr fcnt frame
    = gen_encrypt_frame_xor frame (flat_map (E key) (snd (gen_encrypt_frame_blocks addr fcnt frame uplink))) (length frame).
  Proof.
    intros H. unfold encrypt_frame. rewrite (lw_keystream_gen key addr fcnt frame uplink H).
    symmetry. apply gen_encrypt_frame_xor_eq; [reflexivity|].
    rewrite flat_map_E_length, gen_encrypt_frame_blocks_eq by exact H. cbn [snd].
    rewrite map_length, seq_length. apply nblocks_cover.
  Qed.

  Lemma encrypt_fopts_gen key addr fcnt fopts uplink :
    length fopts <= 16 ->
    encrypt_fopts E key (dir_of_uplink uplink) addr fcnt fopts
    = gen_encrypt_fopts_xor fopts (E key (gen_encrypt_fopts_block addr fcnt uplink)).
  Proof.
    intros H. unfold encrypt_fopts. rewrite gen_encrypt_fopts_block_eq.
    symmetry. apply gen_encrypt_fopts_xor_eq. rewrite E_len. exact H.
  Qed.
End WithCipher.

(** ** Logitech Unifying: generateAESInputData *)

Lemma py_pack_be_be_bytes n : forall v, py_pack_be n v = be_bytes n v.
Proof.
  induction n as [|n IH]; intros v; [reflexivity|].
  rewrite py_pack_be_S. cbn [be_bytes]. rewrite IH. reflexivity.
Qed.

Lemma gen_un_aes_input_eq counter : gen_un_aes_input counter = un_aes_in (be_bytes 4 counter).
Proof.
  unfold gen_un_aes_input, un_aes_in. py_unfold. rewrite py_pack_be_be_bytes.
  rewrite <- app_assoc. reflexivity.
Qed.

Lemma gen_un_aes_input_pre_ok counter : (counter < 4294967296)%N -> gen_un_aes_input_pre counter.
Proof.
  intros H. unfold gen_un_aes_input_pre, all_bytes. py_pre_split; try lia; repeat constructor; lia.
Qed.
