(** C20 — lemmas about the 802.15.4 MAC model. *)
From Coq Require Import List NArith ZArith Arith Bool Lia ZifyBool ZifyN ZifyNat.
From Whad Require Import Lib.Bytes C20.Gen C20.Model.
Import ListNotations.
Ltac Zify.zify_post_hook ::= Z.to_euclidean_division_equations.
Open Scope N_scope.

(** ** Little-endian fields *)

Lemma pow256_succ k : 256 ^ N.of_nat (S k) = 256 * 256 ^ N.of_nat k.
Proof. rewrite Nat2N.inj_succ. apply N.pow_succ_r'. Qed.

Lemma le_enc_length k : forall n, length (le_enc k n) = k.
Proof. induction k as [|k IH]; intros n; cbn [le_enc length]; [reflexivity | now rewrite IH]. Qed.

Lemma le_dec_le_enc k : forall n, n < 256 ^ N.of_nat k -> le_dec (le_enc k n) = n.
Proof.
  induction k as [|k IH]; intros n H.
  - cbn in H. cbn [le_enc le_dec]. lia.
  - rewrite pow256_succ in H. cbn [le_enc le_dec].
    rewrite IH.
    + pose proof (N.div_mod n 256 ltac:(lia)). lia.
    + apply N.div_lt_upper_bound; lia.
Qed.

Lemma take_le_enc k n rest : fits k n = true -> take k (le_enc k n ++ rest) = Some (n, rest).
Proof.
  unfold fits, take. intros H. apply N.ltb_lt in H.
  rewrite app_length, le_enc_length.
  replace (k <=? k + length rest)%nat with true by (symmetry; apply Nat.leb_le; lia).
  rewrite firstn_app, le_enc_length, Nat.sub_diag. cbn [firstn]. rewrite app_nil_r.
  rewrite firstn_all2 by (rewrite le_enc_length; lia).
  rewrite skipn_app, le_enc_length, Nat.sub_diag. cbn [skipn].
  rewrite skipn_all2 by (rewrite le_enc_length; lia).
  rewrite le_dec_le_enc by assumption. reflexivity.
Qed.

Lemma le_enc_1 n : n < 256 -> le_enc 1 n = [n].
Proof. intros H. cbn [le_enc]. f_equal. apply N.mod_small. assumption. Qed.

(** ** The generated PAN-id compression function, frame versions 0 and 1 *)

Lemma optN_eqb_sym a b : optN_eqb a b = optN_eqb b a.
Proof. destruct a, b; cbn [optN_eqb]; try reflexivity. apply N.eqb_sym. Qed.

(** The proof only case-splits on the atoms of the generated text (and orients the PAN-id
    comparison), so that it survives a reordering of the conjuncts in the source. *)
Lemma choose_v01 fv dam sam hd hs dp sp :
  fv = 0 \/ fv = 1 ->
  choose_panid fv dam sam hd hs dp sp
  = COk (if negb (dam =? MACAddressMode_NONE) && negb (sam =? MACAddressMode_NONE)
            && (hd && (hs && optN_eqb dp sp)) then 1 else 0).
Proof.
  intros [-> | ->]; unfold choose_panid; cbn [N.eqb Pos.eqb orb];
    rewrite ?(optN_eqb_sym sp dp), ?(N.eqb_sym MACAddressMode_NONE);
    destruct (dam =? MACAddressMode_NONE), (sam =? MACAddressMode_NONE), hd, hs, (optN_eqb dp sp);
    reflexivity.
Qed.

Lemma choose_v01_bit fv dam sam hd hs dp sp c :
  fv = 0 \/ fv = 1 -> choose_panid fv dam sam hd hs dp sp = COk c -> c = 0 \/ c = 1.
Proof.
  intros H E. rewrite (choose_v01 _ _ _ _ _ _ _ H) in E. injection E as <-.
  destruct (_ && _); auto.
Qed.

(** table facts (finite constant) *)
Lemma table_values_are_bits : Forall (fun e : panid_key * N => snd e = 0 \/ snd e = 1) panid_table.
Proof.
  apply Forall_forall. intros e He.
  assert (H : forallb (fun e : panid_key * N => (snd e =? 0) || (snd e =? 1)) panid_table = true)
    by (vm_compute; reflexivity).
  rewrite forallb_forall in H. specialize (H e He). lia.
Qed.

Fixpoint keys_distinct (t : list (panid_key * N)) : bool :=
  match t with
  | [] => true
  | (k, _) :: r => negb (existsb (fun e => panid_key_eqb (fst e) k) r) && keys_distinct r
  end.

Lemma table_keys_distinct : keys_distinct panid_table = true.
Proof. vm_compute. reflexivity. Qed.

Lemma table_lookup_bit k v : panid_lookup panid_table k = Some v -> v = 0 \/ v = 1.
Proof.
  pose proof table_values_are_bits as H. revert H.
  generalize panid_table. induction l as [|[k' v'] l IH]; cbn [panid_lookup]; intros HF E; [discriminate|].
  inversion HF as [|? ? Hh Ht]; subst.
  destruct (panid_key_eqb k' k).
  - injection E as <-. exact Hh.
  - apply IH; assumption.
Qed.

(** ** Acknowledgement wait *)

Lemma wait_hist_iff seq : forall h n,
  fst (wait_hist seq (S n) h) = true
  <-> exists pre post, h = pre ++ EAck seq :: post /\ (timeouts pre < S n)%nat.
Proof.
  induction h as [|e h IH]; intros n.
  - cbn [wait_hist fst]. split; [discriminate|]. intros (pre & post & E & _).
    destruct pre; discriminate.
  - destruct e as [s|].
    + cbn [wait_hist]. destruct (s =? seq) eqn:Es.
      * apply N.eqb_eq in Es. subst s. cbn [fst]. split; [|reflexivity]. intros _.
        exists [], h. split; [reflexivity|]. cbn [timeouts]. lia.
      * rewrite IH. split.
        -- intros (pre & post & -> & Ht). exists (EAck s :: pre), post. split; [reflexivity|]. exact Ht.
        -- intros (pre & post & E & Ht). destruct pre as [|x pre].
           ++ cbn [app] in E. injection E as E1 E2. subst. rewrite N.eqb_refl in Es. discriminate.
           ++ cbn [app] in E. injection E as E1 E2. subst x h. exists pre, post. split; [reflexivity|].
              exact Ht.
    + cbn [wait_hist]. destruct n as [|k].
      * cbn [fst]. split; [discriminate|]. intros (pre & post & E & Ht).
        destruct pre as [|x pre]; cbn [app] in E; [discriminate|].
        injection E as E1 E2. subst x. cbn [timeouts] in Ht. lia.
      * rewrite IH. split.
        -- intros (pre & post & -> & Ht). exists (ETimeout :: pre), post. split; [reflexivity|].
           cbn [timeouts]. lia.
        -- intros (pre & post & E & Ht). destruct pre as [|x pre]; cbn [app] in E; [discriminate|].
           injection E as E1 E2. subst x h. exists pre, post. split; [reflexivity|].
           cbn [timeouts] in Ht. lia.
Qed.

Lemma wait_hist_fresh seq h : fst (wait_hist seq retry_budget h) = true <-> fresh_ack seq h.
Proof. unfold retry_budget, fresh_ack. apply wait_hist_iff. Qed.

(** failure exactly when the budget is spent: [pre] holds no matching acknowledgement and
    budget-1 timeouts; the next timeout makes the request fail and nothing after it is consumed. *)
Lemma wait_hist_budget seq : forall pre n post,
  ~ In (EAck seq) pre -> timeouts pre = n ->
  wait_hist seq (S n) (pre ++ ETimeout :: post) = (false, post).
Proof.
  induction pre as [|e pre IH]; intros n post Hin Ht.
  - cbn [timeouts] in Ht. subst n. reflexivity.
  - destruct e as [s|]; cbn [app wait_hist].
    + destruct (s =? seq) eqn:Es.
      * apply N.eqb_eq in Es. subst s. exfalso. apply Hin. left. reflexivity.
      * apply IH; [|exact Ht]. intro H. apply Hin. right. exact H.
    + cbn [timeouts] in Ht. destruct n as [|k]; [discriminate|]. injection Ht as Ht.
      apply IH; [|exact Ht]. intro H. apply Hin. right. exact H.
Qed.

Lemma wait_hist_no_ack seq : forall h n, ~ In (EAck seq) h -> fst (wait_hist seq (S n) h) = false.
Proof.
  intros h n Hin. destruct (fst (wait_hist seq (S n) h)) eqn:E; [|reflexivity].
  apply wait_hist_iff in E. destruct E as (pre & post & -> & _).
  exfalso. apply Hin. apply in_or_app. right. left. reflexivity.
Qed.

Lemma ack_wait_drained seq h :
  ack_wait seq [] h = (fst (wait_hist seq retry_budget h), acks_of (snd (wait_hist seq retry_budget h))).
Proof. unfold ack_wait. cbn [wait_queue]. destruct (wait_hist seq retry_budget h). reflexivity. Qed.

(** ** Operation sequences *)

Lemma step_seqnum st o :
  seqnum (snd (step st o)) = match o with OpSend _ _ => (seqnum st + 1) mod 256 | OpOverhear _ => seqnum st end.
Proof.
  destruct o as [w h|s]; unfold step, step_gen; [|reflexivity].
  destruct w; [|reflexivity]. destruct (ack_wait _ _ _). reflexivity.
Qed.

Lemma step_send_out st w h :
  exists res, fst (step st (OpSend w h)) = Some (seqnum st, res)
              /\ (if w then (res = true <-> fresh_ack (seqnum st) h) else res = true).
Proof.
  unfold step, step_gen. destruct w.
  - rewrite ack_wait_drained. eexists. split; [reflexivity|]. apply wait_hist_fresh.
  - eexists. split; reflexivity.
Qed.

Lemma run_cons st o ops :
  run st (o :: ops) = (fst (step st o) :: fst (run (snd (step st o)) ops), snd (run (snd (step st o)) ops)).
Proof.
  unfold run, step. cbn [run_gen]. destruct (step_gen true st o) as [x st1]. cbn [fst snd].
  destruct (run_gen true st1 ops). reflexivity.
Qed.

Theorem run_spec : forall ops st,
  sends_spec (seqnum st) (sends_of ops) (outputs_of (fst (run st ops))).
Proof.
  induction ops as [|o ops IH]; intros st.
  - exact I.
  - rewrite run_cons. cbn [fst]. destruct o as [w h|s].
    + destruct (step_send_out st w h) as (res & E & Hres).
      rewrite E. cbn [sends_of outputs_of sends_spec]. split.
      * unfold send_ok. cbn [fst snd]. split; [reflexivity | exact Hres].
      * specialize (IH (snd (step st (OpSend w h)))). rewrite step_seqnum in IH. exact IH.
    + assert (E : fst (step st (OpOverhear s)) = None) by reflexivity.
      rewrite E. cbn [sends_of outputs_of].
      specialize (IH (snd (step st (OpOverhear s)))). rewrite step_seqnum in IH. exact IH.
Qed.

Lemma seq_numbers : forall ops st,
  seqnum st < 256 ->
  map fst (outputs_of (fst (run st ops)))
  = map (fun i => (seqnum st + N.of_nat i) mod 256) (List.seq 0 (length (sends_of ops)))
  /\ seqnum (snd (run st ops)) = (seqnum st + N.of_nat (length (sends_of ops))) mod 256.
Proof.
  induction ops as [|o ops IH]; intros st Hs.
  - cbn [run run_gen fst snd outputs_of map sends_of length List.seq]. split; [reflexivity|].
    rewrite N.add_0_r. symmetry. apply N.mod_small. exact Hs.
  - rewrite run_cons. cbn [fst snd]. destruct o as [w h|s].
    + destruct (step_send_out st w h) as (res & E & _). rewrite E.
      cbn [sends_of outputs_of length List.seq map fst].
      assert (Hlt : seqnum (snd (step st (OpSend w h))) < 256).
      { rewrite step_seqnum. apply N.mod_lt. lia. }
      destruct (IH _ Hlt) as [IH1 IH2]. rewrite step_seqnum in IH1, IH2.
      split.
      * f_equal.
        -- rewrite N.add_0_r. symmetry. apply N.mod_small. exact Hs.
        -- rewrite IH1. rewrite <- seq_shift. rewrite map_map. apply map_ext. intros i.
           rewrite N.add_mod_idemp_l by lia. f_equal. lia.
      * rewrite IH2. rewrite N.add_mod_idemp_l by lia. f_equal. lia.
    + assert (E : fst (step st (OpOverhear s)) = None) by reflexivity. rewrite E.
      cbn [sends_of outputs_of].
      assert (Hlt : seqnum (snd (step st (OpOverhear s))) < 256) by (rewrite step_seqnum; exact Hs).
      destruct (IH _ Hlt) as [IH1 IH2]. rewrite step_seqnum in IH1, IH2. split; assumption.
Qed.

(** without the drain a stale acknowledgement confirms a frame that was never acknowledged *)
Lemma no_drain_refuted :
  exists st h, seqnum st < 256 /\ ~ fresh_ack (seqnum st) h
               /\ fst (step_gen false st (OpSend true h)) = Some (seqnum st, true).
Proof.
  exists {| seqnum := 5; ackq := [5] |}, []. split; [cbn; lia|]. split.
  - intros (pre & post & E & _). destruct pre; discriminate.
  - reflexivity.
Qed.

(** ** Receive filter and indication on a dissected data frame *)

Lemma match_filter_data b v dp da :
  v_data v = true -> v_dpan v = Some dp -> v_daddr v = Some da ->
  match_filter b v = macPromiscuousMode b || addressed b dp da.
Proof.
  intros Hd Hp Ha. unfold match_filter, addressed. rewrite Hd, Hp, Ha. cbn [negb andb optN_eqb].
  destruct (macPromiscuousMode b); [reflexivity|]. cbn [orb].
  destruct (dp =? macPanId b), (dp =? 65535), (da =? macShortAddress b),
           (da =? macExtendedAddress b), (da =? 65535); reflexivity.
Qed.

(** a view without a data layer passes the filter of every MAC *)
Lemma match_filter_no_layer b v : v_data v = false -> match_filter b v = true.
Proof.
  intros Hd. unfold match_filter. rewrite Hd. cbn [negb andb].
  destruct (macPromiscuousMode b), (macImplicitBroadcast b); reflexivity.
Qed.

(** ** Build / dissect round trip of a data frame *)

Definition src_ok (sm : N) (saddr : option N) : Prop :=
  (sm = 0 /\ saddr = None)
  \/ (sm = 2 /\ exists x, saddr = Some x /\ fits 2 x = true)
  \/ (sm = 3 /\ exists x, saddr = Some x /\ fits 8 x = true).

Definition dst_ok (dm : N) (daddr : N) : Prop :=
  (dm = 2 /\ fits 2 daddr = true) \/ (dm = 3 /\ fits 8 daddr = true).

Section RoundTrip.
Local Opaque le_enc le_dec take fits.

Lemma build_dissect c ack sm dm seq dpan daddr span saddr pl :
  c = 0 \/ c = 1 -> dst_ok dm daddr -> src_ok sm saddr -> seq < 256 ->
  fits 2 dpan = true -> fits 2 span = true ->
  exists fr,
    build {| f_compress := c; f_ackreq := ack; f_srcmode := sm; f_dstmode := dm; f_framever := 0;
             f_seq := seq;
             f_d := {| d_dpan := dpan; d_daddr := daddr; d_span := span; d_saddr := saddr |};
             f_payload := pl |} = Ok fr
    /\ nth 2 fr 0 = seq
    /\ dissect fr = Some {| v_frametype := 1; v_compress := c; v_seq := seq; v_data := true;
                           v_dpan := Some dpan; v_daddr := Some daddr;
                           v_span := if srcpan_present sm c then Some span else None;
                           v_saddr := saddr; v_payload := pl |}.
Proof.
  intros Hc Hd Hs Hseq Hdp Hsp.
  assert (Hseq1 : fits 1 seq = true).
  { Local Transparent fits. unfold fits. cbn. apply N.ltb_lt. exact Hseq. }
  Local Opaque fits.
  destruct Hc as [-> | ->];
  destruct Hd as [[-> Hda] | [-> Hda]];
  destruct Hs as [[-> ->] | [[-> (x & -> & Hx)] | [-> (x & -> & Hx)]]];
  destruct ack;
  unfold build, addr_field, srcpan_present;
  cbn [f_compress f_ackreq f_srcmode f_dstmode f_framever f_seq f_d f_payload
       d_dpan d_daddr d_span d_saddr N.eqb Pos.eqb negb andb];
  unfold pack;
  rewrite ?Hseq1, ?Hdp, ?Hda, ?Hsp, ?Hx;
  rewrite (le_enc_1 seq Hseq);
  (eexists; split; [reflexivity|]; split; [reflexivity|]);
  cbn -[le_enc take];
  unfold dissect_data, srcpan_present;
  repeat (rewrite take_le_enc by assumption; cbn -[le_enc take]);
  reflexivity.
Qed.

End RoundTrip.

(** ** From a request to the peer's indication *)

Lemma fits_2_0 : fits 2 0 = true.
Proof. reflexivity. Qed.

Lemma valid_mode_cases m :
  valid_mode m = true -> m = MACAddressMode_NONE \/ m = MACAddressMode_SHORT \/ m = MACAddressMode_EXTENDED.
Proof. unfold valid_mode. intros H. lia. Qed.

Lemma valid_request_parts a r :
  valid_request a r = true ->
  fits 2 (macPanId a) = true /\ fits 2 (macShortAddress a) = true /\ fits 8 (macExtendedAddress a) = true
  /\ valid_mode (q_sam r) = true /\ valid_mode (q_dam r) = true
  /\ fits 2 (d_dpan (data_packet a r)) = true
  /\ (if q_dam r =? MACAddressMode_SHORT then fits 2 (d_daddr (data_packet a r))
      else fits 8 (d_daddr (data_packet a r))) = true.
Proof.
  unfold valid_request, valid_pib. intros H.
  repeat (apply andb_true_iff in H; destruct H as [H ?]). repeat split; assumption.
Qed.

Lemma span_fits a r : valid_request a r = true -> fits 2 (d_span (data_packet a r)) = true.
Proof.
  intros H. apply valid_request_parts in H. destruct H as (Hp & _).
  unfold data_packet. cbn [d_span]. destruct (q_suppressed r); [exact fits_2_0 | exact Hp].
Qed.

Lemma src_ok_request a r :
  valid_request a r = true -> src_ok (fcf_mode (q_sam r)) (d_saddr (data_packet a r)).
Proof.
  intros H. apply valid_request_parts in H. destruct H as (_ & Hs & He & Hm & _).
  unfold src_ok, data_packet, fcf_mode. cbn [d_saddr].
  destruct (valid_mode_cases _ Hm) as [-> | [-> | ->]]; cbn.
  - left. split; reflexivity.
  - right. left. split; [reflexivity|]. eexists. split; [reflexivity | exact Hs].
  - right. right. split; [reflexivity|]. eexists. split; [reflexivity | exact He].
Qed.

Lemma dst_ok_request a r :
  valid_request a r = true -> q_dam r <> MACAddressMode_NONE ->
  dst_ok (fcf_mode (q_dam r)) (d_daddr (data_packet a r)).
Proof.
  intros H Hn. apply valid_request_parts in H. destruct H as (_ & _ & _ & _ & Hm & _ & Hd).
  unfold dst_ok, fcf_mode.
  destruct (valid_mode_cases _ Hm) as [E | [E | E]]; [contradiction | |]; rewrite E in *; cbn in *.
  - left. split; [reflexivity | exact Hd].
  - right. split; [reflexivity | exact Hd].
Qed.

Lemma compress_bit_01 a r : compress_bit a r = 0 \/ compress_bit a r = 1.
Proof. unfold compress_bit. destruct (_ && _); auto. Qed.

Lemma send_frame_ok a seq wait r :
  valid_mode (q_sam r) = true ->
  send_frame a seq wait r
  = Ok {| f_compress := compress_bit a r; f_ackreq := wait; f_srcmode := fcf_mode (q_sam r);
          f_dstmode := fcf_mode (q_dam r); f_framever := 0; f_seq := seq;
          f_d := data_packet a r; f_payload := q_msdu r |}.
Proof.
  intros Hm. unfold send_frame. rewrite choose_v01 by (left; reflexivity).
  cbn [andb]. unfold compress_bit, sender_view_span, fcf_mode.
  destruct (valid_mode_cases _ Hm) as [E | [E | E]]; rewrite E; cbn;
    rewrite ?andb_false_r; reflexivity.
Qed.

Lemma indicate_built a r seq :
  valid_mode (q_sam r) = true ->
  indicate (built_view a r seq (compress_bit a r)) = expected_indication a r.
Proof.
  intros Hm. unfold indicate, built_view, expected_indication, compress_bit, srcpan_present, fcf_mode, data_packet.
  cbn [v_span v_saddr v_compress v_dpan v_daddr v_payload d_dpan d_daddr d_span d_saddr].
  destruct (valid_mode_cases _ Hm) as [E | [E | E]]; rewrite E; cbn.
  - rewrite ?andb_false_r. cbn. reflexivity.
  - destruct (negb (q_dam r =? MACAddressMode_NONE)); cbn; [|reflexivity].
    match goal with |- context [if (?x =? ?y) then 1 else 0] => destruct (x =? y) eqn:Eq end;
      cbn; [|reflexivity].
    apply N.eqb_eq in Eq. rewrite Eq. reflexivity.
  - destruct (negb (q_dam r =? MACAddressMode_NONE)); cbn; [|reflexivity].
    match goal with |- context [if (?x =? ?y) then 1 else 0] => destruct (x =? y) eqn:Eq end;
      cbn; [|reflexivity].
    apply N.eqb_eq in Eq. rewrite Eq. reflexivity.
Qed.

Theorem indicated_iff_addressed a b r seq wait :
  valid_request a r = true -> seq < 256 -> q_dam r <> MACAddressMode_NONE ->
  exists fr,
    data_request a seq wait r = (Ok fr, (seq + 1) mod 256)
    /\ nth 2 fr 0 = seq
    /\ receive b fr
       = if macPromiscuousMode b
            || addressed b (d_dpan (data_packet a r)) (d_daddr (data_packet a r))
         then RxIndication (expected_indication a r) else RxNothing.
Proof.
  intros Hv Hseq Hdam.
  pose proof (valid_request_parts _ _ Hv) as (_ & _ & _ & Hsm & _ & Hdp & _).
  destruct (build_dissect (compress_bit a r) wait (fcf_mode (q_sam r)) (fcf_mode (q_dam r)) seq
              (d_dpan (data_packet a r)) (d_daddr (data_packet a r)) (d_span (data_packet a r))
              (d_saddr (data_packet a r)) (q_msdu r)
              (compress_bit_01 a r) (dst_ok_request _ _ Hv Hdam) (src_ok_request _ _ Hv) Hseq Hdp
              (span_fits _ _ Hv)) as (fr & Hb & Hn & Hd).
  exists fr. split; [|split; [exact Hn|]].
  - unfold data_request. rewrite (send_frame_ok a seq wait r Hsm).
    destruct (data_packet a r) as [x1 x2 x3 x4] eqn:Ed. cbn [d_dpan d_daddr d_span d_saddr] in Hb.
    rewrite Hb. reflexivity.
  - unfold receive. rewrite Hd. unfold on_pdu. cbn [v_frametype v_data N.eqb Pos.eqb orb].
    rewrite (match_filter_data b _ (d_dpan (data_packet a r)) (d_daddr (data_packet a r)))
      by reflexivity.
    destruct (_ || _); [|reflexivity].
    f_equal. exact (indicate_built a r seq Hsm).
Qed.

(** ** Destination addressing mode NONE (the known finding) *)

Lemma dissect_data_mode0 c sm rest : dissect_data c sm 0 rest = None.
Proof. unfold dissect_data. destruct (take 2 rest) as [[? ?]|]; reflexivity. Qed.

Theorem dest_none_always_indicated a r seq wait :
  valid_request a r = true -> seq < 256 -> q_dam r = MACAddressMode_NONE ->
  exists fr,
    data_request a seq wait r = (Ok fr, (seq + 1) mod 256)
    /\ forall b, receive b fr = RxIndication (skipn 3 fr, None, None, None, None).
Proof.
  intros Hv Hseq Hdam.
  pose proof (valid_request_parts _ _ Hv) as (_ & _ & _ & Hsm & _ & Hdp & _).
  pose proof (span_fits _ _ Hv) as Hsp.
  pose proof (src_ok_request _ _ Hv) as Hs.
  assert (Hseq1 : fits 1 seq = true) by (unfold fits; cbn; apply N.ltb_lt; exact Hseq).
  unfold data_request. rewrite (send_frame_ok a seq wait r Hsm).
  unfold build. cbn [f_compress f_ackreq f_srcmode f_dstmode f_framever f_seq f_d f_payload].
  rewrite Hdam. unfold pack at 1 2. rewrite Hseq1, Hdp. rewrite (le_enc_1 seq Hseq).
  assert (Hc0 : compress_bit a r = 0).
  { unfold compress_bit. rewrite Hdam. reflexivity. }
  rewrite Hc0.
  assert (E1 : addr_field (fcf_mode MACAddressMode_NONE) (Some (d_daddr (data_packet a r))) = Some [])
    by reflexivity.
  rewrite E1.
  assert (E2 : exists e c,
      (if srcpan_present (fcf_mode (q_sam r)) 0 then pack 2 (d_span (data_packet a r)) else Some []) = Some c
      /\ (if fcf_mode (q_sam r) =? 0 then Some []
          else addr_field (fcf_mode (q_sam r)) (d_saddr (data_packet a r))) = Some e).
  { unfold pack, srcpan_present, addr_field, pack.
    destruct Hs as [[-> ->] | [[-> (x & -> & Hx)] | [-> (x & -> & Hx)]]]; cbn [N.eqb Pos.eqb negb andb];
      rewrite ?Hsp, ?Hx; eexists; eexists; split; reflexivity. }
  destruct E2 as (e & c & -> & ->).
  eexists. split; [reflexivity|].
  intros b. unfold receive.
  cbn [dissect app fcf0 fcf1 fcf_mode MACAddressMode_NONE N.eqb].
  assert (Hft : fcf0 0 wait 1 mod 8 = 1) by (destruct wait; reflexivity).
  rewrite Hft. cbn [N.eqb Pos.eqb].
  assert (Hdm : (fcf1 (fcf_mode (q_sam r)) 0 0 / 4) mod 4 = 0).
  { destruct Hs as [[-> _] | [[-> _] | [-> _]]]; reflexivity. }
  rewrite Hdm. rewrite dissect_data_mode0.
  unfold on_pdu. cbn [v_frametype v_data N.eqb Pos.eqb orb].
  rewrite match_filter_no_layer by reflexivity.
  reflexivity.
Qed.

(** ** Witnesses *)

Definition wit_a : pib := {| macPanId := 4660; macShortAddress := 1; macExtendedAddress := 1234605616436508552;
                             macPromiscuousMode := false; macImplicitBroadcast := false |}.
Definition wit_b : pib := {| macPanId := 17185; macShortAddress := 2; macExtendedAddress := 9833440827789222417;
                             macPromiscuousMode := false; macImplicitBroadcast := false |}.
Definition wit_r_none : request := {| q_sam := MACAddressMode_SHORT; q_dam := MACAddressMode_NONE;
                                      q_dpan := Some 39321; q_daddr := None; q_suppressed := false;
                                      q_msdu := [170; 187] |}.

(** a request with destination mode NONE from another PAN is indicated by a peer that is neither
    promiscuous nor in implicit-broadcast mode, and its "payload" starts with the MAC addressing
    fields *)
Lemma dest_none_refuted :
  valid_request wit_a wit_r_none = true
  /\ macPromiscuousMode wit_b = false /\ macImplicitBroadcast wit_b = false
  /\ exists fr, data_request wit_a 7 false wit_r_none = (Ok fr, 8)
     /\ receive wit_b fr = RxIndication ([153; 153; 52; 18; 1; 0; 170; 187], None, None, None, None).
Proof.
  split; [vm_compute; reflexivity|]. split; [reflexivity|]. split; [reflexivity|].
  eexists. split; vm_compute; reflexivity.
Qed.

(** the stale acknowledgement may be 256 frames old: the first acknowledged send (sequence number
    7) fails and is acknowledged late; 255 unacknowledged frames later the counter is 7 again and,
    without the drain, the next acknowledged send succeeds with no acknowledgement at all. *)
Definition wrap_ops : list op :=
  OpSend true [ETimeout; ETimeout; ETimeout; ETimeout; ETimeout; EAck 7]
  :: repeat (OpSend false []) 255 ++ [OpSend true []].

Lemma no_drain_wraparound :
  last (outputs_of (fst (run_gen false {| seqnum := 7; ackq := [] |} wrap_ops))) (0, false) = (7, true)
  /\ last (outputs_of (fst (run {| seqnum := 7; ackq := [] |} wrap_ops))) (0, true) = (7, false).
Proof. split; vm_compute; reflexivity. Qed.

Lemma nonvacuous_addr :
  let r := {| q_sam := MACAddressMode_EXTENDED; q_dam := MACAddressMode_SHORT; q_dpan := Some 4660;
              q_daddr := Some 65535; q_suppressed := false; q_msdu := [1; 2; 3] |} in
  let b := {| macPanId := 4660; macShortAddress := 2; macExtendedAddress := 9833440827789222417;
              macPromiscuousMode := false; macImplicitBroadcast := false |} in
  valid_request wit_a r = true /\ q_dam r <> MACAddressMode_NONE
  /\ compress_bit wit_a r = 1
  /\ addressed b 4660 65535 = true
  /\ addressed wit_b 4660 65535 = false
  /\ fst (data_request wit_a 255 true r)
     = Ok [97; 200; 255; 52; 18; 255; 255; 136; 119; 102; 85; 68; 51; 34; 17; 1; 2; 3]
  /\ snd (data_request wit_a 255 true r) = 0.
Proof. cbv zeta. repeat split; try (vm_compute; reflexivity). discriminate. Qed.

Lemma nonvacuous_ack :
  fresh_ack 9 [EAck 8; ETimeout; ETimeout; ETimeout; ETimeout; EAck 9]
  /\ ~ fresh_ack 9 [EAck 8; ETimeout; ETimeout; ETimeout; ETimeout; ETimeout; EAck 9].
Proof.
  split.
  - exists [EAck 8; ETimeout; ETimeout; ETimeout; ETimeout], []. split; [reflexivity|]. cbn. unfold retry_budget. lia.
  - intros H. apply wait_hist_fresh in H. vm_compute in H. discriminate.
Qed.

(** ** Statement-shaped corollaries used by Property.v *)

Lemma ack_wait_iff_fresh seq h : fst (ack_wait seq [] h) = true <-> fresh_ack seq h.
Proof. rewrite ack_wait_drained. exact (wait_hist_fresh seq h). Qed.

Lemma failure_after_retry_budget seq pre post :
  ~ In (EAck seq) pre -> timeouts pre = 4%nat ->
  wait_hist seq retry_budget (pre ++ ETimeout :: post) = (false, post).
Proof. exact (wait_hist_budget seq pre 4 post). Qed.

Lemma failure_without_matching_ack seq h : ~ In (EAck seq) h -> fst (ack_wait seq [] h) = false.
Proof. intros H. rewrite ack_wait_drained. exact (wait_hist_no_ack seq h 4 H). Qed.

Lemma indicated_refuted :
  exists (a b : pib) (r : request),
    valid_request a r = true
    /\ macPromiscuousMode b = false /\ macImplicitBroadcast b = false
    /\ exists fr, data_request a 7 false r = (Ok fr, 8)
       /\ receive b fr = RxIndication ([153; 153; 52; 18; 1; 0; 170; 187], None, None, None, None).
Proof. exists wit_a, wit_b, wit_r_none. exact dest_none_refuted. Qed.

(** ** The receiving MAC over histories of PIB updates and frames *)

Lemma pib_after_cons p o ops :
  pib_after p (o :: ops)
  = pib_after (match o with RFrame _ => p | RUpd u => apply_update p u end) ops.
Proof. reflexivity. Qed.

Lemma rrun_app : forall pre p post,
  rrun p (pre ++ post) = rrun p pre ++ rrun (pib_after p pre) post.
Proof.
  induction pre as [|o pre IH]; intros p post; [reflexivity|].
  rewrite pib_after_cons. destruct o as [b|u]; cbn [app rrun].
  - rewrite IH. reflexivity.
  - apply IH.
Qed.

Lemma rrun_length : forall ops p, length (rrun p ops) = frames_in ops.
Proof.
  induction ops as [|o ops IH]; intros p; [reflexivity|].
  destruct o as [b|u]; cbn [rrun frames_in length]; [f_equal|]; apply IH.
Qed.

(** every frame of every history is judged with the PIB current when it arrives *)
Lemma history_frame_at p pre b post :
  nth (frames_in pre) (rrun p (pre ++ RFrame b :: post)) RxNothing = receive (pib_after p pre) b.
Proof.
  rewrite rrun_app. rewrite app_nth2 by (rewrite rrun_length; apply Nat.le_refl).
  rewrite rrun_length, Nat.sub_diag. reflexivity.
Qed.

Theorem history_indicated_iff_addressed p0 pre post a r seq wait :
  valid_request a r = true -> seq < 256 -> q_dam r <> MACAddressMode_NONE ->
  exists fr,
    data_request a seq wait r = (Ok fr, (seq + 1) mod 256)
    /\ nth (frames_in pre) (rrun p0 (pre ++ RFrame fr :: post)) RxNothing
       = let cur := pib_after p0 pre in
         if macPromiscuousMode cur
            || addressed cur (d_dpan (data_packet a r)) (d_daddr (data_packet a r))
         then RxIndication (expected_indication a r) else RxNothing.
Proof.
  intros Hv Hs Hd.
  destruct (indicated_iff_addressed a (pib_after p0 pre) r seq wait Hv Hs Hd) as (fr & H1 & _ & H3).
  exists fr. split; [exact H1|]. rewrite history_frame_at. exact H3.
Qed.

(** what each way of writing the PIB leaves in it *)
Lemma update_effects p a v pan short :
  apply_update p (UStart pan) = set_attr p APanId pan
  /\ macPanId (apply_update p (UStart pan)) = pan
  /\ macPanId (apply_update p (UAssocOk pan short)) = pan
  /\ macShortAddress (apply_update p (UAssocOk pan short)) = short
  /\ macPanId (apply_update p (UAssocFail pan)) = 65535
  /\ macPanId (apply_update p (USet APanId v)) = v
  /\ macShortAddress (apply_update p (USet AShort v)) = v
  /\ macExtendedAddress (apply_update p (USet AExt v)) = v
  /\ macPromiscuousMode (apply_update p (USet APromisc v)) = negb (v =? 0)
  /\ apply_update p UReset = pib_default
  /\ (a <> APanId -> macPanId (apply_update p (USet a v)) = macPanId p).
Proof.
  repeat split; try reflexivity. intros Ha. destruct a; try reflexivity. contradiction.
Qed.

(** a peer that moves from PAN 0x1111 to PAN 0x2222 through MLME-START, after having received
    a frame: frames to the new PAN are indicated, frames to the old one are not *)
Definition hist_b : pib := {| macPanId := 4369; macShortAddress := 2; macExtendedAddress := 9833440827789222417;
                              macPromiscuousMode := false; macImplicitBroadcast := false |}.
Definition hist_req (pan : N) : request :=
  {| q_sam := MACAddressMode_SHORT; q_dam := MACAddressMode_SHORT; q_dpan := Some pan; q_daddr := Some 2;
     q_suppressed := false; q_msdu := [1; 2] |}.

Lemma nonvacuous_history :
  fst (hrun wit_a 0 hist_b [HSend (hist_req 4369); HUpd (UStart 8738); HSend (hist_req 8738); HSend (hist_req 4369);
                            HUpd (UAssocFail 13107); HSend (hist_req 65535); HSend (hist_req 8738)])
  = Some [([[1; 136; 0; 17; 17; 2; 0; 52; 18; 1; 0; 1; 2]], [([1; 2], Some 4369, Some 2, Some 4660, Some 1)]);
          ([[1; 136; 1; 34; 34; 2; 0; 52; 18; 1; 0; 1; 2]], [([1; 2], Some 8738, Some 2, Some 4660, Some 1)]);
          ([[1; 136; 2; 17; 17; 2; 0; 52; 18; 1; 0; 1; 2]], []);
          ([[1; 136; 3; 255; 255; 2; 0; 52; 18; 1; 0; 1; 2]], [([1; 2], Some 65535, Some 2, Some 4660, Some 1)]);
          ([[1; 136; 4; 34; 34; 2; 0; 52; 18; 1; 0; 1; 2]], [])].
Proof. vm_compute. reflexivity. Qed.
