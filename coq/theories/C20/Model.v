(** C20 — executable model of the 802.15.4 MAC data path of whad/dot15d4/stack/mac/__init__.py:
    MACDataService.data / indicate_data, MACManager.send_data (header construction, PAN-id
    compression through the GENERATED [choose_panid] of Gen.v, sequence numbering, the
    acknowledgement wait loop with its queue), MACManager.on_pdu / match_filter, and the part of
    scapy's Dot15d4 / Dot15d4Data build and dissection the MAC relies on (a frame travels as
    bytes between two stacks).  No proofs in this file. *)
From Coq Require Import List NArith Arith Bool.
From Whad Require Import Lib.Bytes C20.Gen.
Import ListNotations.
Open Scope N_scope.

(** ---- outcomes ---- *)
Inductive exn := StructError | ExNameError | ExKeyError.
Inductive res (A : Type) := Ok (a : A) | Raise (e : exn).
Arguments Ok {A} a.
Arguments Raise {A} e.

(** ---- little-endian integers of k bytes (struct.pack '<H' / '<Q') ---- *)
Fixpoint le_enc (k : nat) (n : N) : bytes :=
  match k with O => [] | S k' => N.modulo n 256 :: le_enc k' (N.div n 256) end.
Fixpoint le_dec (l : bytes) : N :=
  match l with [] => 0 | b :: r => b + 256 * le_dec r end.
Definition fits (k : nat) (n : N) : bool := N.ltb n (N.pow 256 (N.of_nat k)).
(** struct.pack raises struct.error when the value does not fit (or is None) *)
Definition pack (k : nat) (n : N) : option bytes := if fits k n then Some (le_enc k n) else None.

(** ---- MAC PIB (the attributes the data path reads) ---- *)
Record pib := { macPanId : N; macShortAddress : N; macExtendedAddress : N;
                macPromiscuousMode : bool; macImplicitBroadcast : bool }.

(** ---- MCPS-DATA.request parameters (MACDataService.data) ---- *)
Record request := { q_sam : N; q_dam : N; q_dpan : option N; q_daddr : option N;
                    q_suppressed : bool; q_msdu : bytes }.

(** The Dot15d4Data layer [data] builds: dest_panid/dest_addr keep scapy's defaults 0xFFFF when the
    parameter is None; src_panid is macPanId unless pan_id_suppressed (then scapy's default 0);
    src_addr by source mode. *)
Record dpacket := { d_dpan : N; d_daddr : N; d_span : N; d_saddr : option N }.

Definition data_packet (p : pib) (r : request) : dpacket :=
  {| d_dpan := match q_dpan r with Some x => x | None => 65535 end;
     d_daddr := match q_daddr r with Some x => x | None => 65535 end;
     d_span := if q_suppressed r then 0 else macPanId p;
     d_saddr := if q_sam r =? MACAddressMode_SHORT then Some (macShortAddress p)
                else if q_sam r =? MACAddressMode_EXTENDED then Some (macExtendedAddress p)
                else None |}.

(** send_data: MACAddressMode -> fcf address mode *)
Definition fcf_mode (m : N) : N :=
  if m =? MACAddressMode_NONE then 0 else if m =? MACAddressMode_SHORT then 2 else 3.

Record frame := { f_compress : N; f_ackreq : bool; f_srcmode : N; f_dstmode : N; f_framever : N;
                  f_seq : N; f_d : dpacket; f_payload : bytes }.

(** [packet.src_panid] as Python reads it on the packet under construction: the field is
    conditional on fcf_srcaddrmode != 0 and fcf_panidcompress == 0 (still 0 at that point);
    an absent conditional field reads None. *)
Definition sender_view_span (srcmode : N) (d : dpacket) : option N :=
  if srcmode =? 0 then None else Some (d_span d).

(** send_data up to the point the frame is handed to the PHY. The Dot15d4 header it creates has
    the default frame version 0. *)
Definition send_frame (p : pib) (seq : N) (wait : bool) (r : request) : res frame :=
  let d := data_packet p r in
  let sm := fcf_mode (q_sam r) in
  let dm := fcf_mode (q_dam r) in
  match choose_panid 0 (q_dam r) (q_sam r) true true (Some (d_dpan d)) (sender_view_span sm d) with
  | COk c => Ok {| f_compress := c; f_ackreq := wait; f_srcmode := sm; f_dstmode := dm; f_framever := 0;
                   f_seq := seq; f_d := d; f_payload := q_msdu r |}
  | CRaise NameError => Raise ExNameError
  | CRaise KeyError => Raise ExKeyError
  end.

(** scapy build of Dot15d4 / Dot15d4Data / Raw(msdu) *)
Definition addr_field (mode : N) (v : option N) : option bytes :=
  if mode =? 2 then match v with Some x => pack 2 x | None => None end
  else if mode =? 3 then match v with Some x => pack 8 x | None => None end
  else Some [].

Definition srcpan_present (srcmode compress : N) : bool := negb (srcmode =? 0) && (compress =? 0).

Definition fcf0 (compress : N) (ackreq : bool) (frametype : N) : N :=
  compress * 64 + (if ackreq then 32 else 0) + frametype.
Definition fcf1 (srcmode framever dstmode : N) : N := srcmode * 64 + framever * 16 + dstmode * 4.

Definition build (f : frame) : res bytes :=
  let d := f_d f in
  match pack 1 (f_seq f), pack 2 (d_dpan d), addr_field (f_dstmode f) (Some (d_daddr d)),
        (if srcpan_present (f_srcmode f) (f_compress f) then pack 2 (d_span d) else Some []),
        (if f_srcmode f =? 0 then Some [] else addr_field (f_srcmode f) (d_saddr d)) with
  | Some s, Some a, Some b, Some c, Some e =>
      Ok (fcf0 (f_compress f) (f_ackreq f) 1 :: fcf1 (f_srcmode f) (f_framever f) (f_dstmode f)
          :: s ++ a ++ b ++ c ++ e ++ f_payload f)
  | _, _, _, _, _ => Raise StructError
  end.

(** MCPS-DATA.request without the acknowledgement wait: (what reaches the PHY, next
    macDataSequenceNumber).  The PAN-id compression choice precedes the sequence number update,
    the serialisation (where struct.error can arise) follows it. *)
Definition data_request (p : pib) (seq : N) (wait : bool) (r : request) : res bytes * N :=
  match send_frame p seq wait r with
  | Raise e => (Raise e, seq)
  | Ok f => (build f, (seq + 1) mod 256)
  end.

(** ---- the receiving side: Dot15d4(bytes) ---- *)

(** The dissected view of a frame, i.e. what [hasattr]/[getattr] on the scapy packet give.
    [v_data] = a Dot15d4Data layer exists; then hasattr(pdu, "dest_panid"/"dest_addr"/"src_panid"/
    "src_addr") are all True, and an absent conditional field reads None. Without it (frame type
    other than data, or the layer could not be dissected and became Raw) they are all False.
    Beacon and command frames (types 0 and 3) have layers of their own and are not modelled. *)
Record view := { v_frametype : N; v_compress : N; v_seq : N; v_data : bool;
                 v_dpan : option N; v_daddr : option N; v_span : option N; v_saddr : option N;
                 v_payload : bytes }.

Definition take (k : nat) (l : bytes) : option (N * bytes) :=
  if (k <=? length l)%nat then Some (le_dec (firstn k l), skipn k l) else None.

Definition addr_len (mode : N) : option nat :=
  if mode =? 2 then Some 2%nat else if mode =? 3 then Some 8%nat else None.

(** Dot15d4Data dissection; None = an exception inside the layer (scapy then keeps the bytes as Raw):
    dest_panid is unconditional, dest_addr raises for address modes 0/1, src fields by source mode. *)
Definition dissect_data (compress srcmode dstmode : N) (rest : bytes)
  : option (N * N * option N * option N * bytes) :=
  match take 2 rest with
  | None => None
  | Some (dpan, r1) =>
    match addr_len dstmode with
    | None => None
    | Some kd =>
      match take kd r1 with
      | None => None
      | Some (daddr, r2) =>
        match (if srcpan_present srcmode compress
               then match take 2 r2 with Some (x, r) => Some (Some x, r) | None => None end
               else Some (None, r2)) with
        | None => None
        | Some (span, r3) =>
          if srcmode =? 0 then Some (dpan, daddr, span, None, r3)
          else match addr_len srcmode with
               | None => None
               | Some ks =>
                 match take ks r3 with
                 | None => None
                 | Some (saddr, r4) => Some (dpan, daddr, span, Some saddr, r4)
                 end
               end
        end
      end
    end
  end.

(** None = Dot15d4(bytes) raises struct.error (fewer than 3 bytes): the connector drops the frame. *)
Definition dissect (b : bytes) : option view :=
  match b with
  | b0 :: b1 :: s :: rest =>
      let ft := b0 mod 8 in
      let compress := (b0 / 64) mod 2 in
      let srcmode := (b1 / 64) mod 4 in
      let dstmode := (b1 / 4) mod 4 in
      let raw := {| v_frametype := ft; v_compress := compress; v_seq := s; v_data := false;
                    v_dpan := None; v_daddr := None; v_span := None; v_saddr := None;
                    v_payload := rest |} in
      if ft =? 1 then
        match dissect_data compress srcmode dstmode rest with
        | Some (dpan, daddr, span, saddr, pl) =>
            Some {| v_frametype := ft; v_compress := compress; v_seq := s; v_data := true;
                    v_dpan := Some dpan; v_daddr := Some daddr; v_span := span; v_saddr := saddr;
                    v_payload := pl |}
        | None => Some raw
        end
      else Some raw
  | _ => None
  end.

(** MACManager.match_filter, branch by branch, on the dissected view. *)
Definition match_filter (p : pib) (v : view) : bool :=
  let has_dp := v_data v in
  let has_da := v_data v in
  let has_sp := v_data v in
  if macPromiscuousMode p then true
  else if negb has_dp && negb has_da && macImplicitBroadcast p then true
  else if negb has_dp && negb has_da && has_sp && negb (optN_eqb (v_span v) (Some (macPanId p))) then false
  else if has_dp && (negb (optN_eqb (v_dpan v) (Some (macPanId p))) && negb (optN_eqb (v_dpan v) (Some 65535)))
       then false
  else if has_da && (negb (optN_eqb (v_daddr v) (Some (macShortAddress p)))
                     && negb (optN_eqb (v_daddr v) (Some (macExtendedAddress p)))
                     && negb (optN_eqb (v_daddr v) (Some 65535)))
       then false
  else true.

(** MCPS-DATA.indication: (payload, destination PAN id, destination address, source PAN id,
    source address).  An elided source PAN id (PAN-id compression) is the destination one. *)
Definition indication := (bytes * option N * option N * option N * option N)%type.

Definition indicate (v : view) : indication :=
  let span := match v_span v, v_saddr v with
              | None, Some _ => if negb (v_compress v =? 0) then v_dpan v else None
              | s, _ => s
              end in
  (v_payload v, v_dpan v, v_daddr v, span, v_saddr v).

Inductive rx_out := RxNothing | RxIndication (i : indication) | RxAck (seq : N) | RxUnmodelled.

(** MACManager.on_pdu *)
Definition on_pdu (p : pib) (v : view) : rx_out :=
  if (v_frametype v =? 0) || (v_frametype v =? 3) then RxUnmodelled
  else if match_filter p v then
    if (v_frametype v =? 1) || v_data v then RxIndication (indicate v)
    else if v_frametype v =? 2 then RxAck (v_seq v)
    else RxNothing
  else RxNothing.

Definition receive (p : pib) (b : bytes) : rx_out :=
  match dissect b with None => RxNothing | Some v => on_pdu p v end.

(** ---- the property's vocabulary ---- *)

(** The frame is addressed to the peer: its PAN or the broadcast PAN, and its short or extended
    address or the broadcast address. *)
Definition addressed (p : pib) (dpan daddr : N) : bool :=
  ((dpan =? macPanId p) || (dpan =? 65535))
  && ((daddr =? macShortAddress p) || (daddr =? macExtendedAddress p) || (daddr =? 65535)).

(** What the peer must be told: the payload and the addressing of the request. *)
Definition expected_indication (a : pib) (r : request) : indication :=
  let d := data_packet a r in
  (q_msdu r, Some (d_dpan d), Some (d_daddr d),
   (if q_sam r =? MACAddressMode_NONE then None else Some (d_span d)), d_saddr d).

Definition valid_mode (m : N) : bool :=
  (m =? MACAddressMode_NONE) || (m =? MACAddressMode_SHORT) || (m =? MACAddressMode_EXTENDED).

Definition valid_pib (p : pib) : bool :=
  fits 2 (macPanId p) && fits 2 (macShortAddress p) && fits 8 (macExtendedAddress p).

(** The request's values fit the fields of the chosen modes. *)
Definition valid_request (a : pib) (r : request) : bool :=
  let d := data_packet a r in
  valid_pib a && valid_mode (q_sam r) && valid_mode (q_dam r) && fits 2 (d_dpan d)
  && (if q_dam r =? MACAddressMode_SHORT then fits 2 (d_daddr d) else fits 8 (d_daddr d)).

(** ---- acknowledged transmission ---- *)

(** What happens while send_data waits: an acknowledgement with sequence number [s] reaches the
    MAC (any acknowledgement passes match_filter and is queued), or a whole macAckTimeout window
    elapses with the queue empty. After the history no acknowledgement ever arrives. *)
Inductive ev := EAck (s : N) | ETimeout.

Definition retry_budget : nat := 5.

Fixpoint acks_of (h : list ev) : list N :=
  match h with [] => [] | EAck s :: r => s :: acks_of r | ETimeout :: r => acks_of r end.

(** acknowledgements already queued are taken first (wait_for_ack pops the queue) *)
Fixpoint wait_queue (seq : N) (q : list N) : option (list N) :=
  match q with
  | [] => None
  | s :: q' => if s =? seq then Some q' else wait_queue seq q'
  end.

(** then the loop lives on what arrives: a non-matching acknowledgement is discarded without
    touching the counter, a timeout decrements it, and at 0 the request fails. Result and the
    part of the history that lies after the return. *)
Fixpoint wait_hist (seq : N) (budget : nat) (h : list ev) : bool * list ev :=
  match h with
  | [] => (false, [])
  | EAck s :: h' => if s =? seq then (true, h') else wait_hist seq budget h'
  | ETimeout :: h' =>
      match budget with
      | S (S k) => wait_hist seq (S k) h'
      | _ => (false, h')
      end
  end.

(** the wait loop of send_data on a queue [q]: (return value, queue afterwards — acknowledgements
    that arrive after the return stay queued). *)
Definition ack_wait (seq : N) (q : list N) (h : list ev) : bool * list N :=
  match wait_queue seq q with
  | Some q' => (true, q' ++ acks_of h)
  | None => let '(r, rest) := wait_hist seq retry_budget h in (r, acks_of rest)
  end.

Record mac_state := { seqnum : N; ackq : list N }.

(** What the MAC's user and the air do: a data request (acknowledged or not) with the history of
    its wait, or an acknowledgement overheard while idle. *)
Inductive op := OpSend (wait : bool) (h : list ev) | OpOverhear (s : N).

(** [drain] = the acknowledgement queue is emptied right before an acknowledged frame is handed
    to the PHY (the code does; [drain = false] is the code before the repair). Output of a send:
    (sequence number of the frame, return value). *)
Definition step_gen (drain : bool) (st : mac_state) (o : op) : option (N * bool) * mac_state :=
  match o with
  | OpOverhear s => (None, {| seqnum := seqnum st; ackq := ackq st ++ [s] |})
  | OpSend wait h =>
      let seq := seqnum st in
      let seq' := (seq + 1) mod 256 in
      if wait then
        let '(r, q') := ack_wait seq (if drain then [] else ackq st) h in
        (Some (seq, r), {| seqnum := seq'; ackq := q' |})
      else (Some (seq, true), {| seqnum := seq'; ackq := ackq st ++ acks_of h |})
  end.

Definition step := step_gen true.

Fixpoint run_gen (drain : bool) (st : mac_state) (ops : list op) : list (option (N * bool)) * mac_state :=
  match ops with
  | [] => ([], st)
  | o :: r => let '(x, st1) := step_gen drain st o in
              let '(xs, st2) := run_gen drain st1 r in (x :: xs, st2)
  end.

Definition run := run_gen true.

(** Specification side: timeouts seen so far, and "an acknowledgement carrying the frame's
    sequence number is received after the frame was sent, before the retry budget is spent". *)
Fixpoint timeouts (h : list ev) : nat :=
  match h with [] => O | ETimeout :: r => S (timeouts r) | EAck _ :: r => timeouts r end.

Definition fresh_ack (seq : N) (h : list ev) : Prop :=
  exists pre post, h = pre ++ EAck seq :: post /\ (timeouts pre < retry_budget)%nat.

(** the sends of an operation list, with the history each one sees *)
Fixpoint sends_of (ops : list op) : list (bool * list ev) :=
  match ops with
  | [] => []
  | OpSend w h :: r => (w, h) :: sends_of r
  | OpOverhear _ :: r => sends_of r
  end.

Fixpoint outputs_of (outs : list (option (N * bool))) : list (N * bool) :=
  match outs with [] => [] | Some x :: r => x :: outputs_of r | None :: r => outputs_of r end.

(** one send against its specification: the frame carries [seq]; an acknowledged send reports
    success exactly when a fresh matching acknowledgement arrived in time, an unacknowledged one
    reports success. *)
Definition send_ok (seq : N) (wh : bool * list ev) (out : N * bool) : Prop :=
  fst out = seq /\ (if fst wh then (snd out = true <-> fresh_ack seq (snd wh)) else snd out = true).

Fixpoint sends_spec (seq : N) (ws : list (bool * list ev)) (outs : list (N * bool)) : Prop :=
  match ws, outs with
  | [], [] => True
  | w :: ws', o :: outs' => send_ok seq w o /\ sends_spec ((seq + 1) mod 256) ws' outs'
  | _, _ => False
  end.

(** the view the peer's dissector must obtain from the frame of a request (compression bit [c]) *)
Definition built_view (a : pib) (r : request) (seq c : N) : view :=
  let d := data_packet a r in
  {| v_frametype := 1; v_compress := c; v_seq := seq; v_data := true;
     v_dpan := Some (d_dpan d); v_daddr := Some (d_daddr d);
     v_span := if srcpan_present (fcf_mode (q_sam r)) c then Some (d_span d) else None;
     v_saddr := d_saddr d; v_payload := q_msdu r |}.

(** the PAN-id compression bit of a request's frame (frame versions 0 and 1) *)
Definition compress_bit (a : pib) (r : request) : N :=
  let d := data_packet a r in
  if negb (q_dam r =? MACAddressMode_NONE) && negb (q_sam r =? MACAddressMode_NONE)
     && (d_dpan d =? d_span d) then 1 else 0.

(** ---- the receiving MAC over time: PIB updates interleaved with frames ---- *)

(** The PIB attributes the receive filter depends on. *)
Inductive attr := APanId | AShort | AExt | APromisc | AImplicit.

(** Ways the PIB of a running MAC is written:
    [USet]       MLME-SET, a direct [database.set] (what the connectors and the upper layers do),
                 MACManager.set_short_address / set_extended_address;
    [UStart]     MLME-START (writes macPanId straight into the PIB);
    [UAssocFail] MLME-ASSOCIATE that ends in a MACAssociationFailure (no acknowledgement, no or a
                 negative response): macPanId is first set to the coordinator's, then to 0xFFFF;
    [UAssocOk]   MLME-ASSOCIATE answered with status 0: macPanId = coordinator's PAN, the
                 short address is the allocated one;
    [UReset]     MLME-RESET: every attribute back to its default. *)
Inductive update :=
| USet (a : attr) (v : N)
| UStart (pan : N)
| UAssocFail (pan : N)
| UAssocOk (pan short : N)
| UReset.

Definition pib_default : pib :=
  {| macPanId := 65535; macShortAddress := 65535; macExtendedAddress := 1234605616436508552;
     macPromiscuousMode := false; macImplicitBroadcast := false |}.

Definition set_attr (p : pib) (a : attr) (v : N) : pib :=
  match a with
  | APanId => {| macPanId := v; macShortAddress := macShortAddress p; macExtendedAddress := macExtendedAddress p;
                 macPromiscuousMode := macPromiscuousMode p; macImplicitBroadcast := macImplicitBroadcast p |}
  | AShort => {| macPanId := macPanId p; macShortAddress := v; macExtendedAddress := macExtendedAddress p;
                 macPromiscuousMode := macPromiscuousMode p; macImplicitBroadcast := macImplicitBroadcast p |}
  | AExt => {| macPanId := macPanId p; macShortAddress := macShortAddress p; macExtendedAddress := v;
               macPromiscuousMode := macPromiscuousMode p; macImplicitBroadcast := macImplicitBroadcast p |}
  | APromisc => {| macPanId := macPanId p; macShortAddress := macShortAddress p;
                   macExtendedAddress := macExtendedAddress p;
                   macPromiscuousMode := negb (v =? 0); macImplicitBroadcast := macImplicitBroadcast p |}
  | AImplicit => {| macPanId := macPanId p; macShortAddress := macShortAddress p;
                    macExtendedAddress := macExtendedAddress p;
                    macPromiscuousMode := macPromiscuousMode p; macImplicitBroadcast := negb (v =? 0) |}
  end.

Definition apply_update (p : pib) (u : update) : pib :=
  match u with
  | USet a v => set_attr p a v
  | UStart pan => set_attr p APanId pan
  | UAssocFail _ => set_attr p APanId 65535
  | UAssocOk pan short => set_attr (set_attr p APanId pan) AShort short
  | UReset => pib_default
  end.

(** What happens to a receiving MAC: a frame arrives on its PHY, or its PIB is written. The code
    keeps NO state between frames besides the PIB (match_filter reads it for every frame). *)
Inductive rop := RFrame (b : bytes) | RUpd (u : update).

(** one outcome per frame, each computed with the PIB current at that time *)
Fixpoint rrun (p : pib) (ops : list rop) : list rx_out :=
  match ops with
  | [] => []
  | RFrame b :: r => receive p b :: rrun p r
  | RUpd u :: r => rrun (apply_update p u) r
  end.

(** specification side: the PIB after a prefix of the history, and the number of frames in it *)
Definition pib_after (p : pib) (ops : list rop) : pib :=
  fold_left (fun q o => match o with RFrame _ => q | RUpd u => apply_update q u end) ops p.

Fixpoint frames_in (ops : list rop) : nat :=
  match ops with [] => O | RFrame _ :: r => S (frames_in r) | RUpd _ :: r => frames_in r end.

(** back-to-back history: the sender's data requests interleaved with updates of the receiver's PIB.
    Per request: (frames handed to the PHY, indications on the peer); None = a frame type the
    model does not cover. Also the receiver's PIB at the end. *)
Inductive hop := HSend (r : request) | HUpd (u : update).

Fixpoint hrun (a : pib) (seq : N) (b : pib) (ops : list hop)
  : option (list (list bytes * list indication)) * pib :=
  match ops with
  | [] => (Some [], b)
  | HUpd u :: r => hrun a seq (apply_update b u) r
  | HSend q :: r =>
      let '(res, seq') := data_request a seq false q in
      let '(rest, bend) := hrun a seq' b r in
      let here := match res with
                  | Raise _ => Some ([], [])
                  | Ok fr => match receive b fr with
                             | RxIndication i => Some ([fr], [i])
                             | RxUnmodelled => None
                             | _ => Some ([fr], [])
                             end
                  end in
      (match here, rest with Some h, Some t => Some (h :: t) | _, _ => None end, bend)
  end.

(** ---- correspondence entry points (evaluated by the harness with vm_compute) ---- *)

Definition optN_list_eqb (a b : list (option N)) : bool :=
  (length a =? length b)%nat && forallb (fun xy => optN_eqb (fst xy) (snd xy)) (combine a b).

Definition indication_eqb (a b : indication) : bool :=
  let '(pa, a1, a2, a3, a4) := a in
  let '(pb, b1, b2, b3, b4) := b in
  bytes_eqb pa pb && optN_eqb a1 b1 && optN_eqb a2 b2 && optN_eqb a3 b3 && optN_eqb a4 b4.

Fixpoint indications_eqb (a b : list indication) : bool :=
  match a, b with
  | [], [] => true
  | x :: a', y :: b' => indication_eqb x y && indications_eqb a' b'
  | _, _ => false
  end.

Fixpoint frames_eqb (a b : list bytes) : bool :=
  match a, b with
  | [], [] => true
  | x :: a', y :: b' => bytes_eqb x y && frames_eqb a' b'
  | _, _ => false
  end.

Definition exn_code (e : exn) : N := match e with StructError => 1 | ExNameError => 2 | ExKeyError => 3 end.

(** addressing case: sender PIB, receiver PIB, request, macDataSequenceNumber before;
    observed: exception code (0 = none), frames handed to the PHY, indications on the peer,
    macDataSequenceNumber after. *)
Definition addr_case := (pib * pib * request * N * (N * list bytes * list indication * N))%type.

Definition check_addr (c : addr_case) : bool :=
  let '(a, b, r, seq, (oexc, oframes, oind, oseq)) := c in
  match data_request a seq false r with
  | (Ok fr, seq') =>
      (oexc =? 0) && frames_eqb oframes [fr] && (oseq =? seq')
      && match receive b fr with
         | RxIndication i => indications_eqb oind [i]
         | RxUnmodelled => false
         | _ => indications_eqb oind []
         end
  | (Raise e, seq') => (oexc =? exn_code e) && frames_eqb oframes [] && indications_eqb oind [] && (oseq =? seq')
  end.

(** raw-frame case: receiver PIB, frames put on its PHY; observed indications and the sequence
    numbers of the acknowledgements queued. *)
Fixpoint receive_all (p : pib) (fs : list bytes) : option (list indication * list N) :=
  match fs with
  | [] => Some ([], [])
  | f :: r =>
      match receive_all p r with
      | None => None
      | Some (is, qs) =>
          match receive p f with
          | RxNothing => Some (is, qs)
          | RxIndication i => Some (i :: is, qs)
          | RxAck s => Some (is, s :: qs)
          | RxUnmodelled => None
          end
      end
  end.

Definition raw_case := (pib * list bytes * (list indication * list N))%type.

Definition Nlist_eqb (a b : list N) : bool :=
  (length a =? length b)%nat && forallb (fun xy => fst xy =? snd xy) (combine a b).

Definition check_raw (c : raw_case) : bool :=
  let '(p, fs, (oind, oacks)) := c in
  match receive_all p fs with
  | Some (is, qs) => indications_eqb oind is && Nlist_eqb oacks qs
  | None => false
  end.

(** acknowledgement case: macDataSequenceNumber before, operations; observed: for every send the
    sequence number of its frame and the return value. *)
Definition ack_case := (N * list op * list (N * bool))%type.

Definition out_eqb (a b : N * bool) : bool := (fst a =? fst b) && Bool.eqb (snd a) (snd b).

Fixpoint outs_eqb (a b : list (N * bool)) : bool :=
  match a, b with
  | [], [] => true
  | x :: a', y :: b' => out_eqb x y && outs_eqb a' b'
  | _, _ => false
  end.

Definition check_ack (c : ack_case) : bool :=
  let '(seq0, ops, obs) := c in
  outs_eqb (outputs_of (fst (run {| seqnum := seq0; ackq := [] |} ops))) obs.

(** translator validation: the inputs of [choose_panid] as Python evaluated them on the packet
    (frame version, modes, hasattr dest/src PAN id, their values) and the observed outcome:
    0/1 = the bit stored, 2 = NameError, 3 = KeyError. *)
Definition choose_case := (N * N * N * bool * bool * option N * option N * N)%type.

Definition check_choose (c : choose_case) : bool :=
  let '(fv, dam, sam, hd, hs, dp, sp, obs) := c in
  match choose_panid fv dam sam hd hs dp sp with
  | COk bit => obs =? bit
  | CRaise NameError => obs =? 2
  | CRaise KeyError => obs =? 3
  end.

(** the table as the interpreter holds it (sorted), compared with the generated one *)
Definition table_row_eqb (a b : panid_key * N) : bool := panid_key_eqb (fst a) (fst b) && (snd a =? snd b).

Fixpoint table_eqb (a b : list (panid_key * N)) : bool :=
  match a, b with
  | [], [] => true
  | x :: a', y :: b' => table_row_eqb x y && table_eqb a' b'
  | _, _ => false
  end.

Definition check_table (c : list (panid_key * N) * bool) : bool :=
  table_eqb (fst c) panid_table && Bool.eqb (snd c) panid_table_bound_in_mac_module.

(** history case: sender PIB, receiver's initial PIB, macDataSequenceNumber of the sender, operations;
    observed: per data request (frames handed to the PHY, indications on the peer), and the
    receiver's PIB at the end. *)
Definition hist_case := (pib * pib * N * list hop * (list (list bytes * list indication) * pib))%type.

Definition pib_eqb (a b : pib) : bool :=
  (macPanId a =? macPanId b) && (macShortAddress a =? macShortAddress b)
  && (macExtendedAddress a =? macExtendedAddress b)
  && Bool.eqb (macPromiscuousMode a) (macPromiscuousMode b)
  && Bool.eqb (macImplicitBroadcast a) (macImplicitBroadcast b).

Fixpoint steps_eqb (a b : list (list bytes * list indication)) : bool :=
  match a, b with
  | [], [] => true
  | (f1, i1) :: a', (f2, i2) :: b' => frames_eqb f1 f2 && indications_eqb i1 i2 && steps_eqb a' b'
  | _, _ => false
  end.

Definition check_hist (c : hist_case) : bool :=
  let '(a, b, seq, ops, (osteps, opib)) := c in
  match hrun a seq b ops with
  | (Some steps, bend) => steps_eqb steps osteps && pib_eqb bend opib
  | (None, _) => false
  end.
