(** C20 — the Gallina generated from MACManager.send_data
    (whad/dot15d4/stack/mac/__init__.py) by harness/translators/pyfun.py (snapshot: GenPy.v;
    regenerated and re-checked against this very file on every run) is EQUAL to the sequence
    number update and the acknowledgement-wait counter arithmetic of the hand-written model.
    (theories/C20/Gen.v is the PAN-id compression table of the property's own translator.) *)
From Coq Require Import List NArith ZArith Arith Bool Lia ZifyBool ZifyN ZifyNat.
From Whad Require Import Lib.Bytes Lib.PyOps C20.Gen C20.Model.
From Whad Require Import C20.GenPy.
Import ListNotations.
Ltac Zify.zify_post_hook ::= Z.to_euclidean_division_equations.
Open Scope nat_scope.

Lemma gen_seq_next_eq seq wc na a : gen_seq_next seq wc na a = ((seq + 1) mod 256)%N.
Proof. unfold gen_seq_next. py_arith. Qed.

Lemma gen_wait_init_eq seq wc na a : gen_wait_init seq wc na a = retry_budget.
Proof. unfold gen_wait_init. py_arith. Qed.

Lemma gen_wait_dec_eq seq wc na a : gen_wait_dec seq wc na a = wc - 1.
Proof. unfold gen_wait_dec. py_arith. Qed.

Lemma gen_wait_spent_eq seq wc na a : gen_wait_spent seq wc na a = (wc <=? 0).
Proof. unfold gen_wait_spent. py_arith. Qed.

Lemma gen_wait_again_eq seq wc na a : gen_wait_again seq wc na a = (na || negb (a =? seq)%N).
Proof. unfold gen_wait_again. py_arith. Qed.

(** the counter never underflows while the loop runs (it is tested right after each decrement) *)
Lemma gen_wait_dec_pre_ok seq wc na a : 1 <= wc -> gen_wait_dec_pre seq wc na a.
Proof. intros H. unfold gen_wait_dec_pre. exact H. Qed.

(** The wait loop over the generated pieces: hand-written are the shape of the history (an
    acknowledgement arrives / a timeout elapses) and the two exits. *)
Fixpoint wait_hist_gen (seq : N) (wc : nat) (h : list ev) : bool * list ev :=
  match h with
  | [] => (false, [])
  | EAck s :: h' =>
      if gen_wait_again seq wc false s then wait_hist_gen seq wc h' else (true, h')
  | ETimeout :: h' =>
      let wc' := gen_wait_dec seq wc true 0 in
      if gen_wait_spent seq wc' true 0 then (false, h') else wait_hist_gen seq wc' h'
  end.

Lemma wait_hist_gen_eq seq h : forall wc, wait_hist_gen seq wc h = wait_hist seq wc h.
Proof.
  induction h as [|e h IH]; intros wc; [reflexivity|].
  destruct e as [s|]; cbn [wait_hist_gen wait_hist].
  - rewrite gen_wait_again_eq. cbn [orb]. destruct (s =? seq)%N; cbn [negb]; [reflexivity | apply IH].
  - cbv zeta. rewrite gen_wait_dec_eq, gen_wait_spent_eq.
    destruct wc as [|[|k]]; cbn [Nat.sub Nat.leb]; try reflexivity.
    apply IH.
Qed.

(** [ack_wait] and one acknowledged / unacknowledged send of the model over the generated pieces *)
Definition ack_wait_gen (seq : N) (q : list N) (h : list ev) : bool * list N :=
  match wait_queue seq q with
  | Some q' => (true, q' ++ acks_of h)
  | None => let '(r, rest) := wait_hist_gen seq (gen_wait_init seq 0 true 0) h in (r, acks_of rest)
  end.

Lemma ack_wait_gen_eq seq q h : ack_wait_gen seq q h = ack_wait seq q h.
Proof. unfold ack_wait_gen, ack_wait. rewrite wait_hist_gen_eq, gen_wait_init_eq. reflexivity. Qed.

Definition step_gen_py (drain : bool) (st : mac_state) (o : op) : option (N * bool) * mac_state :=
  match o with
  | OpOverhear s => (None, {| seqnum := seqnum st; ackq := ackq st ++ [s] |})
  | OpSend wait h =>
      let seq := seqnum st in
      let seq' := gen_seq_next seq 0 true 0 in
      if wait then
        let '(r, q') := ack_wait_gen seq (if drain then [] else ackq st) h in
        (Some (seq, r), {| seqnum := seq'; ackq := q' |})
      else (Some (seq, true), {| seqnum := seq'; ackq := ackq st ++ acks_of h |})
  end.

Lemma step_gen_py_eq drain st o : step_gen_py drain st o = step_gen drain st o.
Proof.
  destruct o as [wait h|s]; [|reflexivity].
  unfold step_gen_py, step_gen. cbv zeta. rewrite gen_seq_next_eq, ack_wait_gen_eq. reflexivity.
Qed.

(** the unacknowledged data request: next macDataSequenceNumber *)
Lemma data_request_next_seq p seq wait r :
  snd (data_request p seq wait r)
  = match send_frame p seq wait r with Raise _ => seq | Ok _ => gen_seq_next seq 0 true 0 end.
Proof. unfold data_request. destruct (send_frame p seq wait r); reflexivity. Qed.
