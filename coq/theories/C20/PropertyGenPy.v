(** C20 — tie between the source and the model, as theorems (each closed by [exact]; see
    GenPyEq.v).  [gen_*] are the definitions of GenPy.v, generated from MACManager.send_data
    (whad/dot15d4/stack/mac/__init__.py) by harness/translators/pyfun.py; the check regenerates
    them on every run and re-checks these statements against the regenerated text. *)
From Coq Require Import List NArith Arith Bool.
From Whad Require Import Lib.Bytes Lib.PyOps C20.Gen C20.Model.
From Whad Require Import C20.GenPy C20.GenPyEq.
Import ListNotations.
Open Scope nat_scope.

(** [(sequence_number + 1) % 256], [wait_counter = 5], [wait_counter - 1], [wait_counter <= 0] and
    [ack is None or ack.seqnum != sequence_number] are the terms the model uses. *)
Theorem C20_gen_send_data_arith_eq :
  forall (seq : N) (wc : nat) (no_ack : bool) (ack_seq : N),
    gen_seq_next seq wc no_ack ack_seq = ((seq + 1) mod 256)%N
    /\ gen_wait_init seq wc no_ack ack_seq = retry_budget
    /\ gen_wait_dec seq wc no_ack ack_seq = wc - 1
    /\ gen_wait_spent seq wc no_ack ack_seq = (wc <=? 0)
    /\ gen_wait_again seq wc no_ack ack_seq = (no_ack || negb (ack_seq =? seq)%N).
Proof.
  exact (fun seq wc na a => conj (gen_seq_next_eq seq wc na a) (conj (gen_wait_init_eq seq wc na a)
         (conj (gen_wait_dec_eq seq wc na a) (conj (gen_wait_spent_eq seq wc na a) (gen_wait_again_eq seq wc na a))))).
Qed.

Theorem C20_gen_wait_dec_domain :
  forall (seq : N) (wc : nat) (no_ack : bool) (ack_seq : N), 1 <= wc -> gen_wait_dec_pre seq wc no_ack ack_seq.
Proof. exact gen_wait_dec_pre_ok. Qed.

(** The model's wait loop is the hand-written history skeleton (GenPyEq.v) over the generated
    counter arithmetic and loop test — for every sequence number, counter value and history. *)
Theorem C20_gen_wait_hist_eq :
  forall (seq : N) (h : list ev) (wc : nat), wait_hist_gen seq wc h = wait_hist seq wc h.
Proof. exact wait_hist_gen_eq. Qed.

Theorem C20_gen_ack_wait_eq :
  forall (seq : N) (q : list N) (h : list ev), ack_wait_gen seq q h = ack_wait seq q h.
Proof. exact ack_wait_gen_eq. Qed.

(** ... and so is one step of the MAC (sequence number update included), with or without the
    queue drain, and the next sequence number of an unacknowledged data request. *)
Theorem C20_gen_step_eq :
  forall (drain : bool) (st : mac_state) (o : op), step_gen_py drain st o = step_gen drain st o.
Proof. exact step_gen_py_eq. Qed.

Theorem C20_gen_data_request_next_seq :
  forall (p : pib) (seq : N) (wait : bool) (r : request),
    snd (data_request p seq wait r)
    = match send_frame p seq wait r with Raise _ => seq | Ok _ => gen_seq_next seq 0 true 0 end.
Proof. exact data_request_next_seq. Qed.

(** Non-vacuity: sequence number 255 wraps to 0; five timeouts spend the budget. *)
Example C20_gen_nonvacuous :
  gen_seq_next 255 0 true 0 = 0%N
  /\ wait_hist_gen 7 (gen_wait_init 7 0 true 0) [ETimeout; ETimeout; ETimeout; ETimeout; EAck 7] = (true, [])
  /\ wait_hist_gen 7 (gen_wait_init 7 0 true 0) [ETimeout; ETimeout; ETimeout; ETimeout; ETimeout; EAck 7] = (false, [EAck 7%N]).
Proof. repeat split; vm_compute; reflexivity. Qed.
