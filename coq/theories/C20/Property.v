(** C20 — property theorems only (each closed by [exact]); see Proofs.v. *)
From Coq Require Import List NArith Arith Bool.
From Whad Require Import Lib.Bytes C20.Gen C20.Model C20.Proofs.
Import ListNotations.
Open Scope N_scope.

(** Addressed delivery, intact payload and addressing. For every sender PIB, receiver PIB
    (PAN ids and addresses incl. 0xFFFF, promiscuous / implicit-broadcast flags), every source
    addressing mode (none/short/extended), destination mode short or extended, every PAN-id
    compression outcome, pan_id_suppressed, payload, sequence number and ack-request flag: the
    request puts exactly one frame on the PHY, carrying the sequence number, and the peer raises
    an MCPS-DATA indication — with the payload and the addressing of the request — exactly when
    it is promiscuous or the frame is addressed to it; otherwise nothing. *)
Theorem C20_indicated_iff_addressed_partial :
  forall (a b : pib) (r : request) (seq : N) (wait : bool),
    valid_request a r = true -> seq < 256 -> q_dam r <> MACAddressMode_NONE ->
    exists fr,
      data_request a seq wait r = (Ok fr, (seq + 1) mod 256)
      /\ nth 2 fr 0 = seq
      /\ receive b fr
         = if macPromiscuousMode b
              || addressed b (d_dpan (data_packet a r)) (d_daddr (data_packet a r))
           then RxIndication (expected_indication a r) else RxNothing.
Proof. exact indicated_iff_addressed. Qed.

(** FULL STATEMENT over all destination modes (refuted by the faithful model for destination
    mode NONE: KNOWN-FINDING dest-mode-none). Without a destination address a frame is for
    nobody in particular: only a promiscuous or implicit-broadcast peer may indicate it. *)
Definition C20_should_indicate (b : pib) (r : request) (d : dpacket) : bool :=
  macPromiscuousMode b
  || (if q_dam r =? MACAddressMode_NONE then macImplicitBroadcast b
      else addressed b (d_dpan d) (d_daddr d)).

Definition C20_indicated_iff_addressed_statement : Prop :=
  forall (a b : pib) (r : request) (seq : N) (wait : bool),
    valid_request a r = true -> seq < 256 ->
    exists fr,
      data_request a seq wait r = (Ok fr, (seq + 1) mod 256)
      /\ receive b fr
         = if C20_should_indicate b r (data_packet a r)
           then RxIndication (expected_indication a r) else RxNothing.

Theorem C20_indicated_iff_addressed_refuted :
  exists (a b : pib) (r : request),
    valid_request a r = true
    /\ macPromiscuousMode b = false /\ macImplicitBroadcast b = false
    /\ exists fr, data_request a 7 false r = (Ok fr, 8)
       /\ receive b fr = RxIndication ([153; 153; 52; 18; 1; 0; 170; 187], None, None, None, None).
Proof. exact indicated_refuted. Qed.

(** The whole class of the finding: a request with destination mode NONE is indicated by EVERY
    peer, the bytes after the 3-byte MAC header taken as payload and no addressing reported. *)
Theorem C20_dest_none_always_indicated :
  forall (a : pib) (r : request) (seq : N) (wait : bool),
    valid_request a r = true -> seq < 256 -> q_dam r = MACAddressMode_NONE ->
    exists fr,
      data_request a seq wait r = (Ok fr, (seq + 1) mod 256)
      /\ forall b, receive b fr = RxIndication (skipn 3 fr, None, None, None, None).
Proof. exact dest_none_always_indicated. Qed.

(** The receive filter on any dissected data frame: promiscuous, or PAN (own / broadcast) and
    address (short / extended / broadcast). *)
Theorem C20_match_filter_data :
  forall (b : pib) (v : view) (dp da : N),
    v_data v = true -> v_dpan v = Some dp -> v_daddr v = Some da ->
    match_filter b v = macPromiscuousMode b || addressed b dp da.
Proof. exact match_filter_data. Qed.

(** PAN-id compression chosen by the GENERATED function for frame versions 0 and 1 (send_data
    always builds version 0): the bit is set exactly when both addresses are present and the two
    PAN ids are equal; it never raises. *)
Theorem C20_pan_id_compression_v01 :
  forall fv dam sam hd hs dp sp,
    fv = 0 \/ fv = 1 ->
    choose_panid fv dam sam hd hs dp sp
    = COk (if negb (dam =? MACAddressMode_NONE) && negb (sam =? MACAddressMode_NONE)
              && (hd && (hs && optN_eqb dp sp)) then 1 else 0).
Proof. exact choose_v01. Qed.

Theorem C20_pan_id_table_bits :
  forall k v, panid_lookup panid_table k = Some v -> v = 0 \/ v = 1.
Proof. exact table_lookup_bit. Qed.

(** Sequence numbers: over every sequence of data requests (acknowledged or not, any histories)
    and overheard acknowledgements, the i-th frame carries (first + i) mod 256 and the PIB
    counter ends at (first + number of frames) mod 256. *)
Theorem C20_seqnum_increments_mod_256 :
  forall (ops : list op) (st : mac_state),
    seqnum st < 256 ->
    map fst (outputs_of (fst (run st ops)))
    = map (fun i => (seqnum st + N.of_nat i) mod 256) (List.seq 0 (length (sends_of ops)))
    /\ seqnum (snd (run st ops)) = (seqnum st + N.of_nat (length (sends_of ops))) mod 256.
Proof. exact seq_numbers. Qed.

(** Fresh-ACK success over ALL histories and ALL operation sequences, from ANY state of the
    acknowledgement queue (earlier, overheard, late acknowledgements with equal or different
    sequence numbers): every acknowledged request returns True exactly when an acknowledgement
    with its own sequence number arrives after the frame was sent and before the fifth timeout;
    every unacknowledged one returns True. *)
Theorem C20_ack_success_iff_fresh_matching :
  forall (ops : list op) (st : mac_state),
    sends_spec (seqnum st) (sends_of ops) (outputs_of (fst (run st ops))).
Proof. exact run_spec. Qed.

(** the single-request form *)
Theorem C20_ack_wait_iff_fresh :
  forall seq h, fst (ack_wait seq [] h) = true <-> fresh_ack seq h.
Proof. exact ack_wait_iff_fresh. Qed.

(** Failure once the retry budget is spent: no matching acknowledgement and budget-1 timeouts so
    far; at the next timeout the request fails, and nothing later is consumed. *)
Theorem C20_failure_after_retry_budget :
  forall seq pre post,
    ~ In (EAck seq) pre -> timeouts pre = 4%nat ->
    wait_hist seq retry_budget (pre ++ ETimeout :: post) = (false, post).
Proof. exact failure_after_retry_budget. Qed.

Theorem C20_failure_without_matching_ack :
  forall seq h, ~ In (EAck seq) h -> fst (ack_wait seq [] h) = false.
Proof. exact failure_without_matching_ack. Qed.

(** The receiving MAC over time. For EVERY history of frames and PIB updates on the peer — MLME-SET,
    direct database writes, set_short_address / set_extended_address, MLME-START, MLME-ASSOCIATE
    (successful or failed), MLME-RESET; PAN id, short and extended address, promiscuous and
    implicit-broadcast flags — and every position in it: the frame of a valid data request
    arriving there is indicated, with the payload and addressing of the request, exactly when the
    peer is promiscuous or addressed according to its PIB AS IT IS AT THAT TIME (not as it was when
    earlier frames were received); otherwise nothing. (Induction over the history.) *)
Theorem C20_history_indicated_iff_addressed :
  forall (p0 : pib) (pre post : list rop) (a : pib) (r : request) (seq : N) (wait : bool),
    valid_request a r = true -> seq < 256 -> q_dam r <> MACAddressMode_NONE ->
    exists fr,
      data_request a seq wait r = (Ok fr, (seq + 1) mod 256)
      /\ nth (frames_in pre) (rrun p0 (pre ++ RFrame fr :: post)) RxNothing
         = let cur := pib_after p0 pre in
           if macPromiscuousMode cur
              || addressed cur (d_dpan (data_packet a r)) (d_daddr (data_packet a r))
           then RxIndication (expected_indication a r) else RxNothing.
Proof. exact history_indicated_iff_addressed. Qed.

(** any frame (also malformed ones) at any position: judged with the current PIB only *)
Theorem C20_history_frame_uses_current_pib :
  forall (p : pib) (pre : list rop) (b : bytes) (post : list rop),
    nth (frames_in pre) (rrun p (pre ++ RFrame b :: post)) RxNothing = receive (pib_after p pre) b.
Proof. exact history_frame_at. Qed.

(** what each way of writing the PIB leaves in it *)
Theorem C20_update_effects :
  forall (p : pib) (a : attr) (v pan short : N),
    apply_update p (UStart pan) = set_attr p APanId pan
    /\ macPanId (apply_update p (UStart pan)) = pan
    /\ macPanId (apply_update p (UAssocOk pan short)) = pan
    /\ macShortAddress (apply_update p (UAssocOk pan short)) = short
    /\ macPanId (apply_update p (UAssocFail pan)) = 65535
    /\ macPanId (apply_update p (USet APanId v)) = v
    /\ macShortAddress (apply_update p (USet AShort v)) = v
    /\ macExtendedAddress (apply_update p (USet AExt v)) = v
    /\ macPromiscuousMode (apply_update p (USet APromisc v)) = negb (v =? 0)
    /\ apply_update p UReset = pib_default
    /\ (a <> APanId -> macPanId (apply_update p (USet a v)) = macPanId p).
Proof. exact update_effects. Qed.

Example C20_nonvacuous_history :
  fst (hrun wit_a 0 hist_b [HSend (hist_req 4369); HUpd (UStart 8738); HSend (hist_req 8738); HSend (hist_req 4369);
                            HUpd (UAssocFail 13107); HSend (hist_req 65535); HSend (hist_req 8738)])
  = Some [([[1; 136; 0; 17; 17; 2; 0; 52; 18; 1; 0; 1; 2]], [([1; 2], Some 4369, Some 2, Some 4660, Some 1)]);
          ([[1; 136; 1; 34; 34; 2; 0; 52; 18; 1; 0; 1; 2]], [([1; 2], Some 8738, Some 2, Some 4660, Some 1)]);
          ([[1; 136; 2; 17; 17; 2; 0; 52; 18; 1; 0; 1; 2]], []);
          ([[1; 136; 3; 255; 255; 2; 0; 52; 18; 1; 0; 1; 2]], [([1; 2], Some 65535, Some 2, Some 4660, Some 1)]);
          ([[1; 136; 4; 34; 34; 2; 0; 52; 18; 1; 0; 1; 2]], [])].
Proof. exact nonvacuous_history. Qed.

(** The code before the repair (no drain of the queue) — kept as the reason for the repair. *)
Theorem C20_ack_without_drain_refuted :
  exists st h, seqnum st < 256 /\ ~ fresh_ack (seqnum st) h
               /\ fst (step_gen false st (OpSend true h)) = Some (seqnum st, true).
Proof. exact no_drain_refuted. Qed.

Theorem C20_ack_without_drain_wraparound :
  last (outputs_of (fst (run_gen false {| seqnum := 7; ackq := [] |} wrap_ops))) (0, false) = (7, true)
  /\ last (outputs_of (fst (run {| seqnum := 7; ackq := [] |} wrap_ops))) (0, true) = (7, false).
Proof. exact no_drain_wraparound. Qed.

(** Non-vacuity: a valid extended->short request to the broadcast address in the sender's PAN
    (PAN-id compressed, sequence number 255 wrapping to 0), addressed to one peer and not to
    another; and an acknowledgement history on each side of the retry budget. *)
Example C20_nonvacuous :
  (let r := {| q_sam := MACAddressMode_EXTENDED; q_dam := MACAddressMode_SHORT; q_dpan := Some 4660;
               q_daddr := Some 65535; q_suppressed := false; q_msdu := [1; 2; 3] |} in
   let b := {| macPanId := 4660; macShortAddress := 2; macExtendedAddress := 9833440827789222417;
               macPromiscuousMode := false; macImplicitBroadcast := false |} in
   valid_request wit_a r = true /\ q_dam r <> MACAddressMode_NONE
   /\ compress_bit wit_a r = 1
   /\ addressed b 4660 65535 = true
   /\ addressed wit_b 4660 65535 = false
   /\ fst (data_request wit_a 255 true r)
      = Ok [97; 200; 255; 52; 18; 255; 255; 136; 119; 102; 85; 68; 51; 34; 17; 1; 2; 3]
   /\ snd (data_request wit_a 255 true r) = 0)
  /\ (fresh_ack 9 [EAck 8; ETimeout; ETimeout; ETimeout; ETimeout; EAck 9]
      /\ ~ fresh_ack 9 [EAck 8; ETimeout; ETimeout; ETimeout; ETimeout; ETimeout; EAck 9]).
Proof. exact (conj nonvacuous_addr nonvacuous_ack). Qed.
