From Coq Require Import List NArith.
From Whad Require Import Lib.Bytes C16.Model C16.Proofs.
Example C16_nonvacuous : True. Proof. exact I. Qed.
