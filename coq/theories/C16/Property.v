(** C16 — property theorems only (each closed by [exact]); see Proofs.v.

    Vocabulary (all defined in Model.v): [build start sds] is [Profile.__init__] on a class
    declaring the services [sds]; [run p ops] applies add_service / update_service (alone or
    after add_characteristic / remove_characteristic) / remove_service; [dump p] is the
    attribute database with every object reference resolved; [layout gaps p] says that the
    database holds exactly the attributes of the listed services, each under its own handle,
    in declaration order: declaration, include definitions, then per characteristic the
    declaration at h, the value at h+1, the descriptors from h+2, end handle = last own
    attribute, each service's range [handle..end] = its own attributes; with [gaps = false]
    every service starts right after the previous one, the first one at the start handle,
    and the next free handle is right after the last attribute. *)
From Coq Require Import List NArith Arith Bool Permutation.
From Whad Require Import Lib.Bytes C16.Model C16.Proofs.
Import ListNotations.
Open Scope N_scope.

(** For ANY profile definition and start handle >= 1 the built database has the layout,
    contiguous from the start handle. *)
Theorem C16_build_layout :
  forall (start : N) (sds : list sdef),
    1 <= start -> layout false (build start sds) /\ p_start (build start sds) = start.
Proof. exact build_layout. Qed.

(** The layout, contiguity included, is preserved by every sequence of add / update /
    add-characteristic+update / remove-characteristic+update operations, and none raises. *)
Theorem C16_ops_layout_partial :
  forall (start : N) (sds : list sdef) (ops : list op),
    1 <= start -> no_remove ops = true ->
    exists q, run (build start sds) ops = Done q /\ layout false q /\ p_start q = start.
Proof. exact ops_layout_partial. Qed.

(** With remove_service in the sequence everything but the contiguity ACROSS services still
    holds for all sequences (distinct handles, every attribute under its own handle, order,
    value right after declaration, descriptors after value, exact service ranges,
    increasing disjoint ranges, next free handle above everything), and nothing raises. *)
Theorem C16_ops_layout_gaps :
  forall (start : N) (sds : list sdef) (ops : list op),
    1 <= start ->
    exists q, run (build start sds) ops = Done q /\ layout true q /\ p_start q = start.
Proof. exact ops_layout_gaps. Qed.

(** FULL STATEMENT (contiguity also after removals) — refuted by the faithful model:
    remove_service leaves a gap (KNOWN-FINDING remove-service-leaves-handle-gap). *)
Definition C16_ops_layout_statement : Prop :=
  forall (start : N) (sds : list sdef) (ops : list op) (q : profile),
    1 <= start -> run (build start sds) ops = Done q -> layout false q.

Theorem C16_ops_layout_refuted :
  exists start sds ops q, 1 <= start /\ run (build start sds) ops = Done q /\ ~ layout false q.
Proof. exact ops_layout_refuted. Qed.

(** Histories in which services are assembled BY HAND: the Python-object construction order is
    part of the history.  Service objects are created empty and stay pending while, in any
    order and interleaved with every operation on the profile, characteristics are attached
    to them, descriptors are added to already attached characteristics (leaving the service's
    own end handle stale), include definitions are added; [HRegister] passes one to
    add_service.  For ALL such histories no step raises and the layout holds after the run
    (hence, the statement being about every history, after every step); it is contiguous
    from the start handle when the history contains no remove_service. *)
Theorem C16_hand_assembly_histories :
  forall (start : N) (sds : list sdef) (hs : list hop),
    1 <= start ->
    exists q pend, hrun (build start sds, []) hs = (Done q, pend) /\ layout true q /\ p_start q = start
                   /\ (forallb hop_no_remove hs = true -> layout false q).
Proof. exact hist_layout. Qed.

(** Building is a pure function of (definition, start handle) that creates fresh objects:
    two instances (of one class or of two), the second built from the object identities the
    first left unused, both have the full layout at their own start handle, and no object
    identity (service or characteristic, hence no value / descriptor / include reference of
    the attribute databases) occurs in both.  [all_ids] lists the identities of a profile. *)
Theorem C16_instances_independent :
  forall (start1 start2 : N) (sds1 sds2 : list sdef),
    1 <= start1 -> 1 <= start2 ->
    let p1 := build start1 sds1 in
    let p2 := build_from (p_fresh p1) start2 sds2 in
    layout false p1 /\ layout false p2 /\ p_start p2 = start2
    /\ (forall x, In x (all_ids (p_svcs p1)) -> ~ In x (all_ids (p_svcs p2))).
Proof. exact instances_independent. Qed.

(** What the layout means for the handles: distinct, every attribute found under the handle
    it carries, no dangling reference ... *)
Theorem C16_layout_distinct_handles :
  forall g p, layout g p ->
    NoDup (map fst (dump p))
    /\ Forall (fun e => attr_handle (snd e) = fst e /\ snd e <> ADangling) (dump p).
Proof. intros g p H. split; [exact (layout_distinct g p H)|exact (layout_handles g p H)]. Qed.

(** ... and allocated contiguously without gaps from the start handle. *)
Theorem C16_layout_contiguous :
  forall p, layout false p ->
    map fst (dump p) = Nseq (p_start p) (length (dump p)) /\ p_next p = p_start p + lenN (dump p).
Proof. exact layout_contiguous. Qed.

(** Lookups agree with the layout WHATEVER the registration order of the attribute dict.
    [db_agrees p]: the dict holds exactly the attributes of the listed services, each under
    its own handle, as a PERMUTATION of the layout (the model keeps Python's insertion order),
    and the layout's handles are strictly ascending.  It holds for every class-built profile
    after every operation sequence (there the dict order is proved to BE the ascending order:
    [layout] states an equality of lists) and for every re-imported profile (whose dict is in
    the order of the from_json loop: descriptors, declaration, value, ..., service last). *)
Theorem C16_layout_agrees : forall g p, layout g p -> db_agrees p.
Proof. exact layout_agrees. Qed.

Theorem C16_lookup_by_handle :
  forall p h a, db_agrees p ->
    (find_by_handle p h = Some a <-> In (h, a) (flat_map svc_dump (p_svcs p))).
Proof. exact lookup_by_handle. Qed.

Theorem C16_lookup_by_handle_own :
  forall p h a, db_agrees p -> find_by_handle p h = Some a -> attr_handle a = h.
Proof. exact lookup_by_handle_own. Qed.

(** find_objects_by_range (which sorts the handles it collected: the sort is modelled) *)
Theorem C16_lookup_by_range :
  forall p a b, db_agrees p ->
    find_by_range p a b
    = map snd (filter (fun e => (a <=? fst e) && (fst e <=? b)) (flat_map svc_dump (p_svcs p))).
Proof. exact lookup_by_range. Qed.

(** attr_by_type_uuid yields, in dict order, exactly the layout's attributes of the type in range *)
Theorem C16_lookup_by_type :
  forall p u a b, db_agrees p ->
    Permutation (find_by_type p u a b)
      (map fst (filter (fun e => uuid_eqb (attr_type (snd e)) u && (a <=? fst e) && (fst e <=? b))
                       (flat_map svc_dump (p_svcs p)))).
Proof. exact lookup_by_type. Qed.

(** service(uuid) / char(uuid) return the first of exactly the layout's matches *)
Theorem C16_lookup_service_by_uuid :
  forall p u, db_agrees p ->
    Permutation (find_services p u) (map s_handle (filter (fun s => uuid_eqb (s_uuid s) u) (p_svcs p))).
Proof. exact lookup_service. Qed.

Theorem C16_lookup_char_by_uuid :
  forall p u, db_agrees p ->
    Permutation (find_chars p u)
      (map c_handle (filter (fun c => uuid_eqb (c_uuid c) u) (flat_map s_chars (p_svcs p)))).
Proof. exact lookup_char. Qed.

Theorem C16_lookup_char_by_value_handle :
  forall p s c, db_agrees p -> In s (p_svcs p) -> In c (s_chars s) ->
    find_chr_by_value_handle p (c_vhandle c) = LSome (c_handle c).
Proof. exact lookup_value_handle. Qed.

Theorem C16_lookup_service_by_char_handle :
  forall p s c, db_agrees p -> In s (p_svcs p) -> In c (s_chars s) ->
    find_svc_by_chr_handle p (c_handle c) = LSome (s_handle s).
Proof. exact lookup_service_of_char. Qed.

(** JSON: for every profile reachable by any definition and ANY operation sequence
    (removals included), the import of its export does not raise,
    export (import (export p)) = export p  (same handles, UUIDs, properties, security
    requirements, values and descriptors), and the imported profile agrees with its layout
    (so all the lookup theorems above hold on it). *)
Theorem C16_import_export_id :
  forall (start : N) (sds : list sdef) (ops : list op) (q : profile),
    1 <= start -> run (build start sds) ops = Done q ->
    exists q', import (export q) = Done q' /\ export q' = export q /\ db_agrees q'.
Proof. exact import_export_reachable. Qed.

(** Security requirements survive accesses -> int -> accesses -> int; an int keeps exactly
    its six defined bits (swept over one byte). *)
Theorem C16_security_roundtrip :
  forall l : list access, acc_to_int (int_to_acc (acc_to_int l)) = acc_to_int l.
Proof. exact security_roundtrip. Qed.

Theorem C16_security_int_roundtrip :
  forall n : N, n < 256 -> acc_to_int (int_to_acc n) = N.land n 0x77.
Proof. exact security_int_roundtrip. Qed.

(** Non-vacuity: a concrete profile (a notifying characteristic with a user description,
    a second service), update_service of the first service, then a service added: seven
    then ten attributes at handles 1.., and the JSON round trip succeeds. *)
Example C16_nonvacuous :
  let c1 := mkCD (u16 0x2A00) [65] 0 (Some [PRead; PNotify]) false false (Some [104; 105]) [] [] in
  let c2 := mkCD (u16 0x2A01) [] 8 None false false None [mkA ARead true true false] [DDreport] in
  let p0 := build 1 [mkSD SKprimary (u16 0x1800) [] [c1]; mkSD SKprimary (u16 0x1801) [] []] in
  map fst (dump p0) = [1; 2; 3; 4; 5; 6]
  /\ exists q, run p0 [OpUpdate 0%nat; OpAdd (mkSD SKprimary (u16 0x1802) [] [c2])] = Done q
               /\ map fst (dump q) = [1; 2; 3; 4; 5; 6; 7; 8; 9; 10] /\ p_next q = 11
               /\ exists q', import (export q) = Done q' /\ export q' = export q.
Proof.
  cbv zeta. split; [vm_compute; reflexivity|]. eexists. split; [vm_compute; reflexivity|].
  split; [vm_compute; reflexivity|]. split; [vm_compute; reflexivity|].
  eexists. split; vm_compute; reflexivity.
Qed.
