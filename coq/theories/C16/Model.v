(** C16 — executable model of the GATT profile code of whad-client:
    whad/ble/profile/__init__.py (Profile.__init__, add_service / update_service /
    remove_service, __alloc_handle, the find_* / service / char / attr_by_type_uuid lookups,
    export_json and the from_json path), profile/service.py (Service handle setter,
    add_characteristic, remove_characteristic, add_included_service, _build),
    profile/characteristic.py (Characteristic.__init__ descriptor logic, _build, handle
    setter, Descriptor.from_uuid) and SecurityAccess.accesses_to_int / int_to_accesses
    of whad/ble/stack/att/constants.py.  No proofs in this file.

    Python objects are records; object identity is an id ([s_id], [c_id]) given when
    the object enters the profile; the attribute database maps a handle to a REFERENCE
    ([ref]) that is resolved against the current objects when it is observed, as a
    Python dict of object references is.  The dict is an association list in INSERTION
    order with Python's semantics (assignment to an existing key keeps its position, a new
    key goes to the end, deletion removes): iteration order is modelled. *)
From Coq Require Import List NArith Arith Bool Permutation.
From Whad Require Import Lib.Bytes.
Import ListNotations.
Open Scope N_scope.

Fixpoint lenN {A} (l : list A) : N := match l with [] => 0 | _ :: r => 1 + lenN r end.

(** * UUIDs, attributes *)

(** A UUID is its kind and value; its text form (4 hex digits, or 8-4-4-4-12 for every
    128-bit constructor form, a 128-bit int included) is read back by [UUID(str)]. *)
Inductive ukind := U16 | U128.
Record uuid := mkU { u_kind : ukind; u_val : N }.
Definition is16 (u : uuid) : bool := match u_kind u with U16 => true | _ => false end.
(** [UUID.__eq__] compares the packed bytes. *)
Definition uuid_eqb (a b : uuid) : bool := Bool.eqb (is16 a) (is16 b) && (u_val a =? u_val b).
Definition u16 (n : N) : uuid := mkU U16 n.

Inductive dkind := DKcccd | DKreport | DKuser | DKgeneric.
Definition is_cccd (k : dkind) : bool := match k with DKcccd => true | _ => false end.
Record desc := mkD { d_kind : dkind; d_handle : N; d_uuid : uuid; d_value : bytes }.

Inductive atype := ARead | AWrite | ABase.
Record access := mkA { a_type : atype; a_enc : bool; a_auth : bool; a_authz : bool }.

Record chr := mkC { c_id : N; c_handle : N; c_vhandle : N; c_end : N; c_uuid : uuid;
                    c_props : N; c_sec : list access; c_value : bytes; c_descs : list desc }.
Record incl := mkI { i_handle : N; i_uuid : uuid }.
Record svc := mkS { s_id : N; s_primary : bool; s_uuid : uuid; s_handle : N; s_end : N;
                    s_incls : list incl; s_chars : list chr }.

(** * SecurityAccess.accesses_to_int / int_to_accesses *)

Definition acc_bits (a : access) : N :=
  (if a_enc a then 1 else 0) + (if a_auth a then 2 else 0) + (if a_authz a then 4 else 0).

(** [shift] stays what the previous access set it to when the access is neither a
    ReadAccess nor a WriteAccess. *)
Fixpoint acc_to_int_aux (w : bool) (acc : N) (l : list access) : N :=
  match l with
  | [] => acc
  | a :: r =>
      let w' := match a_type a with ARead => false | AWrite => true | ABase => w end in
      acc_to_int_aux w' (N.lor acc (if w' then 16 * acc_bits a else acc_bits a)) r
  end.
Definition acc_to_int (l : list access) : N := acc_to_int_aux false 0 l.

Definition int_to_acc (n : N) : list access :=
  (if N.land n 7 =? 0 then [] else [mkA ARead (N.testbit n 0) (N.testbit n 1) (N.testbit n 2)])
  ++ (let m := n / 16 in
      if N.land m 7 =? 0 then [] else [mkA AWrite (N.testbit m 0) (N.testbit m 1) (N.testbit m 2)]).

(** * Handle setters *)

Definition set_d_handle (h : N) (d : desc) : desc := mkD (d_kind d) h (d_uuid d) (d_value d).

Fixpoint relabel_descs (h : N) (ds : list desc) : list desc :=
  match ds with [] => [] | d :: r => set_d_handle (h + 1) d :: relabel_descs (h + 1) r end.

(** [Characteristic.handle] setter: value at [h+1], descriptors from [h+2], end = last. *)
Definition chr_set_handle (h : N) (c : chr) : chr :=
  mkC (c_id c) h (h + 1) (h + 1 + lenN (c_descs c)) (c_uuid c) (c_props c) (c_sec c) (c_value c)
      (relabel_descs (h + 1) (c_descs c)).

Definition set_i_handle (h : N) (i : incl) : incl := mkI h (i_uuid i).
Fixpoint relabel_incls (h : N) (l : list incl) : list incl :=
  match l with [] => [] | i :: r => set_i_handle (h + 1) i :: relabel_incls (h + 1) r end.

Fixpoint relabel_chars (h : N) (cs : list chr) : list chr :=
  match cs with
  | [] => []
  | c :: r => let c' := chr_set_handle (h + 1) c in c' :: relabel_chars (c_end c') r
  end.

Fixpoint last_end (h : N) (cs : list chr) : N :=
  match cs with [] => h | c :: r => last_end (c_end c) r end.

(** [Service.handle] setter (and the re-layout at the end of [remove_characteristic]):
    include definitions right after the declaration, then the characteristics. *)
Definition svc_set_handle (h : N) (s : svc) : svc :=
  let h1 := h + lenN (s_incls s) in
  let cs := relabel_chars h1 (s_chars s) in
  mkS (s_id s) (s_primary s) (s_uuid s) h (last_end h1 cs) (relabel_incls h (s_incls s)) cs.

(** [Service.add_characteristic] / [add_included_service] *)
Definition svc_add_char (s : svc) (c : chr) : svc :=
  let c' := if c_handle c =? 0 then chr_set_handle (s_end s + 1) c else c in
  mkS (s_id s) (s_primary s) (s_uuid s) (s_handle s) (N.max (c_end c') (s_end s))
      (s_incls s) (s_chars s ++ [c']).

Definition svc_add_incl (s : svc) (i : incl) : svc :=
  let i' := if i_handle i =? 0 then set_i_handle (s_end s + 1) i else i in
  mkS (s_id s) (s_primary s) (s_uuid s) (s_handle s) (N.max (i_handle i') (s_end s))
      (s_incls s ++ [i']) (s_chars s).

(** * Profile definitions (what a user declares) *)

Inductive ddef :=
| DDcccd (notify indicate : bool)
| DDreport
| DDuser (text : bytes)              (* UTF-8 encoding of the description *)
| DDgeneric (u : uuid) (v : bytes).

Inductive perm := PRead | PWrite | PWriteNoResp | PNotify | PIndicate | POther.

Record cdef := mkCD { cd_uuid : uuid; cd_value : bytes; cd_props : N;
                      cd_perms : option (list perm); cd_notify : bool; cd_indicate : bool;
                      cd_descr : option bytes; cd_sec : list access; cd_descs : list ddef }.

Inductive skind := SKprimary | SKsecondary | SKstandard.
Record sdef := mkSD { sd_kind : skind; sd_uuid : uuid; sd_incls : list uuid; sd_chars : list cdef }.

Definition perm_bit (p : perm) : N :=
  match p with PRead => 2 | PWrite => 8 | PWriteNoResp => 4 | PNotify => 16 | PIndicate => 32 | POther => 0 end.

Definition desc_of_def (dd : ddef) : desc :=
  match dd with
  | DDcccd n i => mkD DKcccd 0 (u16 0x2902) (le16 ((if n then 1 else 0) + (if i then 2 else 0)))
  | DDreport => mkD DKreport 0 (u16 0x2908) [1; 1]
  | DDuser t => mkD DKuser 0 (u16 0x2901) t
  | DDgeneric u v => mkD DKgeneric 0 u v
  end.

Definition has_cccd (ds : list desc) : bool := existsb (fun d => is_cccd (d_kind d)) ds.

(** The "additional descriptors" loop of [Characteristic.__init__]: a CCC descriptor is
    skipped when the characteristic already has one. *)
Fixpoint add_descs (acc : list desc) (ds : list desc) : list desc :=
  match ds with
  | [] => acc
  | d :: r => if is_cccd (d_kind d) && has_cccd acc then add_descs acc r
              else add_descs (acc ++ [d]) r
  end.

Definition notifies (props : N) : bool := negb (N.land props 0x30 =? 0).

(** [Characteristic.__init__] with handle 0 (template): value handle 1, descriptors from 2
    (every [add_descriptor] gives [end_handle + 1] to a descriptor whose handle is 0). *)
Definition chr_make (u : uuid) (props : N) (sec : list access) (value : bytes)
           (descr : option bytes) (extra : list desc) : chr :=
  let auto := if notifies props then [desc_of_def (DDcccd false false)] else [] in
  let ud := match descr with Some t => [desc_of_def (DDuser t)] | None => [] end in
  chr_set_handle 0 (mkC 0 0 0 0 u props sec value (add_descs (auto ++ ud) extra)).

Definition chr_init (cd : cdef) : chr :=
  let p1 := match cd_perms cd with
            | Some l => fold_left (fun a p => N.lor a (perm_bit p)) l (cd_props cd)
            | None => cd_props cd end in
  let p2 := if cd_notify cd then N.lor p1 16 else p1 in
  let p3 := if cd_indicate cd then N.lor p2 32 else p2 in
  chr_make (cd_uuid cd) p3 (cd_sec cd) (cd_value cd) (cd_descr cd) (map desc_of_def (cd_descs cd)).

(** [Descriptor.build] per class *)
Definition desc_clone (d : desc) : desc :=
  match d_kind d with
  | DKcccd => mkD DKcccd 0 (u16 0x2902) (le16 (N.land (un_le16 (d_value d)) 3))
  | DKreport => mkD DKreport 0 (u16 0x2908) [1; 1]
  | DKuser => mkD DKuser 0 (u16 0x2901) (d_value d)
  | DKgeneric => mkD DKgeneric 0 (d_uuid d) (d_value d)
  end.

(** [Characteristic._build] *)
Definition chr_clone (c : chr) : chr :=
  chr_make (c_uuid c) (c_props c) (c_sec c) (c_value c) None (map desc_clone (c_descs c)).

Definition empty_svc (primary : bool) (u : uuid) : svc := mkS 0 primary u 0 0 [] [].

Definition is_primary (k : skind) : bool := match k with SKsecondary => false | _ => true end.

(** The template object a user declares: [PrimaryService(uuid, **children)] (children are
    built once), a [StandardService] subclass instance (same), or a [SecondaryService] to
    which characteristics were added with [add_characteristic] (used as they are). *)
Definition svc_template (sd : sdef) : svc :=
  let cs := match sd_kind sd with
            | SKsecondary => map chr_init (sd_chars sd)
            | _ => map (fun cd => chr_clone (chr_init cd)) (sd_chars sd) end in
  let s1 := fold_left svc_add_char cs (empty_svc (is_primary (sd_kind sd)) (sd_uuid sd)) in
  match sd_kind sd with
  | SKsecondary => s1
  | _ => fold_left svc_add_incl (map (mkI 0) (sd_incls sd)) s1
  end.

(** [service.build()] as [Profile.__init__] calls it: PrimaryService._build clones the
    characteristics and include definitions, StandardService._build instantiates the class
    again, SecondaryService._build clones the characteristics.  Every path creates fresh
    objects: nothing of the template is shared with the built service. *)
Definition svc_build (sd : sdef) (t : svc) : svc :=
  match sd_kind sd with
  | SKprimary =>
      let s1 := fold_left svc_add_char (map chr_clone (s_chars t)) (empty_svc true (s_uuid t)) in
      fold_left svc_add_incl (map (fun i => mkI 0 (i_uuid i)) (s_incls t)) s1
  | SKstandard => svc_template sd
  | SKsecondary => fold_left svc_add_char (map chr_clone (s_chars t)) (empty_svc false (s_uuid t))
  end.

(** * Attribute database *)

Inductive ref :=
| RSvc (sid : N) | RIncl (sid : N) (k : nat) | RChar (sid cid : N) | RVal (sid cid : N)
| RDesc (sid cid : N) (k : nat).

Section DB.
  Context {V : Type}.
  (** [d[k] = v] *)
  Fixpoint db_set (k : N) (v : V) (l : list (N * V)) : list (N * V) :=
    match l with
    | [] => [(k, v)]
    | (k', v') :: r => if k =? k' then (k, v) :: r else (k', v') :: db_set k v r
    end.
  Definition db_del (k : N) (l : list (N * V)) : list (N * V) :=
    filter (fun e => negb (fst e =? k)) l.
  Fixpoint db_get (k : N) (l : list (N * V)) : option V :=
    match l with [] => None | (k', v) :: r => if k' =? k then Some v else db_get k r end.
  Definition db_set_all (es : list (N * V)) (l : list (N * V)) : list (N * V) :=
    fold_left (fun d e => db_set (fst e) (snd e) d) es l.
  Definition db_del_all (ks : list N) (l : list (N * V)) : list (N * V) :=
    fold_left (fun d k => db_del k d) ks l.
  (** [for h in [h for h in db if h >= x]: del db[h]] *)
  Definition db_below (x : N) (l : list (N * V)) : list (N * V) :=
    filter (fun e => fst e <? x) l.
End DB.

Fixpoint desc_entries (sid cid : N) (k : nat) (ds : list desc) : list (N * ref) :=
  match ds with [] => [] | d :: r => (d_handle d, RDesc sid cid k) :: desc_entries sid cid (S k) r end.
Definition chr_entries (sid : N) (c : chr) : list (N * ref) :=
  (c_handle c, RChar sid (c_id c)) :: (c_vhandle c, RVal sid (c_id c))
  :: desc_entries sid (c_id c) 0 (c_descs c).
Fixpoint incl_entries (sid : N) (k : nat) (l : list incl) : list (N * ref) :=
  match l with [] => [] | i :: r => (i_handle i, RIncl sid k) :: incl_entries sid (S k) r end.

(** What [add_service] registers, in its order: the service, its include definitions,
    then for every characteristic the declaration, the value and the descriptors. *)
Definition svc_entries (s : svc) : list (N * ref) :=
  (s_handle s, RSvc (s_id s)) :: incl_entries (s_id s) 0 (s_incls s)
  ++ flat_map (chr_entries (s_id s)) (s_chars s).

(** [__service_by_characteristic_handle] *)
Definition svc_cmap (s : svc) : list (N * N) := map (fun c => (c_handle c, s_id s)) (s_chars s).

(** Keys [remove_service] deletes, in its order. *)
Definition chr_keys (c : chr) : list N := c_handle c :: c_vhandle c :: map d_handle (c_descs c).

Record profile := mkP { p_start : N; p_next : N; p_fresh : N; p_svcs : list svc;
                        p_db : list (N * ref); p_cmap : list (N * N) }.

Definition empty_profile (start : N) : profile := mkP start start 0 [] [] [].

Fixpoint number_chars (n : N) (cs : list chr) : list chr :=
  match cs with
  | [] => []
  | c :: r => mkC n (c_handle c) (c_vhandle c) (c_end c) (c_uuid c) (c_props c) (c_sec c)
                  (c_value c) (c_descs c) :: number_chars (n + 1) r
  end.

(** Object identities for a service object entering the profile. *)
Definition number_svc (n : N) (s : svc) : svc :=
  mkS n (s_primary s) (s_uuid s) (s_handle s) (s_end s) (s_incls s) (number_chars (n + 1) (s_chars s)).

(** [Profile.add_service(service)] for a service object not yet in the profile. *)
Definition add_service (p : profile) (s0 : svc) : profile :=
  let s1 := number_svc (p_fresh p) s0 in
  let s := if s_handle s1 =? 0 then svc_set_handle (p_next p) s1 else s1 in
  mkP (p_start p) (s_end s + 1) (p_fresh p + 1 + lenN (s_chars s0)) (p_svcs p ++ [s])
      (db_set_all (svc_entries s) (p_db p)) (db_set_all (svc_cmap s) (p_cmap p)).

Fixpoint shift_services (h : N) (l : list svc) : list svc :=
  match l with
  | [] => []
  | r :: t => let r' := svc_set_handle (h + 1) r in r' :: shift_services (s_end r') t
  end.
Fixpoint last_svc_end (h : N) (l : list svc) : N :=
  match l with [] => h | r :: t => last_svc_end (s_end r) t end.

(** [Profile.update_service(service)] for the service at position [idx] of [__services]
    (the object may have been modified by add_characteristic / remove_characteristic). *)
Definition update_at (p : profile) (idx : nat) : profile :=
  match nth_error (p_svcs p) idx with
  | None => p
  | Some s0 =>
      (* [service.handle = service.handle]: the updated service is laid out again first *)
      let s := svc_set_handle (s_handle s0) s0 in
      let B' := shift_services (s_end s) (skipn (S idx) (p_svcs p)) in
      mkP (p_start p) (last_svc_end (s_end s) B' + 1) (p_fresh p)
          (firstn idx (p_svcs p) ++ s :: B')
          (fold_left (fun d x => db_set_all (svc_entries x) d) (s :: B') (db_below (s_handle s) (p_db p)))
          (fold_left (fun d x => db_set_all (svc_cmap x) d) (s :: B') (db_below (s_handle s) (p_cmap p)))
  end.

Definition set_svc_at (p : profile) (idx : nat) (s : svc) (fresh : N) : profile :=
  mkP (p_start p) (p_next p) fresh
      (firstn idx (p_svcs p) ++ s :: skipn (S idx) (p_svcs p)) (p_db p) (p_cmap p).

Fixpoint remove_nth {A} (n : nat) (l : list A) : list A :=
  match n, l with
  | _, [] => []
  | O, _ :: r => r
  | S m, x :: r => x :: remove_nth m r
  end.

(** [Characteristic.add_descriptor] *)
Definition chr_add_desc (c : chr) (d : desc) : chr :=
  let d' := if d_handle d =? 0 then set_d_handle (c_end c + 1) d else d in
  mkC (c_id c) (c_handle c) (c_vhandle c) (N.max (d_handle d') (c_end c)) (c_uuid c) (c_props c)
      (c_sec c) (c_value c) (c_descs c ++ [d']).

Fixpoint map_nth {A} (f : A -> A) (n : nat) (l : list A) : list A :=
  match n, l with
  | _, [] => []
  | O, x :: r => f x :: r
  | S m, x :: r => x :: map_nth f m r
  end.

Inductive exn := KeyError | IndexError | TypeError | ValueError | InvalidHandleValueException
               | OutOfModel.
Inductive outcome := Done (p : profile) | Raised (e : exn).

Inductive op :=
| OpAdd (sd : sdef)                 (* add_service(<template of sd>) *)
| OpUpdate (i : nat)                (* update_service(services[i]) *)
| OpAddChar (i : nat) (cd : cdef)   (* services[i].add_characteristic(Characteristic(..)); update_service *)
| OpDelChar (i j : nat)             (* services[i].remove_characteristic(chars[j]); update_service *)
| OpAddDesc (i j : nat) (dd : ddef) (* services[i].chars[j].add_descriptor(..); update_service(services[i]) *)
| OpRemove (i : nat).               (* remove_service(services[i]) *)

Definition set_c_id (n : N) (c : chr) : chr :=
  mkC n (c_handle c) (c_vhandle c) (c_end c) (c_uuid c) (c_props c) (c_sec c) (c_value c) (c_descs c).

Definition set_chars (s : svc) (cs : list chr) : svc :=
  mkS (s_id s) (s_primary s) (s_uuid s) (s_handle s) (s_end s) (s_incls s) cs.

(** [Profile.remove_service(service)] (service located by identity: see DESIGN, distinct
    service UUIDs are assumed). *)
Definition remove_at (p : profile) (idx : nat) : outcome :=
  match nth_error (p_svcs p) idx with
  | None => Done p
  | Some s =>
      let db1 := db_del_all (flat_map chr_keys (s_chars s)) (p_db p) in
      match db_get (s_handle s) db1 with
      | None => Raised KeyError
      | Some _ =>
          Done (mkP (p_start p) (p_next p) (p_fresh p) (remove_nth idx (p_svcs p))
                    (db_del_all (map i_handle (s_incls s)) (db_del (s_handle s) db1))
                    (db_del_all (map c_handle (s_chars s)) (p_cmap p)))
      end
  end.

Definition step (p : profile) (o : op) : outcome :=
  match o with
  | OpAdd sd => Done (add_service p (svc_template sd))
  | OpUpdate i => Done (update_at p i)
  | OpAddChar i cd =>
      match nth_error (p_svcs p) i with
      | None => Done p
      | Some s => Done (update_at (set_svc_at p i (svc_add_char s (set_c_id (p_fresh p) (chr_init cd)))
                                              (p_fresh p + 1)) i)
      end
  | OpDelChar i j =>
      match nth_error (p_svcs p) i with
      | None => Done p
      | Some s =>
          if (j <? length (s_chars s))%nat
          then Done (update_at (set_svc_at p i (svc_set_handle (s_handle s)
                                                  (set_chars s (remove_nth j (s_chars s)))) (p_fresh p)) i)
          else Done p
      end
  | OpAddDesc i j dd =>
      match nth_error (p_svcs p) i with
      | None => Done p
      | Some s => Done (update_at (set_svc_at p i (set_chars s (map_nth (fun c => chr_add_desc c (desc_of_def dd)) j (s_chars s)))
                                              (p_fresh p)) i)
      end
  | OpRemove i => remove_at p i
  end.

Fixpoint run (p : profile) (ops : list op) : outcome :=
  match ops with
  | [] => Done p
  | o :: r => match step p o with Done q => run q r | Raised e => Raised e end
  end.

(** [Profile.__init__] on a class declaring the services [sds] (in attribute-name order).
    [build_from n]: the objects created get the identities n, n+1, ... (a second instance
    of a class is built from the identities the first one left unused). *)
Definition build_from (n : N) (start : N) (sds : list sdef) : profile :=
  fold_left (fun p sd => add_service p (svc_build sd (svc_template sd))) sds (mkP start start n [] [] []).
Definition build (start : N) (sds : list sdef) : profile := build_from 0 start sds.

(** * Histories with services assembled by hand

    The construction order of the Python objects is part of the history: service objects
    are created empty and stay PENDING (not registered) while characteristics are attached
    to them, descriptors are added to characteristics that are already attached (the
    service's own end handle is then stale), include definitions are added, in any order and
    interleaved with the operations on the profile; [HRegister] hands one to add_service. *)

Inductive hop :=
| HNew (primary : bool) (u : uuid)          (* PrimaryService(uuid) / SecondaryService(uuid), pending *)
| HAttach (i : nat) (cd : cdef)             (* pending[i].add_characteristic(Characteristic(...)) *)
| HDesc (i j : nat) (dd : ddef)             (* pending[i].characteristics[j].add_descriptor(...) *)
| HIncl (i : nat) (u : uuid)                (* pending[i].add_included_service(IncludeService(u)) *)
| HRegister (i : nat)                       (* profile.add_service(pending.pop(i)) *)
| HOp (o : op).                             (* an operation on the profile *)

Definition hstate := (profile * list svc)%type.

Definition hstep (st : hstate) (h : hop) : outcome * list svc :=
  let '(p, pend) := st in
  match h with
  | HNew pr u => (Done p, pend ++ [empty_svc pr u])
  | HAttach i cd => (Done p, map_nth (fun s => svc_add_char s (chr_init cd)) i pend)
  | HDesc i j dd =>
      (Done p, map_nth (fun s => set_chars s (map_nth (fun c => chr_add_desc c (desc_of_def dd)) j (s_chars s))) i pend)
  | HIncl i u => (Done p, map_nth (fun s => svc_add_incl s (mkI 0 u)) i pend)
  | HRegister i => match nth_error pend i with
                   | Some s => (Done (add_service p s), remove_nth i pend)
                   | None => (Done p, pend) end
  | HOp o => (step p o, pend)
  end.

Fixpoint hrun (st : hstate) (hs : list hop) : outcome * list svc :=
  match hs with
  | [] => (Done (fst st), snd st)
  | h :: r => match hstep st h with
              | (Done q, pend) => hrun (q, pend) r
              | (Raised e, pend) => (Raised e, pend) end
  end.

(** * Observation: the attribute database with every reference resolved *)

Inductive attr :=
| ASvc (h : N) (primary : bool) (u : uuid) (e : N)
| AIncl (h : N) (u : uuid)
| AChar (h : N) (u : uuid) (props vh e : N) (sec : list access)
| AVal (h : N) (u : uuid) (v : bytes) (ch : N)
| ADesc (h : N) (k : dkind) (u : uuid) (v : bytes)
| ADangling.

Definition find_svc (sid : N) (l : list svc) : option svc := find (fun s => s_id s =? sid) l.
Definition find_chr (cid : N) (l : list chr) : option chr := find (fun c => c_id c =? cid) l.

Definition resolve (svcs : list svc) (r : ref) : attr :=
  let with_chr sid cid f :=
      match find_svc sid svcs with
      | Some s => match find_chr cid (s_chars s) with Some c => f c | None => ADangling end
      | None => ADangling end in
  match r with
  | RSvc sid => match find_svc sid svcs with
                | Some s => ASvc (s_handle s) (s_primary s) (s_uuid s) (s_end s)
                | None => ADangling end
  | RIncl sid k => match find_svc sid svcs with
                   | Some s => match nth_error (s_incls s) k with
                               | Some i => AIncl (i_handle i) (i_uuid i) | None => ADangling end
                   | None => ADangling end
  | RChar sid cid => with_chr sid cid (fun c => AChar (c_handle c) (c_uuid c) (c_props c) (c_vhandle c) (c_end c) (c_sec c))
  | RVal sid cid => with_chr sid cid (fun c => AVal (c_vhandle c) (c_uuid c) (c_value c) (c_handle c))
  | RDesc sid cid k => with_chr sid cid (fun c => match nth_error (c_descs c) k with
                                                  | Some d => ADesc (d_handle d) (d_kind d) (d_uuid d) (d_value d)
                                                  | None => ADangling end)
  end.

Definition dump (p : profile) : list (N * attr) :=
  map (fun e => (fst e, resolve (p_svcs p) (snd e))) (p_db p).

Definition attr_handle (a : attr) : N :=
  match a with ASvc h _ _ _ => h | AIncl h _ => h | AChar h _ _ _ _ _ => h | AVal h _ _ _ => h
             | ADesc h _ _ _ => h | ADangling => 0 end.
Definition attr_type (a : attr) : uuid :=
  match a with
  | ASvc _ pr _ _ => u16 (if pr then 0x2800 else 0x2801)
  | AIncl _ _ => u16 0x2802 | AChar _ _ _ _ _ _ => u16 0x2803
  | AVal _ u _ _ => u | ADesc _ _ u _ => u | ADangling => u16 0 end.
Definition attr_cls (a : attr) : N :=
  match a with ASvc _ _ _ _ => 0 | AIncl _ _ => 1 | AChar _ _ _ _ _ _ => 2 | AVal _ _ _ _ => 3
             | ADesc _ _ _ _ => 4 | ADangling => 9 end.

(** * Lookups *)

(** find_object_by_handle: [None] = IndexError *)
Definition find_by_handle (p : profile) (h : N) : option attr :=
  option_map (resolve (p_svcs p)) (db_get h (p_db p)).
(** [handles.sort()] *)
Fixpoint insertN (x : N) (l : list N) : list N :=
  match l with [] => [x] | y :: r => if x <=? y then x :: l else y :: insertN x r end.
Fixpoint sortN (l : list N) : list N := match l with [] => [] | x :: r => insertN x (sortN r) end.

(** find_objects_by_range: the handles of the dict in range, sorted, each looked up again *)
Definition find_by_range (p : profile) (a b : N) : list attr :=
  flat_map (fun h => match find_by_handle p h with Some x => [x] | None => [] end)
           (sortN (filter (fun k => (a <=? k) && (k <=? b)) (map fst (p_db p)))).
(** attr_by_type_uuid: handles of the attributes yielded, in dict order *)
Definition find_by_type (p : profile) (u : uuid) (a b : N) : list N :=
  map (fun e => attr_handle (snd e))
      (filter (fun e => uuid_eqb (attr_type (snd e)) u && (a <=? attr_handle (snd e)) && (attr_handle (snd e) <=? b)) (dump p)).
(** Profile.service(uuid): handles of every service attribute with that UUID in dict order (the code returns the first) *)
Definition find_services (p : profile) (u : uuid) : list N :=
  flat_map (fun e => match snd e with ASvc h _ u' _ => if uuid_eqb u' u then [h] else [] | _ => [] end) (dump p).
(** Profile.char(uuid) *)
Definition find_chars (p : profile) (u : uuid) : list N :=
  flat_map (fun e => match snd e with AChar h u' _ _ _ _ => if uuid_eqb u' u then [h] else [] | _ => [] end) (dump p).
(** find_characteristic_by_value_handle: [Raised IndexError] for an unknown handle *)
Inductive lres := LNone | LSome (h : N) | LExc (e : exn).
Definition find_chr_by_value_handle (p : profile) (h : N) : lres :=
  match find_by_handle p h with
  | None => LExc IndexError
  | Some (AVal _ _ _ ch) => LSome ch
  | Some _ => LNone
  end.
(** find_service_by_characteristic_handle *)
Definition find_svc_by_chr_handle (p : profile) (h : N) : lres :=
  match db_get h (p_cmap p) with
  | None => LExc InvalidHandleValueException
  | Some sid => match find_svc sid (p_svcs p) with Some s => LSome (s_handle s) | None => LNone end
  end.

(** * JSON export / import (trees) *)

Record jdesc := mkJD { jd_handle : N; jd_uuid : uuid; jd_value : bytes }.
Record jchar := mkJC { jc_handle : N; jc_props : N; jc_sec : N; jc_vhandle : N; jc_uuid : uuid;
                       jc_data : bytes; jc_descs : list jdesc }.
Record jsvc := mkJS { js_uuid : uuid; js_type : uuid; js_start : N; js_end : N; js_chars : list jchar }.

Definition export_desc (d : desc) : jdesc := mkJD (d_handle d) (d_uuid d) (d_value d).
Definition export_chr (c : chr) : jchar :=
  mkJC (c_handle c) (c_props c) (acc_to_int (c_sec c)) (c_vhandle c) (c_uuid c) (c_value c)
       (map export_desc (c_descs c)).
Definition svc_type (s : svc) : uuid := u16 (if s_primary s then 0x2800 else 0x2801).
Definition export_svc (s : svc) : jsvc :=
  mkJS (s_uuid s) (svc_type s) (s_handle s) (s_end s) (map export_chr (s_chars s)).

(** export_json iterates [services()] = the Service objects found in the attribute DB. *)
Definition export (p : profile) : list jsvc :=
  flat_map (fun e => match snd e with
                     | RSvc sid => match find_svc sid (p_svcs p) with
                                   | Some s => [export_svc s] | None => [] end
                     | _ => [] end) (p_db p).

(** [Descriptor.from_uuid] *)
Definition desc_kind_of_uuid (u : uuid) : dkind :=
  if is16 u && (u_val u =? 0x2902) then DKcccd
  else if is16 u && (u_val u =? 0x2901) then DKuser else DKgeneric.

Definition import_desc (jd : jdesc) : desc :=
  mkD (desc_kind_of_uuid (jd_uuid jd)) (jd_handle jd) (jd_uuid jd) (jd_value jd).

(** Characteristic(handle=h > 0, ...) then add_descriptor for every descriptor (non-zero
    handles are kept, end handle = max). *)
Definition import_chr (jc : jchar) : chr :=
  let ds := map import_desc (jc_descs jc) in
  let vh := jc_handle jc + 1 in
  mkC 0 (jc_handle jc) vh (fold_left (fun e d => N.max (d_handle d) e) ds vh) (jc_uuid jc)
      (jc_props jc) (int_to_acc (jc_sec jc)) (jc_data jc) ds.

(** The model of the import is defined for JSON whose handles are all non-zero (a zero
    handle would switch the constructors to template mode); other inputs: [OutOfModel]. *)
Definition jchar_in_domain (jc : jchar) : bool :=
  negb (jc_handle jc =? 0) && forallb (fun jd => negb (jd_handle jd =? 0)) (jc_descs jc).
Definition jsvc_in_domain (js : jsvc) : bool :=
  negb (js_start js =? 0) && forallb jchar_in_domain (js_chars js).

(** Registration order of the from_json loop, before [add_service]: for every characteristic
    its descriptors, then the declaration and the value; the service attribute last. *)
Definition imp_entries (s : svc) : list (N * ref) :=
  flat_map (fun c => desc_entries (s_id s) (c_id c) 0 (c_descs c)
                     ++ [(c_handle c, RChar (s_id s) (c_id c)); (c_vhandle c, RVal (s_id s) (c_id c))])
           (s_chars s)
  ++ [(s_handle s, RSvc (s_id s))].

Definition pre_register (p : profile) (s0 : svc) : profile :=
  mkP (p_start p) (p_next p) (p_fresh p) (p_svcs p)
      (db_set_all (imp_entries (number_svc (p_fresh p) s0)) (p_db p)) (p_cmap p).

Definition import_step (acc : outcome) (js : jsvc) : outcome :=
  match acc with
  | Raised e => Raised e
  | Done p =>
      let prim := uuid_eqb (js_type js) (u16 0x2800) in
      let sec := uuid_eqb (js_type js) (u16 0x2801) in
      if negb (prim || sec) then Done p
      else
        let s0 := fold_left svc_add_char (map import_chr (js_chars js))
                            (mkS 0 prim (js_uuid js) (js_start js) (js_end js) [] []) in
        Done (add_service (pre_register p s0) s0)
  end.

Definition import (js : list jsvc) : outcome :=
  if forallb jsvc_in_domain js then fold_left import_step js (Done (empty_profile 1))
  else Raised OutOfModel.

(** * Boolean equalities and correspondence entry points (evaluated by the harness) *)

Definition ukind_eqb (a b : ukind) : bool :=
  match a, b with U16, U16 | U128, U128 => true | _, _ => false end.
Definition uuid_same (a b : uuid) : bool := ukind_eqb (u_kind a) (u_kind b) && (u_val a =? u_val b).
Definition dkind_eqb (a b : dkind) : bool :=
  match a, b with DKcccd, DKcccd | DKreport, DKreport | DKuser, DKuser | DKgeneric, DKgeneric => true
             | _, _ => false end.
Definition atype_eqb (a b : atype) : bool :=
  match a, b with ARead, ARead | AWrite, AWrite | ABase, ABase => true | _, _ => false end.
Definition access_eqb (a b : access) : bool :=
  atype_eqb (a_type a) (a_type b) && Bool.eqb (a_enc a) (a_enc b) && Bool.eqb (a_auth a) (a_auth b)
  && Bool.eqb (a_authz a) (a_authz b).

Fixpoint list_eqb {A B} (f : A -> B -> bool) (a : list A) (b : list B) : bool :=
  match a, b with
  | [], [] => true
  | x :: a', y :: b' => f x y && list_eqb f a' b'
  | _, _ => false
  end.

Definition attr_eqb (a b : attr) : bool :=
  match a, b with
  | ASvc h p u e, ASvc h' p' u' e' => (h =? h') && Bool.eqb p p' && uuid_same u u' && (e =? e')
  | AIncl h u, AIncl h' u' => (h =? h') && uuid_same u u'
  | AChar h u pr vh e s, AChar h' u' pr' vh' e' s' =>
      (h =? h') && uuid_same u u' && (pr =? pr') && (vh =? vh') && (e =? e') && list_eqb access_eqb s s'
  | AVal h u v c, AVal h' u' v' c' => (h =? h') && uuid_same u u' && bytes_eqb v v' && (c =? c')
  | ADesc h k u v, ADesc h' k' u' v' => (h =? h') && dkind_eqb k k' && uuid_same u u' && bytes_eqb v v'
  | _, _ => false
  end.
Definition entry_eqb (a b : N * attr) : bool := (fst a =? fst b) && attr_eqb (snd a) (snd b).

Definition jdesc_eqb (a b : jdesc) : bool :=
  (jd_handle a =? jd_handle b) && uuid_same (jd_uuid a) (jd_uuid b) && bytes_eqb (jd_value a) (jd_value b).
Definition jchar_eqb (a b : jchar) : bool :=
  (jc_handle a =? jc_handle b) && (jc_props a =? jc_props b) && (jc_sec a =? jc_sec b)
  && (jc_vhandle a =? jc_vhandle b) && uuid_same (jc_uuid a) (jc_uuid b)
  && bytes_eqb (jc_data a) (jc_data b) && list_eqb jdesc_eqb (jc_descs a) (jc_descs b).
Definition jsvc_eqb (a b : jsvc) : bool :=
  uuid_same (js_uuid a) (js_uuid b) && uuid_same (js_type a) (js_type b)
  && (js_start a =? js_start b) && (js_end a =? js_end b) && list_eqb jchar_eqb (js_chars a) (js_chars b).

Definition exn_code (e : exn) : N :=
  match e with KeyError => 1 | IndexError => 2 | TypeError => 3 | ValueError => 4
             | InvalidHandleValueException => 5 | OutOfModel => 99 end.

(** Light observation after the build and after every operation:
    (key, class code, obj.handle) of every DB entry IN DICT ITERATION ORDER, the next free handle when the
    harness could read it, the (handle, end handle) of the services in handle order. *)
Definition lightobs := (list (N * N * N) * option N * list (N * N))%type.

Definition light_eqb (p : profile) (o : lightobs) : bool :=
  let '(db, nxt, ranges) := o in
  list_eqb (fun (a : N * attr) (b : N * N * N) =>
              let '(k, c, h) := b in (fst a =? k) && (attr_cls (snd a) =? c) && (attr_handle (snd a) =? h))
           (dump p) db
  && match nxt with Some n => p_next p =? n | None => true end
  && list_eqb (fun (s : svc) (r : N * N) => (s_handle s =? fst r) && (s_end s =? snd r)) (p_svcs p) ranges.

(** Run the operations, comparing after each one. Returns the final profile. *)
Fixpoint run_check (p : profile) (ops : list op) (obs : list lightobs) : option profile :=
  match ops, obs with
  | [], [] => Some p
  | o :: r, ob :: obr =>
      match step p o with
      | Done q => if light_eqb q ob then run_check q r obr else None
      | Raised _ => None
      end
  | _, _ => None
  end.

Definition lres_eqb (a b : lres) : bool :=
  match a, b with
  | LNone, LNone => true
  | LSome x, LSome y => x =? y
  | LExc e, LExc f => exn_code e =? exn_code f
  | _, _ => false
  end.

Definition opt_cls_eqb (a : option attr) (b : option (N * N)) : bool :=
  match a, b with
  | None, None => true
  | Some x, Some (c, h) => (attr_cls x =? c) && (attr_handle x =? h)
  | _, _ => false
  end.

(** observed lookups *)
Record lookobs := mkLK {
  lk_hmin : N;                                  (* first handle looked up *)
  lk_by_handle : list (option (N * N));         (* for h = hmin, hmin+1, ... : class code, obj.handle *)
  lk_val2chr : list lres;                       (* for h = 0, 1, 2, ... *)
  lk_chr2svc : list lres;                       (* for h = 0, 1, 2, ... *)
  lk_ranges : list (N * N * list (N * N));      (* a, b, [class code, obj.handle] *)
  lk_by_type : list (uuid * N * N * list N);    (* type uuid, start, end, handles in the order yielded *)
  lk_svc : list (uuid * option N);              (* service(uuid) -> handle *)
  lk_chr : list (uuid * option N)               (* char(uuid) -> handle *)
}.

Fixpoint check_from {A} (f : N -> A -> bool) (h : N) (l : list A) : bool :=
  match l with [] => true | x :: r => f h x && check_from f (h + 1) r end.

Definition mem_N (x : N) (l : list N) : bool := existsb (N.eqb x) l.

Definition check_lookups (p : profile) (o : lookobs) : bool :=
  check_from (fun h ob => opt_cls_eqb (find_by_handle p h) ob) (lk_hmin o) (lk_by_handle o)
  && check_from (fun h ob => lres_eqb (find_chr_by_value_handle p h) ob) (lk_hmin o) (lk_val2chr o)
  && check_from (fun h ob => lres_eqb (find_svc_by_chr_handle p h) ob) (lk_hmin o) (lk_chr2svc o)
  && forallb (fun q => let '(a, b, r) := q in
                list_eqb (fun (x : attr) (y : N * N) => (attr_cls x =? fst y) && (attr_handle x =? snd y))
                         (find_by_range p a b) r) (lk_ranges o)
  && forallb (fun q => let '(u, a, b, r) := q in list_eqb N.eqb (find_by_type p u a b) r) (lk_by_type o)
  && forallb (fun q => match snd q, find_services p (fst q) with
                       | None, [] => true
                       | Some h, h' :: _ => h =? h'      (* the first one in dict order *)
                       | _, _ => false end) (lk_svc o)
  && forallb (fun q => match snd q, find_chars p (fst q) with
                       | None, [] => true
                       | Some h, h' :: _ => h =? h'
                       | _, _ => false end) (lk_chr o).

Definition db_order_eqb (p : profile) (db : list (N * N * N)) : bool :=
  list_eqb (fun (a : N * attr) (b : N * N * N) =>
              let '(k, c, h) := b in (fst a =? k) && (attr_cls (snd a) =? c) && (attr_handle (snd a) =? h))
           (dump p) db.

(** A whole case: definitions, operations, and everything the implementation showed. *)
Record ccase := mkCase {
  k_start : N; k_defs : list sdef; k_ops : list op;
  k_build : lightobs;
  k_again : list (N * lightobs);        (* further instances of the same class: start handle, what they show *)
  k_steps : list lightobs;
  k_final : list (N * attr); k_look : lookobs;
  k_export : list jsvc;
  (* the re-imported profile: its export, its attribute dict in iteration order, its lookups *)
  k_reimport : option (list jsvc * list (N * N * N) * lookobs);
  k_reimport_exc : N                    (* exception code when the import raised, else 0 *)
}.

Definition check_case (c : ccase) : bool :=
  let p0 := build (k_start c) (k_defs c) in
  light_eqb p0 (k_build c)
  && forallb (fun a => light_eqb (build (fst a) (k_defs c)) (snd a)) (k_again c)
  && match run_check p0 (k_ops c) (k_steps c) with
     | None => false
     | Some p =>
         list_eqb entry_eqb (dump p) (k_final c)
         && check_lookups p (k_look c)
         && list_eqb jsvc_eqb (export p) (k_export c)
         && match import (export p), k_reimport c with
            | Done q, Some (j, db, lk) =>
                list_eqb jsvc_eqb (export q) j && db_order_eqb q db && check_lookups q lk
            | Raised e, None => exn_code e =? k_reimport_exc c
            | _, _ => false
            end
     end.

(** A history case: class definitions, the history, what the profile showed after the build
    and after EVERY step, the final attributes. *)
Fixpoint hrun_check (st : hstate) (hs : list hop) (obs : list lightobs) : option profile :=
  match hs, obs with
  | [], [] => Some (fst st)
  | h :: r, ob :: obr =>
      match hstep st h with
      | (Done q, pend) => if light_eqb q ob then hrun_check (q, pend) r obr else None
      | (Raised _, _) => None
      end
  | _, _ => None
  end.

Definition check_hcase (c : N * list sdef * list hop * lightobs * list lightobs * list (N * attr)) : bool :=
  let '(start, defs, hs, ob0, obs, final) := c in
  let p0 := build start defs in
  light_eqb p0 ob0
  && match hrun_check (p0, []) hs obs with
     | None => false
     | Some p => list_eqb entry_eqb (dump p) final
     end.

(** SecurityAccess conversions alone: (accesses, int observed, accesses observed back, int again) *)
Definition check_sec (c : list access * N * list access * N) : bool :=
  let '(l, n, back, n2) := c in
  (acc_to_int l =? n) && list_eqb access_eqb (int_to_acc n) back && (acc_to_int back =? n2).

(** int -> accesses -> int *)
Definition check_int (c : N * list access * N) : bool :=
  let '(n, back, n2) := c in list_eqb access_eqb (int_to_acc n) back && (acc_to_int back =? n2).

Fixpoint Nseq (h : N) (n : nat) : list N := match n with O => [] | S m => h :: Nseq (h + 1) m end.

(** * The layout the property describes, written independently of the handle setters *)

(** The attributes a service owns, each under its own handle, in declaration order. *)
Definition desc_dump (ds : list desc) : list (N * attr) :=
  map (fun d => (d_handle d, ADesc (d_handle d) (d_kind d) (d_uuid d) (d_value d))) ds.
Definition chr_dump (c : chr) : list (N * attr) :=
  (c_handle c, AChar (c_handle c) (c_uuid c) (c_props c) (c_vhandle c) (c_end c) (c_sec c))
  :: (c_vhandle c, AVal (c_vhandle c) (c_uuid c) (c_value c) (c_handle c))
  :: desc_dump (c_descs c).
Definition svc_dump (s : svc) : list (N * attr) :=
  (s_handle s, ASvc (s_handle s) (s_primary s) (s_uuid s) (s_end s))
  :: map (fun i => (i_handle i, AIncl (i_handle i) (i_uuid i))) (s_incls s)
  ++ flat_map chr_dump (s_chars s).

(** One characteristic whose declaration is at [h]: value right after the declaration,
    descriptors after the value, end handle = last own attribute. *)
Definition chr_spec (h : N) (c : chr) : Prop :=
  c_handle c = h /\ c_vhandle c = h + 1
  /\ map d_handle (c_descs c) = Nseq (h + 2) (length (c_descs c))
  /\ c_end c = h + 1 + lenN (c_descs c).

(** The characteristics of a service in declaration order, one right after the other. *)
Fixpoint chars_spec (h : N) (cs : list chr) : Prop :=
  match cs with [] => True | c :: r => chr_spec h c /\ chars_spec (c_end c + 1) r end.

(** One service: declaration, include definitions, characteristics; its handle range
    [s_handle .. s_end] covers exactly its own attributes. *)
Definition svc_spec (s : svc) : Prop :=
  map i_handle (s_incls s) = Nseq (s_handle s + 1) (length (s_incls s))
  /\ chars_spec (s_handle s + 1 + lenN (s_incls s)) (s_chars s)
  /\ map fst (svc_dump s) = Nseq (s_handle s) (length (svc_dump s))
  /\ s_end s + 1 = s_handle s + lenN (svc_dump s).

(** The services one after the other. [gaps = false]: the first one starts at [lo], each
    next one right after the previous one, and [next] is right after the last attribute
    (contiguous without gaps).  [gaps = true]: ranges strictly increasing only. *)
Fixpoint svcs_spec (gaps : bool) (lo : N) (l : list svc) (next : N) : Prop :=
  match l with
  | [] => if gaps then lo <= next else next = lo
  | s :: r => (if gaps then lo <= s_handle s else s_handle s = lo)
              /\ svc_spec s /\ svcs_spec gaps (s_end s + 1) r next
  end.

(** characteristic handle -> handle of the owning service, as the lookup table resolves *)
Definition cmap_view (p : profile) : list (N * option N) :=
  map (fun e => (fst e, option_map s_handle (find_svc (snd e) (p_svcs p)))) (p_cmap p).

(** The state of a profile agrees with the layout of its listed services. *)
Definition layout (gaps : bool) (p : profile) : Prop :=
  1 <= p_start p
  /\ dump p = flat_map svc_dump (p_svcs p)
  /\ svcs_spec gaps (p_start p) (p_svcs p) (p_next p)
  /\ cmap_view p = flat_map (fun s => map (fun c => (c_handle c, Some (s_handle s))) (s_chars s)) (p_svcs p)
  /\ NoDup (map fst (p_cmap p)).

(** strictly ascending *)
Fixpoint ascending (l : list N) : Prop :=
  match l with [] => True | x :: r => Forall (fun y => x < y) r /\ ascending r end.

(** The attribute dict holds exactly the attributes of the listed services, each under its
    own handle, in WHATEVER registration order (class-built profiles register in ascending
    order, the JSON import registers descriptors, declaration, value, ..., service last);
    the handles of the layout are strictly ascending; same for the characteristic table. *)
Definition db_agrees (p : profile) : Prop :=
  Permutation (dump p) (flat_map svc_dump (p_svcs p))
  /\ ascending (map fst (flat_map svc_dump (p_svcs p)))
  /\ Permutation (cmap_view p)
                 (flat_map (fun s => map (fun c => (c_handle c, Some (s_handle s))) (s_chars s)) (p_svcs p))
  /\ NoDup (map fst (p_cmap p)).

Definition hop_no_remove (h : hop) : bool := match h with HOp (OpRemove _) => false | _ => true end.

Definition is_remove (o : op) : bool := match o with OpRemove _ => true | _ => false end.
Definition no_remove (ops : list op) : bool := forallb (fun o => negb (is_remove o)) ops.
