(** C16 — lemmas about the GATT profile model. *)
From Coq Require Import List NArith ZArith Arith Bool Lia ZifyBool ZifyN ZifyNat Permutation.
From Whad Require Import Lib.Bytes C16.Model.
Import ListNotations.
Open Scope N_scope.
Ltac Zify.zify_post_hook ::= Z.to_euclidean_division_equations.

(** * Lists, [lenN], [Nseq] *)

Lemma lenN_app {A} (a b : list A) : lenN (a ++ b) = lenN a + lenN b.
Proof. induction a as [|x a IH]; cbn [lenN app]; [reflexivity|]. rewrite IH. lia. Qed.

Lemma lenN_length {A} (l : list A) : lenN l = N.of_nat (length l).
Proof. induction l as [|x l IH]; cbn [lenN length]; [reflexivity|]. rewrite IH. lia. Qed.

Lemma lenN_map {A B} (f : A -> B) l : lenN (map f l) = lenN l.
Proof. induction l as [|x l IH]; cbn [lenN map]; congruence. Qed.

Lemma Nseq_app h a b : Nseq h (a + b) = Nseq h a ++ Nseq (h + N.of_nat a) b.
Proof.
  revert h; induction a as [|a IH]; intros h; cbn [Nseq Nat.add app].
  - f_equal. lia.
  - rewrite IH. do 3 f_equal. lia.
Qed.

Lemma Nseq_length h n : length (Nseq h n) = n.
Proof. revert h; induction n as [|n IH]; intros h; cbn [Nseq length]; [reflexivity|]. now rewrite IH. Qed.

Lemma Nseq_In h n x : In x (Nseq h n) <-> h <= x < h + N.of_nat n.
Proof.
  revert h; induction n as [|n IH]; intros h; cbn [Nseq In].
  - lia.
  - rewrite IH. lia.
Qed.

Lemma Nseq_NoDup h n : NoDup (Nseq h n).
Proof.
  revert h; induction n as [|n IH]; intros h; cbn [Nseq]; constructor; [|apply IH].
  rewrite Nseq_In. lia.
Qed.

(** * Association lists sorted by key *)

Section DBL.
  Context {V : Type}.
  Implicit Types l a b : list (N * V).

  Definition all_lt l (h : N) : Prop := Forall (fun e => fst e < h) l.
  Definition all_ge l (h : N) : Prop := Forall (fun e => h <= fst e) l.

  (** keys strictly increasing, all >= lo *)
  Fixpoint incr (lo : N) l : Prop :=
    match l with [] => True | e :: r => lo <= fst e /\ incr (fst e + 1) r end.

  (** keys are exactly h, h+1, h+2, ... *)
  Definition contig (h : N) l : Prop := map fst l = Nseq h (length l).

  Lemma all_lt_app a b h : all_lt (a ++ b) h <-> all_lt a h /\ all_lt b h.
  Proof. apply Forall_app. Qed.
  Lemma all_ge_app a b h : all_ge (a ++ b) h <-> all_ge a h /\ all_ge b h.
  Proof. apply Forall_app. Qed.
  Lemma all_lt_weaken l h h' : all_lt l h -> h <= h' -> all_lt l h'.
  Proof. intros H Hle. eapply Forall_impl; [|exact H]. cbn. intros; lia. Qed.
  Lemma all_ge_weaken l h h' : all_ge l h -> h' <= h -> all_ge l h'.
  Proof. intros H Hle. eapply Forall_impl; [|exact H]. cbn. intros; lia. Qed.

  Lemma incr_weaken lo lo' l : incr lo l -> lo' <= lo -> incr lo' l.
  Proof. destruct l as [|e r]; cbn [incr]; [trivial|]. intros [H1 H2] Hle. split; [lia|exact H2]. Qed.

  Lemma incr_all_ge lo l : incr lo l -> all_ge l lo.
  Proof.
    revert lo; induction l as [|e r IH]; intros lo; cbn [incr]; [constructor|].
    intros [H1 H2]. constructor; [exact H1|]. eapply all_ge_weaken; [apply IH, H2|lia].
  Qed.

  Lemma incr_app lo a b mid :
    incr lo a -> all_lt a mid -> lo <= mid -> incr mid b -> incr lo (a ++ b).
  Proof.
    revert lo; induction a as [|e r IH]; intros lo Ha Hlt Hle Hb; cbn [app incr].
    - eapply incr_weaken; eassumption.
    - cbn [incr] in Ha. destruct Ha as [H1 H2]. inversion Hlt as [|? ? Hx Hr]; subst.
      split; [exact H1|]. apply IH; [exact H2|exact Hr|lia|exact Hb].
  Qed.

  Lemma contig_nil h : contig h [].
  Proof. reflexivity. Qed.

  Lemma contig_cons h e l : fst e = h -> contig (h + 1) l -> contig h (e :: l).
  Proof. unfold contig. intros He Hl. cbn [map length Nseq]. now rewrite He, Hl. Qed.

  Lemma contig_app h a b : contig h a -> contig (h + lenN a) b -> contig h (a ++ b).
  Proof.
    unfold contig. intros Ha Hb. rewrite map_app, app_length, Nseq_app, Ha, Hb.
    rewrite lenN_length. reflexivity.
  Qed.

  Lemma contig_incr h l : contig h l -> incr h l.
  Proof.
    revert h; induction l as [|e r IH]; intros h; cbn [incr]; [trivial|].
    unfold contig. cbn [map length Nseq]. intros H. injection H as He Hr.
    split; [lia|]. rewrite He. apply IH. exact Hr.
  Qed.

  Lemma contig_all_lt h l : contig h l -> all_lt l (h + lenN l).
  Proof.
    revert h; induction l as [|e r IH]; intros h; [constructor|].
    unfold contig. cbn [map length Nseq lenN]. intros H. injection H as He Hr.
    constructor; [lia|]. eapply all_lt_weaken; [apply IH; exact Hr|lia].
  Qed.

  Lemma incr_NoDup lo l : incr lo l -> NoDup (map fst l).
  Proof.
    revert lo; induction l as [|e r IH]; intros lo; cbn [incr map]; [constructor|].
    intros [H1 H2]. constructor; [|eapply IH; exact H2].
    intros Hin. apply incr_all_ge in H2. apply in_map_iff in Hin as (x & Hx & Hin).
    unfold all_ge in H2. rewrite Forall_forall in H2. specialize (H2 _ Hin). lia.
  Qed.

  (** [db_set] with a key not yet present appends (Python dict: new keys go last). *)
  Lemma db_set_fresh k v l : ~ In k (map fst l) -> db_set k v l = l ++ [(k, v)].
  Proof.
    induction l as [|[k' v'] r IH]; intros H; cbn [db_set app]; [reflexivity|].
    cbn [map fst In] in H. destruct (k =? k') eqn:E; [apply N.eqb_eq in E; exfalso; apply H; now left|].
    rewrite IH; [reflexivity|tauto].
  Qed.

  Lemma all_lt_notin k l : all_lt l k -> ~ In k (map fst l).
  Proof.
    intros H Hin. apply in_map_iff in Hin as (e & He & Hin). unfold all_lt in H. rewrite Forall_forall in H.
    apply H in Hin. lia.
  Qed.

  Lemma db_set_append k v l : all_lt l k -> db_set k v l = l ++ [(k, v)].
  Proof. intros H. apply db_set_fresh, all_lt_notin, H. Qed.

  (** re-assigning the value a key already has changes nothing *)
  Lemma db_set_same k v l : db_get k l = Some v -> db_set k v l = l.
  Proof.
    induction l as [|[k' v'] r IH]; cbn [db_get db_set]; [discriminate|].
    rewrite (N.eqb_sym k k'). destruct (k' =? k) eqn:E.
    - intros H. injection H as ->. apply N.eqb_eq in E. now subst.
    - intros H. now rewrite IH.
  Qed.

  Lemma db_set_all_append lo es l : incr lo es -> all_lt l lo -> db_set_all es l = l ++ es.
  Proof.
    unfold db_set_all. revert lo l; induction es as [|[k v] r IH]; intros lo l Hes Hl; cbn [fold_left].
    - now rewrite app_nil_r.
    - cbn [incr fst snd] in *. destruct Hes as [H1 H2].
      rewrite db_set_append by (eapply all_lt_weaken; eassumption).
      rewrite (IH (k + 1)); [now rewrite <- app_assoc|exact H2|].
      apply all_lt_app. split; [eapply all_lt_weaken; [exact Hl|lia]|]. constructor; [cbn; lia|constructor].
  Qed.

  Lemma filter_all_true (f : N * V -> bool) l : Forall (fun e => f e = true) l -> filter f l = l.
  Proof. induction 1 as [|e r He _ IH]; cbn [filter]; [reflexivity|]. now rewrite He, IH. Qed.
  Lemma filter_all_false (f : N * V -> bool) l : Forall (fun e => f e = false) l -> filter f l = [].
  Proof. induction 1 as [|e r He _ IH]; cbn [filter]; [reflexivity|]. now rewrite He, IH. Qed.

  Lemma db_below_app a b h : all_lt a h -> all_ge b h -> db_below h (a ++ b) = a.
  Proof.
    intros Ha Hb. unfold db_below. rewrite filter_app.
    rewrite filter_all_true, filter_all_false, app_nil_r; [reflexivity| |].
    - eapply Forall_impl; [|exact Hb]. cbn. intros; lia.
    - eapply Forall_impl; [|exact Ha]. cbn. intros; lia.
  Qed.

  Lemma filter_filter (f g : N * V -> bool) l :
    filter f (filter g l) = filter (fun e => g e && f e) l.
  Proof.
    induction l as [|e r IH]; cbn [filter]; [reflexivity|].
    destruct (g e); cbn [filter andb]; [destruct (f e)|]; now rewrite IH.
  Qed.

  Lemma db_del_all_filter ks l :
    db_del_all ks l = filter (fun e => negb (mem_N (fst e) ks)) l.
  Proof.
    unfold db_del_all. revert l; induction ks as [|k r IH]; intros l; cbn [fold_left].
    - cbn [mem_N existsb negb]. symmetry. apply filter_all_true. apply Forall_forall. reflexivity.
    - rewrite IH. unfold db_del. rewrite filter_filter. apply filter_ext. intros e.
      unfold mem_N. cbn [existsb]. rewrite negb_orb. reflexivity.
  Qed.

  Lemma mem_N_In (x : N) (ks : list N) : mem_N x ks = true <-> In x ks.
  Proof.
    unfold mem_N. rewrite existsb_exists. split.
    - intros (y & Hy & E). apply N.eqb_eq in E. now subst.
    - intros H. exists x. split; [exact H|apply N.eqb_refl].
  Qed.

  (** deleting exactly the keys of the middle block *)
  Lemma db_del_all_block a s b ks :
    (forall e, In e a -> ~ In (fst e) ks) -> (forall e, In e b -> ~ In (fst e) ks) ->
    (forall e, In e s -> In (fst e) ks) ->
    db_del_all ks (a ++ s ++ b) = a ++ b.
  Proof.
    intros Ha Hb Hs. rewrite db_del_all_filter, !filter_app.
    rewrite (filter_all_true _ a), (filter_all_false _ s), (filter_all_true _ b); [reflexivity| | |].
    - apply Forall_forall. intros e He. destruct (mem_N (fst e) ks) eqn:E; [|reflexivity].
      apply mem_N_In in E. now apply Hb in He.
    - apply Forall_forall. intros e He. apply Hs, mem_N_In in He. now rewrite He.
    - apply Forall_forall. intros e He. destruct (mem_N (fst e) ks) eqn:E; [|reflexivity].
      apply mem_N_In in E. now apply Ha in He.
  Qed.

  Lemma db_get_app_l k a b v : db_get k a = Some v -> db_get k (a ++ b) = Some v.
  Proof.
    induction a as [|[k' v'] r IH]; cbn [db_get app]; [discriminate|].
    destruct (k' =? k); [trivial|exact IH].
  Qed.

  Lemma db_get_notin k l : ~ In k (map fst l) -> db_get k l = None.
  Proof.
    induction l as [|[k' v'] r IH]; cbn [db_get map In fst]; [reflexivity|].
    intros H. destruct (k' =? k) eqn:E; [exfalso; apply H; left; lia|]. apply IH. tauto.
  Qed.

  Lemma db_get_app_r k a b : ~ In k (map fst a) -> db_get k (a ++ b) = db_get k b.
  Proof.
    induction a as [|[k' v'] r IH]; cbn [db_get app map In fst]; [reflexivity|].
    intros H. destruct (k' =? k) eqn:E; [exfalso; apply H; left; lia|]. apply IH. tauto.
  Qed.

  Lemma db_get_In k v l : NoDup (map fst l) -> In (k, v) l -> db_get k l = Some v.
  Proof.
    induction l as [|[k' v'] r IH]; cbn [db_get map In fst]; [tauto|].
    intros Hnd [H|H].
    - injection H as -> ->. now rewrite N.eqb_refl.
    - inversion Hnd as [|? ? Hni Hnd']; subst. destruct (k' =? k) eqn:E.
      + exfalso. apply Hni. apply N.eqb_eq in E. subst. apply in_map_iff. now exists (k, v).
      + now apply IH.
  Qed.

  Lemma db_get_Some_In k v l : db_get k l = Some v -> In (k, v) l.
  Proof.
    induction l as [|[k' v'] r IH]; cbn [db_get In]; [discriminate|].
    destruct (k' =? k) eqn:E; [|now right; apply IH].
    intros H. injection H as ->. apply N.eqb_eq in E. subst. now left.
  Qed.
End DBL.

(** * Handle setters *)

Fixpoint chars_size (cs : list chr) : N :=
  match cs with [] => 0 | c :: r => 2 + lenN (c_descs c) + chars_size r end.
Definition svc_size (s : svc) : N := 1 + lenN (s_incls s) + chars_size (s_chars s).

Lemma lenN_relabel_descs h ds : lenN (relabel_descs h ds) = lenN ds.
Proof. revert h; induction ds as [|d r IH]; intros h; cbn [relabel_descs lenN]; [reflexivity|]. now rewrite IH. Qed.

Lemma relabel_descs_idem h h' ds : relabel_descs h (relabel_descs h' ds) = relabel_descs h ds.
Proof.
  revert h h'; induction ds as [|d r IH]; intros h h'; cbn [relabel_descs]; [reflexivity|].
  now rewrite IH.
Qed.

Lemma chr_set_handle_idem h h' c : chr_set_handle h (chr_set_handle h' c) = chr_set_handle h c.
Proof.
  unfold chr_set_handle. cbn [c_id c_uuid c_props c_sec c_value c_descs].
  now rewrite lenN_relabel_descs, relabel_descs_idem.
Qed.

Lemma c_end_set h c : c_end (chr_set_handle h c) = h + 1 + lenN (c_descs c).
Proof. reflexivity. Qed.

Lemma relabel_chars_idem h h' cs : relabel_chars h (relabel_chars h' cs) = relabel_chars h cs.
Proof.
  revert h h'; induction cs as [|c r IH]; intros h h'; cbn [relabel_chars]; [reflexivity|].
  rewrite chr_set_handle_idem. f_equal. apply IH.
Qed.

Lemma lenN_relabel_incls h l : lenN (relabel_incls h l) = lenN l.
Proof. revert h; induction l as [|i r IH]; intros h; cbn [relabel_incls lenN]; [reflexivity|]. now rewrite IH. Qed.

Lemma relabel_incls_idem h h' l : relabel_incls h (relabel_incls h' l) = relabel_incls h l.
Proof.
  revert h h'; induction l as [|i r IH]; intros h h'; cbn [relabel_incls]; [reflexivity|].
  now rewrite IH.
Qed.

Lemma chars_size_relabel h cs : chars_size (relabel_chars h cs) = chars_size cs.
Proof.
  revert h; induction cs as [|c r IH]; intros h; cbn [relabel_chars chars_size]; [reflexivity|].
  rewrite IH. unfold chr_set_handle. cbn [c_descs]. now rewrite lenN_relabel_descs.
Qed.

Lemma last_end_relabel h cs : last_end h (relabel_chars h cs) = h + chars_size cs.
Proof.
  revert h; induction cs as [|c r IH]; intros h; cbn [relabel_chars last_end chars_size]; [lia|].
  rewrite IH, c_end_set. lia.
Qed.

Lemma svc_set_handle_idem h h' s : svc_set_handle h (svc_set_handle h' s) = svc_set_handle h s.
Proof.
  unfold svc_set_handle. cbn [s_id s_primary s_uuid s_incls s_chars].
  now rewrite lenN_relabel_incls, relabel_chars_idem, relabel_incls_idem.
Qed.

Lemma s_end_set h s : s_end (svc_set_handle h s) + 1 = h + svc_size s.
Proof. unfold svc_set_handle, svc_size. cbn [s_end]. rewrite last_end_relabel. lia. Qed.

Lemma svc_size_set h s : svc_size (svc_set_handle h s) = svc_size s.
Proof.
  unfold svc_set_handle, svc_size. cbn [s_incls s_chars].
  now rewrite lenN_relabel_incls, chars_size_relabel.
Qed.

(** entries registered for a freshly laid out object are contiguous *)

Lemma lenN_desc_entries sid cid k ds : lenN (desc_entries sid cid k ds) = lenN ds.
Proof. revert k; induction ds as [|d r IH]; intros k; cbn [desc_entries lenN]; [reflexivity|]. now rewrite IH. Qed.

Lemma desc_entries_contig sid cid k h ds : contig (h + 1) (desc_entries sid cid k (relabel_descs h ds)).
Proof.
  revert h k; induction ds as [|d r IH]; intros h k; cbn [relabel_descs desc_entries]; [apply contig_nil|].
  apply contig_cons; [reflexivity|apply IH].
Qed.

Lemma lenN_chr_entries sid c : lenN (chr_entries sid c) = 2 + lenN (c_descs c).
Proof. unfold chr_entries. cbn [lenN]. rewrite lenN_desc_entries. lia. Qed.

Lemma chr_entries_contig sid h c : contig h (chr_entries sid (chr_set_handle h c)).
Proof.
  unfold chr_entries, chr_set_handle. cbn [c_handle c_vhandle c_id c_descs].
  apply contig_cons; [reflexivity|]. apply contig_cons; [reflexivity|]. apply desc_entries_contig.
Qed.

Lemma lenN_chars_entries sid cs : lenN (flat_map (chr_entries sid) cs) = chars_size cs.
Proof.
  induction cs as [|c r IH]; cbn [flat_map lenN chars_size]; [reflexivity|].
  rewrite lenN_app, lenN_chr_entries, IH. lia.
Qed.

Lemma chars_entries_contig sid h cs : contig (h + 1) (flat_map (chr_entries sid) (relabel_chars h cs)).
Proof.
  revert h; induction cs as [|c r IH]; intros h; cbn [relabel_chars flat_map]; [apply contig_nil|].
  apply contig_app; [apply chr_entries_contig|].
  rewrite lenN_chr_entries. specialize (IH (c_end (chr_set_handle (h + 1) c))).
  rewrite c_end_set in *. unfold chr_set_handle at 1. cbn [c_descs]. rewrite lenN_relabel_descs.
  replace (h + 1 + (2 + lenN (c_descs c))) with (h + 1 + 1 + lenN (c_descs c) + 1) by lia. exact IH.
Qed.

Lemma lenN_incl_entries sid k l : lenN (incl_entries sid k l) = lenN l.
Proof. revert k; induction l as [|i r IH]; intros k; cbn [incl_entries lenN]; [reflexivity|]. now rewrite IH. Qed.

Lemma incl_entries_contig sid k h l : contig (h + 1) (incl_entries sid k (relabel_incls h l)).
Proof.
  revert h k; induction l as [|i r IH]; intros h k; cbn [relabel_incls incl_entries]; [apply contig_nil|].
  apply contig_cons; [reflexivity|apply IH].
Qed.

Lemma lenN_svc_entries s : lenN (svc_entries s) = svc_size s.
Proof.
  unfold svc_entries, svc_size. cbn [lenN]. rewrite lenN_app, lenN_incl_entries, lenN_chars_entries. lia.
Qed.

Lemma svc_entries_contig h s : contig h (svc_entries (svc_set_handle h s)).
Proof.
  unfold svc_entries, svc_set_handle. cbn [s_handle s_id s_incls s_chars].
  apply contig_cons; [reflexivity|]. apply contig_app; [apply incl_entries_contig|].
  rewrite lenN_incl_entries, lenN_relabel_incls.
  replace (h + 1 + lenN (s_incls s)) with (h + lenN (s_incls s) + 1) by lia.
  apply chars_entries_contig.
Qed.

(** ** Internally consistent services: fixpoints of the handle setter *)

Definition svc_ok (s : svc) : Prop := svc_set_handle (s_handle s) s = s.

Lemma svc_ok_set h s : svc_ok (svc_set_handle h s).
Proof. unfold svc_ok. replace (s_handle (svc_set_handle h s)) with h by reflexivity. apply svc_set_handle_idem. Qed.

Lemma svc_ok_contig s : svc_ok s -> contig (s_handle s) (svc_entries s).
Proof. intros H. pose proof (svc_entries_contig (s_handle s) s) as P. unfold svc_ok in H. now rewrite H in P. Qed.

Lemma svc_ok_end s : svc_ok s -> s_end s + 1 = s_handle s + svc_size s.
Proof. intros H. pose proof (s_end_set (s_handle s) s) as P. unfold svc_ok in H. now rewrite H in P. Qed.

(** * Chains of services with increasing, disjoint handle ranges *)

Section CHAIN.
  Context {V : Type} (ent : svc -> list (N * V)).

  Definition ent_sorted (s : svc) : Prop :=
    s_handle s <= s_end s /\ incr (s_handle s) (ent s) /\ all_lt (ent s) (s_end s + 1).

  Fixpoint gchain (lo : N) (l : list svc) (hi : N) : Prop :=
    match l with
    | [] => lo <= hi
    | s :: r => lo <= s_handle s /\ ent_sorted s /\ gchain (s_end s + 1) r hi
    end.

  Fixpoint next_after (lo : N) (l : list svc) : N :=
    match l with [] => lo | s :: r => next_after (s_end s + 1) r end.

  Lemma gchain_le lo l hi : gchain lo l hi -> lo <= hi.
  Proof.
    revert lo; induction l as [|s r IH]; intros lo; cbn [gchain]; [trivial|].
    intros (H1 & (H2 & _) & H3). apply IH in H3. lia.
  Qed.

  Lemma gchain_weaken lo lo' l hi hi' : gchain lo l hi -> lo' <= lo -> hi <= hi' -> gchain lo' l hi'.
  Proof.
    revert lo lo'; induction l as [|s r IH]; intros lo lo'; cbn [gchain]; [lia|].
    intros (H1 & H2 & H3) Hlo Hhi. repeat split; try lia; try apply H2. eapply IH; [exact H3|lia|exact Hhi].
  Qed.

  Lemma gchain_next lo l hi : gchain lo l hi -> gchain lo l (next_after lo l) /\ next_after lo l <= hi.
  Proof.
    revert lo; induction l as [|s r IH]; intros lo; cbn [gchain next_after]; [lia|].
    intros (H1 & H2 & H3). destruct (IH _ H3) as [H4 H5]. repeat split; try assumption; apply H2.
  Qed.

  Lemma gchain_app_intro lo a mid b hi : gchain lo a mid -> gchain mid b hi -> gchain lo (a ++ b) hi.
  Proof.
    revert lo; induction a as [|s r IH]; intros lo; cbn [gchain app].
    - intros H1 H2. eapply gchain_weaken; [exact H2|exact H1|lia].
    - intros (H1 & H2 & H3) Hb. repeat split; try assumption; try apply H2. now apply IH.
  Qed.

  Lemma gchain_app_elim lo a b hi :
    gchain lo (a ++ b) hi -> gchain lo a (next_after lo a) /\ gchain (next_after lo a) b hi.
  Proof.
    revert lo; induction a as [|s r IH]; intros lo; cbn [gchain app next_after].
    - intros H. split; [lia|exact H].
    - intros (H1 & H2 & H3). destruct (IH _ H3) as [H4 H5]. repeat split; try assumption; apply H2.
  Qed.

  Lemma gchain_entries lo l hi :
    gchain lo l hi -> incr lo (flat_map ent l) /\ all_lt (flat_map ent l) hi.
  Proof.
    revert lo; induction l as [|s r IH]; intros lo; cbn [gchain flat_map].
    - intros _. split; constructor.
    - intros (H1 & (H2 & H3 & H4) & H5). pose proof (gchain_le _ _ _ H5) as Hle.
      destruct (IH _ H5) as [H6 H7]. split.
      + eapply incr_app; [eapply incr_weaken; [exact H3|exact H1]|exact H4|lia|exact H6].
      + apply all_lt_app. split; [eapply all_lt_weaken; [exact H4|exact Hle]|exact H7].
  Qed.

  (** registering the services of a chain above everything present appends their entries *)
  Lemma register_chain lo l hi (d : list (N * V)) :
    gchain lo l hi -> all_lt d lo ->
    fold_left (fun d x => db_set_all (ent x) d) l d = d ++ flat_map ent l.
  Proof.
    revert lo d; induction l as [|s r IH]; intros lo d; cbn [gchain fold_left flat_map].
    - intros _ _. now rewrite app_nil_r.
    - intros (H1 & (H2 & H3 & H4) & H5) Hd.
      rewrite (db_set_all_append (s_handle s)); [|exact H3|eapply all_lt_weaken; eassumption].
      rewrite (IH (s_end s + 1)); [now rewrite <- app_assoc|exact H5|].
      apply all_lt_app. split; [eapply all_lt_weaken; [exact Hd|lia]|exact H4].
  Qed.
End CHAIN.

Lemma incr_keys {V W} (a : list (N * V)) (b : list (N * W)) lo :
  map fst a = map fst b -> incr lo a -> incr lo b.
Proof.
  revert b lo; induction a as [|e r IH]; intros [|e' r'] lo; cbn [map incr]; try discriminate; [trivial|].
  intros H. injection H as He Hr. rewrite <- He. intros [H1 H2]. split; [exact H1|]. now apply IH.
Qed.

Lemma all_lt_keys {V W} (a : list (N * V)) (b : list (N * W)) h :
  map fst a = map fst b -> all_lt a h -> all_lt b h.
Proof.
  revert b; induction a as [|e r IH]; intros [|e' r']; cbn [map]; try discriminate; [constructor|].
  intros H. injection H as He Hr. intros Hlt. inversion Hlt; subst. constructor; [now rewrite <- He|now apply IH].
Qed.

Definition all_entries (l : list svc) : list (N * ref) := flat_map svc_entries l.
Definition all_cmap (l : list svc) : list (N * N) := flat_map svc_cmap l.

Lemma svc_ok_sorted s : svc_ok s -> ent_sorted svc_entries s.
Proof.
  intros H. pose proof (svc_ok_contig _ H) as Hc. pose proof (svc_ok_end _ H) as He.
  unfold ent_sorted. split; [|split].
  - unfold svc_size in He. lia.
  - now apply contig_incr.
  - apply contig_all_lt in Hc. rewrite lenN_svc_entries in Hc. now rewrite He.
Qed.

(** the characteristic-handle table of a consistent service *)
Lemma cmap_relabel_sorted (sid : N) h cs :
  incr (h + 1) (map (fun c => (c_handle c, sid)) (relabel_chars h cs))
  /\ all_lt (map (fun c => (c_handle c, sid)) (relabel_chars h cs)) (h + chars_size cs + 1).
Proof.
  revert h; induction cs as [|c r IH]; intros h; cbn [relabel_chars map incr chars_size]; [split; constructor|].
  destruct (IH (c_end (chr_set_handle (h + 1) c))) as [H1 H2]. rewrite c_end_set in *.
  cbn [fst c_handle chr_set_handle]. split.
  - split; [lia|]. eapply incr_weaken; [exact H1|lia].
  - constructor; [cbn [fst]; lia|]. eapply all_lt_weaken; [exact H2|lia].
Qed.

Lemma svc_ok_cmap_sorted s : svc_ok s -> ent_sorted svc_cmap s.
Proof.
  intros H. pose proof (svc_ok_end _ H) as He. unfold svc_ok in H.
  assert (Hc : s_chars s = relabel_chars (s_handle s + lenN (s_incls s)) (s_chars s)).
  { rewrite <- H at 1. reflexivity. }
  unfold ent_sorted, svc_cmap. unfold svc_size in He. split; [lia|].
  rewrite Hc. destruct (cmap_relabel_sorted (s_id s) (s_handle s + lenN (s_incls s)) (s_chars s)) as [H1 H2].
  split; [eapply incr_weaken; [exact H1|lia]|eapply all_lt_weaken; [exact H2|lia]].
Qed.

Lemma gchain_cmap lo l hi : gchain svc_entries lo l hi -> Forall svc_ok l -> gchain svc_cmap lo l hi.
Proof.
  revert lo; induction l as [|s r IH]; intros lo; cbn [gchain]; [trivial|].
  intros (H1 & H2 & H3) Hok. inversion Hok; subst. split; [exact H1|split; [now apply svc_ok_cmap_sorted|now apply IH]].
Qed.

(** * Object identities *)

Definition svc_ids (s : svc) : list N := s_id s :: map c_id (s_chars s).
Definition all_ids (l : list svc) : list N := flat_map svc_ids l.
Definition ids_ok (fresh : N) (l : list svc) : Prop :=
  NoDup (all_ids l) /\ Forall (fun x => x < fresh) (all_ids l).

Lemma c_id_relabel h cs : map c_id (relabel_chars h cs) = map c_id cs.
Proof. revert h; induction cs as [|c r IH]; intros h; cbn [relabel_chars map]; [reflexivity|]. now rewrite IH. Qed.

Lemma svc_ids_set h s : svc_ids (svc_set_handle h s) = svc_ids s.
Proof. unfold svc_ids, svc_set_handle. cbn [s_id s_chars]. now rewrite c_id_relabel. Qed.

Lemma all_ids_shift h l : all_ids (shift_services h l) = all_ids l.
Proof.
  revert h; induction l as [|s r IH]; intros h; cbn [shift_services all_ids flat_map]; [reflexivity|].
  fold (all_ids (shift_services (s_end (svc_set_handle (h + 1) s)) r)). fold (all_ids r).
  now rewrite svc_ids_set, IH.
Qed.

Lemma all_ids_app a b : all_ids (a ++ b) = all_ids a ++ all_ids b.
Proof. apply flat_map_app. Qed.

Lemma NoDup_app_intro {A} (a b : list A) :
  NoDup a -> NoDup b -> (forall x, In x a -> ~ In x b) -> NoDup (a ++ b).
Proof.
  induction a as [|x a IH]; intros Ha Hb Hd; cbn [app]; [exact Hb|].
  inversion Ha; subst. constructor.
  - intros Hin. apply in_app_or in Hin as [Hin|Hin]; [contradiction|]. eapply Hd; [left; reflexivity|exact Hin].
  - apply IH; [assumption|assumption|]. intros y Hy. apply Hd. now right.
Qed.

Lemma NoDup_app_elim {A} (a b : list A) :
  NoDup (a ++ b) -> NoDup a /\ NoDup b /\ (forall x, In x a -> ~ In x b).
Proof.
  induction a as [|x a IH]; cbn [app]; intros H.
  - repeat split; [constructor|exact H|intros ? []].
  - inversion H; subst. destruct (IH H3) as (H4 & H5 & H6). repeat split.
    + constructor; [|exact H4]. intros Hin. apply H2. apply in_or_app. now left.
    + exact H5.
    + intros y [->|Hy]; [intros Hin; apply H2; apply in_or_app; now right|now apply H6].
Qed.

Lemma NoDup_remove_block {A} (a blk b : list A) : NoDup (a ++ blk ++ b) -> NoDup (a ++ b).
Proof.
  induction blk as [|x blk IH]; cbn [app]; [trivial|].
  intros H. apply NoDup_remove_1 in H. exact (IH H).
Qed.

Lemma number_chars_ids n cs : map c_id (number_chars n cs) = Nseq n (length cs).
Proof. revert n; induction cs as [|c r IH]; intros n; cbn [number_chars map length Nseq c_id]; [reflexivity|]. now rewrite IH. Qed.

Lemma svc_ids_number n s : svc_ids (number_svc n s) = Nseq n (S (length (s_chars s))).
Proof. unfold svc_ids, number_svc. cbn [s_id s_chars Nseq]. now rewrite number_chars_ids. Qed.

(** * The invariants *)

Record InvW (p : profile) : Prop := mkInvW {
  w_start : 1 <= p_start p;
  w_chain : gchain svc_entries (p_start p) (p_svcs p) (p_next p);
  w_db : p_db p = all_entries (p_svcs p);
  w_ids : ids_ok (p_fresh p) (p_svcs p) }.

Record Inv (p : profile) : Prop := mkInv {
  i_w : InvW p;
  i_ok : Forall svc_ok (p_svcs p);
  i_cmap : p_cmap p = all_cmap (p_svcs p) }.

(** contiguous from the start handle: every service starts where the previous one ended *)
Fixpoint tight (lo : N) (l : list svc) (hi : N) : Prop :=
  match l with [] => lo = hi | s :: r => s_handle s = lo /\ tight (s_end s + 1) r hi end.

Definition InvS (p : profile) : Prop := Inv p /\ tight (p_start p) (p_svcs p) (p_next p).

Lemma tight_app_intro lo a mid b hi : tight lo a mid -> tight mid b hi -> tight lo (a ++ b) hi.
Proof.
  revert lo; induction a as [|s r IH]; intros lo; cbn [tight app].
  - now intros ->.
  - intros [H1 H2] Hb. split; [exact H1|now apply IH].
Qed.

Lemma tight_app_elim lo a b hi : tight lo (a ++ b) hi -> tight lo a (next_after lo a) /\ tight (next_after lo a) b hi.
Proof.
  revert lo; induction a as [|s r IH]; intros lo; cbn [tight app next_after].
  - intros H. split; [reflexivity|exact H].
  - intros [H1 H2]. destruct (IH _ H2). repeat split; assumption.
Qed.

(** ** add_service *)

Definition placed (p : profile) (s0 : svc) : svc :=
  let s1 := number_svc (p_fresh p) s0 in
  if s_handle s1 =? 0 then svc_set_handle (p_next p) s1 else s1.

Lemma add_service_eq p s0 :
  add_service p s0 = mkP (p_start p) (s_end (placed p s0) + 1) (p_fresh p + 1 + lenN (s_chars s0))
                         (p_svcs p ++ [placed p s0])
                         (db_set_all (svc_entries (placed p s0)) (p_db p))
                         (db_set_all (svc_cmap (placed p s0)) (p_cmap p)).
Proof. reflexivity. Qed.

Lemma svc_ids_placed p s0 : svc_ids (placed p s0) = Nseq (p_fresh p) (S (length (s_chars s0))).
Proof.
  unfold placed. destruct (s_handle (number_svc (p_fresh p) s0) =? 0);
    [rewrite svc_ids_set|]; apply svc_ids_number.
Qed.

Lemma ids_ok_add p s0 :
  ids_ok (p_fresh p) (p_svcs p) ->
  ids_ok (p_fresh p + 1 + lenN (s_chars s0)) (p_svcs p ++ [placed p s0]).
Proof.
  intros [Hnd Hlt]. unfold ids_ok. rewrite all_ids_app. cbn [all_ids flat_map]. rewrite app_nil_r, svc_ids_placed.
  rewrite Forall_forall in Hlt. split.
  - apply NoDup_app_intro; [exact Hnd|apply Nseq_NoDup|].
    intros x Hx Hin. apply Hlt in Hx. apply Nseq_In in Hin. lia.
  - apply Forall_app. split.
    + apply Forall_forall. intros x Hx. apply Hlt in Hx. lia.
    + apply Forall_forall. intros x Hx. apply Nseq_In in Hx. rewrite lenN_length. lia.
Qed.

Lemma add_service_invW p s0 :
  InvW p -> ent_sorted svc_entries (placed p s0) -> p_next p <= s_handle (placed p s0) ->
  InvW (add_service p s0).
Proof.
  intros [Hs Hc Hdb Hid] Hsorted Hle. rewrite add_service_eq. constructor; cbn [p_start p_next p_fresh p_svcs p_db].
  - exact Hs.
  - eapply gchain_app_intro; [exact Hc|]. cbn [gchain]. split; [exact Hle|]. split; [exact Hsorted|lia].
  - rewrite Hdb. destruct Hsorted as (H1 & H2 & H3).
    rewrite (db_set_all_append (s_handle (placed p s0))); [|exact H2|].
    + unfold all_entries. rewrite flat_map_app. cbn [flat_map]. now rewrite app_nil_r.
    + apply gchain_entries in Hc as [_ Hc]. eapply all_lt_weaken; [exact Hc|exact Hle].
  - now apply ids_ok_add.
Qed.

Lemma placed_template p s0 : s_handle s0 = 0 -> placed p s0 = svc_set_handle (p_next p) (number_svc (p_fresh p) s0).
Proof. intros H. unfold placed. cbn [number_svc s_handle]. now rewrite H. Qed.

Lemma add_service_inv p s0 :
  Inv p -> s_handle s0 = 0 -> Inv (add_service p s0).
Proof.
  intros [Hw Hok Hcm] H0. pose proof (placed_template p s0 H0) as Hp.
  assert (Hsok : svc_ok (placed p s0)) by (rewrite Hp; apply svc_ok_set).
  assert (Hh : s_handle (placed p s0) = p_next p) by (now rewrite Hp).
  constructor.
  - apply add_service_invW; [exact Hw|now apply svc_ok_sorted|lia].
  - rewrite add_service_eq. cbn [p_svcs]. apply Forall_app. split; [exact Hok|]. now constructor.
  - rewrite add_service_eq. cbn [p_cmap p_svcs]. rewrite Hcm.
    destruct (svc_ok_cmap_sorted _ Hsok) as (H1 & H2 & H3).
    rewrite (db_set_all_append (s_handle (placed p s0))); [|exact H2|].
    + unfold all_cmap. rewrite flat_map_app. cbn [flat_map]. now rewrite app_nil_r.
    + destruct Hw as [_ Hc _ _]. apply (gchain_cmap _ _ _ Hc) in Hok.
      apply gchain_entries in Hok as [_ Hlt]. rewrite Hh. exact Hlt.
Qed.

Lemma add_service_tight p s0 :
  s_handle s0 = 0 -> tight (p_start p) (p_svcs p) (p_next p) ->
  tight (p_start (add_service p s0)) (p_svcs (add_service p s0)) (p_next (add_service p s0)).
Proof.
  intros H0 Ht. rewrite add_service_eq. cbn [p_start p_svcs p_next].
  eapply tight_app_intro; [exact Ht|]. cbn [tight]. rewrite (placed_template _ _ H0). split; reflexivity.
Qed.

(** ** update_service *)

Lemma nth_mid {A} (a : list A) x b : nth_error (a ++ x :: b) (length a) = Some x.
Proof. induction a as [|y a IH]; cbn [app length nth_error]; [reflexivity|exact IH]. Qed.
Lemma firstn_mid {A} (a l : list A) : firstn (length a) (a ++ l) = a.
Proof. induction a as [|y a IH]; cbn [app length firstn]; [now destruct l|now rewrite IH]. Qed.
Lemma skipn_mid {A} (a : list A) x b : skipn (S (length a)) (a ++ x :: b) = b.
Proof. induction a as [|y a IH]; cbn [app length skipn]; [reflexivity|exact IH]. Qed.

Lemma nth_error_split' {A} (l : list A) n x :
  nth_error l n = Some x -> exists a b, l = a ++ x :: b /\ length a = n.
Proof.
  intros H. apply nth_error_split in H as (a & b & H1 & H2). now exists a, b.
Qed.

Lemma shift_services_props h B :
  Forall svc_ok (shift_services h B)
  /\ gchain svc_entries (h + 1) (shift_services h B) (last_svc_end h (shift_services h B) + 1)
  /\ tight (h + 1) (shift_services h B) (last_svc_end h (shift_services h B) + 1).
Proof.
  revert h; induction B as [|r t IH]; intros h; cbn [shift_services last_svc_end gchain tight].
  - repeat split; [constructor|lia].
  - destruct (IH (s_end (svc_set_handle (h + 1) r))) as (H1 & H2 & H3).
    split; [constructor; [apply svc_ok_set|exact H1]|]. split.
    + split; [cbn [svc_set_handle s_handle]; lia|]. split; [apply svc_ok_sorted, svc_ok_set|exact H2].
    + split; [reflexivity|exact H3].
Qed.

Record PreUpd (p : profile) (A : list svc) (s : svc) (B : list svc) : Prop := mkPreUpd {
  u_svcs : p_svcs p = A ++ s :: B;
  u_start : 1 <= p_start p;
  u_chainA : gchain svc_entries (p_start p) A (s_handle s);
  u_okA : Forall svc_ok A;
  u_db : exists X, p_db p = all_entries A ++ X /\ all_ge X (s_handle s);
  u_cmap : exists Y, p_cmap p = all_cmap A ++ Y /\ all_ge Y (s_handle s);
  u_ids : ids_ok (p_fresh p) (A ++ s :: B) }.

(** the updated service is laid out again from its own handle, whatever its state *)
Lemma update_at_eq p A s B :
  p_svcs p = A ++ s :: B ->
  update_at p (length A) =
  let r := svc_set_handle (s_handle s) s in
  let B' := shift_services (s_end r) B in
  mkP (p_start p) (last_svc_end (s_end r) B' + 1) (p_fresh p) (A ++ r :: B')
      (fold_left (fun d x => db_set_all (svc_entries x) d) (r :: B') (db_below (s_handle s) (p_db p)))
      (fold_left (fun d x => db_set_all (svc_cmap x) d) (r :: B') (db_below (s_handle s) (p_cmap p))).
Proof.
  intros H. unfold update_at. rewrite H, nth_mid, firstn_mid, skipn_mid. reflexivity.
Qed.

Lemma update_at_inv p A s B : PreUpd p A s B -> Inv (update_at p (length A)).
Proof.
  intros [Hsv Hst HcA HokA (X & Hdb & HX) (Y & Hcm & HY) Hid].
  rewrite (update_at_eq _ _ _ _ Hsv). cbv zeta.
  set (r := svc_set_handle (s_handle s) s).
  assert (Hok : svc_ok r) by apply svc_ok_set.
  assert (Hr : s_handle r = s_handle s) by reflexivity.
  destruct (shift_services_props (s_end r) B) as (HokB & HcB & _).
  set (B' := shift_services (s_end r) B) in *.
  assert (Hc1 : gchain svc_entries (s_handle s) (r :: B') (last_svc_end (s_end r) B' + 1)).
  { cbn [gchain]. split; [lia|]. split; [now apply svc_ok_sorted|exact HcB]. }
  assert (Hok1 : Forall svc_ok (r :: B')) by (now constructor).
  constructor; [constructor|..]; cbn [p_start p_next p_fresh p_svcs p_db p_cmap].
  - exact Hst.
  - eapply gchain_app_intro; [exact HcA|exact Hc1].
  - rewrite Hdb, db_below_app; [|apply (gchain_entries _ _ _ _ HcA)|exact HX].
    rewrite (register_chain svc_entries (s_handle s) _ _ _ Hc1); [|apply (gchain_entries _ _ _ _ HcA)].
    unfold all_entries. now rewrite flat_map_app.
  - destruct Hid as [H1 H2]. unfold ids_ok. rewrite all_ids_app in *. cbn [all_ids flat_map] in *.
    fold (all_ids B'). fold (all_ids B) in H1, H2. unfold B', r. rewrite all_ids_shift, svc_ids_set. now split.
  - apply Forall_app. now split.
  - pose proof (gchain_cmap _ _ _ HcA HokA) as HcA'. pose proof (gchain_cmap _ _ _ Hc1 Hok1) as Hc1'.
    rewrite Hcm, db_below_app; [|apply (gchain_entries _ _ _ _ HcA')|exact HY].
    rewrite (register_chain svc_cmap (s_handle s) _ _ _ Hc1'); [|apply (gchain_entries _ _ _ _ HcA')].
    unfold all_cmap. now rewrite flat_map_app.
Qed.

Lemma update_at_tight p A s B :
  p_svcs p = A ++ s :: B -> tight (p_start p) A (s_handle s) ->
  let q := update_at p (length A) in tight (p_start q) (p_svcs q) (p_next q).
Proof.
  intros Hsv Ht. cbv zeta. rewrite (update_at_eq _ _ _ _ Hsv). cbv zeta. cbn [p_start p_svcs p_next].
  eapply tight_app_intro; [exact Ht|]. cbn [tight]. split; [reflexivity|].
  apply shift_services_props.
Qed.

(** what an invariant state gives for a service in the middle of the list *)
Lemma inv_split p A s B :
  Inv p -> p_svcs p = A ++ s :: B ->
  gchain svc_entries (p_start p) A (s_handle s)
  /\ all_ge (all_entries (s :: B)) (s_handle s) /\ all_ge (all_cmap (s :: B)) (s_handle s)
  /\ Forall svc_ok A /\ svc_ok s /\ Forall svc_ok B
  /\ gchain svc_entries (s_handle s) (s :: B) (p_next p).
Proof.
  intros [[Hst Hc Hdb Hid] Hok Hcm] Hsv. rewrite Hsv in *.
  apply Forall_app in Hok as [HokA HokB]. inversion HokB as [|? ? Hoks HokB']; subst.
  apply gchain_app_elim in Hc as [HcA HcB].
  assert (HcB' : gchain svc_entries (s_handle s) (s :: B) (p_next p)).
  { cbn [gchain] in *. destruct HcB as (H1 & H2 & H3). split; [lia|]. now split. }
  assert (Hle : next_after (p_start p) A <= s_handle s) by (cbn [gchain] in HcB; lia).
  split; [eapply gchain_weaken; [exact HcA|lia|exact Hle]|].
  split; [apply incr_all_ge; apply (gchain_entries _ _ _ _ HcB')|].
  split; [apply incr_all_ge; apply (gchain_entries _ _ _ _ (gchain_cmap _ _ _ HcB' HokB))|].
  split; [exact HokA|split; [exact Hoks|split; [exact HokB'|exact HcB']]].
Qed.

Lemma tight_split p A s B :
  p_svcs p = A ++ s :: B -> tight (p_start p) (p_svcs p) (p_next p) -> tight (p_start p) A (s_handle s).
Proof.
  intros Hsv Ht. rewrite Hsv in Ht. apply tight_app_elim in Ht as [H1 H2]. cbn [tight] in H2.
  destruct H2 as [H2 _]. now rewrite H2.
Qed.

Lemma preupd_modify p A s B s' fresh' :
  Inv p -> p_svcs p = A ++ s :: B -> s_handle s' = s_handle s ->
  ids_ok fresh' (A ++ s' :: B) ->
  PreUpd (set_svc_at p (length A) s' fresh') A s' B.
Proof.
  intros HI Hsv Hh Hid. destruct (inv_split _ _ _ _ HI Hsv) as (H1 & H2 & H3 & H4 & H5 & H6 & H7).
  destruct HI as [[Hst Hc Hdb _] _ Hcm].
  constructor; cbn [set_svc_at p_svcs p_start p_db p_cmap p_fresh]; try rewrite Hh.
  - now rewrite Hsv, firstn_mid, skipn_mid.
  - exact Hst.
  - exact H1.
  - exact H4.
  - exists (all_entries (s :: B)). split; [|exact H2]. rewrite Hdb, Hsv. unfold all_entries. now rewrite flat_map_app.
  - exists (all_cmap (s :: B)). split; [|exact H3]. rewrite Hcm, Hsv. unfold all_cmap. now rewrite flat_map_app.
  - exact Hid.
Qed.

Lemma preupd_same p A s B : Inv p -> p_svcs p = A ++ s :: B -> PreUpd p A s B.
Proof.
  intros HI Hsv. destruct (inv_split _ _ _ _ HI Hsv) as (H1 & H2 & H3 & H4 & H5 & H6 & H7).
  destruct HI as [[Hst Hc Hdb Hid] _ Hcm].
  constructor; try assumption.
  - exists (all_entries (s :: B)). split; [|exact H2]. rewrite Hdb, Hsv. unfold all_entries. now rewrite flat_map_app.
  - exists (all_cmap (s :: B)). split; [|exact H3]. rewrite Hcm, Hsv. unfold all_cmap. now rewrite flat_map_app.
  - now rewrite <- Hsv.
Qed.

(** ** add_characteristic / remove_characteristic on a consistent service *)

Lemma relabel_chars_app h a b :
  relabel_chars h (a ++ b) = relabel_chars h a ++ relabel_chars (last_end h (relabel_chars h a)) b.
Proof.
  revert h; induction a as [|c r IH]; intros h; cbn [app relabel_chars last_end]; [reflexivity|].
  now rewrite IH.
Qed.

Lemma last_end_app h a b : last_end h (a ++ b) = last_end (last_end h a) b.
Proof. revert h; induction a as [|c r IH]; intros h; cbn [app last_end]; [reflexivity|apply IH]. Qed.

Lemma svc_ok_parts s :
  svc_ok s ->
  relabel_incls (s_handle s) (s_incls s) = s_incls s
  /\ relabel_chars (s_handle s + lenN (s_incls s)) (s_chars s) = s_chars s
  /\ last_end (s_handle s + lenN (s_incls s)) (s_chars s) = s_end s.
Proof.
  unfold svc_ok. intros H.
  assert (H1 : s_incls (svc_set_handle (s_handle s) s) = s_incls s) by (now rewrite H).
  assert (H2 : s_chars (svc_set_handle (s_handle s) s) = s_chars s) by (now rewrite H).
  assert (H3 : s_end (svc_set_handle (s_handle s) s) = s_end s) by (now rewrite H).
  cbn [svc_set_handle s_incls s_chars s_end] in H1, H2, H3. rewrite H2 in H3. auto.
Qed.

Lemma svc_add_char_ok s c :
  svc_ok s -> c_handle c = 0 -> svc_ok (svc_add_char s c) /\ s_handle (svc_add_char s c) = s_handle s.
Proof.
  intros Hok H0. split; [|reflexivity]. destruct (svc_ok_parts _ Hok) as (Hi & Hc & He).
  unfold svc_add_char. rewrite H0. cbn [N.eqb].
  unfold svc_ok, svc_set_handle. cbn [s_handle s_id s_primary s_uuid s_incls s_chars s_end].
  rewrite Hi, relabel_chars_app, Hc, He. cbn [relabel_chars]. rewrite chr_set_handle_idem.
  rewrite last_end_app, He. cbn [last_end]. f_equal. rewrite c_end_set. lia.
Qed.

Lemma s_handle_add_chars cs s : s_handle (fold_left svc_add_char cs s) = s_handle s.
Proof. revert s; induction cs as [|c r IH]; intros s; cbn [fold_left]; [reflexivity|]. now rewrite IH. Qed.
Lemma s_handle_add_incls l s : s_handle (fold_left svc_add_incl l s) = s_handle s.
Proof. revert s; induction l as [|c r IH]; intros s; cbn [fold_left]; [reflexivity|]. now rewrite IH. Qed.

Lemma svc_template_handle sd : s_handle (svc_template sd) = 0.
Proof.
  unfold svc_template. destruct (sd_kind sd); rewrite ?s_handle_add_incls, s_handle_add_chars; reflexivity.
Qed.

Lemma svc_build_handle sd t : s_handle (svc_build sd t) = 0.
Proof.
  unfold svc_build. destruct (sd_kind sd) eqn:E.
  - now rewrite s_handle_add_incls, s_handle_add_chars.
  - now rewrite s_handle_add_chars.
  - apply svc_template_handle.
Qed.

(** ** identities under the operations *)

Lemma in_all_ids_sub (l l' : list N) fresh :
  (forall x, In x l' -> In x l) -> Forall (fun x => x < fresh) l -> Forall (fun x => x < fresh) l'.
Proof. intros H Hl. rewrite Forall_forall in *. intros x Hx. apply Hl, H, Hx. Qed.

Lemma ids_ok_replace_add fresh A s s' B :
  svc_ids s' = svc_ids s ++ [fresh] -> ids_ok fresh (A ++ s :: B) -> ids_ok (fresh + 1) (A ++ s' :: B).
Proof.
  intros Hs [Hnd Hlt]. unfold ids_ok in *. rewrite all_ids_app in *. cbn [all_ids flat_map] in *.
  fold (all_ids B) in *. rewrite Hs.
  replace (all_ids A ++ (svc_ids s ++ [fresh]) ++ all_ids B)
    with ((all_ids A ++ svc_ids s) ++ fresh :: all_ids B) by (now rewrite <- !app_assoc).
  split.
  - eapply Permutation_NoDup; [apply Permutation_middle|]. constructor.
    + rewrite <- app_assoc. intros Hin. rewrite Forall_forall in Hlt. apply Hlt in Hin. lia.
    + now rewrite <- app_assoc.
  - rewrite Forall_forall in *. intros x Hx.
    apply in_app_or in Hx as [Hx|[<-|Hx]]; [|lia|].
    + assert (x < fresh); [apply Hlt; rewrite app_assoc; apply in_or_app; now left|lia].
    + assert (x < fresh); [apply Hlt; apply in_or_app; right; apply in_or_app; now right|lia].
Qed.

Lemma ids_ok_replace_sub fresh A s s' B x y z :
  svc_ids s = x ++ y :: z -> svc_ids s' = x ++ z -> ids_ok fresh (A ++ s :: B) -> ids_ok fresh (A ++ s' :: B).
Proof.
  intros Hs Hs' [Hnd Hlt]. unfold ids_ok in *. rewrite all_ids_app in *. cbn [all_ids flat_map] in *.
  fold (all_ids B) in *. rewrite Hs in *. rewrite Hs'. split.
  - assert (E : all_ids A ++ (x ++ y :: z) ++ all_ids B = (all_ids A ++ x) ++ y :: (z ++ all_ids B))
      by (rewrite <- !app_assoc; reflexivity).
    rewrite E in Hnd. apply NoDup_remove_1 in Hnd. rewrite <- !app_assoc in Hnd. rewrite <- !app_assoc. exact Hnd.
  - eapply in_all_ids_sub; [|exact Hlt]. intros k Hk. rewrite !in_app_iff in *. cbn [In]. tauto.
Qed.

Lemma ids_ok_remove fresh A s B : ids_ok fresh (A ++ s :: B) -> ids_ok fresh (A ++ B).
Proof.
  intros [Hnd Hlt]. unfold ids_ok in *. rewrite all_ids_app in *. cbn [all_ids flat_map] in *.
  fold (all_ids B) in *. split.
  - eapply NoDup_remove_block; exact Hnd.
  - eapply in_all_ids_sub; [|exact Hlt]. intros k Hk. rewrite !in_app_iff in *. tauto.
Qed.

Lemma remove_nth_split {A} (l : list A) j :
  (j < length l)%nat -> exists a x b, l = a ++ x :: b /\ remove_nth j l = a ++ b.
Proof.
  revert j; induction l as [|y l IH]; intros j Hj; cbn [length] in Hj; [lia|].
  destruct j as [|j]; cbn [remove_nth].
  - now exists [], y, l.
  - destruct (IH j ltac:(lia)) as (a & x & b & H1 & H2). exists (y :: a), x, b. cbn [app]. now rewrite <- H1, H2.
Qed.

Lemma remove_nth_mid {A} (a : list A) x b : remove_nth (length a) (a ++ x :: b) = a ++ b.
Proof. induction a as [|y a IH]; cbn [length app remove_nth]; [reflexivity|now rewrite IH]. Qed.

(** ** remove_service *)

Lemma db_del_all_app {V} ks1 ks2 (l : list (N * V)) :
  db_del_all (ks1 ++ ks2) l = db_del_all ks2 (db_del_all ks1 l).
Proof. unfold db_del_all. apply fold_left_app. Qed.

Lemma db_get_filter {V} k (f : N * V -> bool) l :
  (forall v, f (k, v) = true) -> db_get k (filter f l) = db_get k l.
Proof.
  intros Hf. induction l as [|[k' v'] r IH]; cbn [filter db_get]; [reflexivity|].
  destruct (f (k', v')) eqn:E; cbn [db_get].
  - destruct (k' =? k); [reflexivity|exact IH].
  - destruct (k' =? k) eqn:E2; [|exact IH]. apply N.eqb_eq in E2. subst. now rewrite Hf in E.
Qed.

Lemma db_del_all_block_nd {V} (a s b : list (N * V)) ks :
  NoDup (map fst (a ++ s ++ b)) -> (forall k, In k ks <-> In k (map fst s)) ->
  db_del_all ks (a ++ s ++ b) = a ++ b.
Proof.
  intros Hnd Hks. rewrite !map_app in Hnd.
  apply NoDup_app_elim in Hnd as (_ & Hsb & Hd1). apply NoDup_app_elim in Hsb as (_ & _ & Hd2).
  apply db_del_all_block.
  - intros e He Hin. apply Hks in Hin. apply (Hd1 (fst e)); [now apply in_map|]. apply in_or_app. now left.
  - intros e He Hin. apply Hks in Hin. apply (Hd2 (fst e)); [exact Hin|now apply in_map].
  - intros e He. apply Hks. now apply in_map.
Qed.

Lemma keys_desc_entries sid cid k ds : map fst (desc_entries sid cid k ds) = map d_handle ds.
Proof. revert k; induction ds as [|d r IH]; intros k; cbn [desc_entries map fst]; [reflexivity|]. now rewrite IH. Qed.
Lemma keys_chr_entries sid c : map fst (chr_entries sid c) = chr_keys c.
Proof. unfold chr_entries, chr_keys. cbn [map fst]. now rewrite keys_desc_entries. Qed.
Lemma keys_chars_entries sid cs : map fst (flat_map (chr_entries sid) cs) = flat_map chr_keys cs.
Proof. induction cs as [|c r IH]; cbn [flat_map]; [reflexivity|]. now rewrite map_app, keys_chr_entries, IH. Qed.
Lemma keys_incl_entries sid k l : map fst (incl_entries sid k l) = map i_handle l.
Proof. revert k; induction l as [|d r IH]; intros k; cbn [incl_entries map fst]; [reflexivity|]. now rewrite IH. Qed.
Lemma keys_svc_entries s :
  map fst (svc_entries s) = s_handle s :: map i_handle (s_incls s) ++ flat_map chr_keys (s_chars s).
Proof. unfold svc_entries. cbn [map fst]. now rewrite map_app, keys_incl_entries, keys_chars_entries. Qed.
Lemma keys_svc_cmap s : map fst (svc_cmap s) = map c_handle (s_chars s).
Proof. unfold svc_cmap. rewrite map_map. reflexivity. Qed.

Lemma remove_at_inv p A s B :
  Inv p -> p_svcs p = A ++ s :: B ->
  exists q, remove_at p (length A) = Done q /\ Inv q /\ p_start q = p_start p.
Proof.
  intros HI Hsv. pose proof HI as [[Hst Hc Hdb Hid] Hok Hcm].
  unfold remove_at. rewrite Hsv, nth_mid, remove_nth_mid.
  assert (Edb : p_db p = all_entries A ++ svc_entries s ++ all_entries B).
  { rewrite Hdb, Hsv. unfold all_entries. rewrite flat_map_app. reflexivity. }
  assert (Ecm : p_cmap p = all_cmap A ++ svc_cmap s ++ all_cmap B).
  { rewrite Hcm, Hsv. unfold all_cmap. rewrite flat_map_app. reflexivity. }
  assert (Hnd : NoDup (map fst (p_db p))).
  { rewrite Hdb. eapply incr_NoDup. apply (gchain_entries _ _ _ _ Hc). }
  assert (Hndc : NoDup (map fst (p_cmap p))).
  { rewrite Hcm. eapply incr_NoDup. apply (gchain_entries _ _ _ _ (gchain_cmap _ _ _ Hc Hok)). }
  assert (Hnds : NoDup (map fst (svc_entries s))).
  { rewrite Edb, !map_app in Hnd. apply NoDup_app_elim in Hnd as (_ & Hnd & _). now apply NoDup_app_elim in Hnd. }
  rewrite keys_svc_entries in Hnds. inversion Hnds as [|? ? Hni _]; subst.
  set (ks1 := flat_map chr_keys (s_chars s)) in *.
  assert (Hget : db_get (s_handle s) (db_del_all ks1 (p_db p)) = Some (RSvc (s_id s))).
  { rewrite db_del_all_filter, db_get_filter.
    - apply db_get_In; [exact Hnd|]. rewrite Edb. apply in_or_app. right. apply in_or_app. left. now left.
    - intros v. cbn [fst]. destruct (mem_N (s_handle s) ks1) eqn:E; [|reflexivity].
      apply mem_N_In in E. exfalso. apply Hni. apply in_or_app. now right. }
  rewrite Hget. eexists. split; [reflexivity|]. split; [|reflexivity].
  assert (Hrest : gchain svc_entries (p_start p) (A ++ B) (p_next p)).
  { rewrite Hsv in Hc. apply gchain_app_elim in Hc as [HcA HcB]. cbn [gchain] in HcB.
    destruct HcB as (H1 & (H2 & _) & H3). eapply gchain_app_intro; [exact HcA|].
    eapply gchain_weaken; [exact H3|lia|lia]. }
  rewrite Hsv in Hok. apply Forall_app in Hok as [HokA HokB]. inversion HokB; subst.
  constructor; [constructor|..]; cbn [p_start p_next p_fresh p_svcs p_db p_cmap].
  - exact Hst.
  - exact Hrest.
  - change (db_del (s_handle s) (db_del_all ks1 (p_db p))) with (db_del_all [s_handle s] (db_del_all ks1 (p_db p))).
    rewrite <- !db_del_all_app. rewrite Edb, db_del_all_block_nd.
    + unfold all_entries. now rewrite flat_map_app.
    + now rewrite <- Edb.
    + intros k. rewrite keys_svc_entries. fold ks1. rewrite !in_app_iff. cbn [In]. rewrite in_app_iff. tauto.
  - rewrite Hsv in Hid. eapply ids_ok_remove; exact Hid.
  - apply Forall_app. now split.
  - rewrite Ecm, db_del_all_block_nd.
    + unfold all_cmap. now rewrite flat_map_app.
    + now rewrite <- Ecm.
    + intros k. now rewrite keys_svc_cmap.
Qed.

(** * Every operation preserves the invariant *)

Lemma map_nth_ids (f : chr -> chr) j l : (forall c, c_id (f c) = c_id c) -> map c_id (map_nth f j l) = map c_id l.
Proof.
  intros Hf. revert j; induction l as [|c r IH]; intros j; destruct j; cbn [map_nth map]; try reflexivity.
  - now rewrite Hf.
  - now rewrite IH.
Qed.

Definition tight_p (p : profile) : Prop := tight (p_start p) (p_svcs p) (p_next p).

Lemma update_at_none p i : nth_error (p_svcs p) i = None -> update_at p i = p.
Proof. intros H. unfold update_at. rewrite H. reflexivity. Qed.

Lemma step_inv p o :
  Inv p ->
  exists q, step p o = Done q /\ Inv q /\ p_start q = p_start p
            /\ (is_remove o = false -> tight_p p -> tight_p q).
Proof.
  intros HI. destruct o as [sd|i|i cd|i j|i j dd|i]; cbn [step is_remove].
  - eexists. split; [reflexivity|]. pose proof (svc_template_handle sd) as H0.
    split; [now apply add_service_inv|]. split; [reflexivity|]. intros _ Ht. now apply add_service_tight.
  - destruct (nth_error (p_svcs p) i) as [s|] eqn:E.
    + apply nth_error_split' in E as (A & B & Hsv & <-).
      eexists. split; [reflexivity|]. split; [apply (update_at_inv _ _ s B), preupd_same; assumption|].
      split; [rewrite (update_at_eq _ _ _ _ Hsv); reflexivity|].
      intros _ Ht. apply (update_at_tight _ _ s B Hsv). now apply tight_split with (B := B).
    + rewrite (update_at_none _ _ E). exists p. split; [reflexivity|]. split; [assumption|]. split; [reflexivity|auto].
  - destruct (nth_error (p_svcs p) i) as [s|] eqn:E; [|exists p; split; [reflexivity|]; split; [assumption|]; split; [reflexivity|auto]].
    apply nth_error_split' in E as (A & B & Hsv & <-).
    set (c0 := set_c_id (p_fresh p) (chr_init cd)).
    assert (Hc0 : c_handle c0 = 0) by reflexivity.
    destruct (inv_split _ _ _ _ HI Hsv) as (_ & _ & _ & _ & Hoks & _).
    destruct (svc_add_char_ok s c0 Hoks Hc0) as [Hok' Hh'].
    set (s' := svc_add_char s c0) in *.
    assert (Hpre : PreUpd (set_svc_at p (length A) s' (p_fresh p + 1)) A s' B).
    { apply (preupd_modify p A s B); try assumption.
      apply (ids_ok_replace_add (p_fresh p) A s s' B); [|rewrite <- Hsv; apply HI].
      unfold s', svc_add_char, svc_ids. rewrite Hc0. cbn [N.eqb s_id s_chars]. rewrite map_app. reflexivity. }
    eexists. split; [reflexivity|]. split; [apply (update_at_inv _ _ _ _ Hpre)|].
    split; [rewrite (update_at_eq _ _ _ _ (u_svcs _ _ _ _ Hpre)); reflexivity|].
    intros _ Ht. apply (update_at_tight _ _ s' B (u_svcs _ _ _ _ Hpre)).
    cbn [set_svc_at p_start]. rewrite Hh'. now apply tight_split with (B := B).
  - destruct (nth_error (p_svcs p) i) as [s|] eqn:E; [|exists p; split; [reflexivity|]; split; [assumption|]; split; [reflexivity|auto]].
    destruct (j <? length (s_chars s))%nat eqn:Ej; [|exists p; split; [reflexivity|]; split; [assumption|]; split; [reflexivity|auto]].
    apply Nat.ltb_lt in Ej.
    apply nth_error_split' in E as (A & B & Hsv & <-).
    set (s' := svc_set_handle (s_handle s) (set_chars s (remove_nth j (s_chars s)))).
    assert (Hpre : PreUpd (set_svc_at p (length A) s' (p_fresh p)) A s' B).
    { apply (preupd_modify p A s B); try assumption; [reflexivity|].
      destruct (remove_nth_split _ _ Ej) as (a & x & b & H1 & H2).
      apply (ids_ok_replace_sub (p_fresh p) A s s' B (s_id s :: map c_id a) (c_id x) (map c_id b));
        [| |rewrite <- Hsv; apply HI].
      - unfold svc_ids. rewrite H1, map_app. reflexivity.
      - unfold s'. rewrite svc_ids_set. unfold svc_ids, set_chars. cbn [s_id s_chars]. rewrite H2, map_app. reflexivity. }
    eexists. split; [reflexivity|]. split; [apply (update_at_inv _ _ _ _ Hpre)|].
    split; [rewrite (update_at_eq _ _ _ _ (u_svcs _ _ _ _ Hpre)); reflexivity|].
    intros _ Ht. apply (update_at_tight _ _ s' B (u_svcs _ _ _ _ Hpre)).
    cbn [set_svc_at p_start]. change (s_handle s') with (s_handle s). now apply tight_split with (B := B).
  - destruct (nth_error (p_svcs p) i) as [s|] eqn:E; [|exists p; split; [reflexivity|]; split; [assumption|]; split; [reflexivity|auto]].
    apply nth_error_split' in E as (A & B & Hsv & <-).
    set (s' := set_chars s (map_nth (fun c => chr_add_desc c (desc_of_def dd)) j (s_chars s))).
    assert (Hids : svc_ids s' = svc_ids s).
    { unfold svc_ids, s', set_chars. cbn [s_id s_chars]. f_equal. apply map_nth_ids. reflexivity. }
    assert (Hpre : PreUpd (set_svc_at p (length A) s' (p_fresh p)) A s' B).
    { apply (preupd_modify p A s B); try assumption; [reflexivity|].
      destruct HI as [[_ _ _ Hid] _ _]. rewrite Hsv in Hid. unfold ids_ok in *. rewrite all_ids_app in *.
      cbn [all_ids flat_map] in *. now rewrite Hids. }
    eexists. split; [reflexivity|]. split; [apply (update_at_inv _ _ _ _ Hpre)|].
    split; [rewrite (update_at_eq _ _ _ _ (u_svcs _ _ _ _ Hpre)); reflexivity|].
    intros _ Ht. apply (update_at_tight _ _ s' B (u_svcs _ _ _ _ Hpre)).
    cbn [set_svc_at p_start]. change (s_handle s') with (s_handle s). now apply tight_split with (B := B).
  - destruct (nth_error (p_svcs p) i) as [s|] eqn:E.
    + apply nth_error_split' in E as (A & B & Hsv & <-).
      destruct (remove_at_inv _ _ _ _ HI Hsv) as (q & H1 & H2 & H3).
      exists q. split; [assumption|]. split; [assumption|]. split; [assumption|discriminate].
    + unfold remove_at. rewrite E. exists p. split; [reflexivity|]. split; [assumption|]. split; [reflexivity|discriminate].
Qed.

Lemma run_inv ops : forall p,
  Inv p ->
  exists q, run p ops = Done q /\ Inv q /\ p_start q = p_start p
            /\ (no_remove ops = true -> tight_p p -> tight_p q).
Proof.
  induction ops as [|o r IH]; intros p HI; cbn [run no_remove forallb].
  - exists p. split; [reflexivity|]. split; [assumption|]. split; [reflexivity|auto].
  - destruct (step_inv p o HI) as (q & H1 & H2 & H3 & H4). rewrite H1.
    destruct (IH q H2) as (q' & H5 & H6 & H7 & H8). exists q'. split; [assumption|]. split; [assumption|]. split; [congruence|].
    intros Hn Ht. apply andb_true_iff in Hn as [Hn1 Hn2]. apply H8; [exact Hn2|]. apply H4; [|exact Ht].
    now destruct (is_remove o).
Qed.

Lemma empty_inv start : 1 <= start -> Inv (empty_profile start) /\ tight_p (empty_profile start).
Proof.
  intros H. split; [|reflexivity]. constructor; [constructor|..]; cbn; try reflexivity; try lia.
  - split; constructor.
  - constructor.
Qed.

Lemma build_inv start sds : 1 <= start -> Inv (build start sds) /\ tight_p (build start sds) /\ p_start (build start sds) = start.
Proof.
  intros H. unfold build.
  assert (G : forall p, Inv p /\ tight_p p ->
              let q := fold_left (fun p sd => add_service p (svc_build sd (svc_template sd))) sds p in
              Inv q /\ tight_p q /\ p_start q = p_start p).
  { induction sds as [|sd r IH]; intros p [H1 H2]; cbn [fold_left]; [auto|].
    pose proof (svc_build_handle sd (svc_template sd)) as H0.
    destruct (IH (add_service p (svc_build sd (svc_template sd)))) as (H3 & H4 & H5).
    - split; [now apply add_service_inv|now apply add_service_tight].
    - split; [exact H3|split; [exact H4|rewrite H5; reflexivity]]. }
  destruct (G (empty_profile start) (empty_inv start H)) as (H1 & H2 & H3). auto.
Qed.

(** * The database under the invariant: every reference resolves to its own attribute *)

Lemma find_unique {A} (key : A -> N) (l : list A) x :
  NoDup (map key l) -> In x l -> find (fun y => key y =? key x) l = Some x.
Proof.
  induction l as [|a l IH]; cbn [map find In]; [tauto|].
  intros Hnd [->|Hin]; [now rewrite N.eqb_refl|].
  inversion Hnd as [|? ? Hni Hnd']; subst. destruct (key a =? key x) eqn:E; [|now apply IH].
  apply N.eqb_eq in E. exfalso. apply Hni. rewrite E. now apply in_map.
Qed.

Lemma in_all_ids_sid l s : In s l -> In (s_id s) (all_ids l).
Proof.
  induction l as [|a l IH]; cbn [In all_ids flat_map]; [tauto|].
  intros [->|H]; [now left|]. apply in_or_app. right. now apply IH.
Qed.

Lemma all_ids_parts l :
  NoDup (all_ids l) -> NoDup (map s_id l) /\ Forall (fun s => NoDup (map c_id (s_chars s))) l.
Proof.
  induction l as [|s l IH]; cbn [all_ids flat_map map]; [repeat constructor|].
  fold (all_ids l). intros H. apply NoDup_app_elim in H as (H1 & H2 & H3). destruct (IH H2) as [H4 H5].
  unfold svc_ids in *. inversion H1; subst. split.
  - constructor; [|exact H4]. intros Hin. apply in_map_iff in Hin as (x & Hx & Hin).
    apply (H3 (s_id s)); [now left|]. rewrite <- Hx. now apply in_all_ids_sid.
  - constructor; assumption.
Qed.

Definition res (svcs : list svc) (e : N * ref) : N * attr := (fst e, resolve svcs (snd e)).

Lemma resolve_incls svcs s pre l :
  find_svc (s_id s) svcs = Some s -> s_incls s = pre ++ l ->
  map (res svcs) (incl_entries (s_id s) (length pre) l)
  = map (fun i => (i_handle i, AIncl (i_handle i) (i_uuid i))) l.
Proof.
  intros Hf. revert pre; induction l as [|i r IH]; intros pre Hs; cbn [incl_entries map]; [reflexivity|].
  f_equal.
  - unfold res, resolve. cbn [fst snd]. now rewrite Hf, Hs, nth_mid.
  - replace (S (length pre)) with (length (pre ++ [i])) by (rewrite app_length; cbn [length]; lia).
    apply IH. now rewrite <- app_assoc.
Qed.

Lemma resolve_descs svcs s c pre l :
  find_svc (s_id s) svcs = Some s -> find_chr (c_id c) (s_chars s) = Some c -> c_descs c = pre ++ l ->
  map (res svcs) (desc_entries (s_id s) (c_id c) (length pre) l) = desc_dump l.
Proof.
  intros Hf Hc. revert pre; induction l as [|d r IH]; intros pre Hs; cbn [desc_entries desc_dump map]; [reflexivity|].
  f_equal.
  - unfold res, resolve. cbn [fst snd]. now rewrite Hf, Hc, Hs, nth_mid.
  - replace (S (length pre)) with (length (pre ++ [d])) by (rewrite app_length; cbn [length]; lia).
    apply IH. now rewrite <- app_assoc.
Qed.

Lemma resolve_chr svcs s c :
  find_svc (s_id s) svcs = Some s -> find_chr (c_id c) (s_chars s) = Some c ->
  map (res svcs) (chr_entries (s_id s) c) = chr_dump c.
Proof.
  intros Hf Hc. unfold chr_entries, chr_dump. cbn [map]. f_equal; [|f_equal].
  - unfold res, resolve. cbn [fst snd]. now rewrite Hf, Hc.
  - unfold res, resolve. cbn [fst snd]. now rewrite Hf, Hc.
  - now apply (resolve_descs svcs s c []).
Qed.

Lemma resolve_chars svcs s cs :
  find_svc (s_id s) svcs = Some s -> (forall c, In c cs -> find_chr (c_id c) (s_chars s) = Some c) ->
  map (res svcs) (flat_map (chr_entries (s_id s)) cs) = flat_map chr_dump cs.
Proof.
  intros Hf. induction cs as [|c r IH]; intros Hc; cbn [flat_map map]; [reflexivity|].
  rewrite map_app, resolve_chr; [|exact Hf|apply Hc; now left]. f_equal. apply IH. intros x Hx. apply Hc. now right.
Qed.

Lemma resolve_svc svcs s :
  find_svc (s_id s) svcs = Some s -> NoDup (map c_id (s_chars s)) ->
  map (res svcs) (svc_entries s) = svc_dump s.
Proof.
  intros Hf Hnd. unfold svc_entries, svc_dump. cbn [map]. f_equal.
  - unfold res, resolve. cbn [fst snd]. now rewrite Hf.
  - rewrite map_app. f_equal.
    + now apply (resolve_incls svcs s []).
    + apply resolve_chars; [exact Hf|]. intros c Hc. unfold find_chr. now apply (find_unique c_id).
Qed.

Lemma dump_explicit p : InvW p -> dump p = flat_map svc_dump (p_svcs p).
Proof.
  intros [_ _ Hdb [Hnd _]]. unfold dump. rewrite Hdb. apply all_ids_parts in Hnd as [Hs Hc].
  fold (res (p_svcs p)). unfold all_entries.
  assert (G : forall l, (forall s, In s l -> In s (p_svcs p)) ->
              map (res (p_svcs p)) (flat_map svc_entries l) = flat_map svc_dump l).
  { induction l as [|s l IH]; intros Hl; cbn [flat_map map]; [reflexivity|].
    rewrite map_app, IH by (intros x Hx; apply Hl; now right). f_equal.
    assert (Hin : In s (p_svcs p)) by (apply Hl; now left).
    apply resolve_svc; [unfold find_svc; now apply (find_unique s_id)|].
    rewrite Forall_forall in Hc. now apply Hc. }
  apply G. auto.
Qed.

(** ** consistent services meet the explicit layout *)

Lemma keys_svc_dump s : map fst (svc_dump s) = map fst (svc_entries s).
Proof.
  rewrite keys_svc_entries. unfold svc_dump. cbn [map fst]. f_equal. rewrite map_app, map_map. f_equal.
  induction (s_chars s) as [|c r IH]; cbn [flat_map]; [reflexivity|].
  rewrite map_app, IH. f_equal. unfold chr_dump, chr_keys, desc_dump. cbn [map fst]. now rewrite map_map.
Qed.

Lemma length_svc_dump s : length (svc_dump s) = length (svc_entries s).
Proof. rewrite <- (map_length fst), keys_svc_dump. apply map_length. Qed.

Lemma handles_relabel_descs h ds : map d_handle (relabel_descs h ds) = Nseq (h + 1) (length ds).
Proof. revert h; induction ds as [|d r IH]; intros h; cbn [relabel_descs map length Nseq d_handle set_d_handle]; [reflexivity|]. now rewrite IH. Qed.

Lemma length_relabel_descs h ds : length (relabel_descs h ds) = length ds.
Proof. revert h; induction ds as [|d r IH]; intros h; cbn [relabel_descs length]; [reflexivity|]. now rewrite IH. Qed.

Lemma handles_relabel_incls h l : map i_handle (relabel_incls h l) = Nseq (h + 1) (length l).
Proof. revert h; induction l as [|d r IH]; intros h; cbn [relabel_incls map length Nseq i_handle set_i_handle]; [reflexivity|]. now rewrite IH. Qed.

Lemma length_relabel_incls h l : length (relabel_incls h l) = length l.
Proof. revert h; induction l as [|d r IH]; intros h; cbn [relabel_incls length]; [reflexivity|]. now rewrite IH. Qed.

Lemma chr_spec_set h c : chr_spec h (chr_set_handle h c).
Proof.
  unfold chr_spec, chr_set_handle. cbn [c_handle c_vhandle c_descs c_end].
  rewrite handles_relabel_descs, length_relabel_descs, lenN_relabel_descs.
  repeat split. f_equal. lia.
Qed.

Lemma chars_spec_relabel h cs : chars_spec (h + 1) (relabel_chars h cs).
Proof.
  revert h; induction cs as [|c r IH]; intros h; cbn [relabel_chars chars_spec]; [trivial|].
  split; [apply chr_spec_set|apply IH].
Qed.

Lemma svc_ok_spec s : svc_ok s -> svc_spec s.
Proof.
  intros Hok. destruct (svc_ok_parts _ Hok) as (Hi & Hc & He). unfold svc_spec.
  split; [|split; [|split]].
  - pose proof (handles_relabel_incls (s_handle s) (s_incls s)) as P. now rewrite Hi in P.
  - pose proof (chars_spec_relabel (s_handle s + lenN (s_incls s)) (s_chars s)) as P. rewrite Hc in P.
    replace (s_handle s + 1 + lenN (s_incls s)) with (s_handle s + lenN (s_incls s) + 1) by lia. exact P.
  - rewrite keys_svc_dump, length_svc_dump. apply svc_ok_contig, Hok.
  - rewrite lenN_length, length_svc_dump, <- lenN_length, lenN_svc_entries. now apply svc_ok_end.
Qed.

Lemma gchain_spec lo l hi : gchain svc_entries lo l hi -> Forall svc_ok l -> svcs_spec true lo l hi.
Proof.
  revert lo; induction l as [|s r IH]; intros lo; cbn [gchain svcs_spec]; [trivial|].
  intros (H1 & _ & H3) Hok. inversion Hok; subst. split; [exact H1|]. split; [now apply svc_ok_spec|now apply IH].
Qed.

Lemma tight_spec lo l hi : tight lo l hi -> Forall svc_ok l -> svcs_spec false lo l hi.
Proof.
  revert lo; induction l as [|s r IH]; intros lo; cbn [tight svcs_spec]; [now intros ->|].
  intros (H1 & H3) Hok. apply Forall_cons_iff in Hok as [Hs Hr]. split; [exact H1|]. split; [now apply svc_ok_spec|now apply IH].
Qed.

Lemma cmap_view_explicit p :
  Inv p -> cmap_view p = flat_map (fun s => map (fun c => (c_handle c, Some (s_handle s))) (s_chars s)) (p_svcs p).
Proof.
  intros [[_ _ _ [Hnd _]] _ Hcm]. unfold cmap_view. rewrite Hcm. apply all_ids_parts in Hnd as [Hs _].
  unfold all_cmap.
  assert (G : forall l, (forall s, In s l -> In s (p_svcs p)) ->
     map (fun e => (fst e, option_map s_handle (find_svc (snd e) (p_svcs p)))) (flat_map svc_cmap l)
     = flat_map (fun s => map (fun c => (c_handle c, Some (s_handle s))) (s_chars s)) l).
  { induction l as [|s l IH]; intros Hl; cbn [flat_map map]; [reflexivity|].
    rewrite map_app, IH by (intros x Hx; apply Hl; now right). f_equal.
    unfold svc_cmap. rewrite map_map. apply map_ext. intros c. cbn [fst snd].
    unfold find_svc. rewrite (find_unique s_id); [reflexivity|exact Hs|apply Hl; now left]. }
  apply G. auto.
Qed.

Theorem inv_layout p : Inv p -> layout true p.
Proof.
  intros HI. pose proof HI as [[Hst Hc Hdb Hid] Hok Hcm]. unfold layout.
  split; [exact Hst|]. split; [now apply dump_explicit|]. split; [now apply gchain_spec|]. split; [now apply cmap_view_explicit|].
  rewrite Hcm. eapply incr_NoDup. apply (gchain_entries _ _ _ _ (gchain_cmap _ _ _ Hc Hok)).
Qed.

Theorem invs_layout p : Inv p -> tight_p p -> layout false p.
Proof.
  intros HI Ht. pose proof HI as [[Hst Hc Hdb Hid] Hok Hcm]. unfold layout.
  split; [exact Hst|]. split; [now apply dump_explicit|]. split; [now apply tight_spec|]. split; [now apply cmap_view_explicit|].
  rewrite Hcm. eapply incr_NoDup. apply (gchain_entries _ _ _ _ (gchain_cmap _ _ _ Hc Hok)).
Qed.

(** * What the layout implies: distinct handles, contiguity, lookups *)

Lemma svc_spec_bounds s : svc_spec s -> contig (s_handle s) (svc_dump s) /\ s_handle s <= s_end s.
Proof.
  intros (_ & _ & H3 & H4). split; [exact H3|]. unfold svc_dump in H4. cbn [lenN] in H4. lia.
Qed.

Lemma svcs_spec_incr g lo l hi :
  svcs_spec g lo l hi -> incr lo (flat_map svc_dump l) /\ all_lt (flat_map svc_dump l) hi /\ lo <= hi.
Proof.
  revert lo; induction l as [|s r IH]; intros lo; cbn [svcs_spec flat_map].
  - intros H. split; [constructor|]. split; [constructor|]. destruct g; lia.
  - intros (H1 & H2 & H3). destruct (IH _ H3) as (H4 & H5 & H6). destruct (svc_spec_bounds _ H2) as [Hc Hle].
    pose proof H2 as (_ & _ & _ & He).
    assert (Hlo : lo <= s_handle s) by (destruct g; lia).
    pose proof (contig_all_lt _ _ Hc) as Hlt. rewrite <- He in Hlt.
    split; [|split; [|lia]].
    + eapply incr_app; [eapply incr_weaken; [apply contig_incr, Hc|exact Hlo]|exact Hlt|lia|exact H4].
    + apply all_lt_app. split; [eapply all_lt_weaken; [exact Hlt|exact H6]|exact H5].
Qed.

Lemma svcs_spec_contig lo l hi :
  svcs_spec false lo l hi -> contig lo (flat_map svc_dump l) /\ hi = lo + lenN (flat_map svc_dump l).
Proof.
  revert lo; induction l as [|s r IH]; intros lo; cbn [svcs_spec flat_map lenN].
  - intros ->. split; [apply contig_nil|lia].
  - intros (H1 & H2 & H3). destruct (IH _ H3) as (H4 & H5). destruct (svc_spec_bounds _ H2) as [Hc Hle].
    pose proof H2 as (_ & _ & _ & He). subst lo. split.
    + apply contig_app; [exact Hc|]. now rewrite <- He.
    + rewrite lenN_app. lia.
Qed.

Lemma svc_dump_handles s : Forall (fun e => attr_handle (snd e) = fst e /\ snd e <> ADangling) (svc_dump s).
Proof.
  unfold svc_dump. constructor; [split; [reflexivity|discriminate]|]. apply Forall_app. split.
  - apply Forall_forall. intros e He. apply in_map_iff in He as (i & <- & _). split; [reflexivity|discriminate].
  - apply Forall_forall. intros e He. apply in_flat_map in He as (c & _ & He). unfold chr_dump in He.
    destruct He as [<-|[<-|He]]; [split; [reflexivity|discriminate]..|].
    apply in_map_iff in He as (d & <- & _). split; [reflexivity|discriminate].
Qed.

(** every attribute of the database is registered under its own handle *)
Theorem layout_handles g p :
  layout g p -> Forall (fun e => attr_handle (snd e) = fst e /\ snd e <> ADangling) (dump p).
Proof.
  intros (_ & Hd & _). rewrite Hd. apply Forall_forall. intros e He. apply in_flat_map in He as (s & _ & He).
  pose proof (svc_dump_handles s) as H. rewrite Forall_forall in H. now apply H.
Qed.

(** handles are distinct *)
Theorem layout_distinct g p : layout g p -> NoDup (map fst (dump p)).
Proof. intros (_ & Hd & Hs & _). rewrite Hd. eapply incr_NoDup. apply (svcs_spec_incr _ _ _ _ Hs). Qed.

(** contiguous without gaps from the start handle, next free handle right after *)
Theorem layout_contiguous p :
  layout false p -> map fst (dump p) = Nseq (p_start p) (length (dump p)) /\ p_next p = p_start p + lenN (dump p).
Proof. intros (_ & Hd & Hs & _). rewrite Hd. apply svcs_spec_contig, Hs. Qed.

Lemma db_get_map {V W} (f : V -> W) h (l : list (N * V)) :
  db_get h (map (fun e => (fst e, f (snd e))) l) = option_map f (db_get h l).
Proof.
  induction l as [|[k v] r IH]; cbn [map db_get fst snd option_map]; [reflexivity|].
  destruct (k =? h); [reflexivity|exact IH].
Qed.

(** ** sorting handles *)

Lemma insertN_perm x l : Permutation (x :: l) (insertN x l).
Proof.
  induction l as [|y r IH]; cbn [insertN]; [reflexivity|].
  destruct (x <=? y); [reflexivity|]. rewrite perm_swap. now constructor.
Qed.

Lemma sortN_perm l : Permutation l (sortN l).
Proof.
  induction l as [|x r IH]; cbn [sortN]; [constructor|].
  rewrite <- insertN_perm. now constructor.
Qed.

Lemma insertN_asc x l : ascending l -> ~ In x l -> ascending (insertN x l).
Proof.
  induction l as [|y r IH]; cbn [insertN ascending In]; [intros _ _; repeat constructor|]. intros [Hy Hr] Hx.
  destruct (x <=? y) eqn:E.
  - cbn [ascending]. assert (x < y) by (apply N.leb_le in E; assert (x <> y) by (intros ->; apply Hx; now left); lia).
    split; [|split; assumption]. constructor; [assumption|]. eapply Forall_impl; [|exact Hy]. cbn. intros; lia.
  - cbn [ascending]. apply N.leb_gt in E. split; [|apply IH; [exact Hr|tauto]].
    rewrite Forall_forall in *. intros z Hz. apply (Permutation_in _ (Permutation_sym (insertN_perm x r))) in Hz.
    destruct Hz as [<-|Hz]; [exact E|now apply Hy].
Qed.

Lemma sortN_asc l : NoDup l -> ascending (sortN l).
Proof.
  induction 1 as [|x r Hx Hnd IH]; cbn [sortN]; [exact I|].
  apply insertN_asc; [exact IH|]. intros Hin. apply Hx. now apply (Permutation_in _ (Permutation_sym (sortN_perm r))).
Qed.

Lemma asc_perm_eq l : forall l', ascending l -> ascending l' -> Permutation l l' -> l = l'.
Proof.
  induction l as [|x r IH]; intros l' Ha Ha' Hp.
  - now apply Permutation_nil in Hp.
  - destruct l' as [|y r']; [apply Permutation_sym, Permutation_nil in Hp; discriminate|].
    cbn [ascending] in Ha, Ha'. destruct Ha as [Hx Hr], Ha' as [Hy Hr'].
    rewrite Forall_forall in Hx, Hy.
    assert (Exy : x = y).
    { assert (H1 : In x (y :: r')) by (apply (Permutation_in _ Hp); now left).
      assert (H2 : In y (x :: r)) by (apply (Permutation_in _ (Permutation_sym Hp)); now left).
      destruct H1 as [H1|H1]; [now symmetry|]. destruct H2 as [H2|H2]; [exact H2|].
      apply Hy in H1. apply Hx in H2. lia. }
    subst y. f_equal. apply IH; [exact Hr|exact Hr'|]. now apply Permutation_cons_inv in Hp.
Qed.

Lemma ascending_NoDup l : ascending l -> NoDup l.
Proof.
  induction l as [|x r IH]; cbn [ascending]; [constructor|]. intros [Hx Hr]. constructor; [|now apply IH].
  intros Hin. rewrite Forall_forall in Hx. apply Hx in Hin. lia.
Qed.

Lemma ascending_filter f l : ascending l -> ascending (filter f l).
Proof.
  induction l as [|x r IH]; cbn [ascending filter]; [trivial|]. intros [Hx Hr].
  destruct (f x); [|now apply IH]. cbn [ascending]. split; [|now apply IH].
  rewrite Forall_forall in *. intros y Hy. apply filter_In in Hy as [Hy _]. now apply Hx.
Qed.

Lemma Permutation_filter' {A} (f : A -> bool) l l' : Permutation l l' -> Permutation (filter f l) (filter f l').
Proof.
  induction 1 as [|x l l' _ IH|x y l|l l' l'' _ IH1 _ IH2]; cbn [filter].
  - constructor.
  - destruct (f x); [now constructor|exact IH].
  - destruct (f x), (f y); try reflexivity. apply perm_swap.
  - now transitivity (filter f l').
Qed.

Lemma Permutation_flat_map' {A B} (f : A -> list B) l l' : Permutation l l' -> Permutation (flat_map f l) (flat_map f l').
Proof.
  induction 1 as [|x l l' _ IH|x y l|l l' l'' _ IH1 _ IH2]; cbn [flat_map].
  - constructor.
  - now apply Permutation_app_head.
  - rewrite !app_assoc. apply Permutation_app_tail, Permutation_app_comm.
  - now transitivity (flat_map f l').
Qed.

Lemma incr_ascending {V} lo (l : list (N * V)) : incr lo l -> ascending (map fst l).
Proof.
  revert lo; induction l as [|e r IH]; intros lo; cbn [incr map ascending]; [trivial|].
  intros [H1 H2]. split; [|eapply IH; exact H2]. apply incr_all_ge in H2. unfold all_ge in H2.
  rewrite Forall_forall in *. intros y Hy. apply in_map_iff in Hy as (e' & <- & He'). apply H2 in He'. lia.
Qed.

Lemma filter_map_fst {V} (f : N -> bool) (l : list (N * V)) :
  filter f (map fst l) = map fst (filter (fun e => f (fst e)) l).
Proof. induction l as [|e r IH]; cbn [map filter]; [reflexivity|]. destruct (f (fst e)); cbn [map]; now rewrite IH. Qed.

(** * Lookups agree with the layout, whatever the registration order of the dict *)

Lemma keys_dump p : map fst (dump p) = map fst (p_db p).
Proof. unfold dump. rewrite map_map. reflexivity. Qed.

Lemma agrees_NoDup p : db_agrees p -> NoDup (map fst (dump p)).
Proof.
  intros (Hp & Ha & _). apply (Permutation_NoDup (l := map fst (flat_map svc_dump (p_svcs p)))).
  - apply Permutation_map, Permutation_sym, Hp.
  - now apply ascending_NoDup.
Qed.

(** find_object_by_handle(h) returns exactly the attribute the layout puts at h *)
Theorem lookup_by_handle p h a :
  db_agrees p -> (find_by_handle p h = Some a <-> In (h, a) (flat_map svc_dump (p_svcs p))).
Proof.
  intros HA. pose proof (agrees_NoDup _ HA) as Hnd. destruct HA as (Hp & _).
  unfold find_by_handle. rewrite <- db_get_map. fold (dump p). split.
  - intros H. apply db_get_Some_In in H. now apply (Permutation_in _ Hp).
  - intros H. apply db_get_In; [exact Hnd|]. now apply (Permutation_in _ (Permutation_sym Hp)).
Qed.

Lemma svc_dump_all_handles l :
  Forall (fun e => attr_handle (snd e) = fst e /\ snd e <> ADangling) (flat_map svc_dump l).
Proof.
  apply Forall_forall. intros e He. apply in_flat_map in He as (s & _ & He).
  pose proof (svc_dump_handles s) as H. rewrite Forall_forall in H. now apply H.
Qed.

Theorem lookup_by_handle_own p h a : db_agrees p -> find_by_handle p h = Some a -> attr_handle a = h.
Proof.
  intros HA H. apply (lookup_by_handle _ _ _ HA) in H.
  pose proof (svc_dump_all_handles (p_svcs p)) as Hh. rewrite Forall_forall in Hh. now apply Hh in H.
Qed.

(** find_objects_by_range(a, b): the slice of the layout with a <= handle <= b, in ascending
    order (the code sorts the handles it collected from the dict) *)
Theorem lookup_by_range p a b :
  db_agrees p ->
  find_by_range p a b = map snd (filter (fun e => (a <=? fst e) && (fst e <=? b)) (flat_map svc_dump (p_svcs p))).
Proof.
  intros HA. pose proof (agrees_NoDup _ HA) as Hnd. pose proof HA as (Hp & Ha & _).
  unfold find_by_range. set (L := flat_map svc_dump (p_svcs p)) in *.
  set (f := fun k => (a <=? k) && (k <=? b)).
  assert (Es : sortN (filter f (map fst (p_db p))) = filter f (map fst L)).
  { apply asc_perm_eq.
    - apply sortN_asc. rewrite <- keys_dump. apply NoDup_filter, Hnd.
    - now apply ascending_filter.
    - rewrite <- sortN_perm, <- keys_dump. apply Permutation_filter', Permutation_map, Hp. }
  rewrite Es, filter_map_fst. fold f.
  assert (G : forall l, (forall e, In e l -> In e L) ->
              flat_map (fun h => match find_by_handle p h with Some x => [x] | None => [] end) (map fst l) = map snd l).
  { induction l as [|[k v] r IH]; intros Hl; cbn [map flat_map fst snd]; [reflexivity|].
    rewrite (proj2 (lookup_by_handle p k v HA)) by (apply Hl; now left).
    cbn [app]. f_equal. apply IH. intros e He. apply Hl. now right. }
  apply G. intros e He. now apply filter_In in He.
Qed.

(** attr_by_type_uuid(u, a, b) yields exactly the layout's attributes of that type in range
    (in the order the dict holds them) *)
Theorem lookup_by_type p u a b :
  db_agrees p ->
  Permutation (find_by_type p u a b)
              (map fst (filter (fun e => uuid_eqb (attr_type (snd e)) u && (a <=? fst e) && (fst e <=? b))
                               (flat_map svc_dump (p_svcs p)))).
Proof.
  intros (Hp & _). unfold find_by_type.
  set (g := fun e : N * attr => uuid_eqb (attr_type (snd e)) u && (a <=? attr_handle (snd e)) && (attr_handle (snd e) <=? b)).
  transitivity (map (fun e : N * attr => attr_handle (snd e)) (filter g (flat_map svc_dump (p_svcs p)))).
  - apply Permutation_map, Permutation_filter', Hp.
  - pose proof (svc_dump_all_handles (p_svcs p)) as Hh. rewrite Forall_forall in Hh.
    rewrite (filter_ext_in g (fun e => uuid_eqb (attr_type (snd e)) u && (a <=? fst e) && (fst e <=? b))).
    + erewrite map_ext_in; [reflexivity|]. intros e He. apply filter_In in He as [He _]. now apply Hh.
    + intros e He. unfold g. destruct (Hh _ He) as [-> _]. reflexivity.
Qed.

Lemma services_of_dump u l :
  flat_map (fun e : N * attr => match snd e with ASvc h _ u' _ => if uuid_eqb u' u then [h] else [] | _ => [] end)
           (flat_map svc_dump l)
  = map s_handle (filter (fun s => uuid_eqb (s_uuid s) u) l).
Proof.
  induction l as [|s r IH]; cbn [flat_map filter map]; [reflexivity|].
  rewrite flat_map_app, IH. unfold svc_dump at 1. cbn [flat_map snd].
  assert (E : flat_map (fun e : N * attr => match snd e with ASvc h _ u' _ => if uuid_eqb u' u then [h] else [] | _ => [] end)
                (map (fun i => (i_handle i, AIncl (i_handle i) (i_uuid i))) (s_incls s) ++ flat_map chr_dump (s_chars s)) = []).
  { rewrite flat_map_app. replace (flat_map _ (map _ (s_incls s))) with (@nil N).
    - cbn [app]. induction (s_chars s) as [|c cs IHc]; cbn [flat_map]; [reflexivity|].
      rewrite flat_map_app, IHc, app_nil_r. unfold chr_dump, desc_dump. cbn [flat_map snd app].
      induction (c_descs c) as [|d ds IHd]; cbn [map flat_map snd app]; [reflexivity|exact IHd].
    - induction (s_incls s) as [|i is IHi]; cbn [map flat_map snd app]; [reflexivity|exact IHi]. }
  rewrite E, app_nil_r. destruct (uuid_eqb (s_uuid s) u); reflexivity.
Qed.

Lemma chars_of_dump u l :
  flat_map (fun e : N * attr => match snd e with AChar h u' _ _ _ _ => if uuid_eqb u' u then [h] else [] | _ => [] end)
           (flat_map svc_dump l)
  = map c_handle (filter (fun c => uuid_eqb (c_uuid c) u) (flat_map s_chars l)).
Proof.
  induction l as [|s r IH]; cbn [flat_map filter map]; [reflexivity|].
  rewrite flat_map_app, IH, filter_app, map_app. f_equal. unfold svc_dump. cbn [flat_map snd app].
  rewrite flat_map_app. replace (flat_map _ (map _ (s_incls s))) with (@nil N).
  - cbn [app]. induction (s_chars s) as [|c cs IHc]; cbn [flat_map filter map]; [reflexivity|].
    rewrite flat_map_app, IHc. unfold chr_dump at 1, desc_dump. cbn [flat_map snd app].
    assert (E : flat_map (fun e : N * attr => match snd e with AChar h u' _ _ _ _ => if uuid_eqb u' u then [h] else [] | _ => [] end)
                  (map (fun d => (d_handle d, ADesc (d_handle d) (d_kind d) (d_uuid d) (d_value d))) (c_descs c)) = []).
    { induction (c_descs c) as [|d ds IHd]; cbn [map flat_map snd app]; [reflexivity|exact IHd]. }
    rewrite E, app_nil_r. destruct (uuid_eqb (c_uuid c) u); reflexivity.
  - induction (s_incls s) as [|i is IHi]; cbn [map flat_map snd app]; [reflexivity|exact IHi].
Qed.

(** service(uuid) returns the first, in dict order, of exactly the services of the layout
    with that UUID (so THE service when the UUID is used once, None when there is none) *)
Theorem lookup_service p u :
  db_agrees p -> Permutation (find_services p u) (map s_handle (filter (fun s => uuid_eqb (s_uuid s) u) (p_svcs p))).
Proof. intros (Hp & _). unfold find_services. rewrite <- services_of_dump. apply Permutation_flat_map', Hp. Qed.

(** char(uuid): likewise for the characteristics *)
Theorem lookup_char p u :
  db_agrees p ->
  Permutation (find_chars p u) (map c_handle (filter (fun c => uuid_eqb (c_uuid c) u) (flat_map s_chars (p_svcs p)))).
Proof. intros (Hp & _). unfold find_chars. rewrite <- chars_of_dump. apply Permutation_flat_map', Hp. Qed.

(** find_characteristic_by_value_handle *)
Theorem lookup_value_handle p s c :
  db_agrees p -> In s (p_svcs p) -> In c (s_chars s) ->
  find_chr_by_value_handle p (c_vhandle c) = LSome (c_handle c).
Proof.
  intros HA Hs Hc. unfold find_chr_by_value_handle.
  assert (H : find_by_handle p (c_vhandle c) = Some (AVal (c_vhandle c) (c_uuid c) (c_value c) (c_handle c))).
  { apply (lookup_by_handle _ _ _ HA). apply in_flat_map. exists s. split; [exact Hs|].
    unfold svc_dump. right. apply in_or_app. right. apply in_flat_map. exists c. split; [exact Hc|].
    unfold chr_dump. right. now left. }
  now rewrite H.
Qed.

(** find_service_by_characteristic_handle *)
Theorem lookup_service_of_char p s c :
  db_agrees p -> In s (p_svcs p) -> In c (s_chars s) ->
  find_svc_by_chr_handle p (c_handle c) = LSome (s_handle s).
Proof.
  intros (_ & _ & Hv & Hnd) Hs Hc. unfold find_svc_by_chr_handle.
  assert (H : db_get (c_handle c) (cmap_view p) = Some (Some (s_handle s))).
  { apply db_get_In.
    - unfold cmap_view. now rewrite map_map.
    - apply (Permutation_in _ (Permutation_sym Hv)). apply in_flat_map. exists s. split; [exact Hs|]. apply in_map_iff. now exists c. }
  unfold cmap_view in H. rewrite (db_get_map (fun sid => option_map s_handle (find_svc sid (p_svcs p)))) in H.
  destruct (db_get (c_handle c) (p_cmap p)) as [sid|]; cbn [option_map] in H; [|discriminate].
  injection H as H. destruct (find_svc sid (p_svcs p)); cbn [option_map] in H; [|discriminate]. now injection H as ->.
Qed.

(** the exact layout (class-built profiles and every operation sequence) is a special case:
    there the dict order IS the ascending order *)
Theorem layout_agrees g p : layout g p -> db_agrees p.
Proof.
  intros (_ & Hd & Hs & Hv & Hnd). unfold db_agrees. rewrite Hd, Hv.
  split; [reflexivity|]. split; [|split; [reflexivity|exact Hnd]].
  eapply incr_ascending. apply (svcs_spec_incr _ _ _ _ Hs).
Qed.

(** * SecurityAccess conversions *)

Definition b2n (b : bool) : N := if b then 1 else 0.
Definition enc6 (r0 r1 r2 w0 w1 w2 : bool) : N :=
  b2n r0 + 2 * b2n r1 + 4 * b2n r2 + 16 * b2n w0 + 32 * b2n w1 + 64 * b2n w2.

Lemma lor_bits (w r0 r1 r2 w0 w1 w2 : bool) t (e a z : bool) :
  N.lor (enc6 r0 r1 r2 w0 w1 w2) (if w then 16 * acc_bits (mkA t e a z) else acc_bits (mkA t e a z))
  = if w then enc6 r0 r1 r2 (orb w0 e) (orb w1 a) (orb w2 z) else enc6 (orb r0 e) (orb r1 a) (orb r2 z) w0 w1 w2.
Proof. destruct w, r0, r1, r2, w0, w1, w2, e, a, z; reflexivity. Qed.

Lemma acc_aux_enc l : forall w r0 r1 r2 w0 w1 w2,
  exists r0' r1' r2' w0' w1' w2', acc_to_int_aux w (enc6 r0 r1 r2 w0 w1 w2) l = enc6 r0' r1' r2' w0' w1' w2'.
Proof.
  induction l as [|[t e a z] r IH]; intros w r0 r1 r2 w0 w1 w2; cbn [acc_to_int_aux].
  - now exists r0, r1, r2, w0, w1, w2.
  - cbn [a_type]. rewrite lor_bits. destruct (match t with ARead => false | AWrite => true | ABase => w end); apply IH.
Qed.

Lemma roundtrip_enc r0 r1 r2 w0 w1 w2 :
  acc_to_int (int_to_acc (enc6 r0 r1 r2 w0 w1 w2)) = enc6 r0 r1 r2 w0 w1 w2.
Proof. destruct r0, r1, r2, w0, w1, w2; vm_compute; reflexivity. Qed.

(** accesses -> int -> accesses -> int is the identity on the int *)
Theorem security_roundtrip l : acc_to_int (int_to_acc (acc_to_int l)) = acc_to_int l.
Proof.
  unfold acc_to_int at 2 3. change 0 with (enc6 false false false false false false).
  destruct (acc_aux_enc l false false false false false false false) as (r0 & r1 & r2 & w0 & w1 & w2 & E).
  rewrite E. apply roundtrip_enc.
Qed.

(** int -> accesses -> int keeps exactly the six defined bits (swept over one byte) *)
Theorem security_int_roundtrip n : n < 256 -> acc_to_int (int_to_acc n) = N.land n 0x77.
Proof.
  intros H.
  assert (S : forallb (fun n => acc_to_int (int_to_acc n) =? N.land n 0x77) (Nseq 0 256) = true) by (vm_compute; reflexivity).
  rewrite forallb_forall in S. apply N.eqb_eq, S, Nseq_In. lia.
Qed.

(** * JSON export / import *)

Definition exp_entry (svcs : list svc) (e : N * ref) : list jsvc :=
  match snd e with
  | RSvc sid => match find_svc sid svcs with Some s => [export_svc s] | None => [] end
  | _ => []
  end.

Lemma export_unfold p : export p = flat_map (exp_entry (p_svcs p)) (p_db p).
Proof. reflexivity. Qed.

Lemma exp_incl_entries svcs sid k l : flat_map (exp_entry svcs) (incl_entries sid k l) = [].
Proof. revert k; induction l as [|i r IH]; intros k; cbn [incl_entries flat_map]; [reflexivity|]. now rewrite IH. Qed.

Lemma exp_desc_entries svcs sid cid k l : flat_map (exp_entry svcs) (desc_entries sid cid k l) = [].
Proof. revert k; induction l as [|i r IH]; intros k; cbn [desc_entries flat_map]; [reflexivity|]. now rewrite IH. Qed.

Lemma exp_chars_entries svcs sid cs : flat_map (exp_entry svcs) (flat_map (chr_entries sid) cs) = [].
Proof.
  induction cs as [|c r IH]; cbn [flat_map]; [reflexivity|].
  rewrite flat_map_app, IH, app_nil_r. unfold chr_entries. cbn [flat_map]. unfold exp_entry at 1 2. cbn [snd app].
  apply exp_desc_entries.
Qed.

(** under the (weak) invariant the export lists the services of the profile, in order *)
Lemma export_explicit p : InvW p -> export p = map export_svc (p_svcs p).
Proof.
  intros [_ _ Hdb [Hnd _]]. rewrite export_unfold, Hdb. apply all_ids_parts in Hnd as [Hs _]. unfold all_entries.
  assert (G : forall l, (forall s, In s l -> In s (p_svcs p)) ->
              flat_map (exp_entry (p_svcs p)) (flat_map svc_entries l) = map export_svc l).
  { induction l as [|s l IH]; intros Hl; cbn [flat_map map]; [reflexivity|].
    rewrite flat_map_app, IH by (intros x Hx; apply Hl; now right).
    unfold svc_entries. cbn [flat_map]. rewrite flat_map_app, exp_incl_entries, exp_chars_entries.
    unfold exp_entry. cbn [snd]. unfold find_svc. rewrite (find_unique s_id); [reflexivity|exact Hs|apply Hl; now left]. }
  apply G. auto.
Qed.

Definition imp_chr (c : chr) : chr := import_chr (export_chr c).
Definition imp_svc (s : svc) : svc :=
  mkS 0 (s_primary s) (s_uuid s) (s_handle s) (s_end s) [] (map imp_chr (s_chars s)).

Lemma export_imp_chr c : c_vhandle c = c_handle c + 1 -> export_chr (imp_chr c) = export_chr c.
Proof.
  intros H. unfold imp_chr, export_chr, import_chr.
  cbn [c_handle c_props c_sec c_vhandle c_uuid c_value c_descs jc_handle jc_props jc_sec jc_uuid jc_data jc_descs].
  rewrite security_roundtrip, <- H. f_equal. rewrite !map_map. apply map_ext. reflexivity.
Qed.

Lemma fold_max_nseq ds : forall e,
  map d_handle ds = Nseq (e + 1) (length ds) -> fold_left (fun e d => N.max (d_handle d) e) ds e = e + lenN ds.
Proof.
  induction ds as [|d r IH]; intros e; cbn [map length Nseq fold_left lenN]; [intros _; lia|].
  intros H. injection H as Hd Hr. rewrite Hd. replace (N.max (e + 1) e) with (e + 1) by lia.
  rewrite IH by exact Hr. lia.
Qed.

Lemma imp_chr_fields c :
  chr_spec (c_handle c) c ->
  c_handle (imp_chr c) = c_handle c /\ c_vhandle (imp_chr c) = c_vhandle c /\ c_end (imp_chr c) = c_end c
  /\ map d_handle (c_descs (imp_chr c)) = map d_handle (c_descs c).
Proof.
  intros (_ & Hv & Hd & He). unfold imp_chr, import_chr, export_chr.
  cbn [c_handle c_vhandle c_end c_descs jc_handle jc_descs].
  assert (Hm : map d_handle (map import_desc (map export_desc (c_descs c))) = map d_handle (c_descs c)).
  { rewrite !map_map. apply map_ext. reflexivity. }
  repeat split; [now rewrite Hv| |exact Hm].
  rewrite fold_max_nseq.
  - rewrite He, !lenN_length, !map_length. reflexivity.
  - rewrite Hm, !map_length. replace (c_handle c + 1 + 1) with (c_handle c + 2) by lia. exact Hd.
Qed.

Lemma chr_keys_imp c : chr_spec (c_handle c) c -> chr_keys (imp_chr c) = chr_keys c.
Proof. intros H. destruct (imp_chr_fields c H) as (H1 & H2 & _ & H4). unfold chr_keys. now rewrite H1, H2, H4. Qed.

Lemma chars_spec_facts h cs :
  chars_spec h cs ->
  Forall (fun c => h <= c_handle c /\ chr_spec (c_handle c) c /\ c_end c + 1 <= h + chars_size cs) cs.
Proof.
  revert h; induction cs as [|c r IH]; intros h; cbn [chars_spec chars_size]; [constructor|].
  intros [Hc Hr]. pose proof Hc as (H1 & H2 & H3 & H4). constructor.
  - rewrite H1. split; [lia|]. split; [exact Hc|lia].
  - eapply Forall_impl; [|apply IH, Hr]. cbn beta. intros x (Hx1 & Hx2 & Hx3). split; [lia|]. split; [exact Hx2|lia].
Qed.

Lemma chars_spec_contig sid h cs : chars_spec h cs -> contig h (flat_map (chr_entries sid) cs).
Proof.
  revert h; induction cs as [|c r IH]; intros h; cbn [chars_spec flat_map]; [intros _; apply contig_nil|].
  intros [(H1 & H2 & H3 & H4) Hr]. apply contig_app.
  - unfold chr_entries. apply contig_cons; [exact H1|]. apply contig_cons; [exact H2|].
    unfold contig. rewrite keys_desc_entries. replace (h + 1 + 1) with (h + 2) by lia. rewrite H3.
    f_equal. rewrite <- (map_length fst), keys_desc_entries. now rewrite map_length.
  - rewrite lenN_chr_entries. replace (h + (2 + lenN (c_descs c))) with (c_end c + 1) by lia. apply IH, Hr.
Qed.

Lemma contig_keys {V W} (a : list (N * V)) (b : list (N * W)) h :
  map fst a = map fst b -> contig h a -> contig h b.
Proof.
  unfold contig. intros E H. rewrite <- E, H. f_equal.
  rewrite <- (map_length fst a), E. apply map_length.
Qed.

Lemma lenN_svc_dump s : lenN (svc_dump s) = svc_size s.
Proof. now rewrite lenN_length, length_svc_dump, <- lenN_length, lenN_svc_entries. Qed.

Lemma handles_number_chars n cs : map chr_keys (number_chars n cs) = map chr_keys cs.
Proof. revert n; induction cs as [|c r IH]; intros n; cbn [number_chars map]; [reflexivity|]. now rewrite IH. Qed.

Lemma export_number_chars n cs : map export_chr (number_chars n cs) = map export_chr cs.
Proof. revert n; induction cs as [|c r IH]; intros n; cbn [number_chars map]; [reflexivity|]. now rewrite IH. Qed.

Lemma flat_map_concat_map {A B} (f : A -> list B) l : flat_map f l = concat (map f l).
Proof. induction l as [|x l IH]; cbn [flat_map map concat]; [reflexivity|]. now rewrite IH. Qed.

(** the entries an imported service registers are sorted and inside its range *)
Lemma imp_svc_sorted n s :
  1 <= s_handle s -> svc_spec s -> ent_sorted svc_entries (number_svc n (imp_svc s)).
Proof.
  intros H1 Hs. pose proof Hs as (_ & Hcs & _ & He). destruct (svc_spec_bounds _ Hs) as [_ Hle].
  rewrite lenN_svc_dump in He. unfold svc_size in He.
  pose proof (chars_spec_facts _ _ Hcs) as Hf.
  set (h1 := s_handle s + 1 + lenN (s_incls s)) in *.
  assert (Hk : map fst (flat_map (chr_entries n) (number_chars (n + 1) (map imp_chr (s_chars s))))
               = map fst (flat_map (chr_entries 0) (s_chars s))).
  { rewrite !keys_chars_entries, !flat_map_concat_map, handles_number_chars. f_equal. rewrite map_map.
    apply map_ext_in. intros c Hc. rewrite Forall_forall in Hf. apply chr_keys_imp, Hf, Hc. }
  pose proof (chars_spec_contig 0 _ _ Hcs) as Hc0.
  pose proof (contig_keys _ _ _ (eq_sym Hk) Hc0) as Hc1.
  assert (Hl : lenN (flat_map (chr_entries n) (number_chars (n + 1) (map imp_chr (s_chars s)))) = chars_size (s_chars s)).
  { rewrite lenN_length, <- (map_length fst), Hk, map_length, <- lenN_length. apply lenN_chars_entries. }
  unfold ent_sorted, svc_entries, number_svc, imp_svc. cbn [s_handle s_end s_id s_incls s_chars incl_entries app].
  split; [exact Hle|]. split.
  - cbn [incr fst]. split; [lia|]. eapply incr_weaken; [apply contig_incr, Hc1|unfold h1; lia].
  - constructor; [cbn [fst]; lia|]. eapply all_lt_weaken; [apply contig_all_lt, Hc1|]. rewrite Hl. unfold h1. lia.
Qed.

Lemma export_imp_svc n s : svc_spec s -> export_svc (number_svc n (imp_svc s)) = export_svc s.
Proof.
  intros (_ & Hcs & _). pose proof (chars_spec_facts _ _ Hcs) as Hf. rewrite Forall_forall in Hf.
  unfold export_svc, number_svc, imp_svc, svc_type. cbn [s_uuid s_primary s_handle s_end s_chars]. f_equal.
  rewrite export_number_chars, map_map. apply map_ext_in. intros c Hc. apply export_imp_chr.
  destruct (Hf _ Hc) as (_ & (_ & Hv & _) & _). exact Hv.
Qed.

Lemma add_chars_nonzero cs : forall s,
  Forall (fun c => c_handle c <> 0) cs ->
  fold_left svc_add_char cs s
  = mkS (s_id s) (s_primary s) (s_uuid s) (s_handle s)
        (fold_left (fun e c => N.max (c_end c) e) cs (s_end s)) (s_incls s) (s_chars s ++ cs).
Proof.
  induction cs as [|c r IH]; intros s H; cbn [fold_left].
  - rewrite app_nil_r. now destruct s.
  - inversion H as [|? ? Hc Hr]; subst. rewrite IH by exact Hr. unfold svc_add_char.
    destruct (c_handle c =? 0) eqn:E; [apply N.eqb_eq in E; contradiction|].
    cbn [s_id s_primary s_uuid s_handle s_end s_incls s_chars]. now rewrite <- app_assoc.
Qed.

Lemma fold_max_le cs e : Forall (fun c => c_end c <= e) cs -> fold_left (fun e c => N.max (c_end c) e) cs e = e.
Proof.
  induction cs as [|c r IH]; intros H; cbn [fold_left]; [reflexivity|]. inversion H; subst.
  replace (N.max (c_end c) e) with e by lia. now apply IH.
Qed.

Lemma forallb_map {A B} (f : B -> bool) (g : A -> B) l : forallb f (map g l) = forallb (fun x => f (g x)) l.
Proof. induction l as [|x l IH]; cbn [map forallb]; [reflexivity|]. now rewrite IH. Qed.

Lemma forallb_ext' {A} (f g : A -> bool) l : (forall x, f x = g x) -> forallb f l = forallb g l.
Proof. intros H. induction l as [|x l IH]; cbn [forallb]; [reflexivity|]. now rewrite H, IH. Qed.

Lemma import_step_ok q s :
  1 <= s_handle s -> svc_spec s ->
  import_step (Done q) (export_svc s) = Done (add_service (pre_register q (imp_svc s)) (imp_svc s)).
Proof.
  intros H1 Hs. pose proof Hs as (_ & Hcs & _ & He). rewrite lenN_svc_dump in He. unfold svc_size in He.
  pose proof (chars_spec_facts _ _ Hcs) as Hf. rewrite Forall_forall in Hf.
  unfold import_step, export_svc. cbn [js_type js_uuid js_start js_end js_chars].
  assert (E2 : uuid_eqb (svc_type s) (u16 0x2800) = s_primary s) by (unfold svc_type; now destruct (s_primary s)).
  assert (E3 : uuid_eqb (svc_type s) (u16 0x2800) || uuid_eqb (svc_type s) (u16 0x2801) = true)
    by (unfold svc_type; now destruct (s_primary s)).
  rewrite E3, E2. cbn [negb].
  assert (E : fold_left svc_add_char (map import_chr (map export_chr (s_chars s)))
                        (mkS 0 (s_primary s) (s_uuid s) (s_handle s) (s_end s) [] []) = imp_svc s).
  { rewrite map_map. fold imp_chr. rewrite add_chars_nonzero.
    - cbn [s_id s_primary s_uuid s_handle s_end s_incls s_chars app]. unfold imp_svc. f_equal.
      apply fold_max_le. apply Forall_forall. intros x Hx. apply in_map_iff in Hx as (c & <- & Hc').
      destruct (Hf _ Hc') as (_ & Hsp & Hle). destruct (imp_chr_fields c Hsp) as (_ & _ & -> & _). lia.
    - apply Forall_forall. intros x Hx. apply in_map_iff in Hx as (c & <- & Hc').
      destruct (Hf _ Hc') as (Hlo & Hsp & _). destruct (imp_chr_fields c Hsp) as (-> & _). lia. }
  now rewrite E.
Qed.

Lemma placed_nonzero q s0 : s_handle s0 <> 0 -> placed q s0 = number_svc (p_fresh q) s0.
Proof. intros H. unfold placed. cbn [number_svc s_handle]. destruct (s_handle s0 =? 0) eqn:E; [apply N.eqb_eq in E; contradiction|reflexivity]. Qed.

(** ** the dict of an imported profile: registration order of the from_json loop *)

Lemma db_set_all_fresh {V} (es l : list (N * V)) :
  NoDup (map fst es) -> (forall k, In k (map fst es) -> ~ In k (map fst l)) -> db_set_all es l = l ++ es.
Proof.
  unfold db_set_all. revert l; induction es as [|[k v] r IH]; intros l Hnd Hd; cbn [fold_left].
  - now rewrite app_nil_r.
  - cbn [map fst] in Hnd. inversion Hnd as [|? ? Hk Hnd']; subst. cbn [fst snd].
    rewrite db_set_fresh by (apply Hd; now left). rewrite IH; [now rewrite <- app_assoc|exact Hnd'|].
    intros k' Hk' Hin. rewrite map_app, in_app_iff in Hin. destruct Hin as [Hin|[<-|[]]].
    + apply (Hd k'); [now right|exact Hin].
    + contradiction.
Qed.

Lemma db_set_all_same {V} (es l : list (N * V)) :
  (forall e, In e es -> db_get (fst e) l = Some (snd e)) -> db_set_all es l = l.
Proof.
  unfold db_set_all. induction es as [|e r IH]; intros H; cbn [fold_left]; [reflexivity|].
  rewrite db_set_same by (apply H; now left). apply IH. intros x Hx. apply H. now right.
Qed.

Lemma Permutation_flat_map_pointwise {A B} (f g : A -> list B) l :
  (forall x, In x l -> Permutation (f x) (g x)) -> Permutation (flat_map f l) (flat_map g l).
Proof.
  induction l as [|x l IH]; intros H; cbn [flat_map]; [constructor|].
  apply Permutation_app; [apply H; now left|apply IH; intros y Hy; apply H; now right].
Qed.

Lemma imp_entries_perm s : s_incls s = [] -> Permutation (imp_entries s) (svc_entries s).
Proof.
  intros Hi. unfold imp_entries, svc_entries. rewrite Hi. cbn [incl_entries app].
  rewrite <- Permutation_cons_append. constructor.
  apply Permutation_flat_map_pointwise. intros c _. unfold chr_entries.
  change ((c_handle c, RChar (s_id s) (c_id c)) :: (c_vhandle c, RVal (s_id s) (c_id c)) :: desc_entries (s_id s) (c_id c) 0 (c_descs c))
    with ([(c_handle c, RChar (s_id s) (c_id c)); (c_vhandle c, RVal (s_id s) (c_id c))] ++ desc_entries (s_id s) (c_id c) 0 (c_descs c)).
  apply Permutation_app_comm.
Qed.

Definition imp_all (l : list svc) : list (N * ref) := flat_map imp_entries l.

Lemma imp_all_perm l : Forall (fun s => s_incls s = []) l -> Permutation (imp_all l) (all_entries l).
Proof.
  intros H. rewrite Forall_forall in H. apply Permutation_flat_map_pointwise. intros s Hs. now apply imp_entries_perm, H.
Qed.

(** invariant of a profile under construction by the JSON import *)
Record InvI (p : profile) : Prop := mkInvI {
  j_start : 1 <= p_start p;
  j_chain : gchain svc_entries (p_start p) (p_svcs p) (p_next p);
  j_cchain : gchain svc_cmap (p_start p) (p_svcs p) (p_next p);
  j_db : p_db p = imp_all (p_svcs p);
  j_cmap : p_cmap p = all_cmap (p_svcs p);
  j_noincl : Forall (fun s => s_incls s = []) (p_svcs p);
  j_ids : ids_ok (p_fresh p) (p_svcs p) }.

Lemma exp_imp_entries svcs s :
  find_svc (s_id s) svcs = Some s -> flat_map (exp_entry svcs) (imp_entries s) = [export_svc s].
Proof.
  intros Hf. unfold imp_entries. rewrite flat_map_app. cbn [flat_map]. unfold exp_entry at 2. cbn [snd]. rewrite Hf, app_nil_r.
  replace (flat_map (exp_entry svcs) (flat_map _ (s_chars s))) with (@nil jsvc); [reflexivity|].
  induction (s_chars s) as [|c r IH]; cbn [flat_map]; [reflexivity|].
  rewrite flat_map_app, <- IH, app_nil_r, flat_map_app, exp_desc_entries. reflexivity.
Qed.

Lemma export_explicit_imp p : InvI p -> export p = map export_svc (p_svcs p).
Proof.
  intros [_ _ _ Hdb _ _ [Hnd _]]. rewrite export_unfold, Hdb. apply all_ids_parts in Hnd as [Hs _]. unfold imp_all.
  assert (G : forall l, (forall s, In s l -> In s (p_svcs p)) ->
              flat_map (exp_entry (p_svcs p)) (flat_map imp_entries l) = map export_svc l).
  { induction l as [|s l IH]; intros Hl; cbn [flat_map map]; [reflexivity|].
    rewrite flat_map_app, IH by (intros x Hx; apply Hl; now right).
    rewrite exp_imp_entries; [reflexivity|]. unfold find_svc. apply (find_unique s_id); [exact Hs|apply Hl; now left]. }
  apply G. auto.
Qed.

Lemma keys_all_dump l : map fst (flat_map svc_dump l) = map fst (all_entries l).
Proof.
  unfold all_entries. induction l as [|s r IH]; cbn [flat_map]; [reflexivity|]. now rewrite !map_app, keys_svc_dump, IH.
Qed.

Lemma res_all_entries svcs :
  NoDup (all_ids svcs) -> map (res svcs) (all_entries svcs) = flat_map svc_dump svcs.
Proof.
  intros Hnd. apply all_ids_parts in Hnd as [Hs Hc]. unfold all_entries.
  assert (G : forall l, (forall s, In s l -> In s svcs) ->
              map (res svcs) (flat_map svc_entries l) = flat_map svc_dump l).
  { induction l as [|s l IH]; intros Hl; cbn [flat_map map]; [reflexivity|].
    rewrite map_app, IH by (intros x Hx; apply Hl; now right). f_equal.
    assert (Hin : In s svcs) by (apply Hl; now left).
    apply resolve_svc; [unfold find_svc; now apply (find_unique s_id)|].
    rewrite Forall_forall in Hc. now apply Hc. }
  apply G. auto.
Qed.

Lemma cmap_view_of p :
  NoDup (all_ids (p_svcs p)) -> p_cmap p = all_cmap (p_svcs p) ->
  cmap_view p = flat_map (fun s => map (fun c => (c_handle c, Some (s_handle s))) (s_chars s)) (p_svcs p).
Proof.
  intros Hnd Hcm. unfold cmap_view. rewrite Hcm. apply all_ids_parts in Hnd as [Hs _]. unfold all_cmap.
  assert (G : forall l, (forall s, In s l -> In s (p_svcs p)) ->
     map (fun e => (fst e, option_map s_handle (find_svc (snd e) (p_svcs p)))) (flat_map svc_cmap l)
     = flat_map (fun s => map (fun c => (c_handle c, Some (s_handle s))) (s_chars s)) l).
  { induction l as [|s l IH]; intros Hl; cbn [flat_map map]; [reflexivity|].
    rewrite map_app, IH by (intros x Hx; apply Hl; now right). f_equal.
    unfold svc_cmap. rewrite map_map. apply map_ext. intros c. cbn [fst snd].
    unfold find_svc. rewrite (find_unique s_id); [reflexivity|exact Hs|apply Hl; now left]. }
  apply G. auto.
Qed.

(** an imported profile agrees with its layout, although its dict is not in ascending order *)
Lemma invi_agrees p : InvI p -> db_agrees p.
Proof.
  intros [Hst Hc Hcc Hdb Hcm Hni [Hnd Hlt]]. unfold db_agrees. split; [|split; [|split]].
  - unfold dump. fold (res (p_svcs p)). rewrite Hdb, <- (res_all_entries _ Hnd).
    apply Permutation_map, imp_all_perm, Hni.
  - rewrite keys_all_dump. eapply incr_ascending. apply (gchain_entries _ _ _ _ Hc).
  - rewrite (cmap_view_of _ Hnd Hcm). reflexivity.
  - rewrite Hcm. eapply incr_NoDup. apply (gchain_entries _ _ _ _ Hcc).
Qed.

Lemma imp_svc_cmap_sorted n s : svc_ok s -> ent_sorted svc_cmap (number_svc n (imp_svc s)).
Proof.
  intros Hok. pose proof (svc_ok_spec _ Hok) as (_ & Hcs & _). pose proof (chars_spec_facts _ _ Hcs) as Hf.
  rewrite Forall_forall in Hf. destruct (svc_ok_cmap_sorted _ Hok) as (H1 & H2 & H3).
  assert (Hk : map fst (svc_cmap (number_svc n (imp_svc s))) = map fst (svc_cmap s)).
  { rewrite !keys_svc_cmap. unfold number_svc, imp_svc. cbn [s_chars].
    assert (E : forall m cs, map c_handle (number_chars m cs) = map c_handle cs).
    { intros m cs; revert m; induction cs as [|c r IH]; intros m; cbn [number_chars map c_handle]; [reflexivity|]. now rewrite IH. }
    rewrite E, map_map. apply map_ext_in. intros c Hc. destruct (Hf _ Hc) as (_ & Hsp & _).
    now destruct (imp_chr_fields c Hsp) as (-> & _). }
  unfold ent_sorted. cbn [number_svc imp_svc s_handle s_end]. split; [exact H1|]. split.
  - eapply incr_keys; [symmetry; exact Hk|exact H2].
  - eapply all_lt_keys; [symmetry; exact Hk|exact H3].
Qed.

Lemma import_add_invi q s :
  InvI q -> svc_ok s -> 1 <= s_handle s -> p_next q <= s_handle s ->
  let q' := add_service (pre_register q (imp_svc s)) (imp_svc s) in
  InvI q' /\ p_svcs q' = p_svcs q ++ [number_svc (p_fresh q) (imp_svc s)] /\ p_next q' = s_end s + 1.
Proof.
  intros [Hst Hc Hcc Hdb Hcm Hni Hid] Hok H1 Hn. cbv zeta.
  pose proof (svc_ok_spec _ Hok) as Hsp.
  assert (Hnz : s_handle (imp_svc s) <> 0) by (cbn [imp_svc s_handle]; lia).
  set (s1 := number_svc (p_fresh q) (imp_svc s)).
  assert (Hp : placed (pre_register q (imp_svc s)) (imp_svc s) = s1) by (now rewrite placed_nonzero).
  pose proof (imp_svc_sorted (p_fresh q) s H1 Hsp) as Hsort. fold s1 in Hsort.
  pose proof (imp_svc_cmap_sorted (p_fresh q) s Hok) as Hcsort. fold s1 in Hcsort.
  assert (Hni1 : s_incls s1 = []) by reflexivity.
  assert (Hh1 : s_handle s1 = s_handle s) by reflexivity.
  assert (He1 : s_end s1 = s_end s) by reflexivity.
  pose proof (imp_entries_perm s1 Hni1) as Hperm.
  destruct Hsort as (Hs1 & Hs2 & Hs3).
  assert (Hnd1 : NoDup (map fst (imp_entries s1))).
  { apply (Permutation_NoDup (l := map fst (svc_entries s1))); [apply Permutation_map, Permutation_sym, Hperm|].
    eapply incr_NoDup; exact Hs2. }
  assert (Hlt : all_lt (p_db q) (s_handle s)).
  { rewrite Hdb. pose proof (gchain_entries _ _ _ _ Hc) as [_ Hl].
    apply Forall_forall. intros e He. apply (Permutation_in _ (imp_all_perm _ Hni)) in He.
    unfold all_lt in Hl. rewrite Forall_forall in Hl. apply Hl in He. fold (all_entries (p_svcs q)) in He. lia. }
  assert (Hfresh : forall k, In k (map fst (svc_entries s1)) -> ~ In k (map fst (p_db q))).
  { intros k Hk Hin. apply incr_all_ge in Hs2. apply in_map_iff in Hk as (e & <- & He).
    unfold all_ge in Hs2. rewrite Forall_forall in Hs2. apply Hs2 in He.
    apply in_map_iff in Hin as (e' & E' & He'). unfold all_lt in Hlt. rewrite Forall_forall in Hlt. apply Hlt in He'. lia. }
  assert (Edb1 : db_set_all (imp_entries s1) (p_db q) = p_db q ++ imp_entries s1).
  { apply db_set_all_fresh; [exact Hnd1|]. intros k Hk. apply Hfresh.
    apply (Permutation_in _ (Permutation_map fst Hperm)), Hk. }
  rewrite add_service_eq, Hp. cbn [pre_register p_start p_next p_fresh p_svcs p_db p_cmap].
  fold s1. rewrite Edb1.
  split; [|split; [reflexivity|now rewrite He1]].
  constructor; cbn [p_start p_next p_fresh p_svcs p_db p_cmap].
  - exact Hst.
  - eapply gchain_app_intro; [exact Hc|]. cbn [gchain]. split; [lia|]. split; [exact (conj Hs1 (conj Hs2 Hs3))|lia].
  - eapply gchain_app_intro; [exact Hcc|]. cbn [gchain]. split; [lia|]. split; [exact Hcsort|lia].
  - rewrite db_set_all_same.
    + rewrite Hdb. unfold imp_all. rewrite flat_map_app. cbn [flat_map]. now rewrite app_nil_r.
    + intros e He. rewrite db_get_app_r by (apply Hfresh; now apply in_map).
      apply db_get_In; [exact Hnd1|]. destruct e as [k v]. apply (Permutation_in _ (Permutation_sym Hperm)), He.
  - rewrite Hcm. destruct Hcsort as (_ & Hc2 & _).
    rewrite (db_set_all_append (s_handle s1)); [|exact Hc2|].
    + unfold all_cmap. rewrite flat_map_app. cbn [flat_map]. now rewrite app_nil_r.
    + pose proof (gchain_entries _ _ _ _ Hcc) as [_ Hl]. eapply all_lt_weaken; [exact Hl|lia].
  - apply Forall_app. split; [exact Hni|]. now constructor.
  - unfold s1. cbn [imp_svc s_chars]. replace (lenN (map imp_chr (s_chars s))) with (lenN (s_chars (imp_svc s))) by reflexivity.
    rewrite <- (placed_nonzero q _ Hnz). apply ids_ok_add, Hid.
Qed.

Lemma import_fold l : forall q lo hi,
  InvI q -> 1 <= lo -> p_next q <= lo -> gchain svc_entries lo l hi -> Forall svc_ok l ->
  exists q', fold_left import_step (map export_svc l) (Done q) = Done q' /\ InvI q'
             /\ map export_svc (p_svcs q') = map export_svc (p_svcs q) ++ map export_svc l.
Proof.
  induction l as [|s r IH]; intros q lo hi HW Hlo Hn Hc Hok; cbn [map fold_left].
  - exists q. split; [reflexivity|]. split; [exact HW|]. now rewrite app_nil_r.
  - cbn [gchain] in Hc. destruct Hc as (H1 & H2 & H3). apply Forall_cons_iff in Hok as [Hoks Hokr].
    pose proof (svc_ok_spec _ Hoks) as Hsp.
    rewrite import_step_ok; [|lia|exact Hsp].
    destruct (import_add_invi q s HW Hoks ltac:(lia) ltac:(lia)) as (HW1 & Esv & Enx).
    destruct (IH _ (s_end s + 1) hi HW1 ltac:(lia) ltac:(lia) H3 Hokr) as (q' & E1 & E2 & E3).
    exists q'. split; [exact E1|]. split; [exact E2|]. rewrite E3, Esv, map_app. cbn [map].
    rewrite export_imp_svc by exact Hsp. now rewrite <- app_assoc.
Qed.

Lemma svc_in_domain s : 1 <= s_handle s -> svc_spec s -> jsvc_in_domain (export_svc s) = true.
Proof.
  intros H1 (_ & Hcs & _). pose proof (chars_spec_facts _ _ Hcs) as Hf. rewrite Forall_forall in Hf.
  unfold jsvc_in_domain, export_svc. cbn [js_start js_chars]. apply andb_true_iff. split.
  - destruct (s_handle s =? 0) eqn:E; [apply N.eqb_eq in E; lia|reflexivity].
  - rewrite forallb_map. apply forallb_forall. intros c Hc. destruct (Hf _ Hc) as (Hlo & (_ & _ & Hd & _) & _).
    unfold jchar_in_domain, export_chr. cbn [jc_handle jc_descs]. apply andb_true_iff. split.
    + destruct (c_handle c =? 0) eqn:E; [apply N.eqb_eq in E; lia|reflexivity].
    + rewrite forallb_map. apply forallb_forall. intros d Hd'. cbn [export_desc jd_handle].
      assert (Hin : In (d_handle d) (map d_handle (c_descs c))) by (now apply in_map).
      rewrite Hd in Hin. apply Nseq_In in Hin. destruct (d_handle d =? 0) eqn:E; [apply N.eqb_eq in E; lia|reflexivity].
Qed.

Lemma gchain_handles_ge lo l hi s : gchain svc_entries lo l hi -> In s l -> lo <= s_handle s.
Proof.
  revert lo; induction l as [|x r IH]; intros lo; cbn [gchain In]; [tauto|].
  intros (H1 & (H2 & _) & H3) [->|Hin]; [exact H1|]. specialize (IH _ H3 Hin). lia.
Qed.

Lemma empty_invi : InvI (empty_profile 1).
Proof.
  constructor; cbn [empty_profile p_start p_next p_fresh p_svcs p_db p_cmap gchain imp_all all_cmap flat_map].
  - lia.
  - lia.
  - lia.
  - reflexivity.
  - reflexivity.
  - constructor.
  - split; constructor.
Qed.

(** Exporting, importing and exporting again gives the same export; the imported profile
    agrees with its layout (all its lookups do), whatever its registration order. *)
Theorem import_export_id p :
  Inv p -> exists q, import (export p) = Done q /\ export q = export p /\ db_agrees q.
Proof.
  intros HI. pose proof HI as [HW Hok _]. pose proof HW as [Hst Hc _ _].
  rewrite (export_explicit _ HW). unfold import.
  assert (Hdom : forallb jsvc_in_domain (map export_svc (p_svcs p)) = true).
  { rewrite forallb_map. apply forallb_forall. intros s Hs. apply svc_in_domain.
    - pose proof (gchain_handles_ge _ _ _ _ Hc Hs). lia.
    - rewrite Forall_forall in Hok. apply svc_ok_spec, Hok, Hs. }
  rewrite Hdom.
  assert (Hn0 : p_next (empty_profile 1) <= p_start p) by (cbn [empty_profile p_next]; exact Hst).
  destruct (import_fold (p_svcs p) (empty_profile 1) (p_start p) (p_next p) empty_invi Hst Hn0 Hc Hok) as (q & E1 & E2 & E3).
  exists q. split; [exact E1|]. split; [|now apply invi_agrees]. rewrite (export_explicit_imp _ E2), E3. reflexivity.
Qed.

(** * Histories with services assembled by hand *)

Definition pend_ok (pend : list svc) : Prop := Forall (fun s => s_handle s = 0) pend.

Lemma map_nth_pend f i pend :
  (forall s, s_handle (f s) = s_handle s) -> pend_ok pend -> pend_ok (map_nth f i pend).
Proof.
  intros Hf. revert i; induction pend as [|s r IH]; intros i H; destruct i; cbn [map_nth]; try exact H.
  - inversion H; subst. constructor; [now rewrite Hf|assumption].
  - inversion H; subst. constructor; [assumption|now apply IH].
Qed.

Lemma remove_nth_pend i pend : pend_ok pend -> pend_ok (remove_nth i pend).
Proof.
  revert i; induction pend as [|s r IH]; intros i H; destruct i; cbn [remove_nth]; try exact H.
  - now inversion H.
  - inversion H; subst. constructor; [assumption|now apply IH].
Qed.

(** Whatever was done to a pending service (in whatever order), registering it and every
    other step of a history preserve the invariant; no step raises. *)
Lemma hstep_inv p pend h :
  Inv p -> pend_ok pend ->
  exists q pend', hstep (p, pend) h = (Done q, pend') /\ Inv q /\ pend_ok pend' /\ p_start q = p_start p
                  /\ (hop_no_remove h = true -> tight_p p -> tight_p q).
Proof.
  intros HI HP. destruct h as [pr u|i cd|i j dd|i u|i|o]; cbn [hstep hop_no_remove].
  - exists p, (pend ++ [empty_svc pr u]). split; [reflexivity|]. split; [exact HI|]. split; [|auto].
    apply Forall_app. split; [exact HP|]. now constructor.
  - eexists p, _. split; [reflexivity|]. split; [exact HI|]. split; [|auto]. now apply map_nth_pend.
  - eexists p, _. split; [reflexivity|]. split; [exact HI|]. split; [|auto]. now apply map_nth_pend.
  - eexists p, _. split; [reflexivity|]. split; [exact HI|]. split; [|auto]. now apply map_nth_pend.
  - destruct (nth_error pend i) as [s|] eqn:E.
    + assert (H0 : s_handle s = 0). { unfold pend_ok in HP. rewrite Forall_forall in HP. apply HP. eapply nth_error_In; exact E. }
      eexists _, _. split; [reflexivity|]. split; [now apply add_service_inv|]. split; [now apply remove_nth_pend|].
      split; [reflexivity|]. intros _ Ht. now apply add_service_tight.
    + exists p, pend. split; [reflexivity|]. split; [exact HI|]. split; [exact HP|auto].
  - destruct (step_inv p o HI) as (q & H1 & H2 & H3 & H4). exists q, pend. rewrite H1.
    split; [reflexivity|]. split; [exact H2|]. split; [exact HP|]. split; [exact H3|].
    intros Hn. apply H4. now destruct o.
Qed.

Lemma hrun_inv hs : forall p pend,
  Inv p -> pend_ok pend ->
  exists q pend', hrun (p, pend) hs = (Done q, pend') /\ Inv q /\ p_start q = p_start p
                  /\ (forallb hop_no_remove hs = true -> tight_p p -> tight_p q).
Proof.
  induction hs as [|h r IH]; intros p pend HI HP; cbn [hrun forallb fst snd].
  - exists p, pend. split; [reflexivity|]. split; [exact HI|]. split; [reflexivity|auto].
  - destruct (hstep_inv p pend h HI HP) as (q & pend' & E & H2 & H3 & H4 & H5). rewrite E.
    destruct (IH q pend' H2 H3) as (q' & pend'' & E' & K2 & K3 & K4). exists q', pend''.
    split; [exact E'|]. split; [exact K2|]. split; [congruence|].
    intros Hn Ht. apply andb_true_iff in Hn as [Hn1 Hn2]. apply K4; [exact Hn2|]. now apply H5.
Qed.

Theorem hist_layout start sds hs :
  1 <= start ->
  exists q pend, hrun (build start sds, []) hs = (Done q, pend) /\ layout true q /\ p_start q = start
                 /\ (forallb hop_no_remove hs = true -> layout false q).
Proof.
  intros H. destruct (build_inv start sds H) as (H1 & H2 & H3).
  destruct (hrun_inv hs _ [] H1 ltac:(constructor)) as (q & pend & E & HI & Hs & Ht). exists q, pend.
  split; [exact E|]. split; [now apply inv_layout|]. split; [congruence|].
  intros Hn. apply invs_layout; [exact HI|now apply Ht].
Qed.

(** * Instances of a profile class are independent *)

Lemma start_inv n start : 1 <= start -> Inv (mkP start start n [] [] []) /\ tight_p (mkP start start n [] [] []).
Proof.
  intros H. split; [|reflexivity]. constructor; [constructor|..]; cbn [p_start p_next p_fresh p_svcs p_db p_cmap gchain all_entries all_cmap flat_map].
  - exact H.
  - lia.
  - reflexivity.
  - split; constructor.
  - constructor.
  - reflexivity.
Qed.

Lemma add_service_ids_ge n p s0 :
  n <= p_fresh p -> Forall (fun x => n <= x) (all_ids (p_svcs p)) ->
  n <= p_fresh (add_service p s0) /\ Forall (fun x => n <= x) (all_ids (p_svcs (add_service p s0))).
Proof.
  intros H1 H2. rewrite add_service_eq. cbn [p_fresh p_svcs]. split; [lia|].
  rewrite all_ids_app. apply Forall_app. split; [exact H2|]. cbn [all_ids flat_map]. rewrite app_nil_r, svc_ids_placed.
  apply Forall_forall. intros x Hx. apply Nseq_In in Hx. lia.
Qed.

Lemma build_from_inv n start sds :
  1 <= start ->
  let q := build_from n start sds in
  Inv q /\ tight_p q /\ p_start q = start /\ n <= p_fresh q /\ Forall (fun x => n <= x) (all_ids (p_svcs q)).
Proof.
  intros H. cbv zeta. unfold build_from.
  assert (G : forall p, Inv p /\ tight_p p /\ n <= p_fresh p /\ Forall (fun x => n <= x) (all_ids (p_svcs p)) ->
              let q := fold_left (fun p sd => add_service p (svc_build sd (svc_template sd))) sds p in
              Inv q /\ tight_p q /\ p_start q = p_start p /\ n <= p_fresh q /\ Forall (fun x => n <= x) (all_ids (p_svcs q))).
  { induction sds as [|sd r IH]; intros p (H1 & H2 & H3 & H4); cbn [fold_left]; [auto|].
    pose proof (svc_build_handle sd (svc_template sd)) as H0.
    destruct (add_service_ids_ge n p (svc_build sd (svc_template sd)) H3 H4) as [H5 H6].
    destruct (IH (add_service p (svc_build sd (svc_template sd)))) as (K1 & K2 & K3 & K4 & K5).
    - split; [now apply add_service_inv|]. split; [now apply add_service_tight|]. split; assumption.
    - split; [exact K1|split; [exact K2|split; [rewrite K3; reflexivity|split; assumption]]]. }
  destruct (start_inv n start H) as [I0 T0].
  destruct (G (mkP start start n [] [] [])) as (K1 & K2 & K3 & K4 & K5).
  - split; [exact I0|]. split; [exact T0|]. split; [cbn; lia|constructor].
  - auto.
Qed.

(** A second instance (of the same or of another class), built from the identities the first
    one left unused, has the full layout at its own start handle and shares no object with
    the first instance: the references held by the two attribute databases are disjoint. *)
Theorem instances_independent start1 start2 sds1 sds2 :
  1 <= start1 -> 1 <= start2 ->
  let p1 := build start1 sds1 in
  let p2 := build_from (p_fresh p1) start2 sds2 in
  layout false p1 /\ layout false p2 /\ p_start p2 = start2
  /\ (forall x, In x (all_ids (p_svcs p1)) -> ~ In x (all_ids (p_svcs p2))).
Proof.
  intros H1 H2. cbv zeta. destruct (build_inv start1 sds1 H1) as (I1 & T1 & _).
  destruct (build_from_inv (p_fresh (build start1 sds1)) start2 sds2 H2) as (I2 & T2 & S2 & _ & G2).
  split; [now apply invs_layout|]. split; [now apply invs_layout|]. split; [exact S2|].
  intros x Hx1 Hx2. destruct I1 as [[_ _ _ [_ Hlt]] _ _]. rewrite Forall_forall in Hlt, G2.
  apply Hlt in Hx1. apply G2 in Hx2. lia.
Qed.

(** * The statements of Property.v *)

Theorem build_layout start sds : 1 <= start -> layout false (build start sds) /\ p_start (build start sds) = start.
Proof. intros H. destruct (build_inv start sds H) as (H1 & H2 & H3). split; [now apply invs_layout|exact H3]. Qed.

Theorem ops_layout_partial start sds ops :
  1 <= start -> no_remove ops = true ->
  exists q, run (build start sds) ops = Done q /\ layout false q /\ p_start q = start.
Proof.
  intros H Hn. destruct (build_inv start sds H) as (H1 & H2 & H3).
  destruct (run_inv ops _ H1) as (q & E & HI & Hs & Ht). exists q. split; [exact E|].
  split; [apply invs_layout; [exact HI|now apply Ht]|congruence].
Qed.

Theorem ops_layout_gaps start sds ops :
  1 <= start -> exists q, run (build start sds) ops = Done q /\ layout true q /\ p_start q = start.
Proof.
  intros H. destruct (build_inv start sds H) as (H1 & H2 & H3).
  destruct (run_inv ops _ H1) as (q & E & HI & Hs & Ht). exists q. split; [exact E|].
  split; [now apply inv_layout|congruence].
Qed.

Definition witness_svc (u : N) : sdef :=
  mkSD SKprimary (u16 u) [] [mkCD (u16 0x2A00) [65] 2 None false false None [] []].

Theorem ops_layout_refuted :
  exists start sds ops q, 1 <= start /\ run (build start sds) ops = Done q /\ ~ layout false q.
Proof.
  exists 1, [witness_svc 0x1800; witness_svc 0x1801], [OpRemove 0%nat].
  eexists. split; [lia|]. split; [vm_compute; reflexivity|].
  intros HL. apply layout_contiguous in HL as [HL _]. vm_compute in HL. discriminate.
Qed.

Theorem import_export_reachable start sds ops q :
  1 <= start -> run (build start sds) ops = Done q ->
  exists q', import (export q) = Done q' /\ export q' = export q /\ db_agrees q'.
Proof.
  intros H E. destruct (build_inv start sds H) as (H1 & _ & _).
  destruct (run_inv ops _ H1) as (q0 & E0 & HI & _). rewrite E in E0. injection E0 as <-.
  now apply import_export_id.
Qed.
