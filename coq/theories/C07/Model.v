(** C07/C08 — executable model of the whad GATT server:
    whad/ble/stack/gatt/__init__.py (txlock, GattLayer base handlers, GattServer handlers,
    notify/indicate, on_terminated), the ATT layer's dispatch and response builders
    (whad/ble/stack/att/__init__.py), GattAttributeDataList.append (gatt/attrlist.py), the
    profile lookups (whad/ble/profile/__init__.py) and Characteristic.value's setter
    (profile/characteristic.py), LinkLayer.on_disconnect/on_connect as far as GATT is concerned.

    Every handler is transcribed branch by branch, including the branches that send nothing
    and the Python exceptions that leave a handler (values of type [exn]).  The model is
    parametrised by a [variant]: [V_fixed] is the repaired code that is checked on every run;
    [V_orig] undoes the twelve first-round repairs (main at dca1e6d) and is only used by the
    legacy refutation theorems.  The later repairs (proclock releases its lock in a finally clause,
    failing hooks are answered with Unlikely Error, the hooks called after the answer cannot
    produce a PDU, unknown / unparsable requests are answered by the ATT layer, Prepare Write is
    refused on attributes that are not characteristic values) are modelled in their repaired form
    only, for both variants.
    No proofs in this file. *)
From Coq Require Import List NArith Arith Bool.
From Whad Require Import Lib.Bytes.
Import ListNotations.
Open Scope N_scope.

(** * Attribute database *)

Inductive kind := KPrimary | KSecondary | KInclude | KDecl | KValue | KCccd | KDesc.

Definition kind_eqb (a b : kind) : bool :=
  match a, b with
  | KPrimary, KPrimary | KSecondary, KSecondary | KInclude, KInclude | KDecl, KDecl
  | KValue, KValue | KCccd, KCccd | KDesc, KDesc => true
  | _, _ => false
  end.

(** One attribute of [Profile.__attr_db].
    [a_type]  : packed type UUID (2 or 16 bytes)
    [a_uuid]  : service UUID (services), characteristic UUID (declaration), included service
                UUID (include); unused otherwise
    [a_value] : [Attribute.value] as stored (for a declaration the stored bytes are never read:
                [Characteristic.value] is overridden and returns the value attribute's value)
    [a_end]   : [end_handle] (services, declaration); for value/descriptors the owning
                characteristic's end handle ([attr.characteristic.end_handle])
    [a_props], [a_sec] : properties and security bits of a declaration
                (read: 1 encryption, 2 authentication, 4 authorization; write: the same << 4)
    [a_istart], [a_iend] : include: handles of the included service
    [a_ncb], [a_icb] : declaration: notification / indication callback installed
                ([Some i] = bound method of GATT instance number [i]) *)
Record attr := mkAttr {
  a_handle : N; a_kind : kind; a_type : bytes; a_uuid : bytes; a_value : bytes;
  a_end : N; a_props : N; a_sec : N; a_istart : N; a_iend : N;
  a_ncb : option N; a_icb : option N }.

Definition set_value (a : attr) (v : bytes) : attr :=
  mkAttr (a_handle a) (a_kind a) (a_type a) (a_uuid a) v (a_end a) (a_props a) (a_sec a)
         (a_istart a) (a_iend a) (a_ncb a) (a_icb a).
Definition set_cbs (a : attr) (n i : option N) : attr :=
  mkAttr (a_handle a) (a_kind a) (a_type a) (a_uuid a) (a_value a) (a_end a) (a_props a) (a_sec a)
         (a_istart a) (a_iend a) n i.

Definition db_t := list attr.

Fixpoint lookup (h : N) (db : db_t) : option attr :=
  match db with
  | [] => None
  | a :: r => if a_handle a =? h then Some a else lookup h r
  end.

Fixpoint update (h : N) (f : attr -> attr) (db : db_t) : db_t :=
  match db with
  | [] => []
  | a :: r => if a_handle a =? h then f a :: r else a :: update h f r
  end.

(** [Profile.find_objects_by_range] / [attr_by_type_uuid] + the handlers' sort by handle:
    the database list is kept sorted by handle (see [wf_db]). *)
Definition in_range (s e : N) (a : attr) : bool := (s <=? a_handle a) && (a_handle a <=? e).
Definition by_range (s e : N) (db : db_t) : db_t := filter (in_range s e) db.
Definition by_type (ty : bytes) (s e : N) (db : db_t) : db_t :=
  filter (fun a => bytes_eqb (a_type a) ty && in_range s e a) db.

(** [attr.value] as the handlers see it. *)
Definition attr_value (db : db_t) (a : attr) : bytes :=
  match a_kind a with
  | KDecl => match lookup (a_handle a + 1) db with Some v => a_value v | None => [] end
  | _ => a_value a
  end.

Definition uuid16 (n : N) : bytes := le16 n.

(** loop with [break] at the first element that does not satisfy [f] *)
Fixpoint take_while {A} (f : A -> bool) (l : list A) : list A :=
  match l with [] => [] | x :: r => if f x then x :: take_while f r else [] end.

(** [attr.payload()] *)
Definition payload (a : attr) : bytes :=
  match a_kind a with
  | KDecl => [a_props a] ++ le16 (a_handle a + 1) ++ a_uuid a
  | KPrimary | KSecondary => a_uuid a
  | KInclude => le16 (a_istart a) ++ le16 (a_iend a)
                ++ (if (nlen (a_uuid a)) =? 2 then a_uuid a else [])
  | _ => a_value a
  end.

(** property bits *)
Definition P_READ : N := 2.  Definition P_WNR : N := 4.  Definition P_WRITE : N := 8.
Definition P_NOTIFY : N := 16.  Definition P_INDICATE : N := 32.
Definition has (x bit : N) : bool := negb (N.land x bit =? 0).
Definition readable (c : attr) : bool := has (a_props c) P_READ.
Definition writeable (c : attr) : bool := has (a_props c) P_WRITE || has (a_props c) P_WNR.
(** security bits of [SecurityAccess.int_to_accesses] *)
Definition S_ENC : N := 1.  Definition S_AUTHN : N := 2.  Definition S_AUTHOR : N := 4.
Definition rsec (c : attr) : N := N.land (a_sec c) 15.
Definition wsec (c : attr) : N := N.land (N.shiftr (a_sec c) 4) 15.

(** * ATT PDUs emitted by the server *)

Inductive att_pdu :=
| PError (req h code : N)
| PMtuRsp (mtu : N)
| PFindInfoRsp (fmt : N) (items : list (N * bytes))
| PFindByTypeValueRsp (items : list (N * N))
| PReadByTypeRsp (len : N) (items : list (N * bytes))
| PReadRsp (v : bytes)
| PReadBlobRsp (v : bytes)
| PReadByGroupTypeRsp (len : N) (items : list (N * N * bytes))
| PWriteRsp
| PPrepareWriteRsp (h off : N) (v : bytes)
| PExecuteWriteRsp
| PNotification (h : N) (v : bytes)
| PIndication (h : N) (v : bytes)
| PConfirmation.

Definition enc_hv (x : N * bytes) : bytes := le16 (fst x) ++ snd x.
Definition enc_hh (x : N * N) : bytes := le16 (fst x) ++ le16 (snd x).
Definition enc_hhv (x : N * N * bytes) : bytes := le16 (fst (fst x)) ++ le16 (snd (fst x)) ++ snd x.

(** bytes of [ATT_Hdr()/packet] as scapy builds them *)
Definition encode (p : att_pdu) : bytes :=
  match p with
  | PError req h code => [1; req] ++ le16 h ++ [code]
  | PMtuRsp m => 3 :: le16 m
  | PFindInfoRsp fmt items => [5; fmt] ++ concat (map enc_hv items)
  | PFindByTypeValueRsp items => 7 :: concat (map enc_hh items)
  | PReadByTypeRsp len items => [9; len] ++ concat (map enc_hv items)
  | PReadRsp v => 11 :: v
  | PReadBlobRsp v => 13 :: v
  | PReadByGroupTypeRsp len items => [17; len] ++ concat (map enc_hhv items)
  | PWriteRsp => [19]
  | PPrepareWriteRsp h off v => 23 :: le16 h ++ le16 off ++ v
  | PExecuteWriteRsp => [25]
  | PNotification h v => 27 :: le16 h ++ v
  | PIndication h v => 29 :: le16 h ++ v
  | PConfirmation => [30]
  end.

Definition att_size (p : att_pdu) : N := nlen (encode p).

(** ATT opcodes / error codes used below *)
Definition OP_FIND_INFO : N := 4.   Definition OP_FBTV : N := 6.   Definition OP_RBT : N := 8.
Definition OP_READ : N := 10.  Definition OP_BLOB : N := 12.  Definition OP_RMULT : N := 14.
Definition OP_RBGT : N := 16.  Definition OP_WRITE : N := 18.  Definition OP_WCMD : N := 82.
Definition OP_PREP : N := 22.  Definition OP_EXEC : N := 24.
Definition E_INVALID_HANDLE : N := 1.  Definition E_READ_NP : N := 2.  Definition E_WRITE_NP : N := 3.
Definition E_INVALID_PDU : N := 4.  Definition E_AUTHENT : N := 5.  Definition E_INVALID_OFFSET : N := 7.
Definition E_AUTHOR : N := 8.  Definition E_NOT_FOUND : N := 10.  Definition E_INVALID_LEN : N := 13.
Definition E_ENCRYPTION : N := 15.  Definition E_UNSUPP_GROUP : N := 16.
Definition E_NOT_SUPP : N := 6.  Definition E_UNLIKELY : N := 14.

(** * Requests, hooks, events *)

Inductive att_request :=
| ExchangeMtu (mtu : N)
| FindInfo (s e : N)
| FindByTypeValue (s e ty : N) (v : bytes)
| ReadByType (s e ty : N)
| ReadByType128 (s e : N) (ty : bytes)
| Read (h : N)
| ReadBlob (h off : N)
| ReadMultiple (hs : list N)
| ReadByGroupType (s e ty : N)
| Write (h : N) (v : bytes)
| WriteCmd (h : N) (v : bytes)
| SignedWriteCmd (h : N) (v : bytes)
| PrepareWrite (h off : N) (v : bytes)
| ExecuteWrite (flags : N)
| Indication (h : N) (v : bytes)
| Notification (h : N) (v : bytes)
| Confirmation
| UnknownOp (opcode : N) (body : bytes).
(** [UnknownOp o b] stands for every PDU that none of the constructors above describes: an opcode the
    ATT layer does not know, a known request whose parameters cannot be dissected, and every
    RESPONSE-type PDU a client sends although the server asked nothing (Error Response 0x01, Exchange
    MTU Response 0x03, Read Response 0x0B, ...: the ATT layer forwards them to GATT, which puts the
    first two on the unbounded queue its own procedures read and ignores the others). *)

(** encoded length of the request PDU *)
Definition req_size (r : att_request) : N :=
  match r with
  | ExchangeMtu _ => 3 | FindInfo _ _ => 5 | FindByTypeValue _ _ _ v => 7 + nlen v
  | ReadByType _ _ _ => 7 | ReadByType128 _ _ _ => 21 | Read _ => 3 | ReadBlob _ _ => 5
  | ReadMultiple hs => 1 + 2 * N.of_nat (length hs) | ReadByGroupType _ _ _ => 7
  | Write _ v => 3 + nlen v | WriteCmd _ v => 3 + nlen v | SignedWriteCmd _ v => 3 + nlen v
  | PrepareWrite _ _ v => 5 + nlen v | ExecuteWrite _ => 2
  | Indication _ v => 3 + nlen v | Notification _ v => 3 + nlen v | Confirmation => 1
  | UnknownOp _ b => 1 + nlen b
  end.

(** What a user hook does. [HGattError] carries the (optional) fields of HookReturnGattError. *)
Inductive hook_outcome :=
| HReturn | HOverride (v : bytes) | HAuthent | HAuthor | HDenied | HNotFound
| HGattError (req h err : option N) | HRaiseOther.

(** What a hook that does not raise hands back with a plain [return]: nothing, bytes (of any
    length) or some other object.  The server ignores it (the theorems hold for all of them). *)
Inductive ret_val := RNone | RBytes (v : bytes) | ROther.
Record hook_rets := mkRets {
  rr_read : ret_val; rr_write : ret_val; rr_written : ret_val; rr_written2 : ret_val;
  rr_sub : ret_val; rr_unsub : ret_val; rr_notif : ret_val; rr_indic : ret_val }.
Definition no_rets : hook_rets := mkRets RNone RNone RNone RNone RNone RNone RNone RNone.

(** What a request-time hook may do before it returns / raises: assign the value of a
    characteristic of the profile ([Some (d, v)]: [profile.<characteristic declared at d>.value = v]),
    the same one or another one, subscribed or not. *)
Record hook_acts := mkActs {
  ha_read : option (N * bytes); ha_write : option (N * bytes); ha_written : option (N * bytes);
  ha_written2 : option (N * bytes); ha_sub : option (N * bytes); ha_unsub : option (N * bytes) }.
Definition no_acts : hook_acts := mkActs None None None None None None.

(** One outcome per hook call site of a step, the characteristic updates the request-time hooks
    perform, and the values the hooks return.  ([h_written2] / [ha_written2] / [rr_written2] belonged
    to the second call of the 'written' hook that the code made from its [except HookReturnValue]
    clause; the 'written' hook is now called exactly once per write and these fields are no longer
    consulted.) *)
Record hook_oracle := mkHooks {
  h_read : hook_outcome; h_write : hook_outcome; h_written : hook_outcome; h_written2 : hook_outcome;
  h_sub : hook_outcome; h_unsub : hook_outcome; h_notif : hook_outcome; h_indic : hook_outcome;
  h_acts : hook_acts; h_rets : hook_rets }.

Definition no_hooks : hook_oracle :=
  mkHooks HReturn HReturn HReturn HReturn HReturn HReturn HReturn HReturn no_acts no_rets.

(** Python exceptions leaving a handler or [Characteristic.value]'s setter; [ExHook o] = what a
    notification / indication hook raised towards the application ([HRaiseOther]: its own exception,
    otherwise the HookReturn* exception of [o]); [ExDeadlock] = the thread blocks for ever on a lock
    that is held. *)
Inductive exn := ExAttribute | ExType | ExIndex | ExHook (o : hook_outcome) | ExDeadlock.

Definition exn_of_hook (o : hook_outcome) : exn := ExHook o.

(** * Variants of the code *)
Record variant := mkVariant {
  fx_finally : bool;      (* txlock releases the lock in a finally clause *)
  fx_read_default : bool; (* on_read_request answers for secondary services / includes *)
  fx_blob : bool;         (* on_read_blob_request: permission before offset, default branch, payload length *)
  fx_exec_flags : bool;   (* on_execute_write_request answers INVALID_PDU for unknown flags *)
  fx_fbtv : bool;         (* on_find_by_type_value_request: request.value, readability, payload() *)
  fx_exec_perm : bool;    (* on_execute_write_request checks write permission / security *)
  fx_exec_clear : bool;   (* the queues are cleared after a successful execute (already on main: 625a00a) *)
  fx_sub_record : bool;   (* Write Request on a CCCD records the subscription *)
  fx_disc_term : bool;    (* LinkLayer.on_disconnect calls gatt.on_terminated() *)
  fx_group_desc : bool;   (* on_read_by_group_type_request: descriptors have end = handle *)
  fx_rbt128 : bool;       (* ATTLayer.on_read_by_type_request_128bit forwards a GattReadByTypeRequest *)
  fx_write_default : bool }. (* on_write_request answers WRITE_NOT_PERMITTED for the other attribute kinds *)

Definition V_orig : variant :=
  mkVariant false false false false false false true false false false false false.
Definition V_fixed : variant :=
  mkVariant true true true true true true true true true true true true.

(** * Server state *)

(** One GattServer/ATT instance (one per connection). *)
Record inst := mkInst {
  i_id : N; i_mtu : N; i_tx_locked : bool; i_proc_locked : bool;
  i_queues : list (N * list (N * bytes));   (* __write_queues, insertion order *)
  i_subscribed : list N }.                  (* __subscribed_characs (declaration handles) *)

Definition new_inst (id : N) : inst := mkInst id 23 false false [] [].

Record state := mkState {
  st_db : db_t; st_enc : bool; st_auth : bool; st_connected : bool;
  st_cur : inst; st_dead : list inst }.

Definition tx_locked (st : state) : bool := i_tx_locked (st_cur st).
Definition mtu_of (st : state) : N := i_mtu (st_cur st).

Definition with_db (st : state) (db : db_t) : state :=
  mkState db (st_enc st) (st_auth st) (st_connected st) (st_cur st) (st_dead st).
Definition with_cur (st : state) (i : inst) : state :=
  mkState (st_db st) (st_enc st) (st_auth st) (st_connected st) i (st_dead st).
Definition with_lock (st : state) (b : bool) : state :=
  let i := st_cur st in
  with_cur st (mkInst (i_id i) (i_mtu i) b (i_proc_locked i) (i_queues i) (i_subscribed i)).
Definition with_proc (i : inst) (b : bool) : inst :=
  mkInst (i_id i) (i_mtu i) (i_tx_locked i) b (i_queues i) (i_subscribed i).
Definition with_mtu (st : state) (m : N) : state :=
  let i := st_cur st in
  with_cur st (mkInst (i_id i) m (i_tx_locked i) (i_proc_locked i) (i_queues i) (i_subscribed i)).
Definition with_queues (st : state) (q : list (N * list (N * bytes))) : state :=
  let i := st_cur st in
  with_cur st (mkInst (i_id i) (i_mtu i) (i_tx_locked i) (i_proc_locked i) q (i_subscribed i)).
Definition with_subs (st : state) (s : list N) : state :=
  let i := st_cur st in
  with_cur st (mkInst (i_id i) (i_mtu i) (i_tx_locked i) (i_proc_locked i) (i_queues i) s).

Definition init_state (db : db_t) : state := mkState db false false true (new_inst 0) [].

(** Result of a handler: new state, PDUs sent so far, and the exception that left it (if any). *)
Record hres := mkRes { r_state : state; r_out : list att_pdu; r_exc : option exn }.
Definition done (st : state) (out : list att_pdu) : hres := mkRes st out None.
Definition raise (st : state) (out : list att_pdu) (e : exn) : hres := mkRes st out (Some e).
Definition err (st : state) (req h code : N) : hres := done st [PError req h code].

(** * Permission model of the code (security requirement vs link state) *)

(** the three [check_security_property] tests, in the order of the handlers;
    [None] = passed, [Some code] = error code sent *)
Definition sec_check (st : state) (bits : N) : option N :=
  if has bits S_AUTHN && negb (st_auth st) then Some E_AUTHENT
  else if has bits S_ENC && negb (st_enc st) then Some E_ENCRYPTION
  else if has bits S_AUTHOR then Some E_AUTHOR
  else None.

(** error answer for the HookReturn* exceptions; [op_author] is the opcode the code uses for
    HookReturnAuthorRequired (READ_REQUEST on the blob and write-request paths) *)
Definition hook_error (st : state) (op op_author h : N) (o : hook_outcome) : hres :=
  match o with
  | HAuthent => err st op h E_AUTHENT
  | HAuthor => err st op_author h E_AUTHOR
  | HDenied => err st op h E_READ_NP
  | HNotFound => err st op h E_NOT_FOUND
  | HGattError r hh e =>
      err st (match r with Some x => x | None => OP_READ end)
             (match hh with Some x => x | None => h end)
             (match e with Some x => x | None => E_NOT_FOUND end)
  | HRaiseOther => err st op h E_UNLIKELY   (* call_hook: HookFailure -> Unlikely Error *)
  | _ => raise st [] (exn_of_hook o)        (* HReturn / HOverride: handled by the callers *)
  end.

(** access check of the handlers for the characteristic whose VALUE attribute is at [h]:
    [None] = access allowed, [Some code] = error code answered ([nf] when there is no attribute
    at [h - 1]: the IndexError path) *)
Definition read_denied (st : state) (h : N) : option N :=
  match lookup (h - 1) (st_db st) with
  | None => Some E_NOT_FOUND
  | Some c => match sec_check st (rsec c) with
              | Some code => Some code
              | None => if readable c then None else Some E_READ_NP
              end
  end.
Definition write_denied (st : state) (h nf : N) : option N :=
  match lookup (h - 1) (st_db st) with
  | None => Some nf
  | Some c => match sec_check st (wsec c) with
              | Some code => Some code
              | None => if writeable c then None else Some E_WRITE_NP
              end
  end.

Definition trunc (n : N) (v : bytes) : bytes := firstn (N.to_nat n) v.
Definition bslice (off n : N) (v : bytes) : bytes := firstn (N.to_nat n) (skipn (N.to_nat off) v).


(** * Characteristic updates made by the application or by a hook *)

Definition un_le16_2 (b : bytes) : option N :=
  match b with [x; y] => Some (x + 256 * y) | _ => None end.

Definition remove_sub (h : N) (l : list N) : list N :=
  (* list.remove: first occurrence *)
  (fix go (l : list N) := match l with [] => [] | x :: r => if x =? h then r else x :: go r end) l.
Definition add_sub (h : N) (l : list N) : list N :=
  if existsb (N.eqb h) l then l else l ++ [h].

(** owning declaration of a descriptor = the nearest declaration below it *)
Fixpoint owner_decl (h : N) (db : db_t) (cur : option N) : option N :=
  match db with
  | [] => None
  | a :: r => if a_handle a =? h then cur
              else owner_decl h r (match a_kind a with KDecl => Some (a_handle a) | _ => cur end)
  end.

Definition find_inst (st : state) (id : N) : option inst :=
  if i_id (st_cur st) =? id then Some (st_cur st)
  else find (fun i => i_id i =? id) (st_dead st).

(** [GattServer.notify] / [indicate] of instance [id] (under proclock, no txlock); proclock
    releases the procedure lock in a finally clause: the hook's exception leaves the state as it was *)
Definition notify_via (st : state) (id : N) (o : hook_outcome) (mk : N -> bytes -> att_pdu)
           (vh : N) (val : bytes) : hres :=
  match find_inst st id with
  | None => done st []
  | Some i =>
      if i_proc_locked i then raise st [] ExDeadlock
      else
        let m3 := i_mtu i - 3 in
        match o with
        | HReturn => done st [mk vh (trunc m3 val)]
        | HOverride x => done st [mk vh (trunc m3 x)]
        | _ => raise st [] (exn_of_hook o)
        end
  end.

(** [Characteristic.get_client_config]: the first CCCD among the characteristic's descriptors
    (the object is identified by its handle) and its configuration *)
Definition cccd_handle (db : db_t) (d : N) : option N :=
  option_map a_handle
    (find (fun a => kind_eqb (a_kind a) KCccd
                    && match owner_decl (a_handle a) db None with Some o => o =? d | None => false end) db).
Definition cfg_of (db : db_t) (d : N) : option N :=
  match cccd_handle db d with
  | Some hc => match lookup hc db with Some x => un_le16_2 (a_value x) | None => None end
  | None => None
  end.

(** [Characteristic.value = v] *)
Definition app_set (st : state) (d : N) (val : bytes) (hk : hook_oracle) : hres :=
  match lookup d (st_db st) with
  | Some c =>
      match a_kind c with
      | KDecl =>
          (* self.__value.value = value : the characteristic's value attribute *)
          let db1 := match lookup (d + 1) (st_db st) with
                     | Some v => if kind_eqb (a_kind v) KValue
                                 then update (d + 1) (fun a => set_value a val) (st_db st) else st_db st
                     | None => st_db st
                     end in
          let st1 := with_db st db1 in
          let cfg := cfg_of db1 d in
          let is := fun n => match cfg with Some k => k =? n | None => false end in
          if has (a_props c) P_NOTIFY && is 1 &&
             match a_ncb c with Some _ => true | None => false end then
            match a_ncb c with
            | Some id => notify_via st1 id (h_notif hk) PNotification (d + 1) val
            | None => done st1 []
            end
          else if has (a_props c) P_INDICATE && is 2 &&
                  match a_icb c with Some _ => true | None => false end then
            match a_icb c with
            | Some id => notify_via st1 id (h_indic hk) PIndication (d + 1) val
            | None => done st1 []
            end
          else done st1 []
      | _ => done st []
      end
  | None => done st []
  end.

(** A hook call site: the hook first performs its characteristic update (if any) -- which may
    send a notification / indication right in the middle of the request, may block for ever on
    the procedure lock ([HHang]) and lets the exception of the notification hook propagate --
    then returns or raises. *)
Inductive hook_result := HOut (o : hook_outcome) | HHang.

Definition hook_act (st : state) (hk : hook_oracle) (act : option (N * bytes)) (o : hook_outcome)
  : state * list att_pdu * hook_result :=
  match act with
  | None => (st, [], HOut o)
  | Some (d, v) =>
      let r := app_set st d v hk in
      (r_state r, r_out r,
       match r_exc r with
       | None => HOut o
       | Some (ExHook o') => HOut o'
       | Some _ => HHang
       end)
  end.

Definition prepend (pd : list att_pdu) (r : hres) : hres := mkRes (r_state r) (pd ++ r_out r) (r_exc r).

(** [call_informative_hook]: a hook called once the request has been processed and answered
    ('written', 'subscribed', 'unsubscribed'); whatever it raises is ignored *)
Definition post_hook (st : state) (hk : hook_oracle) (act : option (N * bytes)) (o : hook_outcome)
           (out : list att_pdu) : hres :=
  let '(st1, pd, res) := hook_act st hk act o in
  match res with
  | HHang => raise st1 (out ++ pd) ExDeadlock
  | HOut _ => done st1 (out ++ pd)
  end.

Definition val_at (st : state) (h : N) : bytes :=
  match lookup h (st_db st) with Some a => a_value a | None => [] end.

(** * Handlers (bodies, without the lock) *)

(** [on_find_info_request] *)
Definition h_find_info (st : state) (s e : N) : hres :=
  if (s =? 0) || (e <? s) then err st OP_FIND_INFO s E_INVALID_HANDLE
  else match by_range s e (st_db st) with
  | [] => err st OP_FIND_INFO s E_NOT_FOUND
  | (a0 :: _) as attrs =>
      let usz := nlen (a_type a0) in
      let fmt := if usz =? 2 then 1 else 2 in
      let isz := usz + 2 in
      let maxn := (mtu_of st - 2) / isz in
      (* items of the first item's UUID size; the loop stops at the first other size *)
      let items := map (fun a => (a_handle a, a_type a))
                       (take_while (fun a => nlen (a_type a) =? usz) (firstn (N.to_nat maxn) attrs)) in
      done st [PFindInfoRsp fmt items]
  end.

(** [on_find_by_type_value_request]: the matching loop. [None] = AttributeError. *)
Fixpoint fbtv_match (v : variant) (st : state) (ty v_req : bytes) (attrs : db_t) : option (list (N * N)) :=
  match attrs with
  | [] => Some []
  | a :: r =>
      if negb (bytes_eqb ty (a_type a)) then fbtv_match v st ty v_req r
      else
        let rest := fbtv_match v st ty v_req r in
        let add (b : bool) (item : N * N) :=
          match rest with Some l => Some (if b then item :: l else l) | None => None end in
        match a_kind a with
        | KValue =>
            if fx_fbtv v then
              add (match read_denied st (a_handle a) with None => bytes_eqb (a_value a) v_req | Some _ => false end)
                  (a_handle a, a_end a)
            else None
        | KCccd | KDesc =>
            if fx_fbtv v then add (bytes_eqb (a_value a) v_req) (a_handle a, a_end a) else None
        | KPrimary | KSecondary => add (bytes_eqb (a_value a) v_req) (a_handle a, a_end a)
        | KDecl =>
            add (bytes_eqb (if fx_fbtv v then payload a else attr_value (st_db st) a) v_req)
                (a_handle a, a_handle a)
        | KInclude =>
            add (bytes_eqb (if fx_fbtv v then payload a else a_value a) v_req) (a_handle a, a_handle a)
        end
  end.

Definition h_fbtv (v : variant) (st : state) (s e ty : N) (v_req : bytes) : hres :=
  if (s =? 0) || (e <? s) then err st OP_FBTV s E_INVALID_HANDLE
  else match fbtv_match v st (uuid16 ty) v_req (by_range s e (st_db st)) with
  | None => raise st [] ExAttribute
  | Some [] => err st OP_FBTV s E_NOT_FOUND
  | Some items =>
      let maxn := (mtu_of st - 1) / 4 in
      done st [PFindByTypeValueRsp (firstn (N.to_nat maxn) items)]
  end.

(** read hook + answer on a readable characteristic value *)
Definition read_value_answer (st : state) (hk : hook_oracle) (op op_author h : N)
           (mk : bytes -> att_pdu) (normal : state -> bytes) : hres :=
  let '(st1, pd, res) := hook_act st hk (ha_read (h_acts hk)) (h_read hk) in
  match res with
  | HHang => raise st1 pd ExDeadlock
  | HOut HReturn => done st1 (pd ++ [mk (normal st1)])
  | HOut (HOverride x) => done st1 (pd ++ [mk (trunc (mtu_of st - 1) x)])
  | HOut o => prepend pd (hook_error st1 op op_author h o)
  end.

(** [on_read_request] *)
Definition h_read_req (v : variant) (st : state) (hk : hook_oracle) (h : N) : hres :=
  if h =? 0 then err st OP_READ h E_INVALID_HANDLE
  else
    let m1 := mtu_of st - 1 in
    match lookup h (st_db st) with
    | None => err st OP_READ h E_NOT_FOUND
    | Some a =>
        match a_kind a with
        | KValue =>
            match read_denied st h with
            | Some code => err st OP_READ h code
            | None =>
                read_value_answer st hk OP_READ OP_READ h PReadRsp (fun s => trunc m1 (val_at s h))
            end
        | KDecl => done st [PReadRsp (payload a)]
        | KPrimary => done st [PReadRsp (payload a)]
        | KCccd | KDesc => done st [PReadRsp (trunc m1 (a_value a))]
        | KSecondary | KInclude =>
            if fx_read_default v then done st [PReadRsp (trunc m1 (payload a))] else done st []
        end
    end.

(** [on_read_blob_request] *)
Definition blob_value_branch (st : state) (hk : hook_oracle) (h off : N) : hres :=
  let m1 := mtu_of st - 1 in
  (* the offset was compared with the length BEFORE the hook ran; the slice is taken after it *)
  read_value_answer st hk OP_BLOB OP_READ h PReadBlobRsp (fun s => bslice off m1 (val_at s h)).

Definition h_read_blob (v : variant) (st : state) (hk : hook_oracle) (h off : N) : hres :=
  if h =? 0 then err st OP_BLOB h E_INVALID_HANDLE
  else
    let m1 := mtu_of st - 1 in
    match lookup h (st_db st) with
    | None => err st OP_BLOB h E_NOT_FOUND
    | Some a =>
        if fx_blob v then
          (* repaired: permission first, then the offset against the right length *)
          match (match a_kind a with KValue => read_denied st h | _ => None end) with
          | Some code => err st OP_BLOB h code
          | None =>
              let val := match a_kind a with KValue | KCccd | KDesc => a_value a | _ => payload a end in
              if off <? nlen val then
                match a_kind a with
                | KValue => blob_value_branch st hk h off
                | _ => done st [PReadBlobRsp (bslice off m1 val)]
                end
              else if off =? nlen val then done st [PReadBlobRsp []]
              else err st OP_BLOB h E_INVALID_OFFSET
          end
        else
          let val := attr_value (st_db st) a in
          if off <? nlen val then
            match a_kind a with
            | KValue =>
                match read_denied st h with
                | Some code => err st OP_BLOB h code
                | None => blob_value_branch st hk h off
                end
            | KCccd | KDesc => done st [PReadBlobRsp (bslice off m1 (a_value a))]
            | _ => done st []
            end
          else if off =? nlen val then done st [PReadBlobRsp []]
          else err st OP_BLOB h E_INVALID_OFFSET
    end.

(** CCCD handling shared by write request / write command.
    [record] : append to [__subscribed_characs] on subscription. *)
Definition cccd_effects (st : state) (hk : hook_oracle) (h : N) (newv : bytes) (record : bool)
           (out : list att_pdu) : hres :=
  let db1 := update h (fun a => set_value a newv) (st_db st) in
  let st1 := with_db st db1 in
  match un_le16_2 newv, owner_decl h (st_db st) None with
  | Some cfg, Some d =>
      let me := Some (i_id (st_cur st)) in
      if cfg =? 1 then
        let st2 := with_db st1 (update d (fun c => set_cbs c me (a_icb c)) db1) in
        let st3 := if record then with_subs st2 (add_sub d (i_subscribed (st_cur st2))) else st2 in
        post_hook st3 hk (ha_sub (h_acts hk)) (h_sub hk) out
      else if cfg =? 2 then
        let st2 := with_db st1 (update d (fun c => set_cbs c (a_ncb c) me) db1) in
        let st3 := if record then with_subs st2 (add_sub d (i_subscribed (st_cur st2))) else st2 in
        post_hook st3 hk (ha_sub (h_acts hk)) (h_sub hk) out
      else if cfg =? 0 then
        let st2 := with_db st1 (update d (fun c => set_cbs c None None) db1) in
        let st3 := with_subs st2 (remove_sub d (i_subscribed (st_cur st2))) in
        post_hook st3 hk (ha_unsub (h_acts hk)) (h_unsub hk) out
      else done st1 out
  | _, _ => raise st1 out ExAttribute   (* struct.error / no characteristic: excluded by wf_db *)
  end.

(** [on_write_request] / [on_write_command] on a characteristic value, after the checks.
    [rsp] = [[PWriteRsp]] for a request, [[]] for a command. *)
Definition write_value (st : state) (hk : hook_oracle) (op op_author h : N)
           (val : bytes) (rsp : list att_pdu) : hres :=
  let store (s : state) (x : bytes) := with_db s (update h (fun a => set_value a x) (st_db s)) in
  let '(st1, pd1, res1) := hook_act st hk (ha_write (h_acts hk)) (h_write hk) in
  match res1 with
  | HHang => raise st1 pd1 ExDeadlock
  | HOut HReturn =>
      (* value stored, response sent, then the 'written' hook *)
      post_hook (store st1 val) hk (ha_written (h_acts hk)) (h_written hk) (pd1 ++ rsp)
  | HOut (HOverride x) =>
      (* except HookReturnValue: store, respond, call 'written' *)
      post_hook (store st1 x) hk (ha_written (h_acts hk)) (h_written hk) (pd1 ++ rsp)
  | HOut HRaiseOther =>
      (* HookFailure: Unlikely Error for a request, nothing for a command; the value is not written *)
      match rsp with
      | [] => done st1 pd1
      | _ => prepend pd1 (hook_error st1 op op_author h HRaiseOther)
      end
  | HOut o => prepend pd1 (hook_error st1 op op_author h o)
  end.

Definition h_write_gen (v : variant) (st : state) (hk : hook_oracle) (is_cmd : bool) (h : N) (val : bytes) : hres :=
  let op := if is_cmd then OP_WCMD else OP_WRITE in
  let op_author := if is_cmd then OP_WCMD else OP_READ in
  let rsp := if is_cmd then [] else [PWriteRsp] in
  if h =? 0 then err st op h E_INVALID_HANDLE
  else match lookup h (st_db st) with
  | None => err st op h E_NOT_FOUND
  | Some a =>
      match a_kind a with
      | KValue =>
          match write_denied st h E_NOT_FOUND with
          | Some code => err st op h code
          | None => write_value st hk op op_author h val rsp
          end
      | KCccd =>
          if (nlen val <=? 2) && (negb is_cmd || negb (bytes_eqb val (a_value a))) then
            let newv := val ++ skipn (length val) (a_value a) in
            cccd_effects st hk h newv (is_cmd || fx_sub_record v) rsp
          else err st op h E_INVALID_LEN
      | _ => if fx_write_default v && negb is_cmd then err st op h E_WRITE_NP else done st []
      end
  end.

(** [on_prepare_write_request] *)
Fixpoint queue_add (h off : N) (val : bytes) (q : list (N * list (N * bytes))) :=
  match q with
  | [] => [(h, [(off, val)])]
  | (h', l) :: r => if h' =? h then (h', l ++ [(off, val)]) :: r else (h', l) :: queue_add h off val r
  end.

Definition h_prepare (st : state) (h off : N) (val : bytes) : hres :=
  match lookup h (st_db st) with
  | None => err st OP_PREP h E_INVALID_HANDLE
  | Some a =>
      match a_kind a with
      | KValue => done (with_queues st (queue_add h off val (i_queues (st_cur st)))) [PPrepareWriteRsp h off val]
      | KCccd => err st OP_PREP h E_NOT_SUPP     (* writable, but not through the queue *)
      | _ => err st OP_PREP h E_WRITE_NP         (* same answer as for a Write Request *)
      end
  end.

(** [on_execute_write_request] *)
Definition splice (old : bytes) (off : N) (val : bytes) : bytes :=
  let o := N.to_nat off in
  if (off + nlen val <=? nlen old)
  then firstn o old ++ val ++ skipn (o + length val) old
  else firstn o old ++ val.

(** apply the writes queued for one characteristic value, stopping at the first offset beyond
    the current length: (database so far, all applied?) *)
Fixpoint apply_writes (h : N) (ws : list (N * bytes)) (db : db_t) : db_t * bool :=
  match ws with
  | [] => (db, true)
  | (off, val) :: r =>
      match lookup h db with
      | None => (db, true)
      | Some a =>
          if nlen (a_value a) <? off then (db, false)
          else apply_writes h r (update h (fun x => set_value x (splice (a_value a) off val)) db)
      end
  end.

Fixpoint exec_loop (v : variant) (st : state) (q : list (N * list (N * bytes))) : hres + state :=
  (* inl = finished early (error sent / exception), inr = loop completed *)
  match q with
  | [] => inr st
  | (h, ws) :: r =>
      match lookup h (st_db st) with
      | None =>
          (* queues cleared; the original code then reads request.handle, which does not exist *)
          if fx_exec_perm v then inl (err (with_queues st []) OP_EXEC h E_INVALID_HANDLE)
          else inl (raise (with_queues st []) [] ExAttribute)
      | Some a =>
          match a_kind a with
          | KValue =>
              match (if fx_exec_perm v then write_denied st h E_INVALID_HANDLE else None) with
              | Some code => inl (err (with_queues st []) OP_EXEC h code)
              | None =>
                  let '(db', ok) := apply_writes h ws (st_db st) in
                  if ok then exec_loop v (with_db st db') r
                  else inl (err (with_queues (with_db st db') []) OP_EXEC h E_INVALID_OFFSET)
              end
          | _ => exec_loop v st r
          end
      end
  end.

Definition h_execute (v : variant) (st : state) (flags : N) : hres :=
  if flags =? 0 then done (with_queues st []) [PExecuteWriteRsp]
  else if flags =? 1 then
    match exec_loop v st (i_queues (st_cur st)) with
    | inl r => r
    | inr st' => done (if fx_exec_clear v then with_queues st' [] else st') [PExecuteWriteRsp]
    end
  else if fx_exec_flags v then err st OP_EXEC 0 E_INVALID_PDU
  else done st [].

(** [on_read_by_type_request] ([ty] = packed type UUID of the request) *)
Definition h_read_by_type (st : state) (s e : N) (ty : bytes) : hres :=
  if (s =? 0) || (e <? s) then err st OP_RBT s E_INVALID_HANDLE
  else match by_type ty s e (st_db st) with
  | [] => err st OP_RBT s E_NOT_FOUND
  | (a0 :: _) as attrs =>
      let m := mtu_of st in
      if bytes_eqb ty (uuid16 10243) then (* 0x2803 *)
        let usz := nlen (a_uuid a0) in
        let isz := usz + 5 in
        let maxn := (m - 2) / isz in
        let items := map (fun a => (a_handle a, payload a))
                         (filter (fun a => kind_eqb (a_kind a) KDecl)
                                 (take_while (fun a => nlen (a_uuid a) =? usz) (firstn (N.to_nat maxn) attrs))) in
        match items with [] => err st OP_RBT s E_NOT_FOUND | _ => done st [PReadByTypeRsp isz items] end
      else if bytes_eqb ty (uuid16 10242) then (* 0x2802 *)
        let isz := 8 in
        let maxn := (m - 2) / isz in
        (* GattAttributeDataList.append drops the 6-byte items of 128-bit included services *)
        let items := map (fun a => (a_handle a, payload a))
                         (filter (fun a => (nlen (a_uuid a) =? 2) && kind_eqb (a_kind a) KInclude)
                                 (firstn (N.to_nat maxn) attrs)) in
        match items with [] => err st OP_RBT s E_NOT_FOUND | _ => done st [PReadByTypeRsp isz items] end
      else err st OP_RBT s E_NOT_FOUND
  end.

(** [on_read_by_group_type_request] *)
Definition SUPPORTED_GROUPS : list N := [10240; 10241; 10242; 10243; 10496; 10497; 10498; 10499; 10500; 10501].

(** [.uuid] of the attribute classes *)
Definition obj_uuid (a : attr) : bytes :=
  match a_kind a with
  | KPrimary | KSecondary | KDecl => a_uuid a
  | _ => a_type a
  end.

Fixpoint group_items (v : variant) (usz : N) (attrs : db_t) : option (list (N * N * bytes)) :=
  match attrs with
  | [] => Some []
  | a :: r =>
      let endh := match a_kind a with
                  | KPrimary | KSecondary | KDecl => Some (a_end a)
                  | KInclude => Some (a_handle a)
                  | _ => if fx_group_desc v then Some (a_handle a) else None
                  end in
      match endh with
      | None => None      (* AttributeError: no end_handle *)
      | Some eh =>
          if nlen (obj_uuid a) =? usz then
            match group_items v usz r with
            | Some l => Some ((a_handle a, eh, obj_uuid a) :: l)
            | None => None
            end
          else Some []    (* break *)
      end
  end.

Definition h_read_by_group (v : variant) (st : state) (s e ty : N) : hres :=
  if (s =? 0) || (e <? s) then err st OP_RBGT s E_INVALID_HANDLE
  else if negb (existsb (N.eqb ty) SUPPORTED_GROUPS) then err st OP_RBGT s E_UNSUPP_GROUP
  else match by_type (uuid16 ty) s e (st_db st) with
  | [] => err st OP_RBGT s E_NOT_FOUND
  | (a0 :: _) as attrs =>
      let usz := nlen (obj_uuid a0) in
      let isz := usz + 4 in
      let maxn := (mtu_of st - 2) / isz in
      match group_items v usz (firstn (N.to_nat maxn) attrs) with
      | None => raise st [] ExAttribute
      | Some items => done st [PReadByGroupTypeRsp isz items]
      end
  end.

(** [on_exch_mtu_request] *)
Definition h_mtu (st : state) (m : N) : hres :=
  let st1 := if 23 <=? m then with_mtu st m else st in
  done st1 [PMtuRsp (mtu_of st1)].

(** * txlock and dispatch *)

(** [txlock(f)]: acquire, call, release (in a finally clause when repaired). *)
Definition locked (v : variant) (st : state) (body : state -> hres) : hres :=
  if tx_locked st then raise st [] ExDeadlock
  else
    let r := body (with_lock st true) in
    match r_exc r with
    | None => mkRes (with_lock (r_state r) false) (r_out r) None
    | Some ExDeadlock => mkRes (r_state r) (r_out r) (Some ExDeadlock)   (* blocked inside: never returns *)
    | Some e => mkRes (with_lock (r_state r) (negb (fx_finally v))) (r_out r) (Some e)
    end.

(** [ATTLayer.on_packet]'s last branch: a PDU no other branch took is a request when its opcode is
    even and has the command flag (0x40) cleared, Handle Value Confirmation (0x1E) excepted *)
Definition req_opcode (o : N) : bool := (N.land o 65 =? 0) && negb (o =? 30).
Definition KNOWN_REQUESTS : list N := [2; 4; 6; 8; 10; 12; 14; 16; 18; 22; 24].
(** answered by the ATT layer itself (no GATT lock involved): Invalid PDU for a known request whose
    parameters scapy could not dissect, Request Not Supported for an unknown one *)
Definition unparsed (st : state) (o : N) : hres :=
  if req_opcode o then
    err st o 0 (if existsb (N.eqb o) KNOWN_REQUESTS then E_INVALID_PDU else E_NOT_SUPP)
  else done st [].

(** One PDU arriving from the client: ATTLayer.on_packet -> GattServer handler. *)
Definition handle (v : variant) (st : state) (r : att_request) (hk : hook_oracle) : hres :=
  match r with
  | ExchangeMtu m => locked v st (fun s => h_mtu s m)
  | FindInfo s e => locked v st (fun x => h_find_info x s e)
  | FindByTypeValue s e ty val => locked v st (fun x => h_fbtv v x s e ty val)
  | ReadByType s e ty => locked v st (fun x => h_read_by_type x s e (uuid16 ty))
  | ReadByType128 s e ty =>
      if fx_rbt128 v then locked v st (fun x => h_read_by_type x s e ty)
      else raise st [] ExType           (* Layer.send() called with five positional arguments *)
  | Read h => locked v st (fun x => h_read_req v x hk h)
  | ReadBlob h off => locked v st (fun x => h_read_blob v x hk h off)
  | ReadMultiple hs =>
      match hs with
      | [] => unparsed st OP_RMULT       (* scapy: no Read Multiple layer for an empty body *)
      | h :: _ => locked v st (fun x => err x OP_RMULT h E_INVALID_HANDLE)
      end
  | ReadByGroupType s e ty => locked v st (fun x => h_read_by_group v x s e ty)
  | Write h val => locked v st (fun x => h_write_gen v x hk false h val)
  | WriteCmd h val => locked v st (fun x => h_write_gen v x hk true h val)
  | SignedWriteCmd _ _ => done st []
  | PrepareWrite h off val => locked v st (fun x => h_prepare x h off val)
  | ExecuteWrite f => locked v st (fun x => h_execute v x f)
  | Indication _ _ => locked v st (fun x => done x [PConfirmation])
  | Notification _ _ => done st []
  | Confirmation => done st []
  | UnknownOp o _ => unparsed st o   (* unknown opcode, or known opcode with undissectable parameters *)
  end.

(** The function of the design: state and PDUs of one request. *)
Definition server_step_v (v : variant) (st : state) (r : att_request) (hk : hook_oracle) : state * list att_pdu :=
  let x := handle v st r hk in (r_state x, r_out x).
Definition server_step := server_step_v V_fixed.

(** * Application / link events (C08 histories) *)

Inductive event :=
| EvReq (r : att_request) (hk : hook_oracle)
| EvSec (enc auth : bool)               (* link security state changes *)
| EvAppSet (decl : N) (v : bytes) (hk : hook_oracle)   (* application: charac.value = v *)
| EvDisc                                 (* LinkLayer.on_disconnect *)
| EvConn.                                (* LinkLayer.on_connect: fresh L2CAP/ATT/GATT instances *)

(** [GattServer.on_terminated] *)
Definition terminated (st : state) : state :=
  let subs := i_subscribed (st_cur st) in
  let db1 := map (fun a => if existsb (N.eqb (a_handle a)) subs then set_cbs a None None else a) (st_db st) in
  with_subs (with_db st db1) [].

Definition disconnect (v : variant) (st : state) : state :=
  if st_connected st then
    let st1 := if fx_disc_term v then terminated st else st in
    mkState (st_db st1) false false false (st_cur st1) (st_dead st1)
  else st.

Definition connect (st : state) : state :=
  if st_connected st then st
  else
    let old := st_cur st in
    mkState (st_db st) false false true (new_inst (i_id old + 1)) (old :: st_dead st).

Definition step (v : variant) (st : state) (ev : event) : hres :=
  match ev with
  | EvReq r hk => if st_connected st then handle v st r hk else done st []
  | EvSec e a => done (if st_connected st
                       then mkState (st_db st) e a true (st_cur st) (st_dead st) else st) []
  | EvAppSet d val hk => app_set st d val hk
  | EvDisc => done (disconnect v st) []
  | EvConn => done (connect st) []
  end.

(** run a history, collecting the PDUs of every step *)
Fixpoint run (v : variant) (st : state) (evs : list event) : state * list (list att_pdu) :=
  match evs with
  | [] => (st, [])
  | ev :: r => let x := step v st ev in
               let '(st', outs) := run v (r_state x) r in (st', r_out x :: outs)
  end.

(** * Well-formedness *)

Fixpoint sorted_from (lo : N) (db : db_t) : bool :=
  match db with
  | [] => true
  | a :: r => (lo <? a_handle a) && (a_handle a <=? 65535) && sorted_from (a_handle a) r
  end.

Definition uuid_len_ok (b : bytes) : bool := (nlen b =? 2) || (nlen b =? 16).

(** an attribute on its own *)
Definition wf_attr (a : attr) : bool :=
  uuid_len_ok (a_type a) && wf_bytes (a_type a) && wf_bytes (a_value a) && wf_bytes (a_uuid a)
  && (a_end a <=? 65535) && (a_istart a <=? 65535) && (a_iend a <=? 65535)
  && match a_kind a with
     | KPrimary => bytes_eqb (a_type a) (uuid16 10240) && uuid_len_ok (a_uuid a) && (a_handle a <=? a_end a)
     | KSecondary => bytes_eqb (a_type a) (uuid16 10241) && uuid_len_ok (a_uuid a) && (a_handle a <=? a_end a)
     | KInclude => bytes_eqb (a_type a) (uuid16 10242) && uuid_len_ok (a_uuid a)
     | KDecl => bytes_eqb (a_type a) (uuid16 10243) && uuid_len_ok (a_uuid a) && (a_props a <? 256)
                && (a_sec a <? 256) && (a_handle a <? a_end a)
     | KValue => negb (bytes_eqb (a_type a) (uuid16 10240)) && negb (bytes_eqb (a_type a) (uuid16 10241))
                 && negb (bytes_eqb (a_type a) (uuid16 10242)) && negb (bytes_eqb (a_type a) (uuid16 10243))
     | KCccd => bytes_eqb (a_type a) (uuid16 10498) && (nlen (a_value a) =? 2)
     | KDesc => negb (bytes_eqb (a_type a) (uuid16 10240)) && negb (bytes_eqb (a_type a) (uuid16 10241))
                && negb (bytes_eqb (a_type a) (uuid16 10242)) && negb (bytes_eqb (a_type a) (uuid16 10243))
                && negb (bytes_eqb (a_type a) (uuid16 10498))
     end.

(** structure: a declaration is immediately followed by its value attribute (handle + 1, type =
    the characteristic's UUID); descriptors only after a characteristic value, at most one CCCD
    per characteristic.
    [pend] = the declaration whose value attribute is expected next; [in_char] = inside a
    characteristic; [cccd] = this characteristic already has a CCCD. *)
Fixpoint wf_struct (db : db_t) (pend : option attr) (in_char cccd : bool) : bool :=
  match db with
  | [] => match pend with None => true | Some _ => false end
  | a :: r =>
      match pend with
      | Some d => kind_eqb (a_kind a) KValue && (a_handle a =? a_handle d + 1)
                  && bytes_eqb (a_type a) (a_uuid d) && wf_struct r None true false
      | None =>
          match a_kind a with
          | KDecl => wf_struct r (Some a) false false
          | KValue => false
          | KCccd => in_char && negb cccd && wf_struct r None in_char true
          | KDesc => in_char && wf_struct r None in_char cccd
          | _ => wf_struct r None false false
          end
      end
  end.

Definition wf_db (db : db_t) : bool :=
  sorted_from 0 db && forallb wf_attr db && wf_struct db None false false.

Definition wf_outcome (o : hook_outcome) : bool :=
  match o with
  | HOverride v => wf_bytes v
  | HGattError r h e =>
      match r with Some x => x <? 256 | None => true end
      && match h with Some x => x <? 65536 | None => true end
      && match e with Some x => x <? 256 | None => true end
  | _ => true
  end.
Definition wf_act (a : option (N * bytes)) : bool :=
  match a with Some (_, v) => wf_bytes v | None => true end.
Definition wf_acts (a : hook_acts) : bool :=
  wf_act (ha_read a) && wf_act (ha_write a) && wf_act (ha_written a) && wf_act (ha_written2 a)
  && wf_act (ha_sub a) && wf_act (ha_unsub a).
Definition wf_hooks (hk : hook_oracle) : bool :=
  wf_outcome (h_read hk) && wf_outcome (h_write hk) && wf_outcome (h_written hk) && wf_outcome (h_written2 hk)
  && wf_outcome (h_sub hk) && wf_outcome (h_unsub hk) && wf_outcome (h_notif hk) && wf_outcome (h_indic hk)
  && wf_acts (h_acts hk).

(** no GATT instance has its procedure lock held *)
Definition proc_free (st : state) : bool :=
  negb (i_proc_locked (st_cur st)) && forallb (fun i => negb (i_proc_locked i)) (st_dead st).

(** responses (everything but notifications / indications) *)
Definition is_rsp (p : att_pdu) : bool :=
  match p with PNotification _ _ | PIndication _ _ => false | _ => true end.

(** a response fits the MTU in force; a notification / indication sent from inside a hook fits the
    MTU (>= 23) of the GATT instance that sends it *)
Definition inst_mtus (st : state) : list N := map i_mtu (st_cur st :: st_dead st).
Definition pdu_fits (st : state) (p : att_pdu) : bool :=
  (att_size p <=? mtu_of st)
  || (negb (is_rsp p) && existsb (fun m => att_size p <=? N.max 23 m) (inst_mtus st)).

(** well-formed request: 16-bit fields in range, payload bytes, the PDU fits the MTU *)
Definition h16 (n : N) : bool := n <? 65536.
Definition wf_request (mtu : N) (r : att_request) : bool :=
  (req_size r <=? mtu) &&
  match r with
  | ExchangeMtu m => h16 m
  | FindInfo s e => h16 s && h16 e
  | FindByTypeValue s e ty v => h16 s && h16 e && h16 ty && wf_bytes v
  | ReadByType s e ty => h16 s && h16 e && h16 ty
  | ReadByType128 s e ty => h16 s && h16 e && (nlen ty =? 16) && wf_bytes ty
  | Read h => h16 h
  | ReadBlob h off => h16 h && h16 off
  | ReadMultiple hs => forallb h16 hs
  | ReadByGroupType s e ty => h16 s && h16 e && h16 ty
  | Write h v | WriteCmd h v | SignedWriteCmd h v | Indication h v | Notification h v => h16 h && wf_bytes v
  | PrepareWrite h off v => h16 h && h16 off && wf_bytes v
  | ExecuteWrite f => f <? 256
  | Confirmation => true
  | UnknownOp o b => (o <? 256) && wf_bytes b
  end.

(** classification of client PDUs *)
Definition is_request (r : att_request) : bool :=
  match r with
  | ExchangeMtu _ | FindInfo _ _ | FindByTypeValue _ _ _ _ | ReadByType _ _ _ | ReadByType128 _ _ _
  | Read _ | ReadBlob _ _ | ReadMultiple _ | ReadByGroupType _ _ _ | Write _ _ | PrepareWrite _ _ _
  | ExecuteWrite _ => true
  | UnknownOp o _ => req_opcode o
  | _ => false
  end.
Definition is_command (r : att_request) : bool :=
  match r with
  | WriteCmd _ _ | SignedWriteCmd _ _ | Notification _ _ | Confirmation => true
  | UnknownOp o _ => negb (req_opcode o)
  | _ => false
  end.
Definition is_indication (r : att_request) : bool := match r with Indication _ _ => true | _ => false end.

Definition queue_entry_ok (db : db_t) (q : N * list (N * bytes)) : bool :=
  match lookup (fst q) db with Some _ => true | None => false end
  && forallb (fun w => wf_bytes (snd w)) (snd q).
Definition queue_ok (st : state) : bool := forallb (queue_entry_ok (st_db st)) (i_queues (st_cur st)).

Definition wf_state (st : state) : bool :=
  wf_db (st_db st) && (23 <=? mtu_of st) && (mtu_of st <=? 65535) && queue_ok st.

(** * List-response well-formedness (boolean form) *)
Fixpoint increasing_in (lo s e : N) (hs : list N) : bool :=
  match hs with
  | [] => true
  | h :: r => (lo <? h) && (s <=? h) && (h <=? e) && increasing_in h s e r
  end.

Definition list_rsp_ok (s e : N) (p : att_pdu) : bool :=
  match p with
  | PFindInfoRsp fmt items =>
      increasing_in 0 s e (map fst items)
      && forallb (fun it => nlen (snd it) =? (if fmt =? 1 then 2 else 16)) items
      && negb (match items with [] => true | _ => false end)
  | PFindByTypeValueRsp items =>
      increasing_in 0 s e (map fst items) && negb (match items with [] => true | _ => false end)
  | PReadByTypeRsp len items =>
      increasing_in 0 s e (map fst items) && forallb (fun it => 2 + nlen (snd it) =? len) items
      && negb (match items with [] => true | _ => false end)
  | PReadByGroupTypeRsp len items =>
      increasing_in 0 s e (map (fun it => fst (fst it)) items)
      && forallb (fun it => 4 + nlen (snd it) =? len) items
      && negb (match items with [] => true | _ => false end)
  | _ => true
  end.

Definition req_range (r : att_request) : option (N * N) :=
  match r with
  | FindInfo s e | FindByTypeValue s e _ _ | ReadByType s e _ | ReadByType128 s e _
  | ReadByGroupType s e _ => Some (s, e)
  | _ => None
  end.

(** * Correspondence entry point (evaluated by the harness) *)

Fixpoint pdus_eqb (ps : list att_pdu) (obs : list bytes) : bool :=
  match ps, obs with
  | [], [] => true
  | p :: ps', o :: obs' => bytes_eqb (encode p) o && pdus_eqb ps' obs'
  | _, _ => false
  end.

Definition exn_code (e : option exn) : N :=
  match e with
  | None => 0 | Some ExAttribute => 1 | Some ExType => 2 | Some ExIndex => 3
  | Some (ExHook HRaiseOther) => 4 | Some (ExHook _) => 5 | Some ExDeadlock => 6
  end.

Definition values_match (db : db_t) (vals : list (N * bytes)) : bool :=
  forallb (fun hv => match lookup (fst hv) db with
                     | Some a => bytes_eqb (a_value a) (snd hv)
                     | None => false end) vals.

(** observed step: PDUs (bytes), exception code, probe answered, changed values *)
Definition obs_step := (list bytes * N * bool * list (N * bytes))%type.

Fixpoint check_steps (v : variant) (st : state) (evs : list (event * obs_step)) : bool :=
  match evs with
  | [] => true
  | (ev, (o_out, o_exc, o_probe, o_vals)) :: r =>
      let x := step v st ev in
      let st' := r_state x in
      pdus_eqb (r_out x) o_out
      && (exn_code (r_exc x) =? o_exc)
      && Bool.eqb (negb (st_connected st') || negb (tx_locked st')) o_probe
      && values_match (st_db st') o_vals
      && check_steps v st' r
  end.

Definition final_values (db : db_t) : list (N * bytes) :=
  map (fun a => (a_handle a, a_value a))
      (filter (fun a => match a_kind a with KValue | KCccd | KDesc => true | _ => false end) db).

Fixpoint run_state (v : variant) (st : state) (evs : list event) : state :=
  match evs with [] => st | ev :: r => run_state v (r_state (step v st ev)) r end.

Fixpoint vals_eqb (a b : list (N * bytes)) : bool :=
  match a, b with
  | [], [] => true
  | (h1, v1) :: a', (h2, v2) :: b' => (h1 =? h2) && bytes_eqb v1 v2 && vals_eqb a' b'
  | _, _ => false
  end.

(** case: (variant is fixed?, database, history with observations, final values observed) *)
Definition case_t := (bool * db_t * list (event * obs_step) * list (N * bytes))%type.

Definition check_case (c : case_t) : bool :=
  let '(fixed, db, evs, fin) := c in
  let v := if fixed then V_fixed else V_orig in
  wf_db db
  && check_steps v (init_state db) evs
  && vals_eqb (final_values (st_db (run_state v (init_state db) (map fst evs)))) fin.

(** * Sessions: sequences of client PDUs (statement helpers) *)

Definition session := list (att_request * hook_oracle).

Definition session_step (st : state) (x : att_request * hook_oracle) : state :=
  fst (server_step st (fst x) (snd x)).

(** the inputs of a session are acceptable: every PDU is well-formed and fits the MTU in force
    when it is received; the hook outcomes are encodable *)
Fixpoint inputs_ok (st : state) (s : session) : Prop :=
  match s with
  | [] => True
  | x :: t => wf_request (mtu_of st) (fst x) = true /\ wf_hooks (snd x) = true /\ inputs_ok (session_step st x) t
  end.

(** [P] holds of every step of the session *)
Fixpoint every_step (P : state -> att_request -> hook_oracle -> Prop) (st : state) (s : session) : Prop :=
  match s with
  | [] => True
  | x :: t => P st (fst x) (snd x) /\ every_step P (session_step st x) t
  end.

(** the C07 property of one step *)
Definition step_ok (st : state) (r : att_request) (hk : hook_oracle) : Prop :=
  let st' := fst (server_step st r hk) in
  let out := snd (server_step st r hk) in
  (tx_locked st = false -> proc_free st = true -> tx_locked st' = false /\ proc_free st' = true)
  /\ Forall (fun p => pdu_fits st p = true) out
  /\ (forall s e, req_range r = Some (s, e) -> Forall (fun p => list_rsp_ok s e p = true) out)
  /\ (tx_locked st = false -> proc_free st = true ->
      let rsp := filter is_rsp out in
      (is_request r = true -> length rsp = 1%nat)
      /\ (is_command r = true -> (length rsp <= 1)%nat)
      /\ (is_indication r = true -> rsp = [PConfirmation])).

(** * A small concrete database (witnesses, non-vacuity) *)
Definition demo_db : db_t := [
  mkAttr 1 KPrimary [0;40] [0;24] [0;24] 7 0 0 0 0 None None;
  mkAttr 2 KInclude [2;40] [15;24] [8;0;12;0;15;24] 2 0 0 8 12 None None;
  mkAttr 3 KDecl [3;40] [0;42] [] 4 10 0 0 0 None None;
  mkAttr 4 KValue [0;42] [] [104;105] 4 10 0 0 0 None None;
  mkAttr 5 KDecl [3;40] [25;42] [] 7 18 0 0 0 None None;
  mkAttr 6 KValue [25;42] [] [100] 7 18 0 0 0 None None;
  mkAttr 7 KCccd [2;41] [] [0;0] 7 18 0 0 0 None None;
  mkAttr 8 KSecondary [1;40] [15;24] [15;24] 12 0 0 0 0 None None;
  mkAttr 9 KDecl [3;40] [1;42] [] 11 8 0 0 0 None None;
  mkAttr 10 KValue [1;42] [] [115;101;99] 11 8 0 0 0 None None;
  mkAttr 11 KDesc [1;41] [] [100] 11 8 0 0 0 None None ].
Definition demo_state : state := init_state demo_db.
