(** C07 — property theorems only (each closed by [exact]); see Proofs.v.
    [server_step] is the model of the REPAIRED GattServer (variant [V_fixed]); [server_step_v V_orig]
    the code before the first-round repairs. *)
From Coq Require Import List NArith Arith.
From Whad Require Import Lib.Bytes C07.Model C07.Proofs.
Import ListNotations.
Open Scope N_scope.

(** NEVER WEDGES.  No request, whatever its content, whatever the database (no well-formedness
    needed) and whatever the user hooks return (any object), raise (HookReturn* or arbitrary
    exceptions, also from the notification / indication hooks) or update (characteristic values,
    subscribed or not, with the notifications that entails in the middle of the request), leaves the
    transmit lock or a GATT procedure lock held.  ([proc_free]: no procedure lock is held -- true
    of every fresh connection and, by this very theorem, of every reachable state.) *)
Theorem C07_never_wedges :
  forall (st : state) (r : att_request) (hk : hook_oracle),
    tx_locked st = false -> proc_free st = true ->
    tx_locked (fst (server_step st r hk)) = false /\ proc_free (fst (server_step st r hk)) = true.
Proof. exact never_wedges. Qed.

(** ... along every history of client PDUs, application writes (whose notification hooks may
    raise), link-security changes, disconnections and reconnections. *)
Theorem C07_never_wedges_history :
  forall (evs : list event) (st : state),
    tx_locked st = false -> proc_free st = true ->
    tx_locked (run_state V_fixed st evs) = false /\ proc_free (run_state V_fixed st evs) = true.
Proof. exact never_wedges_history. Qed.

(** In an unlocked state the probe request of the harness (Read Request on handle 0) is answered by
    exactly one Error Response. *)
Theorem C07_probe_answered :
  forall st, tx_locked st = false -> r_out (handle V_fixed st (Read 0) no_hooks) = [PError 10 0 1].
Proof. exact probe_answered. Qed.

(** What a hook hands back with a plain [return] (nothing, bytes of any length, any object) has no
    effect whatsoever. *)
Theorem C07_hook_return_values_ignored :
  forall v st rq hk (r : hook_rets), handle v st rq (with_rets hk r) = handle v st rq hk.
Proof. exact returns_ignored. Qed.

(** ONE RESPONSE.  Exactly one response per request -- requests with an unknown opcode and known
    requests whose parameters cannot be parsed included ([is_request]) --, at most one per command,
    one confirmation per indication (the notifications a hook's characteristic update sends meanwhile
    are not responses): for every state (no well-formedness of the database needed), every PDU and
    ALL hook behaviours (return, override, HookReturn* errors, arbitrary exceptions, updates), for
    every hook (read, write, written, subscribed, unsubscribed, notification, indication). *)
Theorem C07_one_response :
  forall (st : state) (r : att_request) (hk : hook_oracle),
    tx_locked st = false -> proc_free st = true ->
    let rsp := filter is_rsp (snd (server_step st r hk)) in
    (is_request r = true -> length rsp = 1%nat)
    /\ (is_command r = true -> (length rsp <= 1)%nat)
    /\ (is_indication r = true -> rsp = [PConfirmation]).
Proof. exact one_response. Qed.

(** PDUs that are not requests, commands or indications -- RESPONSES the client sends although the
    server asked nothing (Error Response 0x01, Exchange MTU Response 0x03, every odd opcode), unknown
    commands --, in any number: no answer and NO effect on the state, hence none on any later answer
    (and by [C07_never_wedges_history] no lock either). *)
Theorem C07_unsolicited_responses_ignored :
  forall st o body hk, req_opcode o = false -> server_step st (UnknownOp o body) hk = (st, []).
Proof. exact non_request_ignored. Qed.

Theorem C07_response_opcodes_are_not_requests :
  Forall (fun o => req_opcode o = false) [1; 3; 5; 7; 9; 11; 13; 15; 17; 19; 23; 25; 27; 33; 35; 96; 210].
Proof. exact unsolicited_responses_ignored. Qed.

(** Every PDU emitted while a request is handled fits ([pdu_fits]): a response in the MTU in force
    (>= 23 by [wf_state]), a notification / indication sent by a hook's update in the MTU of the GATT
    instance that sends it; for all hooks, whatever they return, raise or update. *)
Theorem C07_fits_mtu :
  forall (st : state) (r : att_request) (hk : hook_oracle),
    wf_state st = true -> wf_request (mtu_of st) r = true ->
    Forall (fun p => pdu_fits st p = true) (snd (server_step st r hk)).
Proof. exact fits_mtu. Qed.

(** List responses: handles inside the requested range, strictly increasing, a single item
    length (the one announced), at least one item. *)
Theorem C07_list_response_wf :
  forall (st : state) (r : att_request) (hk : hook_oracle) (s e : N),
    wf_state st = true -> req_range r = Some (s, e) ->
    Forall (fun p => list_rsp_ok s e p = true) (snd (server_step st r hk)).
Proof. exact list_response_wf. Qed.

(** Well-formedness (sorted handles, attribute structure, MTU in 23..65535, queued handles exist) is
    an invariant. *)
Theorem C07_wf_invariant :
  forall st r hk, wf_state st = true -> wf_request (mtu_of st) r = true -> wf_hooks hk = true ->
    wf_state (fst (server_step st r hk)) = true.
Proof. exact step_wf. Qed.

(** All of the above along EVERY session (sequence of client PDUs with arbitrary hook behaviour),
    lifted by [fold_left]; no lock is held at the end. *)
Theorem C07_session :
  forall (s : session) (st : state),
    wf_state st = true -> inputs_ok st s ->
    every_step step_ok st s
    /\ wf_state (fold_left session_step s st) = true
    /\ (tx_locked st = false -> proc_free st = true ->
        tx_locked (fold_left session_step s st) = false /\ proc_free (fold_left session_step s st) = true).
Proof. exact session_ok. Qed.

(** Regression witnesses of the repaired findings, on the 11-attribute demo database:
    a raising read hook is answered with Unlikely Error and the lock released; *)
Theorem C07_raising_hook_answered :
  snd (server_step demo_state (Read 4) raising_read) = [PError 10 4 14]
  /\ tx_locked (fst (server_step demo_state (Read 4) raising_read)) = false.
Proof. exact raising_hook_answered. Qed.

(** a 'written' hook raising HookReturnAuthentRequired yields the Write Response only; *)
Theorem C07_written_hook_one_pdu :
  snd (server_step demo_state (Write 4 [1]) written_authent) = [PWriteRsp]
  /\ val_at (fst (server_step demo_state (Write 4 [1]) written_authent)) 4 = [1].
Proof. exact written_hook_one_pdu. Qed.

(** unknown request opcode: Request Not Supported; unknown command: nothing; known request without
    parameters: Invalid PDU (in every state); *)
Theorem C07_unknown_opcode_answered :
  forall st body,
    snd (server_step st (UnknownOp 32 body) no_hooks) = [PError 32 0 6]
    /\ snd (server_step st (UnknownOp 96 body) no_hooks) = []
    /\ snd (server_step st (UnknownOp 10 []) no_hooks) = [PError 10 0 4]
    /\ snd (server_step st (ReadMultiple []) no_hooks) = [PError 14 0 4].
Proof. exact unknown_opcode_answered. Qed.

(** Prepare Write on a CCCD / descriptor / declaration is refused, on a value it is queued; *)
Theorem C07_prepare_non_value_refused :
  snd (server_step demo_state (PrepareWrite 7 0 [1; 0]) no_hooks) = [PError 22 7 6]
  /\ snd (server_step demo_state (PrepareWrite 11 0 [1]) no_hooks) = [PError 22 11 3]
  /\ snd (server_step demo_state (PrepareWrite 3 0 [1]) no_hooks) = [PError 22 3 3]
  /\ snd (server_step demo_state (PrepareWrite 10 0 [1]) no_hooks) = [PPrepareWriteRsp 10 0 [1]].
Proof. exact prepare_non_value_refused. Qed.

(** a notification hook that raised, then a request whose read hook updates the subscribed
    characteristic: notification inside the request, response, no lock held. *)
Theorem C07_notif_hook_then_update_ok :
  snd (run V_fixed demo_state wedge_history) = [ [PWriteRsp]; []; [PNotification 6 [2]; PReadRsp [104; 105]] ]
  /\ tx_locked (run_state V_fixed demo_state wedge_history) = false
  /\ proc_free (run_state V_fixed demo_state wedge_history) = true.
Proof. exact notif_hook_then_update_ok. Qed.

(** The code before the first-round repairs (V_orig), on the same database: *)
Theorem C07_orig_wedges_refuted :
  wf_state demo_state = true
  /\ tx_locked (fst (server_step_v V_orig demo_state (FindByTypeValue 1 65535 10752 [104;105]) no_hooks)) = true
  /\ tx_locked (fst (server_step_v V_orig demo_state (ReadByGroupType 1 65535 10497) no_hooks)) = true.
Proof. exact (conj demo_wf orig_wedges). Qed.

Theorem C07_orig_unanswered_refuted :
  Forall (fun r => wf_request 23 r = true /\ is_request r = true
                   /\ snd (server_step_v V_orig demo_state r no_hooks) = [])
    [Read 8; Read 2; ReadBlob 3 1; ReadBlob 1 1; ExecuteWrite 2; Write 3 [1]; Write 11 [1];
     FindByTypeValue 1 65535 10752 [104;105]; ReadByGroupType 1 65535 10497;
     ReadByType128 1 65535 [0;1;2;3;4;5;6;7;8;9;10;11;12;13;14;15]].
Proof. exact orig_unanswered. Qed.

(** Non-vacuity: a 17-step session on the demo database satisfies the hypotheses of [C07_session]
    (hooks that update a subscribed characteristic and return 600 bytes, raise, raise HookReturn*
    from 'written'; an unknown request; a Prepare Write on a CCCD); its last answers are the expected
    ones. *)
Example C07_nonvacuous :
  wf_state demo_state = true /\ tx_locked demo_state = false /\ proc_free demo_state = true
  /\ inputs_ok demo_state demo_session
  /\ skipn 12 (snd (run V_fixed demo_state (map (fun x => EvReq (fst x) (snd x)) demo_session)))
     = [ [PNotification 6 [2]; PReadRsp [7; 7]]; [PError 10 4 14]; [PWriteRsp]; [PError 32 0 6]; [PError 22 7 6] ].
Proof. exact nonvacuous. Qed.
