(** C07 — property theorems only (each closed by [exact]); see Proofs.v.
    [server_step] is the model of the REPAIRED GattServer (variant [V_fixed]); [server_step_v V_orig]
    the code before the repairs. *)
From Coq Require Import List NArith Arith.
From Whad Require Import Lib.Bytes C07.Model C07.Proofs.
Import ListNotations.
Open Scope N_scope.

(** No request, whatever its content, whatever the database (no well-formedness needed) and
    whatever the user hooks return (any object), raise (including arbitrary exceptions) or update
    (characteristic values, subscribed or not, with the notifications that entails in the middle
    of the request), leaves the transmit lock held -- provided no GATT procedure lock is stuck and
    the notification / indication hooks return or override (otherwise: C07_never_wedges_refuted). *)
Theorem C07_never_wedges :
  forall (st : state) (r : att_request) (hk : hook_oracle),
    tx_locked st = false -> proc_free st = true -> notif_hooks_return hk = true ->
    tx_locked (fst (server_step st r hk)) = false /\ proc_free (fst (server_step st r hk)) = true.
Proof. exact never_wedges. Qed.

(** When the hooks of the request update no characteristic, nothing at all is needed. *)
Theorem C07_never_wedges_no_updates :
  forall (st : state) (r : att_request) (hk : hook_oracle),
    tx_locked st = false -> h_acts hk = no_acts -> tx_locked (fst (server_step st r hk)) = false.
Proof. exact never_wedges_no_updates. Qed.

(** ... along every history of client PDUs, application writes, link-security changes,
    disconnections and reconnections. *)
Theorem C07_never_wedges_history :
  forall (evs : list event) (st : state),
    tx_locked st = false -> proc_free st = true -> forallb ev_quiet evs = true ->
    tx_locked (run_state V_fixed st evs) = false /\ proc_free (run_state V_fixed st evs) = true.
Proof. exact never_wedges_history. Qed.

(** FULL STATEMENT of never_wedges (all hook behaviours); refuted: KNOWN-FINDING
    notification-hook-exception-then-hook-update-wedges. *)
Definition C07_never_wedges_statement : Prop :=
  forall (evs : list event) (st : state),
    wf_state st = true -> tx_locked st = false -> proc_free st = true ->
    tx_locked (run_state V_fixed st evs) = false.

Theorem C07_never_wedges_refuted :
  exists st evs, wf_state st = true /\ tx_locked st = false /\ proc_free st = true
    /\ snd (run V_fixed st evs) = [ [PWriteRsp]; []; [] ]
    /\ tx_locked (run_state V_fixed st evs) = true.
Proof. exact never_wedges_refuted. Qed.

(** In an unlocked state the probe request of the harness (Read Request on handle 0) is answered by
    exactly one Error Response. *)
Theorem C07_probe_answered :
  forall st, tx_locked st = false -> r_out (handle V_fixed st (Read 0) no_hooks) = [PError 10 0 1].
Proof. exact probe_answered. Qed.

(** What a hook hands back with a plain [return] (nothing, bytes of any length, any object) has no
    effect whatsoever. *)
Theorem C07_hook_return_values_ignored :
  forall v st rq hk (r : hook_rets), handle v st rq (with_rets hk r) = handle v st rq hk.
Proof. exact returns_ignored. Qed.

(** Exactly one RESPONSE per request, at most one per command, one confirmation per indication
    (the notifications a hook's characteristic update sends meanwhile are not responses) -- for
    every state (no well-formedness of the database needed), every well-formed request and all hooks
    that return, override, update characteristics or answer with a HookReturn* error, the 'written'
    hook returning normally.  (Raising hooks and 'written' hooks that raise HookReturn*: _refuted.) *)
Theorem C07_one_response_partial :
  forall (st : state) (r : att_request) (hk : hook_oracle),
    tx_locked st = false -> proc_free st = true -> notif_hooks_return hk = true ->
    wf_request (mtu_of st) r = true ->
    hooks_behave hk = true -> is_return (h_written hk) = true ->
    let rsp := filter is_rsp (snd (server_step st r hk)) in
    (is_request r = true -> length rsp = 1%nat)
    /\ (is_command r = true -> (length rsp <= 1)%nat)
    /\ (is_indication r = true -> rsp = [PConfirmation]).
Proof. exact one_response. Qed.

(** FULL STATEMENT of one_response (all hook behaviours, unknown opcodes counted as requests);
    refuted by the three findings below. *)
Definition C07_one_response_statement : Prop :=
  forall (st : state) (r : att_request) (hk : hook_oracle),
    wf_state st = true -> tx_locked st = false -> wf_request (mtu_of st) r = true -> wf_hooks hk = true ->
    (is_request r = true \/ (exists o b, r = UnknownOp o b)) ->
    length (filter is_rsp (snd (server_step st r hk))) = 1%nat.

Theorem C07_one_response_raising_hook_refuted :
  exists st r hk, wf_state st = true /\ wf_request 23 r = true /\ is_request r = true
    /\ snd (server_step st r hk) = [] /\ tx_locked (fst (server_step st r hk)) = false.
Proof. exact raising_hook_refuted. Qed.

Theorem C07_one_response_written_hook_refuted :
  exists st r hk, wf_state st = true /\ wf_request 23 r = true /\ hooks_behave hk = true
    /\ snd (server_step st r hk) = [PWriteRsp; PError 18 4 5].
Proof. exact written_hook_refuted. Qed.

Theorem C07_one_response_unknown_opcode_refuted :
  forall st op body, snd (server_step st (UnknownOp op body) no_hooks) = [].
Proof. exact unknown_opcode_unanswered. Qed.

(** Every PDU emitted while a request is handled fits ([pdu_fits]): a response in the MTU in force
    (>= 23 by [wf_state]), a notification / indication sent by a hook's update in the MTU of the GATT
    instance that sends it; for all hooks, whatever they return, raise or update. *)
Theorem C07_fits_mtu :
  forall (st : state) (r : att_request) (hk : hook_oracle),
    wf_state st = true -> wf_request (mtu_of st) r = true ->
    Forall (fun p => pdu_fits st p = true) (snd (server_step st r hk)).
Proof. exact fits_mtu. Qed.

(** List responses: handles inside the requested range, strictly increasing, a single item
    length (the one announced), at least one item. *)
Theorem C07_list_response_wf :
  forall (st : state) (r : att_request) (hk : hook_oracle) (s e : N),
    wf_state st = true -> req_range r = Some (s, e) ->
    Forall (fun p => list_rsp_ok s e p = true) (snd (server_step st r hk)).
Proof. exact list_response_wf. Qed.

(** Well-formedness (sorted handles, attribute structure, MTU in 23..65535, queued handles exist) is
    an invariant. *)
Theorem C07_wf_invariant :
  forall st r hk, wf_state st = true -> wf_request (mtu_of st) r = true -> wf_hooks hk = true ->
    wf_state (fst (server_step st r hk)) = true.
Proof. exact step_wf. Qed.

(** All of the above along EVERY session (sequence of client PDUs with arbitrary hook behaviour),
    lifted by [fold_left]; the lock is free at the end when the notification hooks behaved. *)
Theorem C07_session :
  forall (s : session) (st : state),
    wf_state st = true -> inputs_ok st s ->
    every_step step_ok st s
    /\ wf_state (fold_left session_step s st) = true
    /\ (tx_locked st = false -> proc_free st = true -> quiet_notif s ->
        tx_locked (fold_left session_step s st) = false /\ proc_free (fold_left session_step s st) = true).
Proof. exact session_ok. Qed.

(** The code before the repairs (V_orig), on a well-formed 11-attribute database: *)
Theorem C07_orig_wedges_refuted :
  wf_state demo_state = true
  /\ tx_locked (fst (server_step_v V_orig demo_state (Read 4) raising_read)) = true
  /\ tx_locked (fst (server_step_v V_orig demo_state (FindByTypeValue 1 65535 10752 [104;105]) no_hooks)) = true
  /\ tx_locked (fst (server_step_v V_orig demo_state (ReadByGroupType 1 65535 10497) no_hooks)) = true.
Proof. exact (conj demo_wf orig_wedges). Qed.

Theorem C07_orig_unanswered_refuted :
  Forall (fun r => wf_request 23 r = true /\ is_request r = true
                   /\ snd (server_step_v V_orig demo_state r no_hooks) = [])
    [Read 8; Read 2; ReadBlob 3 1; ReadBlob 1 1; ExecuteWrite 2; Write 3 [1]; Write 11 [1];
     FindByTypeValue 1 65535 10752 [104;105]; ReadByGroupType 1 65535 10497;
     ReadByType128 1 65535 [0;1;2;3;4;5;6;7;8;9;10;11;12;13;14;15]].
Proof. exact orig_unanswered. Qed.

(** Non-vacuity: a 13-step session on the demo database satisfies the hypotheses of [C07_session]
    (the last request's read hook updates a subscribed characteristic and returns 600 bytes); its
    answers are the expected ones. *)
Example C07_nonvacuous :
  wf_state demo_state = true /\ tx_locked demo_state = false /\ proc_free demo_state = true
  /\ inputs_ok demo_state demo_session /\ quiet_notif demo_session
  /\ nth 12 (snd (run V_fixed demo_state (map (fun x => EvReq (fst x) (snd x)) demo_session))) []
     = [PNotification 6 [2]; PReadRsp [7; 7]].
Proof. exact nonvacuous. Qed.
