(** C07 — lemmas about the GATT server model (Model.v). *)
From Coq Require Import List NArith ZArith Arith Bool Lia ZifyBool ZifyN ZifyNat.
From Whad Require Import Lib.Bytes C07.Model.
Import ListNotations.
Open Scope N_scope.
Ltac Zify.zify_post_hook ::= Z.to_euclidean_division_equations.

(** * Generic tactics *)

(** destruct every [match]/[if] scrutinee of the goal *)
Ltac break_step :=
  match goal with
  | |- context [match ?x with _ => _ end] =>
      match type of x with
      | sumbool _ _ => destruct x
      | _ => destruct x eqn:?
      end
  | |- context [if ?x then _ else _] => destruct x eqn:?
  end.
Ltac break := repeat (break_step; cbn [r_state r_out r_exc done raise err] in * ).

(** * Basic facts *)

Lemma nlen_app (a b : bytes) : nlen (a ++ b) = nlen a + nlen b.
Proof. unfold nlen. rewrite app_length. lia. Qed.

Lemma nlen_cons (x : N) (a : bytes) : nlen (x :: a) = 1 + nlen a.
Proof. unfold nlen. cbn [length]. lia. Qed.

Lemma nlen_nil : nlen [] = 0.
Proof. reflexivity. Qed.

Lemma nlen_le16 n : nlen (le16 n) = 2.
Proof. reflexivity. Qed.

Lemma nlen_trunc n v : nlen (trunc n v) <= n.
Proof. unfold nlen, trunc. pose proof (firstn_le_length (N.to_nat n) v). rewrite firstn_length. lia. Qed.

Lemma nlen_bslice off n v : nlen (bslice off n v) <= n.
Proof. unfold nlen, bslice. rewrite firstn_length. lia. Qed.

Ltac nl := repeat (rewrite ?nlen_app, ?nlen_cons, ?nlen_nil, ?nlen_le16).

Lemma size_error a b c : att_size (PError a b c) = 5.
Proof. unfold att_size, encode. nl. lia. Qed.

Lemma size_read v : att_size (PReadRsp v) = 1 + nlen v.
Proof. unfold att_size, encode. nl. lia. Qed.

Lemma size_blob v : att_size (PReadBlobRsp v) = 1 + nlen v.
Proof. unfold att_size, encode. nl. lia. Qed.

Lemma nlen_concat_map {A} (enc : A -> bytes) (isz : N) (items : list A) :
  (forall it, In it items -> nlen (enc it) = isz) ->
  nlen (concat (map enc items)) = N.of_nat (length items) * isz.
Proof.
  induction items as [|x r IH]; intros H; cbn [map concat length]; [reflexivity|].
  rewrite nlen_app, IH, (H x) by (intros; try apply H; cbn; auto). lia.
Qed.

Lemma filter_len_le {A} (f : A -> bool) (l : list A) : (length (filter f l) <= length l)%nat.
Proof. induction l as [|x r IH]; cbn; [lia|]. destruct (f x); cbn; lia. Qed.

Lemma filter_firstn_length {A} (f : A -> bool) n (l : list A) : (length (filter f (firstn n l)) <= n)%nat.
Proof.
  pose proof (filter_len_le f (firstn n l)). pose proof (firstn_le_length n l). lia.
Qed.

Lemma take_while_len_le {A} (f : A -> bool) (l : list A) : (length (take_while f l) <= length l)%nat.
Proof. induction l as [|x r IH]; cbn; [lia|]. destruct (f x); cbn; lia. Qed.

Lemma take_while_firstn_length {A} (f : A -> bool) n (l : list A) : (length (take_while f (firstn n l)) <= n)%nat.
Proof.
  pose proof (take_while_len_le f (firstn n l)). pose proof (firstn_le_length n l). lia.
Qed.

Lemma take_while_in {A} (f : A -> bool) (l : list A) x : In x (take_while f l) -> In x l /\ f x = true.
Proof.
  induction l as [|y r IH]; cbn; [intros []|]. destruct (f y) eqn:E; [|intros []].
  intros [<-|H]; [auto|]. destruct (IH H). auto.
Qed.

Lemma div_mul_le a b : b <> 0 -> (a / b) * b <= a.
Proof. intros. lia. Qed.

Lemma lookup_in h db a : lookup h db = Some a -> In a db /\ a_handle a = h.
Proof.
  induction db as [|x r IH]; cbn [lookup]; [discriminate|].
  destruct (a_handle x =? h) eqn:E; intros H.
  - inversion H; subst. apply N.eqb_eq in E. split; [left; reflexivity|exact E].
  - destruct (IH H). split; [right|]; assumption.
Qed.

Lemma lookup_wf db h a : forallb wf_attr db = true -> lookup h db = Some a -> wf_attr a = true.
Proof. intros Hf Hl. apply lookup_in in Hl as [Hin _]. rewrite forallb_forall in Hf. apply Hf, Hin. Qed.

Lemma uuid_len_cases b : uuid_len_ok b = true -> nlen b = 2 \/ nlen b = 16.
Proof. unfold uuid_len_ok. intros H. apply orb_true_iff in H as [H|H]; apply N.eqb_eq in H; auto. Qed.

Lemma wf_attr_type a : wf_attr a = true -> uuid_len_ok (a_type a) = true.
Proof. unfold wf_attr. intros H. repeat (apply andb_true_iff in H as [H ?]). exact H. Qed.

Lemma wf_attr_uuid a : wf_attr a = true ->
  match a_kind a with KPrimary | KSecondary | KInclude | KDecl => uuid_len_ok (a_uuid a) = true | _ => True end.
Proof.
  unfold wf_attr. intros H. apply andb_true_iff in H as [_ H].
  destruct (a_kind a); trivial; repeat (apply andb_true_iff in H as [H ?]); try assumption.
  all: match goal with H : _ && uuid_len_ok _ = true |- _ => apply andb_true_iff in H as [_ H]; exact H | _ => idtac end.
Qed.

(** * Static part of the database, well-formedness is preserved *)

Definition static_eq (a b : attr) : Prop :=
  a_handle a = a_handle b /\ a_kind a = a_kind b /\ a_type a = a_type b /\ a_uuid a = a_uuid b
  /\ a_end a = a_end b /\ a_props a = a_props b /\ a_sec a = a_sec b
  /\ a_istart a = a_istart b /\ a_iend a = a_iend b.
Definition attr_ext (a b : attr) : Prop := static_eq a b /\ (wf_attr a = true -> wf_attr b = true).
Definition db_ext (d1 d2 : db_t) : Prop := Forall2 attr_ext d1 d2.

Lemma static_eq_refl a : static_eq a a.
Proof. unfold static_eq. tauto. Qed.
Lemma static_eq_trans a b c : static_eq a b -> static_eq b c -> static_eq a c.
Proof. unfold static_eq. intuition congruence. Qed.
Lemma attr_ext_refl a : attr_ext a a.
Proof. split; [apply static_eq_refl|auto]. Qed.
Lemma attr_ext_trans a b c : attr_ext a b -> attr_ext b c -> attr_ext a c.
Proof. intros [S1 W1] [S2 W2]. split; [eapply static_eq_trans; eauto|auto]. Qed.
Lemma db_ext_refl d : db_ext d d.
Proof. induction d; constructor; [apply attr_ext_refl|assumption]. Qed.
Lemma db_ext_trans d1 d2 d3 : db_ext d1 d2 -> db_ext d2 d3 -> db_ext d1 d3.
Proof.
  intros H. revert d3. induction H; intros d3 H3; inversion H3; subst; constructor.
  - eapply attr_ext_trans; eauto.
  - apply IHForall2. assumption.
Qed.

Lemma db_ext_sorted d1 d2 : db_ext d1 d2 -> forall lo, sorted_from lo d1 = sorted_from lo d2.
Proof.
  induction 1 as [|a b r1 r2 [S _] _ IH]; intros lo; cbn [sorted_from]; [reflexivity|].
  destruct S as (Hh & _). rewrite Hh, IH. reflexivity.
Qed.

Definition pend_eq (p q : option attr) : Prop :=
  match p, q with None, None => True | Some a, Some b => static_eq a b | _, _ => False end.

Lemma db_ext_struct d1 d2 : db_ext d1 d2 -> forall p q b c, pend_eq p q ->
  wf_struct d1 p b c = wf_struct d2 q b c.
Proof.
  induction 1 as [|a a' r1 r2 [S _] _ IH]; intros p q b c Hp; cbn [wf_struct].
  - destruct p, q; cbn in Hp; try contradiction; reflexivity.
  - pose proof S as (Hh & Hk & Ht & Hu & _).
    destruct p as [d|], q as [d'|]; cbn in Hp; try contradiction.
    + destruct Hp as (Hdh & _ & _ & Hdu & _). rewrite Hk, Hh, Ht, Hdh, Hdu.
      rewrite (IH None None true false I). reflexivity.
    + rewrite Hk. destruct (a_kind a'); try reflexivity;
        try (rewrite (IH None None b c I); reflexivity);
        try (rewrite (IH None None b true I); reflexivity);
        try (rewrite (IH None None false false I); reflexivity).
      apply IH. exact S.
Qed.

Lemma db_ext_attrs d1 d2 : db_ext d1 d2 -> forallb wf_attr d1 = true -> forallb wf_attr d2 = true.
Proof.
  induction 1 as [|a b r1 r2 [_ W] _ IH]; cbn [forallb]; [auto|].
  intros H. apply andb_true_iff in H as [H1 H2]. apply andb_true_iff. auto.
Qed.

Lemma db_ext_wf d1 d2 : db_ext d1 d2 -> wf_db d1 = true -> wf_db d2 = true.
Proof.
  intros E. unfold wf_db. intros H. apply andb_true_iff in H as [H H3]. apply andb_true_iff in H as [H1 H2].
  rewrite <- (db_ext_sorted _ _ E), H1, (db_ext_attrs _ _ E H2), <- (db_ext_struct _ _ E None None false false I), H3.
  reflexivity.
Qed.

Lemma lookup_ext d1 d2 h : db_ext d1 d2 ->
  match lookup h d1, lookup h d2 with
  | Some a, Some b => attr_ext a b
  | None, None => True
  | _, _ => False
  end.
Proof.
  induction 1 as [|a b r1 r2 E _ IH]; cbn [lookup]; [exact I|].
  destruct E as [S W]. pose proof S as (Hh & _). rewrite <- Hh.
  destruct (a_handle a =? h); [split; assumption|exact IH].
Qed.

Lemma update_ext h f db :
  (forall a, lookup h db = Some a -> attr_ext a (f a)) -> db_ext db (update h f db).
Proof.
  induction db as [|x r IH]; intros H; cbn [update]; [constructor|].
  cbn [lookup] in H. destruct (a_handle x =? h).
  - constructor; [apply H; reflexivity|apply db_ext_refl].
  - constructor; [apply attr_ext_refl|apply IH, H].
Qed.

Ltac andb_destr H := repeat (let H' := fresh H in apply andb_true_iff in H as [H H']).
Ltac andb_split := repeat (apply andb_true_iff; split).

Lemma set_value_ext a x :
  wf_bytes x = true -> (a_kind a = KCccd -> nlen x = 2) -> attr_ext a (set_value a x).
Proof.
  intros Hx Hc. split; [unfold static_eq; cbn; tauto|].
  unfold wf_attr. cbn [set_value a_handle a_kind a_type a_uuid a_value a_end a_props a_sec a_istart a_iend].
  intros H. andb_destr H.
  destruct (a_kind a) eqn:K; andb_destr H0; andb_split; try assumption.
  apply N.eqb_eq. apply Hc. reflexivity.
Qed.

Lemma set_cbs_ext a n i : attr_ext a (set_cbs a n i).
Proof. split; [unfold static_eq; cbn; tauto|]. unfold wf_attr. cbn. auto. Qed.

Lemma queue_ok_ext d1 d2 q : db_ext d1 d2 ->
  forallb (queue_entry_ok d1) q = true -> forallb (queue_entry_ok d2) q = true.
Proof.
  intros E H. rewrite forallb_forall in *. intros x Hin. specialize (H x Hin).
  unfold queue_entry_ok in *. apply andb_true_iff in H as [H1 H2]. rewrite H2, andb_true_r.
  pose proof (lookup_ext _ _ (fst x) E) as L.
  destruct (lookup (fst x) d1); [|discriminate]. destruct (lookup (fst x) d2); [reflexivity|contradiction].
Qed.

Lemma wf_state_inv st : wf_state st = true ->
  wf_db (st_db st) = true /\ 23 <= mtu_of st /\ mtu_of st <= 65535 /\ queue_ok st = true.
Proof.
  unfold wf_state. intros H. apply andb_true_iff in H as [H H4]. apply andb_true_iff in H as [H H3].
  apply andb_true_iff in H as [H1 H2]. apply N.leb_le in H2, H3. auto.
Qed.

Lemma wf_state_intro st : wf_db (st_db st) = true -> 23 <= mtu_of st -> mtu_of st <= 65535 ->
  queue_ok st = true -> wf_state st = true.
Proof.
  intros H1 H2 H3 H4. unfold wf_state. rewrite H1, H4. apply N.leb_le in H2, H3. rewrite H2, H3. reflexivity.
Qed.

Lemma wf_state_with_db st db' : wf_state st = true -> db_ext (st_db st) db' -> wf_state (with_db st db') = true.
Proof.
  intros H E. apply wf_state_inv in H as (H1 & H2 & H3 & H4).
  apply wf_state_intro; try assumption.
  - eapply db_ext_wf; eauto.
  - unfold queue_ok in *. cbn. eapply queue_ok_ext; eauto.
Qed.

Lemma wf_state_with_lock st b : wf_state st = true -> wf_state (with_lock st b) = true.
Proof. intros H. exact H. Qed.
Lemma wf_state_with_lock_inv st b : wf_state (with_lock st b) = true -> wf_state st = true.
Proof. intros H. exact H. Qed.
Lemma wf_state_with_subs st l : wf_state st = true -> wf_state (with_subs st l) = true.
Proof. intros H. exact H. Qed.

Lemma wf_state_with_queues st q : wf_state st = true ->
  forallb (queue_entry_ok (st_db st)) q = true -> wf_state (with_queues st q) = true.
Proof.
  intros H Hq. apply wf_state_inv in H as (H1 & H2 & H3 & H4). apply wf_state_intro; assumption.
Qed.

Lemma hook_error_state st op opa h o : r_state (hook_error st op opa h o) = st.
Proof. destruct o as [|x| | | | |g1 g2 g3|]; reflexivity. Qed.

Lemma wf_outcome_override o x : wf_outcome o = true -> o = HOverride x -> wf_bytes x = true.
Proof. intros H ->. exact H. Qed.

Lemma wf_hooks_inv hk : wf_hooks hk = true ->
  wf_outcome (h_read hk) = true /\ wf_outcome (h_write hk) = true /\ wf_outcome (h_written hk) = true
  /\ wf_outcome (h_written2 hk) = true /\ wf_acts (h_acts hk) = true.
Proof.
  unfold wf_hooks. intros H. repeat (apply andb_true_iff in H as [H ?]). auto.
Qed.

Lemma wf_acts_inv a : wf_acts a = true ->
  wf_act (ha_read a) = true /\ wf_act (ha_write a) = true /\ wf_act (ha_written a) = true
  /\ wf_act (ha_written2 a) = true /\ wf_act (ha_sub a) = true /\ wf_act (ha_unsub a) = true.
Proof. unfold wf_acts. intros H. repeat (apply andb_true_iff in H as [H ?]). repeat split; assumption. Qed.

Lemma store_value_wf st h a x :
  wf_state st = true -> lookup h (st_db st) = Some a -> a_kind a <> KCccd -> wf_bytes x = true ->
  wf_state (with_db st (update h (fun a => set_value a x) (st_db st))) = true.
Proof.
  intros Hwf Hl Hk Hx. apply wf_state_with_db; [exact Hwf|].
  apply update_ext. intros a' Ha'. rewrite Hl in Ha'. inversion Ha'; subst.
  apply set_value_ext; [exact Hx|]. intros K. contradiction.
Qed.

Lemma wf_bytes_skipn n l : wf_bytes l = true -> wf_bytes (skipn n l) = true.
Proof.
  revert l. induction n as [|n IH]; intros l H; [exact H|]. destruct l as [|x r]; [reflexivity|].
  cbn [skipn]. apply IH. cbn in H. apply andb_true_iff in H. tauto.
Qed.

Lemma wf_bytes_firstn n l : wf_bytes l = true -> wf_bytes (firstn n l) = true.
Proof.
  revert l. induction n as [|n IH]; intros l H; [reflexivity|]. destruct l as [|x r]; [reflexivity|].
  cbn in H. apply andb_true_iff in H as [H1 H2]. cbn. rewrite H1. apply IH, H2.
Qed.

Lemma wf_attr_value a : wf_attr a = true -> wf_bytes (a_value a) = true /\ (a_kind a = KCccd -> nlen (a_value a) = 2).
Proof.
  unfold wf_attr. intros H. apply andb_true_iff in H as [H K]. repeat (apply andb_true_iff in H as [H ?]).
  split; [assumption|]. intros E. rewrite E in K. apply andb_true_iff in K as [_ K]. apply N.eqb_eq, K.
Qed.

Lemma wf_state_attrs st : wf_state st = true -> forallb wf_attr (st_db st) = true.
Proof.
  intros H. apply wf_state_inv in H as (H & _). unfold wf_db in H.
  apply andb_true_iff in H as [H _]. apply andb_true_iff in H as [_ H]. exact H.
Qed.

(** * Characteristic updates made by the application or by a hook *)

(** what such an update never changes *)
Record frame (st st' : state) : Prop := mkFrame {
  fr_lock : tx_locked st' = tx_locked st;
  fr_mtu : mtu_of st' = mtu_of st;
  fr_mtus : inst_mtus st' = inst_mtus st;
  fr_conn : st_connected st' = st_connected st;
  fr_enc : st_enc st' = st_enc st;
  fr_auth : st_auth st' = st_auth st;
  fr_queues : i_queues (st_cur st') = i_queues (st_cur st);
  fr_subs : i_subscribed (st_cur st') = i_subscribed (st_cur st);
  fr_id : i_id (st_cur st') = i_id (st_cur st) }.

Lemma frame_refl st : frame st st.
Proof. constructor; reflexivity. Qed.
Lemma frame_trans a b c : frame a b -> frame b c -> frame a c.
Proof. intros [] []. constructor; congruence. Qed.
Lemma frame_with_db st db : frame st (with_db st db).
Proof. constructor; reflexivity. Qed.

Lemma wf_state_frame st st' : frame st st' -> st_db st' = st_db st -> wf_state st = true -> wf_state st' = true.
Proof.
  intros F Ed H. unfold wf_state, queue_ok in *. rewrite Ed, (fr_mtu _ _ F), (fr_queues _ _ F). exact H.
Qed.

Lemma find_inst_id st id i : find_inst st id = Some i -> i_id i = id /\ (i_id (st_cur st) = id -> i = st_cur st).
Proof.
  unfold find_inst. destruct (i_id (st_cur st) =? id) eqn:E; intros H.
  - inversion H; subst. apply N.eqb_eq in E. auto.
  - apply find_some in H as [_ H]. apply N.eqb_eq in H. split; [exact H|]. apply N.eqb_neq in E. intros; contradiction.
Qed.

Lemma find_inst_in st id i : find_inst st id = Some i -> In i (st_cur st :: st_dead st).
Proof.
  unfold find_inst. destruct (i_id (st_cur st) =? id); intros H.
  - inversion H. left. reflexivity.
  - apply find_some in H as [H _]. right. exact H.
Qed.

Lemma proc_free_in st i : proc_free st = true -> In i (st_cur st :: st_dead st) -> i_proc_locked i = false.
Proof.
  unfold proc_free. intros H Hin. apply andb_true_iff in H as [H1 H2].
  destruct Hin as [<-|Hin]; [apply negb_true_iff, H1|].
  rewrite forallb_forall in H2. apply negb_true_iff, H2, Hin.
Qed.

(** PDUs sent from inside an update: never a response, within the MTU of the sending instance *)
Definition act_out_ok (st : state) (pd : list att_pdu) : Prop :=
  Forall (fun p => is_rsp p = false /\ pdu_fits st p = true) pd.

Lemma act_out_ok_nil st : act_out_ok st [].
Proof. constructor. Qed.

(** same MTUs *)
Definition mframe (st st' : state) : Prop := mtu_of st' = mtu_of st /\ inst_mtus st' = inst_mtus st.
Lemma frame_m st st' : frame st st' -> mframe st st'.
Proof. intros F. split; [apply (fr_mtu _ _ F)|apply (fr_mtus _ _ F)]. Qed.
Lemma mframe_refl st : mframe st st.
Proof. split; reflexivity. Qed.
Lemma mframe_trans a b c : mframe a b -> mframe b c -> mframe a c.
Proof. intros [] []. split; congruence. Qed.

Lemma act_out_ok_mframe st st' pd : mframe st st' -> act_out_ok st' pd -> act_out_ok st pd.
Proof.
  intros [F1 F2] H. unfold act_out_ok in *. eapply Forall_impl; [|exact H]. intros p [H1 H2]. split; [exact H1|].
  unfold pdu_fits in *. rewrite <- F1, <- F2. exact H2.
Qed.
Lemma act_out_ok_frame st st' pd : frame st st' -> act_out_ok st' pd -> act_out_ok st pd.
Proof. intros F. apply act_out_ok_mframe, frame_m, F. Qed.

Lemma notify_via_state st id o mk vh val : r_state (notify_via st id o mk vh val) = st.
Proof.
  unfold notify_via. destruct (find_inst st id) as [i|]; [|reflexivity].
  destruct (i_proc_locked i); [reflexivity|]. destruct o; reflexivity.
Qed.

Lemma notify_via_frame st id o mk vh val : frame st (r_state (notify_via st id o mk vh val)).
Proof. rewrite notify_via_state. apply frame_refl. Qed.

Lemma notify_via_db st id o mk vh val : st_db (r_state (notify_via st id o mk vh val)) = st_db st.
Proof. rewrite notify_via_state. reflexivity. Qed.

Lemma notify_via_out st id o (mk : N -> bytes -> att_pdu) vh val :
  (forall h x, is_rsp (mk h x) = false) -> (forall h x, att_size (mk h x) = 3 + nlen x) ->
  act_out_ok st (r_out (notify_via st id o mk vh val)).
Proof.
  intros Hr Hs. unfold notify_via. destruct (find_inst st id) as [i|] eqn:Hf; [|constructor].
  destruct (i_proc_locked i); [constructor|].
  assert (Hin : In (i_mtu i) (inst_mtus st)) by (unfold inst_mtus; apply in_map, (find_inst_in _ _ _ Hf)).
  assert (Hfit : forall x, pdu_fits st (mk vh (trunc (i_mtu i - 3) x)) = true).
  { intros x. unfold pdu_fits. rewrite Hr. apply orb_true_iff. right. cbn [negb andb].
    apply existsb_exists. exists (i_mtu i). split; [exact Hin|].
    rewrite Hs. pose proof (nlen_trunc (i_mtu i - 3) x). apply N.leb_le. lia. }
  destruct o as [|x| | | | |g1 g2 g3|]; cbn [r_out done raise]; try constructor; try constructor; auto.
Qed.

(** the only way [notify] blocks is a procedure lock that is already held; the exception of the
    notification hook reaches the caller, the lock is released (finally) *)
Lemma notify_via_exc st id o mk vh val :
  match r_exc (notify_via st id o mk vh val) with
  | None => True
  | Some ExDeadlock => proc_free st = false
  | Some (ExHook o') => forall x, o' <> HOverride x
  | Some _ => False
  end.
Proof.
  unfold notify_via. destruct (find_inst st id) as [i|] eqn:Hf; [|exact I].
  destruct (i_proc_locked i) eqn:Hp.
  - cbn. destruct (proc_free st) eqn:Hpf; [|reflexivity].
    rewrite (proc_free_in st i Hpf (find_inst_in _ _ _ Hf)) in Hp. discriminate.
  - destruct o as [|x| | | | |g1 g2 g3|]; cbn; auto; intros; discriminate.
Qed.

(** shape of [Characteristic.value = v] *)
Definition app_db (st : state) (d : N) (v : bytes) (st1 : state) : Prop :=
  st1 = st \/ exists a, lookup (d + 1) (st_db st) = Some a /\ a_kind a = KValue
                        /\ st1 = with_db st (update (d + 1) (fun x => set_value x v) (st_db st)).

Inductive app_shape (st : state) (d : N) (v : bytes) (hk : hook_oracle) : hres -> Prop :=
| AS_none st1 : app_db st d v st1 -> app_shape st d v hk (done st1 [])
| AS_notif st1 id : app_db st d v st1 -> app_shape st d v hk (notify_via st1 id (h_notif hk) PNotification (d + 1) v)
| AS_indic st1 id : app_db st d v st1 -> app_shape st d v hk (notify_via st1 id (h_indic hk) PIndication (d + 1) v).

Lemma app_set_shape st d v hk : app_shape st d v hk (app_set st d v hk).
Proof.
  unfold app_set. destruct (lookup d (st_db st)) as [c|]; [|apply AS_none; left; reflexivity].
  destruct (a_kind c); try (apply AS_none; left; reflexivity).
  assert (Hdb : app_db st d v (with_db st (match lookup (d + 1) (st_db st) with
                        | Some x => if kind_eqb (a_kind x) KValue
                                    then update (d + 1) (fun a => set_value a v) (st_db st) else st_db st
                        | None => st_db st end))).
  { destruct (lookup (d + 1) (st_db st)) as [x|] eqn:E; [|left; destruct st; reflexivity].
    destruct (kind_eqb (a_kind x) KValue) eqn:K; [|left; destruct st; reflexivity].
    right. exists x. split; [exact E|]. split; [destruct (a_kind x); try discriminate; reflexivity|reflexivity]. }
  cbv zeta.
  repeat match goal with
  | |- context [if ?x then _ else _] => destruct x
  | |- context [match a_ncb c with _ => _ end] => destruct (a_ncb c)
  | |- context [match a_icb c with _ => _ end] => destruct (a_icb c)
  end; first [apply AS_none, Hdb | apply AS_notif, Hdb | apply AS_indic, Hdb].
Qed.

Lemma app_db_frame st d v st1 : app_db st d v st1 -> frame st st1.
Proof. intros [->|(a & _ & _ & ->)]; [apply frame_refl|apply frame_with_db]. Qed.

Lemma app_db_wf st d v st1 : app_db st d v st1 -> wf_state st = true -> wf_bytes v = true -> wf_state st1 = true.
Proof.
  intros [->|(a & Ha & Hk & ->)] Hwf Hv; [exact Hwf|].
  apply (store_value_wf st (d + 1) a v Hwf Ha); [rewrite Hk; discriminate|exact Hv].
Qed.

Lemma app_db_proc st d v st1 : app_db st d v st1 -> proc_free st1 = proc_free st.
Proof. intros [->|(a & _ & _ & ->)]; reflexivity. Qed.

Lemma size_notif h x : att_size (PNotification h x) = 3 + nlen x.
Proof. unfold att_size, encode. nl. lia. Qed.
Lemma size_indic h x : att_size (PIndication h x) = 3 + nlen x.
Proof. unfold att_size, encode. nl. lia. Qed.

Lemma app_set_frame st d v hk : frame st (r_state (app_set st d v hk)).
Proof.
  destruct (app_set_shape st d v hk) as [st1 H|st1 id H|st1 id H]; cbn [r_state done];
    try (eapply frame_trans; [apply (app_db_frame _ _ _ _ H)|apply notify_via_frame]).
  apply (app_db_frame _ _ _ _ H).
Qed.

Lemma app_set_out st d v hk : act_out_ok st (r_out (app_set st d v hk)).
Proof.
  destruct (app_set_shape st d v hk) as [st1 H|st1 id H|st1 id H]; cbn [r_out done]; [constructor| |];
    apply (act_out_ok_frame st st1 _ (app_db_frame _ _ _ _ H)); apply notify_via_out; auto using size_notif, size_indic.
Qed.

Lemma app_set_wf st d v hk : wf_state st = true -> wf_bytes v = true -> wf_state (r_state (app_set st d v hk)) = true.
Proof.
  intros Hwf Hv.
  destruct (app_set_shape st d v hk) as [st1 H|st1 id H|st1 id H]; cbn [r_state done];
    pose proof (app_db_wf _ _ _ _ H Hwf Hv) as W; [exact W| |];
    (eapply wf_state_frame; [apply notify_via_frame|apply notify_via_db|exact W]).
Qed.

(** the procedure locks are as they were, whatever the notification hook does *)
Lemma app_set_proc st d v hk : proc_free (r_state (app_set st d v hk)) = proc_free st.
Proof.
  destruct (app_set_shape st d v hk) as [st1 H|st1 id H|st1 id H]; cbn [r_state done];
    rewrite ?notify_via_state; apply (app_db_proc _ _ _ _ H).
Qed.

Lemma app_set_exc st d v hk :
  match r_exc (app_set st d v hk) with
  | None => True
  | Some ExDeadlock => proc_free st = false
  | Some (ExHook o') => forall x, o' <> HOverride x
  | Some _ => False
  end.
Proof.
  destruct (app_set_shape st d v hk) as [st1 H|st1 id H|st1 id H]; [exact I| |];
    match goal with |- context [notify_via ?s ?i ?o ?m ?h ?x] => pose proof (notify_via_exc s i o m h x) as E;
      destruct (r_exc (notify_via s i o m h x)) as [[]|] end; try exact I; try contradiction; try exact E;
    rewrite <- (app_db_proc _ _ _ _ H); exact E.
Qed.

(** a hook call site *)
Lemma hook_act_none st hk o : hook_act st hk None o = (st, [], HOut o).
Proof. reflexivity. Qed.

Lemma hook_act_spec st hk act o st1 pd res :
  hook_act st hk act o = (st1, pd, res) ->
  frame st st1 /\ act_out_ok st pd
  /\ (wf_state st = true -> wf_act act = true -> wf_state st1 = true)
  /\ proc_free st1 = proc_free st
  /\ (act = None -> st1 = st /\ pd = [] /\ res = HOut o)
  /\ (res = HHang -> proc_free st = false)
  /\ (forall x, res = HOut (HOverride x) -> o = HOverride x).
Proof.
  unfold hook_act. destruct act as [[d v]|].
  2:{ intros E. inversion E; subst. repeat split; auto using frame_refl, act_out_ok_nil; try discriminate.
      intros x Hx. inversion Hx. reflexivity. }
  intros E. inversion E; subst. clear E.
  pose proof (app_set_exc st d v hk) as Ex.
  split; [apply app_set_frame|]. split; [apply app_set_out|].
  split; [intros Hwf Hv; apply app_set_wf; assumption|].
  split; [apply app_set_proc|].
  split; [discriminate|]. split.
  - destruct (r_exc (app_set st d v hk)) as [[]|]; try discriminate; try contradiction; auto.
  - intros x Hx. destruct (r_exc (app_set st d v hk)) as [[]|]; inversion Hx; subst; try reflexivity.
    exfalso. apply (Ex x). reflexivity.
Qed.

(** * The lock *)

Lemma locked_out v st body :
  tx_locked st = false -> r_out (locked v st body) = r_out (body (with_lock st true)).
Proof. intros H. unfold locked. rewrite H. destruct (r_exc _) as [[]|]; reflexivity. Qed.

(** a handler body leaves the procedure locks as they were and cannot block for ever when none
    of them is held *)
Definition safe (st : state) (r : hres) : Prop :=
  proc_free (r_state r) = proc_free st /\ (proc_free st = true -> r_exc r <> Some ExDeadlock).

Lemma safe_simple st r :
  r_exc r <> Some ExDeadlock -> proc_free (r_state r) = proc_free st -> safe st r.
Proof. intros H1 H2. split; [exact H2|intros _; exact H1]. Qed.

Lemma hook_error_exc st op opa h o : r_exc (hook_error st op opa h o) <> Some ExDeadlock.
Proof. destruct o as [|x| | | | |g1 g2 g3|]; cbn; discriminate. Qed.

(** the hook call sites *)
Lemma hook_act_safe st hk act o st1 pd res :
  hook_act st hk act o = (st1, pd, res) ->
  proc_free st1 = proc_free st /\ (proc_free st = true -> res <> HHang).
Proof.
  intros E. destruct (hook_act_spec _ _ _ _ _ _ _ E) as (_ & _ & _ & Hp & _ & Hh & _).
  split; [exact Hp|]. intros Hf Hr. rewrite (Hh Hr) in Hf. discriminate.
Qed.

Lemma safe_change st st' r : proc_free st' = proc_free st -> safe st' r -> safe st r.
Proof. intros E [H1 H2]. split; [congruence|]. rewrite <- E. exact H2. Qed.

Lemma post_hook_safe st hk act o out : safe st (post_hook st hk act o out).
Proof.
  unfold post_hook. destruct (hook_act st hk act o) as [[st1 pd] res] eqn:E.
  destruct (hook_act_safe _ _ _ _ _ _ _ E) as [P H].
  destruct res as [o'|]; cbn [r_state r_exc done raise]; (split; [exact P|]).
  - intros _. discriminate.
  - intros Hp. exfalso. apply (H Hp). reflexivity.
Qed.

Lemma read_value_answer_safe st hk op opa h mk normal : safe st (read_value_answer st hk op opa h mk normal).
Proof.
  unfold read_value_answer. destruct (hook_act st hk (ha_read (h_acts hk)) (h_read hk)) as [[st1 pd] res] eqn:E.
  destruct (hook_act_safe _ _ _ _ _ _ _ E) as [P H].
  destruct res as [o'|].
  - destruct o' as [|x| | | | |g1 g2 g3|]; cbn; (split; [exact P|intros _; discriminate]).
  - cbn. split; [exact P|]. intros Hp. exfalso. apply (H Hp). reflexivity.
Qed.

(** destruct the hook call of site [site] appearing in the goal *)
Ltac dha site st' pd res E :=
  match goal with |- context [hook_act ?s ?hk (site (h_acts ?hk)) ?o] =>
    destruct (hook_act s hk (site (h_acts hk)) o) as [[st' pd] res] eqn:E end.

Lemma write_value_safe st hk op opa h val rsp : safe st (write_value st hk op opa h val rsp).
Proof.
  unfold write_value. cbv zeta.
  dha ha_write st1 pd1 res1 E1.
  destruct (hook_act_safe _ _ _ _ _ _ _ E1) as [P1 H1].
  destruct res1 as [o1|].
  - destruct o1 as [|x| | | | |g1 g2 g3|];
      try (cbn; split; [exact P1|intros _; discriminate]).
    + eapply safe_change; [|apply post_hook_safe]. exact P1.
    + eapply safe_change; [|apply post_hook_safe]. exact P1.
    + destruct rsp; cbn; (split; [exact P1|intros _; discriminate]).
  - cbn. split; [exact P1|]. intros Hp. exfalso. apply (H1 Hp). reflexivity.
Qed.

Lemma cccd_effects_safe st hk h newv record out : safe st (cccd_effects st hk h newv record out).
Proof.
  unfold cccd_effects.
  destruct (un_le16_2 newv) as [cfg|]; [|apply safe_simple; [cbn; discriminate|reflexivity]].
  destruct (owner_decl h (st_db st) None) as [d|]; [|apply safe_simple; [cbn; discriminate|reflexivity]].
  destruct (cfg =? 1); [destruct record; (eapply safe_change; [|apply post_hook_safe]); reflexivity|].
  destruct (cfg =? 2); [destruct record; (eapply safe_change; [|apply post_hook_safe]); reflexivity|].
  destruct (cfg =? 0); [(eapply safe_change; [|apply post_hook_safe]); reflexivity|].
  apply safe_simple; [cbn; discriminate|reflexivity].
Qed.

Ltac nodl := cbn; let E0 := fresh in (intro E0; discriminate E0).

Lemma read_req_safe st hk h : safe st (h_read_req V_fixed st hk h).
Proof.
  unfold h_read_req. cbn [fx_read_default V_fixed].
  destruct (h =? 0); [apply safe_simple; [nodl|reflexivity]|].
  destruct (lookup h (st_db st)) as [a|]; [|apply safe_simple; [nodl|reflexivity]].
  destruct (a_kind a); try (apply safe_simple; [nodl|reflexivity]).
  destruct (read_denied st h); [apply safe_simple; [nodl|reflexivity]|apply read_value_answer_safe].
Qed.

Lemma read_blob_safe st hk h off : safe st (h_read_blob V_fixed st hk h off).
Proof.
  unfold h_read_blob, blob_value_branch. cbn [fx_blob V_fixed].
  destruct (h =? 0); [apply safe_simple; [nodl|reflexivity]|].
  destruct (lookup h (st_db st)) as [a|]; [|apply safe_simple; [nodl|reflexivity]].
  destruct (a_kind a);
    repeat match goal with
    | |- context [read_denied st h] => destruct (read_denied st h)
    | |- context [off <? ?x] => destruct (off <? x)
    | |- context [off =? ?x] => destruct (off =? x)
    end; try (apply safe_simple; [nodl|reflexivity]); apply read_value_answer_safe.
Qed.

Lemma write_gen_safe st hk is_cmd h val : safe st (h_write_gen V_fixed st hk is_cmd h val).
Proof.
  unfold h_write_gen. cbn [fx_write_default fx_sub_record V_fixed].
  destruct (h =? 0); [apply safe_simple; [nodl|reflexivity]|].
  destruct (lookup h (st_db st)) as [a|]; [|apply safe_simple; [nodl|reflexivity]].
  destruct (a_kind a); try (destruct is_cmd; (apply safe_simple; [nodl|reflexivity])).
  - destruct (write_denied st h E_NOT_FOUND); [apply safe_simple; [nodl|reflexivity]|apply write_value_safe].
  - match goal with |- context [if ?b then cccd_effects _ _ _ _ _ _ else _] => destruct b end;
      [apply cccd_effects_safe|apply safe_simple; [nodl|reflexivity]].
Qed.

Lemma exec_loop_safe q : forall st,
  match exec_loop V_fixed st q with
  | inl r => r_exc r = None /\ proc_free (r_state r) = proc_free st
  | inr st' => proc_free st' = proc_free st
  end.
Proof.
  induction q as [|[h ws] q IH]; intros st; cbn [exec_loop]; [reflexivity|].
  cbn [fx_exec_perm V_fixed].
  destruct (lookup h (st_db st)) as [a|]; [|split; reflexivity].
  destruct (a_kind a); try apply IH.
  destruct (write_denied st h E_INVALID_HANDLE); [split; reflexivity|].
  destruct (apply_writes h ws (st_db st)) as [db' ok]. destruct ok; [|split; reflexivity].
  apply (IH (with_db st db')).
Qed.

Lemma execute_safe st f : safe st (h_execute V_fixed st f).
Proof.
  unfold h_execute. cbn [fx_exec_clear fx_exec_flags V_fixed].
  destruct (f =? 0); [apply safe_simple; [nodl|reflexivity]|].
  destruct (f =? 1); [|apply safe_simple; [nodl|reflexivity]].
  pose proof (exec_loop_safe (i_queues (st_cur st)) st) as H.
  destruct (exec_loop V_fixed st (i_queues (st_cur st))) as [r|s].
  - destruct H as [H1 H2]. apply safe_simple; [rewrite H1; discriminate|exact H2].
  - apply safe_simple; [nodl|exact H].
Qed.

(** handlers that do not change the state *)
Lemma find_info_state st s e : r_state (h_find_info st s e) = st.
Proof. unfold h_find_info. break; reflexivity. Qed.
Lemma fbtv_state v st s e ty vr : r_state (h_fbtv v st s e ty vr) = st.
Proof. unfold h_fbtv. break; reflexivity. Qed.
Lemma read_by_type_state st s e ty : r_state (h_read_by_type st s e ty) = st.
Proof. unfold h_read_by_type. break; reflexivity. Qed.
Lemma read_by_group_state v st s e ty : r_state (h_read_by_group v st s e ty) = st.
Proof. unfold h_read_by_group. break; reflexivity. Qed.
Lemma unparsed_state st o : r_state (unparsed st o) = st.
Proof. unfold unparsed. destruct (req_opcode o); reflexivity. Qed.
Lemma unparsed_exc st o : r_exc (unparsed st o) = None.
Proof. unfold unparsed. destruct (req_opcode o); reflexivity. Qed.

Lemma find_info_exc st s e : r_exc (h_find_info st s e) = None.
Proof. unfold h_find_info. break; reflexivity. Qed.
Lemma read_by_type_exc st s e ty : r_exc (h_read_by_type st s e ty) = None.
Proof. unfold h_read_by_type. break; reflexivity. Qed.
Lemma fbtv_exc v st s e ty vr : r_exc (h_fbtv v st s e ty vr) <> Some ExDeadlock.
Proof. unfold h_fbtv. break; cbn; discriminate. Qed.
Lemma read_by_group_exc v st s e ty : r_exc (h_read_by_group v st s e ty) <> Some ExDeadlock.
Proof. unfold h_read_by_group. break; cbn; discriminate. Qed.

Lemma locked_safe st body :
  tx_locked st = false -> proc_free st = true -> safe (with_lock st true) (body (with_lock st true)) ->
  tx_locked (r_state (locked V_fixed st body)) = false /\ proc_free (r_state (locked V_fixed st body)) = true.
Proof.
  intros Hl Hp [S1 S2]. unfold locked. rewrite Hl. cbn [fx_finally V_fixed negb].
  assert (S4 : proc_free (r_state (body (with_lock st true))) = true) by (rewrite S1; exact Hp).
  specialize (S2 Hp).
  destruct (r_exc (body (with_lock st true))) as [[]|]; try (split; [reflexivity|exact S4]). contradiction.
Qed.

Lemma handle_safe st r hk :
  tx_locked st = false -> proc_free st = true ->
  tx_locked (r_state (handle V_fixed st r hk)) = false /\ proc_free (r_state (handle V_fixed st r hk)) = true.
Proof.
  intros Hl Hp.
  assert (Triv : tx_locked st = false /\ proc_free st = true) by auto.
  destruct r; cbn [handle fx_rbt128 V_fixed]; try exact Triv; try (rewrite unparsed_state; exact Triv);
    try apply (locked_safe st _ Hl Hp).
  - apply safe_simple; [nodl|]. unfold h_mtu. destruct (23 <=? mtu); reflexivity.
  - apply safe_simple; [rewrite find_info_exc; discriminate|rewrite find_info_state; reflexivity].
  - apply safe_simple; [apply fbtv_exc|rewrite fbtv_state; reflexivity].
  - apply safe_simple; [rewrite read_by_type_exc; discriminate|rewrite read_by_type_state; reflexivity].
  - apply safe_simple; [rewrite read_by_type_exc; discriminate|rewrite read_by_type_state; reflexivity].
  - apply read_req_safe.
  - apply read_blob_safe.
  - destruct hs; [rewrite unparsed_state; exact Triv|]. apply (locked_safe st _ Hl Hp). apply safe_simple; [nodl|reflexivity].
  - apply safe_simple; [apply read_by_group_exc|rewrite read_by_group_state; reflexivity].
  - apply write_gen_safe.
  - apply write_gen_safe.
  - apply safe_simple; unfold h_prepare; (destruct (lookup h _) as [a|]; [destruct (a_kind a)|]); cbn; try discriminate; reflexivity.
  - apply execute_safe.
  - apply safe_simple; [nodl|reflexivity].
Qed.

(** NEVER WEDGES: no request, whatever its content, whatever the database and whatever the hooks
    return, raise or update, leaves the transmit lock or a procedure lock held *)
Lemma never_wedges st r hk :
  tx_locked st = false -> proc_free st = true ->
  tx_locked (fst (server_step st r hk)) = false /\ proc_free (fst (server_step st r hk)) = true.
Proof. intros Hl Hp. apply (handle_safe st r hk Hl Hp). Qed.

(** ... along every history *)
Lemma app_set_lock st d val hk : tx_locked (r_state (app_set st d val hk)) = tx_locked st.
Proof. apply (fr_lock _ _ (app_set_frame st d val hk)). Qed.

Lemma step_unlocked st ev :
  tx_locked st = false -> proc_free st = true ->
  tx_locked (r_state (step V_fixed st ev)) = false /\ proc_free (r_state (step V_fixed st ev)) = true.
Proof.
  intros Hl Hp. destruct ev; cbn [step] in *.
  - destruct (st_connected st); [apply (handle_safe st r hk Hl Hp)|auto].
  - cbn [r_state done]. destruct (st_connected st); auto.
  - rewrite app_set_lock, app_set_proc. auto.
  - cbn [r_state done]. unfold disconnect. destruct (st_connected st); [|auto].
    cbn [fx_disc_term V_fixed]. split; [exact Hl|exact Hp].
  - cbn [r_state done]. unfold connect. destruct (st_connected st); [auto|]. split; [reflexivity|].
    unfold proc_free in *. cbn [st_cur st_dead new_inst i_proc_locked negb forallb andb]. exact Hp.
Qed.

Lemma never_wedges_history evs : forall st,
  tx_locked st = false -> proc_free st = true ->
  tx_locked (run_state V_fixed st evs) = false /\ proc_free (run_state V_fixed st evs) = true.
Proof.
  induction evs as [|ev r IH]; intros st Hl Hp; cbn [run_state]; [auto|].
  destruct (step_unlocked st ev Hl Hp) as [H1 H2]. apply IH; assumption.
Qed.

(** the probe request of the harness is answered in every unlocked, connected state *)
Lemma probe_answered st :
  tx_locked st = false ->
  r_out (handle V_fixed st (Read 0) no_hooks) = [PError 10 0 1].
Proof. intros H. cbn [handle]. unfold locked. rewrite H. cbn. reflexivity. Qed.

(** * one_response *)

Definition rsps (out : list att_pdu) : list att_pdu := filter is_rsp out.

Lemma rsps_app a b : rsps (a ++ b) = rsps a ++ rsps b.
Proof. apply filter_app. Qed.

Lemma rsps_act st pd : act_out_ok st pd -> rsps pd = [].
Proof.
  induction 1 as [|p r [H _] _ IH]; [reflexivity|]. unfold rsps in *. cbn [filter]. rewrite H. exact IH.
Qed.

Lemma rsps_all out : Forall (fun p => is_rsp p = true) out -> rsps out = out.
Proof. induction 1 as [|p r H _ IH]; [reflexivity|]. unfold rsps in *. cbn [filter]. rewrite H, IH. reflexivity. Qed.

Lemma hook_error_rsps st op opa h o : rsps (r_out (hook_error st op opa h o)) = r_out (hook_error st op opa h o).
Proof. destruct o as [|x| | | | |g1 g2 g3|]; reflexivity. Qed.

Lemma hook_error_len st op opa h o :
  match o with HReturn | HOverride _ => False | _ => True end ->
  length (r_out (hook_error st op opa h o)) = 1%nat.
Proof. destruct o as [|x| | | | |g1 g2 g3|]; cbn; intros; try reflexivity; contradiction. Qed.

(** a hook call site: the update sends no response; without a stuck procedure lock it comes back *)
Lemma hook_act_rsps st hk act o st1 pd res :
  hook_act st hk act o = (st1, pd, res) ->
  rsps pd = [] /\ proc_free st1 = proc_free st /\ (proc_free st = true -> exists o', res = HOut o').
Proof.
  intros E. destruct (hook_act_spec _ _ _ _ _ _ _ E) as (_ & Ho & _ & Hp & _ & Hh & _).
  split; [apply (rsps_act st), Ho|]. split; [exact Hp|]. intros Hf.
  destruct res as [o'|]; [exists o'; reflexivity|]. rewrite (Hh eq_refl) in Hf. discriminate.
Qed.

Lemma post_hook_rsps st hk act o out : rsps (r_out (post_hook st hk act o out)) = rsps out.
Proof.
  unfold post_hook. destruct (hook_act st hk act o) as [[st1 pd] res] eqn:E.
  destruct (hook_act_spec _ _ _ _ _ _ _ E) as (_ & Ho & _).
  assert (R : rsps (out ++ pd) = rsps out) by (rewrite rsps_app, (rsps_act st pd Ho), app_nil_r; reflexivity).
  destruct res as [o'|]; exact R.
Qed.

Lemma read_value_answer_len st hk op opa h (mk : bytes -> att_pdu) normal :
  proc_free st = true -> (forall x, is_rsp (mk x) = true) ->
  length (rsps (r_out (read_value_answer st hk op opa h mk normal))) = 1%nat.
Proof.
  intros Hp Hmk. unfold read_value_answer.
  destruct (hook_act st hk (ha_read (h_acts hk)) (h_read hk)) as [[st1 pd] res] eqn:E.
  destruct (hook_act_rsps _ _ _ _ _ _ _ E) as (Hpd & _ & Hres). destruct (Hres Hp) as [o' ->].
  destruct o' as [|x| | | | |g1 g2 g3|]; cbn [r_out done prepend];
    rewrite rsps_app, Hpd; try (unfold rsps; cbn [filter app]; rewrite Hmk; reflexivity);
    rewrite hook_error_rsps; reflexivity.
Qed.

Lemma find_info_len st s e : length (rsps (r_out (h_find_info st s e))) = 1%nat.
Proof. unfold h_find_info. break; reflexivity. Qed.

Lemma fbtv_match_fixed st ty vr attrs : fbtv_match V_fixed st ty vr attrs <> None.
Proof.
  induction attrs as [|a r IH]; cbn [fbtv_match]; [discriminate|].
  destruct (negb (bytes_eqb ty (a_type a))); [exact IH|].
  destruct (fbtv_match V_fixed st ty vr r); [|contradiction].
  cbn [fx_fbtv V_fixed]. destruct (a_kind a); discriminate.
Qed.

Lemma fbtv_len st s e ty vr : length (rsps (r_out (h_fbtv V_fixed st s e ty vr))) = 1%nat.
Proof.
  unfold h_fbtv. destruct ((s =? 0) || (e <? s)); [reflexivity|].
  destruct (fbtv_match V_fixed st (uuid16 ty) vr (by_range s e (st_db st))) as [l|] eqn:E.
  - destruct l; reflexivity.
  - exfalso. exact (fbtv_match_fixed _ _ _ _ E).
Qed.

Lemma read_req_len st hk h :
  proc_free st = true -> length (rsps (r_out (h_read_req V_fixed st hk h))) = 1%nat.
Proof.
  intros Hp. unfold h_read_req. cbn [fx_read_default V_fixed].
  destruct (h =? 0); [reflexivity|].
  destruct (lookup h (st_db st)) as [a|]; [|reflexivity].
  destruct (a_kind a); try reflexivity.
  destruct (read_denied st h); [reflexivity|apply read_value_answer_len; auto].
Qed.

Lemma read_blob_len st hk h off :
  proc_free st = true -> length (rsps (r_out (h_read_blob V_fixed st hk h off))) = 1%nat.
Proof.
  intros Hp. unfold h_read_blob, blob_value_branch. cbn [fx_blob V_fixed].
  destruct (h =? 0); [reflexivity|].
  destruct (lookup h (st_db st)) as [a|]; [|reflexivity].
  destruct (a_kind a);
    repeat match goal with
    | |- context [read_denied st h] => destruct (read_denied st h)
    | |- context [off <? ?x] => destruct (off <? x)
    | |- context [off =? ?x] => destruct (off =? x)
    end; try reflexivity; apply read_value_answer_len; auto.
Qed.

Lemma cccd_effects_out st hk h newv record out : rsps (r_out (cccd_effects st hk h newv record out)) = rsps out.
Proof.
  unfold cccd_effects.
  destruct (un_le16_2 newv) as [cfg|]; [|reflexivity].
  destruct (owner_decl h (st_db st) None) as [d|]; [|reflexivity].
  destruct (cfg =? 1); [destruct record; apply post_hook_rsps|].
  destruct (cfg =? 2); [destruct record; apply post_hook_rsps|].
  destruct (cfg =? 0); [apply post_hook_rsps|reflexivity].
Qed.

Lemma write_value_len st hk op opa h val rsp :
  proc_free st = true -> rsps rsp = rsp ->
  length (rsps (r_out (write_value st hk op opa h val rsp))) = length rsp
  \/ length (rsps (r_out (write_value st hk op opa h val rsp))) = 1%nat.
Proof.
  intros Hp Hrsp. unfold write_value. cbv zeta.
  dha ha_write st1 pd1 res1 E1.
  destruct (hook_act_rsps _ _ _ _ _ _ _ E1) as (Hpd1 & _ & Hres). destruct (Hres Hp) as [o1 ->].
  assert (Herr : forall o, match o with HReturn | HOverride _ => False | _ => True end ->
            length (rsps (r_out (prepend pd1 (hook_error st1 op opa h o)))) = 1%nat).
  { intros o Ho. cbn [r_out prepend]. rewrite rsps_app, Hpd1, hook_error_rsps. apply hook_error_len, Ho. }
  destruct o1 as [|x| | | | |g1 g2 g3|]; try (right; apply Herr; exact I).
  - left. rewrite post_hook_rsps, rsps_app, Hpd1, Hrsp. reflexivity.
  - left. rewrite post_hook_rsps, rsps_app, Hpd1, Hrsp. reflexivity.
  - destruct rsp as [|p rsp]; [left; cbn [r_out done]; rewrite Hpd1; reflexivity|].
    right. apply Herr. exact I.
Qed.

Lemma write_gen_len st hk is_cmd h val :
  proc_free st = true ->
  let n := length (rsps (r_out (h_write_gen V_fixed st hk is_cmd h val))) in
  if is_cmd then (n <= 1)%nat else n = 1%nat.
Proof.
  intros Hp. unfold h_write_gen. cbn [fx_write_default fx_sub_record V_fixed].
  assert (Hrsp : rsps (if is_cmd then [] else [PWriteRsp]) = (if is_cmd then [] else [PWriteRsp])) by (destruct is_cmd; reflexivity).
  assert (Hlen : length (if is_cmd then [] else [PWriteRsp]) = if is_cmd then 0%nat else 1%nat) by (destruct is_cmd; reflexivity).
  destruct (h =? 0); [destruct is_cmd; cbn; lia|].
  destruct (lookup h (st_db st)) as [a|]; [|destruct is_cmd; cbn; lia].
  destruct (a_kind a); try (destruct is_cmd; cbn; lia).
  - destruct (write_denied st h E_NOT_FOUND); [destruct is_cmd; cbn; lia|].
    destruct (write_value_len st hk (if is_cmd then OP_WCMD else OP_WRITE) (if is_cmd then OP_WCMD else OP_READ) h val
                (if is_cmd then [] else [PWriteRsp]) Hp Hrsp) as [E|E]; cbv zeta; rewrite E; rewrite ?Hlen; destruct is_cmd; lia.
  - match goal with |- context [if ?b then cccd_effects _ _ _ _ _ _ else _] => destruct b end.
    + cbv zeta. rewrite cccd_effects_out, Hrsp, Hlen. destruct is_cmd; lia.
    + destruct is_cmd; cbn; lia.
Qed.

Lemma prepare_len st h off val : length (rsps (r_out (h_prepare st h off val))) = 1%nat.
Proof. unfold h_prepare. destruct (lookup h (st_db st)) as [a|]; [destruct (a_kind a)|]; reflexivity. Qed.

Lemma exec_loop_len q : forall st r, exec_loop V_fixed st q = inl r -> length (rsps (r_out r)) = 1%nat.
Proof.
  induction q as [|[h ws] q IH]; intros st r; cbn [exec_loop]; [discriminate|].
  cbn [fx_exec_perm V_fixed].
  destruct (lookup h (st_db st)) as [a|]; [|intros E; inversion E; reflexivity].
  destruct (a_kind a); try apply IH.
  destruct (write_denied st h E_INVALID_HANDLE); [intros E; inversion E; reflexivity|].
  destruct (apply_writes h ws (st_db st)) as [db' ok]. destruct ok; [apply IH|intros E; inversion E; reflexivity].
Qed.

Lemma execute_len st f : length (rsps (r_out (h_execute V_fixed st f))) = 1%nat.
Proof.
  unfold h_execute. destruct (f =? 0); [reflexivity|]. destruct (f =? 1); [|reflexivity].
  destruct (exec_loop V_fixed st (i_queues (st_cur st))) eqn:E; [eapply exec_loop_len; eauto|reflexivity].
Qed.

Lemma read_by_type_len st s e ty : length (rsps (r_out (h_read_by_type st s e ty))) = 1%nat.
Proof. unfold h_read_by_type. break; reflexivity. Qed.

Lemma group_items_fixed usz attrs : group_items V_fixed usz attrs <> None.
Proof.
  induction attrs as [|a r IH]; cbn [group_items]; [discriminate|].
  cbn [fx_group_desc V_fixed].
  destruct (a_kind a); (destruct (nlen (obj_uuid a) =? usz); [|discriminate]);
    destruct (group_items V_fixed usz r); try discriminate; contradiction.
Qed.

Lemma read_by_group_len st s e ty : length (rsps (r_out (h_read_by_group V_fixed st s e ty))) = 1%nat.
Proof.
  unfold h_read_by_group. destruct ((s =? 0) || (e <? s)); [reflexivity|].
  destruct (negb (existsb (N.eqb ty) SUPPORTED_GROUPS)); [reflexivity|].
  destruct (by_type (uuid16 ty) s e (st_db st)) as [|a0 r]; [reflexivity|].
  cbv zeta.
  match goal with |- context [group_items V_fixed ?u ?l] => destruct (group_items V_fixed u l) eqn:E end;
    [reflexivity | exfalso; exact (group_items_fixed _ _ E)].
Qed.

(** ONE RESPONSE: exactly one response per request (unknown and unparsable requests included), at
    most one per command, one confirmation per indication -- for every state and all hooks
    (notifications a hook's update sends meanwhile are not responses) *)
Lemma one_response st r hk :
  tx_locked st = false -> proc_free st = true ->
  let rsp := rsps (snd (server_step st r hk)) in
  (is_request r = true -> length rsp = 1%nat)
  /\ (is_command r = true -> (length rsp <= 1)%nat)
  /\ (is_indication r = true -> rsp = [PConfirmation]).
Proof.
  intros Hl Hp.
  unfold server_step, server_step_v. cbn [snd].
  assert (Hp' : proc_free (with_lock st true) = true) by exact Hp.
  pose proof (fun h v => write_gen_len (with_lock st true) hk false h v Hp') as Wreq.
  pose proof (fun h v => write_gen_len (with_lock st true) hk true h v Hp') as Wcmd.
  cbv zeta in Wreq, Wcmd.
  destruct r; cbn [handle is_request is_command is_indication fx_rbt128 V_fixed];
    rewrite ?(locked_out _ _ _ Hl);
    (split; [intros Hk | split; intros Hk]); try discriminate Hk;
    try first [ reflexivity | apply find_info_len | apply fbtv_len | apply read_by_type_len
              | apply read_req_len; assumption | apply read_blob_len; assumption | apply read_by_group_len
              | apply Wreq | apply Wcmd | apply prepare_len | apply execute_len
              | (cbn; lia) ].
  - destruct hs as [|h0 hs]; [reflexivity|rewrite (locked_out _ _ _ Hl); reflexivity].
  - unfold unparsed. rewrite Hk. reflexivity.
  - unfold unparsed. destruct (req_opcode opcode); cbn; lia.
Qed.

Definition fits (m : N) (out : list att_pdu) : Prop := Forall (fun p => att_size p <= m) out.

Lemma fits_nil m : fits m [].
Proof. constructor. Qed.

Lemma fits_one m p : att_size p <= m -> fits m [p].
Proof. intros. constructor; [assumption|constructor]. Qed.

Lemma fits_err m st a b c : 23 <= m -> fits m (r_out (err st a b c)).
Proof. intros. apply fits_one. rewrite size_error. lia. Qed.

Lemma list_pdu_size (m isz : N) {A} (enc : A -> bytes) (items : list A) :
  isz <> 0 -> (length items <= N.to_nat ((m - 2) / isz))%nat -> 2 <= m ->
  (forall it, In it items -> nlen (enc it) = isz) ->
  2 + nlen (concat (map enc items)) <= m.
Proof.
  intros Hz Hl Hm He. rewrite (nlen_concat_map enc isz items He).
  assert (N.of_nat (length items) <= (m - 2) / isz) by lia.
  assert ((m - 2) / isz * isz <= m - 2) by (apply div_mul_le; assumption).
  nia.
Qed.

Lemma by_range_in s e db a : In a (by_range s e db) -> In a db.
Proof. unfold by_range. intros H. apply filter_In in H. tauto. Qed.

Lemma by_type_in ty s e db a : In a (by_type ty s e db) -> In a db /\ bytes_eqb (a_type a) ty = true.
Proof. unfold by_type. intros H. apply filter_In in H as [H1 H2]. apply andb_true_iff in H2. tauto. Qed.

Lemma wf_in db a : forallb wf_attr db = true -> In a db -> wf_attr a = true.
Proof. intros H. rewrite forallb_forall in H. apply H. Qed.

Lemma find_info_fits st s e :
  23 <= mtu_of st -> forallb wf_attr (st_db st) = true -> fits (mtu_of st) (r_out (h_find_info st s e)).
Proof.
  intros Hm Hwf. unfold h_find_info.
  destruct ((s =? 0) || (e <? s)); [apply fits_err, Hm|].
  destruct (by_range s e (st_db st)) as [|a0 r] eqn:E; [apply fits_err, Hm|].
  cbv zeta. apply fits_one. unfold att_size, encode. nl.
  assert (Hu : uuid_len_ok (a_type a0) = true).
  { apply wf_attr_type, (wf_in (st_db st)); [exact Hwf|]. apply (by_range_in s e). rewrite E. left. reflexivity. }
  apply uuid_len_cases in Hu.
  assert (forall x, 1 + (1 + x) = 2 + x) as R by (intros; lia). rewrite R. clear R.
  apply (list_pdu_size (mtu_of st) (nlen (a_type a0) + 2)); try lia.
  - rewrite map_length. apply take_while_firstn_length.
  - intros it Hin. apply in_map_iff in Hin as (a & <- & Hin).
    apply take_while_in in Hin as [_ Hin]. apply N.eqb_eq in Hin.
    unfold enc_hv. cbn [fst snd]. nl. lia.
Qed.

Lemma fbtv_fits v st s e ty vr :
  23 <= mtu_of st -> fits (mtu_of st) (r_out (h_fbtv v st s e ty vr)).
Proof.
  intros Hm. unfold h_fbtv. destruct ((s =? 0) || (e <? s)); [apply fits_err, Hm|].
  destruct (fbtv_match v st (uuid16 ty) vr (by_range s e (st_db st))) as [[|x l]|]; try apply fits_err, Hm; [|apply fits_nil].
  cbv zeta. apply fits_one. unfold att_size, encode. nl.
  rewrite (nlen_concat_map enc_hh 4) by (intros; reflexivity).
  pose proof (firstn_le_length (N.to_nat ((mtu_of st - 1) / 4)) (x :: l)). lia.
Qed.

Lemma payload_len a : wf_attr a = true ->
  match a_kind a with
  | KDecl => nlen (payload a) = 3 + nlen (a_uuid a) /\ (nlen (a_uuid a) = 2 \/ nlen (a_uuid a) = 16)
  | KPrimary | KSecondary => nlen (payload a) = 2 \/ nlen (payload a) = 16
  | KInclude => nlen (payload a) = 4 \/ nlen (payload a) = 6
  | _ => True
  end.
Proof.
  intros H. pose proof (wf_attr_uuid a H) as Hu. unfold payload.
  destruct (a_kind a); trivial; apply uuid_len_cases in Hu.
  - exact Hu.
  - exact Hu.
  - nl. destruct Hu as [E|E]; rewrite E; cbn; [right|left]; rewrite ?E; lia.
  - nl. split; [lia|exact Hu].
Qed.

Lemma size_small p m : 23 <= m ->
  match p with PWriteRsp | PExecuteWriteRsp | PConfirmation | PMtuRsp _ | PError _ _ _ => True | _ => False end ->
  att_size p <= m.
Proof. destruct p; intros Hm H; try contradiction; unfold att_size, encode; nl; lia. Qed.

Lemma fits_app m a b : fits m a -> fits m b -> fits m (a ++ b).
Proof. intros. apply Forall_app. split; assumption. Qed.

Lemma hook_error_fits st op opa h o m : 23 <= m -> fits m (r_out (hook_error st op opa h o)).
Proof. intros. destruct o as [|x| | | | |g1 g2 g3|]; cbn; try apply fits_nil; apply fits_one; rewrite size_error; lia. Qed.

Lemma prepare_fits st h off val :
  5 + nlen val <= mtu_of st -> 23 <= mtu_of st -> fits (mtu_of st) (r_out (h_prepare st h off val)).
Proof.
  intros Hs Hm. unfold h_prepare. destruct (lookup h (st_db st)) as [a|]; [|apply fits_err, Hm].
  destruct (a_kind a); try (apply fits_err, Hm).
  apply fits_one. unfold att_size, encode. nl. lia.
Qed.

Lemma exec_loop_fits m q : 23 <= m -> forall st r, exec_loop V_fixed st q = inl r -> fits m (r_out r).
Proof.
  intros Hm. induction q as [|[h ws] q IH]; intros st r; cbn [exec_loop]; [discriminate|].
  cbn [fx_exec_perm V_fixed].
  destruct (lookup h (st_db st)) as [a|]; [|intros E; inversion E; apply fits_err, Hm].
  destruct (a_kind a); try apply IH.
  destruct (write_denied st h E_INVALID_HANDLE); [intros E; inversion E; apply fits_err, Hm|].
  destruct (apply_writes h ws (st_db st)) as [db' ok]. destruct ok; [apply IH|intros E; inversion E; apply fits_err, Hm].
Qed.

Lemma execute_fits st f : 23 <= mtu_of st -> fits (mtu_of st) (r_out (h_execute V_fixed st f)).
Proof.
  intros Hm. unfold h_execute.
  assert (He : fits (mtu_of st) [PExecuteWriteRsp]) by (apply fits_one, size_small; [exact Hm|exact I]).
  destruct (f =? 0); [exact He|]. destruct (f =? 1); [|apply fits_err, Hm].
  destruct (exec_loop V_fixed st (i_queues (st_cur st))) eqn:E; [eapply exec_loop_fits; eauto|exact He].
Qed.

Lemma read_by_type_fits st s e ty :
  23 <= mtu_of st -> fits (mtu_of st) (r_out (h_read_by_type st s e ty)).
Proof.
  intros Hm. unfold h_read_by_type.
  destruct ((s =? 0) || (e <? s)); [apply fits_err, Hm|].
  destruct (by_type ty s e (st_db st)) as [|a0 r]; [apply fits_err, Hm|].
  cbv zeta.
  destruct (bytes_eqb ty (uuid16 10243)).
  - match goal with |- context [match ?l with [] => _ | _ => _ end] => destruct l eqn:El end; [apply fits_err, Hm|].
    rewrite <- El. apply fits_one. unfold att_size, encode. nl.
    assert (forall x, 1 + (1 + x) = 2 + x) as R by (intros; lia). rewrite R. clear R.
    apply (list_pdu_size (mtu_of st) (nlen (a_uuid a0) + 5)); try lia.
    + rewrite map_length. etransitivity; [apply filter_len_le|apply take_while_firstn_length].
    + intros it Hin. apply in_map_iff in Hin as (a & <- & Hin).
      apply filter_In in Hin as [Hin H2]. apply take_while_in in Hin as [_ H1]. apply N.eqb_eq in H1.
      unfold enc_hv, payload. cbn [fst snd]. destruct (a_kind a); try discriminate. nl. lia.
  - destruct (bytes_eqb ty (uuid16 10242)); [|apply fits_err, Hm].
    match goal with |- context [match ?l with [] => _ | _ => _ end] => destruct l eqn:El end; [apply fits_err, Hm|].
    rewrite <- El. apply fits_one. unfold att_size, encode. nl.
    assert (forall x, 1 + (1 + x) = 2 + x) as R by (intros; lia). rewrite R. clear R.
    apply (list_pdu_size (mtu_of st) 8); try lia.
    + rewrite map_length. apply filter_firstn_length.
    + intros it Hin. apply in_map_iff in Hin as (a & <- & Hin).
      apply filter_In in Hin as [_ Hin]. apply andb_true_iff in Hin as [H1 H2].
      unfold enc_hv, payload. cbn [fst snd]. destruct (a_kind a); try discriminate. rewrite H1. nl.
      apply N.eqb_eq in H1. lia.
Qed.

Lemma group_items_spec v usz attrs : forall items,
  group_items v usz attrs = Some items ->
  (length items <= length attrs)%nat /\ (forall it, In it items -> nlen (snd it) = usz).
Proof.
  induction attrs as [|a r IH]; cbn [group_items]; intros items H.
  - inversion H; subst. split; [cbn; lia|intros ? []].
  - destruct (match a_kind a with
              | KPrimary | KSecondary | KDecl => Some (a_end a)
              | KInclude => Some (a_handle a)
              | _ => if fx_group_desc v then Some (a_handle a) else None end) as [eh|]; [|discriminate].
    destruct (nlen (obj_uuid a) =? usz) eqn:E.
    + destruct (group_items v usz r) as [l|]; [|discriminate]. inversion H; subst.
      destruct (IH l eq_refl) as [H1 H2]. split; [cbn; lia|].
      intros it [<-|Hin]; [apply N.eqb_eq in E; exact E|apply H2, Hin].
    + inversion H; subst. split; [cbn; lia|intros ? []].
Qed.

Lemma read_by_group_fits v st s e ty :
  23 <= mtu_of st -> fits (mtu_of st) (r_out (h_read_by_group v st s e ty)).
Proof.
  intros Hm. unfold h_read_by_group.
  destruct ((s =? 0) || (e <? s)); [apply fits_err, Hm|].
  destruct (negb (existsb (N.eqb ty) SUPPORTED_GROUPS)); [apply fits_err, Hm|].
  destruct (by_type (uuid16 ty) s e (st_db st)) as [|a0 r]; [apply fits_err, Hm|].
  cbv zeta.
  match goal with |- context [group_items v ?u ?l] => destruct (group_items v u l) as [items|] eqn:E end; [|apply fits_nil].
  apply group_items_spec in E as [H1 H2].
  apply fits_one. unfold att_size, encode. nl.
  assert (forall x, 1 + (1 + x) = 2 + x) as R by (intros; lia). rewrite R. clear R.
  apply (list_pdu_size (mtu_of st) (nlen (obj_uuid a0) + 4)); try lia.
  - pose proof (firstn_le_length (N.to_nat ((mtu_of st - 2) / (nlen (obj_uuid a0) + 4))) (a0 :: r)). lia.
  - intros it Hin. unfold enc_hhv. nl. rewrite (H2 it Hin). lia.
Qed.


Definition pfits (st : state) (out : list att_pdu) : Prop := Forall (fun p => pdu_fits st p = true) out.

Lemma fits_pfits st out : fits (mtu_of st) out -> pfits st out.
Proof.
  intros H. eapply Forall_impl; [|exact H]. intros p Hp. unfold pdu_fits.
  apply orb_true_iff. left. apply N.leb_le. exact Hp.
Qed.
Lemma pfits_app st a b : pfits st a -> pfits st b -> pfits st (a ++ b).
Proof. intros. apply Forall_app. split; assumption. Qed.
Lemma pfits_act st pd : act_out_ok st pd -> pfits st pd.
Proof. intros H. eapply Forall_impl; [|exact H]. intros p [_ Hp]. exact Hp. Qed.
Lemma pfits_one st p : att_size p <= mtu_of st -> pfits st [p].
Proof. intros. apply fits_pfits, fits_one. assumption. Qed.

Lemma hook_act_pfits st0 st hk act o st1 pd res :
  mframe st0 st -> hook_act st hk act o = (st1, pd, res) -> pfits st0 pd /\ mframe st0 st1.
Proof.
  intros F E. destruct (hook_act_spec _ _ _ _ _ _ _ E) as (F1 & Ho & _).
  split; [apply pfits_act, (act_out_ok_mframe st0 st _ F Ho)|eapply mframe_trans; [exact F|apply frame_m, F1]].
Qed.

Lemma post_hook_pfits st0 st hk act o out :
  mframe st0 st -> pfits st0 out -> pfits st0 (r_out (post_hook st hk act o out)).
Proof.
  intros F Ho. unfold post_hook. destruct (hook_act st hk act o) as [[st1 pd] res] eqn:E.
  destruct (hook_act_pfits _ _ _ _ _ _ _ _ F E) as [Hp _].
  destruct res as [o'|]; cbn [r_out done raise]; apply pfits_app; assumption.
Qed.

Lemma hook_error_pfits st0 st op opa h o : 23 <= mtu_of st0 -> pfits st0 (r_out (hook_error st op opa h o)).
Proof. intros. apply fits_pfits, hook_error_fits. assumption. Qed.

Lemma read_value_answer_pfits st hk op opa h (mk : bytes -> att_pdu) normal :
  23 <= mtu_of st -> (forall s, att_size (mk (normal s)) <= mtu_of st) ->
  (forall x, att_size (mk (trunc (mtu_of st - 1) x)) <= mtu_of st) ->
  pfits st (r_out (read_value_answer st hk op opa h mk normal)).
Proof.
  intros Hm Hn Hov. unfold read_value_answer.
  destruct (hook_act st hk (ha_read (h_acts hk)) (h_read hk)) as [[st1 pd] res] eqn:E.
  destruct (hook_act_pfits st _ _ _ _ _ _ _ (mframe_refl st) E) as [Hp _].
  destruct res as [o'|]; [|exact Hp].
  destruct o' as [|x| | | | |g1 g2 g3|]; cbn [r_out done raise prepend]; try (apply pfits_app; [exact Hp|]);
    try (apply pfits_one; auto); try (apply hook_error_pfits; exact Hm); try (rewrite size_error; lia).
Qed.

Lemma val_trunc_size st h m1 : nlen (trunc m1 (val_at st h)) <= m1.
Proof. apply nlen_trunc. Qed.

Lemma read_req_fits st hk h :
  23 <= mtu_of st -> forallb wf_attr (st_db st) = true ->
  pfits st (r_out (h_read_req V_fixed st hk h)).
Proof.
  intros Hm Hwf. unfold h_read_req. cbn [fx_read_default V_fixed].
  destruct (h =? 0); [apply fits_pfits, fits_err, Hm|].
  destruct (lookup h (st_db st)) as [a|] eqn:El; [|apply fits_pfits, fits_err, Hm].
  pose proof (payload_len a (lookup_wf _ _ _ Hwf El)) as Hp.
  pose proof (nlen_trunc (mtu_of st - 1) (a_value a)).
  pose proof (nlen_trunc (mtu_of st - 1) (payload a)).
  destruct (a_kind a); try (apply pfits_one; rewrite size_read; lia).
  destruct (read_denied st h); [apply fits_pfits, fits_err, Hm|].
  apply read_value_answer_pfits; [exact Hm| |]; intros; rewrite size_read;
    match goal with |- context [trunc ?n ?v] => pose proof (nlen_trunc n v) end; lia.
Qed.

Lemma read_blob_fits st hk h off :
  23 <= mtu_of st -> pfits st (r_out (h_read_blob V_fixed st hk h off)).
Proof.
  intros Hm. unfold h_read_blob. cbn [fx_blob V_fixed].
  destruct (h =? 0); [apply fits_pfits, fits_err, Hm|].
  destruct (lookup h (st_db st)) as [a|]; [|apply fits_pfits, fits_err, Hm].
  assert (Hb : pfits st (r_out (blob_value_branch st hk h off))).
  { unfold blob_value_branch. apply read_value_answer_pfits; [exact Hm| |]; intros; rewrite size_blob.
    - pose proof (nlen_bslice off (mtu_of st - 1) (val_at s h)). lia.
    - pose proof (nlen_trunc (mtu_of st - 1) x). lia. }
  assert (Hs : forall v, pfits st [PReadBlobRsp (bslice off (mtu_of st - 1) v)]).
  { intros. apply pfits_one. rewrite size_blob. pose proof (nlen_bslice off (mtu_of st - 1) v). lia. }
  assert (He : pfits st [PReadBlobRsp []]) by (apply pfits_one; rewrite size_blob; cbn; lia).
  destruct (a_kind a);
    repeat match goal with
    | |- context [read_denied st h] => destruct (read_denied st h)
    | |- context [off <? ?x] => destruct (off <? x)
    | |- context [off =? ?x] => destruct (off =? x)
    end; cbn [r_out done]; try (apply fits_pfits, fits_err, Hm); try apply Hb; try apply Hs; try apply He.
Qed.

Lemma write_value_fits st hk op opa h val rsp :
  23 <= mtu_of st -> pfits st rsp -> pfits st (r_out (write_value st hk op opa h val rsp)).
Proof.
  intros Hm Hr. unfold write_value. cbv zeta.
  dha ha_write st1 pd1 res1 E1.
  destruct (hook_act_pfits st _ _ _ _ _ _ _ (mframe_refl st) E1) as [Hp1 F1].
  destruct res1 as [o1|]; [|exact Hp1].
  destruct o1 as [|x| | | | |g1 g2 g3|]; try (cbn [r_out prepend]; apply pfits_app; [exact Hp1|apply hook_error_pfits, Hm]).
  - apply (post_hook_pfits st); [exact F1|apply pfits_app; assumption].
  - apply (post_hook_pfits st); [exact F1|apply pfits_app; assumption].
  - destruct rsp; [exact Hp1|]. cbn [r_out prepend]. apply pfits_app; [exact Hp1|apply hook_error_pfits, Hm].
Qed.

Lemma cccd_effects_fits st hk h newv record out : pfits st out -> pfits st (r_out (cccd_effects st hk h newv record out)).
Proof.
  intros Ho. unfold cccd_effects.
  destruct (un_le16_2 newv) as [cfg|]; [|exact Ho].
  destruct (owner_decl h (st_db st) None) as [d|]; [|exact Ho].
  destruct (cfg =? 1); [destruct record; (apply (post_hook_pfits st); [split; reflexivity|exact Ho])|].
  destruct (cfg =? 2); [destruct record; (apply (post_hook_pfits st); [split; reflexivity|exact Ho])|].
  destruct (cfg =? 0); [apply (post_hook_pfits st); [split; reflexivity|exact Ho]|exact Ho].
Qed.

Lemma write_gen_fits st hk is_cmd h val :
  23 <= mtu_of st -> pfits st (r_out (h_write_gen V_fixed st hk is_cmd h val)).
Proof.
  intros Hm. unfold h_write_gen. cbn [fx_write_default fx_sub_record V_fixed].
  assert (Hrsp : pfits st (if is_cmd then [] else [PWriteRsp])).
  { destruct is_cmd; [constructor|apply pfits_one, size_small; [exact Hm|exact I]]. }
  destruct (h =? 0); [apply fits_pfits, fits_err, Hm|].
  destruct (lookup h (st_db st)) as [a|]; [|apply fits_pfits, fits_err, Hm].
  destruct (a_kind a); try (destruct is_cmd; cbn [andb negb]; first [apply fits_pfits, fits_err, Hm | constructor]).
  - destruct (write_denied st h E_NOT_FOUND); [apply fits_pfits, fits_err, Hm|].
    apply write_value_fits; assumption.
  - match goal with |- context [if ?b then cccd_effects _ _ _ _ _ _ else _] => destruct b end.
    + apply cccd_effects_fits. exact Hrsp.
    + apply fits_pfits, fits_err, Hm.
Qed.

(** every PDU emitted while a request is handled fits: responses in the MTU in force, the
    notifications of a hook's update in the MTU of the instance that sends them *)
Lemma fits_mtu st r hk :
  wf_state st = true -> wf_request (mtu_of st) r = true ->
  pfits st (snd (server_step st r hk)).
Proof.
  intros Hwf Hr. unfold wf_state in Hwf.
  apply andb_true_iff in Hwf as [Hwf _]. apply andb_true_iff in Hwf as [Hwf _].
  apply andb_true_iff in Hwf as [Hdb Hm]. apply N.leb_le in Hm.
  unfold wf_db in Hdb. apply andb_true_iff in Hdb as [Hdb _]. apply andb_true_iff in Hdb as [_ Hattrs].
  unfold server_step, server_step_v. cbn [snd].
  assert (Hun : forall o, pfits st (r_out (unparsed st o))).
  { intros o. unfold unparsed. destruct (req_opcode o); [apply fits_pfits, fits_err, Hm|constructor]. }
  destruct (tx_locked st) eqn:Hl.
  { (* the lock is held: only the ATT layer itself answers *)
    destruct r; cbn [handle fx_rbt128 V_fixed]; unfold locked; rewrite ?Hl; try (cbn [r_out done raise]; constructor; fail);
      try apply Hun.
    destruct hs; [apply Hun|cbn [r_out done raise]; constructor]. }
  assert (Hm' : 23 <= mtu_of (with_lock st true)) by exact Hm.
  assert (Ha' : forallb wf_attr (st_db (with_lock st true)) = true) by exact Hattrs.
  assert (Conv : forall out, pfits (with_lock st true) out -> pfits st out) by (intros out H; exact H).
  change (mtu_of st) with (mtu_of (with_lock st true)) in Hr.
  destruct r; cbn [handle fx_rbt128 V_fixed]; rewrite ?(locked_out _ _ _ Hl); try (cbn [r_out done]; constructor; fail); apply Conv.
  - unfold h_mtu. cbv zeta. cbn [r_out done]. apply pfits_one, size_small; [exact Hm'|exact I].
  - apply fits_pfits, find_info_fits; assumption.
  - apply fits_pfits, fbtv_fits; assumption.
  - apply fits_pfits, read_by_type_fits; assumption.
  - apply fits_pfits, read_by_type_fits; assumption.
  - apply read_req_fits; assumption.
  - apply read_blob_fits; assumption.
  - destruct hs; [exact (Hun _)|]. rewrite (locked_out _ _ _ Hl). apply fits_pfits, fits_err, Hm'.
  - apply fits_pfits, read_by_group_fits; assumption.
  - apply write_gen_fits; assumption.
  - apply write_gen_fits; assumption.
  - apply fits_pfits, prepare_fits; [|assumption]. unfold wf_request in Hr. apply andb_true_iff in Hr as [Hr _].
    cbn [req_size] in Hr. apply N.leb_le in Hr. exact Hr.
  - apply fits_pfits, execute_fits; assumption.
  - apply pfits_one, size_small; [exact Hm'|exact I].
  - exact (Hun _).
Qed.

(** * list_response_wf *)

Lemma inc_weaken lo lo' s e l : lo <= lo' -> increasing_in lo' s e l = true -> increasing_in lo s e l = true.
Proof.
  destruct l as [|h r]; cbn [increasing_in]; [reflexivity|]. intros Hle H.
  repeat (apply andb_true_iff in H as [H ?]). apply N.ltb_lt in H.
  repeat (apply andb_true_iff; split); try assumption. apply N.ltb_lt. lia.
Qed.

Lemma inc_cons_inv lo s e h l : increasing_in lo s e (h :: l) = true ->
  lo < h /\ s <= h /\ h <= e /\ increasing_in h s e l = true.
Proof.
  cbn [increasing_in]. intros H. repeat (apply andb_true_iff in H as [H ?]).
  apply N.ltb_lt in H. apply N.leb_le in H2, H1. auto.
Qed.

Lemma inc_cons lo s e h l : lo < h -> s <= h -> h <= e -> increasing_in h s e l = true ->
  increasing_in lo s e (h :: l) = true.
Proof.
  intros. cbn [increasing_in]. repeat (apply andb_true_iff; split); try assumption;
    [apply N.ltb_lt|apply N.leb_le|apply N.leb_le]; assumption.
Qed.

Lemma inc_drop lo s e h l : increasing_in lo s e (h :: l) = true -> increasing_in lo s e l = true.
Proof. intros H. apply inc_cons_inv in H as (H1 & _ & _ & H4). apply (inc_weaken lo h); [lia|exact H4]. Qed.

(** filtering the sorted database by a predicate that implies the range *)
Lemma sorted_filter_inc (g : attr -> bool) s e :
  (forall a, g a = true -> in_range s e a = true) ->
  forall db lo, sorted_from lo db = true -> increasing_in lo s e (map a_handle (filter g db)) = true.
Proof.
  intros Hg. induction db as [|a r IH]; intros lo Hs; cbn [filter map]; [reflexivity|].
  cbn [sorted_from] in Hs. apply andb_true_iff in Hs as [Hs Hr]. apply andb_true_iff in Hs as [Hlo _].
  apply N.ltb_lt in Hlo. specialize (IH _ Hr).
  destruct (g a) eqn:E.
  - cbn [map]. pose proof (Hg a E) as Hin. unfold in_range in Hin. apply andb_true_iff in Hin as [H1 H2].
    apply N.leb_le in H1, H2. apply inc_cons; assumption.
  - apply (inc_weaken lo (a_handle a)); [lia|exact IH].
Qed.

Lemma inc_filter {A} (g : A -> N) (f : A -> bool) s e : forall l lo,
  increasing_in lo s e (map g l) = true -> increasing_in lo s e (map g (filter f l)) = true.
Proof.
  induction l as [|x r IH]; intros lo H; cbn [filter map]; [reflexivity|].
  cbn [map] in H. destruct (f x).
  - cbn [map]. apply inc_cons_inv in H as (H1 & H2 & H3 & H4). apply inc_cons; try assumption. apply IH, H4.
  - apply IH. apply inc_drop in H. exact H.
Qed.

Lemma inc_firstn {A} (g : A -> N) s e n : forall l lo,
  increasing_in lo s e (map g l) = true -> increasing_in lo s e (map g (firstn n l)) = true.
Proof.
  induction n as [|n IH]; intros l lo H; [reflexivity|].
  destruct l as [|x r]; [reflexivity|]. cbn [firstn map] in *.
  apply inc_cons_inv in H as (H1 & H2 & H3 & H4). apply inc_cons; try assumption. apply IH, H4.
Qed.

Lemma inc_take_while {A} (g : A -> N) (f : A -> bool) s e : forall l lo,
  increasing_in lo s e (map g l) = true -> increasing_in lo s e (map g (take_while f l)) = true.
Proof.
  induction l as [|x r IH]; intros lo H; cbn [take_while map]; [reflexivity|].
  cbn [map] in H. destruct (f x); [|reflexivity].
  cbn [map]. apply inc_cons_inv in H as (H1 & H2 & H3 & H4). apply inc_cons; try assumption. apply IH, H4.
Qed.

Lemma sorted_weaken lo lo' db : lo <= lo' -> sorted_from lo' db = true -> sorted_from lo db = true.
Proof.
  destruct db as [|a r]; cbn [sorted_from]; [reflexivity|]. intros Hle H.
  apply andb_true_iff in H as [H Hr]. apply andb_true_iff in H as [H1 H2]. apply N.ltb_lt in H1.
  repeat (apply andb_true_iff; split); try assumption. apply N.ltb_lt. lia.
Qed.

Lemma by_range_inc s e db : sorted_from 0 db = true ->
  increasing_in 0 s e (map a_handle (by_range s e db)) = true.
Proof. intros. apply sorted_filter_inc; [auto|assumption]. Qed.

Lemma by_type_inc ty s e db : sorted_from 0 db = true ->
  increasing_in 0 s e (map a_handle (by_type ty s e db)) = true.
Proof.
  intros. apply sorted_filter_inc; [|assumption]. intros a Ha. apply andb_true_iff in Ha. tauto.
Qed.

Lemma firstn_pos_cons {A} (n : N) (x : A) (l : list A) : 1 <= n ->
  exists r, firstn (N.to_nat n) (x :: l) = x :: r.
Proof. intros H. destruct (N.to_nat n) eqn:E; [lia|]. cbn [firstn]. eauto. Qed.

Lemma find_info_list_ok st s e :
  23 <= mtu_of st -> wf_db (st_db st) = true ->
  Forall (fun p => list_rsp_ok s e p = true) (r_out (h_find_info st s e)).
Proof.
  intros Hm Hwf. unfold wf_db in Hwf. apply andb_true_iff in Hwf as [Hwf _].
  apply andb_true_iff in Hwf as [Hsort Hattrs].
  unfold h_find_info.
  destruct ((s =? 0) || (e <? s)); [repeat constructor|].
  destruct (by_range s e (st_db st)) as [|a0 r] eqn:E; [repeat constructor|].
  cbv zeta. constructor; [|constructor].
  assert (Hu : uuid_len_ok (a_type a0) = true).
  { apply wf_attr_type, (wf_in (st_db st)); [exact Hattrs|]. apply (by_range_in s e). rewrite E. left. reflexivity. }
  apply uuid_len_cases in Hu.
  pose proof (by_range_inc s e _ Hsort) as Hinc. rewrite E in Hinc.
  unfold list_rsp_ok. repeat (apply andb_true_iff; split).
  - rewrite map_map. cbn [fst]. apply inc_take_while, inc_firstn, Hinc.
  - apply forallb_forall. intros it Hin. apply in_map_iff in Hin as (a & <- & Hin).
    apply take_while_in in Hin as [_ Hin]. apply N.eqb_eq in Hin. cbn [snd]. apply N.eqb_eq.
    destruct Hu as [Hu|Hu]; rewrite Hin, Hu; reflexivity.
  - assert (1 <= (mtu_of st - 2) / (nlen (a_type a0) + 2)) as H1 by (destruct Hu as [Hu|Hu]; rewrite Hu; lia).
    destruct (firstn_pos_cons _ a0 r H1) as [r' ->]. cbn [take_while]. rewrite N.eqb_refl. reflexivity.
Qed.

Lemma fbtv_match_inc v st ty vr s e : forall attrs items lo,
  fbtv_match v st ty vr attrs = Some items ->
  increasing_in lo s e (map a_handle attrs) = true -> increasing_in lo s e (map fst items) = true.
Proof.
  induction attrs as [|a r IH]; intros items lo H Hinc; cbn [fbtv_match] in H.
  - inversion H; reflexivity.
  - cbn [map] in Hinc. pose proof (inc_drop _ _ _ _ _ Hinc) as Hd.
    apply inc_cons_inv in Hinc as (H1 & H2 & H3 & H4).
    destruct (negb (bytes_eqb ty (a_type a))); [eapply IH; eauto|].
    destruct (fbtv_match v st ty vr r) as [l|] eqn:El.
    2:{ destruct (a_kind a); try discriminate; destruct (fx_fbtv v); discriminate. }
    assert (Hkeep : increasing_in lo s e (map fst ((a_handle a, a_end a) :: l)) = true
                    /\ increasing_in lo s e (map fst ((a_handle a, a_handle a) :: l)) = true
                    /\ increasing_in lo s e (map fst l) = true).
    { repeat split; try (cbn [map fst]; apply inc_cons; try assumption; eapply IH; eauto).
      eapply IH; eauto. }
    destruct Hkeep as (K1 & K2 & K3).
    destruct (a_kind a); try (destruct (fx_fbtv v); try discriminate);
      match type of H with
      | Some (if ?b then _ else _) = Some _ => destruct b; inversion H; subst; assumption
      end.
Qed.

Lemma fbtv_list_ok v st s e ty vr :
  23 <= mtu_of st -> wf_db (st_db st) = true ->
  Forall (fun p => list_rsp_ok s e p = true) (r_out (h_fbtv v st s e ty vr)).
Proof.
  intros Hm Hwf. unfold wf_db in Hwf. apply andb_true_iff in Hwf as [Hwf _].
  apply andb_true_iff in Hwf as [Hsort _]. unfold h_fbtv.
  destruct ((s =? 0) || (e <? s)); [repeat constructor|].
  destruct (fbtv_match v st (uuid16 ty) vr (by_range s e (st_db st))) as [[|x l]|] eqn:E; try (repeat constructor).
  cbv zeta. unfold list_rsp_ok.
  pose proof (fbtv_match_inc _ _ _ _ s e _ _ 0 E (by_range_inc s e _ Hsort)) as Hinc.
  apply andb_true_iff; split.
  - apply inc_firstn, Hinc.
  - assert (1 <= (mtu_of st - 1) / 4) as H1 by lia.
    destruct (firstn_pos_cons _ x l H1) as [r' ->]. reflexivity.
Qed.

Lemma read_by_type_list_ok st s e ty :
  wf_db (st_db st) = true ->
  Forall (fun p => list_rsp_ok s e p = true) (r_out (h_read_by_type st s e ty)).
Proof.
  intros Hwf. unfold wf_db in Hwf. apply andb_true_iff in Hwf as [Hwf _].
  apply andb_true_iff in Hwf as [Hsort _]. unfold h_read_by_type.
  destruct ((s =? 0) || (e <? s)); [repeat constructor|].
  pose proof (by_type_inc ty s e _ Hsort) as Hinc.
  destruct (by_type ty s e (st_db st)) as [|a0 r]; [repeat constructor|].
  cbv zeta.
  destruct (bytes_eqb ty (uuid16 10243)).
  - match goal with |- context [match ?l with [] => _ | _ => _ end] => destruct l eqn:El end; [repeat constructor|].
    rewrite <- El. constructor; [|constructor]. unfold list_rsp_ok.
    repeat (apply andb_true_iff; split).
    + rewrite map_map. cbn [fst]. apply inc_filter, inc_take_while, inc_firstn, Hinc.
    + apply forallb_forall. intros it Hin. apply in_map_iff in Hin as (a & <- & Hin).
      apply filter_In in Hin as [Hin H2]. apply take_while_in in Hin as [_ H1]. apply N.eqb_eq in H1.
      cbn [snd]. apply N.eqb_eq. unfold payload. destruct (a_kind a); try discriminate. nl. lia.
    + rewrite El. reflexivity.
  - destruct (bytes_eqb ty (uuid16 10242)); [|repeat constructor].
    match goal with |- context [match ?l with [] => _ | _ => _ end] => destruct l eqn:El end; [repeat constructor|].
    rewrite <- El. constructor; [|constructor]. unfold list_rsp_ok.
    repeat (apply andb_true_iff; split).
    + rewrite map_map. cbn [fst]. apply inc_filter, inc_firstn, Hinc.
    + apply forallb_forall. intros it Hin. apply in_map_iff in Hin as (a & <- & Hin).
      apply filter_In in Hin as [_ Hin]. apply andb_true_iff in Hin as [H1 H2].
      cbn [snd]. apply N.eqb_eq. unfold payload. destruct (a_kind a); try discriminate. rewrite H1. nl.
      apply N.eqb_eq in H1. lia.
    + rewrite El. reflexivity.
Qed.

Lemma group_items_inc v usz s e : forall attrs items lo,
  group_items v usz attrs = Some items ->
  increasing_in lo s e (map a_handle attrs) = true ->
  increasing_in lo s e (map (fun it => fst (fst it)) items) = true.
Proof.
  induction attrs as [|a r IH]; intros items lo H Hinc; cbn [group_items] in H.
  - inversion H; reflexivity.
  - cbn [map] in Hinc. apply inc_cons_inv in Hinc as (H1 & H2 & H3 & H4).
    destruct (match a_kind a with
              | KPrimary | KSecondary | KDecl => Some (a_end a)
              | KInclude => Some (a_handle a)
              | _ => if fx_group_desc v then Some (a_handle a) else None end) as [eh|]; [|discriminate].
    destruct (nlen (obj_uuid a) =? usz); [|inversion H; reflexivity].
    destruct (group_items v usz r) as [l|] eqn:El; [|discriminate]. inversion H; subst.
    cbn [map fst]. apply inc_cons; try assumption. eapply IH; eauto.
Qed.

Lemma obj_uuid_len a : wf_attr a = true -> nlen (obj_uuid a) = 2 \/ nlen (obj_uuid a) = 16.
Proof.
  intros H. pose proof (wf_attr_uuid a H) as Hu. pose proof (wf_attr_type a H) as Ht.
  unfold obj_uuid. destruct (a_kind a); apply uuid_len_cases; assumption.
Qed.

Lemma read_by_group_list_ok st s e ty :
  23 <= mtu_of st -> wf_db (st_db st) = true ->
  Forall (fun p => list_rsp_ok s e p = true) (r_out (h_read_by_group V_fixed st s e ty)).
Proof.
  intros Hm Hwf. unfold wf_db in Hwf. apply andb_true_iff in Hwf as [Hwf _].
  apply andb_true_iff in Hwf as [Hsort Hattrs]. unfold h_read_by_group.
  destruct ((s =? 0) || (e <? s)); [repeat constructor|].
  destruct (negb (existsb (N.eqb ty) SUPPORTED_GROUPS)); [repeat constructor|].
  pose proof (by_type_inc (uuid16 ty) s e _ Hsort) as Hinc.
  destruct (by_type (uuid16 ty) s e (st_db st)) as [|a0 r] eqn:E; [repeat constructor|].
  cbv zeta.
  assert (Hu : nlen (obj_uuid a0) = 2 \/ nlen (obj_uuid a0) = 16).
  { apply obj_uuid_len, (wf_in (st_db st)); [exact Hattrs|].
    apply (by_type_in (uuid16 ty) s e). rewrite E. left. reflexivity. }
  assert (1 <= (mtu_of st - 2) / (nlen (obj_uuid a0) + 4)) as H1 by (destruct Hu as [Hu|Hu]; rewrite Hu; lia).
  destruct (firstn_pos_cons _ a0 r H1) as [r' Hf].
  match goal with |- context [group_items V_fixed ?u ?l] => destruct (group_items V_fixed u l) as [items|] eqn:Eg end;
    [|repeat constructor].
  constructor; [|constructor]. unfold list_rsp_ok.
  pose proof (group_items_spec _ _ _ _ Eg) as [_ Hlen].
  repeat (apply andb_true_iff; split).
  - eapply group_items_inc; [exact Eg|]. apply inc_firstn, Hinc.
  - apply forallb_forall. intros it Hin. apply N.eqb_eq. rewrite (Hlen it Hin). lia.
  - rewrite Hf in Eg. cbn [group_items fx_group_desc V_fixed] in Eg. rewrite N.eqb_refl in Eg.
    destruct (a_kind a0); destruct (group_items V_fixed (nlen (obj_uuid a0)) r'); inversion Eg; reflexivity.
Qed.

(** list responses: handles inside the requested range, strictly increasing, one item length, not empty *)
Lemma list_response_wf st r hk s e :
  wf_state st = true -> req_range r = Some (s, e) ->
  Forall (fun p => list_rsp_ok s e p = true) (snd (server_step st r hk)).
Proof.
  intros Hwf Hr. unfold wf_state in Hwf.
  apply andb_true_iff in Hwf as [Hwf _]. apply andb_true_iff in Hwf as [Hwf _].
  apply andb_true_iff in Hwf as [Hdb Hm]. apply N.leb_le in Hm.
  unfold server_step, server_step_v. cbn [snd].
  destruct (tx_locked st) eqn:Hl.
  { destruct r; cbn [req_range] in Hr; try discriminate; cbn [handle fx_rbt128 V_fixed]; unfold locked; rewrite Hl; constructor. }
  assert (Hm' : 23 <= mtu_of (with_lock st true)) by exact Hm.
  assert (Hd' : wf_db (st_db (with_lock st true)) = true) by exact Hdb.
  destruct r; cbn [req_range] in Hr; try discriminate; inversion Hr; subst;
    cbn [handle fx_rbt128 V_fixed]; rewrite ?(locked_out _ _ _ Hl).
  - apply find_info_list_ok; assumption.
  - apply fbtv_list_ok; assumption.
  - apply read_by_type_list_ok; assumption.
  - apply read_by_type_list_ok; assumption.
  - apply read_by_group_list_ok; assumption.
Qed.

(** * Well-formedness is an invariant *)

(** kinds of the attributes are never changed *)
Definition kinds_same (st st' : state) : Prop :=
  forall h, option_map a_kind (lookup h (st_db st')) = option_map a_kind (lookup h (st_db st)).

Lemma kinds_same_refl st : kinds_same st st.
Proof. intros h. reflexivity. Qed.
Lemma kinds_same_trans a b c : kinds_same a b -> kinds_same b c -> kinds_same a c.
Proof. intros H1 H2 h. rewrite H2, H1. reflexivity. Qed.

Lemma lookup_update_kind h0 (f : attr -> attr) db h :
  (forall a, a_handle (f a) = a_handle a /\ a_kind (f a) = a_kind a) ->
  option_map a_kind (lookup h (update h0 f db)) = option_map a_kind (lookup h db).
Proof.
  intros Hf. induction db as [|x r IH]; cbn [update lookup]; [reflexivity|].
  destruct (a_handle x =? h0); cbn [lookup].
  - destruct (Hf x) as [H1 H2]. rewrite H1. destruct (a_handle x =? h); [cbn; rewrite H2; reflexivity|reflexivity].
  - destruct (a_handle x =? h); [reflexivity|exact IH].
Qed.

Lemma kinds_same_store st h0 x : kinds_same st (with_db st (update h0 (fun a => set_value a x) (st_db st))).
Proof. intros h. cbn [st_db with_db]. apply lookup_update_kind. intros a. split; reflexivity. Qed.

Lemma app_set_kinds st d v hk : kinds_same st (r_state (app_set st d v hk)).
Proof.
  assert (Hdb : forall st1, app_db st d v st1 -> kinds_same st st1).
  { intros st1 [->|(a & _ & _ & ->)]; [apply kinds_same_refl|apply kinds_same_store]. }
  destruct (app_set_shape st d v hk) as [st1 H|st1 id H|st1 id H]; cbn [r_state done]; [apply Hdb, H| |];
    intros h; rewrite notify_via_db; apply (Hdb _ H).
Qed.

Lemma hook_act_kinds st hk act o st1 pd res : hook_act st hk act o = (st1, pd, res) -> kinds_same st st1.
Proof.
  unfold hook_act. destruct act as [[d v]|]; intros E; inversion E; subst; [apply app_set_kinds|apply kinds_same_refl].
Qed.

Lemma kinds_lookup st st' h a : kinds_same st st' -> lookup h (st_db st) = Some a ->
  exists a', lookup h (st_db st') = Some a' /\ a_kind a' = a_kind a.
Proof.
  intros K L. specialize (K h). rewrite L in K. destruct (lookup h (st_db st')) as [a'|]; [|discriminate].
  exists a'. split; [reflexivity|]. cbn in K. congruence.
Qed.

Lemma hook_act_wf st hk act o st1 pd res :
  hook_act st hk act o = (st1, pd, res) -> wf_state st = true -> wf_act act = true -> wf_state st1 = true.
Proof. intros E. destruct (hook_act_spec _ _ _ _ _ _ _ E) as (_ & _ & H & _). exact H. Qed.

Lemma hook_act_override st hk act o st1 pd res x :
  hook_act st hk act o = (st1, pd, res) -> res = HOut (HOverride x) -> o = HOverride x.
Proof.
  intros E R. destruct (hook_act_spec _ _ _ _ _ _ _ E) as (_ & _ & _ & _ & _ & _ & H).
  apply (H _ R).
Qed.

Lemma post_hook_wf st hk act o out :
  wf_state st = true -> wf_act act = true -> wf_state (r_state (post_hook st hk act o out)) = true.
Proof.
  intros Hwf Ha. unfold post_hook. destruct (hook_act st hk act o) as [[st1 pd] res] eqn:E.
  pose proof (hook_act_wf _ _ _ _ _ _ _ E Hwf Ha) as W.
  destruct res as [o'|]; exact W.
Qed.

Lemma read_value_answer_wf st hk op opa h mk normal :
  wf_state st = true -> wf_hooks hk = true ->
  wf_state (r_state (read_value_answer st hk op opa h mk normal)) = true.
Proof.
  intros Hwf Hh. apply wf_hooks_inv in Hh as (_ & _ & _ & _ & Ha). apply wf_acts_inv in Ha as (Ha & _).
  unfold read_value_answer. destruct (hook_act st hk (ha_read (h_acts hk)) (h_read hk)) as [[st1 pd] res] eqn:E.
  pose proof (hook_act_wf _ _ _ _ _ _ _ E Hwf Ha) as W.
  destruct res as [o'|]; [|exact W].
  destruct o' as [|x| | | | |g1 g2 g3|]; cbn [r_state done prepend]; try exact W; rewrite hook_error_state; exact W.
Qed.

Lemma read_req_wf st hk h : wf_state st = true -> wf_hooks hk = true -> wf_state (r_state (h_read_req V_fixed st hk h)) = true.
Proof.
  intros Hwf Hh. unfold h_read_req. cbn [fx_read_default V_fixed].
  destruct (h =? 0); [exact Hwf|].
  destruct (lookup h (st_db st)) as [a|]; [|exact Hwf].
  destruct (a_kind a); try exact Hwf.
  destruct (read_denied st h); [exact Hwf|apply read_value_answer_wf; assumption].
Qed.

Lemma read_blob_wf st hk h off : wf_state st = true -> wf_hooks hk = true -> wf_state (r_state (h_read_blob V_fixed st hk h off)) = true.
Proof.
  intros Hwf Hh. unfold h_read_blob, blob_value_branch. cbn [fx_blob V_fixed].
  destruct (h =? 0); [exact Hwf|].
  destruct (lookup h (st_db st)) as [a|]; [|exact Hwf].
  destruct (a_kind a);
    repeat match goal with
    | |- context [read_denied st h] => destruct (read_denied st h)
    | |- context [off <? ?x] => destruct (off <? x)
    | |- context [off =? ?x] => destruct (off =? x)
    end; try exact Hwf; apply read_value_answer_wf; assumption.
Qed.

Lemma store_wf_kind st h x k :
  wf_state st = true -> option_map a_kind (lookup h (st_db st)) = Some k -> k <> KCccd -> wf_bytes x = true ->
  wf_state (with_db st (update h (fun a => set_value a x) (st_db st))) = true.
Proof.
  intros Hwf Hl Hk Hx. destruct (lookup h (st_db st)) as [a|] eqn:E; [|discriminate]. cbn in Hl. inversion Hl; subst.
  apply (store_value_wf st h a x Hwf E Hk Hx).
Qed.

Lemma write_value_wf st hk op opa h val rsp a :
  wf_state st = true -> lookup h (st_db st) = Some a -> a_kind a = KValue ->
  wf_bytes val = true -> wf_hooks hk = true ->
  wf_state (r_state (write_value st hk op opa h val rsp)) = true.
Proof.
  intros Hwf Hl Hk Hv Hh. pose proof Hh as Hh0. apply wf_hooks_inv in Hh as (_ & Hw & Hwn & _ & Ha).
  apply wf_acts_inv in Ha as (_ & Ha1 & Ha2 & Ha3 & _).
  assert (K0 : option_map a_kind (lookup h (st_db st)) = Some KValue) by (rewrite Hl; cbn; congruence).
  assert (Hnc : KValue <> KCccd) by discriminate.
  unfold write_value. cbv zeta.
  dha ha_write st1 pd1 res1 E1.
  pose proof (hook_act_wf _ _ _ _ _ _ _ E1 Hwf Ha1) as W1.
  pose proof (hook_act_kinds _ _ _ _ _ _ _ E1) as K1. 
  assert (K1' : option_map a_kind (lookup h (st_db st1)) = Some KValue) by (rewrite K1; exact K0).
  destruct res1 as [o1|]; [|exact W1].
  destruct o1 as [|x| | | | |g1 g2 g3|]; try (cbn [r_state prepend]; rewrite hook_error_state; exact W1).
  - apply post_hook_wf; [|exact Ha2]. apply (store_wf_kind st1 h val KValue W1 K1' Hnc Hv).
  - apply post_hook_wf; [|exact Ha2].
    rewrite (hook_act_override _ _ _ _ _ _ _ _ E1 eq_refl) in Hw.
    apply (store_wf_kind st1 h x KValue W1 K1' Hnc Hw).
  - destruct rsp; [exact W1|]. cbn [r_state prepend]. rewrite hook_error_state. exact W1.
Qed.

Lemma cccd_effects_wf st hk h newv record out a :
  wf_state st = true -> lookup h (st_db st) = Some a -> a_kind a = KCccd ->
  wf_bytes newv = true -> nlen newv = 2 -> wf_hooks hk = true ->
  wf_state (r_state (cccd_effects st hk h newv record out)) = true.
Proof.
  intros Hwf Hl Hk Hv Hn Hh. apply wf_hooks_inv in Hh as (_ & _ & _ & _ & Ha).
  apply wf_acts_inv in Ha as (_ & _ & _ & _ & Has & Hau).
  unfold cccd_effects.
  assert (E1 : db_ext (st_db st) (update h (fun a0 => set_value a0 newv) (st_db st))).
  { apply update_ext. intros a' _. apply set_value_ext; [exact Hv|intros _; exact Hn]. }
  pose proof (wf_state_with_db st _ Hwf E1) as W1.
  destruct (un_le16_2 newv) as [cfg|]; [|exact W1].
  destruct (owner_decl h (st_db st) None) as [d|]; [|exact W1].
  assert (W2 : forall f, (forall c, attr_ext c (f c)) ->
            wf_state (with_db (with_db st (update h (fun a0 => set_value a0 newv) (st_db st)))
                              (update d f (update h (fun a0 => set_value a0 newv) (st_db st)))) = true).
  { intros f Hf. apply (wf_state_with_db _ _ W1). apply update_ext. intros c _. apply Hf. }
  destruct (cfg =? 1).
  { destruct record; apply post_hook_wf; try exact Has; apply (W2 (fun c => set_cbs c (Some (i_id (st_cur st))) (a_icb c))); intros; apply set_cbs_ext. }
  destruct (cfg =? 2).
  { destruct record; apply post_hook_wf; try exact Has; apply (W2 (fun c => set_cbs c (a_ncb c) (Some (i_id (st_cur st))))); intros; apply set_cbs_ext. }
  destruct (cfg =? 0); [|exact W1].
  apply post_hook_wf; [|exact Hau]. apply (W2 (fun c => set_cbs c None None)). intros; apply set_cbs_ext.
Qed.

Lemma write_gen_wf st hk is_cmd h val :
  wf_state st = true -> wf_bytes val = true -> wf_hooks hk = true ->
  wf_state (r_state (h_write_gen V_fixed st hk is_cmd h val)) = true.
Proof.
  intros Hwf Hv Hh. unfold h_write_gen. cbn [fx_write_default fx_sub_record V_fixed].
  destruct (h =? 0); [exact Hwf|].
  destruct (lookup h (st_db st)) as [a|] eqn:El; [|exact Hwf].
  destruct (a_kind a) eqn:K; try (destruct is_cmd; exact Hwf).
  - destruct (write_denied st h E_NOT_FOUND); [exact Hwf|].
    eapply write_value_wf; eauto.
  - match goal with |- context [if ?b then cccd_effects _ _ _ _ _ _ else _] => destruct b eqn:Eb end; [|exact Hwf].
    apply andb_true_iff in Eb as [Eb _]. apply N.leb_le in Eb.
    pose proof (wf_attr_value a (lookup_wf _ _ _ (wf_state_attrs _ Hwf) El)) as [Wv Wl]. specialize (Wl K).
    eapply cccd_effects_wf; eauto.
    + rewrite wf_bytes_app. apply andb_true_iff. split; [exact Hv|apply wf_bytes_skipn, Wv].
    + rewrite nlen_app. unfold nlen in *. rewrite skipn_length. lia.
Qed.

Lemma queue_add_ok db h off val q :
  (exists a, lookup h db = Some a) -> wf_bytes val = true ->
  forallb (queue_entry_ok db) q = true -> forallb (queue_entry_ok db) (queue_add h off val q) = true.
Proof.
  intros [a Ha] Hv. induction q as [|[h' l] r IH]; cbn [queue_add forallb]; intros H.
  - unfold queue_entry_ok. cbn [fst snd forallb]. rewrite Ha, Hv. reflexivity.
  - apply andb_true_iff in H as [H1 H2]. destruct (h' =? h) eqn:E.
    + cbn [forallb]. rewrite H2, andb_true_r. unfold queue_entry_ok in *. cbn [fst snd] in *.
      apply andb_true_iff in H1 as [H1 H3]. rewrite H1. rewrite forallb_app, H3. cbn [forallb snd andb]. rewrite Hv. reflexivity.
    + cbn [forallb]. rewrite H1. apply IH, H2.
Qed.

Lemma prepare_wf st h off val :
  wf_state st = true -> wf_bytes val = true -> wf_state (r_state (h_prepare st h off val)) = true.
Proof.
  intros Hwf Hv. unfold h_prepare. destruct (lookup h (st_db st)) as [a|] eqn:E; [|exact Hwf].
  destruct (a_kind a); try exact Hwf.
  cbn [r_state done]. apply wf_state_with_queues; [exact Hwf|].
  apply queue_add_ok; eauto. apply wf_state_inv in Hwf as (_ & _ & _ & Hq). exact Hq.
Qed.

Lemma splice_wf old off val : wf_bytes old = true -> wf_bytes val = true -> wf_bytes (splice old off val) = true.
Proof.
  intros Ho Hv. unfold splice. destruct (off + nlen val <=? nlen old);
    rewrite ?wf_bytes_app, Hv, (wf_bytes_firstn _ _ Ho), ?(wf_bytes_skipn _ _ Ho); reflexivity.
Qed.

Lemma apply_writes_ext h ws : forall db a,
  forallb wf_attr db = true -> lookup h db = Some a -> a_kind a = KValue ->
  forallb (fun w => wf_bytes (snd w)) ws = true ->
  db_ext db (fst (apply_writes h ws db)).
Proof.
  induction ws as [|[off val] r IH]; intros db a Hw Hl Hk Hv; cbn [apply_writes]; [apply db_ext_refl|].
  rewrite Hl. destruct (nlen (a_value a) <? off); [apply db_ext_refl|].
  cbn [forallb snd] in Hv. apply andb_true_iff in Hv as [Hv1 Hv2].
  pose proof (wf_attr_value a (lookup_wf _ _ _ Hw Hl)) as [Wv _].
  assert (E : db_ext db (update h (fun x => set_value x (splice (a_value a) off val)) db)).
  { apply update_ext. intros a' Ha'. rewrite Hl in Ha'. inversion Ha'; subst.
    apply set_value_ext; [apply splice_wf; assumption|]. rewrite Hk. discriminate. }
  eapply db_ext_trans; [exact E|].
  pose proof (lookup_ext _ _ h E) as L. rewrite Hl in L.
  destruct (lookup h (update h (fun x => set_value x (splice (a_value a) off val)) db)) as [b|] eqn:Eb; [|contradiction].
  apply (IH _ b); try assumption.
  - eapply db_ext_attrs; eauto.
  - destruct L as [(_ & Hkk & _) _]. rewrite <- Hkk. exact Hk.
Qed.

Lemma exec_loop_wf q : forall st,
  wf_state st = true -> forallb (queue_entry_ok (st_db st)) q = true ->
  match exec_loop V_fixed st q with
  | inl r => wf_state (r_state r) = true
  | inr st' => wf_state st' = true
  end.
Proof.
  induction q as [|[h ws] q IH]; intros st Hwf Hq; cbn [exec_loop]; [exact Hwf|].
  cbn [fx_exec_perm V_fixed]. cbn [forallb] in Hq. apply andb_true_iff in Hq as [Hq1 Hq2].
  assert (Hempty : wf_state (with_queues st []) = true) by (apply wf_state_with_queues; [exact Hwf|reflexivity]).
  destruct (lookup h (st_db st)) as [a|] eqn:El; [|exact Hempty].
  destruct (a_kind a) eqn:K; try (apply IH; assumption).
  destruct (write_denied st h E_INVALID_HANDLE); [exact Hempty|].
  unfold queue_entry_ok in Hq1. cbn [fst snd] in Hq1. apply andb_true_iff in Hq1 as [_ Hws].
  pose proof (apply_writes_ext h ws (st_db st) a (wf_state_attrs _ Hwf) El K Hws) as E.
  destruct (apply_writes h ws (st_db st)) as [db' ok]. cbn [fst] in E.
  pose proof (wf_state_with_db st db' Hwf E) as W.
  destruct ok.
  - apply IH; [exact W|]. cbn. eapply queue_ok_ext; eauto.
  - cbn [r_state err done]. apply wf_state_with_queues; [exact W|reflexivity].
Qed.

Lemma execute_wf st f : wf_state st = true -> wf_state (r_state (h_execute V_fixed st f)) = true.
Proof.
  intros Hwf. unfold h_execute. cbn [fx_exec_clear fx_exec_flags V_fixed].
  destruct (f =? 0); [apply wf_state_with_queues; [exact Hwf|reflexivity]|].
  destruct (f =? 1); [|exact Hwf].
  pose proof (exec_loop_wf (i_queues (st_cur st)) st Hwf) as H.
  apply wf_state_inv in Hwf as (_ & _ & _ & Hq). specialize (H Hq).
  destruct (exec_loop V_fixed st (i_queues (st_cur st))); [exact H|].
  cbn [r_state done]. apply wf_state_with_queues; [exact H|reflexivity].
Qed.

Lemma mtu_wf st m : wf_state st = true -> m < 65536 -> wf_state (r_state (h_mtu st m)) = true.
Proof.
  intros Hwf Hm. unfold h_mtu. cbn [r_state done]. destruct (23 <=? m) eqn:E; [|exact Hwf].
  apply N.leb_le in E. apply wf_state_inv in Hwf as (H1 & H2 & H3 & H4).
  apply wf_state_intro; try assumption; cbn; lia.
Qed.

Lemma locked_state_wf v st body :
  (wf_state (r_state (body (with_lock st true))) = true) -> wf_state st = true ->
  wf_state (r_state (locked v st body)) = true.
Proof.
  intros Hb Hwf. unfold locked. destruct (tx_locked st); [exact Hwf|].
  destruct (r_exc (body (with_lock st true))) as [[]|]; cbn [r_state]; exact Hb.
Qed.

(** well-formedness is an invariant of the server *)
Lemma step_wf st r hk :
  wf_state st = true -> wf_request (mtu_of st) r = true -> wf_hooks hk = true ->
  wf_state (fst (server_step st r hk)) = true.
Proof.
  intros Hwf Hr Hh. unfold server_step, server_step_v. cbn [fst].
  unfold wf_request in Hr. apply andb_true_iff in Hr as [_ Hr].
  assert (Hwf' : wf_state (with_lock st true) = true) by exact Hwf.
  destruct r; cbn [handle fx_rbt128 V_fixed]; try exact Hwf; try (rewrite unparsed_state; exact Hwf);
    try (apply locked_state_wf; [|exact Hwf]).
  - apply mtu_wf; [exact Hwf'|]. apply N.ltb_lt, Hr.
  - rewrite find_info_state. exact Hwf'.
  - rewrite fbtv_state. exact Hwf'.
  - rewrite read_by_type_state. exact Hwf'.
  - rewrite read_by_type_state. exact Hwf'.
  - apply read_req_wf; assumption.
  - apply read_blob_wf; assumption.
  - destruct hs; [rewrite unparsed_state; exact Hwf|]. apply locked_state_wf; [exact Hwf'|exact Hwf].
  - rewrite read_by_group_state. exact Hwf'.
  - apply andb_true_iff in Hr as [_ Hr]. apply write_gen_wf; assumption.
  - apply andb_true_iff in Hr as [_ Hr]. apply write_gen_wf; assumption.
  - apply andb_true_iff in Hr as [_ Hr]. apply prepare_wf; assumption.
  - apply execute_wf; exact Hwf'.
  - exact Hwf'.
Qed.

(** * Sessions *)

Lemma step_ok_holds st r hk :
  wf_state st = true -> wf_request (mtu_of st) r = true -> step_ok st r hk.
Proof.
  intros Hwf Hr. unfold step_ok. cbv zeta. split; [|split; [|split]].
  - intros Hl Hp. apply never_wedges; assumption.
  - apply fits_mtu; assumption.
  - intros s e Hs. apply list_response_wf; assumption.
  - intros Hl Hp. apply (one_response st r hk Hl Hp).
Qed.

Lemma session_ok (s : session) : forall st,
  wf_state st = true -> inputs_ok st s ->
  every_step step_ok st s
  /\ wf_state (fold_left session_step s st) = true
  /\ (tx_locked st = false -> proc_free st = true ->
      tx_locked (fold_left session_step s st) = false /\ proc_free (fold_left session_step s st) = true).
Proof.
  induction s as [|[r hk] t IH]; intros st Hwf Hin; cbn [every_step fold_left inputs_ok] in *.
  - auto.
  - destruct Hin as (Hr & Hh & Hin). cbn [fst snd] in *.
    assert (Hwf' : wf_state (session_step st (r, hk)) = true) by (apply step_wf; assumption).
    destruct (IH _ Hwf' Hin) as (H1 & H2 & H3).
    split; [split; [apply step_ok_holds; assumption|exact H1]|]. split; [exact H2|].
    intros Hl Hp.
    destruct (never_wedges st r hk Hl Hp) as [Hl' Hp']. apply H3; assumption.
Qed.

(** what a hook returns with a plain [return] is ignored *)
Definition with_rets (hk : hook_oracle) (r : hook_rets) : hook_oracle :=
  mkHooks (h_read hk) (h_write hk) (h_written hk) (h_written2 hk) (h_sub hk) (h_unsub hk) (h_notif hk) (h_indic hk)
          (h_acts hk) r.

Lemma app_set_rets st d v hk r : app_set st d v (with_rets hk r) = app_set st d v hk.
Proof. reflexivity. Qed.

Lemma returns_ignored v st rq hk r : handle v st rq (with_rets hk r) = handle v st rq hk.
Proof. destruct rq; reflexivity. Qed.

(** * Witnesses: the original code (V_orig), regression witnesses of the repaired findings (V_fixed) *)

Lemma demo_wf : wf_state demo_state = true.
Proof. vm_compute. reflexivity. Qed.

Definition raising_read : hook_oracle :=
  mkHooks HRaiseOther HReturn HReturn HReturn HReturn HReturn HReturn HReturn no_acts no_rets.
Definition written_authent : hook_oracle :=
  mkHooks HReturn HReturn HAuthent HReturn HReturn HReturn HReturn HReturn no_acts no_rets.
(** the notification hook raises *)
Definition raising_notif : hook_oracle :=
  mkHooks HReturn HReturn HReturn HReturn HReturn HReturn HRaiseOther HReturn no_acts no_rets.
(** the read hook updates the characteristic declared at handle 5 and returns 600 bytes *)
Definition updating_read : hook_oracle :=
  mkHooks HReturn HReturn HReturn HReturn HReturn HReturn HReturn HReturn
          (mkActs (Some (5, [2])) None None None None None)
          (mkRets (RBytes (repeat 7 600)) RNone RNone RNone RNone RNone RNone RNone).

(** original code: the lock stays held (a) on Find By Type Value for a characteristic-value type,
    (b) on Read By Group Type for a descriptor type *)
Lemma orig_wedges :
  tx_locked (fst (server_step_v V_orig demo_state (FindByTypeValue 1 65535 10752 [104;105]) no_hooks)) = true
  /\ tx_locked (fst (server_step_v V_orig demo_state (ReadByGroupType 1 65535 10497) no_hooks)) = true.
Proof. vm_compute. auto. Qed.

(** original code: requests that get no answer *)
Lemma orig_unanswered :
  Forall (fun r => wf_request 23 r = true /\ is_request r = true
                   /\ snd (server_step_v V_orig demo_state r no_hooks) = [])
    [Read 8; Read 2; ReadBlob 3 1; ReadBlob 1 1; ExecuteWrite 2; Write 3 [1]; Write 11 [1];
     FindByTypeValue 1 65535 10752 [104;105]; ReadByGroupType 1 65535 10497;
     ReadByType128 1 65535 [0;1;2;3;4;5;6;7;8;9;10;11;12;13;14;15]].
Proof. repeat constructor. Qed.

(** former findings, now repaired (regression witnesses) *)

(** a hook that raises something else than HookReturn*: Unlikely Error, lock released *)
Lemma raising_hook_answered :
  snd (server_step demo_state (Read 4) raising_read) = [PError 10 4 14]
  /\ tx_locked (fst (server_step demo_state (Read 4) raising_read)) = false.
Proof. vm_compute. auto. Qed.

(** a 'written' hook raising a HookReturn* error: the Write Response only, the value is written *)
Lemma written_hook_one_pdu :
  snd (server_step demo_state (Write 4 [1]) written_authent) = [PWriteRsp]
  /\ val_at (fst (server_step demo_state (Write 4 [1]) written_authent)) 4 = [1].
Proof. vm_compute. auto. Qed.

(** an opcode the ATT layer does not know: Request Not Supported when it is a request, nothing when
    it is a command; a known request without parameters: Invalid PDU *)
Lemma unknown_opcode_answered st body :
  snd (server_step st (UnknownOp 32 body) no_hooks) = [PError 32 0 6]
  /\ snd (server_step st (UnknownOp 96 body) no_hooks) = []
  /\ snd (server_step st (UnknownOp 10 []) no_hooks) = [PError 10 0 4]
  /\ snd (server_step st (ReadMultiple []) no_hooks) = [PError 14 0 4].
Proof. repeat split; reflexivity. Qed.

(** a Prepare Write Request on an attribute that is not a characteristic value is refused *)
Lemma prepare_non_value_refused :
  snd (server_step demo_state (PrepareWrite 7 0 [1; 0]) no_hooks) = [PError 22 7 6]
  /\ snd (server_step demo_state (PrepareWrite 11 0 [1]) no_hooks) = [PError 22 11 3]
  /\ snd (server_step demo_state (PrepareWrite 3 0 [1]) no_hooks) = [PError 22 3 3]
  /\ snd (server_step demo_state (PrepareWrite 10 0 [1]) no_hooks) = [PPrepareWriteRsp 10 0 [1]].
Proof. vm_compute. auto. Qed.

(** the client subscribes (handle 7), the application changes the value while the notification hook
    raises (the exception goes to the application, proclock releases its lock), then a request whose
    read hook updates that characteristic: the notification goes out in the middle of the request,
    before the response; the 600 bytes the hook returns are ignored; no lock is left held *)
Definition wedge_history : list event :=
  [ EvReq (Write 7 [1; 0]) no_hooks; EvAppSet 5 [1] raising_notif; EvReq (Read 4) updating_read ].

Lemma notif_hook_then_update_ok :
  snd (run V_fixed demo_state wedge_history) = [ [PWriteRsp]; []; [PNotification 6 [2]; PReadRsp [104; 105]] ]
  /\ tx_locked (run_state V_fixed demo_state wedge_history) = false
  /\ proc_free (run_state V_fixed demo_state wedge_history) = true.
Proof. vm_compute. repeat split; reflexivity. Qed.

(** non-vacuity of the session theorem *)
Definition demo_session : session :=
  [ (ExchangeMtu 50, no_hooks); (FindInfo 1 65535, no_hooks); (Read 4, no_hooks); (ReadBlob 10 3, no_hooks);
    (Write 7 [1;0], no_hooks); (WriteCmd 4 [7;7], no_hooks); (PrepareWrite 10 0 [9], no_hooks);
    (ExecuteWrite 1, no_hooks); (ReadByGroupType 1 65535 10240, no_hooks); (Indication 4 [1], no_hooks);
    (FindByTypeValue 1 65535 10752 [7;7], no_hooks); (Read 8, raising_read); (Read 4, updating_read);
    (Read 4, raising_read); (Write 4 [1], written_authent); (UnknownOp 32 [1], no_hooks);
    (PrepareWrite 7 0 [1;0], no_hooks) ].

Lemma demo_session_inputs : inputs_ok demo_state demo_session.
Proof. vm_compute. repeat split. Qed.

Lemma demo_session_outputs :
  snd (run V_fixed demo_state (map (fun x => EvReq (fst x) (snd x)) demo_session))
  = [ [PMtuRsp 50];
      [PFindInfoRsp 1 [(1,[0;40]); (2,[2;40]); (3,[3;40]); (4,[0;42]); (5,[3;40]); (6,[25;42]); (7,[2;41]); (8,[1;40]); (9,[3;40]); (10,[1;42]); (11,[1;41])]];
      [PReadRsp [104;105]]; [PError 12 10 2]; [PWriteRsp]; []; [PPrepareWriteRsp 10 0 [9]];
      [PExecuteWriteRsp]; [PReadByGroupTypeRsp 6 [(1,7,[0;24])]]; [PConfirmation];
      [PFindByTypeValueRsp [(4,4)]]; [PReadRsp [15;24]]; [PNotification 6 [2]; PReadRsp [7;7]];
      [PError 10 4 14]; [PWriteRsp]; [PError 32 0 6]; [PError 22 7 6] ].
Proof. vm_compute. reflexivity. Qed.

(** PDUs that are neither requests, commands nor indications (responses nobody asked for, unknown
    commands): no answer, no effect on the state -- hence none on any later answer *)
Lemma non_request_ignored st o body hk :
  req_opcode o = false -> server_step st (UnknownOp o body) hk = (st, []).
Proof.
  intros H. unfold server_step, server_step_v. cbn [handle]. unfold unparsed. rewrite H. reflexivity.
Qed.

Lemma unsolicited_responses_ignored :
  Forall (fun o => req_opcode o = false) [1; 3; 5; 7; 9; 11; 13; 15; 17; 19; 23; 25; 27; 33; 35; 96; 210].
Proof. repeat constructor. Qed.

(** the witnesses in the shape of the property theorems *)
Lemma nonvacuous :
  wf_state demo_state = true /\ tx_locked demo_state = false /\ proc_free demo_state = true
  /\ inputs_ok demo_state demo_session
  /\ skipn 12 (snd (run V_fixed demo_state (map (fun x => EvReq (fst x) (snd x)) demo_session)))
     = [ [PNotification 6 [2]; PReadRsp [7; 7]]; [PError 10 4 14]; [PWriteRsp]; [PError 32 0 6]; [PError 22 7 6] ].
Proof.
  split; [exact demo_wf|]. split; [reflexivity|]. split; [reflexivity|].
  split; [exact demo_session_inputs|].
  rewrite demo_session_outputs. reflexivity.
Qed.
