(** C17 — the Gallina generated from CryptoManager.generateNonce / generateAuth /
    extractCiphertextPayload (whad/zigbee/crypto.py) by harness/translators/pyfun.py
    (snapshot: Gen.v; regenerated and re-checked against this very file on every run) is
    EQUAL to [gen_nonce] / [gen_auth] / [extract] of the hand-written model. *)
From Coq Require Import List NArith ZArith Arith Bool Lia ZifyBool ZifyN ZifyNat.
From Whad Require Import Lib.Bytes Lib.PyOps C17.Model C17.Proofs.
From Whad Require Import C17.Gen.
Import ListNotations.
Ltac Zify.zify_post_hook ::= Z.to_euclidean_division_equations.

(** ** generateNonce *)

(** the security control byte: the four bit fields ORed together are their sum *)
Lemma ctrl_bits lvl kt ext res :
  (lvl < 8)%N -> (kt < 4)%N -> (ext < 2)%N ->
  N.lor (N.lor (N.lor lvl (N.shiftl kt 3)) (N.shiftl ext 5)) (N.shiftl res 6)
  = (lvl + 8 * kt + 32 * ext + 64 * res)%N.
Proof.
  intros Hl Hk He.
  rewrite (py_lor_shiftl lvl kt 3) by exact Hl.
  rewrite (py_lor_shiftl _ ext 5) by (change (2 ^ 3)%N with 8%N; change (2 ^ 5)%N with 32%N; lia).
  rewrite (py_lor_shiftl _ res 6) by (change (2 ^ 3)%N with 8%N; change (2 ^ 5)%N with 32%N; change (2 ^ 6)%N with 64%N; lia).
  reflexivity.
Qed.

Definition ext_bit (f : frame) : N := if f_ext f then 1%N else 0%N.

Lemma wf_frame_fields f : wf_frame f = true ->
  (f_res f < 4)%N /\ (f_kt f < 4)%N /\ (f_lvl f < 8)%N /\ (f_fc f < 4294967296)%N.
Proof.
  unfold wf_frame. intros H. repeat (apply andb_true_iff in H; destruct H as [H ?]). lia.
Qed.

Lemma gen_generate_nonce_eq f :
  wf_frame f = true ->
  gen_generate_nonce (sec_raw f) (f_fc f) (f_lvl f) (f_kt f) (ext_bit f) (f_res f) = gen_nonce f.
Proof.
  intros W. destruct (wf_frame_fields f W) as (Hr & Hk & Hl & Hf).
  unfold gen_generate_nonce, gen_nonce. py_unfold.
  rewrite ctrl_bits by (try assumption; unfold ext_bit; destruct (f_ext f); lia).
  rewrite py_pack_le_4, py_slice_slice, <- app_assoc.
  f_equal. f_equal. f_equal. unfold ctrl_byte, ext_bit. destruct (f_ext f); lia.
Qed.

(** the extended-nonce case: source address | frame counter | security control *)
Lemma gen_generate_nonce_ext f :
  wf_frame f = true -> f_ext f = true -> length (f_src f) = 8 ->
  gen_generate_nonce (sec_raw f) (f_fc f) (f_lvl f) (f_kt f) 1 (f_res f)
  = f_src f ++ le32 (f_fc f) ++ [ctrl_byte f].
Proof.
  intros W He Hs. pose proof (gen_generate_nonce_eq f W) as H.
  unfold ext_bit in H. rewrite He in H. rewrite H.
  rewrite (gen_nonce_src f He Hs). reflexivity.
Qed.

Lemma gen_generate_nonce_pre_ok f :
  wf_frame f = true ->
  gen_generate_nonce_pre (sec_raw f) (f_fc f) (f_lvl f) (f_kt f) (ext_bit f) (f_res f).
Proof.
  intros W. destruct (wf_frame_fields f W) as (Hr & Hk & Hl & Hf).
  unfold gen_generate_nonce_pre, all_bytes. py_unfold.
  rewrite ctrl_bits by (try assumption; unfold ext_bit; destruct (f_ext f); lia).
  split; [exact Hf|]. repeat constructor. unfold ext_bit. destruct (f_ext f); lia.
Qed.

(** ** generateAuth *)

Lemma gen_generate_auth_eq sp f :
  gen_generate_auth (sp_enc sp) (raw_base f) (f_data f) (f_mic f) = gen_auth sp f.
Proof.
  unfold gen_generate_auth, gen_auth. py_arith.
Qed.

Lemma raw_base_length f :
  length (raw_base f) = length (f_pre f) + length (sec_fixed f) + length (f_data f) + length (f_mic f).
Proof. unfold raw_base, sec_raw. rewrite !app_length. lia. Qed.

(** no subtraction underflows: the raw frame ends with data and mic *)
Lemma gen_generate_auth_pre_ok sp f :
  gen_generate_auth_pre (sp_enc sp) (raw_base f) (f_data f) (f_mic f).
Proof.
  unfold gen_generate_auth_pre. py_unfold. pose proof (raw_base_length f).
  destruct (sp_enc sp); py_pre_split; lia.
Qed.

(** ** extractCiphertextPayload *)

Lemma slice_to_neg_drop_last m (l : bytes) : py_slice_to_neg m l = py_drop_last m l.
Proof. reflexivity. Qed.
Lemma slice_from_neg_take_last m (l : bytes) : py_slice_from_neg m l = py_take_last m l.
Proof. reflexivity. Qed.

Lemma gen_extract_eq sp f :
  gen_extract_ciphertext_payload (sp_enc sp) (sp_patched sp) (sp_M sp) (raw_base f) (f_data f) (f_data f) (f_mic f)
  = extract sp f.
Proof.
  unfold gen_extract_ciphertext_payload, extract, mic_absent_patched. py_unfold.
  rewrite !slice_to_neg_drop_last, !slice_from_neg_take_last.
  py_arith.
Qed.
