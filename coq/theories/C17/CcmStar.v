(** C17 — CCM* (IEEE 802.15.4 Annex B / Zigbee security levels) on top of Lib/Ccm.

    CCM* extends CCM by two families of levels:
    - integrity only (MIC-32/64/128, Zigbee levels 1-3): the message is moved into the
      authenticated data, nothing is encrypted, the output is the message in clear and the tag
      of [a ++ m] with an empty CCM message;
    - encryption only (ENC, Zigbee level 4): CTR-mode encryption, no tag at all.
    The other levels (ENC-MIC-32/64/128, Zigbee 5-7) are plain CCM.

    This file is an EXTENSION of the C17 model beyond the property's quantifier (levels 5..7 and
    the on-air level 0): specification-level definitions and their theorems, for an arbitrary
    block function [E] with 16-byte outputs.  Stdlib only, no axioms. *)
From Coq Require Import List NArith Arith Bool Lia.
From Whad Require Import Lib.Bytes Lib.Xor Lib.Aes Lib.Ccm.
Import ListNotations.

Section CCMStar.
  Variable E : bytes -> bytes -> bytes.
  Hypothesis E_length : forall k b, length (E k b) = 16.

  (** [enc] = the level encrypts, [M] = MIC length (0 = no MIC).
      Result: (what replaces the message on the wire, MIC) *)
  Definition ccmstar_protect (enc : bool) (M L : nat) (key nonce a m : bytes) : bytes * bytes :=
    if enc then
      match M with
      | O => (ccm_keystream_xor E L key nonce m, [])
      | _ => ccm_encrypt E M L key nonce a m
      end
    else (m, ccm_tag E M L key nonce (a ++ m) []).

  (** [None] = rejected *)
  Definition ccmstar_unprotect (enc : bool) (M L : nat) (key nonce a c t : bytes) : option bytes :=
    if enc then
      match M with
      | O => Some (ccm_keystream_xor E L key nonce c)
      | _ => ccm_decrypt E M L key nonce a c t
      end
    else if bytes_eqb t (ccm_tag E M L key nonce (a ++ c) []) then Some c else None.

  Lemma ccm_keystream_xor_nil L key nonce : ccm_keystream_xor E L key nonce [] = [].
  Proof. reflexivity. Qed.

  (** the integrity-only transform is CCM with the message moved into the authenticated data *)
  Lemma ccmstar_mic_only_is_ccm M L key nonce a m :
    snd (ccmstar_protect false M L key nonce a m) = snd (ccm_encrypt E M L key nonce (a ++ m) []).
  Proof. reflexivity. Qed.

  Lemma ccmstar_mic_only_unprotect_is_ccm M L key nonce a c t :
    ccmstar_unprotect false M L key nonce a c t
    = match ccm_decrypt E M L key nonce (a ++ c) [] t with Some _ => Some c | None => None end.
  Proof.
    unfold ccmstar_unprotect, ccm_decrypt. rewrite ccm_keystream_xor_nil.
    destruct (bytes_eqb t _); reflexivity.
  Qed.

  (** inverse, every level *)
  Theorem ccmstar_unprotect_protect : forall enc M L key nonce a m,
    ccmstar_unprotect enc M L key nonce a (fst (ccmstar_protect enc M L key nonce a m))
                      (snd (ccmstar_protect enc M L key nonce a m)) = Some m.
  Proof.
    intros enc M L key nonce a m. unfold ccmstar_protect, ccmstar_unprotect.
    destruct enc.
    - destruct M as [|M'].
      + cbn [fst snd]. rewrite (ccm_keystream_xor_involutive E E_length). reflexivity.
      + apply (ccm_decrypt_encrypt_gen E E_length).
    - cbn [fst snd]. rewrite bytes_eqb_refl. reflexivity.
  Qed.

  (** integrity-only levels: accepted iff the MIC is the CCM tag of header ‖ payload; the
      payload is delivered unchanged *)
  Theorem ccmstar_mic_only_iff_tag : forall M L key nonce a c t m,
    ccmstar_unprotect false M L key nonce a c t = Some m <->
    (m = c /\ t = ccm_tag E M L key nonce (a ++ c) []).
  Proof.
    intros. unfold ccmstar_unprotect.
    destruct (bytes_eqb t (ccm_tag E M L key nonce (a ++ c) [])) eqn:Eq.
    - apply bytes_eqb_eq in Eq. split.
      + intros H. injection H as <-. split; [reflexivity|exact Eq].
      + intros [-> _]. reflexivity.
    - split; [discriminate|]. intros [_ Ht]. rewrite Ht, bytes_eqb_refl in Eq. discriminate.
  Qed.

  (** encryption + integrity levels: plain CCM *)
  Theorem ccmstar_enc_mic_iff_tag : forall M L key nonce a c t m,
    ccmstar_unprotect true (S M) L key nonce a c t = Some m <->
    (m = ccm_keystream_xor E L key nonce c /\ t = ccm_tag E (S M) L key nonce a m).
  Proof. intros. apply ccm_decrypt_iff_tag. Qed.

  (** encryption-only level: NOT authenticated — every ciphertext, with any (ignored) MIC
      field and any header, is accepted *)
  Theorem ccmstar_level4_not_authenticated : forall L key nonce a a' c t t',
    ccmstar_unprotect true 0 L key nonce a c t = Some (ccm_keystream_xor E L key nonce c)
    /\ ccmstar_unprotect true 0 L key nonce a c t = ccmstar_unprotect true 0 L key nonce a' c t'.
  Proof. intros. split; reflexivity. Qed.

  (** ... and it is malleable: flipping ciphertext bits flips the same plaintext bits *)
  Theorem ccmstar_level4_malleable : forall L key nonce a c d t,
    length d = length c ->
    ccmstar_unprotect true 0 L key nonce a (xor_bytes c d) t
    = option_map (fun p => xor_bytes p d) (ccmstar_unprotect true 0 L key nonce a c t).
  Proof.
    intros L key nonce a c d t Hl. unfold ccmstar_unprotect. cbn [option_map]. f_equal.
    unfold ccm_keystream_xor.
    rewrite xor_bytes_length, Hl, Nat.min_id.
    set (ks := ccm_keystream E L key nonce (ccm_nblocks (length c))).
    assert (Hks : length ks >= length c) by (apply ccm_keystream_covers; exact E_length).
    clearbody ks. revert d ks Hl Hks.
    induction c as [|x c IH]; intros [|y d] [|k ks] Hl Hks; cbn in *; try reflexivity; try lia.
    f_equal.
    - rewrite !N.lxor_assoc. f_equal. apply N.lxor_comm.
    - apply IH; lia.
  Qed.
End CCMStar.
