(** C17 — lemmas (see Property.v for the statements) *)
From Coq Require Import String.
From Coq Require Import List NArith ZArith Arith Bool Lia ZifyBool ZifyN ZifyNat.
From Whad Require Import Lib.Bytes Lib.Xor Lib.Aes Lib.Ccm C17.Model.
Import ListNotations.
Ltac Zify.zify_post_hook ::= Z.to_euclidean_division_equations.
Local Open Scope N_scope.

(** * list / slicing helpers *)
Lemma firstn_length_app {A} (a b : list A) : firstn (length a) (a ++ b) = a.
Proof. rewrite firstn_app, Nat.sub_diag, firstn_all. cbn [firstn]. apply app_nil_r. Qed.

Lemma skipn_length_app {A} (a b : list A) : skipn (length a) (a ++ b) = b.
Proof. rewrite skipn_app, Nat.sub_diag, skipn_all. reflexivity. Qed.

Lemma py_drop_last_app (a b : bytes) : length b <> 0%nat -> py_drop_last (length b) (a ++ b) = a.
Proof.
  intros H. unfold py_drop_last. destruct (length b) eqn:Eb; [contradiction|].
  rewrite app_length, Eb. replace (length a + S n - S n)%nat with (length a) by lia.
  apply firstn_length_app.
Qed.

Lemma py_take_last_app (a b : bytes) : length b <> 0%nat -> py_take_last (length b) (a ++ b) = b.
Proof.
  intros H. unfold py_take_last. destruct (length b) eqn:Eb; [contradiction|].
  rewrite app_length, Eb. replace (length a + S n - S n)%nat with (length a) by lia.
  apply skipn_length_app.
Qed.

(** * serialisation facts *)
Lemma raw_base_split f : raw_base f = hdr_raw f ++ f_data f ++ f_mic f.
Proof. unfold raw_base, hdr_raw, sec_raw. rewrite !app_assoc. reflexivity. Qed.

Lemma gen_auth_enc sp f : sp_enc sp = true -> gen_auth sp f = hdr_raw f.
Proof.
  intros H. unfold gen_auth. rewrite H, raw_base_split.
  rewrite !app_length.
  replace (length (hdr_raw f) + (length (f_data f) + length (f_mic f)) - length (f_data f) - length (f_mic f))%nat
    with (length (hdr_raw f)) by lia.
  apply firstn_length_app.
Qed.


Lemma gen_nonce_src f : length (f_src f) = 8%nat -> gen_nonce f = nonce_of f.
Proof.
  intros H. unfold gen_nonce, nonce_of. f_equal.
  unfold slice, sec_raw, sec_fixed, le32. cbn [app skipn Nat.sub].
  rewrite <- !app_assoc. rewrite <- H. apply firstn_length_app.
Qed.

Lemma nonce_of_length f : length (f_src f) = 8%nat -> length (nonce_of f) = 13%nat.
Proof. intros H. unfold nonce_of. rewrite !app_length, H. reflexivity. Qed.



Lemma csl_eq f : check_security_level f = (patch f, params f).
Proof. unfold patch, params. destruct (check_security_level f). reflexivity. Qed.

Lemma scope_params f : in_scope (f_lvl f) ->
  sp_enc (params f) = true /\ (exists m, sp_M (params f) = S m) /\ (sp_M (params f) <= 16)%nat
  /\ sp_patched (params f) = (f_lvl f =? 0)
  /\ patch f = (if f_lvl f =? 0 then set_lvl 5 f else f)
  /\ sp_M (params f) = (if f_lvl f =? 0 then 4%nat else level_M (f_lvl f)).
Proof.
  unfold params, patch, check_security_level.
  intros [H|[H|[H|H]]]; rewrite H; cbn; repeat split; eauto; lia.
Qed.

Lemma patch_src f : f_src (patch f) = f_src f.
Proof. unfold patch, check_security_level. destruct (f_lvl f =? 0); reflexivity. Qed.

Section Crypt.
  Variable E : bytes -> bytes -> bytes.
  Hypothesis E_length : forall k b, length (E k b) = 16%nat.

  (** the plaintext encrypt takes from the frame *)
  Definition enc_pt (f : frame) : bytes :=
    if mic_absent_patched (params f) (patch f) then py_drop_last (sp_M (params f)) (f_data (patch f))
    else f_data (patch f).

  Lemma enc_pt_plaintext f : in_scope (f_lvl f) -> enc_pt f = plaintext_of f.
  Proof.
    unfold enc_pt, plaintext_of, mic_absent_patched, params, patch, check_security_level.
    intros [H|[H|[H|H]]]; rewrite H; cbn [N.eqb fst snd sp_patched sp_M andb Pos.eqb f_data f_mic set_lvl].
    - rewrite andb_true_r. reflexivity.
    - rewrite andb_false_r. reflexivity.
    - rewrite andb_false_r. reflexivity.
    - rewrite andb_false_r. reflexivity.
  Qed.

  Lemma encrypt_eq key f : in_scope (f_lvl f) ->
    encrypt E key f =
    Ok (restore (params f)
          (set_mic (ccm_tag E (sp_M (params f)) 2 key (gen_nonce (patch f)) (hdr_raw (patch f)) (enc_pt f))
             (set_data (ccm_keystream_xor E 2 key (gen_nonce (patch f)) (enc_pt f)) (patch f)))).
  Proof.
    intros Hs. destruct (scope_params f Hs) as (Henc & [m Hm] & _).
    unfold encrypt, encrypt_with. rewrite csl_eq. rewrite (gen_auth_enc _ _ Henc).
    unfold enc_pt. rewrite Hm. unfold ccm_encrypt. reflexivity.
  Qed.

  Lemma decrypt_eq key f : in_scope (f_lvl f) ->
    decrypt E key f =
    match ccm_decrypt E (sp_M (params f)) 2 key (gen_nonce (patch f)) (hdr_raw (patch f)) (recv_ct f) (recv_mic f) with
    | Some pt => Ok (restore (params f)
                       (set_mic (generate_mic E gen_auth (params f) key (gen_nonce (patch f)) (set_data pt (patch f)))
                                (set_data pt (patch f))), true)
    | None => Ok (restore (params f) (patch f), false)
    end.
  Proof.
    intros Hs. destruct (scope_params f Hs) as (Henc & [m Hm] & _).
    unfold decrypt, decrypt_with, recv_ct, recv_mic. rewrite csl_eq. rewrite (gen_auth_enc _ _ Henc).
    destruct (extract (params f) (patch f)) as [ct mic]. rewrite Hm. reflexivity.
  Qed.

  (** ** acceptance is exactly equality of the received MIC with the recomputed CCM* tag *)
  Lemma accept_iff_tag key f : in_scope (f_lvl f) ->
    status_of (decrypt E key f) = true <->
    recv_mic f = ccm_tag E (sp_M (params f)) 2 key (gen_nonce (patch f)) (hdr_raw (patch f))
                         (ccm_keystream_xor E 2 key (gen_nonce (patch f)) (recv_ct f)).
  Proof.
    intros Hs. rewrite (decrypt_eq key f Hs).
    destruct (ccm_decrypt E _ 2 key _ _ (recv_ct f) (recv_mic f)) as [pt|] eqn:Ed.
    - apply ccm_decrypt_iff_tag in Ed. destruct Ed as [-> Ht]. cbn [status_of]. split; [intros _; exact Ht|reflexivity].
    - apply ccm_decrypt_none_iff in Ed. cbn [status_of]. split; [discriminate|intros H; contradiction].
  Qed.

  (** on acceptance the delivered data is the CTR decryption of the received ciphertext *)
  Lemma accepted_payload key f r : in_scope (f_lvl f) ->
    decrypt E key f = Ok (r, true) ->
    f_data r = ccm_keystream_xor E 2 key (gen_nonce (patch f)) (recv_ct f).
  Proof.
    intros Hs. rewrite (decrypt_eq key f Hs).
    destruct (ccm_decrypt E _ 2 key _ _ (recv_ct f) (recv_mic f)) as [pt|] eqn:Ed; [|discriminate].
    apply ccm_decrypt_iff_tag in Ed. destruct Ed as [-> _].
    intros H. injection H as <-. unfold restore. destruct (sp_patched (params f)); reflexivity.
  Qed.

  (** never raises inside the scope of the property *)
  Lemma decrypt_total key f : in_scope (f_lvl f) -> exists r b, decrypt E key f = Ok (r, b).
  Proof.
    intros Hs. rewrite (decrypt_eq key f Hs). destruct (ccm_decrypt _ _ _ _ _ _ _ _); eauto.
  Qed.

  (** any other MIC on the same frame is rejected (unconditionally) *)
  Lemma mic_change_rejected key f f' : in_scope (f_lvl f) -> in_scope (f_lvl f') ->
    sp_M (params f) = sp_M (params f') -> gen_nonce (patch f) = gen_nonce (patch f') ->
    hdr_raw (patch f) = hdr_raw (patch f') -> recv_ct f = recv_ct f' -> recv_mic f <> recv_mic f' ->
    status_of (decrypt E key f) = true -> status_of (decrypt E key f') = false.
  Proof.
    intros Hs Hs' HM Hn Hh Hc Hm Ha.
    apply (accept_iff_tag key f Hs) in Ha.
    destruct (status_of (decrypt E key f')) eqn:Ea'; [|reflexivity].
    apply (accept_iff_tag key f' Hs') in Ea'. rewrite <- HM, <- Hn, <- Hh, <- Hc, <- Ha in Ea'.
    symmetry in Ea'. contradiction.
  Qed.

  (** ** round trip *)
  Lemma csl_restore f t c : in_scope (f_lvl f) ->
    check_security_level (restore (params f) (set_mic t (set_data c (patch f))))
    = (set_mic t (set_data c (patch f)), params f).
  Proof.
    unfold params, patch, check_security_level.
    intros [H|[H|[H|H]]]; rewrite H; destruct f; cbn in *; subst; reflexivity.
  Qed.

  Lemma restore_result f t c m p : in_scope (f_lvl f) ->
    restore (params f) (set_mic m (set_data p (set_mic t (set_data c (patch f))))) = set_mic m (set_data p f).
  Proof.
    unfold params, patch, check_security_level.
    intros [H|[H|[H|H]]]; rewrite H; destruct f; cbn in *; subst; reflexivity.
  Qed.

  Lemma tag_length f key n a p : in_scope (f_lvl f) ->
    length (ccm_tag E (sp_M (params f)) 2 key n a p) = sp_M (params f).
  Proof.
    intros Hs. destruct (scope_params f Hs) as (_ & _ & Hle & _). apply ccm_tag_length; assumption.
  Qed.

  (** decrypting the packet object returned by encrypt *)
  Lemma decrypt_encrypt_obj key f : in_scope (f_lvl f) -> length (f_src f) = 8%nat ->
    exists g, encrypt E key f = Ok g /\
    exists m, decrypt E key g = Ok (set_mic m (set_data (plaintext_of f) f), true).
  Proof.
    intros Hs Hsrc. rewrite (encrypt_eq key f Hs). eexists; split; [reflexivity|].
    set (nonce := gen_nonce (patch f)). set (pt := enc_pt f).
    set (ct := ccm_keystream_xor E 2 key nonce pt).
    set (tag := ccm_tag E (sp_M (params f)) 2 key nonce (hdr_raw (patch f)) pt).
    destruct (scope_params f Hs) as (Henc & [m0 Hm] & Hle & Hpat & Hpatch & _).
    unfold decrypt, decrypt_with. rewrite (csl_restore f tag ct Hs).
    rewrite (gen_auth_enc _ _ Henc).
    assert (Hn : gen_nonce (set_mic tag (set_data ct (patch f))) = nonce).
    { unfold nonce. rewrite !gen_nonce_src by (cbn; rewrite patch_src; exact Hsrc). reflexivity. }
    rewrite Hn.
    assert (Hh : hdr_raw (set_mic tag (set_data ct (patch f))) = hdr_raw (patch f)) by reflexivity.
    rewrite Hh.
    assert (Hx : extract (params f) (set_mic tag (set_data ct (patch f))) = (ct, tag)).
    { unfold extract. rewrite Henc. unfold mic_absent_patched. cbn [f_mic set_mic].
      unfold tag at 1. rewrite (tag_length f key _ _ _ Hs), Hm. reflexivity. }
    rewrite Hx, Hm. rewrite <- Hm.
    pose proof (ccm_decrypt_encrypt_gen E E_length (sp_M (params f)) 2 key nonce (hdr_raw (patch f)) pt) as Hd.
    cbn [ccm_encrypt fst snd] in Hd. fold ct tag in Hd. rewrite Hd.
    eexists. rewrite (restore_result f tag ct _ pt Hs). unfold pt. rewrite (enc_pt_plaintext f Hs). reflexivity.
  Qed.

  (** what scapy's dissection of the bytes of an encrypted frame looks like *)
  Lemma redissect_encrypted f t c : in_scope (f_lvl f) -> length t = sp_M (params f) ->
    redissect (restore (params f) (set_mic t (set_data c (patch f)))) =
    if f_lvl f =? 0 then restore (params f) (set_mic [] (set_data (c ++ t) (patch f)))
    else restore (params f) (set_mic t (set_data c (patch f))).
  Proof.
    intros Hs Ht. destruct (scope_params f Hs) as (_ & _ & _ & _ & _ & HM). rewrite HM in Ht.
    unfold redissect, params, patch, check_security_level, restore in *.
    destruct Hs as [H|[H|[H|H]]]; rewrite H in *; destruct f as [pre res kt lvl fc src kseq data mic]; cbn in *; subst;
      cbn [N.eqb Pos.eqb level_M orb] in *; try reflexivity;
      rewrite app_length, Ht, Nat.add_sub, firstn_length_app, skipn_length_app; reflexivity.
  Qed.

  (** decrypting the bytes of the frame returned by encrypt (what a receiver does) *)
  Lemma decrypt_encrypt_air key f : in_scope (f_lvl f) -> length (f_src f) = 8%nat ->
    exists g, encrypt E key f = Ok g /\
    exists m, decrypt E key (redissect g) = Ok (set_mic m (set_data (plaintext_of f) f), true).
  Proof.
    intros Hs Hsrc.
    destruct (N.eqb_spec (f_lvl f) 0) as [H0|H0].
    - (* level 0 on the air: ciphertext and MIC both end up in [data] *)
      rewrite (encrypt_eq key f Hs). eexists; split; [reflexivity|].
      set (nonce := gen_nonce (patch f)). set (pt := enc_pt f).
      set (ct := ccm_keystream_xor E 2 key nonce pt).
      set (tag := ccm_tag E (sp_M (params f)) 2 key nonce (hdr_raw (patch f)) pt).
      assert (Htl : length tag = sp_M (params f)) by (apply tag_length; exact Hs).
      rewrite (redissect_encrypted f tag ct Hs Htl).
      destruct (scope_params f Hs) as (Henc & [m0 Hm] & Hle & Hpat & Hpatch & HM).
      rewrite H0 in Hpat, Hpatch, HM. cbn [N.eqb] in Hpat, Hpatch, HM.
      replace (f_lvl f =? 0) with true by (rewrite H0; reflexivity).
      (* the re-dissected frame is [restore (set_mic [] (set_data (ct++tag) (patch f)))] *)
      assert (Hc : check_security_level (restore (params f) (set_mic [] (set_data (ct ++ tag) (patch f))))
                   = (set_mic [] (set_data (ct ++ tag) (patch f)), params f)) by (apply csl_restore; exact Hs).
      unfold decrypt, decrypt_with. rewrite Hc. rewrite (gen_auth_enc _ _ Henc).
      assert (Hn : gen_nonce (set_mic [] (set_data (ct ++ tag) (patch f))) = nonce).
      { unfold nonce. rewrite !gen_nonce_src by (cbn; rewrite patch_src; exact Hsrc). reflexivity. }
      rewrite Hn.
      assert (Hh : hdr_raw (set_mic [] (set_data (ct ++ tag) (patch f))) = hdr_raw (patch f)) by reflexivity.
      rewrite Hh.
      assert (Hx : extract (params f) (set_mic [] (set_data (ct ++ tag) (patch f))) = (ct, tag)).
      { unfold extract. rewrite Henc. unfold mic_absent_patched. cbn [f_mic f_data set_mic set_data length Nat.eqb].
        rewrite Hpat. cbn [andb]. rewrite <- Htl.
        rewrite py_drop_last_app, py_take_last_app by (rewrite Htl, HM; discriminate). reflexivity. }
      rewrite Hx, Hm. rewrite <- Hm.
      pose proof (ccm_decrypt_encrypt_gen E E_length (sp_M (params f)) 2 key nonce (hdr_raw (patch f)) pt) as Hd.
      cbn [ccm_encrypt fst snd] in Hd. fold ct tag in Hd. rewrite Hd.
      eexists. rewrite (restore_result f [] (ct ++ tag) _ pt Hs). unfold pt. rewrite (enc_pt_plaintext f Hs). reflexivity.
    - (* explicit level: the dissection gives back data = ciphertext, mic = tag *)
      destruct (decrypt_encrypt_obj key f Hs Hsrc) as (g & Hg & m & Hd).
      exists g. split; [exact Hg|]. exists m.
      rewrite (encrypt_eq key f Hs) in Hg. injection Hg as <-.
      rewrite redissect_encrypted by (try exact Hs; apply tag_length; exact Hs).
      apply N.eqb_neq in H0. rewrite H0. exact Hd.
  Qed.

  (** ** injective formatting: what the CBC-MAC is computed over determines the protected fields *)
  Lemma formatting_injective M f f' pt pt' :
    length (f_src f) = 8%nat -> length (f_src f') = 8%nat ->
    N.of_nat (length pt) < 65536 -> N.of_nat (length pt') < 65536 ->
    N.of_nat (length (hdr_raw f)) < 65536 -> N.of_nat (length (hdr_raw f')) < 65536 ->
    ccm_auth_blocks M 2 (nonce_of f) (hdr_raw f) pt = ccm_auth_blocks M 2 (nonce_of f') (hdr_raw f') pt' ->
    f_src f = f_src f' /\ le32 (f_fc f) = le32 (f_fc f') /\ ctrl_byte f = ctrl_byte f'
    /\ hdr_raw f = hdr_raw f' /\ pt = pt'.
  Proof.
    intros Hs Hs' Hp Hp' Hh Hh' H.
    apply ccm_auth_blocks_injective in H; try assumption; try lia.
    - destruct H as (Hn & Ha & Hm). unfold nonce_of in Hn.
      apply app_inj_length in Hn; [|lia]. destruct Hn as [H1 H2].
      apply app_inj_length in H2; [|reflexivity]. destruct H2 as [H2 H3].
      injection H3 as H3. repeat split; assumption.
    - rewrite !nonce_of_length by assumption. reflexivity.
  Qed.

  (** a frame accepted under [key'] that carries the MIC of a frame encrypted under [key]:
      the two CCM* tags coincide (for the same key and different protected fields this is a
      CBC-MAC collision on different block sequences, by [formatting_injective]) *)
  Lemma forgery_is_tag_collision key key' f g f' :
    in_scope (f_lvl f) -> encrypt E key f = Ok g ->
    in_scope (f_lvl f') -> sp_M (params f') = sp_M (params f) -> recv_mic f' = f_mic g ->
    status_of (decrypt E key' f') = true ->
    ccm_tag E (sp_M (params f)) 2 key' (gen_nonce (patch f')) (hdr_raw (patch f'))
            (ccm_keystream_xor E 2 key' (gen_nonce (patch f')) (recv_ct f'))
    = ccm_tag E (sp_M (params f)) 2 key (gen_nonce (patch f)) (hdr_raw (patch f)) (plaintext_of f).
  Proof.
    intros Hs Hg Hs' HM Hmic Ha.
    apply (accept_iff_tag key' f' Hs') in Ha. rewrite HM in Ha. rewrite <- Ha, Hmic.
    rewrite (encrypt_eq key f Hs) in Hg. injection Hg as <-.
    rewrite (enc_pt_plaintext f Hs). unfold restore. destruct (sp_patched (params f)); reflexivity.
  Qed.

End Crypt.

Lemma le32_inj n n' : n < 4294967296 -> n' < 4294967296 -> le32 n = le32 n' -> n = n'.
Proof. unfold le32. intros H H' E. injection E as E0 E1 E2 E3. lia. Qed.

Lemma ctrl_byte_inj f f' :
  f_lvl f < 8 -> f_kt f < 4 -> f_res f < 4 -> f_lvl f' < 8 -> f_kt f' < 4 -> f_res f' < 4 ->
  ctrl_byte f = ctrl_byte f' -> f_lvl f = f_lvl f' /\ f_kt f = f_kt f' /\ f_res f = f_res f'.
Proof. unfold ctrl_byte. lia. Qed.

(** * Network layer *)
Lemma bytes_eqb_false a b : bytes_eqb a b = false <-> a <> b.
Proof.
  split.
  - intros H Heq. apply bytes_eqb_eq in Heq. congruence.
  - intros H. destruct (bytes_eqb a b) eqn:Eb; [|reflexivity]. apply bytes_eqb_eq in Eb. contradiction.
Qed.

Lemma lookup_update a' a v t :
  lookup a' (update a v t) = if bytes_eqb a' a then Some v else lookup a' t.
Proof.
  induction t as [|[b c] r IH]; cbn [update lookup].
  - reflexivity.
  - destruct (bytes_eqb a b) eqn:Eab; cbn [lookup].
    + apply bytes_eqb_eq in Eab. subst b. destruct (bytes_eqb a' a); reflexivity.
    + rewrite IH. destruct (bytes_eqb a' b) eqn:Ea'b; [|reflexivity].
      destruct (bytes_eqb a' a) eqn:Ea'a; [|reflexivity].
      apply bytes_eqb_eq in Ea'b, Ea'a. subst. rewrite bytes_eqb_refl in Eab. discriminate.
Qed.

Lemma select_seq k ms m : select k ms = Some m -> m_seq m = k /\ In m ms.
Proof.
  induction ms as [|x r IH]; cbn [select]; [discriminate|].
  destruct (N.eqb_spec (m_seq x) k) as [He|He].
  - intros H. injection H as <-. split; [exact He|left; reflexivity].
  - intros H. destruct (IH H). split; [assumption|right; assumption].
Qed.

Lemma select_store k' k a v ms :
  select k' (store k a v ms) =
  if k' =? k then match select k ms with
                  | Some m => Some (mkMat (m_seq m) (m_key m) (update a v (m_in m)))
                  | None => None
                  end
  else select k' ms.
Proof.
  induction ms as [|x r IH]; cbn [store select].
  - destruct (k' =? k); reflexivity.
  - destruct (N.eqb_spec (m_seq x) k) as [He|He]; cbn [select m_seq].
    + destruct (N.eqb_spec k' k) as [Hk|Hk].
      * subst k'. rewrite He, N.eqb_refl. reflexivity.
      * destruct (N.eqb_spec (m_seq x) k') as [Hx|Hx]; [congruence|reflexivity].
    + rewrite IH. destruct (N.eqb_spec k' k) as [Hk|Hk].
      * subst k'. destruct (N.eqb_spec (m_seq x) k); [contradiction|reflexivity].
      * reflexivity.
Qed.

Lemma store_keys k a v ms :
  map (fun m => (m_seq m, m_key m)) (store k a v ms) = map (fun m => (m_seq m, m_key m)) ms.
Proof.
  induction ms as [|x r IH]; cbn [store map]; [reflexivity|].
  destruct (m_seq x =? k); cbn [map m_seq m_key]; [reflexivity|rewrite IH; reflexivity].
Qed.

Lemma Forall2_imp {A B} (P Q : A -> B -> Prop) l l' :
  (forall a b, P a b -> Q a b) -> Forall2 P l l' -> Forall2 Q l l'.
Proof. intros H F. induction F; constructor; auto. Qed.


Section Nwk.
  Variable E : bytes -> bytes -> bytes.

  Lemma nwk_decrypt_ok st f f' st' : nwk_decrypt E st f = DecOk f' st' ->
    exists k m, kseq_of f = Some k /\ select k (n_mats st) = Some m /\ stale st m f = false
                /\ decrypt E (m_key m) f = Ok (f', true)
                /\ st' = with_mats st (store k (f_src f) (f_fc f + 1) (n_mats st)).
  Proof.
    unfold nwk_decrypt. destruct (n_level st =? 0); [discriminate|].
    destruct (kseq_of f) as [k|]; [|discriminate].
    destruct (select k (n_mats st)) as [m|] eqn:Es; [|discriminate].
    destruct (stale st m f) eqn:Est; [discriminate|].
    destruct (decrypt E (m_key m) f) as [[r b]|cls] eqn:Ed; [|discriminate].
    destruct b; [|discriminate].
    intros H. injection H as <- <-. exists k, m. repeat split; assumption.
  Qed.

  (** one step: flags and keys never change; the state changes only on an accepted secured frame *)
  Lemma nwk_step_flags st p o st1 : nwk_step E st p = (o, st1) ->
    n_level st1 = n_level st /\ n_all_fresh st1 = n_all_fresh st /\ n_secure_all st1 = n_secure_all st
    /\ keys_of st1 = keys_of st.
  Proof.
    destruct p as [f|ft os raw]; cbn [nwk_step].
    - destruct (nwk_decrypt E st f) as [f' st'| |cls] eqn:Ed; intros H; injection H as <- <-; try (repeat split; reflexivity).
      apply nwk_decrypt_ok in Ed. destruct Ed as (k & m & _ & _ & _ & _ & ->).
      unfold keys_of. cbn [with_mats n_level n_all_fresh n_secure_all n_mats]. rewrite store_keys. repeat split; reflexivity.
    - destruct (negb os && n_secure_all st); intros H; injection H as <- <-; repeat split; reflexivity.
  Qed.


  Lemma nwk_step_authentic st p o st1 : nwk_step E st p = (o, st1) -> authentic_up E st p o.
  Proof.
    destruct p as [f|ft os raw]; cbn [nwk_step].
    - destruct (nwk_decrypt E st f) as [f' st'| |cls] eqn:Ed; intros H; injection H as <- <-; cbn [authentic_up]; try exact I.
      apply nwk_decrypt_ok in Ed. destruct Ed as (k & m & Hk & Hsel & _ & Hd & _).
      unfold kseq_of in Hk. destruct (N.eqb_spec (f_kt f) 1) as [Hkt|]; [|discriminate]. injection Hk as <-.
      apply select_seq in Hsel. destruct Hsel as [Hseq Hin].
      exists f, (m_key m). repeat split; try assumption.
      unfold keys_of. rewrite <- Hseq. apply (in_map (fun m => (m_seq m, m_key m))). exact Hin.
    - destruct (negb os && n_secure_all st) eqn:Eb; intros H; injection H as <- <-; cbn [authentic_up]; [exact I|].
      exists ft, os. repeat split. destruct os; [right; reflexivity|left]. cbn in Eb. exact Eb.
  Qed.

  Lemma no_unauthenticated_up st ps : Forall2 (authentic_up E st) ps (fst (nwk_run E st ps)).
  Proof.
    revert st. induction ps as [|p r IH]; intros st; cbn [nwk_run]; [constructor|].
    destruct (nwk_step E st p) as [o st1] eqn:Es.
    destruct (nwk_run E st1 r) as [os st2] eqn:Er. cbn [fst].
    constructor.
    - eapply nwk_step_authentic; eassumption.
    - specialize (IH st1). rewrite Er in IH. cbn [fst] in IH.
      destruct (nwk_step_flags _ _ _ _ Es) as (_ & _ & Hsa & Hk).
      eapply Forall2_imp; [|exact IH].
      intros p' o'. unfold authentic_up. rewrite Hk, Hsa. exact (fun x => x).
  Qed.
End Nwk.

(** ** freshness *)
Lemma fresh_hist_ext T T' evs : (forall k a, T k a = T' k a) -> fresh_hist T evs -> fresh_hist T' evs.
Proof.
  revert T T'. induction evs as [|[[k a] c] r IH]; intros T T' He; cbn [fresh_hist]; [auto|].
  intros [H1 H2]. split.
  - intros c0. rewrite <- He. apply H1.
  - eapply IH; [|exact H2]. intros k' a'. unfold bump. rewrite He. reflexivity.
Qed.

Lemma fresh_hist_lower T evs : fresh_hist T evs ->
  forall k a c, In (k, a, c) evs -> forall c0, T k a = Some c0 -> c0 <= c.
Proof.
  revert T. induction evs as [|[[k1 a1] c1] r IH]; intros T; cbn [fresh_hist In]; [tauto|].
  intros [H1 H2] k a c [Heq|Hin] c0 HT.
  - injection Heq as -> -> ->. apply H1. exact HT.
  - specialize (IH _ H2 k a c Hin). unfold bump in IH.
    destruct ((k =? k1) && bytes_eqb a a1) eqn:Eb.
    + apply andb_true_iff in Eb. destruct Eb as [Ek Ea]. apply N.eqb_eq in Ek. apply bytes_eqb_eq in Ea. subst.
      specialize (H1 _ HT). specialize (IH _ eq_refl). lia.
    + apply IH. exact HT.
Qed.

Lemma fresh_hist_strict T evs : fresh_hist T evs ->
  forall i j k a c c', (i < j)%nat ->
    nth_error evs i = Some (k, a, c) -> nth_error evs j = Some (k, a, c') -> c < c'.
Proof.
  revert T. induction evs as [|[[k1 a1] c1] r IH]; intros T Hf i j k a c c' Hij Hi Hj.
  - destruct i; discriminate.
  - cbn [fresh_hist] in Hf. destruct Hf as [H1 H2].
    destruct j as [|j]; [lia|]. cbn [nth_error] in Hj.
    destruct i as [|i]; cbn [nth_error] in Hi.
    + injection Hi as -> -> ->.
      apply nth_error_In in Hj.
      pose proof (fresh_hist_lower _ _ H2 k a c' Hj (c + 1)) as Hl.
      unfold bump in Hl. rewrite N.eqb_refl, bytes_eqb_refl in Hl. specialize (Hl eq_refl). lia.
    + eapply (IH _ H2 i j); try eassumption. lia.
Qed.

Section NwkFresh.
  Variable E : bytes -> bytes -> bytes.

  Lemma stored_after_store st k a v k' a' m :
    select k (n_mats st) = Some m ->
    stored (with_mats st (store k a v (n_mats st))) k' a' =
    if (k' =? k) && bytes_eqb a' a then Some v else stored st k' a'.
  Proof.
    intros Hs. unfold stored. cbn [with_mats n_mats]. rewrite select_store.
    destruct (N.eqb_spec k' k) as [->|Hk]; cbn [andb].
    - rewrite Hs. cbn [m_in]. apply lookup_update.
    - reflexivity.
  Qed.

  (** the effect of one step on the stored counters *)
  Lemma nwk_step_stored st p o st1 : nwk_step E st p = (o, st1) ->
    match p, o with
    | Secured f, UpSecured _ _ =>
        (n_all_fresh st = true -> forall c0, stored st (f_kseq f) (f_src f) = Some c0 -> c0 <= f_fc f)
        /\ forall k' a', stored st1 k' a' = bump (stored st) (f_kseq f) (f_src f) (f_fc f) k' a'
    | _, _ => st1 = st
    end.
  Proof.
    destruct p as [f|ft os raw]; cbn [nwk_step].
    - destruct (nwk_decrypt E st f) as [f' st'| |cls] eqn:Ed; intros H; injection H as <- <-; try reflexivity.
      apply nwk_decrypt_ok in Ed. destruct Ed as (k & m & Hk & Hsel & Hst & _ & ->).
      unfold kseq_of in Hk. destruct (f_kt f =? 1); [|discriminate]. injection Hk as <-.
      split.
      + intros Hfresh c0 Hc0. unfold stored in Hc0. rewrite Hsel in Hc0.
        unfold stale in Hst. rewrite Hc0, Hfresh, andb_true_r in Hst. apply N.ltb_ge in Hst. exact Hst.
      + intros k' a'. unfold bump. apply (stored_after_store st _ _ _ k' a' m Hsel).
    - destruct (negb os && n_secure_all st); intros H; injection H as <- <-; reflexivity.
  Qed.

  Lemma accepted_fresh_hist ps : forall st T, n_all_fresh st = true ->
    (forall k a, T k a = stored st k a) -> fresh_hist T (accepted E st ps).
  Proof.
    induction ps as [|p r IH]; intros st T Hf HT; cbn [accepted]; [exact I|].
    destruct (nwk_step E st p) as [o st1] eqn:Es.
    pose proof (nwk_step_stored _ _ _ _ Es) as Hst.
    pose proof (nwk_step_flags E _ _ _ _ Es) as (_ & Hf1 & _ & _). rewrite Hf in Hf1.
    destruct p as [f|ft os raw].
    - destruct o as [svc f'|svc raw| |cls]; try (subst st1; apply IH; assumption).
      destruct Hst as [Hlow Hupd]. cbn [fresh_hist]. split.
      + intros c0. rewrite HT. apply Hlow. exact Hf.
      + apply IH; [exact Hf1|]. intros k' a'. rewrite Hupd. unfold bump. rewrite HT. reflexivity.
    - assert (st1 = st) as -> by (destruct o; exact Hst). apply IH; assumption.
  Qed.

  Lemma nwk_strictly_fresh st ps i j k a c c' :
    n_all_fresh st = true -> (i < j)%nat ->
    nth_error (accepted E st ps) i = Some (k, a, c) ->
    nth_error (accepted E st ps) j = Some (k, a, c') -> c < c'.
  Proof.
    intros Hf Hij Hi Hj.
    eapply (fresh_hist_strict (stored st)); try eassumption.
    apply accepted_fresh_hist; [exact Hf|reflexivity].
  Qed.

  Lemma nwk_fresh_wrt_stored st ps k a c c0 :
    n_all_fresh st = true -> In (k, a, c) (accepted E st ps) -> stored st k a = Some c0 -> c0 <= c.
  Proof.
    intros Hf Hin Hs.
    eapply (fresh_hist_lower (stored st)); try eassumption.
    apply accepted_fresh_hist; [exact Hf|reflexivity].
  Qed.


  Lemma accepted_spec st ps : accepted E st ps = events_of (combine ps (fst (nwk_run E st ps))).
  Proof.
    revert st. induction ps as [|p r IH]; intros st; cbn [accepted nwk_run]; [reflexivity|].
    destruct (nwk_step E st p) as [o st1] eqn:Es.
    specialize (IH st1). destruct (nwk_run E st1 r) as [os st2]. cbn [fst] in *. cbn [combine events_of].
    destruct p as [f|ft osec raw]; [destruct o|]; rewrite IH; reflexivity.
  Qed.
End NwkFresh.

(** * statements as they appear in Property.v *)
Section Final.
  Variable E : bytes -> bytes -> bytes.
  Hypothesis E_length : forall k b, length (E k b) = 16%nat.

  Lemma decrypt_encrypt key f : in_scope (f_lvl f) -> length (f_src f) = 8%nat ->
    exists g, encrypt E key f = Ok g
      /\ (exists m, decrypt E key g = Ok (set_mic m (set_data (plaintext_of f) f), true))
      /\ (exists m, decrypt E key (redissect g) = Ok (set_mic m (set_data (plaintext_of f) f), true)).
  Proof.
    intros Hs Hsrc.
    destruct (decrypt_encrypt_obj E E_length key f Hs Hsrc) as (g & Hg & Ho).
    destruct (decrypt_encrypt_air E E_length key f Hs Hsrc) as (g' & Hg' & Ha).
    rewrite Hg in Hg'. injection Hg' as <-.
    exists g. repeat split; assumption.
  Qed.

  (** a secured frame passed up carries the CCM* tag computed under a registered key *)
  Lemma nwk_up_has_valid_tag st ps :
    Forall2 (fun p o => forall svc f', o = UpSecured svc f' ->
               exists f key, p = Secured f /\ In (f_kseq f, key) (keys_of st) /\
                 (in_scope (f_lvl f) ->
                  recv_mic f = ccm_tag E (sp_M (params f)) 2 key (gen_nonce (patch f)) (hdr_raw (patch f))
                                       (ccm_keystream_xor E 2 key (gen_nonce (patch f)) (recv_ct f))
                  /\ f_data f' = ccm_keystream_xor E 2 key (gen_nonce (patch f)) (recv_ct f)))
            ps (fst (nwk_run E st ps)).
  Proof.
    eapply Forall2_imp; [|apply no_unauthenticated_up].
    intros p o Ha svc f' ->. cbn [authentic_up] in Ha.
    destruct Ha as (f & key & -> & _ & Hin & Hd & _).
    exists f, key. repeat split; try assumption.
    - apply (accept_iff_tag E key f H). rewrite Hd. reflexivity.
    - apply (accepted_payload E key f f' H Hd).
  Qed.
End Final.

(** * the defect that was repaired: with the authenticated data derived by
      raw.replace(payload, b"").replace(mic, b"") a frame the code has just encrypted is
      rejected by its own decryption (key and header of the first frame of
      tests/domain/zigbee/test_zigbee_crypto.py, explicit level 5, payload 00) *)
Definition witness_key : bytes :=
  [0xad;0x8e;0xbb;0xc4;0xf9;0x6a;0xe7;0x00;0x05;0x06;0xd3;0xfc;0xd1;0x62;0x7f;0xb8].
Definition witness_frame (lvl : N) (payload : bytes) : frame :=
  mkFrame [0x48;0x02;0x00;0x00;0x8a;0x5c;0x1e;0x5d] 0 1 lvl 0xe1
          [0x01;0x3c;0xe8;0x01;0x00;0x8d;0x15;0x00] 1 payload [].

Lemma pre_repair_round_trip_refuted :
  exists key f, f_lvl f = 5 /\ length (f_src f) = 8%nat /\
    exists g, encrypt_old aes128_enc key f = Ok g /\
              status_of (decrypt_old aes128_enc key (redissect g)) = false.
Proof.
  exists witness_key, (witness_frame 5 [0x00]). split; [reflexivity|]. split; [reflexivity|].
  eexists. split; [vm_compute; reflexivity|]. vm_compute. reflexivity.
Qed.

(** non-vacuity: the same witness round-trips with the repaired code, a one-bit change of the
    header is rejected, and a replayed frame is dropped by the network layer *)
Definition nv_state : nwk := mkNwk 5 true false [mkMat 1 witness_key []].
Lemma nonvacuous :
  in_scope 5 /\ length (f_src (witness_frame 5 [0x00])) = 8%nat /\
  exists g, encrypt aes128_enc witness_key (witness_frame 5 [0x00]) = Ok g /\
    status_of (decrypt aes128_enc witness_key (redissect g)) = true /\
    status_of (decrypt aes128_enc witness_key (set_lvl 5 (mkFrame [0x48;0x02;0x00;0x00;0x8a;0x5c;0x1e;0x5c] 0 1 5 0xe1
                 (f_src g) 1 (f_data g) (f_mic g)))) = false /\
    map (fun o => match o with UpSecured _ _ => true | _ => false end)
        (fst (nwk_run aes128_enc nv_state [Secured g; Secured g])) = [true; false] /\
    accepted aes128_enc nv_state [Secured g; Secured g] = [(1, f_src g, 0xe1)].
Proof.
  split; [right; left; reflexivity|]. split; [reflexivity|].
  eexists. split; [vm_compute; reflexivity|].
  repeat split; vm_compute; reflexivity.
Qed.

(** * known finding: the secured APS data request raises *)
Lemma aps_data_request_secured_refuted E :
  exists key fc src asdu, aps_data_request_secured E key fc src asdu = Raise "IndexError"%string.
Proof. exists [], 0, [], []. reflexivity. Qed.

Lemma aps_data_request_secured_always_raises E key fc src asdu :
  aps_data_request_secured E key fc src asdu = Raise "IndexError"%string.
Proof. reflexivity. Qed.

(** the complement: whenever the base layer is present, encrypt_packet is encrypt and the
    round-trip theorem applies *)
Lemma encrypt_packet_present E key f : encrypt_packet E true key f = encrypt E key f.
Proof. reflexivity. Qed.
