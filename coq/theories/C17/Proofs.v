(** C17 — lemmas (see Property.v for the statements) *)
From Coq Require Import String.
From Coq Require Import List NArith ZArith Arith Bool Lia ZifyBool ZifyN ZifyNat.
From Whad Require Import Lib.Bytes Lib.Xor Lib.Aes Lib.Ccm C17.Model C17.CcmStar.
Import ListNotations.
Ltac Zify.zify_post_hook ::= Z.to_euclidean_division_equations.
Local Open Scope N_scope.

(** * list / slicing helpers *)
Lemma firstn_length_app {A} (a b : list A) : firstn (length a) (a ++ b) = a.
Proof. rewrite firstn_app, Nat.sub_diag, firstn_all. cbn [firstn]. apply app_nil_r. Qed.

Lemma skipn_length_app {A} (a b : list A) : skipn (length a) (a ++ b) = b.
Proof. rewrite skipn_app, Nat.sub_diag, skipn_all. reflexivity. Qed.

Lemma py_drop_last_app (a b : bytes) : length b <> 0%nat -> py_drop_last (length b) (a ++ b) = a.
Proof.
  intros H. unfold py_drop_last. destruct (length b) eqn:Eb; [contradiction|].
  rewrite app_length, Eb. replace (length a + S n - S n)%nat with (length a) by lia.
  apply firstn_length_app.
Qed.

Lemma py_take_last_app (a b : bytes) : length b <> 0%nat -> py_take_last (length b) (a ++ b) = b.
Proof.
  intros H. unfold py_take_last. destruct (length b) eqn:Eb; [contradiction|].
  rewrite app_length, Eb. replace (length a + S n - S n)%nat with (length a) by lia.
  apply skipn_length_app.
Qed.

(** * serialisation facts *)
Lemma raw_base_split f : raw_base f = hdr_raw f ++ f_data f ++ f_mic f.
Proof. unfold raw_base, hdr_raw, sec_raw. rewrite !app_assoc. reflexivity. Qed.

Lemma gen_auth_mic_only sp f : sp_enc sp = false -> gen_auth sp f = hdr_raw f ++ f_data f.
Proof.
  intros H. unfold gen_auth. rewrite H, raw_base_split.
  rewrite app_assoc, app_length.
  replace (length (hdr_raw f ++ f_data f) + length (f_mic f) - length (f_mic f))%nat
    with (length (hdr_raw f ++ f_data f)) by lia.
  apply firstn_length_app.
Qed.

Lemma gen_auth_enc sp f : sp_enc sp = true -> gen_auth sp f = hdr_raw f.
Proof.
  intros H. unfold gen_auth. rewrite H, raw_base_split.
  rewrite !app_length.
  replace (length (hdr_raw f) + (length (f_data f) + length (f_mic f)) - length (f_data f) - length (f_mic f))%nat
    with (length (hdr_raw f)) by lia.
  apply firstn_length_app.
Qed.


Lemma gen_nonce_src f : f_ext f = true -> length (f_src f) = 8%nat -> gen_nonce f = nonce_of f.
Proof.
  intros He H. unfold gen_nonce, nonce_of. f_equal.
  unfold slice, sec_raw, sec_fixed, le32. rewrite He. cbn [app skipn Nat.sub].
  rewrite <- !app_assoc. rewrite <- H. apply firstn_length_app.
Qed.

(** WITHOUT the extended-nonce flag the "source" part of the nonce is whatever follows the
    frame counter: key sequence number (if any), then payload and MIC bytes *)
Lemma gen_nonce_no_ext f : f_ext f = false ->
  gen_nonce f = firstn 8 ((if f_kt f =? 1 then [f_kseq f] else []) ++ f_data f ++ f_mic f)
                ++ le32 (f_fc f) ++ [ctrl_byte f].
Proof.
  intros He. unfold gen_nonce. f_equal.
  unfold slice, sec_raw, sec_fixed, le32. rewrite He. cbn [app skipn Nat.sub].
  rewrite <- ?app_assoc. reflexivity.
Qed.

Lemma nonce_of_length f : length (f_src f) = 8%nat -> length (nonce_of f) = 13%nat.
Proof. intros H. unfold nonce_of. rewrite !app_length, H. reflexivity. Qed.



Lemma csl_eq f : check_security_level f = (patch f, params f).
Proof. unfold patch, params. destruct (check_security_level f). reflexivity. Qed.

Lemma scope_params f : in_scope (f_lvl f) ->
  sp_enc (params f) = true /\ (exists m, sp_M (params f) = S m) /\ (sp_M (params f) <= 16)%nat
  /\ sp_patched (params f) = (f_lvl f =? 0)
  /\ patch f = (if f_lvl f =? 0 then set_lvl 5 f else f)
  /\ sp_M (params f) = (if f_lvl f =? 0 then 4%nat else level_M (f_lvl f)).
Proof.
  unfold params, patch, check_security_level.
  intros [H|[H|[H|H]]]; rewrite H; cbn; repeat split; eauto; lia.
Qed.

Lemma patch_src f : f_src (patch f) = f_src f.
Proof. unfold patch, check_security_level. destruct (f_lvl f =? 0); reflexivity. Qed.

Lemma patch_ext f : f_ext (patch f) = f_ext f.
Proof. unfold patch, check_security_level. destruct (f_lvl f =? 0); reflexivity. Qed.

(** AES.new accepts the nonce (7..13 bytes) *)
Definition nonce_ok (f : frame) : Prop := (7 <= length (gen_nonce (patch f)))%nat.

Lemma nonce_ext f : f_ext f = true -> length (f_src f) = 8%nat ->
  gen_nonce (patch f) = nonce_of (patch f) /\ length (gen_nonce (patch f)) = 13%nat.
Proof.
  intros He Hs.
  assert (H : gen_nonce (patch f) = nonce_of (patch f))
    by (apply gen_nonce_src; [rewrite patch_ext|rewrite patch_src]; assumption).
  split; [exact H|]. rewrite H. apply nonce_of_length. rewrite patch_src. exact Hs.
Qed.

Lemma nonce_ok_ext f : f_ext f = true -> length (f_src f) = 8%nat -> nonce_ok f /\ Lf f = 2%nat.
Proof.
  intros He Hs. destruct (nonce_ext f He Hs) as [_ Hl]. unfold nonce_ok, Lf. fold (patch f).
  rewrite Hl. split; [lia|reflexivity].
Qed.

Lemma ltb7 n : (7 <= n)%nat -> Nat.ltb n 7 = false.
Proof. intros H. apply Nat.ltb_ge. exact H. Qed.

Lemma mic_scope_params f : mic_scope (f_lvl f) ->
  sp_enc (params f) = false /\ (exists m, sp_M (params f) = S m) /\ (sp_M (params f) <= 16)%nat
  /\ sp_patched (params f) = false /\ patch f = f /\ sp_M (params f) = level_M (f_lvl f).
Proof.
  unfold params, patch, check_security_level.
  intros [H|[H|H]]; rewrite H; cbn; repeat split; eauto; lia.
Qed.

Section Crypt.
  Variable E : bytes -> bytes -> bytes.
  Hypothesis E_length : forall k b, length (E k b) = 16%nat.

  (** the plaintext encrypt takes from the frame *)
  Definition enc_pt (f : frame) : bytes :=
    if mic_absent_patched (params f) (patch f) then py_drop_last (sp_M (params f)) (f_data (patch f))
    else f_data (patch f).

  Lemma enc_pt_plaintext f : in_scope (f_lvl f) -> enc_pt f = plaintext_of f.
  Proof.
    unfold enc_pt, plaintext_of, mic_absent_patched, params, patch, check_security_level.
    intros [H|[H|[H|H]]]; rewrite H; cbn [N.eqb fst snd sp_patched sp_M andb Pos.eqb f_data f_mic set_lvl].
    - rewrite andb_true_r. reflexivity.
    - rewrite andb_false_r. reflexivity.
    - rewrite andb_false_r. reflexivity.
    - rewrite andb_false_r. reflexivity.
  Qed.

  Lemma encrypt_eq key f : in_scope (f_lvl f) -> nonce_ok f ->
    encrypt E key f =
    Ok (restore (params f)
          (set_mic (ccm_tag E (sp_M (params f)) (Lf f) key (gen_nonce (patch f)) (hdr_raw (patch f)) (enc_pt f))
             (set_data (ccm_keystream_xor E (Lf f) key (gen_nonce (patch f)) (enc_pt f)) (patch f)))).
  Proof.
    intros Hs Hn. destruct (scope_params f Hs) as (Henc & [m Hm] & _).
    unfold encrypt, encrypt_with. rewrite csl_eq. rewrite (gen_auth_enc _ _ Henc).
    unfold enc_pt. rewrite Hm, (ltb7 _ Hn), Henc. cbn [orb]. unfold ccm_encrypt. reflexivity.
  Qed.

  Lemma decrypt_eq key f : in_scope (f_lvl f) -> nonce_ok f ->
    decrypt E key f =
    match ccm_decrypt E (sp_M (params f)) (Lf f) key (gen_nonce (patch f)) (hdr_raw (patch f)) (recv_ct f) (recv_mic f) with
    | Some pt => Ok (restore (params f)
                       (set_mic (generate_mic E gen_auth (params f) key (gen_nonce (patch f)) (set_data pt (patch f)))
                                (set_data pt (patch f))), true)
    | None => Ok (restore (params f) (patch f), false)
    end.
  Proof.
    intros Hs Hn. destruct (scope_params f Hs) as (Henc & [m Hm] & _).
    unfold decrypt, decrypt_with, recv_ct, recv_mic. rewrite csl_eq. rewrite (gen_auth_enc _ _ Henc).
    destruct (extract (params f) (patch f)) as [ct mic]. rewrite Hm, (ltb7 _ Hn), Henc. reflexivity.
  Qed.

  (** ** acceptance is exactly equality of the received MIC with the recomputed CCM* tag *)
  Lemma accept_iff_tag key f : in_scope (f_lvl f) -> nonce_ok f ->
    status_of (decrypt E key f) = true <->
    recv_mic f = ccm_tag E (sp_M (params f)) (Lf f) key (gen_nonce (patch f)) (hdr_raw (patch f))
                         (ccm_keystream_xor E (Lf f) key (gen_nonce (patch f)) (recv_ct f)).
  Proof.
    intros Hs Hn. rewrite (decrypt_eq key f Hs Hn).
    destruct (ccm_decrypt E _ _ key _ _ (recv_ct f) (recv_mic f)) as [pt|] eqn:Ed.
    - apply ccm_decrypt_iff_tag in Ed. destruct Ed as [-> Ht]. cbn [status_of]. split; [intros _; exact Ht|reflexivity].
    - apply ccm_decrypt_none_iff in Ed. cbn [status_of]. split; [discriminate|intros H; contradiction].
  Qed.

  (** on acceptance the delivered data is the CTR decryption of the received ciphertext *)
  Lemma accepted_payload key f r : in_scope (f_lvl f) -> nonce_ok f ->
    decrypt E key f = Ok (r, true) ->
    f_data r = ccm_keystream_xor E (Lf f) key (gen_nonce (patch f)) (recv_ct f).
  Proof.
    intros Hs Hn. rewrite (decrypt_eq key f Hs Hn).
    destruct (ccm_decrypt E _ _ key _ _ (recv_ct f) (recv_mic f)) as [pt|] eqn:Ed; [|discriminate].
    apply ccm_decrypt_iff_tag in Ed. destruct Ed as [-> _].
    intros H. injection H as <-. unfold restore. destruct (sp_patched (params f)); reflexivity.
  Qed.

  (** never raises inside the scope of the property *)
  Lemma decrypt_total key f : in_scope (f_lvl f) -> nonce_ok f -> exists r b, decrypt E key f = Ok (r, b).
  Proof.
    intros Hs Hn. rewrite (decrypt_eq key f Hs Hn). destruct (ccm_decrypt _ _ _ _ _ _ _ _); eauto.
  Qed.

  (** any other MIC on the same frame is rejected (unconditionally) *)
  Lemma mic_change_rejected key f f' : in_scope (f_lvl f) -> in_scope (f_lvl f') -> nonce_ok f ->
    sp_M (params f) = sp_M (params f') -> gen_nonce (patch f) = gen_nonce (patch f') ->
    hdr_raw (patch f) = hdr_raw (patch f') -> recv_ct f = recv_ct f' -> recv_mic f <> recv_mic f' ->
    status_of (decrypt E key f) = true -> status_of (decrypt E key f') = false.
  Proof.
    intros Hs Hs' Hok HM Hn Hh Hc Hm Ha.
    assert (Hok' : nonce_ok f') by (unfold nonce_ok in *; rewrite <- Hn; exact Hok).
    assert (HL : Lf f = Lf f') by (unfold Lf; fold (patch f) (patch f'); rewrite Hn; reflexivity).
    apply (accept_iff_tag key f Hs Hok) in Ha.
    destruct (status_of (decrypt E key f')) eqn:Ea'; [|reflexivity].
    apply (accept_iff_tag key f' Hs' Hok') in Ea'. rewrite <- HM, <- HL, <- Hn, <- Hh, <- Hc, <- Ha in Ea'.
    symmetry in Ea'. contradiction.
  Qed.

  (** ** round trip *)
  Lemma csl_restore f t c : in_scope (f_lvl f) ->
    check_security_level (restore (params f) (set_mic t (set_data c (patch f))))
    = (set_mic t (set_data c (patch f)), params f).
  Proof.
    unfold params, patch, check_security_level.
    intros [H|[H|[H|H]]]; rewrite H; destruct f; cbn in *; subst; reflexivity.
  Qed.

  Lemma restore_result f t c m p : in_scope (f_lvl f) ->
    restore (params f) (set_mic m (set_data p (set_mic t (set_data c (patch f))))) = set_mic m (set_data p f).
  Proof.
    unfold params, patch, check_security_level.
    intros [H|[H|[H|H]]]; rewrite H; destruct f; cbn in *; subst; reflexivity.
  Qed.

  Lemma tag_length f key L n a p : (sp_M (params f) <= 16)%nat ->
    length (ccm_tag E (sp_M (params f)) L key n a p) = sp_M (params f).
  Proof. intros Hle. apply ccm_tag_length; assumption. Qed.

  (** decrypting the packet object returned by encrypt *)
  Lemma decrypt_encrypt_obj key f : in_scope (f_lvl f) -> f_ext f = true -> length (f_src f) = 8%nat ->
    exists g, encrypt E key f = Ok g /\
    exists m, decrypt E key g = Ok (set_mic m (set_data (plaintext_of f) f), true).
  Proof.
    intros Hs Hext Hsrc. destruct (nonce_ok_ext f Hext Hsrc) as [Hok HL].
    destruct (nonce_ext f Hext Hsrc) as [Hnf Hnl].
    rewrite (encrypt_eq key f Hs Hok). eexists; split; [reflexivity|]. rewrite HL.
    set (nonce := gen_nonce (patch f)) in *. set (pt := enc_pt f).
    set (ct := ccm_keystream_xor E 2 key nonce pt).
    set (tag := ccm_tag E (sp_M (params f)) 2 key nonce (hdr_raw (patch f)) pt).
    destruct (scope_params f Hs) as (Henc & [m0 Hm] & Hle & Hpat & Hpatch & _).
    unfold decrypt, decrypt_with. rewrite (csl_restore f tag ct Hs).
    rewrite (gen_auth_enc _ _ Henc).
    assert (Hn : gen_nonce (set_mic tag (set_data ct (patch f))) = nonce).
    { rewrite Hnf. rewrite gen_nonce_src by (cbn; rewrite ?patch_ext, ?patch_src; assumption). reflexivity. }
    rewrite Hn.
    assert (Hh : hdr_raw (set_mic tag (set_data ct (patch f))) = hdr_raw (patch f)) by reflexivity.
    rewrite Hh.
    assert (Hx : extract (params f) (set_mic tag (set_data ct (patch f))) = (ct, tag)).
    { unfold extract. rewrite Henc. unfold mic_absent_patched. cbn [f_mic set_mic].
      unfold tag at 1. rewrite (tag_length f key _ _ _ _ Hle), Hm. reflexivity. }
    rewrite Hx, Hm. rewrite <- Hm. rewrite Hnl. cbn [Nat.ltb Nat.leb Nat.sub]. rewrite Henc. cbn [orb].
    pose proof (ccm_decrypt_encrypt_gen E E_length (sp_M (params f)) 2 key nonce (hdr_raw (patch f)) pt) as Hd.
    cbn [ccm_encrypt fst snd] in Hd. fold ct tag in Hd. rewrite Hd.
    eexists. rewrite (restore_result f tag ct _ pt Hs). unfold pt. rewrite (enc_pt_plaintext f Hs). reflexivity.
  Qed.

  (** what scapy's dissection of the bytes of an encrypted frame looks like *)
  Lemma redissect_encrypted f t c : in_scope (f_lvl f) -> length t = sp_M (params f) ->
    redissect (restore (params f) (set_mic t (set_data c (patch f)))) =
    if f_lvl f =? 0 then restore (params f) (set_mic [] (set_data (c ++ t) (patch f)))
    else restore (params f) (set_mic t (set_data c (patch f))).
  Proof.
    intros Hs Ht. destruct (scope_params f Hs) as (_ & _ & _ & _ & _ & HM). rewrite HM in Ht.
    unfold redissect, params, patch, check_security_level, restore in *.
    destruct Hs as [H|[H|[H|H]]]; rewrite H in *; destruct f as [pre res kt lvl fc ext src kseq data mic]; cbn in *; subst;
      cbn [N.eqb Pos.eqb level_M orb] in *; try reflexivity;
      rewrite app_length, Ht, Nat.add_sub, firstn_length_app, skipn_length_app; reflexivity.
  Qed.

  (** decrypting the bytes of the frame returned by encrypt (what a receiver does) *)
  Lemma decrypt_encrypt_air key f : in_scope (f_lvl f) -> f_ext f = true -> length (f_src f) = 8%nat ->
    exists g, encrypt E key f = Ok g /\
    exists m, decrypt E key (redissect g) = Ok (set_mic m (set_data (plaintext_of f) f), true).
  Proof.
    intros Hs Hext Hsrc.
    destruct (N.eqb_spec (f_lvl f) 0) as [H0|H0].
    - (* level 0 on the air: ciphertext and MIC both end up in [data] *)
      destruct (nonce_ok_ext f Hext Hsrc) as [Hok HL].
      destruct (nonce_ext f Hext Hsrc) as [Hnf Hnl].
      rewrite (encrypt_eq key f Hs Hok). eexists; split; [reflexivity|]. rewrite HL.
      set (nonce := gen_nonce (patch f)) in *. set (pt := enc_pt f).
      set (ct := ccm_keystream_xor E 2 key nonce pt).
      set (tag := ccm_tag E (sp_M (params f)) 2 key nonce (hdr_raw (patch f)) pt).
      destruct (scope_params f Hs) as (Henc & [m0 Hm] & Hle & Hpat & Hpatch & HM).
      assert (Htl : length tag = sp_M (params f)) by (apply tag_length; exact Hle).
      rewrite (redissect_encrypted f tag ct Hs Htl).
      rewrite H0 in Hpat, Hpatch, HM. cbn [N.eqb] in Hpat, Hpatch, HM.
      replace (f_lvl f =? 0) with true by (rewrite H0; reflexivity).
      assert (Hc : check_security_level (restore (params f) (set_mic [] (set_data (ct ++ tag) (patch f))))
                   = (set_mic [] (set_data (ct ++ tag) (patch f)), params f)) by (apply csl_restore; exact Hs).
      unfold decrypt, decrypt_with. rewrite Hc. rewrite (gen_auth_enc _ _ Henc).
      assert (Hn : gen_nonce (set_mic [] (set_data (ct ++ tag) (patch f))) = nonce).
      { rewrite Hnf. rewrite gen_nonce_src by (cbn; rewrite ?patch_ext, ?patch_src; assumption). reflexivity. }
      rewrite Hn.
      assert (Hh : hdr_raw (set_mic [] (set_data (ct ++ tag) (patch f))) = hdr_raw (patch f)) by reflexivity.
      rewrite Hh.
      assert (Hx : extract (params f) (set_mic [] (set_data (ct ++ tag) (patch f))) = (ct, tag)).
      { unfold extract. rewrite Henc. unfold mic_absent_patched. cbn [f_mic f_data set_mic set_data length Nat.eqb].
        rewrite Hpat. cbn [andb]. rewrite <- Htl.
        rewrite py_drop_last_app, py_take_last_app by (rewrite Htl, HM; discriminate). reflexivity. }
      rewrite Hx, Hm. rewrite <- Hm. rewrite Hnl. cbn [Nat.ltb Nat.leb Nat.sub]. rewrite Henc. cbn [orb].
      pose proof (ccm_decrypt_encrypt_gen E E_length (sp_M (params f)) 2 key nonce (hdr_raw (patch f)) pt) as Hd.
      cbn [ccm_encrypt fst snd] in Hd. fold ct tag in Hd. rewrite Hd.
      eexists. rewrite (restore_result f [] (ct ++ tag) _ pt Hs). unfold pt. rewrite (enc_pt_plaintext f Hs). reflexivity.
    - (* explicit level: the dissection gives back data = ciphertext, mic = tag *)
      destruct (decrypt_encrypt_obj key f Hs Hext Hsrc) as (g & Hg & m & Hd).
      exists g. split; [exact Hg|]. exists m.
      destruct (nonce_ok_ext f Hext Hsrc) as [Hok _].
      destruct (scope_params f Hs) as (_ & _ & Hle & _).
      rewrite (encrypt_eq key f Hs Hok) in Hg. injection Hg as <-.
      rewrite redissect_encrypted by (try exact Hs; apply tag_length; exact Hle).
      apply N.eqb_neq in H0. rewrite H0. exact Hd.
  Qed.

  (** ** EXTENSION: integrity-only levels 1-3 (after the repair of these levels) *)
  Lemma csl_mic f : mic_scope (f_lvl f) -> check_security_level f = (f, params f).
  Proof. intros Hs. rewrite csl_eq. destruct (mic_scope_params f Hs) as (_ & _ & _ & _ & -> & _). reflexivity. Qed.

  Lemma encrypt_eq_mic key f : mic_scope (f_lvl f) -> (7 <= length (gen_nonce f))%nat ->
    encrypt E key f =
    Ok (set_mic (ccm_tag E (sp_M (params f)) (15 - length (gen_nonce f)) key (gen_nonce f) (hdr_raw f ++ f_data f) []) f).
  Proof.
    intros Hs Hn. destruct (mic_scope_params f Hs) as (Henc & [m Hm] & _ & Hpat & _).
    unfold encrypt, encrypt_with. rewrite (csl_mic f Hs). rewrite (gen_auth_mic_only _ _ Henc).
    rewrite Hm, (ltb7 _ Hn), Henc. cbn [orb]. unfold ccm_encrypt, restore. rewrite Hpat. reflexivity.
  Qed.

  (** the MIC decrypt compares: the last M bytes of the frame *)
  Definition recv_mic_only (f : frame) : bytes := py_take_last (sp_M (params f)) (raw_base f).

  Lemma decrypt_eq_mic key f : mic_scope (f_lvl f) -> (7 <= length (gen_nonce f))%nat ->
    decrypt E key f =
    if bytes_eqb (recv_mic_only f)
                 (ccm_tag E (sp_M (params f)) (15 - length (gen_nonce f)) key (gen_nonce f) (hdr_raw f ++ f_data f) [])
    then Ok (set_mic (generate_mic E gen_auth (params f) key (gen_nonce f) f) f, true)
    else Ok (f, false).
  Proof.
    intros Hs Hn. destruct (mic_scope_params f Hs) as (Henc & [m Hm] & _ & Hpat & _).
    unfold decrypt, decrypt_with, recv_mic_only. rewrite (csl_mic f Hs). rewrite (gen_auth_mic_only _ _ Henc).
    unfold extract. rewrite Henc, Hm, (ltb7 _ Hn). cbn [orb]. unfold ccm_decrypt, restore. rewrite Hpat.
    destruct (bytes_eqb _ _); reflexivity.
  Qed.

  (** accepted iff the trailing M bytes are the CCM* tag of header ‖ payload (empty message);
      this is [ccmstar_unprotect false] of CcmStar.v *)
  Lemma accept_iff_tag_mic key f : mic_scope (f_lvl f) -> (7 <= length (gen_nonce f))%nat ->
    status_of (decrypt E key f) = true <->
    recv_mic_only f = ccm_tag E (sp_M (params f)) (15 - length (gen_nonce f)) key (gen_nonce f) (hdr_raw f ++ f_data f) [].
  Proof.
    intros Hs Hn. rewrite (decrypt_eq_mic key f Hs Hn).
    destruct (bytes_eqb _ _) eqn:Eb; cbn [status_of].
    - apply bytes_eqb_eq in Eb. split; [intros _; exact Eb|reflexivity].
    - split; [discriminate|]. intros H. rewrite H, bytes_eqb_refl in Eb. discriminate.
  Qed.

  Lemma accept_is_ccmstar_mic key f : mic_scope (f_lvl f) -> (7 <= length (gen_nonce f))%nat ->
    status_of (decrypt E key f) = true <->
    ccmstar_unprotect E false (sp_M (params f)) (15 - length (gen_nonce f)) key (gen_nonce f)
                      (hdr_raw f) (f_data f) (recv_mic_only f) = Some (f_data f).
  Proof.
    intros Hs Hn. rewrite (accept_iff_tag_mic key f Hs Hn). rewrite ccmstar_mic_only_iff_tag. tauto.
  Qed.

  Lemma gen_nonce_set_mic t f : f_ext f = true -> length (f_src f) = 8%nat -> gen_nonce (set_mic t f) = gen_nonce f.
  Proof. intros He Hs. rewrite !gen_nonce_src by assumption. reflexivity. Qed.

  (** round trip at the integrity-only levels: the payload stays in clear, the frame is accepted,
      as packet object and re-dissected from its bytes, and comes back with its payload *)
  Lemma decrypt_encrypt_mic key f : mic_scope (f_lvl f) -> f_ext f = true -> length (f_src f) = 8%nat ->
    exists g, encrypt E key f = Ok g /\ f_data g = f_data f
      /\ (exists m, decrypt E key g = Ok (set_mic m f, true))
      /\ redissect g = g.
  Proof.
    intros Hs Hext Hsrc.
    assert (Hn : length (gen_nonce f) = 13%nat)
      by (rewrite gen_nonce_src by assumption; apply nonce_of_length; exact Hsrc).
    assert (Hok : (7 <= length (gen_nonce f))%nat) by lia.
    rewrite (encrypt_eq_mic key f Hs Hok). eexists. split; [reflexivity|].
    set (tag := ccm_tag E (sp_M (params f)) (15 - length (gen_nonce f)) key (gen_nonce f) (hdr_raw f ++ f_data f) []).
    destruct (mic_scope_params f Hs) as (Henc & [m0 Hm] & Hle & Hpat & _ & HM).
    assert (Htl : length tag = sp_M (params f)) by (apply tag_length; exact Hle).
    assert (Hp : params (set_mic tag f) = params f) by (unfold params, check_security_level; cbn [f_lvl set_mic]; destruct (f_lvl f =? 0); reflexivity).
    split; [reflexivity|]. split.
    - assert (Hs' : mic_scope (f_lvl (set_mic tag f))) by exact Hs.
      assert (Hn' : gen_nonce (set_mic tag f) = gen_nonce f) by (apply gen_nonce_set_mic; assumption).
      rewrite (decrypt_eq_mic key (set_mic tag f) Hs') by (rewrite Hn'; exact Hok).
      rewrite Hn', Hp.
      assert (Hr : recv_mic_only (set_mic tag f) = tag).
      { unfold recv_mic_only. rewrite Hp, raw_base_split. cbn [f_mic f_data set_mic].
        change (hdr_raw (set_mic tag f)) with (hdr_raw f). rewrite app_assoc, <- Htl.
        apply py_take_last_app. rewrite Htl, Hm. discriminate. }
      rewrite Hr. change (hdr_raw (set_mic tag f)) with (hdr_raw f). change (f_data (set_mic tag f)) with (f_data f).
      fold tag. rewrite bytes_eqb_refl. eexists. reflexivity.
    - unfold redissect. cbn [f_lvl set_mic f_data f_mic]. rewrite <- HM, Hm, <- Hm.
      rewrite <- Htl. rewrite py_drop_last_app, py_take_last_app by (rewrite Htl, Hm; discriminate).
      destruct f; reflexivity.
  Qed.

  (** ** injective formatting: what the CBC-MAC is computed over determines the protected fields *)
  Lemma formatting_injective M f f' pt pt' :
    length (f_src f) = 8%nat -> length (f_src f') = 8%nat ->
    N.of_nat (length pt) < 65536 -> N.of_nat (length pt') < 65536 ->
    N.of_nat (length (hdr_raw f)) < 65536 -> N.of_nat (length (hdr_raw f')) < 65536 ->
    ccm_auth_blocks M 2 (nonce_of f) (hdr_raw f) pt = ccm_auth_blocks M 2 (nonce_of f') (hdr_raw f') pt' ->
    f_src f = f_src f' /\ le32 (f_fc f) = le32 (f_fc f') /\ ctrl_byte f = ctrl_byte f'
    /\ hdr_raw f = hdr_raw f' /\ pt = pt'.
  Proof.
    intros Hs Hs' Hp Hp' Hh Hh' H.
    apply ccm_auth_blocks_injective in H; try assumption; try lia.
    - destruct H as (Hn & Ha & Hm). unfold nonce_of in Hn.
      apply app_inj_length in Hn; [|lia]. destruct Hn as [H1 H2].
      apply app_inj_length in H2; [|reflexivity]. destruct H2 as [H2 H3].
      injection H3 as H3. repeat split; assumption.
    - rewrite !nonce_of_length by assumption. reflexivity.
  Qed.

  (** a frame accepted under [key'] that carries the MIC of a frame encrypted under [key]:
      the two CCM* tags coincide (for the same key and different protected fields this is a
      CBC-MAC collision on different block sequences, by [formatting_injective]) *)
  Lemma forgery_is_tag_collision key key' f g f' :
    in_scope (f_lvl f) -> nonce_ok f -> encrypt E key f = Ok g ->
    in_scope (f_lvl f') -> nonce_ok f' -> sp_M (params f') = sp_M (params f) -> recv_mic f' = f_mic g ->
    status_of (decrypt E key' f') = true ->
    ccm_tag E (sp_M (params f)) (Lf f') key' (gen_nonce (patch f')) (hdr_raw (patch f'))
            (ccm_keystream_xor E (Lf f') key' (gen_nonce (patch f')) (recv_ct f'))
    = ccm_tag E (sp_M (params f)) (Lf f) key (gen_nonce (patch f)) (hdr_raw (patch f)) (plaintext_of f).
  Proof.
    intros Hs Hok Hg Hs' Hok' HM Hmic Ha.
    apply (accept_iff_tag key' f' Hs' Hok') in Ha. rewrite HM in Ha. rewrite <- Ha, Hmic.
    rewrite (encrypt_eq key f Hs Hok) in Hg. injection Hg as <-.
    rewrite (enc_pt_plaintext f Hs). unfold restore. destruct (sp_patched (params f)); reflexivity.
  Qed.
End Crypt.

Lemma le32_inj n n' : n < 4294967296 -> n' < 4294967296 -> le32 n = le32 n' -> n = n'.
Proof. unfold le32. intros H H' E. injection E as E0 E1 E2 E3. lia. Qed.

Lemma ctrl_byte_inj f f' :
  f_lvl f < 8 -> f_kt f < 4 -> f_res f < 4 -> f_lvl f' < 8 -> f_kt f' < 4 -> f_res f' < 4 ->
  ctrl_byte f = ctrl_byte f' -> f_lvl f = f_lvl f' /\ f_kt f = f_kt f' /\ f_res f = f_res f' /\ f_ext f = f_ext f'.
Proof. unfold ctrl_byte. destruct (f_ext f), (f_ext f'); intros; repeat split; try reflexivity; lia. Qed.

(** * Network layer *)
Lemma bytes_eqb_false a b : bytes_eqb a b = false <-> a <> b.
Proof.
  split.
  - intros H Heq. apply bytes_eqb_eq in Heq. congruence.
  - intros H. destruct (bytes_eqb a b) eqn:Eb; [|reflexivity]. apply bytes_eqb_eq in Eb. contradiction.
Qed.

Lemma lookup_update a' a v t :
  lookup a' (update a v t) = if bytes_eqb a' a then Some v else lookup a' t.
Proof.
  induction t as [|[b c] r IH]; cbn [update lookup].
  - reflexivity.
  - destruct (bytes_eqb a b) eqn:Eab; cbn [lookup].
    + apply bytes_eqb_eq in Eab. subst b. destruct (bytes_eqb a' a); reflexivity.
    + rewrite IH. destruct (bytes_eqb a' b) eqn:Ea'b; [|reflexivity].
      destruct (bytes_eqb a' a) eqn:Ea'a; [|reflexivity].
      apply bytes_eqb_eq in Ea'b, Ea'a. subst. rewrite bytes_eqb_refl in Eab. discriminate.
Qed.

Lemma select_seq k ms m : select k ms = Some m -> m_seq m = k /\ In m ms.
Proof.
  induction ms as [|x r IH]; cbn [select]; [discriminate|].
  destruct (N.eqb_spec (m_seq x) k) as [He|He].
  - intros H. injection H as <-. split; [exact He|left; reflexivity].
  - intros H. destruct (IH H). split; [assumption|right; assumption].
Qed.

Lemma select_store k' k a v ms :
  select k' (store k a v ms) =
  if k' =? k then match select k ms with
                  | Some m => Some (mkMat (m_seq m) (m_key m) (update a v (m_in m)))
                  | None => None
                  end
  else select k' ms.
Proof.
  induction ms as [|x r IH]; cbn [store select].
  - destruct (k' =? k); reflexivity.
  - destruct (N.eqb_spec (m_seq x) k) as [He|He]; cbn [select m_seq].
    + destruct (N.eqb_spec k' k) as [Hk|Hk].
      * subst k'. rewrite He, N.eqb_refl. reflexivity.
      * destruct (N.eqb_spec (m_seq x) k') as [Hx|Hx]; [congruence|reflexivity].
    + rewrite IH. destruct (N.eqb_spec k' k) as [Hk|Hk].
      * subst k'. destruct (N.eqb_spec (m_seq x) k); [contradiction|reflexivity].
      * reflexivity.
Qed.

Lemma store_keys k a v ms :
  map (fun m => (m_seq m, m_key m)) (store k a v ms) = map (fun m => (m_seq m, m_key m)) ms.
Proof.
  induction ms as [|x r IH]; cbn [store map]; [reflexivity|].
  destruct (m_seq x =? k); cbn [map m_seq m_key]; [reflexivity|rewrite IH; reflexivity].
Qed.

Lemma Forall2_imp {A B} (P Q : A -> B -> Prop) l l' :
  (forall a b, P a b -> Q a b) -> Forall2 P l l' -> Forall2 Q l l'.
Proof. intros H F. induction F; constructor; auto. Qed.


Section Nwk.
  Variable E : bytes -> bytes -> bytes.

  Lemma nwk_decrypt_ok st f f' st' : nwk_decrypt E st f = DecOk f' st' ->
    exists k m, kseq_of f = Some k /\ select k (n_mats st) = Some m /\ stale st m f = false
                /\ decrypt E (m_key m) f = Ok (f', true)
                /\ st' = with_mats st (store k (sender_of f) (f_fc f + 1) (n_mats st)).
  Proof.
    unfold nwk_decrypt. destruct (n_level st =? 0); [discriminate|].
    destruct (kseq_of f) as [k|]; [|discriminate].
    destruct (select k (n_mats st)) as [m|] eqn:Es; [|discriminate].
    destruct (stale st m f) eqn:Est; [discriminate|].
    destruct (decrypt E (m_key m) f) as [[r b]|cls] eqn:Ed; [|discriminate].
    destruct b; [|discriminate].
    intros H. injection H as <- <-. exists k, m. repeat split; assumption.
  Qed.

  (** one step: flags and keys never change; the state changes only on an accepted secured frame *)
  Lemma nwk_step_flags st p o st1 : nwk_step E st p = (o, st1) ->
    n_level st1 = n_level st /\ n_all_fresh st1 = n_all_fresh st /\ n_secure_all st1 = n_secure_all st
    /\ keys_of st1 = keys_of st.
  Proof.
    destruct p as [f|ft os raw]; cbn [nwk_step].
    - destruct (nwk_decrypt E st f) as [f' st'| |cls] eqn:Ed; intros H; injection H as <- <-; try (repeat split; reflexivity).
      apply nwk_decrypt_ok in Ed. destruct Ed as (k & m & _ & _ & _ & _ & ->).
      unfold keys_of. cbn [with_mats n_level n_all_fresh n_secure_all n_mats]. rewrite store_keys. repeat split; reflexivity.
    - destruct (negb os && n_secure_all st); intros H; injection H as <- <-; repeat split; reflexivity.
  Qed.


  Lemma nwk_step_authentic st p o st1 : nwk_step E st p = (o, st1) -> authentic_up E st p o.
  Proof.
    destruct p as [f|ft os raw]; cbn [nwk_step].
    - destruct (nwk_decrypt E st f) as [f' st'| |cls] eqn:Ed; intros H; injection H as <- <-; cbn [authentic_up]; try exact I.
      apply nwk_decrypt_ok in Ed. destruct Ed as (k & m & Hk & Hsel & _ & Hd & _).
      unfold kseq_of in Hk. destruct (N.eqb_spec (f_kt f) 1) as [Hkt|]; [|discriminate]. injection Hk as <-.
      apply select_seq in Hsel. destruct Hsel as [Hseq Hin].
      exists f, (m_key m). repeat split; try assumption.
      unfold keys_of. rewrite <- Hseq. apply (in_map (fun m => (m_seq m, m_key m))). exact Hin.
    - destruct (negb os && n_secure_all st) eqn:Eb; intros H; injection H as <- <-; cbn [authentic_up]; [exact I|].
      exists ft, os. repeat split. destruct os; [right; reflexivity|left]. cbn in Eb. exact Eb.
  Qed.

  Lemma no_unauthenticated_up st ps : Forall2 (authentic_up E st) ps (fst (nwk_run E st ps)).
  Proof.
    revert st. induction ps as [|p r IH]; intros st; cbn [nwk_run]; [constructor|].
    destruct (nwk_step E st p) as [o st1] eqn:Es.
    destruct (nwk_run E st1 r) as [os st2] eqn:Er. cbn [fst].
    constructor.
    - eapply nwk_step_authentic; eassumption.
    - specialize (IH st1). rewrite Er in IH. cbn [fst] in IH.
      destruct (nwk_step_flags _ _ _ _ Es) as (_ & _ & Hsa & Hk).
      eapply Forall2_imp; [|exact IH].
      intros p' o'. unfold authentic_up. rewrite Hk, Hsa. exact (fun x => x).
  Qed.
End Nwk.

(** ** freshness *)
Lemma fresh_hist_ext T T' evs : (forall k a, T k a = T' k a) -> fresh_hist T evs -> fresh_hist T' evs.
Proof.
  revert T T'. induction evs as [|[[k a] c] r IH]; intros T T' He; cbn [fresh_hist]; [auto|].
  intros [H1 H2]. split.
  - intros c0. rewrite <- He. apply H1.
  - eapply IH; [|exact H2]. intros k' a'. unfold bump. rewrite He. reflexivity.
Qed.

Lemma fresh_hist_lower T evs : fresh_hist T evs ->
  forall k a c, In (k, a, c) evs -> forall c0, T k a = Some c0 -> c0 <= c.
Proof.
  revert T. induction evs as [|[[k1 a1] c1] r IH]; intros T; cbn [fresh_hist In]; [tauto|].
  intros [H1 H2] k a c [Heq|Hin] c0 HT.
  - injection Heq as -> -> ->. apply H1. exact HT.
  - specialize (IH _ H2 k a c Hin). unfold bump in IH.
    destruct ((k =? k1) && bytes_eqb a a1) eqn:Eb.
    + apply andb_true_iff in Eb. destruct Eb as [Ek Ea]. apply N.eqb_eq in Ek. apply bytes_eqb_eq in Ea. subst.
      specialize (H1 _ HT). specialize (IH _ eq_refl). lia.
    + apply IH. exact HT.
Qed.

Lemma fresh_hist_strict T evs : fresh_hist T evs ->
  forall i j k a c c', (i < j)%nat ->
    nth_error evs i = Some (k, a, c) -> nth_error evs j = Some (k, a, c') -> c < c'.
Proof.
  revert T. induction evs as [|[[k1 a1] c1] r IH]; intros T Hf i j k a c c' Hij Hi Hj.
  - destruct i; discriminate.
  - cbn [fresh_hist] in Hf. destruct Hf as [H1 H2].
    destruct j as [|j]; [lia|]. cbn [nth_error] in Hj.
    destruct i as [|i]; cbn [nth_error] in Hi.
    + injection Hi as -> -> ->.
      apply nth_error_In in Hj.
      pose proof (fresh_hist_lower _ _ H2 k a c' Hj (c + 1)) as Hl.
      unfold bump in Hl. rewrite N.eqb_refl, bytes_eqb_refl in Hl. specialize (Hl eq_refl). lia.
    + eapply (IH _ H2 i j); try eassumption. lia.
Qed.

Section NwkFresh.
  Variable E : bytes -> bytes -> bytes.

  Lemma stored_after_store st k a v k' a' m :
    select k (n_mats st) = Some m ->
    stored (with_mats st (store k a v (n_mats st))) k' a' =
    if (k' =? k) && bytes_eqb a' a then Some v else stored st k' a'.
  Proof.
    intros Hs. unfold stored. cbn [with_mats n_mats]. rewrite select_store.
    destruct (N.eqb_spec k' k) as [->|Hk]; cbn [andb].
    - rewrite Hs. cbn [m_in]. apply lookup_update.
    - reflexivity.
  Qed.

  (** the effect of one step on the stored counters *)
  Lemma nwk_step_stored st p o st1 : nwk_step E st p = (o, st1) ->
    match p, o with
    | Secured f, UpSecured _ _ =>
        (n_all_fresh st = true -> forall c0, stored st (f_kseq f) (sender_of f) = Some c0 -> c0 <= f_fc f)
        /\ forall k' a', stored st1 k' a' = bump (stored st) (f_kseq f) (sender_of f) (f_fc f) k' a'
    | _, _ => st1 = st
    end.
  Proof.
    destruct p as [f|ft os raw]; cbn [nwk_step].
    - destruct (nwk_decrypt E st f) as [f' st'| |cls] eqn:Ed; intros H; injection H as <- <-; try reflexivity.
      apply nwk_decrypt_ok in Ed. destruct Ed as (k & m & Hk & Hsel & Hst & _ & ->).
      unfold kseq_of in Hk. destruct (f_kt f =? 1); [|discriminate]. injection Hk as <-.
      split.
      + intros Hfresh c0 Hc0. unfold stored in Hc0. rewrite Hsel in Hc0.
        unfold stale in Hst. rewrite Hc0, Hfresh, andb_true_r in Hst. apply N.ltb_ge in Hst. exact Hst.
      + intros k' a'. unfold bump. apply (stored_after_store st _ _ _ k' a' m Hsel).
    - destruct (negb os && n_secure_all st); intros H; injection H as <- <-; reflexivity.
  Qed.

  Lemma accepted_fresh_hist ps : forall st T, n_all_fresh st = true ->
    (forall k a, T k a = stored st k a) -> fresh_hist T (accepted E st ps).
  Proof.
    induction ps as [|p r IH]; intros st T Hf HT; cbn [accepted]; [exact I|].
    destruct (nwk_step E st p) as [o st1] eqn:Es.
    pose proof (nwk_step_stored _ _ _ _ Es) as Hst.
    pose proof (nwk_step_flags E _ _ _ _ Es) as (_ & Hf1 & _ & _). rewrite Hf in Hf1.
    destruct p as [f|ft os raw].
    - destruct o as [svc f'|svc raw| |cls]; try (subst st1; apply IH; assumption).
      destruct Hst as [Hlow Hupd]. cbn [fresh_hist]. split.
      + intros c0. rewrite HT. apply Hlow. exact Hf.
      + apply IH; [exact Hf1|]. intros k' a'. rewrite Hupd. unfold bump. rewrite HT. reflexivity.
    - assert (st1 = st) as -> by (destruct o; exact Hst). apply IH; assumption.
  Qed.

  Lemma nwk_strictly_fresh st ps i j k a c c' :
    n_all_fresh st = true -> (i < j)%nat ->
    nth_error (accepted E st ps) i = Some (k, a, c) ->
    nth_error (accepted E st ps) j = Some (k, a, c') -> c < c'.
  Proof.
    intros Hf Hij Hi Hj.
    eapply (fresh_hist_strict (stored st)); try eassumption.
    apply accepted_fresh_hist; [exact Hf|reflexivity].
  Qed.

  Lemma nwk_fresh_wrt_stored st ps k a c c0 :
    n_all_fresh st = true -> In (k, a, c) (accepted E st ps) -> stored st k a = Some c0 -> c0 <= c.
  Proof.
    intros Hf Hin Hs.
    eapply (fresh_hist_lower (stored st)); try eassumption.
    apply accepted_fresh_hist; [exact Hf|reflexivity].
  Qed.


  Lemma accepted_spec st ps : accepted E st ps = events_of (combine ps (fst (nwk_run E st ps))).
  Proof.
    revert st. induction ps as [|p r IH]; intros st; cbn [accepted nwk_run]; [reflexivity|].
    destruct (nwk_step E st p) as [o st1] eqn:Es.
    specialize (IH st1). destruct (nwk_run E st1 r) as [os st2]. cbn [fst] in *. cbn [combine events_of].
    destruct p as [f|ft osec raw]; [destruct o|]; rewrite IH; reflexivity.
  Qed.
End NwkFresh.

(** * statements as they appear in Property.v *)
Section Final.
  Variable E : bytes -> bytes -> bytes.
  Hypothesis E_length : forall k b, length (E k b) = 16%nat.

  Lemma decrypt_encrypt key f : in_scope (f_lvl f) -> f_ext f = true -> length (f_src f) = 8%nat ->
    exists g, encrypt E key f = Ok g
      /\ (exists m, decrypt E key g = Ok (set_mic m (set_data (plaintext_of f) f), true))
      /\ (exists m, decrypt E key (redissect g) = Ok (set_mic m (set_data (plaintext_of f) f), true)).
  Proof.
    intros Hs Hext Hsrc.
    destruct (decrypt_encrypt_obj E E_length key f Hs Hext Hsrc) as (g & Hg & Ho).
    destruct (decrypt_encrypt_air E E_length key f Hs Hext Hsrc) as (g' & Hg' & Ha).
    rewrite Hg in Hg'. injection Hg' as <-.
    exists g. repeat split; assumption.
  Qed.

  (** a secured frame passed up carries the CCM* tag computed under a registered key *)
  Lemma nwk_up_has_valid_tag st ps :
    Forall2 (fun p o => forall svc f', o = UpSecured svc f' ->
               exists f key, p = Secured f /\ In (f_kseq f, key) (keys_of st) /\
                 (in_scope (f_lvl f) -> nonce_ok f ->
                  recv_mic f = ccm_tag E (sp_M (params f)) (Lf f) key (gen_nonce (patch f)) (hdr_raw (patch f))
                                       (ccm_keystream_xor E (Lf f) key (gen_nonce (patch f)) (recv_ct f))
                  /\ f_data f' = ccm_keystream_xor E (Lf f) key (gen_nonce (patch f)) (recv_ct f)))
            ps (fst (nwk_run E st ps)).
  Proof.
    eapply Forall2_imp; [|apply no_unauthenticated_up].
    intros p o Ha svc f' ->. cbn [authentic_up] in Ha.
    destruct Ha as (f & key & -> & _ & Hin & Hd & _).
    exists f, key. repeat split; try assumption.
    - apply (accept_iff_tag E key f H H0). rewrite Hd. reflexivity.
    - apply (accepted_payload E key f f' H H0 Hd).
  Qed.

  (** ** EXTENSION: level 4 (encryption only).  The code does not implement it: AES.new(mac_len=0)
      raises ValueError in encrypt and in decrypt, for every frame and key.  (The CCM* level-4
      transform itself and its lack of authentication are in CcmStar.v.) *)
  Lemma level4_unsupported key f : f_lvl f = 4 ->
    encrypt E key f = Raise "ValueError"%string /\ decrypt E key f = Raise "ValueError"%string.
  Proof.
    intros H. unfold encrypt, decrypt, encrypt_with, decrypt_with, check_security_level.
    rewrite H. cbn [N.eqb Pos.eqb level_int negb andb sp_M]. split; [reflexivity|].
    destruct (extract _ _). reflexivity.
  Qed.

  (** ** APS receive path: stateless, hence no freshness *)
  Lemma aps_try_authentic cands f f' : aps_try E cands f = ADecOk f' ->
    exists kp inp, In kp cands /\ aps_input (f_kt f) = Some inp
                   /\ decrypt E (aps_key E (kp_key kp) inp) f = Ok (f', true).
  Proof.
    induction cands as [|kp r IH]; cbn [aps_try]; [discriminate|].
    destruct (aps_input (f_kt f)) as [inp|] eqn:Ei; [|discriminate].
    destruct (decrypt E (aps_key E (kp_key kp) inp) f) as [[g b]|cls] eqn:Ed; [|discriminate].
    destruct b.
    - intros H. injection H as <-. exists kp, inp. repeat split; [left; reflexivity|exact Ed].
    - intros H. destruct (IH H) as (kp' & inp' & Hin & Hi & Hd). exists kp', inp'. repeat split; [right; exact Hin|exact Hi|exact Hd].
  Qed.

  Lemma aps_select_sub short kps kp : In kp (aps_select short kps) -> In kp kps.
  Proof.
    unfold aps_select. destruct (filter _ kps) eqn:Ef.
    - intros H. apply filter_In in H. tauto.
    - intros H. rewrite <- Ef in H. apply filter_In in H. tauto.
  Qed.

  Lemma aps_up_authentic st p svc f' : aps_step E st p = AUpSecured svc f' ->
    exists f kp inp, p = ApsSecured f /\ In kp (a_kps st) /\ aps_input (f_kt f) = Some inp
                     /\ decrypt E (aps_key E (kp_key kp) inp) f = Ok (f', true).
  Proof.
    destruct p as [f|ft raw]; cbn [aps_step].
    - destruct (aps_decrypt E st f) as [g| |cls] eqn:Ed; try discriminate.
      unfold aps_route_secured. intros H.
      assert (g = f') as -> by (destruct (frametype_of g =? 0); [|destruct (frametype_of g =? 1)]; congruence).
      unfold aps_decrypt in Ed. apply aps_try_authentic in Ed. destruct Ed as (kp & inp & Hin & Hi & Hd).
      exists f, kp, inp. repeat split; try assumption. eapply aps_select_sub; exact Hin.
    - destruct (ft =? 0); [discriminate|]. destruct (ft =? 1); discriminate.
  Qed.

  (** OBSERVATION (not a finding: the property's freshness sentence is about the network layer):
      the outcome of an NSDU does not depend on what was received before, so an accepted frame
      is accepted again, with the same result, every time it is replayed *)
  Lemma aps_no_freshness st before f o :
    aps_step E st (ApsSecured f) = o ->
    aps_run E st (before ++ [ApsSecured f; ApsSecured f]) = aps_run E st before ++ [o; o].
  Proof. intros <-. unfold aps_run. rewrite map_app. reflexivity. Qed.
End Final.

(** * the defects that were repaired *)
Definition witness_key : bytes :=
  [0xad;0x8e;0xbb;0xc4;0xf9;0x6a;0xe7;0x00;0x05;0x06;0xd3;0xfc;0xd1;0x62;0x7f;0xb8].
Definition witness_frame (lvl : N) (ext : bool) (payload : bytes) : frame :=
  mkFrame [0x48;0x02;0x00;0x00;0x8a;0x5c;0x1e;0x5d] 0 1 lvl 0xe1 ext
          [0x01;0x3c;0xe8;0x01;0x00;0x8d;0x15;0x00] 1 payload [].

(** original code: authenticated data derived by raw.replace(payload, b"").replace(mic, b"")
    (key and header of the first frame of tests/domain/zigbee/test_zigbee_crypto.py, explicit
    level 5, payload 00) *)
Lemma pre_repair_round_trip_refuted :
  exists key f, f_lvl f = 5 /\ f_ext f = true /\ length (f_src f) = 8%nat /\
    exists g, encrypt_old aes128_enc key f = Ok g /\
              status_of (decrypt_old aes128_enc key (redissect g)) = false.
Proof.
  exists witness_key, (witness_frame 5 true [0x00]). repeat (split; [reflexivity|]).
  eexists. split; [vm_compute; reflexivity|]. vm_compute. reflexivity.
Qed.

(** code before the repair of the integrity-only levels: at level 1 the payload 11 left
    encrypt as ciphertext and the frame was rejected by decrypt *)
Lemma pre_repair_mic_only_refuted :
  exists key f, f_lvl f = 1 /\ f_ext f = true /\ length (f_src f) = 8%nat /\
    exists g, encrypt_v1 aes128_enc key f = Ok g /\ f_data g <> f_data f /\
              status_of (decrypt_v1 aes128_enc key (redissect g)) = false.
Proof.
  exists witness_key, (witness_frame 1 true [0x11]). repeat (split; [reflexivity|]).
  eexists. split; [vm_compute; reflexivity|]. split; [vm_compute; discriminate|]. vm_compute. reflexivity.
Qed.

(** KNOWN FINDING no-extended-nonce-source-from-payload: without the extended-nonce flag the
    nonce takes the bytes after the frame counter (key sequence number, payload, MIC) as the
    source; they differ between the encrypt side (plaintext) and the decrypt side
    (ciphertext), so the frame just encrypted is rejected *)
Lemma no_extended_nonce_round_trip_refuted :
  exists key f, f_lvl f = 5 /\ f_ext f = false /\
    exists g, encrypt aes128_enc key f = Ok g /\
              status_of (decrypt aes128_enc key (redissect g)) = false.
Proof.
  exists witness_key, (witness_frame 5 false [0x00;0x11;0x22;0x33;0x44;0x55;0x66;0x77]). repeat (split; [reflexivity|]).
  eexists. split; [vm_compute; reflexivity|]. vm_compute. reflexivity.
Qed.

(** non-vacuity: the same witness round-trips with the repaired code (levels 5 and 1), a
    one-bit change of the header is rejected, and a replayed frame is dropped by the network
    layer *)
Definition nv_state : nwk := mkNwk 5 true false [mkMat 1 witness_key []].
Lemma nonvacuous :
  in_scope 5 /\ mic_scope 1 /\ length (f_src (witness_frame 5 true [0x00])) = 8%nat /\
  (exists g1, encrypt aes128_enc witness_key (witness_frame 1 true [0x11]) = Ok g1 /\ f_data g1 = [0x11] /\
     status_of (decrypt aes128_enc witness_key (redissect g1)) = true) /\
  exists g, encrypt aes128_enc witness_key (witness_frame 5 true [0x00]) = Ok g /\
    status_of (decrypt aes128_enc witness_key (redissect g)) = true /\
    status_of (decrypt aes128_enc witness_key (set_lvl 5 (mkFrame [0x48;0x02;0x00;0x00;0x8a;0x5c;0x1e;0x5c] 0 1 5 0xe1 true
                 (f_src g) 1 (f_data g) (f_mic g)))) = false /\
    map (fun o => match o with UpSecured _ _ => true | _ => false end)
        (fst (nwk_run aes128_enc nv_state [Secured g; Secured g])) = [true; false] /\
    accepted aes128_enc nv_state [Secured g; Secured g] = [(1, f_src g, 0xe1)].
Proof.
  split; [right; left; reflexivity|]. split; [left; reflexivity|]. split; [reflexivity|].
  split.
  - eexists. split; [vm_compute; reflexivity|]. split; vm_compute; reflexivity.
  - eexists. split; [vm_compute; reflexivity|].
    repeat split; vm_compute; reflexivity.
Qed.

(** * known finding: the secured APS data request raises *)
Lemma aps_data_request_secured_refuted E :
  exists key fc src asdu, aps_data_request_secured E key fc src asdu = Raise "IndexError"%string.
Proof. exists [], 0, [], []. reflexivity. Qed.

Lemma aps_data_request_secured_always_raises E key fc src asdu :
  aps_data_request_secured E key fc src asdu = Raise "IndexError"%string.
Proof. reflexivity. Qed.

(** the complement: whenever the base layer is present, encrypt_packet is encrypt and the
    round-trip theorem applies *)
Lemma encrypt_packet_present E key f : encrypt_packet E true key f = encrypt E key f.
Proof. reflexivity. Qed.

(** * the manager instance: each call depends only on its own frame *)
Section Instance.
  Variable E : bytes -> bytes -> bytes.

  Lemma csl_st_params s f :
    fst (csl_st s f) = fst (check_security_level f)
    /\ self_params (snd (csl_st s f)) = snd (check_security_level f).
  Proof.
    unfold csl_st, check_security_level. destruct (f_lvl f =? 0); split; reflexivity.
  Qed.

  (** the result AND the state left behind do not depend on the state found *)
  Lemma encrypt_st_indep key s s' f : encrypt_st E key s f = encrypt_st E key s' f.
  Proof.
    unfold encrypt_st, csl_st. destruct (f_lvl f =? 0); reflexivity.
  Qed.

  Lemma decrypt_st_indep key s s' f : decrypt_st E key s f = decrypt_st E key s' f.
  Proof.
    unfold decrypt_st, csl_st. destruct (f_lvl f =? 0); reflexivity.
  Qed.

  (** and the result is the one of the stateless transcription (a fresh instance) *)
  Lemma encrypt_st_fresh key s f : fst (encrypt_st E key s f) = encrypt E key f.
  Proof.
    unfold encrypt_st, encrypt, encrypt_with, csl_st, check_security_level.
    destruct (f_lvl f =? 0); cbn [fst snd self_params set_auth set_nonce set_enc set_int set_M set_patched
                                   ms_M ms_nonce ms_auth ms_enc ms_patched ms_int sp_M sp_enc].
    - cbn [orb]. destruct (Nat.ltb _ 7); [reflexivity|]. unfold ccm_encrypt. reflexivity.
    - rewrite orb_false_r.
      destruct (if level_int (f_lvl f) then level_M (f_lvl f) else 0%nat); [reflexivity|].
      destruct (Nat.ltb _ 7); [reflexivity|]. unfold ccm_encrypt. reflexivity.
  Qed.

  Lemma decrypt_st_fresh key s f : fst (decrypt_st E key s f) = decrypt E key f.
  Proof.
    unfold decrypt_st, decrypt, decrypt_with, csl_st, check_security_level.
    destruct (f_lvl f =? 0); cbn [fst snd self_params set_auth set_nonce set_enc set_int set_M set_patched
                                   ms_M ms_nonce ms_auth ms_enc ms_patched ms_int sp_M sp_enc].
    - destruct (extract _ _) as [ct mic]. cbn [orb]. destruct (Nat.ltb _ 7); [reflexivity|].
      destruct (ccm_decrypt _ _ _ _ _ _ _ _); reflexivity.
    - destruct (extract _ _) as [ct mic]. rewrite orb_false_r.
      destruct (if level_int (f_lvl f) then level_M (f_lvl f) else 0%nat); [reflexivity|].
      destruct (Nat.ltb _ 7); [reflexivity|].
      destruct (ccm_decrypt _ _ _ _ _ _ _ _); reflexivity.
  Qed.

  Lemma do_call_indep key s s' c : do_call E key s c = do_call E key s' c.
  Proof.
    destruct c as [f|f]; cbn [do_call].
    - rewrite (encrypt_st_indep key s s'). reflexivity.
    - rewrite (decrypt_st_indep key s s'). reflexivity.
  Qed.

  Lemma do_call_fresh key s c : fst (do_call E key s c) = fresh_call E key c.
  Proof.
    destruct c as [f|f]; cbn [do_call fresh_call].
    - rewrite <- (encrypt_st_fresh key s f). destruct (encrypt_st E key s f). reflexivity.
    - rewrite <- (decrypt_st_fresh key s f). destruct (decrypt_st E key s f). reflexivity.
  Qed.

  (** every history of calls on one instance, from any initial state: call number i returns
      what a fresh instance returns for that call (induction over the sequence) *)
  Lemma run_calls_stateless key cs : forall s, fst (run_calls E key s cs) = map (fresh_call E key) cs.
  Proof.
    induction cs as [|c r IH]; intros s; cbn [run_calls map]; [reflexivity|].
    pose proof (do_call_fresh key s c) as Hc.
    destruct (do_call E key s c) as [o s1]. specialize (IH s1).
    destruct (run_calls E key s1 r) as [os s2]. cbn [fst] in *. rewrite Hc, IH. reflexivity.
  Qed.

  (** in particular: whatever was processed before, the last call of a history gives the same
      result and leaves the same state as on a fresh instance *)
  Lemma run_calls_last key before c s :
    fst (run_calls E key s (before ++ [c])) = map (fresh_call E key) before ++ [fresh_call E key c].
  Proof. rewrite run_calls_stateless, map_app. reflexivity. Qed.
End Instance.

(** * NWK histories with management operations *)
Lemma fresh_hist_k_lower T evs : fresh_hist_k T evs ->
  forall K a c, In (K, a, c) evs -> forall c0, T K a = Some c0 -> c0 <= c.
Proof.
  revert T. induction evs as [|[[K1 a1] c1] r IH]; intros T; cbn [fresh_hist_k In]; [tauto|].
  intros [H1 H2] K a c [Heq|Hin] c0 HT.
  - injection Heq as -> -> ->. apply H1. exact HT.
  - specialize (IH _ H2 K a c Hin). unfold bump_k in IH.
    destruct (bytes_eqb K K1 && bytes_eqb a a1) eqn:Eb.
    + apply andb_true_iff in Eb. destruct Eb as [Ek Ea]. apply bytes_eqb_eq in Ek, Ea. subst.
      specialize (H1 _ HT). specialize (IH _ eq_refl). lia.
    + apply IH. exact HT.
Qed.

Lemma fresh_hist_k_strict T evs : fresh_hist_k T evs ->
  forall i j K a c c', (i < j)%nat ->
    nth_error evs i = Some (K, a, c) -> nth_error evs j = Some (K, a, c') -> c < c'.
Proof.
  revert T. induction evs as [|[[K1 a1] c1] r IH]; intros T Hf i j K a c c' Hij Hi Hj.
  - destruct i; discriminate.
  - cbn [fresh_hist_k] in Hf. destruct Hf as [H1 H2].
    destruct j as [|j]; [lia|]. cbn [nth_error] in Hj.
    destruct i as [|i]; cbn [nth_error] in Hi.
    + injection Hi as -> -> ->.
      apply nth_error_In in Hj.
      pose proof (fresh_hist_k_lower _ _ H2 K a c' Hj (c + 1)) as Hl.
      unfold bump_k in Hl. rewrite !bytes_eqb_refl in Hl. specialize (Hl eq_refl). lia.
    + eapply (IH _ H2 i j); try eassumption. lia.
Qed.

Definition keys_nodup (st : nwk) : Prop := NoDup (map m_key (n_mats st)).

Lemma find_key_in K ms m : find_key K ms = Some m -> In m ms /\ m_key m = K.
Proof.
  induction ms as [|x r IH]; cbn [find_key]; [discriminate|].
  destruct (bytes_eqb (m_key x) K) eqn:Eb.
  - intros H. injection H as <-. apply bytes_eqb_eq in Eb. split; [left; reflexivity|exact Eb].
  - intros H. destruct (IH H). split; [right; assumption|assumption].
Qed.

(** updating the counter table of the selected material, seen through the keys *)
Lemma find_key_store K' k a v ms m :
  select k ms = Some m -> NoDup (map m_key ms) ->
  find_key K' (store k a v ms) =
  if bytes_eqb (m_key m) K' then Some (mkMat (m_seq m) (m_key m) (update a v (m_in m))) else find_key K' ms.
Proof.
  induction ms as [|x r IH]; cbn [select store find_key map]; [discriminate|].
  intros Hs Hnd. inversion Hnd as [|? ? Hnotin Hnd']; subst.
  destruct (N.eqb_spec (m_seq x) k) as [He|He].
  - injection Hs as <-. cbn [find_key m_key]. destruct (bytes_eqb (m_key x) K'); reflexivity.
  - cbn [find_key]. destruct (bytes_eqb (m_key x) K') eqn:Ex.
    + apply bytes_eqb_eq in Ex. subst K'.
      destruct (bytes_eqb (m_key m) (m_key x)) eqn:Em; [|reflexivity].
      apply bytes_eqb_eq in Em. apply select_seq in Hs. destruct Hs as [_ Hin].
      exfalso. apply Hnotin. rewrite <- Em. apply in_map. exact Hin.
    + apply IH; assumption.
Qed.

Lemma store_keys_list k a v ms : map m_key (store k a v ms) = map m_key ms.
Proof.
  induction ms as [|x r IH]; cbn [store map]; [reflexivity|].
  destruct (m_seq x =? k); cbn [map m_key]; [reflexivity|rewrite IH; reflexivity].
Qed.

Lemma find_key_app_new K ms m2 : m_key m2 <> K -> find_key K (ms ++ [m2]) = find_key K ms.
Proof.
  intros Hne. induction ms as [|x r IH]; cbn [app find_key].
  - destruct (bytes_eqb (m_key m2) K) eqn:Eb; [|reflexivity]. apply bytes_eqb_eq in Eb. contradiction.
  - destruct (bytes_eqb (m_key x) K); [reflexivity|exact IH].
Qed.

Lemma has_key_find K ms : has_key K ms = false -> find_key K ms = None.
Proof.
  induction ms as [|x r IH]; cbn [has_key find_key]; [reflexivity|].
  destruct (bytes_eqb (m_key x) K); cbn [orb]; [discriminate|exact IH].
Qed.

Lemma has_key_in K ms : has_key K ms = false -> ~ In K (map m_key ms).
Proof.
  induction ms as [|x r IH]; cbn [has_key map In]; [tauto|].
  destruct (bytes_eqb (m_key x) K) eqn:Eb; cbn [orb]; [discriminate|].
  intros H [Heq|Hin]; [|exact (IH H Hin)]. subst K. rewrite bytes_eqb_refl in Eb. discriminate.
Qed.

Lemma find_key_remove K K2 ms : K <> K2 -> find_key K (remove_key K2 ms) = find_key K ms.
Proof.
  intros Hne. induction ms as [|x r IH]; cbn [remove_key find_key]; [reflexivity|].
  destruct (bytes_eqb (m_key x) K2) eqn:E2.
  - apply bytes_eqb_eq in E2. destruct (bytes_eqb (m_key x) K) eqn:E1; [|reflexivity].
    apply bytes_eqb_eq in E1. congruence.
  - cbn [find_key]. destruct (bytes_eqb (m_key x) K); [reflexivity|exact IH].
Qed.

Lemma remove_key_nodup K ms : NoDup (map m_key ms) -> NoDup (map m_key (remove_key K ms)).
Proof.
  induction ms as [|x r IH]; cbn [remove_key map]; [auto|].
  intros Hnd. inversion Hnd as [|? ? Hnotin Hnd']; subst.
  destruct (bytes_eqb (m_key x) K); [exact Hnd'|].
  cbn [map]. constructor; [|apply IH; exact Hnd'].
  intros Hin. apply Hnotin. clear -Hin. induction r as [|y r IH]; cbn [remove_key map In] in *; [exact Hin|].
  destruct (bytes_eqb (m_key y) K); [right; exact Hin|].
  cbn [map In] in Hin. destruct Hin; [left; assumption|right; apply IH; assumption].
Qed.

Lemma nodup_snoc {A} (l : list A) k : NoDup l -> ~ In k l -> NoDup (l ++ [k]).
Proof.
  induction l as [|x r IH]; cbn [app]; intros Hnd Hni.
  - constructor; [intros []|constructor].
  - inversion Hnd as [|? ? Hx Hr]; subst. constructor.
    + intros Hin. apply in_app_or in Hin. destruct Hin as [Hin|[Heq|[]]]; [exact (Hx Hin)|].
      apply Hni. left. symmetry. exact Heq.
    + apply IH; [exact Hr|]. intros Hin. apply Hni. right. exact Hin.
Qed.

Section NwkMgmt.
  Variable E : bytes -> bytes -> bytes.

  (** every management operation other than the removal of [K] leaves the counter table of
      (K, sender) as it is *)
  Lemma mgmt_preserves_table hs m K a :
    (forall K', m = RemoveKey K' -> K' <> K) -> m <> ClearKeys ->
    stored_k (fst (apply_mgmt hs m)) K a = stored_k (fst hs) K a.
  Proof.
    destruct hs as [st act]. intros Hm Hc. destruct m as [key seq|seq|key|]; cbn [apply_mgmt fst]; [| | |contradiction].
    - destruct (has_key key (n_mats st)) eqn:Eh; [reflexivity|].
      unfold stored_k. cbn [with_mats n_mats fst].
      destruct (bytes_eqb key K) eqn:Ek.
      + apply bytes_eqb_eq in Ek. subst key. rewrite (has_key_find _ _ Eh).
        assert (Hf : find_key K (n_mats st ++ [mkMat seq K []]) = Some (mkMat seq K [])).
        { clear Hm. induction (n_mats st) as [|x r IH]; cbn [app find_key has_key] in *.
          - cbn [m_key]. rewrite bytes_eqb_refl. reflexivity.
          - destruct (bytes_eqb (m_key x) K); cbn [orb] in Eh; [discriminate|]. apply IH. exact Eh. }
        rewrite Hf. reflexivity.
      + rewrite find_key_app_new; [reflexivity|].
        cbn [m_key]. intros ->. rewrite bytes_eqb_refl in Ek. discriminate.
    - reflexivity.
    - unfold stored_k. cbn [with_mats n_mats fst]. rewrite find_key_remove; [reflexivity|].
      intros Heq. subst key. exact (Hm K eq_refl eq_refl).
  Qed.

  Lemma mgmt_preserves_nodup hs m : keys_nodup (fst hs) -> keys_nodup (fst (apply_mgmt hs m)).
  Proof.
    destruct hs as [st act]. unfold keys_nodup. intros Hnd. destruct m as [key seq|seq|key|]; cbn [apply_mgmt fst]; [| | |constructor].
    - destruct (has_key key (n_mats st)) eqn:Eh; [exact Hnd|].
      cbn [with_mats n_mats fst]. rewrite map_app. cbn [map m_key].
      apply nodup_snoc; [exact Hnd|apply has_key_in; exact Eh].
    - exact Hnd.
    - cbn [with_mats n_mats fst]. apply remove_key_nodup. exact Hnd.
  Qed.

  Lemma mgmt_flags hs m : n_all_fresh (fst (apply_mgmt hs m)) = n_all_fresh (fst hs).
  Proof.
    destruct hs as [st act]. destruct m as [key seq|seq|key|]; cbn [apply_mgmt fst]; try reflexivity.
    destruct (has_key key (n_mats st)); reflexivity.
  Qed.

  (** a PDU step seen through the keys *)
  Lemma nwk_step_stored_k st p o st1 : nwk_step E st p = (o, st1) -> keys_nodup st ->
    keys_nodup st1 /\
    match p, o with
    | Secured f, UpSecured _ _ =>
        exists K, sel_key st f = Some K
        /\ (n_all_fresh st = true -> forall c0, stored_k st K (sender_of f) = Some c0 -> c0 <= f_fc f)
        /\ forall K' a', stored_k st1 K' a' = bump_k (stored_k st) K (sender_of f) (f_fc f) K' a'
    | _, _ => st1 = st
    end.
  Proof.
    intros Hs Hnd. destruct p as [f|ft os raw]; cbn [nwk_step] in Hs.
    - destruct (nwk_decrypt E st f) as [f' st'| |cls] eqn:Ed; injection Hs as <- <-; try (split; [exact Hnd|reflexivity]).
      apply nwk_decrypt_ok in Ed. destruct Ed as (k & m & Hk & Hsel & Hst & _ & ->).
      split.
      { unfold keys_nodup. cbn [with_mats n_mats]. rewrite store_keys_list. exact Hnd. }
      exists (m_key m). unfold sel_key. rewrite Hk, Hsel. split; [reflexivity|].
      destruct (select_seq _ _ _ Hsel) as [_ Hin].
      assert (Hfind : find_key (m_key m) (n_mats st) = Some m).
      { clear -Hin Hnd. unfold keys_nodup in Hnd. induction (n_mats st) as [|x r IH]; [destruct Hin|].
        cbn [find_key]. cbn [map] in Hnd. inversion Hnd as [|? ? Hnotin Hnd']; subst.
        destruct Hin as [->|Hin]; [rewrite bytes_eqb_refl; reflexivity|].
        destruct (bytes_eqb (m_key x) (m_key m)) eqn:Eb; [|apply IH; assumption].
        apply bytes_eqb_eq in Eb. exfalso. apply Hnotin. rewrite Eb. apply in_map. exact Hin. }
      split.
      + intros Hfresh c0 Hc0. unfold stored_k in Hc0. rewrite Hfind in Hc0.
        unfold stale in Hst. rewrite Hc0, Hfresh, andb_true_r in Hst. apply N.ltb_ge in Hst. exact Hst.
      + intros K' a'. unfold stored_k, bump_k. cbn [with_mats n_mats].
        rewrite (find_key_store K' k _ _ _ m Hsel Hnd).
        destruct (bytes_eqb (m_key m) K') eqn:Eb.
        * apply bytes_eqb_eq in Eb. subst K'. rewrite bytes_eqb_refl. cbn [andb m_in].
          rewrite lookup_update, Hfind. reflexivity.
        * assert (Eb' : bytes_eqb K' (m_key m) = false).
          { destruct (bytes_eqb K' (m_key m)) eqn:E2; [|reflexivity]. apply bytes_eqb_eq in E2. subst K'.
            rewrite bytes_eqb_refl in Eb. discriminate. }
          rewrite Eb'. reflexivity.
    - destruct (negb os && n_secure_all st); injection Hs as <- <-; split; try exact Hnd; reflexivity.
  Qed.

  Lemma haccepted_fresh K items : forall hs T, n_all_fresh (fst hs) = true -> keys_nodup (fst hs) ->
    never_removes K items -> (forall a, T K a = stored_k (fst hs) K a) ->
    fresh_hist_k T (filter (fun ev => bytes_eqb (fst (fst ev)) K) (haccepted E hs items)).
  Proof.
    induction items as [|it r IH]; intros hs T Hf Hnd Hnr HT; cbn [haccepted filter]; [exact I|].
    inversion Hnr as [|? ? Hit Hnr']; subst.
    destruct it as [p|m]; cbn [hstep].
    - destruct (nwk_step E (fst hs) p) as [o st1] eqn:Es.
      destruct (nwk_step_stored_k _ _ _ _ Es Hnd) as [Hnd1 Hst].
      pose proof (nwk_step_flags E _ _ _ _ Es) as (_ & Hf1 & _ & _). rewrite Hf in Hf1.
      destruct p as [f|ft os raw].
      + destruct o as [svc f'|svc raw| |cls];
          try (subst st1; apply IH; cbn [fst]; assumption).
        destruct Hst as (K1 & Hsel & Hlow & Hupd). rewrite Hsel. cbn [filter fst].
        destruct (bytes_eqb K1 K) eqn:Ek.
        * apply bytes_eqb_eq in Ek. subst K1. cbn [fresh_hist_k]. split.
          -- intros c0. rewrite HT. apply Hlow. exact Hf.
          -- apply IH; cbn [fst]; try assumption.
             intros a. unfold bump_k. rewrite Hupd. unfold bump_k. rewrite HT. reflexivity.
        * apply IH; cbn [fst]; try assumption.
          intros a. rewrite HT, Hupd. unfold bump_k.
          assert (Ek' : bytes_eqb K K1 = false).
          { destruct (bytes_eqb K K1) eqn:E2; [|reflexivity]. apply bytes_eqb_eq in E2. subst K1.
            rewrite bytes_eqb_refl in Ek. discriminate. }
          rewrite Ek'. reflexivity.
      + assert (st1 = fst hs) as -> by (destruct o; exact Hst). apply IH; cbn [fst]; assumption.
    - apply IH.
      + rewrite mgmt_flags. exact Hf.
      + apply mgmt_preserves_nodup. exact Hnd.
      + exact Hnr'.
      + intros a. rewrite HT. symmetry. apply mgmt_preserves_table.
        * intros K' ->. exact Hit.
        * intros ->. exact Hit.
  Qed.

  (** freshness over histories of PDUs AND management operations: for a key that the history
      never removes, the accepted counters of (key, sender) strictly increase *)
  Lemma nwk_strictly_fresh_mgmt hs items K :
    n_all_fresh (fst hs) = true -> keys_nodup (fst hs) -> never_removes K items ->
    forall i j a c c', (i < j)%nat ->
    let evs := filter (fun ev => bytes_eqb (fst (fst ev)) K) (haccepted E hs items) in
    nth_error evs i = Some (K, a, c) -> nth_error evs j = Some (K, a, c') -> c < c'.
  Proof.
    intros Hf Hnd Hnr i j a c c' Hij evs Hi Hj.
    eapply (fresh_hist_k_strict (fun K' a' => stored_k (fst hs) K' a')); try eassumption.
    apply haccepted_fresh; try assumption. reflexivity.
  Qed.

  (** authentication over such histories: what goes up was accepted under a key provisioned at
      that moment *)
  Lemma htrace_authentic items : forall hs,
    Forall (fun x => match x with
                     | (HPdu p, pre, Some o) => authentic_up E (fst pre) p o
                     | _ => True
                     end) (htrace E hs items).
  Proof.
    induction items as [|it r IH]; intros hs; cbn [htrace]; [constructor|].
    destruct (hstep E hs it) as [o hs1] eqn:Es. constructor; [|apply IH].
    destruct it as [p|m]; cbn [hstep] in Es.
    - destruct (nwk_step E (fst hs) p) as [o' st1] eqn:En. injection Es as <- <-.
      eapply nwk_step_authentic. exact En.
    - injection Es as <- <-. exact I.
  Qed.
End NwkMgmt.

(** * a rejected decryption leaves the packet object as it was *)
Section Reject.
  Variable E : bytes -> bytes -> bytes.

  Lemma restore_patch f : restore (snd (check_security_level f)) (fst (check_security_level f)) = f.
  Proof.
    unfold check_security_level, restore. destruct (N.eqb_spec (f_lvl f) 0) as [H0|H0]; cbn [fst snd sp_patched].
    - destruct f; cbn in *; subst; reflexivity.
    - reflexivity.
  Qed.

  Lemma decrypt_reject_unchanged key f g : decrypt E key f = Ok (g, false) -> g = f.
  Proof.
    unfold decrypt, decrypt_with.
    pose proof (restore_patch f) as Hr. destruct (check_security_level f) as [f1 sp]. cbn [fst snd] in Hr.
    destruct (extract sp f1) as [ct mic]. destruct (sp_M sp); [discriminate|].
    destruct (Nat.ltb _ 7); [discriminate|].
    destruct (ccm_decrypt _ _ _ _ _ _ _ _); [discriminate|].
    intros H. injection H as <-. exact Hr.
  Qed.

  (** trying a ring of keys on the object returned by the previous (failed) attempt is the same
      as trying every key on the original frame: a wrong key tried first changes nothing *)
  Lemma ring_decrypt_pure_eq keys : forall f, ring_decrypt E keys f = ring_decrypt_pure E keys f.
  Proof.
    induction keys as [|k r IH]; intros f; cbn [ring_decrypt ring_decrypt_pure]; [reflexivity|].
    destruct (decrypt E k f) as [[g b]|cls] eqn:Ed; [|reflexivity].
    destruct b; [reflexivity|]. apply decrypt_reject_unchanged in Ed. subst g. apply IH.
  Qed.

  Lemma ring_wrong_key_first wrong key f g :
    status_of (decrypt E wrong f) = false -> (exists r b, decrypt E wrong f = Ok (r, b)) ->
    decrypt E key f = Ok (g, true) -> ring_decrypt E [wrong; key] f = Ok (Some g).
  Proof.
    intros Hs (r & b & Hd) Hk. rewrite ring_decrypt_pure_eq. cbn [ring_decrypt_pure].
    rewrite Hd in *. cbn [status_of] in Hs. subst b. rewrite Hk. reflexivity.
  Qed.
End Reject.

(** * truncation: a frame whose trailer is shorter than the MIC length is rejected *)
Section Truncation.
  Variable E : bytes -> bytes -> bytes.
  Hypothesis E_length : forall k b, length (E k b) = 16%nat.

  (** the length condition of the MIC comparison, explicitly: acceptance forces the received MIC
      to have exactly M bytes *)
  Lemma accepted_mic_length key f : in_scope (f_lvl f) -> nonce_ok f ->
    status_of (decrypt E key f) = true -> length (recv_mic f) = sp_M (params f).
  Proof.
    intros Hs Hn Ha. apply (accept_iff_tag E key f Hs Hn) in Ha. rewrite Ha.
    destruct (scope_params f Hs) as (_ & _ & Hle & _). apply ccm_tag_length; assumption.
  Qed.

  Lemma short_mic_rejected key f : in_scope (f_lvl f) -> nonce_ok f ->
    length (recv_mic f) <> sp_M (params f) -> status_of (decrypt E key f) = false.
  Proof.
    intros Hs Hn Hl. destruct (status_of (decrypt E key f)) eqn:Ea; [|reflexivity].
    exfalso. apply Hl. apply (accepted_mic_length key f Hs Hn Ea).
  Qed.

  Lemma py_take_last_length n (l : bytes) : (length (py_take_last n l) <= length l)%nat.
  Proof. unfold py_take_last. destruct n; [lia|]. rewrite skipn_length. lia. Qed.

  Lemma recv_mic_le_trailer f : in_scope (f_lvl f) ->
    (length (recv_mic f) <= length (f_data f) + length (f_mic f))%nat.
  Proof.
    intros Hs. destruct (scope_params f Hs) as (Henc & _ & _ & _ & Hp & _).
    unfold recv_mic, extract. rewrite Henc.
    assert (Hd : f_data (patch f) = f_data f /\ f_mic (patch f) = f_mic f)
      by (rewrite Hp; destruct (f_lvl f =? 0); split; reflexivity).
    destruct Hd as [Hd Hm]. destruct (mic_absent_patched _ _); cbn [snd].
    - pose proof (py_take_last_length (sp_M (params f)) (f_data (patch f))). rewrite Hd in *. lia.
    - rewrite Hm. lia.
  Qed.

  (** every key, level 0 (on-air) / 5 / 6 / 7: fewer than M bytes after the security header
      (in particular none at all: no payload, no MIC) => rejected *)
  Lemma truncated_rejected key f : in_scope (f_lvl f) -> nonce_ok f ->
    (length (f_data f) + length (f_mic f) < sp_M (params f))%nat -> status_of (decrypt E key f) = false.
  Proof.
    intros Hs Hn Hl. apply short_mic_rejected; try assumption.
    pose proof (recv_mic_le_trailer f Hs). lia.
  Qed.

  (** the same at the integrity-only levels (EXTENSION) *)
  Lemma short_mic_rejected_mic_only key f : mic_scope (f_lvl f) -> (7 <= length (gen_nonce f))%nat ->
    length (recv_mic_only f) <> sp_M (params f) -> status_of (decrypt E key f) = false.
  Proof.
    intros Hs Hn Hl. destruct (status_of (decrypt E key f)) eqn:Ea; [|reflexivity].
    exfalso. apply Hl. apply (accept_iff_tag_mic E key f Hs Hn) in Ea. rewrite Ea.
    destruct (mic_scope_params f Hs) as (_ & _ & Hle & _). apply ccm_tag_length; assumption.
  Qed.
End Truncation.

(** * the receive step uses the key of the material CURRENTLY selected *)
Lemma nwk_accepts_under_current_key E st f svc f' st' :
  nwk_step E st (Secured f) = (UpSecured svc f', st') ->
  exists k m, kseq_of f = Some k /\ select k (n_mats st) = Some m /\ decrypt E (m_key m) f = Ok (f', true).
Proof.
  cbn [nwk_step]. destruct (nwk_decrypt E st f) as [g st1| |cls] eqn:Ed; try discriminate.
  intros H. injection H as _ <- <-. apply nwk_decrypt_ok in Ed.
  destruct Ed as (k & m & Hk & Hs & _ & Hd & _). exists k, m. repeat split; assumption.
Qed.
