(** C17 — Zigbee frame security: property theorems only (each closed by [exact]); see Proofs.v.

    Every theorem of the Section is stated for an ARBITRARY block function [E] with 16-byte
    outputs (AES enters only through that hypothesis); the model is the code after the repair
    of [generateAuth] (fix: header taken as a prefix by length). *)
From Coq Require Import String.
From Coq Require Import List NArith Arith.
From Whad Require Import Lib.Bytes Lib.Xor Lib.Aes Lib.Ccm C17.Model C17.Proofs.
Import ListNotations.
Local Open Scope N_scope.

Section C17.
  Variable E : bytes -> bytes -> bytes.
  Hypothesis E_length : forall k b, length (E k b) = 16%nat.

  (** Inverse.  For every key, every level 0 (on-air convention), 5, 6, 7, every counter,
      source, header and payload (empty, short, colliding with header bytes or not), in both
      conventions for the input packet (payload+MIC placeholder in [data], or payload in [data]
      and an empty [mic]): encrypt does not raise, and decrypt accepts its result — given as
      the packet object or re-dissected from its bytes — and yields the original payload in an
      otherwise unchanged frame ([m] is the code's recomputed MIC field). *)
  Theorem C17_decrypt_encrypt :
    forall key f, in_scope (f_lvl f) -> length (f_src f) = 8%nat ->
    exists g, encrypt E key f = Ok g
      /\ (exists m, decrypt E key g = Ok (set_mic m (set_data (plaintext_of f) f), true))
      /\ (exists m, decrypt E key (redissect g) = Ok (set_mic m (set_data (plaintext_of f) f), true)).
  Proof. exact (decrypt_encrypt E E_length). Qed.

  (** Acceptance is exactly equality of the received MIC with the CCM* tag recomputed over
      nonce = source ‖ counter ‖ security control, the header, and the decrypted payload. *)
  Theorem C17_accept_iff_tag :
    forall key f, in_scope (f_lvl f) ->
    status_of (decrypt E key f) = true <->
    recv_mic f = ccm_tag E (sp_M (params f)) 2 key (gen_nonce (patch f)) (hdr_raw (patch f))
                         (ccm_keystream_xor E 2 key (gen_nonce (patch f)) (recv_ct f)).
  Proof. exact (accept_iff_tag E). Qed.

  (** decrypt never raises on these levels, and what it delivers is the CTR decryption *)
  Theorem C17_decrypt_total :
    forall key f, in_scope (f_lvl f) -> exists r b, decrypt E key f = Ok (r, b).
  Proof. exact (decrypt_total E). Qed.

  Theorem C17_accepted_payload :
    forall key f r, in_scope (f_lvl f) -> decrypt E key f = Ok (r, true) ->
    f_data r = ccm_keystream_xor E 2 key (gen_nonce (patch f)) (recv_ct f).
  Proof. exact (accepted_payload E). Qed.

  (** Any change of the integrity code alone is rejected, unconditionally. *)
  Theorem C17_mic_change_rejected :
    forall key f f', in_scope (f_lvl f) -> in_scope (f_lvl f') ->
    sp_M (params f) = sp_M (params f') -> gen_nonce (patch f) = gen_nonce (patch f') ->
    hdr_raw (patch f) = hdr_raw (patch f') -> recv_ct f = recv_ct f' -> recv_mic f <> recv_mic f' ->
    status_of (decrypt E key f) = true -> status_of (decrypt E key f') = false.
  Proof. exact (mic_change_rejected E). Qed.

  (** The nonce is source ‖ counter ‖ security control when the 8-byte source is present. *)
  Theorem C17_nonce_layout :
    forall f, length (f_src f) = 8%nat -> gen_nonce f = f_src f ++ le32 (f_fc f) ++ [ctrl_byte f].
  Proof. exact gen_nonce_src. Qed.

  (** The authenticated data of an encrypting level is the header, whatever the payload and
      MIC bytes are (this is what the repair established). *)
  Theorem C17_auth_is_header :
    forall sp f, sp_enc sp = true -> gen_auth sp f = hdr_raw f.
  Proof. exact gen_auth_enc. Qed.

  (** Injective formatting: the CBC-MAC input determines source, counter bytes, security
      control, header and payload. *)
  Theorem C17_formatting_injective :
    forall M f f' pt pt',
    length (f_src f) = 8%nat -> length (f_src f') = 8%nat ->
    N.of_nat (length pt) < 65536 -> N.of_nat (length pt') < 65536 ->
    N.of_nat (length (hdr_raw f)) < 65536 -> N.of_nat (length (hdr_raw f')) < 65536 ->
    ccm_auth_blocks M 2 (nonce_of f) (hdr_raw f) pt = ccm_auth_blocks M 2 (nonce_of f') (hdr_raw f') pt' ->
    f_src f = f_src f' /\ le32 (f_fc f) = le32 (f_fc f') /\ ctrl_byte f = ctrl_byte f'
    /\ hdr_raw f = hdr_raw f' /\ pt = pt'.
  Proof. exact (formatting_injective E E_length). Qed.

  (** Wrong key / modified header or payload: a frame accepted under [key'] that carries the
      MIC of a frame encrypted under [key] exhibits two equal CCM* tags (for another key, or
      for CBC-MAC inputs that differ by the theorem above).  Unforgeability of the MAC itself
      is not a theorem for an arbitrary [E]. *)
  Theorem C17_forgery_is_tag_collision :
    forall key key' f g f',
    in_scope (f_lvl f) -> encrypt E key f = Ok g ->
    in_scope (f_lvl f') -> sp_M (params f') = sp_M (params f) -> recv_mic f' = f_mic g ->
    status_of (decrypt E key' f') = true ->
    ccm_tag E (sp_M (params f)) 2 key' (gen_nonce (patch f')) (hdr_raw (patch f'))
            (ccm_keystream_xor E 2 key' (gen_nonce (patch f')) (recv_ct f'))
    = ccm_tag E (sp_M (params f)) 2 key (gen_nonce (patch f)) (hdr_raw (patch f)) (plaintext_of f).
  Proof. exact (forgery_is_tag_collision E). Qed.

  (** Network layer, all histories of PDUs (replays, reorderings, forged, unsecured ...):
      a secured frame reaches the data / management service only if NetworkLayerCryptoManager
      accepted it under a registered key with the announced sequence number; an unsecured one
      only if nwkSecureAllFrames is off (or it carries an application-layer security header). *)
  Theorem C17_nwk_no_unauthenticated_up :
    forall st ps, Forall2 (authentic_up E st) ps (fst (nwk_run E st ps)).
  Proof. exact (no_unauthenticated_up E). Qed.

  Theorem C17_nwk_up_has_valid_tag :
    forall st ps,
    Forall2 (fun p o => forall svc f', o = UpSecured svc f' ->
               exists f key, p = Secured f /\ In (f_kseq f, key) (keys_of st) /\
                 (in_scope (f_lvl f) ->
                  recv_mic f = ccm_tag E (sp_M (params f)) 2 key (gen_nonce (patch f)) (hdr_raw (patch f))
                                       (ccm_keystream_xor E 2 key (gen_nonce (patch f)) (recv_ct f))
                  /\ f_data f' = ccm_keystream_xor E 2 key (gen_nonce (patch f)) (recv_ct f)))
            ps (fst (nwk_run E st ps)).
  Proof. exact (nwk_up_has_valid_tag E). Qed.

  (** With nwkAllFresh set: in every history, the counters of the secured frames passed up
      for one (key sequence number, sender) strictly increase, and start at or above the
      counter stored before the history. *)
  Theorem C17_nwk_strictly_fresh :
    forall st ps i j k a c c',
    n_all_fresh st = true -> (i < j)%nat ->
    nth_error (accepted E st ps) i = Some (k, a, c) ->
    nth_error (accepted E st ps) j = Some (k, a, c') -> c < c'.
  Proof. exact (nwk_strictly_fresh E). Qed.

  Theorem C17_nwk_fresh_wrt_stored :
    forall st ps k a c c0,
    n_all_fresh st = true -> In (k, a, c) (accepted E st ps) -> stored st k a = Some c0 -> c0 <= c.
  Proof. exact (nwk_fresh_wrt_stored E). Qed.

  (** [accepted] is by definition the list of secured frames that [nwk_run] passes up. *)
  Theorem C17_accepted_spec :
    forall st ps, accepted E st ps = events_of (combine ps (fst (nwk_run E st ps))).
  Proof. exact (accepted_spec E). Qed.
End C17.

(** KNOWN FINDING aps-data-request-secured-raises.  FULL STATEMENT for the application-layer
    data request (refuted by the faithful model): the stack's secured APSDE-DATA request
    yields an encrypted frame. *)
Definition C17_aps_data_request_secured_statement : Prop :=
  forall E key fc src asdu, exists g, aps_data_request_secured E key fc src asdu = Ok g.

Theorem C17_aps_data_request_secured_refuted :
  forall E, exists key fc src asdu, aps_data_request_secured E key fc src asdu = Raise "IndexError"%string.
Proof. exact aps_data_request_secured_refuted. Qed.

(** The part that holds: for every packet that HAS the manager's base layer below the
    security header (everything the network layer and transport_key build, and every
    dissected frame) the call is [encrypt], to which C17_decrypt_encrypt applies. *)
Theorem C17_encrypt_packet_partial :
  forall E key f, encrypt_packet E true key f = encrypt E key f.
Proof. exact encrypt_packet_present. Qed.

(** The defect that was repaired (kept as a statement about the pre-repair transcription
    [gen_auth_replace]): with E = AES-128 the code rejected a frame it had just encrypted. *)
Theorem C17_pre_repair_round_trip_refuted :
  exists key f, f_lvl f = 5 /\ length (f_src f) = 8%nat /\
    exists g, encrypt_old aes128_enc key f = Ok g /\
              status_of (decrypt_old aes128_enc key (redissect g)) = false.
Proof. exact pre_repair_round_trip_refuted. Qed.

(** Non-vacuity (E = AES-128): the same witness round-trips with the repaired code, a one-bit
    change of its header is rejected, and a replay is dropped by the network layer. *)
Example C17_nonvacuous :
  in_scope 5 /\ length (f_src (witness_frame 5 [0x00])) = 8%nat /\
  exists g, encrypt aes128_enc witness_key (witness_frame 5 [0x00]) = Ok g /\
    status_of (decrypt aes128_enc witness_key (redissect g)) = true /\
    status_of (decrypt aes128_enc witness_key (set_lvl 5 (mkFrame [0x48;0x02;0x00;0x00;0x8a;0x5c;0x1e;0x5c] 0 1 5 0xe1
                 (f_src g) 1 (f_data g) (f_mic g)))) = false /\
    map (fun o => match o with UpSecured _ _ => true | _ => false end)
        (fst (nwk_run aes128_enc nv_state [Secured g; Secured g])) = [true; false] /\
    accepted aes128_enc nv_state [Secured g; Secured g] = [(1, f_src g, 0xe1)].
Proof. exact nonvacuous. Qed.
