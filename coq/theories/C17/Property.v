(** C17 — Zigbee frame security: property theorems only (each closed by [exact]); see Proofs.v.

    Every theorem of the Section is stated for an ARBITRARY block function [E] with 16-byte
    outputs (AES enters only through that hypothesis); the model is the code after the repair
    of [generateAuth] (fix: header taken as a prefix by length). *)
From Coq Require Import String.
From Coq Require Import List NArith Arith.
From Whad Require Import Lib.Bytes Lib.Xor Lib.Aes Lib.Ccm C17.Model C17.CcmStar C17.Proofs.
Import ListNotations.
Local Open Scope N_scope.

Section C17.
  Variable E : bytes -> bytes -> bytes.
  Hypothesis E_length : forall k b, length (E k b) = 16%nat.

  (** Inverse.  For every key, every level 0 (on-air convention), 5, 6, 7, every counter,
      source, header and payload (empty, short, colliding with header bytes or not), in both
      conventions for the input packet (payload+MIC placeholder in [data], or payload in [data]
      and an empty [mic]): encrypt does not raise, and decrypt accepts its result — given as
      the packet object or re-dissected from its bytes — and yields the original payload in an
      otherwise unchanged frame ([m] is the code's recomputed MIC field). *)
  Theorem C17_decrypt_encrypt :
    forall key f, in_scope (f_lvl f) -> f_ext f = true -> length (f_src f) = 8%nat ->
    exists g, encrypt E key f = Ok g
      /\ (exists m, decrypt E key g = Ok (set_mic m (set_data (plaintext_of f) f), true))
      /\ (exists m, decrypt E key (redissect g) = Ok (set_mic m (set_data (plaintext_of f) f), true)).
  Proof. exact (decrypt_encrypt E E_length). Qed.

  (** Acceptance is exactly equality of the received MIC with the CCM* tag recomputed over
      nonce = source ‖ counter ‖ security control, the header, and the decrypted payload. *)
  Theorem C17_accept_iff_tag :
    forall key f, in_scope (f_lvl f) -> nonce_ok f ->
    status_of (decrypt E key f) = true <->
    recv_mic f = ccm_tag E (sp_M (params f)) (Lf f) key (gen_nonce (patch f)) (hdr_raw (patch f))
                         (ccm_keystream_xor E (Lf f) key (gen_nonce (patch f)) (recv_ct f)).
  Proof. exact (accept_iff_tag E). Qed.

  (** decrypt never raises on these levels, and what it delivers is the CTR decryption *)
  Theorem C17_decrypt_total :
    forall key f, in_scope (f_lvl f) -> nonce_ok f -> exists r b, decrypt E key f = Ok (r, b).
  Proof. exact (decrypt_total E). Qed.

  Theorem C17_accepted_payload :
    forall key f r, in_scope (f_lvl f) -> nonce_ok f -> decrypt E key f = Ok (r, true) ->
    f_data r = ccm_keystream_xor E (Lf f) key (gen_nonce (patch f)) (recv_ct f).
  Proof. exact (accepted_payload E). Qed.

  (** Any change of the integrity code alone is rejected, unconditionally. *)
  Theorem C17_mic_change_rejected :
    forall key f f', in_scope (f_lvl f) -> in_scope (f_lvl f') -> nonce_ok f ->
    sp_M (params f) = sp_M (params f') -> gen_nonce (patch f) = gen_nonce (patch f') ->
    hdr_raw (patch f) = hdr_raw (patch f') -> recv_ct f = recv_ct f' -> recv_mic f <> recv_mic f' ->
    status_of (decrypt E key f) = true -> status_of (decrypt E key f') = false.
  Proof. exact (mic_change_rejected E). Qed.

  Theorem C17_ext_mic_only_short_mic_rejected :
    forall key f, mic_scope (f_lvl f) -> (7 <= length (gen_nonce f))%nat ->
    length (recv_mic_only f) <> sp_M (params f) -> status_of (decrypt E key f) = false.
  Proof. exact (short_mic_rejected_mic_only E E_length). Qed.

  (** The nonce is source ‖ counter ‖ security control when the 8-byte source is present
      (extended-nonce flag set); then the CCM length field has L = 2 bytes and AES.new accepts
      the nonce. *)
  Theorem C17_nonce_layout :
    forall f, f_ext f = true -> length (f_src f) = 8%nat -> gen_nonce f = f_src f ++ le32 (f_fc f) ++ [ctrl_byte f].
  Proof. exact gen_nonce_src. Qed.

  Theorem C17_nonce_ok_with_source :
    forall f, f_ext f = true -> length (f_src f) = 8%nat -> nonce_ok f /\ Lf f = 2%nat.
  Proof. exact nonce_ok_ext. Qed.

  (** The authenticated data of an encrypting level is the header, whatever the payload and
      MIC bytes are (this is what the repair established). *)
  Theorem C17_auth_is_header :
    forall sp f, sp_enc sp = true -> gen_auth sp f = hdr_raw f.
  Proof. exact gen_auth_enc. Qed.

  (** Injective formatting: the CBC-MAC input determines source, counter bytes, security
      control, header and payload. *)
  Theorem C17_formatting_injective :
    forall M f f' pt pt',
    length (f_src f) = 8%nat -> length (f_src f') = 8%nat ->
    N.of_nat (length pt) < 65536 -> N.of_nat (length pt') < 65536 ->
    N.of_nat (length (hdr_raw f)) < 65536 -> N.of_nat (length (hdr_raw f')) < 65536 ->
    ccm_auth_blocks M 2 (nonce_of f) (hdr_raw f) pt = ccm_auth_blocks M 2 (nonce_of f') (hdr_raw f') pt' ->
    f_src f = f_src f' /\ le32 (f_fc f) = le32 (f_fc f') /\ ctrl_byte f = ctrl_byte f'
    /\ hdr_raw f = hdr_raw f' /\ pt = pt'.
  Proof. exact (formatting_injective E E_length). Qed.

  (** Wrong key / modified header or payload: a frame accepted under [key'] that carries the
      MIC of a frame encrypted under [key] exhibits two equal CCM* tags (for another key, or
      for CBC-MAC inputs that differ by the theorem above).  Unforgeability of the MAC itself
      is not a theorem for an arbitrary [E]. *)
  Theorem C17_forgery_is_tag_collision :
    forall key key' f g f',
    in_scope (f_lvl f) -> nonce_ok f -> encrypt E key f = Ok g ->
    in_scope (f_lvl f') -> nonce_ok f' -> sp_M (params f') = sp_M (params f) -> recv_mic f' = f_mic g ->
    status_of (decrypt E key' f') = true ->
    ccm_tag E (sp_M (params f)) (Lf f') key' (gen_nonce (patch f')) (hdr_raw (patch f'))
            (ccm_keystream_xor E (Lf f') key' (gen_nonce (patch f')) (recv_ct f'))
    = ccm_tag E (sp_M (params f)) (Lf f) key (gen_nonce (patch f)) (hdr_raw (patch f)) (plaintext_of f).
  Proof. exact (forgery_is_tag_collision E). Qed.

  (** Network layer, all histories of PDUs (replays, reorderings, forged, unsecured ...):
      a secured frame reaches the data / management service only if NetworkLayerCryptoManager
      accepted it under a registered key with the announced sequence number; an unsecured one
      only if nwkSecureAllFrames is off (or it carries an application-layer security header). *)
  Theorem C17_nwk_no_unauthenticated_up :
    forall st ps, Forall2 (authentic_up E st) ps (fst (nwk_run E st ps)).
  Proof. exact (no_unauthenticated_up E). Qed.

  Theorem C17_nwk_up_has_valid_tag :
    forall st ps,
    Forall2 (fun p o => forall svc f', o = UpSecured svc f' ->
               exists f key, p = Secured f /\ In (f_kseq f, key) (keys_of st) /\
                 (in_scope (f_lvl f) -> nonce_ok f ->
                  recv_mic f = ccm_tag E (sp_M (params f)) (Lf f) key (gen_nonce (patch f)) (hdr_raw (patch f))
                                       (ccm_keystream_xor E (Lf f) key (gen_nonce (patch f)) (recv_ct f))
                  /\ f_data f' = ccm_keystream_xor E (Lf f) key (gen_nonce (patch f)) (recv_ct f)))
            ps (fst (nwk_run E st ps)).
  Proof. exact (nwk_up_has_valid_tag E). Qed.

  (** Freshness over histories of PDUs AND management operations (add_key of a new key, of an
      already provisioned key — ignored, whatever sequence number it announces —, switching
      nwkActiveKeySeqNumber, removing and re-adding a key), interleaved with frames, replays and
      reorderings.  With nwkAllFresh set and distinct keys in the material set: for every key K
      that the history never removes, the counters of the secured frames passed up under K for
      one sender strictly increase.  ([haccepted] lists (key of the selected material, sender,
      counter) of the frames passed up; induction over the history with the counter table of
      (K, sender) as invariant.) *)
  Theorem C17_nwk_strictly_fresh :
    forall hs items K,
    n_all_fresh (fst hs) = true -> NoDup (map m_key (n_mats (fst hs))) -> never_removes K items ->
    forall i j a c c', (i < j)%nat ->
    let evs := filter (fun ev => bytes_eqb (fst (fst ev)) K) (haccepted E hs items) in
    nth_error evs i = Some (K, a, c) -> nth_error evs j = Some (K, a, c') -> c < c'.
  Proof. exact (nwk_strictly_fresh_mgmt E). Qed.

  (** the freshness table of a (key, sender) pair survives every management operation that does
      not remove that key; and the key set stays duplicate-free *)
  Theorem C17_nwk_mgmt_preserves_table :
    forall hs m K a, (forall K', m = RemoveKey K' -> K' <> K) -> m <> ClearKeys ->
    stored_k (fst (apply_mgmt hs m)) K a = stored_k (fst hs) K a.
  Proof. exact mgmt_preserves_table. Qed.

  Theorem C17_nwk_mgmt_preserves_nodup :
    forall hs m, NoDup (map m_key (n_mats (fst hs))) -> NoDup (map m_key (n_mats (fst (apply_mgmt hs m)))).
  Proof. exact mgmt_preserves_nodup. Qed.

  (** authentication over the same histories: whatever goes up was accepted under a key
      provisioned at that moment *)
  Theorem C17_nwk_no_unauthenticated_up_mgmt :
    forall items hs,
    Forall (fun x => match x with
                     | (HPdu p, pre, Some o) => authentic_up E (fst pre) p o
                     | _ => True
                     end) (htrace E hs items).
  Proof. exact (htrace_authentic E). Qed.

  (** frames-only histories, events keyed by the key sequence number (the earlier form) *)
  Theorem C17_nwk_strictly_fresh_frames_only :
    forall st ps i j k a c c',
    n_all_fresh st = true -> (i < j)%nat ->
    nth_error (accepted E st ps) i = Some (k, a, c) ->
    nth_error (accepted E st ps) j = Some (k, a, c') -> c < c'.
  Proof. exact (nwk_strictly_fresh E). Qed.

  Theorem C17_nwk_fresh_wrt_stored :
    forall st ps k a c c0,
    n_all_fresh st = true -> In (k, a, c) (accepted E st ps) -> stored st k a = Some c0 -> c0 <= c.
  Proof. exact (nwk_fresh_wrt_stored E). Qed.

  (** [accepted] is by definition the list of secured frames that [nwk_run] passes up. *)
  Theorem C17_accepted_spec :
    forall st ps, accepted E st ps = events_of (combine ps (fst (nwk_run E st ps))).
  Proof. exact (accepted_spec E). Qed.

  (** One manager INSTANCE used for a whole sequence of frames (mixed on-air level 0 and
      explicit levels, encrypt and decrypt): the attributes that persist between calls
      (patched, M, integrity, encryption, nonce, auth) are threaded explicitly in
      [encrypt_st]/[decrypt_st].  A call's result, and the state it leaves, do not depend on the
      state it finds; so in every history, from any initial state, call i returns exactly what a
      fresh instance returns for it — and every theorem above applies to each call. *)
  Theorem C17_instance_state_independent :
    forall key s s' c, do_call E key s c = do_call E key s' c.
  Proof. exact (do_call_indep E). Qed.

  Theorem C17_instance_calls_stateless :
    forall key cs s, fst (run_calls E key s cs) = map (fresh_call E key) cs.
  Proof. exact (run_calls_stateless E). Qed.

  (** Truncation.  The MIC comparison has a length condition: acceptance forces the received MIC to
      have exactly M bytes, so a frame with fewer than M bytes after the security header — in
      particular none at all (no payload, no MIC) — is rejected under every key. *)
  Theorem C17_accepted_mic_length :
    forall key f, in_scope (f_lvl f) -> nonce_ok f ->
    status_of (decrypt E key f) = true -> length (recv_mic f) = sp_M (params f).
  Proof. exact (accepted_mic_length E E_length). Qed.

  Theorem C17_truncated_rejected :
    forall key f, in_scope (f_lvl f) -> nonce_ok f ->
    (length (f_data f) + length (f_mic f) < sp_M (params f))%nat -> status_of (decrypt E key f) = false.
  Proof. exact (truncated_rejected E E_length). Qed.

  (** The network layer's receive step authenticates with the key of the material that the
      CURRENT nwkSecurityMaterialSet selects for the frame's sequence number (no key survives a
      replacement of the material: with C17_nwk_no_unauthenticated_up_mgmt over histories that
      replace the material under the same sequence number). *)
  Theorem C17_nwk_accepts_under_current_key :
    forall st f svc f' st',
    nwk_step E st (Secured f) = (UpSecured svc f', st') ->
    exists k m, kseq_of f = Some k /\ select k (n_mats st) = Some m /\ decrypt E (m_key m) f = Ok (f', true).
  Proof. exact (nwk_accepts_under_current_key E). Qed.

  (** A REJECTED decryption leaves the packet object as it was (every level, every key), so one
      frame object can be tried under a ring of keys (ZigbeeDecryptor, the candidate keys of
      APSManager.decrypt): a wrong key tried first does not change what the right key yields. *)
  Theorem C17_decrypt_reject_unchanged :
    forall key f g, decrypt E key f = Ok (g, false) -> g = f.
  Proof. exact (decrypt_reject_unchanged E). Qed.

  Theorem C17_ring_decrypt_object_independent :
    forall keys f, ring_decrypt E keys f = ring_decrypt_pure E keys f.
  Proof. exact (ring_decrypt_pure_eq E). Qed.

  Theorem C17_ring_wrong_key_first :
    forall wrong key f g,
    status_of (decrypt E wrong f) = false -> (exists r b, decrypt E wrong f = Ok (r, b)) ->
    decrypt E key f = Ok (g, true) -> ring_decrypt E [wrong; key] f = Ok (Some g).
  Proof. exact (ring_wrong_key_first E). Qed.

  (** ------------------------------------------------------------------------------------
      EXTENSIONS of the model beyond the property's quantifier ("security levels 5..7 and the
      on-air level-0 convention").  Not obligations of C17; kept apart and prefixed [C17_ext_].
      ------------------------------------------------------------------------------------ *)

  (** Levels 1-3 (MIC-32/64/128, payload in clear) — the code after the repair of these
      levels.  Inverse: encrypt leaves the payload in clear, and decrypt accepts the result
      (packet object = re-dissected bytes) and returns the frame with its payload. *)
  Theorem C17_ext_mic_only_decrypt_encrypt :
    forall key f, mic_scope (f_lvl f) -> f_ext f = true -> length (f_src f) = 8%nat ->
    exists g, encrypt E key f = Ok g /\ f_data g = f_data f
      /\ (exists m, decrypt E key g = Ok (set_mic m f, true))
      /\ redissect g = g.
  Proof. exact (decrypt_encrypt_mic E E_length). Qed.

  (** accepted iff the last M bytes of the frame are the CCM tag of header ‖ payload with an
      empty message (the message moved into the authenticated data, as CCM* specifies) *)
  Theorem C17_ext_mic_only_accept_iff_tag :
    forall key f, mic_scope (f_lvl f) -> (7 <= length (gen_nonce f))%nat ->
    status_of (decrypt E key f) = true <->
    recv_mic_only f = ccm_tag E (sp_M (params f)) (15 - length (gen_nonce f)) key (gen_nonce f) (hdr_raw f ++ f_data f) [].
  Proof. exact (accept_iff_tag_mic E). Qed.

  Theorem C17_ext_mic_only_is_ccmstar :
    forall key f, mic_scope (f_lvl f) -> (7 <= length (gen_nonce f))%nat ->
    status_of (decrypt E key f) = true <->
    ccmstar_unprotect E false (sp_M (params f)) (15 - length (gen_nonce f)) key (gen_nonce f)
                      (hdr_raw f) (f_data f) (recv_mic_only f) = Some (f_data f).
  Proof. exact (accept_is_ccmstar_mic E). Qed.

  (** CCM* itself (CcmStar.v), every level: inverse; MIC-only characterisation *)
  Theorem C17_ext_ccmstar_inverse :
    forall enc M L key nonce a m,
    ccmstar_unprotect E enc M L key nonce a (fst (ccmstar_protect E enc M L key nonce a m))
                      (snd (ccmstar_protect E enc M L key nonce a m)) = Some m.
  Proof. exact (ccmstar_unprotect_protect E E_length). Qed.

  Theorem C17_ext_ccmstar_mic_only_iff_tag :
    forall M L key nonce a c t m,
    ccmstar_unprotect E false M L key nonce a c t = Some m <->
    (m = c /\ t = ccm_tag E M L key nonce (a ++ c) []).
  Proof. exact (ccmstar_mic_only_iff_tag E). Qed.

  (** Level 4 (encryption only) of CCM* is NOT authenticated: every ciphertext, under any
      header and with any MIC field, is accepted; and it is malleable.  (That is why the
      property restricts itself to integrity-providing levels.) *)
  Theorem C17_ext_ccmstar_level4_not_authenticated :
    forall L key nonce a a' c t t',
    ccmstar_unprotect E true 0 L key nonce a c t = Some (ccm_keystream_xor E L key nonce c)
    /\ ccmstar_unprotect E true 0 L key nonce a c t = ccmstar_unprotect E true 0 L key nonce a' c t'.
  Proof. exact (ccmstar_level4_not_authenticated E). Qed.

  Theorem C17_ext_ccmstar_level4_malleable :
    forall L key nonce a c d t, length d = length c ->
    ccmstar_unprotect E true 0 L key nonce a (xor_bytes c d) t
    = option_map (fun p => xor_bytes p d) (ccmstar_unprotect E true 0 L key nonce a c t).
  Proof. exact (ccmstar_level4_malleable E E_length). Qed.

  (** What the CODE does at level 4: it does not implement it — AES.new(mac_len=0) raises
      ValueError in encrypt and in decrypt for every key and frame (so nothing unauthenticated
      is ever accepted at that level, and no inverse exists). *)
  Theorem C17_ext_level4_unsupported :
    forall key f, f_lvl f = 4 ->
    encrypt E key f = Raise "ValueError"%string /\ decrypt E key f = Raise "ValueError"%string.
  Proof. exact (level4_unsupported E). Qed.

  (** Frames WITHOUT the extended-nonce flag: generateNonce takes raw(security header)[5:13],
      i.e. key sequence number (if present), payload and MIC bytes, as the "source". *)
  Theorem C17_ext_nonce_without_extended_source :
    forall f, f_ext f = false ->
    gen_nonce f = firstn 8 ((if f_kt f =? 1 then [f_kseq f] else []) ++ f_data f ++ f_mic f)
                  ++ le32 (f_fc f) ++ [ctrl_byte f].
  Proof. exact gen_nonce_no_ext. Qed.

  (** APSManager.decrypt / on_nlde_data: a secured APS frame goes up only if
      ApplicationSubLayerCryptoManager accepted it under a key of apsDeviceKeyPairSet
      (hash_key input chosen by the key identifier) ... *)
  Theorem C17_ext_aps_up_authentic :
    forall st p svc f', aps_step E st p = AUpSecured svc f' ->
    exists f kp inp, p = ApsSecured f /\ In kp (a_kps st) /\ aps_input (f_kt f) = Some inp
                     /\ decrypt E (aps_key E (kp_key kp) inp) f = Ok (f', true).
  Proof. exact (aps_up_authentic E). Qed.

  (** ... and OBSERVATION: the APS receive path keeps no counter (incoming_frame_counter of the
      key pairs is never read or written), so after any history a frame that is accepted is
      accepted again, with the same result, when replayed.  Not a finding: the freshness
      sentence of the property is about the network layer. *)
  Theorem C17_ext_aps_no_freshness :
    forall st before f o, aps_step E st (ApsSecured f) = o ->
    aps_run E st (before ++ [ApsSecured f; ApsSecured f]) = aps_run E st before ++ [o; o].
  Proof. exact (aps_no_freshness E). Qed.
End C17.

(** KNOWN FINDING aps-data-request-secured-raises.  FULL STATEMENT for the application-layer
    data request (refuted by the faithful model): the stack's secured APSDE-DATA request
    yields an encrypted frame. *)
Definition C17_aps_data_request_secured_statement : Prop :=
  forall E key fc src asdu, exists g, aps_data_request_secured E key fc src asdu = Ok g.

Theorem C17_aps_data_request_secured_refuted :
  forall E, exists key fc src asdu, aps_data_request_secured E key fc src asdu = Raise "IndexError"%string.
Proof. exact aps_data_request_secured_refuted. Qed.

(** The part that holds: for every packet that HAS the manager's base layer below the
    security header (everything the network layer and transport_key build, and every
    dissected frame) the call is [encrypt], to which C17_decrypt_encrypt applies. *)
Theorem C17_encrypt_packet_partial :
  forall E key f, encrypt_packet E true key f = encrypt E key f.
Proof. exact encrypt_packet_present. Qed.

(** The defect that was repaired (kept as a statement about the pre-repair transcription
    [gen_auth_replace]): with E = AES-128 the code rejected a frame it had just encrypted. *)
Theorem C17_pre_repair_round_trip_refuted :
  exists key f, f_lvl f = 5 /\ f_ext f = true /\ length (f_src f) = 8%nat /\
    exists g, encrypt_old aes128_enc key f = Ok g /\
              status_of (decrypt_old aes128_enc key (redissect g)) = false.
Proof. exact pre_repair_round_trip_refuted. Qed.

(** EXTENSION, second repair (integrity-only levels): before it, the level-1 payload 11 left
    encrypt as ciphertext and the frame was rejected by decrypt. *)
Theorem C17_ext_pre_repair_mic_only_refuted :
  exists key f, f_lvl f = 1 /\ f_ext f = true /\ length (f_src f) = 8%nat /\
    exists g, encrypt_v1 aes128_enc key f = Ok g /\ f_data g <> f_data f /\
              status_of (decrypt_v1 aes128_enc key (redissect g)) = false.
Proof. exact pre_repair_mic_only_refuted. Qed.

(** EXTENSION, KNOWN FINDING no-extended-nonce-source-from-payload.  FULL STATEMENT of the
    inverse without the extended-nonce hypothesis (refuted by the faithful model; the part that
    holds is C17_decrypt_encrypt, whose hypothesis [f_ext f = true] is exactly the complement). *)
Definition C17_ext_decrypt_encrypt_any_nonce_statement : Prop :=
  forall E key f, in_scope (f_lvl f) ->
  exists g, encrypt E key f = Ok g /\ status_of (decrypt E key (redissect g)) = true.

Theorem C17_ext_no_extended_nonce_round_trip_refuted :
  exists key f, f_lvl f = 5 /\ f_ext f = false /\
    exists g, encrypt aes128_enc key f = Ok g /\
              status_of (decrypt aes128_enc key (redissect g)) = false.
Proof. exact no_extended_nonce_round_trip_refuted. Qed.

(** Non-vacuity (E = AES-128): the same witness round-trips with the repaired code, a one-bit
    change of its header is rejected, and a replay is dropped by the network layer. *)
Example C17_nonvacuous :
  in_scope 5 /\ mic_scope 1 /\ length (f_src (witness_frame 5 true [0x00])) = 8%nat /\
  (exists g1, encrypt aes128_enc witness_key (witness_frame 1 true [0x11]) = Ok g1 /\ f_data g1 = [0x11] /\
     status_of (decrypt aes128_enc witness_key (redissect g1)) = true) /\
  exists g, encrypt aes128_enc witness_key (witness_frame 5 true [0x00]) = Ok g /\
    status_of (decrypt aes128_enc witness_key (redissect g)) = true /\
    status_of (decrypt aes128_enc witness_key (set_lvl 5 (mkFrame [0x48;0x02;0x00;0x00;0x8a;0x5c;0x1e;0x5c] 0 1 5 0xe1 true
                 (f_src g) 1 (f_data g) (f_mic g)))) = false /\
    map (fun o => match o with UpSecured _ _ => true | _ => false end)
        (fst (nwk_run aes128_enc nv_state [Secured g; Secured g])) = [true; false] /\
    accepted aes128_enc nv_state [Secured g; Secured g] = [(1, f_src g, 0xe1)].
Proof. exact nonvacuous. Qed.
