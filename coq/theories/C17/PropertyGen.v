(** C17 — tie between the source and the model, as theorems (each closed by [exact]; see
    GenEq.v).  [gen_*] are the definitions of Gen.v, generated from CryptoManager
    (whad/zigbee/crypto.py) by harness/translators/pyfun.py; the check regenerates them on
    every run and re-checks these statements against the regenerated text. *)
From Coq Require Import List NArith Arith Bool.
From Whad Require Import Lib.Bytes Lib.PyOps C17.Model.
From Whad Require Import C17.Gen C17.GenEq.
Import ListNotations.

(** [generateNonce] ([raw(sechdr)[5:13] + pack("I", fc) + bytes([lvl | kt << 3 | ext << 5 | res << 6])])
    IS the model's [gen_nonce] on every well-formed frame; the inputs are the raw security header
    and its fields ([ext_bit] = extended_nonce as the 0/1 integer scapy holds). *)
Theorem C17_gen_generate_nonce_eq :
  forall f : frame, wf_frame f = true ->
    gen_generate_nonce (sec_raw f) (f_fc f) (f_lvl f) (f_kt f) (ext_bit f) (f_res f) = gen_nonce f.
Proof. exact gen_generate_nonce_eq. Qed.

(** Extended-nonce case: the nonce is source address | frame counter (LE32) | security control. *)
Theorem C17_gen_generate_nonce_extended :
  forall f : frame, wf_frame f = true -> f_ext f = true -> length (f_src f) = 8 ->
    gen_generate_nonce (sec_raw f) (f_fc f) (f_lvl f) (f_kt f) 1 (f_res f)
    = f_src f ++ le32 (f_fc f) ++ [ctrl_byte f].
Proof. exact gen_generate_nonce_ext. Qed.

Theorem C17_gen_generate_nonce_domain :
  forall f : frame, wf_frame f = true ->
    gen_generate_nonce_pre (sec_raw f) (f_fc f) (f_lvl f) (f_kt f) (ext_bit f) (f_res f).
Proof. exact gen_generate_nonce_pre_ok. Qed.

(** [generateAuth]: the header-length arithmetic ([len(frame) - len(data) - len(mic)] with
    encryption, [len(frame) - len(mic)] without) is the model's [gen_auth], and never underflows. *)
Theorem C17_gen_generate_auth_eq :
  forall (sp : secparams) (f : frame),
    gen_generate_auth (sp_enc sp) (raw_base f) (f_data f) (f_mic f) = gen_auth sp f.
Proof. exact gen_generate_auth_eq. Qed.

Theorem C17_gen_generate_auth_domain :
  forall (sp : secparams) (f : frame), gen_generate_auth_pre (sp_enc sp) (raw_base f) (f_data f) (f_mic f).
Proof. exact gen_generate_auth_pre_ok. Qed.

(** [extractCiphertextPayload] (with its [x[:-M]] / [x[-M:]] slices) is the model's [extract];
    [packet.data] and [packet[ZigbeeSecurityHeader].data] are the same scapy field. *)
Theorem C17_gen_extract_eq :
  forall (sp : secparams) (f : frame),
    gen_extract_ciphertext_payload (sp_enc sp) (sp_patched sp) (sp_M sp) (raw_base f) (f_data f) (f_data f) (f_mic f)
    = extract sp f.
Proof. exact gen_extract_eq. Qed.

(** Non-vacuity: level 5, network key, extended nonce gives control byte 0x2d. *)
Example C17_gen_nonvacuous :
  gen_generate_nonce (repeat 9%N 14) 258 5 1 1 0
  = repeat 9%N 8 ++ [2%N; 1%N; 0%N; 0%N; 45%N].
Proof. vm_compute. reflexivity. Qed.
