(** C17 — executable model of Zigbee frame security in whad-client.

    whad/zigbee/crypto.py : [hash], [hash_key], [CryptoManager.generateNonce],
      [checkSecurityLevel], [generateAuth], [extractCiphertextPayload], [generateMIC],
      [encrypt], [decrypt], [NetworkLayerCryptoManager], [ApplicationSubLayerCryptoManager]
    whad/zigbee/stack/nwk/security.py : [NetworkSecurityMaterial]
    whad/zigbee/stack/nwk/__init__.py : [NWKManager.decrypt], [NWKManager.on_mcps_data]

    The block cipher is a Section variable [E] (key -> block -> block); CCM* is Lib/Ccm.
    Python exceptions are values ([Raise cls]).  No proofs in this file. *)
From Coq Require Import String.
From Coq Require Import List NArith Arith Bool.
From Whad Require Import Lib.Bytes Lib.Xor Lib.Aes Lib.Ccm.
Import ListNotations.
Local Open Scope N_scope.

Inductive pyres (A : Type) : Type :=
| Ok (v : A)
| Raise (cls : string).
Arguments Ok {A} v.
Arguments Raise {A} cls.

(** ** The secured part of a frame, as scapy presents it to the crypto manager.

    [f_pre] = bytes of the base layer (ZigbeeNWK header for the network layer,
    ZigbeeAppDataPayload header for the application sub-layer) that precede the
    ZigbeeSecurityHeader; then the security header fields.  [f_ext] is the extended-nonce bit:
    when set the 8-byte source is on the wire (every frame the stack builds at the network
    layer, and the transport-key frames); when clear it is absent.  [f_kseq] is on the wire
    only when [f_kt = 1] (network key).  [f_data]/[f_mic] are the two scapy fields: after
    dissection at levels 1-3/5-7 the last M bytes are in [f_mic]; at level 0 (what is sent on
    the air) everything is in [f_data] and [f_mic] is empty; a frame built by the stack has
    the payload in [f_data] and an empty [f_mic]. *)
Record frame : Type := mkFrame {
  f_pre : bytes;
  f_res : N;      (* reserved1, 2 bits *)
  f_kt : N;       (* key_type, 2 bits *)
  f_lvl : N;      (* nwk_seclevel, 3 bits *)
  f_fc : N;       (* frame counter, 32 bits *)
  f_ext : bool;   (* extended_nonce: the source field is on the wire *)
  f_src : bytes;  (* source, 8 bytes as on the wire (meaningful iff f_ext) *)
  f_kseq : N;     (* key sequence number (present iff f_kt = 1) *)
  f_data : bytes;
  f_mic : bytes }.

Definition set_lvl (l : N) (f : frame) : frame :=
  mkFrame (f_pre f) (f_res f) (f_kt f) l (f_fc f) (f_ext f) (f_src f) (f_kseq f) (f_data f) (f_mic f).
Definition set_data (d : bytes) (f : frame) : frame :=
  mkFrame (f_pre f) (f_res f) (f_kt f) (f_lvl f) (f_fc f) (f_ext f) (f_src f) (f_kseq f) d (f_mic f).
Definition set_mic (m : bytes) (f : frame) : frame :=
  mkFrame (f_pre f) (f_res f) (f_kt f) (f_lvl f) (f_fc f) (f_ext f) (f_src f) (f_kseq f) (f_data f) m.

Definition wf_frame (f : frame) : bool :=
  wf_bytes (f_pre f) && (f_res f <? 4) && (f_kt f <? 4) && (f_lvl f <? 8) && (f_fc f <? 4294967296)
  && wf_bytes (f_src f) && (Nat.eqb (length (f_src f)) 8 || negb (f_ext f)) && (f_kseq f <? 256)
  && wf_bytes (f_data f) && wf_bytes (f_mic f).

(** Python [l[:-n]] and [l[-n:]] (n >= 0; note [l[:-0] = b""] and [l[-0:] = l]). *)
Definition py_drop_last (n : nat) (l : bytes) : bytes :=
  match n with O => [] | _ => firstn (length l - n) l end.
Definition py_take_last (n : nat) (l : bytes) : bytes :=
  match n with O => l | _ => skipn (length l - n) l end.

(** Python [bytes.replace(needle, b"")]: every non-overlapping occurrence, left to right,
    removed; an empty needle changes nothing.  (Only used by the pre-repair
    [generateAuth]; kept to state the defect that was repaired.) *)
Fixpoint is_prefix (p l : bytes) : bool :=
  match p, l with
  | [], _ => true
  | x :: p', y :: l' => N.eqb x y && is_prefix p' l'
  | _ :: _, [] => false
  end.
Fixpoint py_remove_aux (needle : bytes) (skip : nat) (l : bytes) : bytes :=
  match l with
  | [] => []
  | x :: l' =>
    match skip with
    | S k => py_remove_aux needle k l'
    | O => if is_prefix needle l then py_remove_aux needle (length needle - 1) l'
           else x :: py_remove_aux needle 0 l'
    end
  end.
Definition py_replace_del (needle l : bytes) : bytes :=
  match needle with [] => l | _ => py_remove_aux needle 0 l end.

(** ** raw bytes (scapy build of the base layer and above) *)
Definition ctrl_byte (f : frame) : N := f_lvl f + 8 * f_kt f + (if f_ext f then 32 else 0) + 64 * f_res f.
Definition sec_fixed (f : frame) : bytes :=
  ctrl_byte f :: le32 (f_fc f) ++ (if f_ext f then f_src f else []) ++ (if f_kt f =? 1 then [f_kseq f] else []).
Definition sec_raw (f : frame) : bytes := sec_fixed f ++ f_data f ++ f_mic f.
Definition hdr_raw (f : frame) : bytes := f_pre f ++ sec_fixed f.
Definition raw_base (f : frame) : bytes := f_pre f ++ sec_raw f.

(** scapy dissection of raw bytes back into data / mic (ZigbeeSecurityHeader.post_dissect,
    util_mic_len): levels 1,2,3,5,6,7 split the last M bytes off, levels 0 and 4 do not. *)
Definition level_M (l : N) : nat :=
  if (l =? 1) || (l =? 5) then 4%nat else if (l =? 2) || (l =? 6) then 8%nat
  else if (l =? 3) || (l =? 7) then 16%nat else 0%nat.
Definition redissect (f : frame) : frame :=
  let all := f_data f ++ f_mic f in
  match level_M (f_lvl f) with
  | O => set_mic [] (set_data all f)
  | m => set_mic (py_take_last m all) (set_data (py_drop_last m all) f)
  end.

(** ** CryptoManager *)
Record secparams : Type := { sp_M : nat; sp_int : bool; sp_enc : bool; sp_patched : bool }.

(** [checkSecurityLevel]: level 0 is taken for the on-air convention and patched to 5. *)
Definition level_enc (l : N) : bool := 4 <=? l.
Definition level_int (l : N) : bool := negb (l =? 0) && negb (l =? 4).
Definition check_security_level (f : frame) : frame * secparams :=
  if f_lvl f =? 0 then
    (set_lvl 5 f, {| sp_M := 4; sp_int := true; sp_enc := true; sp_patched := true |})
  else
    (f, {| sp_M := if level_int (f_lvl f) then level_M (f_lvl f) else 0%nat;
           sp_int := level_int (f_lvl f); sp_enc := level_enc (f_lvl f); sp_patched := false |}).

(** [generateNonce]: raw(security header)[5:13] ++ pack("I", fc) ++ security control byte *)
Definition gen_nonce (f : frame) : bytes :=
  slice 5 13 (sec_raw f) ++ le32 (f_fc f) ++ [ctrl_byte f].

(** [generateAuth] (repaired code): with encryption the authenticated data is the raw frame
    without its last len(data)+len(mic) bytes; at the integrity-only levels it is the frame
    without its MIC field (header and payload). *)
Definition gen_auth (sp : secparams) (f : frame) : bytes :=
  if sp_enc sp then
    firstn (length (raw_base f) - length (f_data f) - length (f_mic f)) (raw_base f)
  else firstn (length (raw_base f) - length (f_mic f)) (raw_base f).

(** [generateAuth] after the first repair, before the repair of the integrity-only levels *)
Definition gen_auth_v1 (sp : secparams) (f : frame) : bytes :=
  if sp_enc sp then
    firstn (length (raw_base f) - length (f_data f) - length (f_mic f)) (raw_base f)
  else py_drop_last (sp_M sp) (raw_base f).

(** [generateAuth] before the repair: raw.replace(data, b"") then .replace(mic, b"") *)
Definition gen_auth_replace (sp : secparams) (f : frame) : bytes :=
  if sp_enc sp then
    let a := py_replace_del (f_data f) (raw_base f) in
    if Nat.eqb (length (f_mic f)) 0 then a else py_replace_del (f_mic f) a
  else py_drop_last (sp_M sp) (raw_base f).

Definition mic_absent_patched (sp : secparams) (f : frame) : bool :=
  Nat.eqb (length (f_mic f)) 0 && sp_patched sp.

(** [extractCiphertextPayload] *)
Definition extract (sp : secparams) (f : frame) : bytes * bytes :=
  if sp_enc sp then
    if mic_absent_patched sp f
    then (py_drop_last (sp_M sp) (f_data f), py_take_last (sp_M sp) (f_data f))
    else (f_data f, f_mic f)
  else ([], py_take_last (sp_M sp) (raw_base f)).

Definition restore (sp : secparams) (f : frame) : frame :=
  if sp_patched sp then set_lvl 0 f else f.

Section WithCipher.
  Variable E : bytes -> bytes -> bytes.

  (** [hash]: Matyas-Meyer-Oseas; [e(bloc, output)] is AES keyed by [output] applied to [bloc] *)
  Definition zb_hash (input : bytes) : bytes :=
    let m1 := pad16 (input ++ [128]) in
    let bl := 8 * N.of_nat (length input) in
    let m2 := py_drop_last 2 m1 ++ [N.modulo (N.div bl 256) 256; N.modulo bl 256] in
    fold_left (fun out bloc => xor_bytes (E out bloc) bloc) (chunks16 m2) (zeros 16).

  (** [hash_key] (the names hash_in / hash_out are the code's) *)
  Definition hash_key (key : bytes) (input : N) : bytes :=
    let hash_in := map (N.lxor 92) key in
    let hash_out := map (N.lxor 54) key ++ [input] in
    zb_hash (hash_in ++ zb_hash hash_out).

  (** ApplicationSubLayerCryptoManager.__init__: the key actually used *)
  Definition aps_key (key : bytes) (input : option N) : bytes :=
    match input with None => key | Some i => hash_key key i end.

  Section WithAuth.
    (** the authenticated-data function is a parameter so that the same transcription gives the
        repaired code ([gen_auth]) and the code before the repair ([gen_auth_replace]) *)
    Variable ga : secparams -> frame -> bytes.
    (** [legacy = true]: the code before the repair of the integrity-only levels (the payload
        went through the cipher at every level and decrypt overwrote it at every level) *)
    Variable legacy : bool.

    (** [generateMIC] (called by decrypt after packet.data = plaintext) *)
    Definition generate_mic (sp : secparams) (key nonce : bytes) (f : frame) : bytes :=
      let auth := ga sp f in
      let pt := if mic_absent_patched sp f then f_data f else f_data f ++ f_mic f in
      let a := be_bytes 2 (N.of_nat (length auth)) ++ auth in
      let a2 := a ++ zeros (32 - length a) ++ pt ++ zeros (16 - length pt) in
      let flags := (if Nat.eqb (length auth) 0 then 0 else 64) + 8
                   + (match sp_M sp with O => 0 | m => N.of_nat ((m - 2) / 2) end) in
      let b0 := flags :: nonce ++ be_bytes 2 (N.of_nat (length pt)) in
      let body := b0 ++ a2 in
      firstn 4 (cbc_mac E key (chunks16 (zeros (pad_len (length body)) ++ body))).

    Definition encrypt_with (key : bytes) (f : frame) : pyres frame :=
      let '(f1, sp) := check_security_level f in
      let nonce := gen_nonce f1 in
      let auth := ga sp f1 in
      match sp_M sp with
      | O => Raise "ValueError"%string          (* AES.new(..., mac_len=0) *)
      | M =>
        if Nat.ltb (length nonce) 7 then Raise "ValueError"%string   (* AES.new: nonce of 7..13 bytes *)
        else
        let L := (15 - length nonce)%nat in
        let pt := if sp_enc sp || legacy
                  then (if mic_absent_patched sp f1 then py_drop_last M (f_data f1) else f_data f1)
                  else [] in
        let '(ct, tag) := ccm_encrypt E M L key nonce auth pt in
        Ok (restore sp (set_mic tag (if sp_enc sp || legacy then set_data ct f1 else f1)))
      end.

    Definition decrypt_with (key : bytes) (f : frame) : pyres (frame * bool) :=
      let '(f1, sp) := check_security_level f in
      let nonce := gen_nonce f1 in
      let auth := ga sp f1 in
      let '(ct, mic) := extract sp f1 in
      match sp_M sp with
      | O => Raise "ValueError"%string
      | M =>
        if Nat.ltb (length nonce) 7 then Raise "ValueError"%string
        else
        match ccm_decrypt E M (15 - length nonce) key nonce auth ct mic with
        | Some pt =>
          let f2 := if sp_enc sp || legacy then set_data pt f1 else f1 in
          Ok (restore sp (set_mic (generate_mic sp key nonce f2) f2), true)
        | None => Ok (restore sp f1, false)
        end
      end.
  End WithAuth.

  Definition encrypt := encrypt_with gen_auth false.
  Definition decrypt := decrypt_with gen_auth false.
  (** after the first repair (generateAuth prefix), before the repair of levels 1-3 *)
  Definition encrypt_v1 := encrypt_with gen_auth_v1 true.
  Definition decrypt_v1 := decrypt_with gen_auth_v1 true.
  (** the original code *)
  Definition encrypt_old := encrypt_with gen_auth_replace true.
  Definition decrypt_old := decrypt_with gen_auth_replace true.

  (** ** The manager INSTANCE.  A CryptoManager object keeps, between calls, the attributes
      patched, M, integrity, encryption, nonce, auth (key and base_class are fixed by the
      constructor of the two subclasses).  The transcription below threads them explicitly:
      every [self.x = ...] is a [set_x], every read of [self.x] a projection of the CURRENT state. *)
  Record mstate : Type := mkMs { ms_patched : bool; ms_M : nat; ms_int : bool; ms_enc : bool;
                                 ms_nonce : bytes; ms_auth : bytes }.
  (** __init__: patched = False, the others None (never read before being written) *)
  Definition ms_init : mstate := mkMs false 0 false false [] [].
  Definition set_patched b s := mkMs b (ms_M s) (ms_int s) (ms_enc s) (ms_nonce s) (ms_auth s).
  Definition set_M m s := mkMs (ms_patched s) m (ms_int s) (ms_enc s) (ms_nonce s) (ms_auth s).
  Definition set_int b s := mkMs (ms_patched s) (ms_M s) b (ms_enc s) (ms_nonce s) (ms_auth s).
  Definition set_enc b s := mkMs (ms_patched s) (ms_M s) (ms_int s) b (ms_nonce s) (ms_auth s).
  Definition set_nonce n s := mkMs (ms_patched s) (ms_M s) (ms_int s) (ms_enc s) n (ms_auth s).
  Definition set_auth a s := mkMs (ms_patched s) (ms_M s) (ms_int s) (ms_enc s) (ms_nonce s) a.
  (** what the methods read from [self] *)
  Definition self_params (s : mstate) : secparams :=
    {| sp_M := ms_M s; sp_int := ms_int s; sp_enc := ms_enc s; sp_patched := ms_patched s |}.

  (** [checkSecurityLevel] assigns self.patched in BOTH branches; its caller then assigns
      self.M, self.integrity, self.encryption from the returned tuple *)
  Definition csl_st (s : mstate) (f : frame) : frame * mstate :=
    if f_lvl f =? 0 then
      let s1 := set_patched true s in
      (set_lvl 5 f, set_enc true (set_int true (set_M 4 s1)))
    else
      let s1 := set_patched false s in
      let l := f_lvl f in
      (f, set_enc (level_enc l) (set_int (level_int l) (set_M (if level_int l then level_M l else 0%nat) s1))).

  Definition encrypt_st (key : bytes) (s : mstate) (f : frame) : pyres frame * mstate :=
    let '(f1, s1) := csl_st s f in
    let s2 := set_nonce (gen_nonce f1) s1 in
    let s3 := set_auth (gen_auth (self_params s2) f1) s2 in
    match ms_M s3 with
    | O => (Raise "ValueError"%string, s3)
    | M =>
      if Nat.ltb (length (ms_nonce s3)) 7 then (Raise "ValueError"%string, s3)
      else
      let L := (15 - length (ms_nonce s3))%nat in
      let pt := if ms_enc s3
                then (if mic_absent_patched (self_params s3) f1 then py_drop_last M (f_data f1) else f_data f1)
                else [] in
      let '(ct, tag) := ccm_encrypt E M L key (ms_nonce s3) (ms_auth s3) pt in
      (Ok (restore (self_params s3) (set_mic tag (if ms_enc s3 then set_data ct f1 else f1))), s3)
    end.

  Definition decrypt_st (key : bytes) (s : mstate) (f : frame) : pyres (frame * bool) * mstate :=
    let '(f1, s1) := csl_st s f in
    let s2 := set_nonce (gen_nonce f1) s1 in
    let s3 := set_auth (gen_auth (self_params s2) f1) s2 in
    let '(ct, mic) := extract (self_params s3) f1 in
    match ms_M s3 with
    | O => (Raise "ValueError"%string, s3)
    | M =>
      if Nat.ltb (length (ms_nonce s3)) 7 then (Raise "ValueError"%string, s3)
      else
      match ccm_decrypt E M (15 - length (ms_nonce s3)) key (ms_nonce s3) (ms_auth s3) ct mic with
      | Some pt =>
        let f2 := if ms_enc s3 then set_data pt f1 else f1 in
        (* generateMIC: self.auth = self.generateAuth(packet) *)
        let s4 := set_auth (gen_auth (self_params s3) f2) s3 in
        (Ok (restore (self_params s4) (set_mic (generate_mic gen_auth (self_params s4) key (ms_nonce s4) f2) f2), true), s4)
      | None => (Ok (restore (self_params s3) f1, false), s3)
      end
    end.

  (** a sequence of calls on one instance *)
  Inductive call : Type := CEnc (f : frame) | CDec (f : frame).
  Inductive call_res : Type := REnc (r : pyres frame) | RDec (r : pyres (frame * bool)).

  Definition do_call (key : bytes) (s : mstate) (c : call) : call_res * mstate :=
    match c with
    | CEnc f => let '(r, s') := encrypt_st key s f in (REnc r, s')
    | CDec f => let '(r, s') := decrypt_st key s f in (RDec r, s')
    end.

  Fixpoint run_calls (key : bytes) (s : mstate) (cs : list call) : list call_res * mstate :=
    match cs with
    | [] => ([], s)
    | c :: r => let '(o, s1) := do_call key s c in
                let '(os, s2) := run_calls key s1 r in (o :: os, s2)
    end.

  (** the same call on a fresh instance *)
  Definition fresh_call (key : bytes) (c : call) : call_res :=
    match c with CEnc f => REnc (encrypt key f) | CDec f => RDec (decrypt key f) end.

  (** ** one packet OBJECT tried under several keys (ZigbeeDecryptor.attempt_to_decrypt on an NWK
      frame, APSManager.decrypt over its candidate keys): each attempt gets the object the
      previous attempt returned — decrypt mutates and returns its argument *)
  Fixpoint ring_decrypt (keys : list bytes) (f : frame) : pyres (option frame) :=
    match keys with
    | [] => Ok None
    | k :: r =>
      match decrypt k f with
      | Ok (g, true) => Ok (Some g)
      | Ok (g, false) => ring_decrypt r g
      | Raise cls => Raise cls
      end
    end.
  (** the same, every attempt on the ORIGINAL frame *)
  Fixpoint ring_decrypt_pure (keys : list bytes) (f : frame) : pyres (option frame) :=
    match keys with
    | [] => Ok None
    | k :: r =>
      match decrypt k f with
      | Ok (g, true) => Ok (Some g)
      | Ok (_, false) => ring_decrypt_pure r f
      | Raise cls => Raise cls
      end
    end.

  (** [encrypt] applied to a packet in which the manager's base-class layer is absent:
      generateAuth evaluates packet[self.base_class:], which raises IndexError (scapy). *)
  Definition encrypt_packet (base_present : bool) (key : bytes) (f : frame) : pyres frame :=
    if base_present then encrypt key f else Raise "IndexError"%string.

  (** APSDataService.data with security_enabled_transmission=True (aps/__init__.py:68-86):
      the security header is built on its own — key_type 0, default level 0, data = bytes(asdu) —
      and handed to ApplicationSubLayerCryptoManager(key, None).encrypt BEFORE the
      ZigbeeAppDataPayload header is put below it. *)
  Definition aps_data_request_secured (key : bytes) (fc : N) (src asdu : bytes) : pyres frame :=
    encrypt_packet false (aps_key key None) (mkFrame [] 0 0 0 fc false src 0 asdu []).

  Definition status_of (r : pyres (frame * bool)) : bool :=
    match r with Ok (_, b) => b | Raise _ => false end.

  (** what [encrypt] protects: the plaintext it takes from the frame *)
  Definition plaintext_of (f : frame) : bytes :=
    if (f_lvl f =? 0) && Nat.eqb (length (f_mic f)) 0 then py_drop_last 4 (f_data f) else f_data f.

  (** ** Network layer *)

  (** NetworkSecurityMaterial: key_sequence_number, key, incoming_frame_counters
      (sender address -> last accepted counter + 1; Python dict, insertion ordered) *)
  Record material : Type := mkMat { m_seq : N; m_key : bytes; m_in : list (bytes * N) }.

  Fixpoint lookup (a : bytes) (t : list (bytes * N)) : option N :=
    match t with
    | [] => None
    | (b, c) :: r => if bytes_eqb a b then Some c else lookup a r
    end.
  Fixpoint update (a : bytes) (v : N) (t : list (bytes * N)) : list (bytes * N) :=
    match t with
    | [] => [(a, v)]
    | (b, c) :: r => if bytes_eqb a b then (b, v) :: r else (b, c) :: update a v r
    end.

  (** NWKIB attributes read by the receive path *)
  Record nwk : Type := mkNwk { n_level : N; n_all_fresh : bool; n_secure_all : bool; n_mats : list material }.

  (** the first material whose sequence number matches ([for ... break]) *)
  Fixpoint select (k : N) (ms : list material) : option material :=
    match ms with
    | [] => None
    | m :: r => if m_seq m =? k then Some m else select k r
    end.
  (** add_incoming_frame_counter on that (first matching) material *)
  Fixpoint store (k : N) (a : bytes) (v : N) (ms : list material) : list material :=
    match ms with
    | [] => []
    | m :: r => if m_seq m =? k then mkMat (m_seq m) (m_key m) (update a v (m_in m)) :: r
                else m :: store k a v r
    end.

  (** a PDU handed up by the MAC layer *)
  Inductive npdu : Type :=
  | Secured (f : frame)                        (* ZigbeeNWK / ZigbeeSecurityHeader *)
  | Unsecured (frametype : N) (other_sec : bool) (raw : bytes).
      (* ZigbeeNWK without its own security header; [other_sec]: a ZigbeeSecurityHeader occurs
         further up (application sub-layer security), which is what the nwkSecureAllFrames
         test looks at *)

  (** ZigbeeNWK.frametype = low two bits of the first byte of the NWK header *)
  Definition frametype_of (f : frame) : N :=
    match f_pre f with b :: _ => N.modulo b 4 | [] => 0 end.

  Inductive outcome : Type :=
  | UpSecured (svc : N) (f : frame)      (* 0 = data service, 1 = management service, 2 = interpan branch *)
  | UpPlain (svc : N) (raw : bytes)
  | Dropped
  | Raised (cls : string).

  Definition svc_of (ft : N) : N := if ft =? 0 then 0 else if ft =? 1 then 1 else 2.

  (** key_seqnum as NWKManager.decrypt reads it (None when the field is absent) *)
  Definition kseq_of (f : frame) : option N := if f_kt f =? 1 then Some (f_kseq f) else None.

  (** NWKManager.decrypt: Some (decrypted, state) on success *)
  Inductive nwkdec : Type :=
  | DecOk (f : frame) (st : nwk)
  | DecFail
  | DecRaise (cls : string).

  Definition with_mats (st : nwk) (ms : list material) : nwk :=
    mkNwk (n_level st) (n_all_fresh st) (n_secure_all st) ms.

  (** pdu[ZigbeeSecurityHeader].source: the address, or None (here the empty string) when the
      field is absent *)
  Definition sender_of (f : frame) : bytes := if f_ext f then f_src f else [].

  Definition stale (st : nwk) (m : material) (f : frame) : bool :=
    match lookup (sender_of f) (m_in m) with
    | Some c => (f_fc f <? c) && n_all_fresh st
    | None => false
    end.

  Definition nwk_decrypt (st : nwk) (f : frame) : nwkdec :=
    if n_level st =? 0 then DecFail else
    match kseq_of f with
    | None => DecFail                        (* no material has sequence number None *)
    | Some k =>
      match select k (n_mats st) with
      | None => DecFail
      | Some m =>
        if stale st m f then DecFail else
        match decrypt (m_key m) f with
        | Ok (f', true) => DecOk f' (with_mats st (store k (sender_of f) (f_fc f + 1) (n_mats st)))
        | Ok (_, false) => DecFail
        | Raise cls => DecRaise cls
        end
      end
    end.

  (** NWKManager.on_mcps_data for a ZigbeeNWK PDU *)
  Definition nwk_step (st : nwk) (p : npdu) : outcome * nwk :=
    match p with
    | Unsecured ft other_sec raw =>
      if negb other_sec && n_secure_all st then (Dropped, st) else (UpPlain (svc_of ft) raw, st)
    | Secured f =>
      match nwk_decrypt st f with
      | DecOk f' st' => (UpSecured (svc_of (frametype_of f')) f', st')
      | DecFail => (Dropped, st)
      | DecRaise cls => (Raised cls, st)
      end
    end.

  Fixpoint nwk_run (st : nwk) (ps : list npdu) : list outcome * nwk :=
    match ps with
    | [] => ([], st)
    | p :: r => let '(o, st1) := nwk_step st p in
                let '(os, st2) := nwk_run st1 r in (o :: os, st2)
    end.

  (** the accepted secured frames of a history, in order: (key sequence number, sender, counter) *)
  Definition event : Type := (N * bytes * N)%type.
  Fixpoint accepted (st : nwk) (ps : list npdu) : list event :=
    match ps with
    | [] => []
    | p :: r =>
      let '(o, st1) := nwk_step st p in
      match p, o with
      | Secured f, UpSecured _ _ => (f_kseq f, sender_of f, f_fc f) :: accepted st1 r
      | _, _ => accepted st1 r
      end
    end.

  (** ** Management operations interleaved with the PDUs of a history.

      [AddKey key seq] = NWKManager.add_key(key, key_sequence_number=seq): a material whose KEY
      is already in the set is ignored whatever its sequence number (NetworkSecurityMaterial.__eq__
      compares the keys), otherwise a material with an empty counter table is appended.
      [SetActive seq] = database.set("nwkActiveKeySeqNumber", seq) (used by the transmit path only).
      [RemoveKey key] = the material with that key taken out of nwkSecurityMaterialSet
      (list.remove on the NWKIB attribute, then database.set). *)
  Inductive mgmt : Type :=
  | AddKey (key : bytes) (seq : N) | SetActive (seq : N) | RemoveKey (key : bytes)
  | ClearKeys.   (* the whole material set dropped: NLME-RESET (cold) / NLME-SET of an empty nwkSecurityMaterialSet;
                    followed by AddKey this is the replacement of the key material, possibly under the same sequence number *)
  Inductive hitem : Type := HPdu (p : npdu) | HMgmt (m : mgmt).

  Fixpoint has_key (key : bytes) (ms : list material) : bool :=
    match ms with [] => false | m :: r => bytes_eqb (m_key m) key || has_key key r end.
  Fixpoint remove_key (key : bytes) (ms : list material) : list material :=
    match ms with
    | [] => []
    | m :: r => if bytes_eqb (m_key m) key then r else m :: remove_key key r
    end.

  (** NWK layer state for these histories: the NWKIB attributes of [nwk] and nwkActiveKeySeqNumber *)
  Definition hstate : Type := (nwk * N)%type.

  Definition apply_mgmt (hs : hstate) (m : mgmt) : hstate :=
    let '(st, act) := hs in
    match m with
    | AddKey key seq => if has_key key (n_mats st) then hs
                        else (with_mats st (n_mats st ++ [mkMat seq key []]), act)
    | SetActive seq => (st, seq)
    | RemoveKey key => (with_mats st (remove_key key (n_mats st)), act)
    | ClearKeys => (with_mats st [], act)
    end.

  Definition hstep (hs : hstate) (it : hitem) : option outcome * hstate :=
    match it with
    | HPdu p => let '(o, st1) := nwk_step (fst hs) p in (Some o, (st1, snd hs))
    | HMgmt m => (None, apply_mgmt hs m)
    end.

  (** trace of a history: every item with the state it found and what it produced *)
  Fixpoint htrace (hs : hstate) (items : list hitem) : list (hitem * hstate * option outcome) :=
    match items with
    | [] => []
    | it :: r => let '(o, hs1) := hstep hs it in (it, hs, o) :: htrace hs1 r
    end.

  (** the key of the material NWKManager.decrypt selects for a frame *)
  Definition sel_key (st : nwk) (f : frame) : option bytes :=
    match kseq_of f with
    | Some k => match select k (n_mats st) with Some m => Some (m_key m) | None => None end
    | None => None
    end.

  (** accepted secured frames of a history with management operations:
      (key of the selected material, sender, counter) *)
  Definition kevent : Type := (bytes * bytes * N)%type.
  Fixpoint haccepted (hs : hstate) (items : list hitem) : list kevent :=
    match items with
    | [] => []
    | it :: r =>
      let '(o, hs1) := hstep hs it in
      match it, o with
      | HPdu (Secured f), Some (UpSecured _ _) =>
          match sel_key (fst hs) f with
          | Some K => (K, sender_of f, f_fc f) :: haccepted hs1 r
          | None => haccepted hs1 r
          end
      | _, _ => haccepted hs1 r
      end
    end.

  (** the incoming-counter table of the material holding [key] *)
  Fixpoint find_key (key : bytes) (ms : list material) : option material :=
    match ms with
    | [] => None
    | m :: r => if bytes_eqb (m_key m) key then Some m else find_key key r
    end.
  Definition stored_k (st : nwk) (key a : bytes) : option N :=
    match find_key key (n_mats st) with Some m => lookup a (m_in m) | None => None end.

  (** ** Application support sub-layer: APSManager.decrypt / on_nlde_data

      apsDeviceKeyPairSet = list of (device short address or None for a pre-installed key,
      link key); nwkAddressMap = list of (IEEE address as on the wire, short address).
      The key pairs carry an incoming_frame_counter attribute that the receive path never
      reads nor writes: there is no freshness check at this layer and no state. *)
  Record keypair : Type := mkKp { kp_addr : option N; kp_key : bytes }.
  Record aps : Type := mkAps { a_map : list (bytes * N); a_kps : list keypair }.

  Definition opt_eqb (a b : option N) : bool :=
    match a, b with Some x, Some y => x =? y | None, None => true | _, _ => false end.
  (** APSKeyPairSet.select(address): the pairs of that device, else the pre-installed ones *)
  Definition aps_select (short : option N) (kps : list keypair) : list keypair :=
    match filter (fun kp => opt_eqb (kp_addr kp) short) kps with
    | [] => filter (fun kp => match kp_addr kp with None => true | Some _ => false end) kps
    | m => m
    end.

  Inductive apsdec : Type :=
  | ADecOk (f : frame)
  | ADecFail
  | ADecRaise (cls : string).

  (** hash_key input chosen from the key identifier; key identifier 1 leaves the local
      variable [input] unbound *)
  Definition aps_input (kt : N) : option (option N) :=
    if kt =? 0 then Some None else if kt =? 2 then Some (Some 0) else if kt =? 3 then Some (Some 2) else None.

  Fixpoint aps_try (cands : list keypair) (f : frame) : apsdec :=
    match cands with
    | [] => ADecFail
    | kp :: r =>
      match aps_input (f_kt f) with
      | None => ADecRaise "UnboundLocalError"%string
      | Some inp =>
        match decrypt (aps_key (kp_key kp) inp) f with
        | Ok (f', true) => ADecOk f'
        | Ok (_, false) => aps_try r f
        | Raise cls => ADecRaise cls
        end
      end
    end.

  Definition aps_decrypt (st : aps) (f : frame) : apsdec :=
    let short := if f_ext f then lookup (f_src f) (a_map st) else None in
    aps_try (aps_select short (a_kps st)) f.

  (** an NSDU handed up by the NWK data service *)
  Inductive nsdu : Type :=
  | ApsSecured (f : frame)                    (* ZigbeeAppDataPayload / ZigbeeSecurityHeader *)
  | ApsPlain (frametype : N) (raw : bytes).   (* ZigbeeAppDataPayload without security header *)

  Inductive aps_outcome : Type :=
  | AUpSecured (svc : N) (f : frame)     (* 0 = data service, 1 = management service *)
  | AUpPlain (svc : N) (raw : bytes)
  | ANothing                             (* dropped, or an acknowledgement *)
  | ARaised (cls : string).

  (** on_nlde_data: aps_frametype 0 -> data service, 1 -> management service, else nothing *)
  Definition aps_route_secured (f : frame) : aps_outcome :=
    let ft := frametype_of f in
    if ft =? 0 then AUpSecured 0 f else if ft =? 1 then AUpSecured 1 f else ANothing.

  Definition aps_step (st : aps) (p : nsdu) : aps_outcome :=
    match p with
    | ApsPlain ft raw => if ft =? 0 then AUpPlain 0 raw else if ft =? 1 then AUpPlain 1 raw else ANothing
    | ApsSecured f =>
      match aps_decrypt st f with
      | ADecOk f' => aps_route_secured f'
      | ADecFail => ANothing
      | ADecRaise cls => ARaised cls
      end
    end.

  (** the receive path has no state to thread *)
  Definition aps_run (st : aps) (ps : list nsdu) : list aps_outcome := map (aps_step st) ps.

  (** current stored counter for (key sequence number, sender) *)
  Definition stored (st : nwk) (k : N) (a : bytes) : option N :=
    match select k (n_mats st) with Some m => lookup a (m_in m) | None => None end.
End WithCipher.

(** ** vocabulary of the theorems (definitions only) *)

(** with the 8-byte source present, raw(security header)[5:13] is the source *)
Definition nonce_of (f : frame) : bytes := f_src f ++ le32 (f_fc f) ++ [ctrl_byte f].
(** CCM length-field size the code ends up with: 15 - len(nonce) *)
Definition Lf (f : frame) : nat := (15 - length (gen_nonce (fst (check_security_level f))))%nat.

Definition in_scope (l : N) : Prop := l = 0 \/ l = 5 \/ l = 6 \/ l = 7.
(** EXTENSION beyond the property's quantifier: the integrity-only levels *)
Definition mic_scope (l : N) : Prop := l = 1 \/ l = 2 \/ l = 3.

(** what checkSecurityLevel returns *)
Definition patch (f : frame) : frame := fst (check_security_level f).
Definition params (f : frame) : secparams := snd (check_security_level f).
(** the ciphertext and MIC that decrypt takes from the frame *)
Definition recv_ct (f : frame) : bytes := fst (extract (params f) (patch f)).
Definition recv_mic (f : frame) : bytes := snd (extract (params f) (patch f)).

Definition keys_of (st : nwk) : list (N * bytes) := map (fun m => (m_seq m, m_key m)) (n_mats st).

Section Spec.
  Variable E : bytes -> bytes -> bytes.
  (** ** no secured frame goes up without having passed the CCM* check under a registered key *)
  Definition authentic_up (st : nwk) (p : npdu) (o : outcome) : Prop :=
    match o with
    | UpSecured svc f' =>
        exists f key, p = Secured f /\ f_kt f = 1 /\ In (f_kseq f, key) (keys_of st)
                      /\ decrypt E key f = Ok (f', true) /\ svc = svc_of (frametype_of f')
    | UpPlain svc raw =>
        exists ft os, p = Unsecured ft os raw /\ svc = svc_of ft /\ (n_secure_all st = false \/ os = true)
    | Dropped | Raised _ => True
    end.
End Spec.

(** [accepted] is exactly the secured frames that [nwk_run] passes up *)
Fixpoint events_of (l : list (npdu * outcome)) : list event :=
  match l with
  | [] => []
  | (Secured f, UpSecured _ _) :: r => (f_kseq f, sender_of f, f_fc f) :: events_of r
  | _ :: r => events_of r
  end.

(** a history of accepted events is fresh w.r.t. a table [T] of stored counters
    (stored = last accepted + 1) *)
Definition bump (T : N -> bytes -> option N) (k : N) (a : bytes) (c : N) : N -> bytes -> option N :=
  fun k' a' => if (k' =? k) && bytes_eqb a' a then Some (c + 1) else T k' a'.

Fixpoint fresh_hist (T : N -> bytes -> option N) (evs : list event) : Prop :=
  match evs with
  | [] => True
  | (k, a, c) :: r => (forall c0, T k a = Some c0 -> c0 <= c) /\ fresh_hist (bump T k a c) r
  end.

(** the same invariant for histories with management operations: events keyed by the key itself *)
Definition bump_k (T : bytes -> bytes -> option N) (K a : bytes) (c : N) : bytes -> bytes -> option N :=
  fun K' a' => if bytes_eqb K' K && bytes_eqb a' a then Some (c + 1) else T K' a'.

Fixpoint fresh_hist_k (T : bytes -> bytes -> option N) (evs : list kevent) : Prop :=
  match evs with
  | [] => True
  | (K, a, c) :: r => (forall c0, T K a = Some c0 -> c0 <= c) /\ fresh_hist_k (bump_k T K a c) r
  end.

(** a history that never removes the material holding [K] *)
Definition never_removes (K : bytes) (items : list hitem) : Prop :=
  Forall (fun it => match it with HMgmt (RemoveKey K') => K' <> K | HMgmt ClearKeys => False | _ => True end) items.

(** ** correspondence entry points (evaluated by the harness with E := aes128_enc) *)

Definition frame_eqb (a b : frame) : bool :=
  bytes_eqb (f_pre a) (f_pre b) && (f_res a =? f_res b) && (f_kt a =? f_kt b) && (f_lvl a =? f_lvl b)
  && (f_fc a =? f_fc b) && Bool.eqb (f_ext a) (f_ext b) && (bytes_eqb (f_src a) (f_src b) || negb (f_ext a))
  && ((f_kseq a =? f_kseq b) || negb (f_kt a =? 1))
  && bytes_eqb (f_data a) (f_data b) && bytes_eqb (f_mic a) (f_mic b).

(** observed result of one encrypt/decrypt call: exception class, or (status, packet);
    [status = None] for encrypt *)
Definition obs : Type := (option string * option bool * frame)%type.

(** case = (is_encrypt, key, input frame, raw bytes of the base layer of the input as scapy
    built them, observed result) *)
Definition check_crypt_with (enc : bytes -> frame -> pyres frame)
           (dec : bytes -> frame -> pyres (frame * bool))
           (c : bool * bytes * frame * bytes * obs) : bool :=
  let '(is_enc, key, fin, raw_in, (oexc, ostatus, fout)) := c in
  bytes_eqb (raw_base fin) raw_in &&
  if is_enc then
    match enc key fin, oexc with
    | Ok f, None => frame_eqb f fout
    | Raise cls, Some cls' => String.eqb cls cls'
    | _, _ => false
    end
  else
    match dec key fin, oexc, ostatus with
    | Ok (f, b), None, Some b' => Bool.eqb b b' && frame_eqb f fout
    | Raise cls, Some cls', _ => String.eqb cls cls'
    | _, _, _ => false
    end.

Definition check_crypt := check_crypt_with (encrypt aes128_enc) (decrypt aes128_enc).
Definition check_crypt_old := check_crypt_with (encrypt_old aes128_enc) (decrypt_old aes128_enc).
Definition check_crypt_v1 := check_crypt_with (encrypt_v1 aes128_enc) (decrypt_v1 aes128_enc).

(** hash cases: (input, observed) and (key, input byte, observed) *)
Definition check_hash (c : bytes * bytes) : bool :=
  let '(i, o) := c in bytes_eqb (zb_hash aes128_enc i) o.
Definition check_hash_key (c : bytes * N * bytes) : bool :=
  let '(k, i, o) := c in bytes_eqb (hash_key aes128_enc k i) o.

(** one manager instance, a sequence of calls: (key, [(is_encrypt, input frame, raw bytes of the
    input's base layer, observed result)]) — evaluated with the STATEFUL transcription *)
Definition res_eqb (is_enc : bool) (r : call_res) (o : obs) : bool :=
  let '(oexc, ostatus, fout) := o in
  match r, is_enc with
  | REnc (Ok f), true => match oexc with None => frame_eqb f fout | Some _ => false end
  | REnc (Raise cls), true => match oexc with Some cls' => String.eqb cls cls' | None => false end
  | RDec (Ok (f, b)), false =>
      match oexc, ostatus with None, Some b' => Bool.eqb b b' && frame_eqb f fout | _, _ => false end
  | RDec (Raise cls), false => match oexc with Some cls' => String.eqb cls cls' | None => false end
  | _, _ => false
  end.

Fixpoint check_calls_from (key : bytes) (s : mstate) (cs : list (bool * frame * bytes * obs)) : bool :=
  match cs with
  | [] => true
  | (is_enc, fin, raw_in, o) :: r =>
    let '(res, s') := do_call aes128_enc key s (if is_enc then CEnc fin else CDec fin) in
    bytes_eqb (raw_base fin) raw_in && res_eqb is_enc res o && check_calls_from key s' r
  end.

Definition check_calls (c : bytes * list (bool * frame * bytes * obs)) : bool :=
  let '(key, cs) := c in check_calls_from key ms_init cs.

(** ZigbeeDecryptor on an NWK frame: (key ring, frame, observed decrypted data or None) *)
Definition check_ring (c : list bytes * frame * option bytes) : bool :=
  let '(keys, f, o) := c in
  match ring_decrypt aes128_enc keys f, o with
  | Ok (Some g), Some d => bytes_eqb (f_data g) d
  | Ok None, None => true
  | _, _ => false
  end.

(** APS secured data request: observed exception class (None = a frame was produced) *)
Definition check_aps_data (c : bytes * N * bytes * bytes * option string) : bool :=
  let '(key, fc, src, asdu, oexc) := c in
  match aps_data_request_secured aes128_enc key fc src asdu, oexc with
  | Raise cls, Some cls' => String.eqb cls cls'
  | Ok _, None => true
  | _, _ => false
  end.

(** NWK history case: initial attributes, keys (sequence number, key), PDUs, and per PDU the
    observed delivery and the observed incoming-counter tables of every material *)
Inductive obs_up : Type :=
| ObsUpSecured (svc : N) (f : frame)
| ObsUpPlain (svc : N) (raw : bytes)
| ObsNone
| ObsRaised (cls : string).

Definition up_eqb (o : outcome) (b : obs_up) : bool :=
  match o, b with
  | UpSecured s f, ObsUpSecured s' f' => (s =? s') && frame_eqb f f'
  | UpPlain s r, ObsUpPlain s' r' => (s =? s') && bytes_eqb r r'
  | Dropped, ObsNone => true
  | Raised c, ObsRaised c' => String.eqb c c'
  | _, _ => false
  end.

Fixpoint table_sub (a b : list (bytes * N)) : bool :=
  match a with
  | [] => true
  | (k, v) :: r => match lookup k b with Some v' => (v =? v') | None => false end && table_sub r b
  end.
Definition table_eqb (a b : list (bytes * N)) : bool :=
  Nat.eqb (length a) (length b) && table_sub a b && table_sub b a.

Fixpoint tables_eqb (ms : list material) (obs : list (N * list (bytes * N))) : bool :=
  match ms, obs with
  | [], [] => true
  | m :: r, (k, t) :: r' => (m_seq m =? k) && table_eqb (m_in m) t && tables_eqb r r'
  | _, _ => false
  end.

Fixpoint check_steps (st : nwk) (ps : list (npdu * obs_up * list (N * list (bytes * N)))) : bool :=
  match ps with
  | [] => true
  | (p, o, t) :: r =>
    let '(o', st') := nwk_step aes128_enc st p in
    up_eqb o' o && tables_eqb (n_mats st') t && check_steps st' r
  end.

Definition check_nwk (c : nwk * list (npdu * obs_up * list (N * list (bytes * N)))) : bool :=
  let '(st, ps) := c in check_steps st ps.

(** APS receive history: state, NSDUs, observed outcome per NSDU *)
Inductive obs_aps : Type :=
| ObsAUpSecured (svc : N) (f : frame)
| ObsAUpPlain (svc : N) (raw : bytes)
| ObsANothing
| ObsARaised (cls : string).

Definition aps_up_eqb (o : aps_outcome) (b : obs_aps) : bool :=
  match o, b with
  | AUpSecured s f, ObsAUpSecured s' f' => (s =? s') && frame_eqb f f'
  | AUpPlain s r, ObsAUpPlain s' r' => (s =? s') && bytes_eqb r r'
  | ANothing, ObsANothing => true
  | ARaised c, ObsARaised c' => String.eqb c c'
  | _, _ => false
  end.

Definition check_aps (c : aps * list (nsdu * obs_aps)) : bool :=
  let '(st, ps) := c in forallb (fun po => aps_up_eqb (aps_step aes128_enc st (fst po)) (snd po)) ps.

(** NWK history with management operations: per item the observed delivery (ObsNone for a management
    operation) and, for every material in order, (sequence number, key, counter table) *)
Fixpoint ktables_eqb (ms : list material) (obs : list (N * bytes * list (bytes * N))) : bool :=
  match ms, obs with
  | [], [] => true
  | m :: r, (k, key, t) :: r' => (m_seq m =? k) && bytes_eqb (m_key m) key && table_eqb (m_in m) t && ktables_eqb r r'
  | _, _ => false
  end.

(** the tables are compared after every item, or (long histories with many senders: [None]) after
    some of them including the last *)
Fixpoint check_hsteps (hs : hstate) (ps : list (hitem * obs_up * N * option (list (N * bytes * list (bytes * N))))) : bool :=
  match ps with
  | [] => true
  | (it, o, act, t) :: r =>
    let '(o', hs') := hstep aes128_enc hs it in
    match o' with Some x => up_eqb x o | None => match o with ObsNone => true | _ => false end end
    && (snd hs' =? act)
    && match t with Some t' => ktables_eqb (n_mats (fst hs')) t' | None => true end
    && check_hsteps hs' r
  end.

Definition check_nwk_mgmt (c : hstate * list (hitem * obs_up * N * option (list (N * bytes * list (bytes * N))))) : bool :=
  let '(hs, ps) := c in check_hsteps hs ps.

(** boolean form of the freshness theorem's conclusion, for the model-side search *)
Fixpoint strictly_fresh_b (evs : list event) : bool :=
  match evs with
  | [] => true
  | (k, a, c) :: r =>
    forallb (fun e => let '(k', a', c') := e in negb ((k =? k') && bytes_eqb a a') || (c <? c')) r
    && strictly_fresh_b r
  end.
