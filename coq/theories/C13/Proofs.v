(** C13 — lemmas. Everything holds for an arbitrary block function [E] with 16-byte outputs. *)
From Coq Require Import List NArith ZArith Arith Bool Lia ZifyBool ZifyN ZifyNat.
From Whad Require Import Lib.Bytes Lib.Xor Lib.Aes Lib.Ccm C13.Model.
Import ListNotations.
Ltac Zify.zify_post_hook ::= Z.to_euclidean_division_equations.

(** * record bookkeeping *)
Lemma set_cnt_same st d : set_cnt st d (cnt st d) = st.
Proof. destruct st, d; reflexivity. Qed.

Lemma cnt_set_cnt st d v : cnt (set_cnt st d v) d = v.
Proof. destruct st, d; reflexivity. Qed.

Lemma set_cnt_set_cnt st d a b : set_cnt (set_cnt st d a) d b = set_cnt st d b.
Proof. destruct st, d; reflexivity. Qed.

Lemma sk_set_cnt st d v : sk (set_cnt st d v) = sk st.
Proof. destruct st, d; reflexivity. Qed.

Lemma iv_set_cnt st d v : iv (set_cnt st d v) = iv st.
Proof. destruct st, d; reflexivity. Qed.

Lemma cnt_set_cnt_other st d d' v : d <> d' -> cnt (set_cnt st d v) d' = cnt st d'.
Proof. destruct st, d, d'; intros H; try reflexivity; contradiction H; reflexivity. Qed.

Lemma set_cnt_incr st d v : set_cnt (incr st d) d v = set_cnt st d v.
Proof. unfold incr. apply set_cnt_set_cnt. Qed.

Lemma cnt_incr st d : cnt (incr st d) d = (cnt st d + 1)%N.
Proof. unfold incr. apply cnt_set_cnt. Qed.

Lemma cnt_incr_other st d d' : d <> d' -> cnt (incr st d) d' = cnt st d'.
Proof. unfold incr. apply cnt_set_cnt_other. Qed.

Lemma sk_incr st d : sk (incr st d) = sk st.
Proof. apply sk_set_cnt. Qed.

Lemma iv_incr st d : iv (incr st d) = iv st.
Proof. apply iv_set_cnt. Qed.

Lemma dir_eq_dec (a b : dir) : {a = b} + {a <> b}.
Proof. decide equality. Qed.

(** * slicing facts about a PDU [h :: l :: ct ++ mic] with a 4-byte MIC *)
Lemma body_of_shape h l (ct mic : bytes) : length mic = 4 -> body_of (h :: l :: ct ++ mic) = ct.
Proof.
  intros Hm. unfold body_of, slice. cbn [length skipn].
  rewrite app_length, Hm.
  replace (S (S (length ct + 4)) - 4 - 2) with (length ct) by lia.
  rewrite firstn_app, Nat.sub_diag, firstn_all. cbn [firstn]. apply app_nil_r.
Qed.

Lemma mic_of_shape h l (ct mic : bytes) : length mic = 4 -> mic_of (h :: l :: ct ++ mic) = mic.
Proof.
  intros Hm. unfold mic_of. cbn [length]. rewrite app_length, Hm.
  replace (S (S (length ct + 4)) - 4) with (S (S (length ct))) by lia.
  cbn [skipn]. rewrite skipn_app, Nat.sub_diag, skipn_all. reflexivity.
Qed.

Section Proofs.
  Variable E : bytes -> bytes -> bytes.
  Hypothesis E_length : forall k b, length (E k b) = 16.

  Notation encrypt := (encrypt E).
  Notation decrypt := (decrypt E).
  Notation dec_loop := (dec_loop E).
  Notation mic_for := (mic_for E).
  Notation plain_at := (plain_at E).
  Notation accepts_at := (accepts_at E).
  Notation rejects_from := (rejects_from E).
  Notation first_accept := (first_accept E).
  Notation decrypt_spec_of := (decrypt_spec_of E).

  (** the spec notions only look at the key and the IV of the manager *)
  Lemma accepts_at_set_cnt st d d' v c pdu : accepts_at (set_cnt st d' v) d c pdu = accepts_at st d c pdu.
  Proof. unfold Model.accepts_at, Model.mic_for, Model.plain_at. rewrite sk_set_cnt, iv_set_cnt. reflexivity. Qed.

  Lemma plain_at_set_cnt st d d' v c ct : plain_at (set_cnt st d' v) d c ct = plain_at st d c ct.
  Proof. unfold Model.plain_at. rewrite sk_set_cnt, iv_set_cnt. reflexivity. Qed.

  Lemma first_accept_set_cnt st d d' v k : forall c pdu,
    first_accept (set_cnt st d' v) d c k pdu = first_accept st d c k pdu.
  Proof. induction k; intros; cbn [Model.first_accept]; [reflexivity|]. rewrite accepts_at_set_cnt, IHk. reflexivity. Qed.

  Lemma rejects_from_set_cnt st d d' v k : forall c pdu,
    rejects_from (set_cnt st d' v) d c k pdu = rejects_from st d c k pdu.
  Proof. induction k; intros; cbn [Model.rejects_from]; [reflexivity|]. rewrite accepts_at_set_cnt, IHk. reflexivity. Qed.

  Lemma accepts_at_same_key st st' d c pdu : sk st = sk st' -> iv st = iv st' ->
    accepts_at st d c pdu = accepts_at st' d c pdu.
  Proof. intros Hk Hi. unfold Model.accepts_at, Model.mic_for, Model.plain_at. rewrite Hk, Hi. reflexivity. Qed.

  Lemma plain_at_same_key st st' d c ct : sk st = sk st' -> iv st = iv st' ->
    plain_at st d c ct = plain_at st' d c ct.
  Proof. intros Hk Hi. unfold Model.plain_at. rewrite Hk, Hi. reflexivity. Qed.

  (** * the retry loop *)
  Lemma dec_loop_spec h ct mic pdu d :
    hd 0%N pdu = h -> body_of pdu = ct -> mic_of pdu = mic ->
    forall n st last,
      dec_loop n st d (masked_header h) ct mic last =
      match first_accept st d (cnt st d) n pdu with
      | Some c => LSuccess (set_cnt st d c) (plain_at st d c ct)
      | None => LFail (set_cnt st d (cnt st d + N.of_nat n))
                      (match n with O => last | S t => Some (plain_at st d (cnt st d + N.of_nat t) ct) end)
      end.
  Proof.
    intros Hh Hb Hm. induction n as [|n IH]; intros st last.
    - cbn [Model.dec_loop Model.first_accept]. rewrite N.add_0_r, set_cnt_same. reflexivity.
    - cbn [Model.dec_loop Model.first_accept].
      unfold ccm_decrypt, Model.accepts_at, Model.mic_for, Model.plain_at, generate_nonce.
      rewrite Hh, Hb, Hm.
      destruct (bytes_eqb mic _) eqn:Eq.
      + rewrite set_cnt_same. reflexivity.
      + rewrite IH. rewrite cnt_incr. unfold incr at 1. rewrite first_accept_set_cnt.
        destruct (first_accept st d (cnt st d + 1) n pdu) as [c|].
        * rewrite set_cnt_incr. unfold incr. rewrite plain_at_set_cnt. reflexivity.
        * rewrite set_cnt_incr.
          replace (cnt st d + 1 + N.of_nat n)%N with (cnt st d + N.of_nat (S n))%N by lia.
          f_equal. destruct n as [|t].
          -- rewrite N.add_0_r. unfold Model.plain_at, generate_nonce. reflexivity.
          -- unfold incr. rewrite plain_at_set_cnt.
             replace (cnt st d + 1 + N.of_nat t)%N with (cnt st d + N.of_nat (S t))%N by lia. reflexivity.
  Qed.

  (** * decrypt is its specification *)
  Lemma decrypt_spec st pdu d tol : decrypt st pdu d tol = decrypt_spec_of st pdu d tol.
  Proof.
    unfold Model.decrypt, Model.decrypt_spec_of. destruct pdu as [|h r]; [reflexivity|].
    rewrite (dec_loop_spec h (body_of (h :: r)) (mic_of (h :: r)) (h :: r) d eq_refl eq_refl eq_refl).
    destruct (first_accept st d (cnt st d) tol (h :: r)) as [c|]; [reflexivity|].
    rewrite set_cnt_set_cnt, set_cnt_same. destruct tol; reflexivity.
  Qed.

  (** * relating first_accept, rejects_from, accepts_at *)
  Lemma first_accept_skip st d pdu : forall k c tol,
    rejects_from st d c k pdu = true -> accepts_at st d (c + N.of_nat k) pdu = true -> k < tol ->
    first_accept st d c tol pdu = Some (c + N.of_nat k)%N.
  Proof.
    induction k as [|k IH]; intros c tol Hr Ha Hk.
    - destruct tol; [lia|]. cbn [Model.first_accept]. rewrite N.add_0_r in *. rewrite Ha. reflexivity.
    - destruct tol; [lia|]. cbn [Model.first_accept Model.rejects_from] in *.
      apply andb_true_iff in Hr as [H1 H2]. apply negb_true_iff in H1. rewrite H1.
      rewrite (IH (c + 1)%N tol H2); [f_equal; lia| |lia].
      replace (c + 1 + N.of_nat k)%N with (c + N.of_nat (S k))%N by lia. exact Ha.
  Qed.

  Lemma first_accept_none st d pdu : forall k c,
    first_accept st d c k pdu = None <-> rejects_from st d c k pdu = true.
  Proof.
    induction k as [|k IH]; intros c; cbn [Model.first_accept Model.rejects_from]; [tauto|].
    destruct (accepts_at st d c pdu); cbn [negb andb].
    - split; discriminate.
    - apply IH.
  Qed.

  Lemma first_accept_some st d pdu : forall k c c',
    first_accept st d c k pdu = Some c' <->
    exists j, j < k /\ c' = (c + N.of_nat j)%N /\ rejects_from st d c j pdu = true /\ accepts_at st d c' pdu = true.
  Proof.
    induction k as [|k IH]; intros c c'; cbn [Model.first_accept].
    - split; [discriminate|]. intros (j & Hj & _). lia.
    - destruct (accepts_at st d c pdu) eqn:Ha.
      + split.
        * intros H. injection H as <-. exists 0. rewrite N.add_0_r. repeat split; [lia|exact Ha].
        * intros (j & Hj & -> & Hr & Hacc). destruct j; [rewrite N.add_0_r; reflexivity|].
          cbn [Model.rejects_from] in Hr. rewrite Ha in Hr. discriminate.
      + rewrite IH. split.
        * intros (j & Hj & -> & Hr & Hacc). exists (S j). repeat split; [lia|lia| |exact Hacc].
          cbn [Model.rejects_from]. rewrite Ha, Hr. reflexivity.
        * intros (j & Hj & -> & Hr & Hacc). destruct j.
          -- rewrite N.add_0_r in Hacc. congruence.
          -- cbn [Model.rejects_from] in Hr. apply andb_true_iff in Hr as [_ Hr].
             exists j. repeat split; [lia|lia|exact Hr|exact Hacc].
  Qed.

  Lemma rejects_from_at st d pdu : forall n c, rejects_from st d c n pdu = true -> forall i, i < n ->
    accepts_at st d (c + N.of_nat i) pdu = false.
  Proof.
    induction n as [|n IHn]; intros c Hr i Hi; [lia|].
    cbn [Model.rejects_from] in Hr. apply andb_true_iff in Hr as [H1 H2]. apply negb_true_iff in H1.
    destruct i; [rewrite N.add_0_r; exact H1|].
    replace (c + N.of_nat (S i))%N with (c + 1 + N.of_nat i)%N by lia. apply IHn; [exact H2|lia].
  Qed.

  Lemma accepts_at_iff st d c pdu :
    accepts_at st d c pdu = true <->
    mic_of pdu = mic_for st d c (hd 0%N pdu) (plain_at st d c (body_of pdu)).
  Proof. unfold Model.accepts_at. apply bytes_eqb_eq. Qed.

  (** * what encrypt produces *)
  Lemma mic_length st d c h pt : length (mic_for st d c h pt) = 4.
  Proof. unfold Model.mic_for. apply ccm_tag_length; [exact E_length|lia]. Qed.

  Lemma encrypt_shape st h l rest d :
    encrypt st (h :: l :: rest) d =
    Ok (h :: l :: ccm_keystream_xor E 2 (sk st) (generate_nonce st d) rest
                  ++ mic_for st d (cnt st d) h rest).
  Proof. reflexivity. Qed.

  (** any PDU carrying that ciphertext and MIC (whatever its length byte) is accepted at the
      sender's counter, by any manager with the same key and IV *)
  Lemma accepts_genuine tx rx h l' rest d :
    sk tx = sk rx -> iv tx = iv rx ->
    let c := h :: l' :: ccm_keystream_xor E 2 (sk tx) (generate_nonce tx d) rest ++ mic_for tx d (cnt tx d) h rest in
    accepts_at rx d (cnt tx d) c = true /\ plain_at rx d (cnt tx d) (body_of c) = rest.
  Proof.
    intros Hk Hi c.
    assert (Hp : plain_at rx d (cnt tx d) (body_of c) = rest).
    { unfold c. rewrite body_of_shape by apply mic_length.
      unfold Model.plain_at, generate_nonce. rewrite <- Hk, <- Hi.
      apply ccm_keystream_xor_involutive; exact E_length. }
    split; [|exact Hp].
    apply accepts_at_iff. rewrite Hp. unfold c. rewrite mic_of_shape by apply mic_length.
    cbn [hd]. unfold Model.mic_for. rewrite Hk, Hi. reflexivity.
  Qed.

  (** * decrypt_encrypt *)
  Lemma decrypt_encrypt_gen tx rx h l l' rest d tol k :
    sk tx = sk rx -> iv tx = iv rx ->
    cnt tx d = (cnt rx d + N.of_nat k)%N -> k < tol ->
    let c := h :: l' :: ccm_keystream_xor E 2 (sk tx) (generate_nonce tx d) rest ++ mic_for tx d (cnt tx d) h rest in
    rejects_from rx d (cnt rx d) k c = true ->
    decrypt rx c d tol = (set_cnt rx d (cnt tx d), Ok (h :: l' :: rest, true)) /\
    encrypt tx (h :: l :: rest) d = Ok (h :: l :: skipn 2 c).
  Proof.
    intros Hk Hi Hc Hlt c Hr.
    destruct (accepts_genuine tx rx h l' rest d Hk Hi) as [Ha Hp]. fold c in Ha, Hp.
    split; [|reflexivity].
    rewrite decrypt_spec. unfold Model.decrypt_spec_of. unfold c at 1.
    rewrite (first_accept_skip rx d c k (cnt rx d) tol Hr); [|rewrite <- Hc; exact Ha|exact Hlt].
    rewrite <- Hc, Hp. reflexivity.
  Qed.

  Lemma decrypt_encrypt st pdu d tol :
    2 <= length pdu -> 1 <= tol ->
    exists c, encrypt st pdu d = Ok c /\ decrypt st c d tol = (st, Ok (pdu, true)).
  Proof.
    intros Hl Ht. destruct pdu as [|h [|l rest]]; cbn [length] in Hl; try lia.
    destruct (decrypt_encrypt_gen st st h l l rest d tol 0 eq_refl eq_refl) as [Hd He];
      [rewrite N.add_0_r; reflexivity|lia|reflexivity|].
    eexists. split; [exact He|]. cbn [skipn]. rewrite Hd, set_cnt_same. reflexivity.
  Qed.

  Lemma decrypt_encrypt_skew tx rx pdu d tol k c :
    2 <= length pdu -> sk tx = sk rx -> iv tx = iv rx ->
    cnt tx d = (cnt rx d + N.of_nat k)%N -> k < tol ->
    encrypt tx pdu d = Ok c ->
    rejects_from rx d (cnt rx d) k c = true ->
    decrypt rx c d tol = (set_cnt rx d (cnt tx d), Ok (pdu, true)).
  Proof.
    intros Hl Hk Hi Hc Hlt He Hr. destruct pdu as [|h [|l rest]]; cbn [length] in Hl; try lia.
    rewrite encrypt_shape in He. injection He as <-.
    apply (decrypt_encrypt_gen tx rx h l l rest d tol k Hk Hi Hc Hlt Hr).
  Qed.

  (** * sequences of PDUs with losses *)
  Definition pdus_ok (evs : list event) : Prop := Forall (fun e : event => 2 <= length (snd (fst e))) evs.

  Lemma run_link_correct tol : forall evs tx rx,
    sk tx = sk rx -> iv tx = iv rx -> (forall d, (cnt rx d <= cnt tx d)%N) ->
    pdus_ok evs -> link_ok E tol tx rx evs = true ->
    run_link E tol tx rx evs = delivered_pdus evs.
  Proof.
    induction evs as [|[[d pdu] delivered] r IH]; intros tx rx Hk Hi Hle Hp Hok; [reflexivity|].
    inversion Hp as [|? ? Hp1 Hp2]; subst. cbn [fst snd] in Hp1.
    cbn [Model.run_link Model.link_ok Model.delivered_pdus] in *.
    destruct (encrypt tx pdu d) as [c|e] eqn:He; [|discriminate].
    destruct delivered.
    - apply andb_true_iff in Hok as [Hok Hrest]. apply andb_true_iff in Hok as [Hgap Hrej].
      apply Nat.ltb_lt in Hgap.
      assert (Hc : cnt tx d = (cnt rx d + N.of_nat (N.to_nat (cnt tx d - cnt rx d)))%N).
      { specialize (Hle d). lia. }
      rewrite (decrypt_encrypt_skew tx rx pdu d tol _ c Hp1 Hk Hi Hc Hgap He Hrej).
      f_equal. apply IH; try assumption.
      + rewrite !sk_incr, sk_set_cnt. exact Hk.
      + rewrite !iv_incr, iv_set_cnt. exact Hi.
      + intros d'. destruct (dir_eq_dec d d') as [<-|Hne].
        * rewrite !cnt_incr, cnt_set_cnt. lia.
        * rewrite !cnt_incr_other, cnt_set_cnt_other by assumption. apply Hle.
    - apply IH; try assumption.
      + rewrite sk_incr. exact Hk.
      + rewrite iv_incr. exact Hi.
      + intros d'. destruct (dir_eq_dec d d') as [<-|Hne].
        * rewrite cnt_incr. specialize (Hle d). lia.
        * rewrite cnt_incr_other by assumption. apply Hle.
  Qed.

  Lemma decrypt_encrypt_sequence tol st evs :
    pdus_ok evs -> link_ok E tol st st evs = true ->
    run_link E tol st st evs = delivered_pdus evs.
  Proof. intros Hp Hok. apply run_link_correct; try assumption; try reflexivity. Qed.

  (** without losses nothing has to be assumed: [link_ok] holds by itself *)
  Lemma link_ok_no_loss tol : 1 <= tol -> forall evs tx rx,
    (forall d, cnt rx d = cnt tx d) -> pdus_ok evs ->
    Forall (fun e : event => snd e = true) evs -> link_ok E tol tx rx evs = true.
  Proof.
    intros Ht. induction evs as [|[[d pdu] delivered] r IH]; intros tx rx Heq Hp Hall; [reflexivity|].
    inversion Hp as [|? ? Hp1 Hp2]; subst. inversion Hall as [|? ? Ha1 Ha2]; subst.
    cbn [fst snd] in *. subst delivered. cbn [Model.link_ok].
    destruct pdu as [|h [|l rest]]; cbn [length] in Hp1; try lia.
    rewrite encrypt_shape. rewrite Heq, N.sub_diag. cbn [N.to_nat Model.rejects_from].
    replace (0 <? tol) with true by (symmetry; apply Nat.ltb_lt; lia). cbn [andb].
    apply IH; try assumption.
    intros d'. destruct (dir_eq_dec d d') as [<-|Hne].
    - rewrite !cnt_incr, cnt_set_cnt. reflexivity.
    - rewrite !cnt_incr_other, cnt_set_cnt_other by assumption. apply Heq.
  Qed.

  Lemma decrypt_encrypt_sequence_no_loss tol st evs :
    1 <= tol -> pdus_ok evs -> Forall (fun e : event => snd e = true) evs ->
    run_link E tol st st evs = delivered_pdus evs.
  Proof.
    intros Ht Hp Hall. apply decrypt_encrypt_sequence; [exact Hp|].
    apply link_ok_no_loss; try assumption. reflexivity.
  Qed.

  (** * acceptance iff the MIC is the recomputed MIC *)
  Lemma accept_iff_tag st pdu d tol : pdu <> [] ->
    (exists st' p, decrypt st pdu d tol = (st', Ok (p, true))) <->
    (exists k, k < tol /\
       mic_of pdu = mic_for st d (cnt st d + N.of_nat k) (hd 0%N pdu)
                            (plain_at st d (cnt st d + N.of_nat k) (body_of pdu))).
  Proof.
    intros Hne. rewrite decrypt_spec. unfold Model.decrypt_spec_of.
    destruct pdu as [|h r]; [contradiction|].
    destruct (first_accept st d (cnt st d) tol (h :: r)) as [c|] eqn:Hf.
    - split; [|intros _; eauto].
      intros _. apply first_accept_some in Hf as (j & Hj & -> & _ & Ha).
      exists j. split; [exact Hj|]. apply accepts_at_iff. exact Ha.
    - split.
      + intros (st' & p & H). destruct tol; discriminate.
      + intros (k & Hk & Hm). exfalso.
        apply first_accept_none in Hf.
        apply accepts_at_iff in Hm. rewrite (rejects_from_at st d (h :: r) tol _ Hf k Hk) in Hm. discriminate.
  Qed.

  (** with the result spelled out: which counter, which plaintext, which state *)
  Lemma accept_result st pdu d tol st' p : pdu <> [] ->
    decrypt st pdu d tol = (st', Ok (p, true)) <->
    exists k, k < tol /\ rejects_from st d (cnt st d) k pdu = true /\
              accepts_at st d (cnt st d + N.of_nat k) pdu = true /\
              st' = set_cnt st d (cnt st d + N.of_nat k) /\
              p = firstn 2 pdu ++ plain_at st d (cnt st d + N.of_nat k) (body_of pdu).
  Proof.
    intros Hne. rewrite decrypt_spec. unfold Model.decrypt_spec_of.
    destruct pdu as [|h r]; [contradiction|].
    destruct (first_accept st d (cnt st d) tol (h :: r)) as [c|] eqn:Hf.
    - apply first_accept_some in Hf as (j & Hj & -> & Hr & Ha). split.
      + intros H. injection H as <- <-. exists j. repeat split; assumption.
      + intros (k & Hk & Hr' & Ha' & -> & ->).
        assert (k = j).
        { destruct (Nat.lt_trichotomy k j) as [Hlt|[->|Hgt]]; [|reflexivity|]; exfalso.
          -             rewrite (rejects_from_at st d (h :: r) j _ Hr k Hlt) in Ha'. discriminate.
          - assert (G : forall n c, rejects_from st d c n (h :: r) = true -> forall i, i < n ->
                          accepts_at st d (c + N.of_nat i) (h :: r) = false).
            { induction n as [|n IHn]; intros c Hrr i Hi; [lia|].
              cbn [Model.rejects_from] in Hrr. apply andb_true_iff in Hrr as [H1 H2]. apply negb_true_iff in H1.
              destruct i; [rewrite N.add_0_r; exact H1|].
              replace (c + N.of_nat (S i))%N with (c + 1 + N.of_nat i)%N by lia. apply IHn; [exact H2|lia]. }
            rewrite (rejects_from_at st d (h :: r) k _ Hr' j Hgt) in Ha. discriminate. }
        subst k. reflexivity.
    - split.
      + intros H. destruct tol; discriminate.
      + intros (k & Hk & Hr' & Ha' & _). exfalso.
        apply first_accept_none in Hf.
        rewrite (rejects_from_at st d (h :: r) tol _ Hf k Hk) in Ha'. discriminate.
  Qed.

  (** * failure: conditional on the MACs differing, and always with counters untouched *)
  Lemma tamper_fails_if_mac_differs st pdu d tol :
    pdu <> [] -> 1 <= tol ->
    rejects_from st d (cnt st d) tol pdu = true ->
    exists p, decrypt st pdu d tol = (st, Ok (p, false)).
  Proof.
    intros Hne Ht Hr. rewrite decrypt_spec. unfold Model.decrypt_spec_of.
    destruct pdu as [|h r]; [contradiction|].
    apply first_accept_none in Hr. rewrite Hr. destruct tol; [lia|]. eauto.
  Qed.

  Lemma counters_unchanged_on_failure st pdu d tol st' o :
    decrypt st pdu d tol = (st', o) -> (forall p, o <> Ok (p, true)) -> st' = st.
  Proof.
    rewrite decrypt_spec. unfold Model.decrypt_spec_of. intros H Hno.
    destruct pdu as [|h r]; [injection H as <- _; reflexivity|].
    destruct (first_accept st d (cnt st d) tol (h :: r)) as [c|].
    - injection H as _ <-. exfalso. eapply Hno. reflexivity.
    - destruct tol; injection H as <- _; reflexivity.
  Qed.

  (** a change of the MIC alone is always detected at the sender's counter *)
  Lemma mic_change_rejected st h l rest d (mic' : bytes) :
    length mic' = 4 -> mic' <> mic_for st d (cnt st d) h rest ->
    accepts_at st d (cnt st d)
      (h :: l :: ccm_keystream_xor E 2 (sk st) (generate_nonce st d) rest ++ mic') = false.
  Proof.
    intros H4 Hne. destruct (accepts_at _ _ _ _) eqn:Ha; [|reflexivity]. exfalso.
    apply accepts_at_iff in Ha. cbn [hd] in Ha.
    rewrite body_of_shape, mic_of_shape in Ha by exact H4.
    unfold Model.plain_at in Ha. fold (generate_nonce st d) in Ha.
    rewrite ccm_keystream_xor_involutive in Ha by exact E_length. contradiction.
  Qed.

  Lemma skew_beyond_tolerance_rejected tx rx pdu d tol c :
    sk tx = sk rx -> iv tx = iv rx -> 1 <= tol ->
    (cnt rx d + N.of_nat tol <= cnt tx d)%N ->
    encrypt tx pdu d = Ok c ->
    rejects_from rx d (cnt rx d) tol c = true ->
    exists p, decrypt rx c d tol = (rx, Ok (p, false)).
  Proof.
    intros _ _ Ht _ He Hr. apply tamper_fails_if_mac_differs; try assumption.
    destruct pdu; cbn in He; [discriminate|]. injection He as <-. discriminate.
  Qed.

  (** the receiver never looks at a counter outside [cnt, cnt + tol): two PDUs that behave the
      same at those counters are treated the same *)
  Lemma decrypt_depends_on_window st pdu d tol :
    fst (decrypt st pdu d tol) = st \/
    exists k, k < tol /\ fst (decrypt st pdu d tol) = set_cnt st d (cnt st d + N.of_nat k).
  Proof.
    rewrite decrypt_spec. unfold Model.decrypt_spec_of.
    destruct pdu as [|h r]; [left; reflexivity|].
    destruct (first_accept st d (cnt st d) tol (h :: r)) as [c|] eqn:Hf.
    - right. apply first_accept_some in Hf as (j & Hj & -> & _). exists j. split; [exact Hj|reflexivity].
    - left. destruct tol; reflexivity.
  Qed.
End Proofs.

(** * The authenticated encoding leaves nothing out *)
Lemma le32_rev_be a : le32 a = rev (be_bytes 4 a).
Proof.
  unfold le32. cbn [be_bytes app rev]. rewrite !N.div_div by lia. reflexivity.
Qed.

Lemma le32_inj a b : (a < 4294967296)%N -> (b < 4294967296)%N -> le32 a = le32 b -> a = b.
Proof.
  intros Ha Hb H. rewrite !le32_rev_be in H.
  apply (f_equal (@rev N)) in H. rewrite !rev_involutive in H.
  assert (P : (256 ^ N.of_nat 4)%N = 4294967296%N) by (vm_compute; reflexivity).
  apply be_bytes_inj in H; [exact H|rewrite P; exact Ha|rewrite P; exact Hb].
Qed.

Lemma nonce_of_length c d ivb : length (nonce_of c d ivb) = 5 + length ivb.
Proof. unfold nonce_of, le32. cbn [app length]. reflexivity. Qed.

Lemma nonce_of_inj c c' d d' (ivb ivb' : bytes) :
  (c < two39)%N -> (c' < two39)%N ->
  nonce_of c d ivb = nonce_of c' d' ivb' -> c = c' /\ d = d' /\ ivb = ivb'.
Proof.
  intros Hc Hc' H. unfold nonce_of in H.
  rewrite !(N.mod_small _ two39) in H by assumption.
  apply app_inj_length in H; [|reflexivity]. destruct H as [Hlo Hrest].
  cbn [app] in Hrest. injection Hrest as Hb Hiv.
  assert (T : two32 <> 0%N) by (unfold two32; lia).
  apply le32_inj in Hlo; [|apply N.mod_lt; exact T|apply N.mod_lt; exact T].
  assert (Hh : (c / two32 < 128)%N) by (apply N.div_lt_upper_bound; [exact T|unfold two32, two39 in *; lia]).
  assert (Hh' : (c' / two32 < 128)%N) by (apply N.div_lt_upper_bound; [exact T|unfold two32, two39 in *; lia]).
  pose proof (N.div_mod' c two32) as D. pose proof (N.div_mod' c' two32) as D'.
  set (hi := (c / two32)%N) in *. set (hi' := (c' / two32)%N) in *.
  set (lo := (c mod two32)%N) in *. set (lo' := (c' mod two32)%N) in *.
  clearbody hi hi' lo lo'.
  assert (hi = hi' /\ d = d') as [-> ->].
  { destruct d, d'; cbn [dir_byte] in Hb; split; try reflexivity; lia. }
  split; [|split; [reflexivity|exact Hiv]]. rewrite D, D', Hlo. reflexivity.
Qed.

Lemma format_injective ivb ivb' d d' c c' h h' (pt pt' : bytes) :
  length ivb = length ivb' -> (c < two39)%N -> (c' < two39)%N ->
  (N.of_nat (length pt) < 65536)%N -> (N.of_nat (length pt') < 65536)%N ->
  auth_blocks_of ivb d c h pt = auth_blocks_of ivb' d' c' h' pt' ->
  ivb = ivb' /\ d = d' /\ c = c' /\ N.land h header_mask = N.land h' header_mask /\ pt = pt'.
Proof.
  intros Hl Hc Hc' Hp Hp' H. unfold auth_blocks_of in H.
  apply ccm_auth_blocks_injective in H.
  - destruct H as (Hn & Hh & Hpt). apply nonce_of_inj in Hn as (-> & -> & ->); try assumption.
    unfold masked_header in Hh. injection Hh as Hh. repeat split; assumption.
  - lia.
  - rewrite !nonce_of_length, Hl. reflexivity.
  - change (256 ^ N.of_nat 2)%N with 65536%N. exact Hp.
  - change (256 ^ N.of_nat 2)%N with 65536%N. exact Hp'.
  - cbn. lia.
  - cbn. lia.
Qed.

(** the session material is injective in (SKDm, IVm, SKDs, IVs) *)
Lemma session_material_injective (m m' : material) :
  (m_skd m < two64)%N -> (s_skd m < two64)%N -> (m_iv m < two32)%N -> (s_iv m < two32)%N ->
  (m_skd m' < two64)%N -> (s_skd m' < two64)%N -> (m_iv m' < two32)%N -> (s_iv m' < two32)%N ->
  session_skd m = session_skd m' -> session_iv m = session_iv m' -> m = m'.
Proof.
  assert (P : (256 ^ N.of_nat 8)%N = two64) by (vm_compute; reflexivity).
  unfold two32. intros A1 A2 A3 A4 B1 B2 B3 B4 Hs Hi.
  unfold session_skd in Hs. apply app_inj_length in Hs; [|rewrite !be_bytes_length; reflexivity].
  destruct Hs as [Hs1 Hs2].
  apply be_bytes_inj in Hs1; [|rewrite P; assumption|rewrite P; assumption].
  apply be_bytes_inj in Hs2; [|rewrite P; assumption|rewrite P; assumption].
  unfold session_iv in Hi.
  apply app_inj_length in Hi; [|reflexivity]. destruct Hi as [Hi1 Hi2].
  apply le32_inj in Hi1; [|assumption|assumption]. apply le32_inj in Hi2; [|assumption|assumption].
  destruct m, m'; cbn in *; subst; reflexivity.
Qed.

(** * The passive decryptor: materials and keys in lists, managers cached per (key, material index) *)
Lemma lookup_store_same k i x l : lookup k i (store k i x l) = Some x.
Proof.
  induction l as [|[[k' i'] m] r IH]; cbn [lookup store].
  - rewrite bytes_eqb_refl, N.eqb_refl. reflexivity.
  - destruct (bytes_eqb k k' && N.eqb i i')%bool eqn:Eq; cbn [lookup]; rewrite Eq; [reflexivity|exact IH].
Qed.

Fixpoint indexed (i : N) (l : list material) : list (N * material) :=
  match l with [] => [] | m :: r => (i, m) :: indexed (N.succ i) r end.

Section Decryptor.
  Variable E : bytes -> bytes -> bytes.
  Hypothesis E_length : forall k b, length (E k b) = 16.

  (** a (material of index i, key) combination that reports failure and leaves the cache as it is *)
  Definition combo_rejects (mgrs : list ((bytes * N) * mgr)) (pdu : bytes) (i : N) (mat : material) (k : bytes) : Prop :=
    try_key E mgrs k i mat pdu = (mgrs, Ok None).

  Lemma try_keys_skip i mat pdu mgrs ks2 : forall ks1,
    Forall (combo_rejects mgrs pdu i mat) ks1 ->
    try_keys E mgrs (ks1 ++ ks2) i mat pdu = try_keys E mgrs ks2 i mat pdu.
  Proof.
    induction ks1 as [|k r IH]; intros H; [reflexivity|].
    inversion H as [|? ? Hk Hr]; subst. cbn [app try_keys]. rewrite Hk. apply IH. exact Hr.
  Qed.

  Lemma try_keys_all_reject i mat pdu mgrs ks :
    Forall (combo_rejects mgrs pdu i mat) ks -> try_keys E mgrs ks i mat pdu = (mgrs, Ok None).
  Proof. intros H. rewrite <- (app_nil_r ks). rewrite try_keys_skip by exact H. reflexivity. Qed.

  Lemma try_mats_skip pdu mgrs ks ms2 : forall ms1 i,
    Forall (fun im => Forall (combo_rejects mgrs pdu (fst im) (snd im)) ks) (indexed i ms1) ->
    try_mats E mgrs ks i (ms1 ++ ms2) pdu = try_mats E mgrs ks (i + N.of_nat (length ms1))%N ms2 pdu.
  Proof.
    induction ms1 as [|m r IH]; intros i H.
    - cbn [app length]. rewrite N.add_0_r. reflexivity.
    - cbn [indexed] in H. inversion H as [|? ? Hm Hr]; subst. cbn [fst snd] in Hm. cbn [app try_mats].
      rewrite (try_keys_all_reject i m pdu mgrs ks Hm). rewrite (IH (N.succ i) Hr).
      f_equal. cbn [length]. lia.
  Qed.

  (** The materials are tried in order and, for each, the keys in order: combinations tried
      before the right one do not matter as long as they reject; the first accepting
      combination gives the result. Arbitrary decryptor state. *)
  Lemma attempt_material_list (ds : dstate) pdu ms1 mat ms2 ks1 key ks2 mgrs' p :
    mats ds = ms1 ++ mat :: ms2 -> keys ds = ks1 ++ key :: ks2 ->
    (N.eqb (nth 1 pdu 0%N) 0 && N.eqb (N.land (nth 0 pdu 0%N) 3) 1)%bool = false ->
    Forall (fun im => Forall (combo_rejects (managers ds) pdu (fst im) (snd im)) (keys ds)) (indexed 0 ms1) ->
    Forall (combo_rejects (managers ds) pdu (N.of_nat (length ms1)) mat) ks1 ->
    try_key E (managers ds) key (N.of_nat (length ms1)) mat pdu = (mgrs', Ok (Some p)) ->
    attempt E ds pdu = ({| keys := keys ds; mats := mats ds; managers := mgrs' |}, Ok (Some p)).
  Proof.
    intros Hm Hk Hne Hms Hks Hhit. unfold attempt.
    destruct (mats ds) as [|m0 mr] eqn:Em; [destruct ms1; discriminate|].
    destruct (keys ds) as [|k0 kr] eqn:Ek; [destruct ks1; discriminate|].
    rewrite Hne. rewrite Hm. rewrite try_mats_skip by exact Hms. rewrite N.add_0_l.
    cbn [try_mats]. rewrite Hk. rewrite try_keys_skip by exact Hks.
    cbn [try_keys]. rewrite Hhit. rewrite <- Hm, <- Hk. reflexivity.
  Qed.

  (** the right (key, material) of a session recovers its PDU whatever else is cached:
      [rx] is the manager the decryptor uses for it (cached one, or a fresh one) *)
  Lemma try_key_session mgrs key i mat tx rx d h l rest c :
    match lookup key i mgrs with Some m => Ok m | None => mk_manager E key mat end = Ok rx ->
    sk tx = sk rx -> iv tx = iv rx -> (cnt rx d <= cnt tx d)%N ->
    encrypt E tx (h :: l :: rest) d = Ok c ->
    let a := air_pdu c in
    let gap := N.to_nat (cnt tx d - cnt rx d) in
    gap < 2 -> rejects_from E rx d (cnt rx d) gap a = true ->
    match d with M2S => true | S2M => rejects_from E rx M2S (cnt rx M2S) 2 a end = true ->
    try_key E mgrs key i mat a
    = (store key i (incr (set_cnt rx d (cnt tx d)) d) mgrs, Ok (Some (h :: l :: rest))).
  Proof.
    intros Heff Hk Hi Hle He a gap Hgap Hrej Hcross.
    rewrite encrypt_shape in He. injection He as <-.
    unfold air_pdu in a. cbn iota in a.
    assert (Hc : cnt tx d = (cnt rx d + N.of_nat gap)%N) by (unfold gap; lia).
    destruct (decrypt_encrypt_gen E E_length tx rx h l (l + 4)%N rest d 2 gap Hk Hi Hc Hgap Hrej) as [Hd _].
    fold a in Hd.
    unfold try_key. rewrite Heff.
    destruct d.
    - rewrite Hd. cbn [strip_mic_len]. rewrite N.add_sub. reflexivity.
    - destruct (tamper_fails_if_mac_differs E E_length rx a M2S 2) as [q Hf];
        [unfold a; discriminate|lia|exact Hcross|].
      rewrite Hf. rewrite Hd. cbn [strip_mic_len]. rewrite N.add_sub. reflexivity.
  Qed.

  (** ** one session, its key and material anywhere in the decryptor's lists, from ANY cache *)
  Variables (ks1 : list bytes) (key : bytes) (ks2 : list bytes).
  Variables (ms1 : list material) (mat : material) (ms2 : list material).
  Let ks := ks1 ++ key :: ks2.
  Let ms := ms1 ++ mat :: ms2.
  Let idx := N.of_nat (length ms1).

  (** the combinations the loops try before (mat, key) reject this PDU *)
  Definition before_reject (mgrs : list ((bytes * N) * mgr)) (a : bytes) : Prop :=
    Forall (fun im => Forall (combo_rejects mgrs a (fst im) (snd im)) ks) (indexed 0 ms1) /\
    Forall (combo_rejects mgrs a idx mat) ks1.

  (** side condition along the session's capture: every captured PDU is rejected by the
      combinations tried before the right one, at the cache of that moment *)
  Fixpoint session_ok (mgrs : list ((bytes * N) * mgr)) (tx rx : mgr) (evs : list event) : Prop :=
    match evs with
    | [] => True
    | (d, pdu, captured) :: r =>
      match encrypt E tx pdu d with
      | Raise _ => False
      | Ok c =>
        if captured then
          let rx' := incr (set_cnt rx d (cnt tx d)) d in
          before_reject mgrs (air_pdu c) /\ session_ok (store key idx rx' mgrs) (incr tx d) rx' r
        else session_ok mgrs (incr tx d) rx r
      end
    end.

  (** the cache after the session *)
  Fixpoint session_final (mgrs : list ((bytes * N) * mgr)) (tx rx : mgr) (evs : list event)
    : list ((bytes * N) * mgr) :=
    match evs with
    | [] => mgrs
    | (d, pdu, captured) :: r =>
      if captured then
        let rx' := incr (set_cnt rx d (cnt tx d)) d in session_final (store key idx rx' mgrs) (incr tx d) rx' r
      else session_final mgrs (incr tx d) rx r
    end.

  Definition eff (mgrs : list ((bytes * N) * mgr)) (rx : mgr) : Prop :=
    match lookup key idx mgrs with Some m => Ok m | None => mk_manager E key mat end = Ok rx.

  Lemma session_recovered : forall evs tx rx mgrs,
    eff mgrs rx -> sk tx = sk rx -> iv tx = iv rx -> (forall d, (cnt rx d <= cnt tx d)%N) ->
    pdus_ok evs -> capture_ok E tx rx evs = true -> session_ok mgrs tx rx evs ->
    attempt_all E {| keys := ks; mats := ms; managers := mgrs |} (capture E tx evs)
    = ({| keys := ks; mats := ms; managers := session_final mgrs tx rx evs |}, captured_plain evs).
  Proof.
    induction evs as [|[[d pdu] captured] r IH]; intros tx rx mgrs Heff Hk Hi Hle Hp Hok Hso; [reflexivity|].
    inversion Hp as [|? ? Hp1 Hp2]; subst. cbn [fst snd] in Hp1.
    destruct pdu as [|h [|l rest]]; cbn [length] in Hp1; try lia.
    cbn [capture capture_ok captured_plain session_ok session_final] in *.
    destruct (encrypt E tx (h :: l :: rest) d) as [c|e] eqn:He; [|discriminate].
    destruct captured.
    - apply andb_true_iff in Hok as [Hok Hrest]. apply andb_true_iff in Hok as [Hok Hcross].
      apply andb_true_iff in Hok as [Hgap Hrej]. apply Nat.ltb_lt in Hgap.
      destruct Hso as [[Hb1 Hb2] Hso].
      cbn [attempt_all].
      assert (Hatt : attempt E {| keys := ks; mats := ms; managers := mgrs |} (air_pdu c)
                     = ({| keys := ks; mats := ms;
                           managers := store key idx (incr (set_cnt rx d (cnt tx d)) d) mgrs |},
                        Ok (Some (h :: l :: rest)))).
      { apply (attempt_material_list {| keys := ks; mats := ms; managers := mgrs |} (air_pdu c)
                                     ms1 mat ms2 ks1 key ks2); try reflexivity; try assumption.
        - pose proof He as He'. rewrite encrypt_shape in He'. injection He' as <-. unfold air_pdu. cbn [nth].
          replace (N.eqb (l + 4) 0) with false by (symmetry; apply N.eqb_neq; lia). reflexivity.
        - apply (try_key_session mgrs key idx mat tx rx d h l rest c); try assumption. apply Hle. }
      rewrite Hatt.
      rewrite (IH (incr tx d) (incr (set_cnt rx d (cnt tx d)) d)
                  (store key idx (incr (set_cnt rx d (cnt tx d)) d) mgrs)); try assumption.
      + reflexivity.
      + unfold eff. rewrite lookup_store_same. reflexivity.
      + rewrite !sk_incr, sk_set_cnt. exact Hk.
      + rewrite !iv_incr, iv_set_cnt. exact Hi.
      + intros d'. destruct (dir_eq_dec d d') as [<-|Hne].
        * rewrite !cnt_incr, cnt_set_cnt. lia.
        * rewrite !cnt_incr_other, cnt_set_cnt_other by assumption. apply Hle.
    - apply IH; try assumption.
      + rewrite sk_incr. exact Hk.
      + rewrite iv_incr. exact Hi.
      + intros d'. destruct (dir_eq_dec d d') as [<-|Hne].
        * rewrite cnt_incr. specialize (Hle d). lia.
        * rewrite cnt_incr_other by assumption. apply Hle.
  Qed.
End Decryptor.

Lemma attempt_all_app E ds a b :
  attempt_all E ds (a ++ b) =
  let '(ds1, o1) := attempt_all E ds a in let '(ds2, o2) := attempt_all E ds1 b in (ds2, o1 ++ o2).
Proof.
  revert ds. induction a as [|p a IH]; intros ds; cbn [app attempt_all].
  - destruct (attempt_all E ds b). reflexivity.
  - destruct (attempt E ds p) as [ds1 o]. rewrite IH.
    destruct (attempt_all E ds1 a) as [ds2 o1]. destruct (attempt_all E ds2 b) as [ds3 o2]. reflexivity.
Qed.

Lemma lookup_store_other_idx k i x k' i' l : i <> i' -> lookup k' i' (store k i x l) = lookup k' i' l.
Proof.
  intros Hne. assert (Hf : N.eqb i' i = false) by (apply N.eqb_neq; congruence).
  induction l as [|[[k0 i0] m] r IH]; cbn [lookup store].
  - rewrite Hf, andb_false_r. reflexivity.
  - destruct (bytes_eqb k k0 && N.eqb i i0)%bool eqn:Eq; cbn [lookup].
    + apply andb_true_iff in Eq as [_ Ei]. apply N.eqb_eq in Ei. subst i0. rewrite Hf, andb_false_r. reflexivity.
    + rewrite IH. reflexivity.
Qed.

Lemma lookup_session_final_other key ms1 k' i' : i' <> N.of_nat (length ms1) ->
  forall evs mgrs tx rx, lookup k' i' (session_final key ms1 mgrs tx rx evs) = lookup k' i' mgrs.
Proof.
  intros Hne. induction evs as [|[[d pdu] cap] r IH]; intros mgrs tx rx; cbn [session_final]; [reflexivity|].
  destruct cap; rewrite IH; [|reflexivity]. apply lookup_store_other_idx. congruence.
Qed.

Section DecryptorTheorems.
  Variable E : bytes -> bytes -> bytes.
  Hypothesis E_length : forall k b, length (E k b) = 16.

  (** when nothing is tried before (first material, first key) the side condition is void *)
  Lemma session_ok_first key ks2 mat : forall evs mgrs tx rx,
    capture_ok E tx rx evs = true -> session_ok E [] key ks2 [] mat mgrs tx rx evs.
  Proof.
    induction evs as [|[[d pdu] cap] r IH]; intros mgrs tx rx H; cbn [session_ok capture_ok] in *; [exact I|].
    destruct (encrypt E tx pdu d); [|discriminate]. destruct cap.
    - apply andb_true_iff in H as [_ H]. split; [split; constructor|]. apply IH. exact H.
    - apply IH. exact H.
  Qed.

  (** the single session, one key, one material, empty cache *)
  Lemma decryptor_recovers_plaintext key mat st0 evs :
    mk_manager E key mat = Ok st0 ->
    pdus_ok evs -> capture_ok E st0 st0 evs = true ->
    snd (attempt_all E {| keys := [key]; mats := [mat]; managers := [] |} (capture E st0 evs))
    = captured_plain evs.
  Proof.
    intros Hst Hp Hok.
    pose proof (session_recovered E E_length [] key [] [] mat [] evs st0 st0 []) as R.
    cbn [app length] in R. rewrite R; try assumption; try reflexivity; try (intros d; lia).
    all: try (apply session_ok_first; exact Hok); try (unfold eff; cbn [lookup length]; exact Hst).
  Qed.

  (** an empty PDU (LLID 1, length 0) is never decrypted and touches nothing *)
  Lemma attempt_empty_pdu ds h rest :
    mats ds <> [] -> keys ds <> [] -> N.land h 3 = 1%N ->
    attempt E ds (h :: 0%N :: rest) = (ds, Ok None).
  Proof.
    intros Hm Hks Hl. unfold attempt. destruct (mats ds); [contradiction|]. destruct (keys ds); [contradiction|].
    cbn [nth]. rewrite Hl. reflexivity.
  Qed.

  (** several sessions in one capture, per PDU, from an arbitrary decryptor state *)
  Lemma decryptor_multi_session_pdu (ds : dstate) ms1 mat ms2 ks1 key ks2 tx rx d h l rest c :
    mats ds = ms1 ++ mat :: ms2 -> keys ds = ks1 ++ key :: ks2 ->
    match lookup key (N.of_nat (length ms1)) (managers ds) with Some m => Ok m | None => mk_manager E key mat end = Ok rx ->
    sk tx = sk rx -> iv tx = iv rx -> (cnt rx d <= cnt tx d)%N ->
    encrypt E tx (h :: l :: rest) d = Ok c ->
    let a := air_pdu c in
    let gap := N.to_nat (cnt tx d - cnt rx d) in
    gap < 2 -> rejects_from E rx d (cnt rx d) gap a = true ->
    match d with M2S => true | S2M => rejects_from E rx M2S (cnt rx M2S) 2 a end = true ->
    Forall (fun im => Forall (combo_rejects E (managers ds) a (fst im) (snd im)) (keys ds)) (indexed 0 ms1) ->
    Forall (combo_rejects E (managers ds) a (N.of_nat (length ms1)) mat) ks1 ->
    attempt E ds a
    = ({| keys := keys ds; mats := mats ds;
          managers := store key (N.of_nat (length ms1)) (incr (set_cnt rx d (cnt tx d)) d) (managers ds) |},
       Ok (Some (h :: l :: rest))).
  Proof.
    intros Hm Hk Heff Hsk Hiv Hle He a gap Hgap Hrej Hcross Hms Hks.
    eapply attempt_material_list; try eassumption.
    - rewrite encrypt_shape in He. injection He as <-. unfold a, air_pdu. cbn [nth].
      replace (N.eqb (l + 4) 0) with false by (symmetry; apply N.eqb_neq; lia). reflexivity.
    - eapply try_key_session; eassumption.
  Qed.

  (** ** whole captures made of several successive sessions *)
  Record sess := { s_ks1 : list bytes; s_key : bytes; s_ks2 : list bytes;
                   s_ms1 : list material; s_mat : material; s_ms2 : list material;
                   s_st0 : mgr; s_evs : list event }.

  (** the session's key and material sit in the decryptor's lists, its capture is well formed *)
  Definition sess_wf (ks : list bytes) (ms : list material) (s : sess) : Prop :=
    ks = s_ks1 s ++ s_key s :: s_ks2 s /\ ms = s_ms1 s ++ s_mat s :: s_ms2 s /\
    mk_manager E (s_key s) (s_mat s) = Ok (s_st0 s) /\ pdus_ok (s_evs s) /\
    capture_ok E (s_st0 s) (s_st0 s) (s_evs s) = true.

  Definition sess_idx (s : sess) : N := N.of_nat (length (s_ms1 s)).

  Definition sess_final (mgrs : list ((bytes * N) * mgr)) (s : sess) :=
    session_final (s_key s) (s_ms1 s) mgrs (s_st0 s) (s_st0 s) (s_evs s).

  (** side condition along the capture: each session starts with no manager cached for its
      (key, material) and its PDUs are rejected by the combinations tried before (MAC condition) *)
  Fixpoint sessions_ok (mgrs : list ((bytes * N) * mgr)) (l : list sess) : Prop :=
    match l with
    | [] => True
    | s :: r => lookup (s_key s) (sess_idx s) mgrs = None /\
                session_ok E (s_ks1 s) (s_key s) (s_ks2 s) (s_ms1 s) (s_mat s) mgrs (s_st0 s) (s_st0 s) (s_evs s) /\
                sessions_ok (sess_final mgrs s) r
    end.

  Lemma decryptor_recovers_sessions ks ms : forall (l : list sess) mgrs,
    Forall (sess_wf ks ms) l -> sessions_ok mgrs l ->
    snd (attempt_all E {| keys := ks; mats := ms; managers := mgrs |}
                     (concat (map (fun s => capture E (s_st0 s) (s_evs s)) l)))
    = concat (map (fun s => captured_plain (s_evs s)) l).
  Proof.
    induction l as [|s r IH]; intros mgrs Hwf Hok; [reflexivity|].
    apply Forall_cons_iff in Hwf as [(Hks & Hms & Hst & Hp & Hc) Hrest].
    destruct Hok as (Hnone & Hso & Hnext).
    cbn [map concat]. rewrite attempt_all_app.
    pose proof (session_recovered E E_length (s_ks1 s) (s_key s) (s_ks2 s) (s_ms1 s) (s_mat s) (s_ms2 s)
                                  (s_evs s) (s_st0 s) (s_st0 s) mgrs) as R.
    rewrite <- Hks, <- Hms in R. rewrite R; try assumption; try reflexivity; try (intros d; lia).
    - fold (sess_final mgrs s).
      specialize (IH (sess_final mgrs s) Hrest Hnext).
      destruct (attempt_all E _ (concat (map (fun s0 => capture E (s_st0 s0) (s_evs s0)) r))) as [ds2 o2].
      cbn [snd] in *. rewrite IH. reflexivity.
    - unfold eff. fold (sess_idx s). rewrite Hnone. exact Hst.
  Qed.

  (** two successive sessions under the SAME key with fresh SKD/IV (reconnection of bonded
      devices): both are recovered. The second session's PDUs are first tried with the first
      session's cached manager, where they must be rejected ([session_ok]: MAC condition). *)
  Lemma same_key_sessions key m1 m2 st1 st2 evs1 evs2 :
    mk_manager E key m1 = Ok st1 -> mk_manager E key m2 = Ok st2 ->
    pdus_ok evs1 -> pdus_ok evs2 ->
    capture_ok E st1 st1 evs1 = true -> capture_ok E st2 st2 evs2 = true ->
    session_ok E [] key [] [m1] m2 (session_final key [] [] st1 st1 evs1) st2 st2 evs2 ->
    snd (attempt_all E {| keys := [key]; mats := [m1; m2]; managers := [] |}
                     (capture E st1 evs1 ++ capture E st2 evs2))
    = captured_plain evs1 ++ captured_plain evs2.
  Proof.
    intros H1 H2 Hp1 Hp2 Hc1 Hc2 Hso.
    pose (sa := {| s_ks1 := []; s_key := key; s_ks2 := []; s_ms1 := []; s_mat := m1; s_ms2 := [m2];
                   s_st0 := st1; s_evs := evs1 |}).
    pose (sb := {| s_ks1 := []; s_key := key; s_ks2 := []; s_ms1 := [m1]; s_mat := m2; s_ms2 := [];
                   s_st0 := st2; s_evs := evs2 |}).
    pose proof (decryptor_recovers_sessions [key] [m1; m2] [sa; sb] []) as R.
    cbn [map concat s_st0 s_evs sa sb] in R. rewrite !app_nil_r in R. apply R.
    - repeat constructor; cbn; assumption.
    - cbn [sessions_ok]. split; [reflexivity|]. split; [apply session_ok_first; exact Hc1|].
      split; [|split; [exact Hso|exact I]].
      unfold sess_final, sess_idx. cbn [s_key s_ms1 s_st0 s_evs sa sb length].
      rewrite lookup_session_final_other; [reflexivity|cbn; lia].
  Qed.
End DecryptorTheorems.

(** * The stack's encryption start procedure *)
Lemma cfind_cupd_same h f l : cfind h (cupd h f l) = option_map f (cfind h l).
Proof.
  induction l as [|[h' c] r IH]; cbn [cfind cupd option_map]; [reflexivity|].
  destruct (N.eqb h h') eqn:Eq; cbn [cfind]; rewrite Eq; [reflexivity|exact IH].
Qed.

Lemma cfind_cupd_other h h' f l : h <> h' -> cfind h' (cupd h f l) = cfind h' l.
Proof.
  intros Hne. induction l as [|[h2 c] r IH]; cbn [cfind cupd]; [reflexivity|].
  destruct (N.eqb h h2) eqn:Eq; cbn [cfind].
  - apply N.eqb_eq in Eq. subst h2.
    replace (N.eqb h' h) with false by (symmetry; apply N.eqb_neq; congruence). reflexivity.
  - rewrite IH. reflexivity.
Qed.

Lemma cfind_cupd_some h h' f l : (if cfind h' (cupd h f l) then true else false) = (if cfind h' l then true else false).
Proof.
  destruct (N.eq_dec h h') as [<-|Hne].
  - rewrite cfind_cupd_same. destruct (cfind h l); reflexivity.
  - rewrite cfind_cupd_other by exact Hne. reflexivity.
Qed.

Lemma cfind_cset_same h c l : cfind h (cset h c l) = Some c.
Proof.
  induction l as [|[h' c'] r IH]; cbn [cfind cset]; [rewrite N.eqb_refl; reflexivity|].
  destruct (N.eqb h h') eqn:Eq; cbn [cfind]; rewrite Eq; [reflexivity|exact IH].
Qed.

Lemma cfind_cset_other h h' c l : h <> h' -> cfind h' (cset h c l) = cfind h' l.
Proof.
  intros Hne. assert (Hf : N.eqb h' h = false) by (apply N.eqb_neq; congruence).
  induction l as [|[h2 c2] r IH]; cbn [cfind cset]; [rewrite Hf; reflexivity|].
  destruct (N.eqb h h2) eqn:Eq; cbn [cfind].
  - apply N.eqb_eq in Eq. subst h2. rewrite Hf. reflexivity.
  - rewrite IH. reflexivity.
Qed.

Lemma cfind_cdel_same h l : cfind h (cdel h l) = None.
Proof.
  unfold cdel. induction l as [|[h' c] r IH]; cbn [filter fst cfind]; [reflexivity|].
  destruct (N.eqb h h') eqn:Eq; cbn [negb]; [exact IH|]. cbn [cfind]. rewrite Eq. exact IH.
Qed.

Lemma cfind_cdel_other h h' l : h <> h' -> cfind h' (cdel h l) = cfind h' l.
Proof.
  intros Hne. unfold cdel. induction l as [|[h2 c] r IH]; cbn [filter fst cfind]; [reflexivity|].
  destruct (N.eqb h h2) eqn:Eq; cbn [negb].
  - apply N.eqb_eq in Eq. subst h2.
    replace (N.eqb h' h) with false by (symmetry; apply N.eqb_neq; congruence). exact IH.
  - cbn [cfind]. rewrite IH. reflexivity.
Qed.

Lemma mfind_mset_same h m l : mfind h (mset h m l) = Some m.
Proof.
  induction l as [|[h' m'] r IH]; cbn [mfind mset]; [rewrite N.eqb_refl; reflexivity|].
  destruct (N.eqb h h') eqn:Eq; cbn [mfind]; rewrite Eq; [reflexivity|exact IH].
Qed.

Lemma mfind_mset_other h h' m l : h <> h' -> mfind h' (mset h m l) = mfind h' l.
Proof.
  intros Hne. assert (Hf : N.eqb h' h = false) by (apply N.eqb_neq; congruence).
  induction l as [|[h2 m2] r IH]; cbn [mfind mset]; [rewrite Hf; reflexivity|].
  destruct (N.eqb h h2) eqn:Eq; cbn [mfind].
  - apply N.eqb_eq in Eq. subst h2. rewrite Hf. reflexivity.
  - rewrite IH. reflexivity.
Qed.

Lemma mfind_mdel_same h l : mfind h (mdel h l) = None.
Proof.
  unfold mdel. induction l as [|[h' c] r IH]; cbn [filter fst mfind]; [reflexivity|].
  destruct (N.eqb h h') eqn:Eq; cbn [negb]; [exact IH|]. cbn [mfind]. rewrite Eq. exact IH.
Qed.

Lemma mfind_mdel_other h h' l : h <> h' -> mfind h' (mdel h l) = mfind h' l.
Proof.
  intros Hne. unfold mdel. induction l as [|[h2 c] r IH]; cbn [filter fst mfind]; [reflexivity|].
  destruct (N.eqb h h2) eqn:Eq; cbn [negb].
  - apply N.eqb_eq in Eq. subst h2.
    replace (N.eqb h' h) with false by (symmetry; apply N.eqb_neq; congruence). exact IH.
  - cbn [mfind]. rewrite IH. reflexivity.
Qed.

Section StackProofs.
  Variable E : bytes -> bytes -> bytes.

  Notation ll_step := (ll_step E false).
  Notation ll_run := (ll_run E false).
  Notation outs_of := (outs_of E false).

  Lemma ll_run_app st a b :
    ll_run st (a ++ b) =
    let '(st1, o1) := ll_run st a in let '(st2, o2) := ll_run st1 b in (st2, o1 ++ o2).
  Proof.
    revert st. induction a as [|ev a IH]; intros st; cbn [app Model.ll_run].
    - destruct (ll_run st b). reflexivity.
    - destruct (ll_step st ev) as [st1 o]. rewrite IH.
      destruct (ll_run st1 a) as [st2 o1]. destruct (ll_run st2 b) as [st3 o2]. reflexivity.
  Qed.

  Lemma mk_manager_wf p : proc_wfb p = true ->
    exists m, mk_manager E (p_key p) (proc_mat p) = Ok m.
  Proof.
    unfold proc_wfb, mk_manager. intros H. apply andb_true_iff in H as [Hl Hr].
    cbn [m_skd m_iv s_skd s_iv proc_mat]. rewrite Hr, Hl. cbn [negb]. eauto.
  Qed.

  (** one procedure, from ANY link-layer state in which its handle is registered: the PHY is
      given exactly this procedure's material, and registration of handles is preserved *)
  Lemma proc_run p st :
    proc_wfb p = true -> registered (p_h p) st = true ->
    exists st', fst (ll_run st (proc_events p)) = st' /\
                set_enc_only (snd (ll_run st (proc_events p))) = [proc_expected E p] /\
                (forall h, registered h st' = registered h st).
  Proof.
    intros Hwf Hreg. destruct (mk_manager_wf p Hwf) as [m Hm].
    unfold registered in Hreg. destruct (cfind (p_h p) (conns st)) as [c|] eqn:Hc; [|discriminate].
    unfold proc_events. destruct (p_central p).
    - cbn [Model.ll_run Model.ll_step with_conns conns llcm mkey].
      rewrite cfind_cupd_same, Hc. cbn [option_map set_key ckey].
      cbn [with_conns conns llcm].
      rewrite cfind_cupd_same, cfind_cupd_same, Hc. cbn [option_map set_key set_proc ckey cskd civ].
      fold (proc_mat p). rewrite Hm. cbn [conns llcm].
      rewrite cfind_cupd_same, cfind_cupd_same, Hc. cbn [option_map set_key set_proc crand cediv].
      rewrite mfind_mset_same.
      eexists. split; [reflexivity|]. split; [reflexivity|].
      intros h. unfold registered. cbn [fst conns].
      rewrite !cfind_cupd_some. reflexivity.
    - cbn [Model.ll_run Model.ll_step with_conns conns llcm mkey].
      rewrite cfind_cupd_same, Hc. cbn [option_map set_key ckey].
      fold (proc_mat p). rewrite Hm.
      eexists. split; [reflexivity|]. split; [reflexivity|].
      intros h. unfold registered. cbn [fst conns].
      rewrite !cfind_cupd_some. reflexivity.
  Qed.

  (** all sequences of procedures run one after the other *)
  Lemma stack_procedures : forall (procs : list proc) (st : lls),
    Forall (fun p => proc_wfb p = true /\ registered (p_h p) st = true) procs ->
    set_enc_only (snd (ll_run st (concat (map proc_events procs)))) = map (proc_expected E) procs.
  Proof.
    induction procs as [|p r IH]; intros st Hall; [reflexivity|].
    inversion Hall as [|? ? [Hwf Hreg] Hrest]; subst.
    cbn [map concat]. rewrite ll_run_app.
    destruct (proc_run p st Hwf Hreg) as (st' & Hst & Hout & Hpres).
    destruct (ll_run st (proc_events p)) as [st1 o1] eqn:R1. cbn [fst snd] in Hst, Hout. subst st1.
    destruct (ll_run st' (concat (map proc_events r))) as [st2 o2] eqn:R2.
    cbn [snd]. unfold set_enc_only in *. rewrite filter_app, Hout. cbn [app]. f_equal.
    specialize (IH st'). rewrite R2 in IH. cbn [snd] in IH. apply IH.
    eapply Forall_impl; [|exact Hrest]. intros q [Hq1 Hq2]. split; [exact Hq1|]. rewrite Hpres. exact Hq2.
  Qed.

  (** ** what happens on one handle depends only on the events of that handle *)
  Definition agree (h : N) (st st' : lls) : Prop :=
    cfind h (conns st) = cfind h (conns st') /\ mfind h (llcm st) = mfind h (llcm st').

  Lemma agree_refl h st : agree h st st.
  Proof. split; reflexivity. Qed.

  Lemma agree_trans_l h a b c : agree h a b -> agree h a c -> agree h c b.
  Proof. intros [H1 H2] [H3 H4]. split; congruence. Qed.

  Ltac break_match :=
    match goal with
    | |- context [match ?x with _ => _ end] => destruct x eqn:?
    end.

  Lemma step_same_handle h st st' ev :
    agree h st st' -> ev_handle ev = h ->
    snd (ll_step st ev) = snd (ll_step st' ev) /\ agree h (fst (ll_step st ev)) (fst (ll_step st' ev)).
  Proof.
    intros [Hc Hm] Hh. unfold agree.
    destruct ev; cbn [ev_handle] in Hh; subst h0; cbn [Model.ll_step mkey]; rewrite ?Hc, ?Hm;
      repeat break_match; cbn [fst snd with_conns conns llcm];
      rewrite ?cfind_cupd_same, ?cfind_cset_same, ?cfind_cdel_same, ?mfind_mset_same, ?mfind_mdel_same, ?Hc, ?Hm;
      repeat split; try reflexivity; try congruence.
  Qed.

  Lemma step_other_handle h st ev : ev_handle ev <> h -> agree h st (fst (ll_step st ev)).
  Proof.
    intros Hne. unfold agree.
    destruct ev; cbn [ev_handle] in Hne; cbn [Model.ll_step mkey];
      repeat break_match; cbn [fst snd with_conns conns llcm];
      rewrite ?cfind_cupd_other, ?cfind_cset_other, ?cfind_cdel_other, ?mfind_mset_other, ?mfind_mdel_other by exact Hne;
      split; reflexivity.
  Qed.

  Lemma handle_independence h : forall evs st st',
    agree h st st' -> outs_of h st evs = snd (ll_run st' (on_handle h evs)).
  Proof.
    induction evs as [|ev r IH]; intros st st' Ha; [reflexivity|].
    cbn [Model.outs_of on_handle filter].
    destruct (ll_step st ev) as [st1 o] eqn:S1.
    destruct (N.eqb (ev_handle ev) h) eqn:Eq.
    - apply N.eqb_eq in Eq.
      destruct (step_same_handle h st st' ev Ha Eq) as [Ho Hag]. rewrite S1 in Ho, Hag. cbn [fst snd] in Ho, Hag.
      cbn [Model.ll_run]. destruct (ll_step st' ev) as [st1' o'] eqn:S2. cbn [fst snd] in Ho, Hag. subst o'.
      fold (on_handle h r). rewrite (IH st1 st1' Hag).
      destruct (ll_run st1' (on_handle h r)). reflexivity.
    - apply N.eqb_neq in Eq. fold (on_handle h r). apply IH.
      pose proof (step_other_handle h st ev Eq) as H1. rewrite S1 in H1. cbn [fst] in H1.
      eapply agree_trans_l; [exact Ha|exact H1].
  Qed.

  Lemma handle_independence_same h evs st : outs_of h st evs = snd (ll_run st (on_handle h evs)).
  Proof. apply handle_independence. apply agree_refl. Qed.

  (** ARBITRARY interleavings: whatever events of other handles (procedures, registrations,
      disconnections, stray PDUs) are interleaved in whatever order, if the events of handle [h]
      are the procedures [procs] run on it, the PHY is given, for [h], exactly their material *)
  Lemma stack_interleavings h (procs : list proc) (evs : list levent) (st : lls) :
    registered h st = true ->
    Forall (fun p => proc_wfb p = true /\ p_h p = h) procs ->
    on_handle h evs = concat (map proc_events procs) ->
    set_enc_only (outs_of h st evs) = map (proc_expected E) procs.
  Proof.
    intros Hreg Hall Hev. rewrite (handle_independence h evs st st (agree_refl h st)), Hev.
    apply stack_procedures. eapply Forall_impl; [|exact Hall].
    intros p [Hw Hh]. split; [exact Hw|]. rewrite Hh. exact Hreg.
  Qed.

  (** a disconnection drops the manager: a reconnection reusing the handle cannot be given the
      material of the previous connection *)
  Lemma no_manager_after_disconnect h st :
    snd (ll_run st [EDisc h; EConn h; EStartEncReq h]) = [LNone; LNone; LRaise AttributeError].
  Proof.
    cbn [Model.ll_run Model.ll_step with_conns conns llcm mkey].
    rewrite cfind_cset_same, mfind_mdel_same. reflexivity.
  Qed.

  (** both sides of a procedure hand the same material to their PHY *)
  Lemma stack_both_roles p q st st' :
    proc_wfb p = true -> registered (p_h p) st = true -> registered (p_h q) st' = true ->
    p_central p = true -> p_central q = false ->
    p_h q = p_h p -> p_key q = p_key p -> p_rand q = p_rand p -> p_ediv q = p_ediv p ->
    p_skdm q = p_skdm p -> p_ivm q = p_ivm p -> p_skds q = p_skds p -> p_ivs q = p_ivs p ->
    set_enc_only (snd (ll_run st (proc_events p))) = set_enc_only (snd (ll_run st' (proc_events q))).
  Proof.
    intros Hwf Hr Hr' _ _ Hh Hk H1 H2 H3 H4 H5 H6.
    assert (Hwfq : proc_wfb q = true).
    { unfold proc_wfb in *. rewrite Hk, H3, H4, H5, H6. exact Hwf. }
    destruct (proc_run p st Hwf Hr) as (_ & _ & -> & _).
    destruct (proc_run q st' Hwfq Hr') as (_ & _ & -> & _).
    unfold proc_expected, proc_mat. rewrite Hh, Hk, H1, H2, H3, H4, H5, H6. reflexivity.
  Qed.

  (** the concrete interleaving of two central procedures on different handles *)
  Lemma stack_interleaved st p q :
    proc_wfb p = true -> proc_wfb q = true -> registered (p_h p) st = true -> registered (p_h q) st = true ->
    p_h p <> p_h q ->
    set_enc_only (snd (ll_run st (interleaved p q))) = [proc_expected E p; proc_expected E q].
  Proof.
    intros Hwp Hwq Hrp Hrq Hne.
    assert (Hne' : p_h q <> p_h p) by congruence.
    destruct (mk_manager_wf p Hwp) as [mp Hmp]. destruct (mk_manager_wf q Hwq) as [mq Hmq].
    unfold registered in Hrp, Hrq.
    destruct (cfind (p_h p) (conns st)) as [cp|] eqn:Hcp; [|discriminate].
    destruct (cfind (p_h q) (conns st)) as [cq|] eqn:Hcq; [|discriminate].
    unfold interleaved.
    cbn [Model.ll_run Model.ll_step with_conns conns llcm mkey].
    repeat (rewrite ?cfind_cupd_same, ?(cfind_cupd_other _ _ _ _ Hne), ?(cfind_cupd_other _ _ _ _ Hne'), ?Hcp, ?Hcq;
            cbn [option_map set_key set_proc ckey cskd civ crand cediv with_conns conns llcm]).
    fold (proc_mat p). rewrite Hmp. cbn [conns llcm].
    repeat (rewrite ?cfind_cupd_same, ?(cfind_cupd_other _ _ _ _ Hne), ?(cfind_cupd_other _ _ _ _ Hne'), ?Hcp, ?Hcq;
            cbn [option_map set_key set_proc ckey cskd civ crand cediv with_conns conns llcm]).
    fold (proc_mat q). rewrite Hmq. cbn [conns llcm].
    repeat (rewrite ?cfind_cupd_same, ?(cfind_cupd_other _ _ _ _ Hne), ?(cfind_cupd_other _ _ _ _ Hne'), ?Hcp, ?Hcq;
            cbn [option_map set_key set_proc ckey cskd civ crand cediv with_conns conns llcm]).
    rewrite (mfind_mset_other _ _ _ _ Hne'), mfind_mset_same. cbn [conns llcm].
    repeat (rewrite ?cfind_cupd_same, ?(cfind_cupd_other _ _ _ _ Hne), ?(cfind_cupd_other _ _ _ _ Hne'), ?Hcp, ?Hcq;
            cbn [option_map set_key set_proc ckey cskd civ crand cediv with_conns conns llcm]).
    rewrite mfind_mset_same.
    reflexivity.
  Qed.
End StackProofs.

Lemma stack_interleaved_statement_holds : stack_interleaved_statement_for false.
Proof. intros E _ st p q. apply stack_interleaved. Qed.

(** the behaviour before the repair (one manager attribute shared by all handles) refutes it:
    handle 1 was given the material of handle 2 *)
Lemma stack_shared_manager_refuted : ~ stack_interleaved_statement_for true.
Proof.
  intros H.
  specialize (H aes128_enc aes128_enc_length
                {| conns := [(1%N, cstate0); (2%N, cstate0)]; llcm := [] |}
                {| p_central := true; p_h := 1; p_key := fips197_B_key; p_rand := 0; p_ediv := 0;
                   p_skdm := 11; p_ivm := 22; p_skds := 33; p_ivs := 44 |}
                {| p_central := true; p_h := 2; p_key := fips197_C1_key; p_rand := 5; p_ediv := 6;
                   p_skdm := 111; p_ivm := 222; p_skds := 333; p_ivs := 444 |}
                eq_refl eq_refl eq_refl eq_refl).
  assert (Hne : 1%N <> 2%N) by discriminate.
  specialize (H Hne). vm_compute in H. discriminate.
Qed.


(** * "any protected-bit change fails, for every E" is false: the constant block function *)
Lemma tamper_always_fails_refuted : ~ tamper_always_fails_statement.
Proof.
  intros H.
  destruct (H (fun _ _ => zeros 16) (fun _ _ => eq_refl)
              {| sk := []; iv := []; mcnt := 0; scnt := 0 |} [2; 1; 5]%N M2S
              [2; 1; 5; 0; 0; 0; 0]%N [2; 1; 6; 0; 0; 0; 0]%N) as [q Hq].
  - cbn. lia.
  - vm_compute. reflexivity.
  - reflexivity.
  - vm_compute. discriminate.
  - vm_compute in Hq. discriminate.
Qed.
