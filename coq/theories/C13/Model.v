(** C13 — BLE link-layer encryption: executable model of
    whad/ble/crypto.py  LinkLayerCryptoManager (generate_nonce / encrypt / decrypt with the
    error_tolerance retry loop and counter restore), the session key derivation and
    LinkLayerDecryptor.attempt_to_decrypt, transcribed branch by branch.
    AES enters only as the Section variable [E] (key -> block -> block); [E := aes128_enc]
    for evaluation (section "evaluation" at the end). Definitions only. *)
From Coq Require Import List NArith ZArith Arith Bool Lia ZifyBool ZifyN ZifyNat.
From Whad Require Import Lib.Bytes Lib.Xor Lib.Aes Lib.Ccm.
Import ListNotations.

(** Python exceptions are values *)
Inductive exn := IndexError | UnboundLocalError | ValueError | StructError | MissingCryptographicMaterial | AttributeError.
Inductive outcome (A : Type) : Type := Ok (a : A) | Raise (e : exn).
Arguments Ok {A} a.
Arguments Raise {A} e.

(** [direction == BleDirection.MASTER_TO_SLAVE] or anything else *)
Inductive dir := M2S | S2M.

Definition dir_eqb (a b : dir) : bool :=
  match a, b with M2S, M2S => true | S2M, S2M => true | _, _ => false end.

(** LinkLayerCryptoManager attributes that matter: session_key, iv, master_cnt, slave_cnt *)
Record mgr := { sk : bytes; iv : bytes; mcnt : N; scnt : N }.

Definition cnt (st : mgr) (d : dir) : N := match d with M2S => mcnt st | S2M => scnt st end.

Definition set_cnt (st : mgr) (d : dir) (v : N) : mgr :=
  match d with
  | M2S => {| sk := sk st; iv := iv st; mcnt := v; scnt := scnt st |}
  | S2M => {| sk := sk st; iv := iv st; mcnt := mcnt st; scnt := v |}
  end.

(** increment_master_counter / increment_slave_counter, and [self.x_cnt += 1] in decrypt *)
Definition incr (st : mgr) (d : dir) : mgr := set_cnt st d (cnt st d + 1).

(** [b"\x00" if direction == MASTER_TO_SLAVE else b"\x80"] — as written in the code *)
Definition dir_byte (d : dir) : N := match d with M2S => 0%N | S2M => 128%N end.

Definition two39 : N := 549755813888%N.
Definition two32 : N := 4294967296%N.

(** generate_nonce: [pack("<Q", counter & 0x7fffffffff)[:5]], direction bit ORed into the
    fifth byte (which is < 128, so OR is addition), then the 8-byte IV. *)
Definition nonce_of (c : N) (d : dir) (ivb : bytes) : bytes :=
  let c39 := N.modulo c two39 in
  le32 (N.modulo c39 two32) ++ [(N.div c39 two32 + dir_byte d)%N] ++ ivb.

Definition generate_nonce (st : mgr) (d : dir) : bytes := nonce_of (cnt st d) d (iv st).

(** [bytes([payload[0] & 0xe3])] : NESN, SN, MD are masked out of the authenticated header *)
Definition header_mask : N := 227%N.
Definition masked_header (h : N) : bytes := [N.land h header_mask].

(** Python [payload[2:-4]] and [payload[-4:]] (clamping slices) *)
Definition body_of (payload : bytes) : bytes := slice 2 (length payload - 4) payload.
Definition mic_of (payload : bytes) : bytes := skipn (length payload - 4) payload.

(** struct.pack range checks of __init__ *)
Definition two64 : N := 18446744073709551616%N.

Record material := { m_skd : N; m_iv : N; s_skd : N; s_iv : N }.

Section C13.
  Variable E : bytes -> bytes -> bytes.      (* AES-128: key -> 16-byte block -> 16-byte block *)

  (** [e(key, plaintext)] = AES-ECB of one block *)
  Definition e_fn (key plaintext : bytes) : bytes := E key plaintext.

  (** LinkLayerCryptoManager.__init__ : skd = pack(">Q", slave_skd) + pack(">Q", master_skd),
      iv = pack("<L", master_iv) + pack("<L", slave_iv), session_key = e(ltk, skd).
      (AES.new raises ValueError for a key that is not 16/24/32 bytes; 24/32-byte LTKs are
      outside the model.) *)
  Definition session_skd (mat : material) : bytes := be_bytes 8 (s_skd mat) ++ be_bytes 8 (m_skd mat).
  Definition session_iv (mat : material) : bytes := le32 (m_iv mat) ++ le32 (s_iv mat).

  Definition mk_manager (ltk : bytes) (mat : material) : outcome mgr :=
    if negb ((m_skd mat <? two64) && (m_iv mat <? two32) && (s_skd mat <? two64) && (s_iv mat <? two32))%N
    then Raise StructError
    else if negb (Nat.eqb (length ltk) 16) then Raise ValueError
    else Ok {| sk := e_fn ltk (session_skd mat); iv := session_iv mat; mcnt := 0; scnt := 0 |}.

  (** encrypt(payload, direction) *)
  Definition encrypt (st : mgr) (payload : bytes) (d : dir) : outcome bytes :=
    match payload with
    | [] => Raise IndexError
    | h :: _ =>
      let header := masked_header h in
      let nonce := generate_nonce st d in
      let plaintext := skipn 2 payload in
      let '(ct, mic) := ccm_encrypt E 4 2 (sk st) nonce header plaintext in
      Ok (firstn 2 payload ++ ct ++ mic)
    end.

  (** the [for _ in range(error_tolerance)] loop of decrypt *)
  Inductive loop_res :=
  | LSuccess (st : mgr) (pt : bytes)            (* return inside the loop *)
  | LFail (st : mgr) (last : option bytes).     (* loop ran out; [last] = plaintext variable *)

  Fixpoint dec_loop (n : nat) (st : mgr) (d : dir) (header ct mic : bytes) (last : option bytes) : loop_res :=
    match n with
    | O => LFail st last
    | S n' =>
      let nonce := generate_nonce st d in
      match ccm_decrypt E 4 2 (sk st) nonce header ct mic with
      | Some pt => LSuccess st pt
      | None => dec_loop n' (incr st d) d header ct mic (Some (ccm_keystream_xor E 2 (sk st) nonce ct))
      end
    end.

  (** decrypt(payload, direction, error_tolerance) : new manager state and the returned
      (payload[:2] + plaintext, success) or the exception *)
  Definition decrypt (st : mgr) (payload : bytes) (d : dir) (tol : nat) : mgr * outcome (bytes * bool) :=
    match payload with
    | [] => (st, Raise IndexError)
    | h :: _ =>
      let header := masked_header h in
      let ct := body_of payload in
      let mic := mic_of payload in
      let old_counter := cnt st d in
      match dec_loop tol st d header ct mic None with
      | LSuccess st' pt => (st', Ok (firstn 2 payload ++ pt, true))
      | LFail st' last =>
        let st'' := set_cnt st' d old_counter in
        match last with
        | Some pt => (st'', Ok (firstn 2 payload ++ pt, false))
        | None => (st'', Raise UnboundLocalError)
        end
      end
    end.

  (** ** LinkLayerDecryptor *)
  (** [self.managers] is a dict keyed by (key, index of the session material) *)
  Record dstate := { keys : list bytes; mats : list material; managers : list ((bytes * N) * mgr) }.

  Fixpoint lookup (k : bytes) (i : N) (l : list ((bytes * N) * mgr)) : option mgr :=
    match l with
    | [] => None
    | ((k', i'), m) :: r => if (bytes_eqb k k' && N.eqb i i')%bool then Some m else lookup k i r
    end.

  (** [self.managers[(key, i)] = manager] (dict: replace in place, else append) *)
  Fixpoint store (k : bytes) (i : N) (m : mgr) (l : list ((bytes * N) * mgr)) : list ((bytes * N) * mgr) :=
    match l with
    | [] => [((k, i), m)]
    | ((k', i'), m') :: r => if (bytes_eqb k k' && N.eqb i i')%bool then ((k', i'), m) :: r
                             else ((k', i'), m') :: store k i m r
    end.

  (** the decrypted packet as bytes: BTLE_DATA(payload[:2] + plaintext) with len -= 4 *)
  Definition strip_mic_len (p : bytes) : bytes :=
    match p with
    | h :: l :: r => h :: (l - 4)%N :: r
    | _ => p
    end.

  (** body of the two nested loops for one (material of index [i], key) *)
  Definition try_key (mgrs : list ((bytes * N) * mgr)) (key : bytes) (i : N) (mat : material) (pdu : bytes)
    : list ((bytes * N) * mgr) * outcome (option bytes) :=
    let cached := lookup key i mgrs in
    match (match cached with Some m => Ok m | None => mk_manager key mat end) with
    | Raise e => (mgrs, Raise e)
    | Ok m =>
      let keep st := match cached with Some _ => store key i st mgrs | None => mgrs end in
      match decrypt m pdu M2S 2 with
      | (st1, Raise e) => (keep st1, Raise e)
      | (st1, Ok (p, true)) => (store key i (incr st1 M2S) mgrs, Ok (Some (strip_mic_len p)))
      | (st1, Ok (_, false)) =>
        match decrypt st1 pdu S2M 2 with
        | (st2, Raise e) => (keep st2, Raise e)
        | (st2, Ok (p, true)) => (store key i (incr st2 S2M) mgrs, Ok (Some (strip_mic_len p)))
        | (st2, Ok (_, false)) => (keep st2, Ok None)
        end
      end
    end.

  Fixpoint try_keys (mgrs : list ((bytes * N) * mgr)) (ks : list bytes) (i : N) (mat : material) (pdu : bytes)
    : list ((bytes * N) * mgr) * outcome (option bytes) :=
    match ks with
    | [] => (mgrs, Ok None)
    | k :: r =>
      match try_key mgrs k i mat pdu with
      | (mgrs', Ok None) => try_keys mgrs' r i mat pdu
      | res => res
      end
    end.

  (** [for i, skd in enumerate(self.master_skd)] *)
  Fixpoint try_mats (mgrs : list ((bytes * N) * mgr)) (ks : list bytes) (i : N) (ms : list material) (pdu : bytes)
    : list ((bytes * N) * mgr) * outcome (option bytes) :=
    match ms with
    | [] => (mgrs, Ok None)
    | mat :: r =>
      match try_keys mgrs ks i mat pdu with
      | (mgrs', Ok None) => try_mats mgrs' ks (N.succ i) r pdu
      | res => res
      end
    end.

  (** attempt_to_decrypt(packet) on the data PDU [pdu] = bytes(packet)[4:-3]
      (header byte, length byte, payload); result = bytes of the decrypted packet or None *)
  Definition attempt (ds : dstate) (pdu : bytes) : dstate * outcome (option bytes) :=
    match mats ds, keys ds with
    | [], _ | _, [] => (ds, Raise MissingCryptographicMaterial)
    | _, _ =>
      if (N.eqb (nth 1 pdu 0%N) 0 && N.eqb (N.land (nth 0 pdu 0%N) 3) 1)%bool then (ds, Ok None)
      else
        let '(mgrs', r) := try_mats (managers ds) (keys ds) 0%N (mats ds) pdu in
        ({| keys := keys ds; mats := mats ds; managers := mgrs' |}, r)
    end.

  Fixpoint attempt_all (ds : dstate) (pdus : list bytes) : dstate * list (outcome (option bytes)) :=
    match pdus with
    | [] => (ds, [])
    | p :: r => let '(ds1, o) := attempt ds p in
                let '(ds2, os) := attempt_all ds1 r in (ds2, o :: os)
    end.

  (** ** Specification-side notions used by the theorems *)

  (** MIC recomputed over (key, IV, direction, counter, masked header, payload) *)
  Definition mic_for (st : mgr) (d : dir) (c : N) (h : N) (pt : bytes) : bytes :=
    ccm_tag E 4 2 (sk st) (nonce_of c d (iv st)) (masked_header h) pt.

  (** plaintext the receiver computes when it tries counter [c] *)
  Definition plain_at (st : mgr) (d : dir) (c : N) (ct : bytes) : bytes :=
    ccm_keystream_xor E 2 (sk st) (nonce_of c d (iv st)) ct.

  (** the received MIC is valid for counter [c] *)
  Definition accepts_at (st : mgr) (d : dir) (c : N) (pdu : bytes) : bool :=
    bytes_eqb (mic_of pdu) (mic_for st d c (hd 0%N pdu) (plain_at st d c (body_of pdu))).

  (** no counter in [c, c+k) validates the received MIC *)
  Fixpoint rejects_from (st : mgr) (d : dir) (c : N) (k : nat) (pdu : bytes) : bool :=
    match k with
    | O => true
    | S k' => negb (accepts_at st d c pdu) && rejects_from st d (c + 1) k' pdu
    end.

  (** the first counter among [c, c+k) at which the received MIC is valid *)
  Fixpoint first_accept (st : mgr) (d : dir) (c : N) (k : nat) (pdu : bytes) : option N :=
    match k with
    | O => None
    | S k' => if accepts_at st d c pdu then Some c else first_accept st d (c + 1) k' pdu
    end.

  (** what decrypt computes, written as a specification: try the counters cnt, cnt+1, ...,
      cnt+tol-1 in order; accept at the first one whose recomputed MIC equals the received
      MIC and leave the counter there; otherwise report failure with the counter restored *)
  Definition decrypt_spec_of (st : mgr) (pdu : bytes) (d : dir) (tol : nat) : mgr * outcome (bytes * bool) :=
    match pdu with
    | [] => (st, Raise IndexError)
    | _ =>
      match first_accept st d (cnt st d) tol pdu with
      | Some c => (set_cnt st d c, Ok (firstn 2 pdu ++ plain_at st d c (body_of pdu), true))
      | None =>
        match tol with
        | O => (st, Raise UnboundLocalError)
        | S t => (st, Ok (firstn 2 pdu ++ plain_at st d (cnt st d + N.of_nat t) (body_of pdu), false))
        end
      end
    end.

  (** The CBC-MAC input of a PDU: everything the MIC is computed over besides the key *)
  Definition auth_blocks_of (ivb : bytes) (d : dir) (c : N) (h : N) (pt : bytes) : list bytes :=
    ccm_auth_blocks 4 2 (nonce_of c d ivb) (masked_header h) pt.

  (** *** a connection: two managers with the same material, PDUs with losses *)

  (** event = direction, plaintext PDU (header, length, payload), delivered? *)
  Definition event := (dir * bytes * bool)%type.

  (** The sender encrypts and increments its counter; when delivered the receiver decrypts
      with tolerance [tol] and, on success, increments its counter (the caller's duty, done
      like this in LinkLayerDecryptor). Returns what the receiver obtained for each
      delivered PDU. *)
  Fixpoint run_link (tol : nat) (tx rx : mgr) (evs : list event) : list (outcome (bytes * bool)) :=
    match evs with
    | [] => []
    | (d, pdu, delivered) :: r =>
      match encrypt tx pdu d with
      | Raise e => [Raise e]
      | Ok c =>
        let tx' := incr tx d in
        if delivered then
          match decrypt rx c d tol with
          | (rx', Ok (p, true)) => Ok (p, true) :: run_link tol tx' (incr rx' d) r
          | (rx', o) => o :: run_link tol tx' rx' r
          end
        else run_link tol tx' rx r
      end
    end.

  Fixpoint delivered_pdus (evs : list event) : list (outcome (bytes * bool)) :=
    match evs with
    | [] => []
    | (_, pdu, true) :: r => Ok (pdu, true) :: delivered_pdus r
    | (_, _, false) :: r => delivered_pdus r
    end.

  (** Side condition of the conditional theorems, computed along the run: every delivered
      PDU is rejected at the counters the receiver tries before the right one (a MIC
      collision there would be accepted — no proof can exclude it for a 32-bit MAC),
      and never more than [tol - 1] consecutive PDUs of one direction are lost. *)
  Fixpoint link_ok (tol : nat) (tx rx : mgr) (evs : list event) : bool :=
    match evs with
    | [] => true
    | (d, pdu, delivered) :: r =>
      match encrypt tx pdu d with
      | Raise _ => false
      | Ok c =>
        let tx' := incr tx d in
        if delivered then
          let gap := N.to_nat (cnt tx d - cnt rx d) in
          (gap <? tol)%nat && rejects_from rx d (cnt rx d) gap c
          && link_ok tol tx' (incr (set_cnt rx d (cnt tx d)) d) r
        else link_ok tol tx' rx r
      end
    end.

  (** *** a captured connection seen by the passive decryptor *)

  (** on-air PDU of a plaintext PDU: length byte + 4, payload encrypted, MIC appended *)
  Definition air_pdu (c : bytes) : bytes :=
    match c with
    | h :: l :: r => h :: (l + 4)%N :: r
    | _ => c
    end.

  (** the connection's sender: both directions from one manager state (counters per direction) *)
  Fixpoint capture (tx : mgr) (evs : list event) : list bytes :=
    match evs with
    | [] => []
    | (d, pdu, captured) :: r =>
      match encrypt tx pdu d with
      | Raise _ => []
      | Ok c => if captured then air_pdu c :: capture (incr tx d) r else capture (incr tx d) r
      end
    end.

  (** side condition for the decryptor, computed along the capture: a PDU of direction S2M is
      rejected by the two M2S attempts made first, early counters are rejected, fewer than
      2 consecutive PDUs of a direction were missed by the sniffer *)
  Fixpoint capture_ok (tx rx : mgr) (evs : list event) : bool :=
    match evs with
    | [] => true
    | (d, pdu, captured) :: r =>
      match encrypt tx pdu d with
      | Raise _ => false
      | Ok c =>
        let tx' := incr tx d in
        if captured then
          let a := air_pdu c in
          let gap := N.to_nat (cnt tx d - cnt rx d) in
          (gap <? 2)%nat && rejects_from rx d (cnt rx d) gap a
          && (match d with M2S => true | S2M => rejects_from rx M2S (cnt rx M2S) 2 a end)
          && capture_ok tx' (incr (set_cnt rx d (cnt tx d)) d) r
        else capture_ok tx' rx r
      end
    end.

  Fixpoint captured_plain (evs : list event) : list (outcome (option bytes)) :=
    match evs with
    | [] => []
    | (_, pdu, true) :: r => Ok (Some pdu) :: captured_plain r
    | (_, _, false) :: r => captured_plain r
    end.

  (** a well-formed plaintext data PDU: header, length byte = payload length <= 251,
      not an empty PDU (those are never encrypted) *)
  Definition wf_pdu (pdu : bytes) : bool :=
    match pdu with
    | h :: l :: r => N.eqb l (N.of_nat (length r)) && (length r <=? 251)%nat && wf_bytes pdu
    | _ => false
    end.
End C13.

(** * The BLE stack's link-layer manager (whad/ble/stack/llm/__init__.py): encryption start
    procedure, central side (start_encryption, on_enc_rsp, on_start_enc_req) and peripheral side
    (on_enc_req), connection registration and on_disconnect. Observable: the arguments of
    [set_encryption] handed to the PHY. The crypto manager is kept PER CONNECTION HANDLE
    ([self.__llcm[conn_handle] = ...], read with [.get(conn_handle)], popped on disconnect).
    [shared = true] is the behaviour before the repair (one attribute for all handles, never
    dropped), kept only for [stack_shared_manager_refuted]. *)

(** per-connection entries of LinkLayerState.connections used by the procedure *)
Record cstate := { ckey : option bytes; cskd : option N; civ : option N; crand : option N; cediv : option N }.

Definition cstate0 : cstate := {| ckey := None; cskd := None; civ := None; crand := None; cediv := None |}.

(** connections (dict by handle) and the crypto managers (dict by handle: LTK and material) *)
Record lls := { conns : list (N * cstate); llcm : list (N * (bytes * material)) }.

Fixpoint cfind (h : N) (l : list (N * cstate)) : option cstate :=
  match l with
  | [] => None
  | (h', c) :: r => if N.eqb h h' then Some c else cfind h r
  end.

(** [if conn_handle in self.connections: self.connections[conn_handle][...] = ...] *)
Fixpoint cupd (h : N) (f : cstate -> cstate) (l : list (N * cstate)) : list (N * cstate) :=
  match l with
  | [] => []
  | (h', c) :: r => if N.eqb h h' then (h', f c) :: r else (h', c) :: cupd h f r
  end.

(** [self.connections[conn_handle] = {...}] (register_connection) and [del self.connections[h]] *)
Fixpoint cset (h : N) (c : cstate) (l : list (N * cstate)) : list (N * cstate) :=
  match l with
  | [] => [(h, c)]
  | (h', c') :: r => if N.eqb h h' then (h', c) :: r else (h', c') :: cset h c r
  end.

Definition cdel (h : N) (l : list (N * cstate)) : list (N * cstate) :=
  filter (fun x => negb (N.eqb h (fst x))) l.

(** the managers dict *)
Fixpoint mfind (h : N) (l : list (N * (bytes * material))) : option (bytes * material) :=
  match l with
  | [] => None
  | (h', m) :: r => if N.eqb h h' then Some m else mfind h r
  end.

Fixpoint mset (h : N) (m : bytes * material) (l : list (N * (bytes * material))) : list (N * (bytes * material)) :=
  match l with
  | [] => [(h, m)]
  | (h', m') :: r => if N.eqb h h' then (h', m) :: r else (h', m') :: mset h m r
  end.

Definition mdel (h : N) (l : list (N * (bytes * material))) : list (N * (bytes * material)) :=
  filter (fun x => negb (N.eqb h (fst x))) l.

Definition set_key (k : option bytes) (c : cstate) : cstate :=
  {| ckey := k; cskd := cskd c; civ := civ c; crand := crand c; cediv := cediv c |}.
Definition set_proc (skd iv rand ediv : N) (c : cstate) : cstate :=
  {| ckey := ckey c; cskd := Some skd; civ := Some iv; crand := Some rand; cediv := Some ediv |}.

Inductive levent :=
| EReg (h : N) (k : option bytes)                 (* state.register_encryption_key (done by SMP) *)
| EStart (h rand ediv skd iv : N)                 (* start_encryption; skd, iv = the two randint draws *)
| EEncRsp (h skds ivs : N)                        (* LL_ENC_RSP received *)
| EStartEncReq (h : N)                            (* LL_START_ENC_REQ received *)
| EEncReq (h rand ediv skdm ivm skd iv : N)       (* LL_ENC_REQ received; skd, iv = the randint draws *)
| EConn (h : N)                                   (* state.register_connection (new connection, maybe a reused handle) *)
| EDisc (h : N).                                  (* on_disconnect *)

Definition ev_handle (ev : levent) : N :=
  match ev with
  | EReg h _ | EStart h _ _ _ _ | EEncRsp h _ _ | EStartEncReq h | EEncReq h _ _ _ _ _ _ | EConn h | EDisc h => h
  end.

Inductive lout :=
| LNone                                           (* nothing handed to the PHY controller *)
| LReject                                         (* LL_REJECT_IND sent *)
| LSetEnc (h : N) (ll_key ll_iv key : bytes) (rand ediv : option N)   (* phy.set_encryption(...) *)
| LRaise (e : exn).

Section Stack.
  Variable E : bytes -> bytes -> bytes.
  Variable shared : bool.       (* false: the code as it is; true: the single attribute of before *)

  (** key under which the manager of handle [h] is kept *)
  Definition mkey (h : N) : N := if shared then 0%N else h.

  Definition with_conns (st : lls) (c : list (N * cstate)) : lls := {| conns := c; llcm := llcm st |}.

  Definition ll_step (st : lls) (ev : levent) : lls * lout :=
    match ev with
    | EReg h k => (with_conns st (cupd h (set_key k) (conns st)), LNone)
    | EConn h => (with_conns st (cset h cstate0 (conns st)), LNone)
    | EDisc h => ({| conns := cdel h (conns st); llcm := if shared then llcm st else mdel h (llcm st) |}, LNone)
    | EStart h rand ediv skd iv =>
      match cfind h (conns st) with
      | Some c =>
        match ckey c with
        | Some _ => (with_conns st (cupd h (set_proc skd iv rand ediv) (conns st)), LNone)   (* LL_ENC_REQ sent *)
        | None => (st, LReject)
        end
      | None => (st, LReject)
      end
    | EEncRsp h skds ivs =>
      match cfind h (conns st) with
      | None => (st, LNone)                        (* on_ctrl_pdu drops PDUs of unknown handles *)
      | Some c =>
        match ckey c with
        | None => (st, LReject)
        | Some k =>
          match cskd c, civ c with
          | Some skdm, Some ivm =>
            let mat := {| m_skd := skdm; m_iv := ivm; s_skd := skds; s_iv := ivs |} in
            match mk_manager E k mat with
            | Ok _ => ({| conns := conns st; llcm := mset (mkey h) (k, mat) (llcm st) |}, LNone)
            | Raise e => (st, LRaise e)
            end
          | _, _ => (st, LRaise StructError)        (* pack(">Q", None) *)
          end
        end
      end
    | EStartEncReq h =>
      match cfind h (conns st) with
      | None => (st, LNone)
      | Some c =>
        match mfind (mkey h) (llcm st) with
        | None => (st, LRaise AttributeError)      (* self.__llcm.get(conn_handle) is None *)
        | Some (ltk, mat) =>
          (st, LSetEnc h (e_fn E ltk (session_skd mat)) (session_iv mat) ltk (crand c) (cediv c))
        end
      end
    | EEncReq h rand ediv skdm ivm skd iv =>
      match cfind h (conns st) with
      | None => (st, LNone)
      | Some c =>
        match ckey c with
        | None => (st, LReject)
        | Some k =>
          let cs := cupd h (set_proc skd iv rand ediv) (conns st) in
          let mat := {| m_skd := skdm; m_iv := ivm; s_skd := skd; s_iv := iv |} in
          match mk_manager E k mat with
          | Ok _ => ({| conns := cs; llcm := mset (mkey h) (k, mat) (llcm st) |},
                     LSetEnc h (e_fn E k (session_skd mat)) (session_iv mat) k (Some rand) (Some ediv))
          | Raise e => (with_conns st cs, LRaise e)
          end
        end
      end
    end.

  Fixpoint ll_run (st : lls) (evs : list levent) : lls * list lout :=
    match evs with
    | [] => (st, [])
    | ev :: r => let '(st1, o) := ll_step st ev in
                 let '(st2, os) := ll_run st1 r in (st2, o :: os)
    end.

  (** the outputs of the events of handle [h] during a run of ALL events *)
  Fixpoint outs_of (h : N) (st : lls) (evs : list levent) : list lout :=
    match evs with
    | [] => []
    | ev :: r => let '(st1, o) := ll_step st ev in
                 if N.eqb (ev_handle ev) h then o :: outs_of h st1 r else outs_of h st1 r
    end.

  Definition on_handle (h : N) (evs : list levent) : list levent :=
    filter (fun ev => N.eqb (ev_handle ev) h) evs.

  Definition is_set_enc (o : lout) : bool := match o with LSetEnc _ _ _ _ _ _ => true | _ => false end.
  Definition set_enc_only (os : list lout) : list lout := filter is_set_enc os.

  (** one run of the encryption start procedure and the material it is run with *)
  Record proc := { p_central : bool; p_h : N; p_key : bytes;
                   p_rand : N; p_ediv : N; p_skdm : N; p_ivm : N; p_skds : N; p_ivs : N }.

  Definition proc_mat (p : proc) : material :=
    {| m_skd := p_skdm p; m_iv := p_ivm p; s_skd := p_skds p; s_iv := p_ivs p |}.

  Definition proc_events (p : proc) : list levent :=
    if p_central p
    then [EReg (p_h p) (Some (p_key p)); EStart (p_h p) (p_rand p) (p_ediv p) (p_skdm p) (p_ivm p);
          EEncRsp (p_h p) (p_skds p) (p_ivs p); EStartEncReq (p_h p)]
    else [EReg (p_h p) (Some (p_key p));
          EEncReq (p_h p) (p_rand p) (p_ediv p) (p_skdm p) (p_ivm p) (p_skds p) (p_ivs p)].

  (** what the PHY must be given: e(LTK, SKDs || SKDm), IVm || IVs, the LTK, rand, ediv of THIS procedure *)
  Definition proc_expected (p : proc) : lout :=
    LSetEnc (p_h p) (E (p_key p) (session_skd (proc_mat p))) (session_iv (proc_mat p)) (p_key p)
            (Some (p_rand p)) (Some (p_ediv p)).

  Definition proc_wfb (p : proc) : bool :=
    Nat.eqb (length (p_key p)) 16 &&
    ((p_skdm p <? two64) && (p_ivm p <? two32) && (p_skds p <? two64) && (p_ivs p <? two32))%N.

  Definition registered (h : N) (st : lls) : bool :=
    match cfind h (conns st) with Some _ => true | None => false end.

  (** two central procedures whose PDUs interleave (two connections encrypting at the same time) *)
  Definition interleaved (p q : proc) : list levent :=
    [EReg (p_h p) (Some (p_key p)); EReg (p_h q) (Some (p_key q));
     EStart (p_h p) (p_rand p) (p_ediv p) (p_skdm p) (p_ivm p);
     EStart (p_h q) (p_rand q) (p_ediv q) (p_skdm q) (p_ivm q);
     EEncRsp (p_h p) (p_skds p) (p_ivs p); EEncRsp (p_h q) (p_skds q) (p_ivs q);
     EStartEncReq (p_h p); EStartEncReq (p_h q)].
End Stack.

(** "every run of the procedure hands the PHY its own material" for two procedures on different
    handles whose PDUs interleave, as a statement about a link layer with the given [shared] flag *)
Definition stack_interleaved_statement_for (shared : bool) : Prop :=
  forall E, (forall k b, length (E k b) = 16) ->
  forall (st : lls) (p q : proc),
    proc_wfb p = true -> proc_wfb q = true -> registered (p_h p) st = true -> registered (p_h q) st = true ->
    p_h p <> p_h q ->
    set_enc_only (snd (ll_run E shared st (interleaved p q))) = [proc_expected E p; proc_expected E q].

(** * The unconditional tamper statement (refuted in Proofs.v) and non-vacuity data *)
Definition protected_view (c : bytes) : N * bytes := (N.land (hd 0%N c) header_mask, skipn 2 c).

(** "changing any protected bit makes decryption fail", for every block function *)
Definition tamper_always_fails_statement : Prop :=
  forall E, (forall k b, length (E k b) = 16) ->
  forall (st : mgr) (pdu : bytes) (d : dir) (c c' : bytes),
    2 <= length pdu -> encrypt E st pdu d = Ok c ->
    length c' = length c -> protected_view c' <> protected_view c ->
    exists p, decrypt E st c' d 1 = (st, Ok (p, false)).

Definition nv_key : bytes := fips197_B_key.
Definition nv_mat : material := {| m_skd := 1; m_iv := 2; s_skd := 3; s_iv := 4 |}.
Definition nv_evs : list event :=
  [ (M2S, [2; 3; 97; 98; 99]%N, true); (S2M, [6; 1; 7]%N, false); (S2M, [10; 2; 1; 2]%N, true);
    (M2S, [3; 0]%N, false); (M2S, [14; 4; 9; 8; 7; 6]%N, true); (S2M, [1; 1; 0]%N, true) ].

(** * Evaluation with AES-128 — entry points of the correspondence check *)
Local Open Scope N_scope.

Definition exn_code (e : exn) : N :=
  match e with IndexError => 1 | UnboundLocalError => 2 | ValueError => 3 | StructError => 4
             | MissingCryptographicMaterial => 5 | AttributeError => 6 end.

(** canonical observation of one operation: (kind, data, master_cnt, slave_cnt) with
    kind 0 = encrypt returned [data]; 1 = decrypt returned ([data], True);
    2 = decrypt returned ([data], False); 3 = exception with code [data = [code]] *)
Definition obs := (N * bytes * N * N)%type.

Inductive op :=
| OEnc (d : dir) (payload : bytes)
| ODec (d : dir) (tol : nat) (payload : bytes)
| OSet (mc sc : N)                (* update_master_counter / update_slave_counter *)
| OInc (d : dir)                  (* increment_master_counter / increment_slave_counter *)
| ODecLast (d : dir) (tol : nat) (corrupt : option (nat * N)).
  (* decrypt the output of the last encrypt, byte [idx] xored with [mask] *)

Fixpoint xor_at (i : nat) (mask : N) (l : bytes) : bytes :=
  match l with
  | [] => []
  | b :: r => match i with O => N.lxor b mask :: r | S i' => b :: xor_at i' mask r end
  end.

Definition obs_dec (st : mgr) (d : dir) (tol : nat) (p : bytes) : mgr * obs :=
  match decrypt aes128_enc st p d tol with
  | (st', Ok (r, true)) => (st', (1, r, mcnt st', scnt st'))
  | (st', Ok (r, false)) => (st', (2, r, mcnt st', scnt st'))
  | (st', Raise e) => (st', (3, [exn_code e], mcnt st', scnt st'))
  end.

(** state of a case: the manager and the last encrypt output *)
Definition run_op (sl : mgr * bytes) (o : op) : (mgr * bytes) * obs :=
  let '(st, last) := sl in
  match o with
  | OEnc d p =>
    match encrypt aes128_enc st p d with
    | Ok c => ((st, c), (0, c, mcnt st, scnt st))
    | Raise e => ((st, last), (3, [exn_code e], mcnt st, scnt st))
    end
  | ODec d tol p => let '(st', ob) := obs_dec st d tol p in ((st', last), ob)
  | ODecLast d tol corrupt =>
    let p := match corrupt with Some (i, m) => xor_at i m last | None => last end in
    let '(st', ob) := obs_dec st d tol p in ((st', last), ob)
  | OSet mc sc =>
    let st' := {| sk := sk st; iv := iv st; mcnt := mc; scnt := sc |} in ((st', last), (0, [], mc, sc))
  | OInc d => let st' := incr st d in ((st', last), (0, [], mcnt st', scnt st'))
  end.

Fixpoint run_ops (sl : mgr * bytes) (os : list op) : list obs :=
  match os with
  | [] => []
  | o :: r => let '(sl', ob) := run_op sl o in ob :: run_ops sl' r
  end.

Definition obs_eqb (a b : obs) : bool :=
  let '(k1, d1, m1, s1) := a in let '(k2, d2, m2, s2) := b in
  (k1 =? k2) && bytes_eqb d1 d2 && (m1 =? m2) && (s1 =? s2).

Fixpoint obs_list_eqb (a b : list obs) : bool :=
  match a, b with
  | [], [] => true
  | x :: a', y :: b' => obs_eqb x y && obs_list_eqb a' b'
  | _, _ => false
  end.

(** manager case: LTK, (SKDm, IVm, SKDs, IVs), observed session key ++ iv, operations, observations.
    A constructor exception is observed as kind 3 in a single observation. *)
Definition mgr_case := (bytes * (N * N * N * N) * bytes * list op * list obs)%type.

Definition mat_of (q : N * N * N * N) : material :=
  let '(a, b, c, d) := q in {| m_skd := a; m_iv := b; s_skd := c; s_iv := d |}.

Definition check_mgr (c : mgr_case) : bool :=
  let '(ltk, q, skiv, ops, observed) := c in
  match mk_manager aes128_enc ltk (mat_of q) with
  | Raise e => obs_list_eqb [(3, [exn_code e], 0, 0)] observed
  | Ok st => bytes_eqb (sk st ++ iv st) skiv && obs_list_eqb (run_ops (st, []) ops) observed
  end.

(** decryptor case: keys, materials, captured PDUs, observed results (kind 0 = None,
    1 = decrypted packet bytes, 3 = exception), observed (key, material index, master_cnt,
    slave_cnt) of the cached managers at the end *)
Definition dobs := (N * bytes)%type.

Definition dobs_of (o : outcome (option bytes)) : dobs :=
  match o with
  | Ok None => (0, [])
  | Ok (Some p) => (1, p)
  | Raise e => (3, [exn_code e])
  end.

Definition dec_case := (list bytes * list (N * N * N * N) * list bytes * list dobs * list (bytes * N * N * N))%type.

Fixpoint dobs_list_eqb (a b : list dobs) : bool :=
  match a, b with
  | [], [] => true
  | (k1, d1) :: a', (k2, d2) :: b' => (k1 =? k2) && bytes_eqb d1 d2 && dobs_list_eqb a' b'
  | _, _ => false
  end.

Fixpoint mgrs_eqb (a : list ((bytes * N) * mgr)) (b : list (bytes * N * N * N)) : bool :=
  match a, b with
  | [], [] => true
  | ((k1, i1), m) :: a', (k2, i2, mc, sc) :: b' =>
    bytes_eqb k1 k2 && (i1 =? i2) && (mcnt m =? mc) && (scnt m =? sc) && mgrs_eqb a' b'
  | _, _ => false
  end.

Definition check_dec (c : dec_case) : bool :=
  let '(ks, qs, pdus, observed, final) := c in
  let ds0 := {| keys := ks; mats := map mat_of qs; managers := [] |} in
  let '(ds, outs) := attempt_all aes128_enc ds0 pdus in
  dobs_list_eqb (map dobs_of outs) observed && mgrs_eqb (managers ds) final.

(** stack case: registered handles, events, observed output of every event *)
Definition optN_eqb (a b : option N) : bool :=
  match a, b with Some x, Some y => x =? y | None, None => true | _, _ => false end.

Definition lout_eqb (a b : lout) : bool :=
  match a, b with
  | LNone, LNone => true
  | LReject, LReject => true
  | LSetEnc h1 k1 i1 l1 r1 e1, LSetEnc h2 k2 i2 l2 r2 e2 =>
    (h1 =? h2) && bytes_eqb k1 k2 && bytes_eqb i1 i2 && bytes_eqb l1 l2 && optN_eqb r1 r2 && optN_eqb e1 e2
  | LRaise x, LRaise y => exn_code x =? exn_code y
  | _, _ => false
  end.

Fixpoint louts_eqb (a b : list lout) : bool :=
  match a, b with
  | [], [] => true
  | x :: a', y :: b' => lout_eqb x y && louts_eqb a' b'
  | _, _ => false
  end.

Definition stack_case := (list N * list levent * list lout)%type.

Definition check_stack (c : stack_case) : bool :=
  let '(hs, evs, observed) := c in
  let st0 := {| conns := map (fun h => (h, cstate0)) hs; llcm := [] |} in
  louts_eqb (snd (ll_run aes128_enc false st0 evs)) observed.
