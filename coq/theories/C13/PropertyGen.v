(** C13 — tie between the source and the model, as theorems (each closed by [exact]; see
    GenEq.v).  [gen_generate_nonce] is the definition of Gen.v, generated from
    LinkLayerCryptoManager.generate_nonce (whad/ble/crypto.py) by harness/translators/pyfun.py;
    the check regenerates it on every run and re-checks these statements against the
    regenerated text. *)
From Coq Require Import List NArith Arith Bool.
From Whad Require Import Lib.Bytes Lib.PyOps C13.Model.
From Whad Require Import C13.Gen C13.GenEq.
Import ListNotations.

(** [generate_nonce] ([pack("<Q", counter & 0x7fffffffff)[:5]], direction bit ORed into the
    fifth byte, [+ self.iv]) IS the model's [nonce_of] — for every counter value (also beyond
    39 bits), both directions and every IV.  [m2s] = [direction == MASTER_TO_SLAVE]. *)
Theorem C13_gen_generate_nonce_eq :
  forall (m2s : bool) (mcnt scnt : N) (ivb : bytes),
    gen_generate_nonce m2s mcnt scnt ivb
    = nonce_of (if m2s then mcnt else scnt) (if m2s then M2S else S2M) ivb.
Proof. exact gen_generate_nonce_eq. Qed.

(** With the manager record of the model: the generated function is [generate_nonce]. *)
Theorem C13_gen_generate_nonce_mgr :
  forall (st : mgr) (d : dir),
    gen_generate_nonce (dir_eqb d M2S) (mcnt st) (scnt st) (iv st) = generate_nonce st d.
Proof.
  exact (fun st d => match d as d0 return
                       gen_generate_nonce (dir_eqb d0 M2S) (mcnt st) (scnt st) (iv st) = generate_nonce st d0
                     with
                     | M2S => gen_generate_nonce_eq true (mcnt st) (scnt st) (iv st)
                     | S2M => gen_generate_nonce_eq false (mcnt st) (scnt st) (iv st)
                     end).
Qed.

(** The Gallina operations agree with Python unconditionally here: the masked counter fits
    "<Q", [counter[4]] exists, and [counter[4] | direction] is a byte. *)
Theorem C13_gen_generate_nonce_domain :
  forall (m2s : bool) (mcnt scnt : N) (ivb : bytes), gen_generate_nonce_pre m2s mcnt scnt ivb.
Proof. exact gen_generate_nonce_pre_ok. Qed.

(** Non-vacuity: counter 2^32+1, slave to master. *)
Example C13_gen_nonvacuous :
  gen_generate_nonce false 0 4294967297 [9%N] = [1%N; 0%N; 0%N; 0%N; 129%N; 9%N].
Proof. vm_compute. reflexivity. Qed.
