(** C13 — property theorems only (each closed by [exact]); see Proofs.v.
    Every theorem holds for an ARBITRARY block function [E] with 16-byte outputs
    (AES-128 in the implementation): nothing about AES is assumed. *)
From Coq Require Import List NArith Arith Bool Lia.
From Whad Require Import Lib.Bytes Lib.Xor Lib.Aes Lib.Ccm C13.Model C13.Proofs.
Import ListNotations.

(** Inverse: a PDU (header, length, payload; any payload length, in particular 0..251)
    encrypted by a manager is decrypted to the original header and payload by a manager in
    the same state, for every key material, direction, counter value and tolerance >= 1;
    the receiver's counters are left where they were (the caller increments). *)
Theorem C13_decrypt_encrypt :
  forall E, (forall k b, length (E k b) = 16) ->
  forall (st : mgr) (pdu : bytes) (d : dir) (tol : nat),
    2 <= length pdu -> 1 <= tol ->
    exists c, encrypt E st pdu d = Ok c /\ decrypt E st c d tol = (st, Ok (pdu, true)).
Proof. exact decrypt_encrypt. Qed.

(** The same when the sender's counter is ahead by k < tolerance (k PDUs were lost):
    the receiver recovers the PDU and its counter catches up with the sender's. The
    premise [rejects_from] says the MIC is not valid at the k earlier counters the receiver
    tries first (a 32-bit MAC collision there would be accepted; see
    [C13_tamper_always_fails_refuted]). *)
Theorem C13_decrypt_encrypt_skew :
  forall E, (forall k b, length (E k b) = 16) ->
  forall (tx rx : mgr) (pdu : bytes) (d : dir) (tol k : nat) (c : bytes),
    2 <= length pdu -> sk tx = sk rx -> iv tx = iv rx ->
    cnt tx d = (cnt rx d + N.of_nat k)%N -> k < tol ->
    encrypt E tx pdu d = Ok c ->
    rejects_from E rx d (cnt rx d) k c = true ->
    decrypt E rx c d tol = (set_cnt rx d (cnt tx d), Ok (pdu, true)).
Proof. exact decrypt_encrypt_skew. Qed.

(** Histories: any sequence of PDUs in both directions with arbitrary per-direction loss
    patterns ([link_ok]: fewer than [tol] consecutive losses per direction, no MIC collision
    at the skipped counters). Every delivered PDU is recovered exactly, in order. *)
Theorem C13_decrypt_encrypt_sequence :
  forall E, (forall k b, length (E k b) = 16) ->
  forall (tol : nat) (st : mgr) (evs : list event),
    pdus_ok evs -> link_ok E tol st st evs = true ->
    run_link E tol st st evs = delivered_pdus evs.
Proof. exact decrypt_encrypt_sequence. Qed.

(** Without losses nothing is assumed at all. *)
Theorem C13_decrypt_encrypt_sequence_no_loss :
  forall E, (forall k b, length (E k b) = 16) ->
  forall (tol : nat) (st : mgr) (evs : list event),
    1 <= tol -> pdus_ok evs -> Forall (fun e : event => snd e = true) evs ->
    run_link E tol st st evs = delivered_pdus evs.
Proof. exact decrypt_encrypt_sequence_no_loss. Qed.

(** decrypt (the retry loop with counter increments and the restore) computes exactly:
    try cnt, cnt+1, .., cnt+tol-1; accept at the first counter whose recomputed MIC equals
    the received one, leaving the counter there; else fail with the state unchanged. *)
Theorem C13_decrypt_is_spec :
  forall E, (forall k b, length (E k b) = 16) ->
  forall (st : mgr) (pdu : bytes) (d : dir) (tol : nat),
    decrypt E st pdu d tol = decrypt_spec_of E st pdu d tol.
Proof. exact decrypt_spec. Qed.

(** Decryption succeeds IFF the received MIC equals the MIC recomputed from
    (session key, IV, direction, counter, masked header, decrypted payload) for one of the
    tolerated counters. *)
Theorem C13_accept_iff_tag :
  forall E, (forall k b, length (E k b) = 16) ->
  forall (st : mgr) (pdu : bytes) (d : dir) (tol : nat), pdu <> [] ->
    (exists st' p, decrypt E st pdu d tol = (st', Ok (p, true))) <->
    (exists k, k < tol /\
       mic_of pdu = mic_for E st d (cnt st d + N.of_nat k) (hd 0%N pdu)
                            (plain_at E st d (cnt st d + N.of_nat k) (body_of pdu))).
Proof. exact accept_iff_tag. Qed.

Theorem C13_accept_result :
  forall E, (forall k b, length (E k b) = 16) ->
  forall (st : mgr) (pdu : bytes) (d : dir) (tol : nat) (st' : mgr) (p : bytes), pdu <> [] ->
    decrypt E st pdu d tol = (st', Ok (p, true)) <->
    exists k, k < tol /\ rejects_from E st d (cnt st d) k pdu = true /\
              accepts_at E st d (cnt st d + N.of_nat k) pdu = true /\
              st' = set_cnt st d (cnt st d + N.of_nat k) /\
              p = firstn 2 pdu ++ plain_at E st d (cnt st d + N.of_nat k) (body_of pdu).
Proof. exact accept_result. Qed.

(** None of IV, direction, counter (39 bits), masked header bits, payload is left out of
    what the MIC is computed over: the CBC-MAC input is injective in all of them. *)
Theorem C13_format_injective :
  forall (ivb ivb' : bytes) (d d' : dir) (c c' h h' : N) (pt pt' : bytes),
    length ivb = length ivb' -> (c < two39)%N -> (c' < two39)%N ->
    (N.of_nat (length pt) < 65536)%N -> (N.of_nat (length pt') < 65536)%N ->
    auth_blocks_of ivb d c h pt = auth_blocks_of ivb' d' c' h' pt' ->
    ivb = ivb' /\ d = d' /\ c = c' /\ N.land h header_mask = N.land h' header_mask /\ pt = pt'.
Proof. exact format_injective. Qed.

(** ... and the session key input / IV are injective in (SKDm, IVm, SKDs, IVs). *)
Theorem C13_session_material_injective :
  forall (m m' : material),
    (m_skd m < two64)%N -> (s_skd m < two64)%N -> (m_iv m < two32)%N -> (s_iv m < two32)%N ->
    (m_skd m' < two64)%N -> (s_skd m' < two64)%N -> (m_iv m' < two32)%N -> (s_iv m' < two32)%N ->
    session_skd m = session_skd m' -> session_iv m = session_iv m' -> m = m'.
Proof. exact session_material_injective. Qed.

(** Tamper evidence, conditional: if the received MIC differs from the MIC recomputed over
    the received (tampered) data at each tolerated counter, decryption reports failure and
    the manager is unchanged. Covers ciphertext, MIC and masked-header changes, a wrong
    key, IV or direction (they all change what is recomputed). *)
Theorem C13_tamper_fails_if_mac_differs :
  forall E, (forall k b, length (E k b) = 16) ->
  forall (st : mgr) (pdu : bytes) (d : dir) (tol : nat),
    pdu <> [] -> 1 <= tol ->
    rejects_from E st d (cnt st d) tol pdu = true ->
    exists p, decrypt E st pdu d tol = (st, Ok (p, false)).
Proof. exact tamper_fails_if_mac_differs. Qed.

(** Unconditional special case: changing only the integrity code is always detected at the
    sender's counter. *)
Theorem C13_mic_change_rejected :
  forall E, (forall k b, length (E k b) = 16) ->
  forall (st : mgr) (h l : N) (rest : bytes) (d : dir) (mic' : bytes),
    length mic' = 4 -> mic' <> mic_for E st d (cnt st d) h rest ->
    accepts_at E st d (cnt st d)
      (h :: l :: ccm_keystream_xor E 2 (sk st) (generate_nonce st d) rest ++ mic') = false.
Proof. exact mic_change_rejected. Qed.

(** A decryption that does not succeed (reported failure or exception) leaves the whole
    manager state, hence both counters, unchanged. Unconditional. *)
Theorem C13_counters_unchanged_on_failure :
  forall E, (forall k b, length (E k b) = 16) ->
  forall (st : mgr) (pdu : bytes) (d : dir) (tol : nat) (st' : mgr) (o : outcome (bytes * bool)),
    decrypt E st pdu d tol = (st', o) -> (forall p, o <> Ok (p, true)) -> st' = st.
Proof. exact counters_unchanged_on_failure. Qed.

(** A counter further off than the tolerated skew: rejected, state unchanged (conditional on
    the MIC not colliding at the tol counters tried). *)
Theorem C13_skew_beyond_tolerance_rejected :
  forall E, (forall k b, length (E k b) = 16) ->
  forall (tx rx : mgr) (pdu : bytes) (d : dir) (tol : nat) (c : bytes),
    sk tx = sk rx -> iv tx = iv rx -> 1 <= tol ->
    (cnt rx d + N.of_nat tol <= cnt tx d)%N ->
    encrypt E tx pdu d = Ok c ->
    rejects_from E rx d (cnt rx d) tol c = true ->
    exists p, decrypt E rx c d tol = (rx, Ok (p, false)).
Proof. exact skew_beyond_tolerance_rejected. Qed.

(** The passive decryptor, given the right key and the material of the connection, starting
    from an empty cache, recovers exactly the plaintext PDU (header, length, payload) of every
    captured PDU of a connection, both directions interleaved, the sniffer missing at most
    one PDU in a row per direction ([capture_ok]: also no MIC collision at the counters /
    direction tried before the right one). *)
Theorem C13_decryptor_recovers_plaintext :
  forall E, (forall k b, length (E k b) = 16) ->
  forall (key : bytes) (mat : material) (st0 : mgr) (evs : list event),
    mk_manager E key mat = Ok st0 ->
    pdus_ok evs -> capture_ok E st0 st0 evs = true ->
    snd (attempt_all E {| keys := [key]; mats := [mat]; managers := [] |} (capture E st0 evs))
    = captured_plain evs.
Proof. exact decryptor_recovers_plaintext. Qed.

(** The decryptor's lists: materials are tried in order (index i) and, for each, the keys in
    order; managers are cached per (key, material index). Combinations tried before the right
    one do not matter as long as they reject the PDU and leave the cache as it is
    ([combo_rejects]); the first accepting combination gives the result. Arbitrary state. *)
Theorem C13_decryptor_material_list :
  forall E, (forall k b, length (E k b) = 16) ->
  forall (ds : dstate) (pdu : bytes) (ms1 : list material) (mat : material) (ms2 : list material)
         (ks1 : list bytes) (key : bytes) (ks2 : list bytes) (mgrs' : list ((bytes * N) * mgr)) (p : bytes),
    mats ds = ms1 ++ mat :: ms2 -> keys ds = ks1 ++ key :: ks2 ->
    (N.eqb (nth 1 pdu 0%N) 0 && N.eqb (N.land (nth 0 pdu 0%N) 3) 1)%bool = false ->
    Forall (fun im => Forall (combo_rejects E (managers ds) pdu (fst im) (snd im)) (keys ds)) (indexed 0 ms1) ->
    Forall (combo_rejects E (managers ds) pdu (N.of_nat (length ms1)) mat) ks1 ->
    try_key E (managers ds) key (N.of_nat (length ms1)) mat pdu = (mgrs', Ok (Some p)) ->
    attempt E ds pdu = ({| keys := keys ds; mats := mats ds; managers := mgrs' |}, Ok (Some p)).
Proof. exact attempt_material_list. Qed.

(** Per PDU, from an arbitrary decryptor state: a captured PDU of ANY session whose key and
    material the decryptor holds, anywhere in its lists, is recovered exactly. *)
Theorem C13_decryptor_recovers_multi_session_pdu :
  forall E, (forall k b, length (E k b) = 16) ->
  forall (ds : dstate) (ms1 : list material) (mat : material) (ms2 : list material)
         (ks1 : list bytes) (key : bytes) (ks2 : list bytes) (tx rx : mgr) (d : dir) (h l : N) (rest c : bytes),
    mats ds = ms1 ++ mat :: ms2 -> keys ds = ks1 ++ key :: ks2 ->
    match lookup key (N.of_nat (length ms1)) (managers ds) with Some m => Ok m | None => mk_manager E key mat end = Ok rx ->
    sk tx = sk rx -> iv tx = iv rx -> (cnt rx d <= cnt tx d)%N ->
    encrypt E tx (h :: l :: rest) d = Ok c ->
    let a := air_pdu c in
    let gap := N.to_nat (cnt tx d - cnt rx d) in
    gap < 2 -> rejects_from E rx d (cnt rx d) gap a = true ->
    match d with M2S => true | S2M => rejects_from E rx M2S (cnt rx M2S) 2 a end = true ->
    Forall (fun im => Forall (combo_rejects E (managers ds) a (fst im) (snd im)) (keys ds)) (indexed 0 ms1) ->
    Forall (combo_rejects E (managers ds) a (N.of_nat (length ms1)) mat) ks1 ->
    attempt E ds a
    = ({| keys := keys ds; mats := mats ds;
          managers := store key (N.of_nat (length ms1)) (incr (set_cnt rx d (cnt tx d)) d) (managers ds) |},
       Ok (Some (h :: l :: rest))).
Proof. exact decryptor_multi_session_pdu. Qed.

(** Whole captures made of several successive sessions (induction over the list of sessions,
    each by induction over its PDUs): for ANY list of sessions whose keys and materials sit
    anywhere in the decryptor's lists ([sess_wf]; keys may repeat, e.g. the same LTK with fresh
    SKD/IV), from ANY cache state, every captured PDU of every session is recovered, in
    order. [sessions_ok]: no manager is cached yet for a session's (key, material) when it
    starts, and its PDUs are rejected by the combinations tried before the right one (MAC
    condition, as in [capture_ok]). *)
Theorem C13_decryptor_recovers_sessions :
  forall E, (forall k b, length (E k b) = 16) ->
  forall (ks : list bytes) (ms : list material) (l : list sess) (mgrs : list ((bytes * N) * mgr)),
    Forall (sess_wf E ks ms) l -> sessions_ok E mgrs l ->
    snd (attempt_all E {| keys := ks; mats := ms; managers := mgrs |}
                     (concat (map (fun s => capture E (s_st0 s) (s_evs s)) l)))
    = concat (map (fun s => captured_plain (s_evs s)) l).
Proof. exact decryptor_recovers_sessions. Qed.

(** The formerly refuted statement: two successive sessions under the SAME key with fresh
    SKD/IV (reconnection of bonded devices) are both recovered (managers cached per key AND
    material). The second session's PDUs are first tried with the first session's cached
    manager, where they must be rejected (MAC condition [session_ok]). *)
Definition C13_decryptor_same_key_sessions_statement : Prop :=
  forall E, (forall k b, length (E k b) = 16) ->
  forall (key : bytes) (m1 m2 : material) (st1 st2 : mgr) (evs1 evs2 : list event),
    mk_manager E key m1 = Ok st1 -> mk_manager E key m2 = Ok st2 ->
    pdus_ok evs1 -> pdus_ok evs2 ->
    capture_ok E st1 st1 evs1 = true -> capture_ok E st2 st2 evs2 = true ->
    session_ok E [] key [] [m1] m2 (session_final key [] [] st1 st1 evs1) st2 st2 evs2 ->
    snd (attempt_all E {| keys := [key]; mats := [m1; m2]; managers := [] |}
                     (capture E st1 evs1 ++ capture E st2 evs2))
    = captured_plain evs1 ++ captured_plain evs2.

Theorem C13_decryptor_same_key_sessions : C13_decryptor_same_key_sessions_statement.
Proof. exact same_key_sessions. Qed.

Theorem C13_decryptor_ignores_empty_pdu :
  forall E (ds : dstate) (h : N) (rest : bytes),
    mats ds <> [] -> keys ds <> [] -> N.land h 3 = 1%N ->
    attempt E ds (h :: 0%N :: rest) = (ds, Ok None).
Proof. exact attempt_empty_pdu. Qed.

(** The stack (LinkLayer of whad/ble/stack/llm, crypto manager kept per connection handle).
    For ALL sequences of encryption start procedures run one after the other — any number,
    same or different connection handles, central (start_encryption, LL_ENC_RSP,
    LL_START_ENC_REQ) or peripheral (LL_ENC_REQ) side, any LTK/SKD/IV/rand/ediv, from ANY
    link-layer state in which the handles are registered — the k-th [set_encryption] handed to
    the PHY carries exactly e(LTK, SKDs || SKDm), IVm || IVs, LTK, rand, ediv of the k-th
    procedure: nothing of an earlier procedure survives into a later one. *)
Theorem C13_stack_procedures :
  forall E (procs : list proc) (st : lls),
    Forall (fun p => proc_wfb p = true /\ registered (p_h p) st = true) procs ->
    set_enc_only (snd (ll_run E false st (concat (map proc_events procs)))) = map (proc_expected E) procs.
Proof. exact stack_procedures. Qed.

(** What happens on a handle depends only on the events of that handle: the outputs of the
    events of [h] during a run of an ARBITRARY event sequence are the outputs of running the
    events of [h] alone (from any state agreeing with the start state on [h]). *)
Theorem C13_stack_handle_independence :
  forall E (h : N) (evs : list levent) (st : lls),
    outs_of E false h st evs = snd (ll_run E false st (on_handle h evs)).
Proof. exact handle_independence_same. Qed.

(** Arbitrary interleavings: whatever events of other handles (procedures, registrations,
    disconnections, stray PDUs) are interleaved, in whatever order, with the procedures [procs]
    run on handle [h], the PHY is given for [h] exactly the material of each of them. *)
Theorem C13_stack_interleavings :
  forall E (h : N) (procs : list proc) (evs : list levent) (st : lls),
    registered h st = true ->
    Forall (fun p => proc_wfb p = true /\ p_h p = h) procs ->
    on_handle h evs = concat (map proc_events procs) ->
    set_enc_only (outs_of E false h st evs) = map (proc_expected E) procs.
Proof. exact stack_interleavings. Qed.

(** The statement that used to be refuted (two central procedures on different handles, PDUs
    interleaved) now holds ... *)
Definition C13_stack_interleaved_statement : Prop := stack_interleaved_statement_for false.

Theorem C13_stack_interleaved : C13_stack_interleaved_statement.
Proof. exact stack_interleaved_statement_holds. Qed.

(** ... and is still false for the behaviour before the repair (one manager attribute shared by
    all handles): regression anchor for seeded/C13/revert-llcm-per-handle. *)
Theorem C13_stack_shared_manager_refuted : ~ stack_interleaved_statement_for true.
Proof. exact stack_shared_manager_refuted. Qed.

(** A disconnection drops the manager of the handle: a new connection reusing the handle is
    never given the previous connection's material. *)
Theorem C13_stack_no_manager_after_disconnect :
  forall E (h : N) (st : lls),
    snd (ll_run E false st [EDisc h; EConn h; EStartEncReq h]) = [LNone; LNone; LRaise AttributeError].
Proof. exact no_manager_after_disconnect. Qed.

(** Central and peripheral side of one procedure hand the same session key and IV to their PHY. *)
Theorem C13_stack_both_roles_same_key :
  forall E (p q : proc) (st st' : lls),
    proc_wfb p = true -> registered (p_h p) st = true -> registered (p_h q) st' = true ->
    p_central p = true -> p_central q = false ->
    p_h q = p_h p -> p_key q = p_key p -> p_rand q = p_rand p -> p_ediv q = p_ediv p ->
    p_skdm q = p_skdm p -> p_ivm q = p_ivm p -> p_skds q = p_skds p -> p_ivs q = p_ivs p ->
    set_enc_only (snd (ll_run E false st (proc_events p))) = set_enc_only (snd (ll_run E false st' (proc_events q))).
Proof. exact stack_both_roles. Qed.

(** "Changing ANY protected bit makes decryption fail", for every block function: not a
    theorem. It is false for some [E] (below: the constant function, for which every MIC is
    0000), and for AES it is a statement about the collision probability of a 32-bit MAC,
    which no proof assistant can give unconditionally. What is proved instead: the check IS
    made over every protected bit ([C13_accept_iff_tag], [C13_format_injective]); the
    every-single-bit sweep runs on the real implementation in the oracle. *)
Definition C13_tamper_always_fails_statement : Prop := tamper_always_fails_statement.

Theorem C13_tamper_always_fails_refuted : ~ C13_tamper_always_fails_statement.
Proof. exact tamper_always_fails_refuted. Qed.

(** The premises of the conditional theorems are met by concrete connections (AES-128):
    a link with a lost PDU in each direction, and a capture with both directions and a
    missed PDU ([nv_key], [nv_mat], [nv_evs] in Model.v). *)
Example C13_nonvacuous :
  match mk_manager aes128_enc nv_key nv_mat with
  | Ok st0 => link_ok aes128_enc 2 st0 st0 nv_evs = true /\ capture_ok aes128_enc st0 st0 nv_evs = true
              /\ pdus_ok nv_evs
              /\ length (delivered_pdus nv_evs) = 4
  | Raise _ => False
  end.
Proof.
  vm_compute. repeat split; try reflexivity.
  repeat constructor.
Qed.
