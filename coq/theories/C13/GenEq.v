(** C13 — the Gallina generated from LinkLayerCryptoManager.generate_nonce (whad/ble/crypto.py)
    by harness/translators/pyfun.py (snapshot: Gen.v; regenerated and re-checked against this
    very file on every run) is EQUAL to the nonce function [nonce_of] of the hand-written
    model: 39-bit packet counter little endian, direction bit in the fifth byte, 8-byte IV. *)
From Coq Require Import List NArith ZArith Arith Bool Lia ZifyBool ZifyN ZifyNat.
From Whad Require Import Lib.Bytes Lib.PyOps C13.Model.
From Whad Require Import C13.Gen.
Import ListNotations.
Ltac Zify.zify_post_hook ::= Z.to_euclidean_division_equations.

Lemma land_39 c : N.land c 549755813887 = (c mod two39)%N.
Proof. change 549755813887%N with (N.ones 39). rewrite N.land_ones. reflexivity. Qed.

(** the five bytes [pack("<Q", c39)[:5]] of a 39-bit value *)
Lemma pack5 x : (x < two39)%N ->
  py_pack_le 5 x = le32 (x mod two32) ++ [(x / two32)%N].
Proof.
  intros H. unfold two39, two32 in *. cbn [py_pack_le]. unfold le32. cbn [app].
  rewrite !N.div_div by lia.
  repeat (f_equal; try lia).
Qed.

Lemma gen_generate_nonce_eq m2s mcnt scnt ivb :
  gen_generate_nonce m2s mcnt scnt ivb
  = nonce_of (if m2s then mcnt else scnt) (if m2s then M2S else S2M) ivb.
Proof.
  unfold gen_generate_nonce, nonce_of. cbv zeta.
  set (c := if m2s then mcnt else scnt).
  rewrite land_39.
  assert (Hc : (c mod two39 < two39)%N) by (apply N.mod_lt; discriminate).
  set (x := (c mod two39)%N) in *.
  rewrite !py_slice_0. rewrite !(py_pack_le_firstn 8 5) by lia.
  rewrite (pack5 x Hc).
  unfold py_index, py_bytes.
  assert (L4 : length (le32 (x mod two32)) = 4) by reflexivity.
  rewrite firstn_app, L4, firstn_all2 by (rewrite L4; lia).
  cbn [Nat.sub firstn]. rewrite app_nil_r.
  rewrite app_nth2 by (rewrite L4; lia). rewrite L4. cbn [Nat.sub nth].
  rewrite <- app_assoc. f_equal. f_equal. f_equal.
  assert (Hq : (x / two32 < 128)%N) by (unfold two39, two32 in *; lia).
  destruct m2s; cbn [N.of_nat dir_byte].
  - rewrite N.lor_0_r, N.add_0_r. reflexivity.
  - change (N.of_nat 128) with 128%N. apply py_lor_128. exact Hq.
Qed.

(** The translation is faithful to Python for every counter value: the masked counter fits
    "<Q", index 4 exists in the 5-byte string, and the fifth byte stays a byte. *)
Lemma gen_generate_nonce_pre_ok m2s mcnt scnt ivb : gen_generate_nonce_pre m2s mcnt scnt ivb.
Proof.
  unfold gen_generate_nonce_pre. cbv zeta.
  set (c := if m2s then mcnt else scnt).
  rewrite land_39.
  assert (Hc : (c mod two39 < two39)%N) by (apply N.mod_lt; discriminate).
  set (x := (c mod two39)%N) in *.
  split; [unfold two39 in Hc; lia|].
  rewrite !py_slice_0. rewrite !(py_pack_le_firstn 8 5) by lia.
  split; [unfold py_len; rewrite py_pack_le_length; lia|].
  rewrite (pack5 x Hc). unfold py_index, all_bytes.
  assert (L4 : length (le32 (x mod two32)) = 4) by reflexivity.
  rewrite app_nth2 by (rewrite L4; lia). rewrite L4. cbn [Nat.sub nth].
  assert (Hq : (x / two32 < 128)%N) by (unfold two39, two32 in *; lia).
  constructor; [|constructor].
  destruct m2s; cbn [N.of_nat].
  - rewrite N.lor_0_r. lia.
  - change (N.of_nat 128) with 128%N. rewrite py_lor_128 by exact Hq. lia.
Qed.
